(* Reference executor driver: model_driver seq prog.txt tend_ticks fuel logflag
   prints "F lp acc cnt" per LP, "DONE 0|1", and with logflag=1 the dispatch sequence
   "D lp ticks type size fnv(payload)" in order. *)
open Model
open Conv

let fnv (pl : z list) : string =
  let h = ref 0xcbf29ce484222325L in
  List.iter (fun b -> h := Int64.mul (Int64.logxor !h (Int64.of_int (int_of_z b))) 0x100000001b3L) pl;
  let v = !h in
  if Int64.compare v 0L >= 0 && Int64.compare v 0x4000000000000000L < 0 then Int64.to_string v
  else Printf.sprintf "0x%Lx" v

let fnv_n (pl : n list) : string =
  let h = ref 0xcbf29ce484222325L in
  List.iter (fun b -> h := Int64.mul (Int64.logxor !h (Int64.of_int (int_of_n b))) 0x100000001b3L) pl;
  let v = !h in
  if Int64.compare v 0L >= 0 && Int64.compare v 0x4000000000000000L < 0 then Int64.to_string v
  else Printf.sprintf "0x%Lx" v

let load (path : string) : prog =
  let ic = open_in path in
  let lps = ref N0 and ncls = ref (n_of_int 1) and target = ref N0 and seed = ref N0 and plmode = ref N0 in
  let inits = ref [] and rows = ref [] and targets = ref [] in
  (try while true do
    let t = split (input_line ic) in
    (match t with
     | "lps" :: v :: _ -> lps := n_of_token v
     | "ncls" :: v :: _ -> ncls := n_of_token v
     | "target" :: v :: _ -> target := n_of_token v
     | "seed" :: v :: _ -> seed := n_of_token v
     | "plmode" :: v :: _ -> plmode := n_of_token v
     | "ptarget" :: a :: b :: _ -> targets := (n_of_token a, n_of_token b) :: !targets
     | "init" :: a :: b :: c :: d :: _ ->
       inits := (((n_of_token a, n_of_token b), n_of_token c), n_of_token d) :: !inits
     | "row" :: ty :: cls :: rest ->
       let r = ref rest in
       let next () = match !r with x :: tl -> r := tl; x | [] -> failwith "row" in
       let nd = int_of_string (next ()) in
       let draws = List.init nd (fun _ -> n_of_token (next ())) in
       let nm = int_of_string (next ()) in
       let mem = List.init nm (fun _ -> let a = n_of_token (next ()) in let b = n_of_token (next ()) in
                                         let c = n_of_token (next ()) in ((a, b), c)) in
       let no = int_of_string (next ()) in
       let outs = List.init no (fun _ ->
         let a = n_of_token (next ()) in let b = n_of_token (next ()) in let c = n_of_token (next ()) in
         let d = n_of_token (next ()) in let e = n_of_token (next ()) in
         { o_rule = a; o_arg = b; o_dt = c; o_type = d; o_size = e }) in
       rows := ((n_of_token ty, n_of_token cls), { r_draws = draws; r_mem = mem; r_outs = outs }) :: !rows
     | _ -> ())
  done with End_of_file -> close_in ic);
  { p_lps = !lps; p_ncls = !ncls; p_target = !target; p_seed = !seed; p_plmode = !plmode; p_targets = List.rev !targets;
    p_inits = List.rev !inits; p_rows = List.rev !rows }

let run () =
  let p = load Sys.argv.(2) in
  let tend = (match n_of_token Sys.argv.(3) with N0 -> None | t -> Some t) in
  let fuel = nat_of_int (int_of_string Sys.argv.(4)) in
  let logflag = Sys.argv.(5) = "1" in
  let evalinit = Array.length Sys.argv > 6 && Sys.argv.(6) = "1" in
  let stop = not (Array.length Sys.argv > 7 && Sys.argv.(7) = "0") in
  let (s, fin) = seq_run fuel p tend stop (seq_init p evalinit) in
  List.iteri (fun i st -> Printf.printf "F %d %s %s\n" i (string_of_n st.l_acc) (string_of_n st.l_cnt)) s.q_lps;
  Printf.printf "DONE %d\n" (if fin then 1 else 0);
  if logflag then
    List.iter (fun e -> Printf.printf "D %s %s %s %d %s\n" (string_of_n e.e_dest) (string_of_n e.e_t)
                  (string_of_n e.e_type) (List.length e.e_pl) (fnv_n e.e_pl)) (List.rev s.q_log)
