(* model_driver gvtphase n < transitions     lines "rid to" (to in I A B C D); replays through TW/GvtExec.gstep *)
open Model
open Conv
let ph_of = function "I" -> I | "A" -> A | "B" -> B | "C" -> C | _ -> D
let run () =
  let n = int_of_string Sys.argv.(2) in
  let st = ref (Model.gvt_init (nat_of_int n)) in
  let k = ref 0 and bad = ref false in
  iter_lines (fun line ->
    if not !bad then
    match split line with
    | [r; t] ->
      incr k;
      (match gstep !st (nat_of_int (int_of_string r)) (ph_of t) with
       | Some s' -> st := s'
       | None -> Printf.printf "DIVERGE at transition %d: thread %s -> %s not enabled in the model (ca=%d cb=%d)\n" !k r t (int_of_nat !st.ca) (int_of_nat !st.cb); bad := true)
    | _ -> ());
  Printf.printf "%s %d\n" (if !bad then "BAD" else "OK") !k
