(* Replays a schedule log of harness/drv_barrier.c through the barrier model (Sync/BarrierProto.v).
   model_driver barrier nthreads < schedlog
   A log line "tid point" is written when thread tid reaches a scheduling point; the action that follows the point
   (1: fetch-add, 2: one poll of the counter, 3: nothing) runs in that thread's next segment, i.e. right before its next line. *)
open Model
open Conv
let run () =
  let n = int_of_string Sys.argv.(2) in
  let st = ref (Model.barrier_init (nat_of_int n)) in
  let pending = Array.make n 0 in
  let used = Array.make n 0 in
  let bad = ref false in
  let act i p next =
    if p = 1 then begin
      match enter !st (nat_of_int i) with
      | Some s' -> st := s'
      | None -> Printf.printf "MODEL-STUCK enter %d\n" i; bad := true
    end else if p = 2 then begin
      match poll !st (nat_of_int i) with
      | Some (s', Some l) ->
        st := s';
        Printf.printf "L %d %d %d\n" i used.(i) (if l then 1 else 0);
        used.(i) <- used.(i) + 1;
        if next <> 3 then begin Printf.printf "DIVERGE thread %d: model leaves the barrier, implementation keeps polling\n" i; bad := true end
      | Some (_, None) ->
        if next <> 2 then begin Printf.printf "DIVERGE thread %d: implementation left the barrier, model still waits (early exit)\n" i; bad := true end
      | None -> Printf.printf "MODEL-STUCK poll %d\n" i; bad := true
    end in
  iter_lines (fun line ->
    match split line with
    | [a; b] -> let i = int_of_string a and p = int_of_string b in
      if not !bad then begin act i pending.(i) p; pending.(i) <- p end
    | _ -> ());
  print_endline (if !bad then "BAD" else "OK")
