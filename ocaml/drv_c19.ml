open Model
open Conv
let geom_of_int = function 1 -> Hexagon | 2 -> Square | 3 -> Torus | 4 -> Ring | 5 -> Bidring | 6 -> Star | 7 -> Fcmesh | _ -> Graph
let topo = ref { t_geom = Ring; t_regions = N0; t_w = N0; t_h = N0; t_adj = [] }
let pst s = Printf.sprintf "%s %s %s %s" (string_of_n s.s0) (string_of_n s.s1) (string_of_n s.s2) (string_of_n s.s3)
let q t =
  match t with
  | from :: dir :: a :: b :: c :: d :: _ ->
    let s = { s0 = n_of_token a; s1 = n_of_token b; s2 = n_of_token c; s3 = n_of_token d } in
    let from = n_of_token from and dir = n_of_token dir in
    let tp = !topo in
    (match tp.t_geom, int_of_n dir with
     | Graph, 8 when int_of_n from < int_of_n tp.t_regions ->
       (* the pick among the adjacency list is an oracle: print the candidate set *)
       (match get_receiver (nat_of_int 64) N0 tp s from dir with
        | Some (None, s') -> Printf.printf "Q INV %s -\n" (pst s')
        | Some (Some _, s') ->
          let adj = List.nth tp.t_adj (int_of_n from) in
          Printf.printf "Q {%s} %s 1\n" (String.concat "," (List.map string_of_n adj)) (pst s')
        | None -> print_endline "Q UNDEFINED")
     | _ ->
       (match get_receiver (nat_of_int 64) N0 tp s from dir with
        | Some (None, s') -> Printf.printf "Q INV %s -\n" (pst s')
        | Some (Some r, s') -> Printf.printf "Q %s %s %d\n" (string_of_n r) (pst s') (if is_neighbor tp from r then 1 else 0)
        | None -> print_endline "Q FUEL"))
  | _ -> ()
let run () = iter_lines (fun line ->
  match split line with
  | "T" :: g :: a :: b :: _ ->
    let g = geom_of_int (int_of_string g) and a = n_of_token a and b = n_of_token b in
    let grid = (g = Hexagon || g = Square || g = Torus) in
    let regions = if grid then N.mul a b else a in
    let adj = if g = Graph then List.init (int_of_n regions) (fun _ -> []) else [] in
    topo := { t_geom = g; t_regions = regions; t_w = (if grid then b else N0); t_h = (if grid then a else N0); t_adj = adj };
    Printf.printf "T %d\n" (if regions = N0 then 0 else 1)
  | "L" :: f :: t :: _ -> topo := add_link !topo (n_of_token f) (n_of_token t); print_endline "L 1"
  | "Q" :: t -> q t
  | "C" :: f :: _ -> Printf.printf "C %s\n" (string_of_n (count_directions !topo (n_of_token f)))
  | "NB" :: f :: t :: _ -> Printf.printf "NB %d\n" (if is_neighbor !topo (n_of_token f) (n_of_token t) then 1 else 0)
  | "PAR" :: _ -> ()
  | _ -> ())
