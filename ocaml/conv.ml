(* Conversions between text tokens and the extracted numeric types (positive / n / z / nat).
   Printing rule shared with harness/vh.h: decimal below 2^62, hex (0x...) from there on. *)
open Model

let rec pos_of_int (n : int) : positive =
  if n <= 1 then XH else if n land 1 = 1 then XI (pos_of_int (n lsr 1)) else XO (pos_of_int (n lsr 1))
let n_of_int (n : int) : n = if n = 0 then N0 else Npos (pos_of_int n)
let z_of_int (n : int) : z = if n = 0 then Z0 else if n > 0 then Zpos (pos_of_int n) else Zneg (pos_of_int (- n))
let nat_of_int (n : int) : nat = let rec go acc k = if k <= 0 then acc else go (S acc) (k - 1) in go O n
let rec int_of_nat (n : nat) : int = match n with O -> 0 | S k -> 1 + int_of_nat k

(* bits, least significant first *)
let rec bits_of_pos (p : positive) : bool list =
  match p with XH -> [true] | XO q -> false :: bits_of_pos q | XI q -> true :: bits_of_pos q

let pos_of_bits_msb (bs : bool list) : positive option =
  List.fold_left (fun acc b -> match acc with
    | None -> if b then Some XH else None
    | Some p -> Some (if b then XI p else XO p)) None bs

let hexdigit c = match c with
  | '0'..'9' -> Char.code c - 48 | 'a'..'f' -> Char.code c - 87 | 'A'..'F' -> Char.code c - 55
  | _ -> failwith "hex"

let n_of_token (s : string) : n =
  let l = String.length s in
  if l > 2 && s.[0] = '0' && (s.[1] = 'x' || s.[1] = 'X') then begin
    let bs = ref [] in
    for i = 2 to l - 1 do
      let d = hexdigit s.[i] in
      bs := !bs @ [d land 8 <> 0; d land 4 <> 0; d land 2 <> 0; d land 1 <> 0]
    done;
    match pos_of_bits_msb !bs with None -> N0 | Some p -> Npos p
  end else n_of_int (int_of_string s)

let z_of_token (s : string) : z =
  if String.length s > 0 && s.[0] = '-' then
    (match n_of_token (String.sub s 1 (String.length s - 1)) with N0 -> Z0 | Npos p -> Zneg p)
  else (match n_of_token s with N0 -> Z0 | Npos p -> Zpos p)

let string_of_pos (p : positive) : string =
  let bs = bits_of_pos p in
  let nb = List.length bs in
  if nb <= 62 then begin
    let v = ref 0 in
    List.iteri (fun i b -> if b then v := !v lor (1 lsl i)) bs;
    string_of_int !v
  end else begin
    let arr = Array.of_list bs in
    let nd = (nb + 3) / 4 in
    let buf = Buffer.create (nd + 2) in
    Buffer.add_string buf "0x";
    for d = nd - 1 downto 0 do
      let v = ref 0 in
      for k = 3 downto 0 do
        let i = d * 4 + k in
        v := !v * 2 + (if i < nb && arr.(i) then 1 else 0)
      done;
      Buffer.add_char buf "0123456789abcdef".[!v]
    done;
    Buffer.contents buf
  end

let string_of_n (x : n) = match x with N0 -> "0" | Npos p -> string_of_pos p
let string_of_z (x : z) = match x with Z0 -> "0" | Zpos p -> string_of_pos p | Zneg p -> "-" ^ string_of_pos p

let int_of_n (x : n) : int = match x with N0 -> 0 | Npos p ->
  let v = ref 0 in List.iteri (fun i b -> if b then v := !v lor (1 lsl i)) (bits_of_pos p); !v
let int_of_z (x : z) : int = match x with Z0 -> 0 | Zpos p -> int_of_n (Npos p) | Zneg p -> - (int_of_n (Npos p))

let bytes_of_hex (s : string) : z list =
  if s = "-" then [] else
  let l = String.length s / 2 in
  List.init l (fun i -> z_of_int (hexdigit s.[2*i] * 16 + hexdigit s.[2*i+1]))

let split (s : string) : string list =
  List.filter (fun t -> t <> "") (String.split_on_char ' ' (String.trim s))

let iter_lines (f : string -> unit) : unit =
  try while true do f (input_line stdin) done with End_of_file -> ()

(* sign-magnitude key of a double given by its bit pattern *)
let time_key_of_token (s : string) : z =
  match n_of_token s with
  | N0 -> Z0
  | Npos p ->
    let bs = Array.of_list (bits_of_pos p) in
    let nb = Array.length bs in
    let neg = nb = 64 && bs.(63) in
    let mag = pos_of_bits_msb (List.rev (Array.to_list (Array.sub bs 0 (min nb 63)))) in
    (match mag with None -> Z0 | Some q -> if neg then Zneg q else Zpos q)
