open Model
open Conv
let tmax = z_of_token "0x4000000000000000"
let pt (t : z) = if t = tmax then "MAX" else string_of_z t
let show s voted =
  let lte = (match s.to_end with Zneg _ -> "WRAP" | v -> string_of_z v) in
  Printf.printf "S %s %s %d |%s\n" lte (pt s.max_t) voted (String.concat "" (List.map (fun t -> " " ^ pt t) s.term))
let run () =
  let st = ref (t_init tmax []) in
  iter_lines (fun line ->
    match split line with
    | "N" :: _ :: preds -> st := t_init tmax (List.map (fun x -> x = "1") preds); show !st 0
    | "P" :: lp :: t :: pr :: _ -> st := Model.step tmax !st (Proc (nat_of_int (int_of_string lp), z_of_token t, pr = "1")); show !st 0
    | "R" :: lp :: t :: _ -> st := Model.step tmax !st (Rb (nat_of_int (int_of_string lp), z_of_token t, O)); show !st 0
    | "G" :: g :: tend :: _ ->
      let te = (match z_of_token tend with Z0 -> tmax | v -> v) in
      let v = votes !st (z_of_token g) te in
      st := Model.step tmax !st (Gvt (z_of_token g, te)); show !st (if v then 1 else 0)
    | _ -> ())
