(* model_driver alloc hdr ahdr < ops   (ops as for harness/drv_alloc.c, with "rank=<k>" appended where the C run inserted a fresh arena) *)
open Model
open Conv
let b = nat_of_int 6 and h = nat_of_int 10
let fnv_nats (l : nat list) : string =
  let hsh = ref 0xcbf29ce484222325L in
  List.iter (fun v -> hsh := Int64.mul (Int64.logxor !hsh (Int64.of_int (int_of_nat v))) 0x100000001b3L) l;
  let v = !hsh in
  if Int64.compare v 0L >= 0 && Int64.compare v 0x4000000000000000L < 0 then Int64.to_string v else Printf.sprintf "0x%Lx" v
let run () =
  let hdr = n_of_token Sys.argv.(2) and ahdr = n_of_token Sys.argv.(3) in
  let st = ref (mm_init hdr) in
  let slots = Array.make 8192 None in        (* (arena id, leaf offset, requested size) *)
  let rank_of toks = List.fold_left (fun acc t -> if String.length t > 5 && String.sub t 0 5 = "rank=" then int_of_string (String.sub t 5 (String.length t - 5)) else acc) 0 toks in
  let narenas () = List.length !st.m_arenas in
  let pp op res before =
    (match res with None -> Printf.printf "%s NULL" op | Some (id, o) -> Printf.printf "%s %d %d" op (int_of_nat id) (int_of_nat o));
    if narenas () <> before then begin
      (* position of the newest arena *)
      let newest = int_of_nat !st.m_nextid - 1 in
      List.iteri (fun i a -> if int_of_nat a.a_id = newest then Printf.printf " new=%d" i) !st.m_arenas
    end in
  let fin () = Printf.printf " size=%s\n" (string_of_n !st.m_size) in
  iter_lines (fun line ->
    let toks = split line in
    match toks with
    | "M" :: k :: sz :: _ ->
      let before = narenas () in
      let (s', res) = rs_malloc b h ahdr !st (n_of_token sz) (nat_of_int (rank_of toks)) in
      st := s'; slots.(int_of_string k) <- (match res with Some (id, o) -> Some (id, o, n_of_token sz) | None -> None);
      pp "M" res before; fin ()
    | "C" :: k :: nm :: sz :: _ ->
      let before = narenas () in
      let nmn = n_of_token nm and szn = n_of_token sz in
      (* overflow check of rs_calloc (size_t is 64 bits) *)
      let tot = N.mul nmn szn in
      let ovf = (match szn with N0 -> false | _ -> N.ltb (N.div (n_of_token "0xffffffffffffffff") szn) nmn) in
      if ovf then begin Printf.printf "C NULL zero=1"; slots.(int_of_string k) <- None; fin () end else begin
        let (s', res) = rs_malloc b h ahdr !st tot (nat_of_int (rank_of toks)) in
        st := s';
        (match res with
         | Some (id, o) ->
           slots.(int_of_string k) <- Some (id, o, tot);
           st := write_block !st id o (nat_of_int (int_of_n tot / 64)) N0
         | None -> slots.(int_of_string k) <- None);
        pp "C" res before; Printf.printf " zero=1"; fin () end
    | "F" :: k :: _ ->
      (match slots.(int_of_string k) with
       | Some (id, o, _) -> (match rs_free b h !st id o with Some s' -> st := s'; Printf.printf "F" | None -> Printf.printf "F MODEL-ERR")
       | None -> Printf.printf "F");
      fin ()
    | "R" :: k :: nk :: sz :: _ ->
      let before = narenas () in
      let szn = n_of_token sz in
      let nk = int_of_string nk in
      (match (if int_of_string k < 0 then None else slots.(int_of_string k)) with
       | None ->
         if szn = N0 then begin Printf.printf "R NULL"; slots.(nk) <- None end else begin
           let (s', res) = rs_malloc b h ahdr !st szn (nat_of_int (rank_of toks)) in
           st := s'; slots.(nk) <- (match res with Some (id, o) -> Some (id, o, szn) | None -> None);
           pp "R" res before end
       | Some (id, o, _) ->
         (match rs_realloc b h ahdr !st id o szn (nat_of_int (rank_of toks)) with
          | Some (s', res) -> st := s'; slots.(nk) <- (match res with Some (id', o') -> Some (id', o', szn) | None -> None); pp "R" res before
          | None -> Printf.printf "R MODEL-ERR"));
      fin ()
    | "W" :: k :: tag :: _ ->
      (match slots.(int_of_string k) with
       | Some (id, o, sz) -> st := write_block !st id o (nat_of_int (int_of_n sz / 64)) (n_of_token tag)
       | None -> ());
      Printf.printf "W"; fin ()
    | "D" :: k :: _ ->
      (match slots.(int_of_string k) with
       | Some (id, o, sz) ->
         let ng = int_of_n sz / 64 in
         let o = int_of_nat o in
         if ng = 0 then Printf.printf "D MIXED" else begin
           let first = read_cell !st id (nat_of_int o) in
           let uni = ref true in
           for i = 1 to ng - 1 do if read_cell !st id (nat_of_int (o + i)) <> first then uni := false done;
           if !uni then Printf.printf "D %s" (string_of_n first) else Printf.printf "D MIXED" end
       | None -> Printf.printf "D MIXED");
      fin ()
    | "K" :: r :: _ -> st := checkpoint_take !st (n_of_token r); Printf.printf "K"; fin ()
    | "S" :: r :: _ ->
      (match checkpoint_restore b h ahdr !st (n_of_token r) with
       | Some (s', ri) -> st := s'; Printf.printf "S %s" (string_of_n ri)
       | None -> Printf.printf "S MODEL-ERR"); fin ()
    | "O" :: r :: _ ->
      (match fossil_collect !st (n_of_token r) with
       | Some (s', ri) -> st := s'; Printf.printf "O %s" (string_of_n ri)
       | None -> Printf.printf "O MODEL-ERR"); fin ()
    | "P" :: k :: o :: _ -> slots.(int_of_string k) <- slots.(int_of_string o); Printf.printf "P"; fin ()
    | "T" :: _ ->
      Printf.printf "T";
      List.iter (fun a -> Printf.printf " %d:%s" (int_of_nat a.a_id) (fnv_nats (flatten h a.a_tree))) !st.m_arenas;
      Printf.printf " logs=%d" (List.length !st.m_logs);
      List.iter (fun g -> Printf.printf ",%s" (string_of_n g.g_ref)) !st.m_logs;
      fin ()
    | _ -> ())
