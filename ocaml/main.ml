let () =
  match Sys.argv with
  | [| _; "c16" |] -> Drv_c16.run ()
  | [| _; "c14" |] -> Drv_c14.run ()
  | [| _; "c18" |] -> Drv_c18.run ()
  | [| _; "c19" |] -> Drv_c19.run ()
  | [| _; "term" |] -> Drv_term.run ()
  | [| _; "barrier"; _ |] -> Drv_barrier.run ()
  | [| _; "stats"; _ |] -> Drv_stats.run ()
  | [| _; "queue" |] -> Drv_queue.run ()
  | [| _; "flags" |] -> Drv_flags.run ()
  | [| _; "gvtphase"; _ |] -> Drv_gvt.run ()
  | [| _; "gvtnode"; _ |] -> Drv_gvtnode.run ()
  | [| _; "alloc"; _; _ |] -> Drv_alloc.run ()
  | [| _; "worker"; _; _ |] -> Drv_worker.run ()
  | a when Array.length a >= 6 && a.(1) = "seq" -> Drv_seq.run ()
  | _ -> prerr_endline "usage: model_driver <sub>"; exit 2
