let () =
  match Sys.argv with
  | [| _; "c16" |] -> Drv_c16.run ()
  | [| _; "c14" |] -> Drv_c14.run ()
  | [| _; "c18" |] -> Drv_c18.run ()
  | [| _; "c19" |] -> Drv_c19.run ()
  | _ -> prerr_endline "usage: model_driver <sub>"; exit 2
