(* model_driver flags < records    replays the per-message flag handshake through TW/Flags.fstep.
   records (exact order of a cooperatively scheduled run):  A ptr | F ptr | P ptr prev | C ptr prev | U ptr prev
   (allocation, release, receiver extraction, sender cancel, receiver undo; prev = flag word returned by the fetch-add) *)
open Model
open Conv
type inst = { mutable m : fm; mutable tracked : bool; mutable remote : bool; mutable live : bool }
let run () =
  let tbl : (string, inst) Hashtbl.t = Hashtbl.create 1024 in
  let nbad = ref 0 and nsteps = ref 0 and ninst = ref 0 in
  let bad s = if !nbad < 5 then print_endline ("DIVERGE " ^ s); incr nbad in
  let get p = match Hashtbl.find_opt tbl p with Some i -> i | None ->
    let i = { m = fm_init; tracked = false; remote = false; live = true } in Hashtbl.replace tbl p i; i in
  let step i a prev what p =
    incr nsteps;
    match fstep i.m a with
    | Some (m', pv) ->
      if int_of_z pv <> prev then bad (Printf.sprintf "%s %s: implementation saw flag word %d, model %d" what p prev (int_of_z pv));
      i.m <- m'
    | None -> bad (Printf.sprintf "%s %s (previous word %d): not enabled in the model (released or not in that place)" what p prev) in
  iter_lines (fun line ->
    match split line with
    | ["A"; p] -> incr ninst; Hashtbl.replace tbl p { m = fm_init; tracked = false; remote = false; live = true }
    | ["F"; p] ->
      let i = get p in
      if not i.live then bad (Printf.sprintf "FREE %s: released twice" p)
      else begin
        i.live <- false;
        if i.tracked && not i.remote then begin
          if i.m.f_freed then ()
          else (match fstep i.m Release with
                | Some (m', _) -> i.m <- m'
                | None -> (match fstep i.m FiniQueue with
                           | Some (m', _) -> i.m <- m'
                           | None -> bad (Printf.sprintf "FREE %s: released while still reachable (word %d, queued %d, in history %b)" p (int_of_z i.m.f_word) (int_of_z i.m.f_q) i.m.f_hist)))
        end
      end
    | ["P"; p; prev] ->
      let i = get p in let pv = int_of_string prev in
      if not i.live then bad (Printf.sprintf "PROC %s: buffer used after its release" p)
      else if i.remote || pv >= 4 then i.remote <- true
      else begin i.tracked <- true; step i Extract pv "PROC" p end
    | ["C"; p; prev] ->
      let i = get p in let pv = int_of_string prev in
      if not i.live then bad (Printf.sprintf "CANCEL %s: buffer used after its release" p)
      else if not i.remote then begin
        i.tracked <- true; step i Cancel pv "CANCEL" p;
        (* the copy the sender inserts when it saw PROCESSED: folded into the cancel for the replay *)
        if i.m.f_pend then (match fstep i.m SenderInsert with Some (m', _) -> i.m <- m' | None -> ())
      end
    | ["U"; p; prev] ->
      let i = get p in let pv = int_of_string prev in
      if not i.live then bad (Printf.sprintf "UNDO %s: buffer used after its release" p)
      else if i.remote || pv >= 6 then i.remote <- true
      else begin i.tracked <- true; step i Undo pv "UNDO" p end
    | _ -> ());
  Printf.printf "%s instances=%d steps=%d divergences=%d\n" (if !nbad = 0 then "OK" else "BAD") !ninst !nsteps !nbad
