(* Replays a schedule log of harness/drv_queue.c through the queue model (Heap/HeapList.v).  model_driver queue < schedlog *)
open Model
open Conv
let run () =
  let st = ref q_init in
  let nthr = 65 in
  let pending = Array.make nthr 0 in
  let cur_msg = Array.make nthr None in          (* message being inserted by a producer *)
  let expected = Array.make nthr (-1) in         (* id of the head it expects (-1 = empty list) *)
  let flag_id = Array.make nthr (-1) in
  let cons_op = ref "" in
  let cons_res = ref "" in
  let bad = ref false in
  let head () = match !st.q_shared with [] -> -1 | m :: _ -> int_of_nat m.qm_id in
  let diverge s = Printf.printf "DIVERGE %s\n" s; bad := true in
  (* perform the action that follows scheduling point p of thread i; [next] is the next point of that thread (0 = a note) *)
  let act i p next =
    if p = 20 then expected.(i) <- head ()
    else if p = 21 || p = 22 then begin
      if head () = expected.(i) then begin
        (match cur_msg.(i) with Some m -> st := q_push !st m | None -> ());
        if next = 22 then diverge (Printf.sprintf "thread %d: model CAS succeeds, implementation retries" i)
      end else begin
        expected.(i) <- head ();
        if next <> 22 then diverge (Printf.sprintf "thread %d: model CAS fails, implementation went on" i)
      end
    end else if p = 24 then st := q_flag !st (nat_of_int flag_id.(i))
    else if p = 23 then begin
      if !cons_op = "X" then begin
        let (r, s') = q_extract !st in st := s';
        cons_res := (match r with Some m -> Printf.sprintf "X %d" (int_of_nat m.qm_id) | None -> "X NONE")
      end else begin
        let (r, s') = q_peek !st in st := s';
        cons_res := (match r with Some t -> Printf.sprintf "K %d" (int_of_nat t) | None -> "K NONE0")
      end
    end in
  let flush i next = if pending.(i) <> 0 then begin let p = pending.(i) in pending.(i) <- 0; act i p next end in
  iter_lines (fun line ->
    if not !bad then
    match split line with
    | "#" :: tid :: "M" :: id :: t :: ty :: _ ->
      let i = int_of_string tid in flush i 0;
      cur_msg.(i) <- Some { qm_id = nat_of_int (int_of_string id); qm_t = nat_of_int (int_of_string t); qm_anti = false; qm_type = nat_of_int (int_of_string ty) }
    | "#" :: tid :: "FLAG" :: id :: _ -> let i = int_of_string tid in flush i 0; flag_id.(i) <- int_of_string id
    | "#" :: tid :: "OP" :: op :: _ -> let i = int_of_string tid in flush i 0; cons_op := op
    | "#" :: tid :: "RES" :: rest ->
      let i = int_of_string tid in flush i 0;
      let impl = String.concat " " rest in
      Printf.printf "RES %s | %s\n" impl !cons_res;
      if impl <> !cons_res then diverge (Printf.sprintf "consumer: implementation %s, model %s" impl !cons_res)
    | [a; b] -> let i = int_of_string a and p = int_of_string b in flush i p; pending.(i) <- p
    | _ -> ());
  print_endline (if !bad then "BAD" else "OK")
