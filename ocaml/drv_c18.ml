open Model
open Conv
let st t = match t with
  | [a; b; c; d] -> { s0 = n_of_token a; s1 = n_of_token b; s2 = n_of_token c; s3 = n_of_token d }
  | _ -> failwith "state"
let pst s = Printf.sprintf "%s %s %s %s" (string_of_n s.s0) (string_of_n s.s1) (string_of_n s.s2) (string_of_n s.s3)
let rec take n l = if n = 0 then [] else match l with [] -> [] | x :: r -> x :: take (n-1) r
let rec drop n l = if n = 0 then l else match l with [] -> [] | _ :: r -> drop (n-1) r
let run () = iter_lines (fun line ->
  match split line with
  | "INIT" :: lp :: seed :: _ -> Printf.printf "I %s\n" (pst (rng_init (n_of_token lp) (n_of_token seed)))
  | "U64" :: t -> let (r, s') = random_u64 (st (take 4 t)) in Printf.printf "U %s %s 1\n" (string_of_n r) (pst s')
  | "RND" :: t ->
    let (r, s') = random_u64 (st (take 4 t)) in
    (match random_bits r with
     | Some b -> Printf.printf "R %s %s 1\n" (string_of_n b) (pst s')
     | None -> Printf.printf "R UNDEFINED-SHIFT %s 1\n" (pst s'))
  | "RR" :: t ->
    let (r, s') = random_u64 (st (take 4 t)) in
    let a = drop 4 t in
    (match random_bits r, a with
     | Some b, [mn; mx] -> Printf.printf "G %s %s 1\n" (string_of_z (random_range b (z_of_token mn) (z_of_token mx))) (pst s')
     | _ -> Printf.printf "G UNDEFINED %s 1\n" (pst s'))
  | "NU" :: t ->
    let (r1, s') = random_u64 (st (take 4 t)) in
    let (r2, s'') = random_u64 s' in
    let a = drop 4 t in
    (match random_bits r1, random_bits r2, a with
     | Some b1, Some b2, [x; mn; mx] ->
       let x = z_of_token x and mn = z_of_token mn and mx = z_of_token mx in
       (* operand evaluation order of | is unspecified: both candidates *)
       Printf.printf "N %s|%s %s 1\n" (string_of_z (random_range_nonuniform b1 b2 x mn mx))
         (string_of_z (random_range_nonuniform b2 b1 x mn mx)) (pst s'')
     | _ -> Printf.printf "N UNDEFINED %s 1\n" (pst s''))
  | _ -> ())
