open Model
open Conv
let run () = iter_lines (fun line ->
  match split line with
  | l :: r :: t :: rest ->
    let ln = n_of_token l and rn = n_of_token r and tn = n_of_token t in
    Printf.printf "C %s %s %s\n" (string_of_n ln) (string_of_n rn) (string_of_n tn);
    let ri = int_of_n rn in
    for nd = 0 to ri - 1 do
      (match node_init ln rn tn (n_of_int nd) with
       | None -> Printf.printf "N %d FUEL\n" nd
       | Some ((nf, nl), nt) ->
         Printf.printf "N %d %s %s %s\n" nd (string_of_n nf) (string_of_n nl) (string_of_n nt);
         for rd = 0 to int_of_n nt - 1 do
           match thread_init nf nl nt (n_of_int rd) with
           | None -> Printf.printf "T %d %d FUEL\n" nd rd
           | Some (a, b) -> Printf.printf "T %d %d %s %s\n" nd rd (string_of_n a) (string_of_n b)
         done;
         let route1 lp =
           match owner ln rn tn lp with
           | Some (n', r') when int_of_n n' = nd -> Printf.printf "R %s %d %s\n" (string_of_n lp) nd (string_of_n r')
           | _ -> () in
         List.iter (fun tok ->
           if tok = "ALL" then for l = 0 to int_of_n ln - 1 do route1 (n_of_int l) done
           else route1 (n_of_token tok)) rest)
    done
  | _ -> ())
