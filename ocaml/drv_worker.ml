(* Worker model driver: model_driver lpw prog.txt ckpt_interval < script   (script of harness/drv_lp.c)
   prints after every script line "S k" followed by one "L lp acc cnt nhist hhist nlogs hlogs bound" line per LP and one
   "M lps_to_end max_t | termination_t of every LP" line (the termination accounting of TW/WorkerTerm.v driving TW/Term.v). *)
open Model
open Conv

let string_of_z_ (z : z) : string = match z with
  | Z0 -> "0"
  | Zpos q -> string_of_n (Npos q)
  | Zneg q -> "-" ^ string_of_n (Npos q)

let rec int_of_nat_ (n : nat) : int = let rec go a = function O -> a | S k -> go (a + 1) k in go 0 n

let dump k (p : prog) (w : worker) =
  Printf.printf "S %d%s\n" k (if w.k_err then " ERR" else "");
  let (ds, _) = wdigest w in
  List.iteri (fun i ((((acc, cnt), (nh, hh)), (nl, hl)), bound) ->
    Printf.printf "L %d %s %s %d %s %d %s %s\n" i (string_of_n acc) (string_of_n cnt) (int_of_nat_ nh) (string_of_n hh)
      (int_of_nat_ nl) (string_of_n hl) (string_of_z_ bound)) ds

(* SIMTIME_MAX of the termination model: any value above every tick the programs reach *)
let tmax : z = z_of_int max_int
let string_of_time (z : z) : string = if z = tmax then "MAX" else (match z with Zneg _ -> "-1" | _ -> string_of_z_ z)
let dump_term (ts : tstate) =
  let ((te, mt), terms) = tdigest ts in
  Printf.printf "M %s %s |%s\n" (string_of_z_ te) (string_of_time mt) (String.concat "" (List.map (fun t -> " " ^ string_of_time t) terms))

let run () =
  let p = Drv_seq.load Sys.argv.(2) in
  let ck = nat_of_int (int_of_string Sys.argv.(3)) in
  let w = ref (tw_init p tmax) in
  let k = ref 0 in
  (* hypothesis of the no-error / exactly-once theorems (TW/WorkerOnceApp.v): every schedulable type is below LP_INIT *)
  Printf.printf "T %d\n" (if types_okb p then 1 else 0);
  dump !k p (!w).tw_w; dump_term (!w).tw_t;
  iter_lines (fun line ->
    match split line with
    | [] -> ()
    | t :: rest ->
      let arg () = match rest with a :: _ -> int_of_string a | [] -> 0 in
      let o = (match t.[0] with
        | 'P' -> Some (OpP (nat_of_int (max 0 (arg ()))))
        | 'H' -> Some (OpH (nat_of_int (max 0 (arg ()))))
        | 'U' -> Some (OpU (nat_of_int (arg ())))
        | 'A' -> Some OpA
        | 'G' -> Some (OpG (n_of_int (arg ())))
        | 'E' -> Some (OpE (nat_of_int 2000000))
        | _ -> None) in
      (match o with
       | Some o -> w := twstep p ck tmax !w o; incr k; dump !k p (!w).tw_w; dump_term (!w).tw_t; if (!w).tw_ovf then print_endline "OVF"
       | None -> ()))
