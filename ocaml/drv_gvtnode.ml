(* model_driver gvtnode R < events     node-level GVT reduction (coq/TW/GvtNode.v), one thread per rank.
   Input: one traced event per line, "rank EVENT args", each rank's lines in its own program order:
     S            gvt_start_processing from idle
     F col        colour after the flip at the end of the first pass
     X dest col   remote (anti-)message sent to node dest, counted under colour col
     R col        remote (anti-)message received, counted under colour col
     C dest n     contribution of n messages for node dest to the reduce-scatter      K   contribution complete
     N need       the reduce-scatter completed: need = messages of the old colour addressed here
     W            the wait for those messages is over
     P            value published (second pass)          G   a GVT value was delivered (end of the round)
   The per-rank sequences are merged greedily: an event is replayed when the extracted step function accepts it (a receive needs
   a matching message in flight, the reduce-scatter result needs every contribution, the end of the round every value).
   Every event must eventually be accepted, and the numbers the code used must be the model's. *)
open Model
open Conv

type ev = S | F of bool | X of int * bool | R of bool | C of int * int | K | N of int | W | P | G

let show = function
  | S -> "S" | F c -> Printf.sprintf "F %b" c | X (d, c) -> Printf.sprintf "X %d %b" d c | R c -> Printf.sprintf "R %b" c
  | C (d, n) -> Printf.sprintf "C %d %d" d n | K -> "K" | N n -> Printf.sprintf "N %d" n | W -> "W" | P -> "P" | G -> "G"

let run () =
  let nr = int_of_string Sys.argv.(2) in
  let qs = Array.make nr [] in
  let nsend = Array.make nr 0 in
  iter_lines (fun line ->
    match split line with
    | r :: t :: rest ->
      let r = int_of_string r in
      let i k = int_of_string (List.nth rest k) in
      let e = (match t with
        | "S" -> Some S | "F" -> Some (F (i 0 = 1)) | "X" -> nsend.(r) <- nsend.(r) + 1; Some (X (i 0, i 1 = 1)) | "R" -> Some (R (i 0 = 1))
        | "C" -> Some (C (i 0, i 1)) | "K" -> Some K | "N" -> Some (N (i 0)) | "W" -> Some W | "P" -> Some P | "G" -> Some G | _ -> None) in
      (match e with Some e -> qs.(r) <- e :: qs.(r) | None -> ())
    | _ -> ());
  for r = 0 to nr - 1 do qs.(r) <- List.rev qs.(r) done;
  (* synthetic data: every rank starts with as many time-0 events as it will send messages (the counting protocol is what is replayed) *)
  let zeros n = List.init n (fun _ -> O) in
  let st = ref (gn_init false (List.init nr (fun r -> zeros (nsend.(r) + 1)))) in
  let rounds_done = ref 0 in
  let round_of = Array.make nr 0 in          (* rounds whose end this rank has already seen *)
  let pend_c = Array.make nr [] in           (* contribution entries read since the last K *)
  let steps = ref 0 and bad = ref None in
  let exec o = match gn_exec !st o with Some s' -> st := s'; true | None -> false in
  let fail r e why = if !bad = None then bad := Some (Printf.sprintf "rank %d event [%s]: %s" r (show e) why) in
  (* try the next event of rank r; true if it was consumed *)
  let try_rank r =
    match qs.(r) with
    | [] -> false
    | e :: rest ->
      let rn = nat_of_int r in
      let ok = (match e with
        | S -> exec (OStart rn)
        | F c -> if exec (OFlip rn) then (if gn_col !st rn <> c then fail r e "colour after the flip differs from the model's"; true) else false
        | X (d, c) ->
          if gn_col !st rn <> c then (fail r e (Printf.sprintf "message counted under colour %b while the model's rank carries %b" c (gn_col !st rn)); true)
          else if exec (OExtract (rn, O)) && exec (ORemote (rn, nat_of_int d, S O)) && exec (OFinish rn) then true
          else (fail r e "send not accepted by the model"; true)
        | R c -> (match gn_find !st rn c with Some k -> exec (ODeliver k) | None -> false)
        | C (d, n) -> pend_c.(r) <- (d, n) :: pend_c.(r); true
        | K ->
          if exec (OContrib rn) then begin
            List.iter (fun (d, n) -> let m = int_of_nat (gn_ctr !st rn (nat_of_int d)) in
              if m <> n then fail r e (Printf.sprintf "contributes %d messages for node %d, the model counted %d" n d m)) pend_c.(r);
            pend_c.(r) <- []; true end
          else false
        | N need ->
          if exec (OReduced rn) then (let m = int_of_nat (gn_need !st rn) in
            if m <> need then fail r e (Printf.sprintf "reduce-scatter result %d, the model's sum of contributions is %d" need m); true)
          else false
        | W -> exec (OWhite rn)
        | P -> exec (OPublish rn)
        | G -> if round_of.(r) < !rounds_done then (round_of.(r) <- round_of.(r) + 1; true)
               else if exec OGvt then (incr rounds_done; round_of.(r) <- round_of.(r) + 1; true) else false) in
      if ok then (qs.(r) <- rest; incr steps);
      ok in
  let progress = ref true in
  while !progress && !bad = None do
    progress := false;
    for r = 0 to nr - 1 do
      while !bad = None && try_rank r do progress := true done
    done
  done;
  (match !bad with
   | Some why -> Printf.printf "DIVERGE %s\n" why
   | None ->
     let stuck = ref [] in
     for r = nr - 1 downto 0 do (match qs.(r) with e :: _ -> stuck := (r, e) :: !stuck | [] -> ()) done;
     if !stuck <> [] then begin
       List.iter (fun (r, e) -> Printf.printf "DIVERGE rank %d event [%s] is never enabled in the model (stage %d, received %d/%d of the old colour, %d in flight)\n"
         r (show e) (int_of_nat (gn_stage !st (nat_of_int r))) (int_of_nat (gn_recv !st (nat_of_int r) (not (gn_col !st (nat_of_int r)))))
         (int_of_nat (gn_need !st (nat_of_int r))) (int_of_nat (gn_inflight !st))) !stuck;
       bad := Some "stuck" end);
  Printf.printf "%s steps=%d rounds=%d inflight=%d\n" (if !bad = None then "OK" else "BAD") !steps !rounds_done (int_of_nat (gn_inflight !st))
