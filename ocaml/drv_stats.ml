(* model_driver stats file.bin : decodes a statistics file with the extracted decoder of Stats/StatsFormat.v
   prints: "DECODE ok|fail", "REST n" (bytes left), "REENC 0|1" (encode (decode f) = f), "NAMES n",
   per node "NODE threads nrecs", "G gvtbits rss" per node record, "T tid nrecs", "R tid v0 .. v11" per thread record,
   "COUNTS_EQUAL 0|1", "UNDONE_LE_FORWARD tid 0|1" *)
open Model
open Conv
let run () =
  let ic = open_in_bin Sys.argv.(2) in
  let len = in_channel_length ic in
  let buf = really_input_string ic len in
  close_in ic;
  let bytes = List.init len (fun i -> n_of_int (Char.code buf.[i])) in
  match decode bytes with
  | None -> print_endline "DECODE fail"
  | Some (f, rest) ->
    print_endline "DECODE ok";
    Printf.printf "REST %d\n" (List.length rest);
    Printf.printf "REENC %d\n" (if encode f = bytes then 1 else 0);
    Printf.printf "NAMES %d\n" (List.length f.f_names);
    List.iter (fun nd ->
      Printf.printf "NODE %d %d\n" (List.length nd.n_threads) (List.length nd.n_recs);
      List.iter (fun (g, r) -> Printf.printf "G %s %s\n" (string_of_n g) (string_of_n r)) nd.n_recs;
      List.iteri (fun t recs ->
        Printf.printf "T %d %d\n" t (List.length recs);
        List.iter (fun r -> Printf.printf "R %d %s\n" t (String.concat " " (List.map string_of_n r))) recs;
        Printf.printf "UNDONE_LE_FORWARD %d %d\n" t (if undone_le_forward N0 N0 recs then 1 else 0)) nd.n_threads) f.f_nodes;
    Printf.printf "COUNTS_EQUAL %d\n" (if record_counts_equal f then 1 else 0)
