open Model
open Conv
let mk t = match t with
  | [tb; fl; ty; sz; pl; de; sq; nx] ->
    { m_next = z_of_token nx; m_dest = z_of_token de; m_t = time_key_of_token tb; m_flags = z_of_token fl;
      m_send = Z0; m_send_t = Z0; m_seq = z_of_token sq; m_type = z_of_token ty; m_plsize = z_of_token sz;
      m_pl = bytes_of_hex pl }
  | _ -> failwith "msg"
let rec take n l = if n = 0 then [] else match l with [] -> [] | x :: r -> x :: take (n-1) r
let rec drop n l = if n = 0 then l else match l with [] -> [] | _ :: r -> drop (n-1) r
let run () = iter_lines (fun line ->
  let t = split line in
  if List.length t >= 24 then begin
    let ms = [mk (take 8 t); mk (take 8 (drop 8 t)); mk (take 8 (drop 16 t))] in
    let b = Buffer.create 32 in
    List.iter (fun a -> List.iter (fun c -> Buffer.add_char b (if before a c then '1' else '0')) ms) ms;
    Buffer.add_char b ' ';
    List.iter (fun a -> List.iter (fun c ->
      Buffer.add_char b (if q_before {q_t = a.m_t; q_m = a} {q_t = c.m_t; q_m = c} then '1' else '0')) ms) ms;
    print_endline (Buffer.contents b ^ " K")
  end)
