"""Running the real runtime on interpreter programs (harness/drv_sim.c) and the reference executor."""
import os, subprocess
import vcommon as V

VT = dict(STAGE=1, GVT=2, GVT_DRAIN=3, PROC=4, FORWARD=5, ROLLBACK=6, ANTI=7, UNDO=8, SILENT=9, CKPT=10, COMMIT=11,
          FOSSIL=12, FINI_ENTRY=13, TERM_VOTE=14, MSG_ALLOC=15, MSG_FREE=16, STATS_GVT=17, EXTRACT=18, GVT_PHASE=19,
          NET_SEND=20, NET_RECV=21, NODE=22)
VTN = {v: k for k, v in VT.items()}


def mask(*names):
    m = 0
    for n in names:
        m |= 1 << VT[n]
    return m


def build_sim(sd, sanitize=True):
    okb, lgb, objs = V.build_impl(sd, sanitize=sanitize)
    if not okb:
        return False, lgb, None
    okd, lgd, exe = V.build_driver(sd, "drv_sim", objs, sanitize=sanitize, srcs=["app.c", "netshim.c"])
    return okd, lgb + lgd, exe


class SimResult:
    pass


def run_sim(exe, prog, mode="parallel", threads=2, ckpt=0, gvt=1000, tend=0, stats="-", displog="-",
            trace_file=None, trace_mask=0, watchdog=20, timeout=60, ranks=1, delay=None, sched=None, sched_log=None, net=None, spin_ns=0, nostate=0, keep_ticking=False, init_via=False):
    env = {"VERIF_WATCHDOG": str(watchdog)}
    if init_via:
        env["VERIF_INIT_VIA"] = "1"      # initial events scheduled by the neighbouring LP's LP_INIT handler (harness/app.c)
    if keep_ticking:
        env["VERIF_KEEP_TICKING"] = "1"
    if nostate:
        env["VERIF_NOSTATE_MOD"] = str(nostate)   # LPs with id % nostate == nostate - 1 never call SetState (harness/app.c)
    if spin_ns:
        env["VERIF_EVENT_SPIN_NS"] = str(spin_ns)
    if delay:
        env["VERIF_DELAY"] = delay
    if net:
        env["VERIF_NET"] = net      # simulated network delays (harness/netshim.c), multi-rank runs only
    if sched:
        env["VERIF_SCHED"] = sched
        if sched_log:
            env["VERIF_SCHED_LOG"] = sched_log
    if trace_file:
        env["VERIF_TRACE_FILE"] = trace_file
        env["VERIF_TRACE_MASK"] = str(trace_mask)
    cmd = [exe, prog, mode, str(threads), str(ckpt), str(gvt), str(tend), stats, displog]
    if ranks > 1:
        cmd = ["mpiexec", "--allow-run-as-root", "--oversubscribe", "--bind-to", "none", "-n", str(ranks)] + cmd
    rc, so, se = V.run(cmd, timeout=timeout, env=env)
    r = SimResult()
    r.rc, r.out, r.err = rc, so, se
    r.final = [l for l in so.split("\n") if l.startswith("F ")]
    if ranks > 1:
        r.final = sorted(r.final, key=lambda l: int(l.split()[1]))
    r.hang = None
    for l in so.split("\n"):
        if l.startswith("HANG"):       # one line per rank: the signature is taken over the workers of all ranks
            r.hang = l if r.hang is None else r.hang + " " + " ".join(l.split()[1:])
    r.returned = sum(1 for l in so.split("\n") if l.startswith("RET 0")) == ranks
    r.sanitizer = ("ERROR: AddressSanitizer" in se) or ("runtime error:" in se)
    r.cmd = " ".join(cmd)
    return r


def classify_hang(hangline):
    """signature of a non-returning run from the per-thread stage markers printed by the watchdog"""
    if not hangline:
        return "hang:unknown"
    st = []
    for tok in hangline.split()[1:]:
        f = tok.split(":")
        st.append((int(f[1][5:]), int(f[2][5:])))
    stages = sorted(set(s for s, _ in st))
    # some workers wait at the barrier of gvt_msg_drain (stage 4) with an idle GVT phase while others are still flushing an opening
    # round (stage 3, phase A or B) or have not left the main loop and are inside a round: F12
    # Nobody can be past that barrier (stage 5 and later) in F12: a worker passes it only after every worker of every rank has reached it.
    if 4 in stages and max(stages) <= 4 and any(s == 3 and ph in (1, 2) for s, ph in st):
        return "hang:drain-skips-opening-round"
    if stages == [1]:
        return "hang:main-loop"
    return "hang:stages-" + "-".join(str(s) for s in stages)


def run_seq(mexe, prog, tend=0, fuel=2000000, log=False, evalinit=True, timeout=600, stop=True):
    rc, so, se = V.run([mexe, "seq", prog, str(tend), str(fuel), "1" if log else "0", "1" if evalinit else "0", "1" if stop else "0"], timeout=timeout)
    r = SimResult()
    r.rc, r.err = rc, se
    lines = so.split("\n")
    r.final = [l for l in lines if l.startswith("F ")]
    r.done = "DONE 1" in lines
    r.log = [l for l in lines if l.startswith("D ")]
    return r


def read_trace(path):
    """records sorted by global sequence number: dict(seq, rid, kind, w[4], m[5])"""
    out = []
    if not os.path.exists(path):
        return out
    for l in open(path):
        f = l.split()
        if len(f) < 12:
            continue
        out.append(dict(seq=int(f[0]), rid=int(f[1]), kind=VTN.get(int(f[2]), f[2]), w=[int(x, 16) for x in f[3:7]],
                        dest=int(f[7]), ts=int(f[8], 16), type=int(f[9]), size=int(f[10]), fnv=int(f[11], 16)))
    out.sort(key=lambda r: r["seq"])
    return out
