"""Generator of program tables for the interpreter application (DESIGN.md Appendix B)."""

SIZES = [0, 0, 8, 24, 32, 33, 40, 100]


def gen_program(r, lps=None, heavy_mem=False, ties=True, target=None, zero_ts=False, relay=False, sparse=False, libm=False):
    lps = lps or r.choice([1, 2, 3, 4, 5, 8, 12, 16])
    ntypes = r.range(2, 6)
    ncls = r.range(1, 3)
    p = dict(lps=lps, ncls=ncls, target=target if target is not None else r.choice([3, 10, 25, 60]),
             seed=r.u64(), grid=r.choice([0, 1, 3]), inits=[], rows=[], targets=[], plmode=r.choice([0, 1]))
    sizes = SIZES if not p["plmode"] else [0, 33, 40, 40, 100, 100]     # ties on the first 32 payload bytes need payloads beyond 32 bytes
    for lp in range(lps):
        k = r.choice([0, 1, 1, 2, 3]) if lps > 1 else r.range(1, 3)
        if sparse:
            k = r.range(2, 5)      # several initial events per LP: half of the handlers send nothing
        for _ in range(k):
            p["inits"].append((lp, 0 if zero_ts and r.chance(1, 2) else r.choice([0, 1, 1, 2, 5, 8]), r.below(ntypes), r.choice(sizes)))
    if not p["inits"]:
        p["inits"].append((0, 1, 0, 8))
    for ty in range(ntypes):
        for cls in range(ncls):
            draws = [r.below(3) for _ in range(r.choice([0, 0, 1, 2, 3]))]
            if libm:    # Expent, Normal, Gamma, Zipf, RandomRangeNonUniform: odd and even numbers of draws per event
                draws = [r.choice([0, 1, 2, 3, 4, 4, 4, 5, 6, 7]) for _ in range(r.choice([1, 1, 2, 3]))]
            mem = []
            for _ in range(r.choice([0, 0, 1, 2]) if not heavy_mem else r.choice([1, 2, 3])):
                op = r.choice([1, 2, 3, 3, 4, 4])
                n = r.choice([1, 2, 8, 9, 100, 1000]) if not heavy_mem else r.choice([1, 8, 512, 4096, 8192, 8192, 3000])
                mem.append((op, r.below(4), n))
            outs = []
            for _ in range(r.choice([0, 1, 1, 1, 2, 2, 3]) if not sparse else r.choice([0, 0, 0, 1, 2, 3])):
                dt = r.choice([0, 0, 1, 1, 2, 3, 5, 7]) if ties else r.range(1, 9)
                oty = r.below(ntypes)
                if dt == 0:
                    if ty == 0:
                        dt = 1
                    else:
                        oty = r.below(ty)      # strictly smaller type: strictly after its cause in the content order
                outs.append((r.below(4), r.below(lps + 2), dt, oty, r.choice(sizes)))
            p["rows"].append((ty, cls, draws, mem, outs))
    if relay:
        relay_program(r, p, ntypes)
    return p


def relay_program(r, p, ntypes):
    """zero-delay relays whose content TIES with the event being processed (same timestamp, type, empty payload): weakly causal
    models, legal for the serial runtime (C10 'timestamp ties, zero-delay events'); every event of the relay type is empty"""
    R = r.below(ntypes)
    p["relay_type"] = R
    p["inits"] = [(lp, t, ty, 0 if ty == R else sz) for (lp, t, ty, sz) in p["inits"]]
    if not any(ty == R for (_, _, ty, _) in p["inits"]):
        p["inits"].append((r.below(p["lps"]), r.choice([0, 1, 2]), R, 0))
    rows = []
    for (ty, cls, draws, mem, outs) in p["rows"]:
        outs = [(ru, a, dt, oty, 0 if oty == R else sz) for (ru, a, dt, oty, sz) in outs]
        if ty == R:
            hop = (3, r.range(1, max(1, p["lps"] - 1)), 0, R, 0) if r.chance(3, 4) else (r.choice([0, 1, 2]), r.below(p["lps"] + 1), 0, R, 0)
            outs = outs[:2] + [hop]
            if r.chance(1, 3):
                outs.append((3, r.range(1, max(1, p["lps"] - 1)), 0, R, 0))
            r_ = r.below(len(outs))
            outs = outs[r_:] + outs[:r_]
        rows.append((ty, cls, draws, mem, outs))
    p["rows"] = rows


def render(p):
    out = ["lps %d" % p["lps"], "ncls %d" % p["ncls"], "target %d" % p["target"], "seed 0x%x" % p["seed"], "grid %d" % p["grid"],
           "plmode %d" % p.get("plmode", 0)]
    if p.get("stopat"):
        out.append("stopat %d %d" % p["stopat"])
    for t in p.get("targets", []):
        out.append("ptarget %d %d" % t)
    for i in p["inits"]:
        out.append("init %d %d %d %d" % i)
    for (ty, cls, draws, mem, outs) in p["rows"]:
        t = ["row", str(ty), str(cls), str(len(draws))] + [str(d) for d in draws] + [str(len(mem))]
        for m in mem:
            t += [str(x) for x in m]
        t.append(str(len(outs)))
        for o in outs:
            t += [str(x) for x in o]
        out.append(" ".join(t))
    return "\n".join(out) + "\n"


def gen_long_program(r, lps=None, target=None):
    """small event population, long duration: many GVT rounds and fossil collections per event"""
    lps = lps or r.choice([2, 3, 4])
    ntypes = r.range(2, 4)
    p = dict(lps=lps, ncls=r.range(1, 2), target=target or r.choice([600, 1200]), seed=r.u64(), grid=r.choice([0, 2]), inits=[], rows=[], targets=[])
    for lp in range(lps):
        p["inits"].append((lp, r.choice([0, 1, 2]), r.below(ntypes), r.choice(SIZES)))
    for ty in range(ntypes):
        for cls in range(p["ncls"]):
            draws = [r.below(3) for _ in range(r.choice([0, 0, 1]))]
            mem = []
            if r.chance(1, 2):
                mem.append((r.choice([1, 3, 4, 4]), r.below(4), r.choice([1, 8, 100, 2000])))
            outs = []
            for _ in range(r.choice([1, 1, 1, 1, 2])):
                dt = r.choice([0, 1, 1, 2, 3])
                oty = r.below(ntypes)
                if dt == 0:
                    if ty == 0:
                        dt = 1
                    else:
                        oty = r.below(ty)
                outs.append((r.choice([0, 2, 3, 3]), r.below(lps + 1), dt, oty, r.choice(SIZES)))
            p["rows"].append((ty, cls, draws, mem, outs))
    return p


def gen_time0_program(r, lps=None):
    """every event at virtual time 0 (zero-delay trees, the type decreases along a chain so the model stays strictly causal), stopped by
    RootsimStop after a varying number of events: the rounds of the shutdown compute a GVT of exactly 0.0 while workers leave the main loop"""
    lps = lps or r.choice([4, 5, 6, 8])
    ntypes = r.range(8, 11)
    p = dict(lps=lps, ncls=1, target=1 << 30, seed=r.u64(), grid=0, inits=[], rows=[], targets=[], plmode=0)
    for lp in range(lps):
        p["inits"].append((lp, 0, ntypes - 1, r.choice([0, 8])))
    for ty in range(ntypes):
        outs = []
        if ty > 0:
            outs = [(3, r.range(1, lps - 1), 0, ty - 1, r.choice([0, 0, 8])), (r.choice([0, 3]), r.range(1, lps - 1), 0, r.below(ty), 0)]
        p["rows"].append((ty, 0, [], [], outs))
    p["stopat"] = (r.below(lps), r.range(1, 300))
    return p


def gen_time0_chain_program(r, lps=4):
    """every LP keeps one zero-delay event chain alive at virtual time 0 (the event re-schedules itself unchanged: a tie, legal for the
    runtime), so every GVT round has value exactly 0.0 until RootsimStop; with costly events (VERIF_EVENT_SPIN_NS) the worker that calls
    RootsimStop is still inside its iteration when the others have left the main loop"""
    p = dict(lps=lps, ncls=1, target=1 << 30, seed=r.u64(), grid=0, inits=[(l, 0, 0, 0) for l in range(lps)],
             rows=[(0, 0, [], [], [(0, 0, 0, 0, 0)])], targets=[], plmode=0)
    p["stopat"] = (r.below(lps), r.range(200, 3000))
    return p
