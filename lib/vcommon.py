"""Shared machinery of the /verif checks: scratch builds of /repo, Coq build + assumptions,
OCaml model driver, evidence, known findings and the violation protocol."""
import atexit, json, os, re, shutil, subprocess, sys, tempfile, time, hashlib
from concurrent.futures import ThreadPoolExecutor

VERIF = os.path.dirname(os.path.dirname(os.path.abspath(__file__)))
REPO = os.environ.get("VERIF_REPO", "/repo")
COQ = os.path.join(VERIF, "coq")
OCAML = os.path.join(VERIF, "ocaml")
HARNESS = os.path.join(VERIF, "harness")
GUARD = "ROOTSIM_VERIF"
T0 = time.time()

FORBIDDEN = re.compile(
    r"\b(Admitted|admit|Axiom|Axioms|Parameter|Parameters|Conjecture|Conjectures|Abort All|"
    r"Admit Obligations|bypass_check|Unset Guard Checking|Unset Positivity Checking|"
    r"Unset Universe Checking|type-in-type|impredicative-set|native_compute)\b")


def log(*a):
    print(*a, flush=True)


# ---------------------------------------------------------------- scratch + implementation build
_scratch = []


def scratch_dir():
    base = os.environ.get("VERIF_SCRATCH", "/var/tmp")
    d = tempfile.mkdtemp(prefix="rsverif-", dir=base)
    _scratch.append(d)
    return d


@atexit.register
def _cleanup():
    for d in _scratch:
        shutil.rmtree(d, ignore_errors=True)


def rscore_sources():
    txt = open(os.path.join(REPO, "src", "CMakeLists.txt")).read()
    m = re.search(r"set\(rscore_srcs\s+(.*?)\)", txt, re.S)
    srcs = m.group(1).split()
    srcs.append("distributed/mpi.c")
    return srcs


SAN = ["-fsanitize=address,undefined", "-fno-sanitize-recover=undefined", "-fno-omit-frame-pointer"]


def cflags(sanitize=True, opt="-O1", extra=()):
    f = ["-std=gnu11", opt, "-g", "-DNDEBUG", "-D" + GUARD, '-DROOTSIM_VERSION="verif"', "-w"]
    if sanitize:
        f += SAN
    return f + list(extra)


def build_impl(sdir, sanitize=True, opt="-O1", extra=()):
    """Copy /repo/src (current working tree) into sdir and compile every library source with the
    hooks on.  Returns (ok, log, list of object files)."""
    src = os.path.join(sdir, "src")
    if os.path.exists(src):
        shutil.rmtree(src)
    shutil.copytree(os.path.join(REPO, "src"), src)
    objs, jobs = [], []
    flags = cflags(sanitize, opt, extra)
    for s in rscore_sources():
        o = os.path.join(sdir, "obj", s.replace("/", "_")[:-2] + ".o")
        os.makedirs(os.path.dirname(o), exist_ok=True)
        objs.append(o)
        # the arenas of the rollbackable allocator come from malloc, whose address order the library sorts them by: the harness supplies that
        # order (harness/trace.c verif_arena_malloc: plain malloc unless VERIF_ARENA_ORDER asks for descending / scrambled addresses)
        ren = ["-Dmalloc=verif_arena_malloc", "-Dfree=verif_arena_free"] if s.endswith("mm/buddy/multi.c") else []
        jobs.append(["mpicc"] + flags + ren + ["-I" + src, "-I" + HARNESS, "-c", os.path.join(src, s), "-o", o])
    out = []

    def one(cmd):
        p = subprocess.run(cmd, capture_output=True, text=True)
        return p.returncode, p.stdout + p.stderr

    with ThreadPoolExecutor(16) as ex:
        res = list(ex.map(one, jobs))
    ok = all(r[0] == 0 for r in res)
    return ok, "".join(r[1] for r in res), objs


def build_driver(sdir, name, objs, sanitize=True, opt="-O1", extra=(), srcs=None, exclude=()):
    """Compile harness/<name>.c (plus srcs) against the scratch copy and link with the library objects."""
    exe = os.path.join(sdir, name)
    flags = cflags(sanitize, opt, extra)
    cs = [os.path.join(HARNESS, name + ".c"), os.path.join(HARNESS, "trace.c")] + [os.path.join(HARNESS, s) for s in (srcs or [])]
    use = [o for o in objs if not any(os.path.basename(o).startswith(e) for e in exclude)]
    cmd = ["mpicc"] + flags + ["-I" + os.path.join(sdir, "src"), "-I" + HARNESS] + cs + use + \
          ["-o", exe, "-lm", "-lpthread"]
    p = subprocess.run(cmd, capture_output=True, text=True)
    return p.returncode == 0, p.stdout + p.stderr, exe


def run(cmd, inp=None, timeout=600, env=None, cwd=None):
    e = dict(os.environ)
    e.setdefault("ASAN_OPTIONS", "detect_leaks=0:abort_on_error=0")
    e.setdefault("UBSAN_OPTIONS", "print_stacktrace=1:halt_on_error=1")
    if env:
        e.update(env)
    try:
        p = subprocess.run(cmd, input=inp, capture_output=True, text=True, timeout=timeout, env=e, cwd=cwd)
        return p.returncode, p.stdout, p.stderr
    except subprocess.TimeoutExpired as ex:
        so = ex.stdout.decode() if isinstance(ex.stdout, bytes) else (ex.stdout or "")
        se = ex.stderr.decode() if isinstance(ex.stderr, bytes) else (ex.stderr or "")
        return -999, so, se + "\nTIMEOUT"


# ---------------------------------------------------------------- Coq
def coq_files():
    out = []
    for l in open(os.path.join(COQ, "_CoqProject")):
        l = l.strip()
        if l.endswith(".v"):
            out.append(l)
    return out


def forbidden_scan():
    """No Admitted/admit/Axiom/... anywhere in the development (comments included: simplest, strictest)."""
    bad = []
    for root, _, fs in os.walk(COQ):
        for f in fs:
            if f.endswith(".v"):
                p = os.path.join(root, f)
                for i, line in enumerate(open(p, errors="replace"), 1):
                    if FORBIDDEN.search(line):
                        bad.append("%s:%d: %s" % (os.path.relpath(p, VERIF), i, line.strip()))
    return bad


def coq_make(targets, timeout=3000):
    if not os.path.exists(os.path.join(COQ, "Makefile")) or \
            os.path.getmtime(os.path.join(COQ, "Makefile")) < os.path.getmtime(os.path.join(COQ, "_CoqProject")):
        subprocess.run(["coq_makefile", "-f", "_CoqProject", "-o", "Makefile"], cwd=COQ, capture_output=True)
    rc, so, se = run(["timeout", str(timeout), "make", "-k", "-j16"] + list(targets), cwd=COQ, timeout=timeout + 30)
    return rc == 0, so + se


def coq_deps(vfile):
    """Transitive closure of the development's own files a Properties file depends on."""
    seen, todo = [], [vfile]
    while todo:
        f = todo.pop()
        if f in seen:
            continue
        seen.append(f)
        txt = open(os.path.join(COQ, f)).read()
        for m in re.finditer(r"From RS((?:\.[A-Za-z0-9_]+)*) Require\s+(?:Import\s+|Export\s+)?(.*?)\.(?:\s|$)", txt, re.S):
            prefix = m.group(1).lstrip(".")
            for mod in m.group(2).split():
                full = (prefix + "." if prefix else "") + mod
                cand = full.replace(".", "/") + ".v"
                if os.path.exists(os.path.join(COQ, cand)):
                    todo.append(cand)
    return seen


STMT = re.compile(r"^\s*(?:Local\s+|Global\s+|#\[[^\]]*\]\s*)?(Theorem|Lemma|Corollary|Example|Fact|Remark|Proposition)\s+([A-Za-z0-9_']+)", re.M)


def coq_prove(pid):
    """Build Properties_<pid>.vo (full proof check of its dependency closure), then re-run coqc on the
    thin properties file to capture this run's Print Assumptions output.
    Returns dict(ok, log, theorems, obligations, discharged, axioms, closed)."""
    pf = "Properties_%s.v" % pid
    bad = forbidden_scan()
    ok, lg = coq_make([pf + "o"])
    deps = coq_deps(pf)
    names = []
    for d in deps:
        names += [m.group(2) for m in STMT.finditer(open(os.path.join(COQ, d)).read())]
    exported = [m.group(2) for m in STMT.finditer(open(os.path.join(COQ, pf)).read())]
    res = dict(ok=ok and not bad, log=lg, theorems=exported, obligations=len(names), discharged=0,
               axioms=[], closed=0, forbidden=bad, files=deps)
    if bad:
        res["log"] += "\nFORBIDDEN TOKENS:\n" + "\n".join(bad)
    if not ok:
        # which dependency files did compile
        done = 0
        for d in deps:
            if os.path.exists(os.path.join(COQ, d + "o")) and \
                    os.path.getmtime(os.path.join(COQ, d + "o")) >= os.path.getmtime(os.path.join(COQ, d)):
                done += len(STMT.findall(open(os.path.join(COQ, d)).read()))
        res["discharged"] = done
        return res
    rc, so, se = run(["timeout", "600", "coqc", "-Q", ".", "RS", pf], cwd=COQ, timeout=660)
    if rc != 0:
        res["ok"] = False
        res["log"] += so + se
        return res
    res["discharged"] = len(names)
    axioms = set()
    closed = so.count("Closed under the global context")
    for blk in re.split(r"(?m)^Axioms:\s*$", so)[1:]:
        for m in re.finditer(r"(?m)^([A-Za-z_][A-Za-z0-9_.']*)\s*(?::|$)", blk):
            axioms.add(m.group(1))
    res["axioms"] = sorted(axioms)
    res["closed"] = closed
    res["assumptions_raw"] = so[-4000:]
    return res


# ---------------------------------------------------------------- OCaml model driver
def ocaml_build():
    rc, so, se = run(["timeout", "900", "make", "-s", "-C", OCAML], timeout=930)
    return rc == 0, so + se, os.path.join(OCAML, "_build", "model_driver")


def model_run(exe, sub, inp, timeout=900):
    return run([exe, sub], inp=inp, timeout=timeout)


def coq_eval_cases(name, body, timeout=600):
    """Evaluate a generated cases file inside Coq (vm_compute); returns (rc, stdout)."""
    d = os.path.join(COQ, "_cases")
    os.makedirs(d, exist_ok=True)
    p = os.path.join(d, name + ".v")
    open(p, "w").write(body)
    rc, so, se = run(["timeout", str(timeout), "coqc", "-Q", COQ, "RS", p], cwd=d, timeout=timeout + 30)
    return rc, so + se


# ---------------------------------------------------------------- PRNG (one state per run, from VERIF_SEED)
class Rng:
    """splitmix64: every random choice of a check derives from one state seeded by VERIF_SEED."""
    M = (1 << 64) - 1

    def __init__(self, seed):
        self.s = (seed * 0x9E3779B97F4A7C15 + 0x1234567) & self.M

    def u64(self):
        self.s = (self.s + 0x9E3779B97F4A7C15) & self.M
        z = self.s
        z = ((z ^ (z >> 30)) * 0xBF58476D1CE4E5B9) & self.M
        z = ((z ^ (z >> 27)) * 0x94D049BB133111EB) & self.M
        return z ^ (z >> 31)

    def below(self, n):
        return self.u64() % n if n > 0 else 0

    def range(self, a, b):
        return a + self.below(b - a + 1)

    def choice(self, xs):
        return xs[self.below(len(xs))]

    def chance(self, num, den):
        return self.below(den) < num

    def shuffle(self, xs):
        for i in range(len(xs) - 1, 0, -1):
            j = self.below(i + 1)
            xs[i], xs[j] = xs[j], xs[i]


# ---------------------------------------------------------------- known findings, evidence, verdict
def known_findings():
    p = os.path.join(VERIF, "known_findings.json")
    if not os.path.exists(p):
        return []
    return json.load(open(p)).get("findings", [])


class Check:
    def __init__(self, pid, tier, seed, level="proof"):
        self.pid, self.tier, self.seed, self.level = pid, tier, seed, level
        self.cov = dict(obligations=0, discharged=0, checker_cmd="", trusted_base=[], evaluations=0,
                        distinct_nontrivial=0, rule="", samples=[], traces_validated_against_impl=0)
        self.assumptions = []
        self.violations = []      # (signature, replay dict, found_input)
        self.known_hits = []
        self.notes = []

    # a failure of the property (found_input=True) or of a proof obligation / correspondence (False)
    def violation(self, signature, replay, found_input=True):
        for k in known_findings():
            if k.get("property") == self.pid and k.get("status", "open") == "open" and \
                    re.fullmatch(k["signature"], signature):
                if k["id"] not in [h[0] for h in self.known_hits]:
                    self.known_hits.append((k["id"], k["what"]))
                return False
        self.violations.append((signature, replay, found_input))
        return True

    def proof(self, pr):
        self.cov["obligations"] = pr["obligations"]
        self.cov["discharged"] = pr["discharged"]
        self.cov["checker_cmd"] = "make -C coq Properties_%s.vo && coqc -Q . RS Properties_%s.v (Coq 8.16.1, full .vo build)" % (self.pid, self.pid)
        self.cov["theorems"] = pr["theorems"]
        self.cov["proof_files"] = pr["files"]
        self.cov["print_assumptions"] = {"closed_under_global_context": pr["closed"], "axioms": pr["axioms"]}
        tb = ["Coq 8.16.1 kernel (vm_compute used; native_compute not used)",
              "axioms reported by Print Assumptions in this run: " + (", ".join(pr["axioms"]) if pr["axioms"] else "none (closed under the global context)"),
              "hand-written Gallina model tied to /repo by the correspondence check of this run",
              "extraction: ExtrOcamlBasic only (bool, option, unit, list, prod, sumbool, sumor); no Extract Constant",
              "harness C drivers, OCaml driver, canonicalisation of outputs"]
        self.cov["trusted_base"] = tb
        if not pr["ok"]:
            first = ""
            for l in pr["log"].splitlines():
                if "Error" in l or "FORBIDDEN" in l:
                    first = l
                    break
            m = re.search(r'File "\./([^"]+)", line (\d+)', pr["log"])
            self.broken_proof = dict(kind="proof-obligation", theorem_file=(m.group(1) if m else "?"),
                                     line=(int(m.group(2)) if m else 0), error=first, log_tail=pr["log"][-3000:])
            return False
        return True

    def finish(self):
        os.makedirs(os.path.join(VERIF, "evidence"), exist_ok=True)
        os.makedirs(os.path.join(VERIF, "replays"), exist_ok=True)
        ev = dict(property_id=self.pid, tier=self.tier, seed=self.seed, level=self.level, coverage=self.cov,
                  assumptions=self.assumptions, wall_s=round(time.time() - T0, 2), violations=len(self.violations))
        if self.notes:
            ev["coverage"]["notes"] = self.notes
        if self.known_hits:
            ev["coverage"]["known_findings_reproduced"] = [h[0] for h in self.known_hits]
        json.dump(ev, open(os.path.join(VERIF, "evidence", self.pid + ".json"), "w"), indent=1, default=str)
        for kid, what in self.known_hits:
            log("KNOWN-FINDING: property=%s %s: %s" % (self.pid, kid, what))
        if not self.violations:
            log("OK property=%s tier=%s seed=%d evaluations=%d obligations=%d/%d wall=%.1fs" % (
                self.pid, self.tier, self.seed, self.cov.get("evaluations", 0), self.cov.get("discharged", 0),
                self.cov.get("obligations", 0), time.time() - T0))
            return 0
        self.violations.sort(key=lambda v: not v[2])
        for i, (sig, replay, found) in enumerate(self.violations[:3]):
            h = hashlib.sha1((sig + json.dumps(replay, sort_keys=True, default=str)).encode()).hexdigest()[:10]
            path = os.path.join(VERIF, "replays", "%s-%s.json" % (self.pid, h))
            replay = dict(replay)
            replay.update(property=self.pid, signature=sig, seed=self.seed, tier=self.tier,
                          failing_input_found=found)
            json.dump(replay, open(path, "w"), indent=1, default=str)
            log("VIOLATION property=%s replay=%s%s" % (self.pid, path, "" if found else " no-failing-input-found"))
            brief = {k: replay[k] for k in ("signature", "what", "law", "kind", "config", "case", "error", "theorem_file") if k in replay}
            log("  detail: " + json.dumps(brief, default=str)[:600])
        return 1


def parse_args(argv):
    import argparse
    ap = argparse.ArgumentParser()
    ap.add_argument("pid")
    ap.add_argument("--tier", default=os.environ.get("VERIF_TIER", "quick"), choices=["quick", "thorough"])
    ap.add_argument("--replay", default=None)
    ap.add_argument("--seed", type=int, default=None)
    a = ap.parse_args(argv)
    seed = a.seed if a.seed is not None else int(os.environ.get("VERIF_SEED", "1") or 1)
    return a.pid, a.tier, seed, a.replay


def fmt_u(v):
    """same printing rule as harness/vh.h: decimal below 2^62, hex above"""
    return str(v) if v < (1 << 62) else "0x%x" % v
