"""C19 — topology queries are mutually consistent and rollback-safe."""
import json, os
import vcommon as V
from checks.c18 import craft, edge_us, M

GEOMS = {1: "hexagon", 2: "square", 3: "torus", 4: "ring", 5: "bidring", 6: "star", 7: "fcmesh", 8: "graph"}
GRID = (1, 2, 3)


def fmt_state(st):
    return " ".join("0x%x" % x if x >= (1 << 62) else str(x) for x in st)


def gen_topologies(c, r):
    tops = []
    gm = 4 if c.tier == "quick" else 6
    rm = 6 if c.tier == "quick" else 12
    for g in GRID:
        for h in range(1, gm + 1):
            for w in range(1, gm + 1):
                tops.append((g, h, w, []))
    for g in (4, 5, 6, 7):
        for n in range(1, rm + 1):
            tops.append((g, n, 0, []))
    for n in range(1, rm + 1):
        for dens in (0, 1, 3):
            links = []
            for _ in range(n * dens):
                links.append((r.below(n), r.below(n)))
            tops.append((8, n, 0, links))
    # a few large grids / rings (32-bit coordinates far from the small box)
    for _ in range(6 if c.tier == "quick" else 60):
        g = r.choice(GRID)
        tops.append((g, r.range(1, 3000), r.range(1, 3000), []))
    return tops


def run(c, replay):
    r = V.Rng(c.seed)
    pr = V.coq_prove("C19")
    proof_ok = c.proof(pr)
    c.assumptions += ["width * height < 2^32 (vInitializeTopology computes the product in unsigned int)",
                      "graph geometry: which adjacent region the cumulative-probability walk returns depends on binary64 additions that are "
                      "not modelled: the model fixes the number of draws and the candidate set, the pick is an oracle",
                      "fully connected mesh redraws while the candidate equals the caller: termination is probabilistic, model uses fuel 64"]
    okm, lgm, mexe = V.ocaml_build()
    sd = V.scratch_dir()
    okb, lgb, objs = V.build_impl(sd)
    okd, lgd, exe = V.build_driver(sd, "drv_c19", objs) if okb else (False, "", "")
    if not (okm and okb and okd):
        c.violation("build-failed", dict(kind="build", log=(lgm + lgb + lgd)[-3000:]), found_input=False)
        return
    tops = gen_topologies(c, r)
    if replay:
        rp = json.load(open(replay))
        if "topology" in rp:
            tops = [tuple(rp["topology"][:3]) + ([tuple(x) for x in rp["topology"][3]],)]
    eus = edge_us()
    lines, meta = [], []      # meta[i] = (topology index, kind, payload)
    nstates = 3 if c.tier == "quick" else 10
    for ti, (g, a, b, links) in enumerate(tops):
        regions = a * b if g in GRID else a
        lines.append("T %d %d %d" % (g, a, b)); meta.append((ti, "T", None))
        for (f, t) in links:
            lines.append("L %d %d" % (f, t)); meta.append((ti, "L", None))
        big = regions > 200
        froms = list(range(regions)) if not big else sorted({0, 1, regions - 1, regions - 2, b - 1, b, (a - 1) * b, r.below(regions), r.below(regions), r.below(regions)} & set(range(regions)))
        parq = []
        for f in froms + [regions, regions + 7]:
            for d in range(0, 9):
                sts = [[r.u64(), r.u64(), r.u64(), r.u64()]]
                if d == 8 and f < regions:
                    sts += [craft(r, r.choice(eus)) for _ in range(nstates)]
                    sts += [craft(r, u) for u in (0, 1, M)]
                for st in sts:
                    q = "Q %d %d %s" % (f, d, fmt_state(st))
                    lines.append(q); meta.append((ti, "Q", (f, d)))
                    if d == 8 and f < regions:
                        parq.append((q, f, d))
            if f < regions:
                lines.append("C %d" % f); meta.append((ti, "C", f))
                if not big:
                    for t in list(range(regions)) + [regions]:
                        lines.append("NB %d %d" % (f, t)); meta.append((ti, "NB", (f, t)))
        # purity: the same random queries again, after everything else, first sequentially then from two threads
        for (q, f, d) in parq:
            lines.append(q); meta.append((ti, "Q2", (f, d, q)))
        if parq:
            lines.append("PAR %d" % len(parq)); meta.append((ti, "PARHDR", None))
            for (q, f, d) in parq:
                lines.append(q); meta.append((ti, "QP", (f, d, q)))
    inp = "\n".join(lines) + "\n"
    rc, out_c, err_c = V.run([exe], inp=inp, timeout=1800)
    lc = [l for l in out_c.split("\n") if l]
    nexp = sum(1 for m in meta if m[1] != "PARHDR")
    if rc != 0 or len(lc) != nexp:
        san = "runtime error" in err_c or "Sanitizer" in err_c
        idx = len(lc)
        c.violation("sanitizer" if san else "driver-failed",
                    dict(kind="sanitizer" if san else "driver", stderr=err_c[-2500:], near=lines[max(0, idx - 2):idx + 3]), san)
        return
    rm, out_m, err_m = V.model_run(mexe, "c19", inp, timeout=1800)
    lm = [l for l in out_m.split("\n") if l]
    if rm != 0 or len(lm) != nexp:
        c.violation("model-driver-failed", dict(kind="model-driver", stderr=err_m[-2000:], n=[len(lm), nexp]), False)
        return
    # ---- walk the outputs
    k = 0
    first = {}          # (ti, query text) -> first answer
    valid_fixed = {}    # (ti, from) -> number of fixed directions with a receiver
    counts, has_any = {}, {}
    corr_bad, nq, geoms_seen = None, 0, {}
    viol = lambda sig, **kw: c.violation(sig, dict(kind="property", how="./check C19 --replay <this file>", **kw), True)
    for i, (ti, kind, pl) in enumerate(meta):
        if kind == "PARHDR":
            continue
        oc, om = lc[k], lm[k]
        k += 1
        g, a, b, links = tops[ti]
        regions = a * b if g in GRID else a
        tdesc = [g, a, b, [list(x) for x in links]]
        same = oc == om
        if kind in ("Q", "Q2", "QP"):
            nq += 1
            geoms_seen[GEOMS[g]] = geoms_seen.get(GEOMS[g], 0) + 1
            f, d = pl[0], pl[1]
            fc = oc.split()
            if fc[1] != "INV":
                rv = int(fc[1], 0)
                if not (rv < regions):
                    viol("receiver-outside-topology", topology=tdesc, query=lines[i], impl=oc)
                elif fc[-1] != "1":
                    viol("receiver-not-neighbor", topology=tdesc, query=lines[i], impl=oc)
                if d < 8 and f < regions:
                    valid_fixed[(ti, f)] = valid_fixed.get((ti, f), 0) + 1
            if d == 8 and f < regions:
                has_any.setdefault((ti, f), []).append((fc[1] != "INV", lines[i], oc))
            if kind == "Q" and d == 8:
                first[(ti, lines[i])] = oc
            if kind in ("Q2", "QP") and first.get((ti, pl[2])) != oc:
                viol("random-not-pure:" + ("concurrent" if kind == "QP" else "repeat"), topology=tdesc, query=pl[2],
                     first=first.get((ti, pl[2])), again=oc)
            if not same and om.split()[1].startswith("{"):
                cand = om.split()[1].strip("{}").split(",")
                same = fc[1] in cand and fc[2:] == om.split()[2:]
        elif kind == "C":
            counts[(ti, pl)] = int(oc.split()[1], 0)
        if not same and corr_bad is None:
            corr_bad = dict(kind="correspondence", driver="drv_c19", topology=tdesc, query=lines[i], impl=oc, model=om)
    for (ti, f), cnt in counts.items():
        g, a, b, links = tops[ti]
        regions = a * b if g in GRID else a
        tdesc = [g, a, b, [list(x) for x in links]]
        if g in (1, 2, 3, 4, 5):
            exp = valid_fixed.get((ti, f), 0)
        elif g == 7:
            exp = regions - 1
        elif g == 6:
            exp = regions - 1 if f == 0 else 1
        else:
            exp = len({t for (ff, t) in links if ff == f})
        if cnt != exp:
            viol("count-directions", topology=tdesc, from_region=f, impl=cnt, expected=exp)
        # DIRECTION_RANDOM must find a neighbour whenever one exists
        exists = exp > 0
        for (found, q, oc) in has_any.get((ti, f), []):
            if exists and not found:
                viol("random-misses-neighbor", topology=tdesc, query=q, impl=oc)
    if corr_bad and not c.violations:
        c.violation("correspondence", corr_bad, found_input=False)
    if not proof_ok and not c.violations:
        c.violation("proof", c.broken_proof, found_input=False)
    c.cov.update(evaluations=len(lines), distinct_nontrivial=len(first), queries=nq, topologies=len(tops), per_geometry=geoms_seen,
                 exhaustive_small_space="grids up to %dx%d, region counts up to %d: every source (plus two outside), every direction" % (
                     (4, 4, 6) if c.tier == "quick" else (6, 6, 12)),
                 rule="every geometry; all sizes in the small box exhaustively (1xN, Nx1, single region included) plus large random grids; "
                      "DIRECTION_RANDOM with crafted generator states (raw outputs 0, 1, 2^k, 2^64-1) repeated after unrelated calls and from two "
                      "concurrent threads; non-trivial = distinct DIRECTION_RANDOM query (topology, source, generator state)",
                 traces_validated_against_impl=nexp,
                 samples=[lines[1] + " -> " + lc[1], lines[-1] + " -> " + lc[-1]])
