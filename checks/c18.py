"""C18 — numerical library contracts hold for every generator state."""
import json, os
import vcommon as V

M = (1 << 64) - 1
INV5 = pow(5, -1, 1 << 64)
INV9 = pow(9, -1, 1 << 64)
ONE_BITS = 0x3FF0000000000000


def rotr(x, k):
    return ((x >> k) | (x << (64 - k))) & M


def craft(r, u):
    """a generator state whose next raw output is u (the output function is a bijection of state[1])"""
    s1 = (rotr((u * INV9) & M, 7) * INV5) & M
    return [r.u64(), s1, r.u64(), r.u64()]


def edge_us():
    us = {0, 1, 2, 3, M, M - 1, M - 2047, M - 2048, M - 2049, M - 4095}
    for k in range(1, 64):
        for d in (-1, 0, 1):
            us.add(((1 << k) + d) & M)
        us.add(((1 << k) | (1 << (k - 1))) & M)
        us.add(((1 << (k + 1)) - 1) & M)
    return sorted(us)


RANGES = [(0, 0), (0, 1), (5, 5), (0, 2), (3, 10), (0, 6), (100, 1000), (0, (1 << 31) - 2), (1, (1 << 31) - 2),
          (0, (1 << 30) - 1), (0, (1 << 30)), (7, (1 << 24) + 7), (0, 4095), (0, 4096), (0, 65535), (12345, 12345 + 999999)]


def gen_cases(c, r, n_rand):
    cases = []
    eus = edge_us()
    for u in eus:
        cases.append(["RND"] + craft(r, u))
    for u in eus[::3] + [M, M - 1, 0, 1]:
        cases.append(["U64"] + craft(r, u))
        for (a, b) in (RANGES if u in (M, M - 1, 0, 1, M - 2047) else [r.choice(RANGES), r.choice(RANGES)]):
            cases.append(["RR"] + craft(r, u) + [a, b])
    for _ in range(n_rand):
        st = [r.u64(), r.u64(), r.u64(), r.u64()]
        k = r.below(5)
        if k == 0:
            cases.append(["RND"] + st)
        elif k == 1:
            cases.append(["U64"] + st)
        elif k == 2:
            a, b = r.choice(RANGES) if r.chance(1, 2) else sorted([r.below(1 << 20), r.below(1 << 30)])
            cases.append(["RR"] + st + [a, b])
        elif k == 3:
            a, b = r.choice(RANGES) if r.chance(1, 2) else sorted([r.below(1 << 20), r.below(1 << 30)])
            if b - a + 1 >= (1 << 31) - 1:
                b = a + 1000
            cases.append(["NU"] + st + [r.choice([0, 1, 7, 1000, (1 << 30)]), a, b])
        else:
            cases.append(["INIT", r.choice([0, 1, 2, 1000, r.below(1 << 40), r.u64()]), r.choice([0, 1, r.u64()])])
    # distribution contracts, evaluated on the C side (libm dependent: no model twin)
    for u in eus[::2] + [0, 1, M]:
        for kind, a, b in (("poisson", 0, 0), ("expent", 3.5, 0), ("gamma", 0, 1), ("gamma", 0, 5), ("gamma", 0, 6),
                           ("gamma", 0, 7), ("gamma", 0, 50), ("normal", 0, 0), ("zipf", 1.0, 10), ("zipf", 2.5, 1),
                           ("zipf", 1.5, 1000)):
            cases.append(["DIST", kind] + craft(r, u) + [a, b])
    for _ in range(n_rand // 4):
        st = [r.u64(), r.below(1 << r.range(1, 64)), r.u64(), r.u64()]
        kind, a, b = r.choice([("poisson", 0, 0), ("gamma", 0, r.range(1, 40)), ("normal", 0, 0),
                               ("zipf", r.choice([1.0, 1.2, 2.0, 3.7]), r.range(1, 5000)), ("expent", 10.0, 0)])
        cases.append(["DIST", kind] + st + [a, b])
    return cases


def fmt(case):
    out = []
    for x in case:
        out.append(("0x%x" % x if x >= (1 << 62) else str(x)) if isinstance(x, int) else str(x))
    return " ".join(out)


def run(c, replay):
    r = V.Rng(c.seed)
    pr = V.coq_prove("C18")
    proof_ok = c.proof(pr)
    c.assumptions += ["non-negative binary64 values are ordered like their bit patterns (b < bits(1.0) <=> value < 1.0)",
                      "RandomRange domain: 0 <= min <= max, max - min + 1 <= 2^31 - 1 (int arithmetic exact); RandomRangeNonUniform: x >= 0",
                      "Poisson/Expent/Gamma/Normal/Zipf depend on libm (log, exp, pow, sqrt): their contracts are checked on the implementation "
                      "for crafted and random states, not proved (partial); rejection loops: statement about accepted values only"]
    okm, lgm, mexe = V.ocaml_build()
    sd = V.scratch_dir()
    okb, lgb, objs = V.build_impl(sd)
    okd, lgd, exe = V.build_driver(sd, "drv_c18", objs) if okb else (False, "", "")
    if not (okm and okb and okd):
        c.violation("build-failed", dict(kind="build", log=(lgm + lgb + lgd)[-3000:]), found_input=False)
        return
    cases = []
    if replay:
        rp = json.load(open(replay))
        if "case" in rp:
            cases.append(rp["case"])
    cp = os.path.join(V.VERIF, "corpus", "C18.jsonl")
    if os.path.exists(cp):
        cases += [json.loads(l) for l in open(cp) if l.strip()]
    cases += gen_cases(c, r, 3000 if c.tier == "quick" else 200000)
    inp = "\n".join(fmt(x) for x in cases) + "\n"
    rc, out_c, err_c = V.run([exe], inp=inp)
    lc = [l for l in out_c.split("\n") if l]
    if rc != 0 or len(lc) != len(cases):
        idx = len(lc)
        san = "runtime error" in err_c or "Sanitizer" in err_c
        what = "undefined-behaviour" if "runtime error" in err_c else ("memory-error" if san else "driver-failed")
        c.violation(what + ":" + (cases[idx][0] if idx < len(cases) else "?"),
                    dict(kind=what, case=cases[idx] if idx < len(cases) else None, stderr=err_c[-2500:],
                         how="./check C18 --replay <this file>"), found_input=san)
        return
    modelable = [i for i, x in enumerate(cases) if x[0] != "DIST"]
    rm, out_m, err_m = V.model_run(mexe, "c18", "\n".join(fmt(cases[i]) for i in modelable) + "\n")
    lm = [l for l in out_m.split("\n") if l]
    if rm != 0 or len(lm) != len(modelable):
        c.violation("model-driver-failed", dict(kind="model-driver", stderr=err_m[-2000:]), False)
        return
    corr_bad, kinds, nontriv = None, {}, set()
    for j, i in enumerate(modelable):
        case, fc, fm = cases[i], lc[i].split(), lm[j].split()
        kinds[case[0]] = kinds.get(case[0], 0) + 1
        # ---- property oracle on the implementation
        bad = None
        if fc[-1] != "1" and case[0] != "INIT":
            bad = "advances-other-lp"
        if case[0] == "RND" and not (int(fc[1], 0) < ONE_BITS):
            bad = "random-not-in-[0,1)"
        if case[0] in ("RR", "NU"):
            mn, mx = case[-2], case[-1]
            if not (mn <= int(fc[1]) <= mx):
                bad = "range-out-of-bounds"
        if bad:
            c.violation("contract:" + bad, dict(kind="property", what=bad, case=case, impl=lc[i]), True)
        # ---- correspondence
        same = fc == fm
        if case[0] == "NU" and not same:
            cands = fm[1].split("|")
            same = fc[1] in cands and fc[2:] == fm[2:]
        if not same and corr_bad is None:
            corr_bad = dict(kind="correspondence", driver="drv_c18", case=case, impl=lc[i], model=lm[j])
        if case[0] in ("RND", "RR", "NU"):
            nontriv.add(lc[i])
    ndist = 0
    for i, case in enumerate(cases):
        if case[0] == "DIST":
            ndist += 1
            kinds[case[1]] = kinds.get(case[1], 0) + 1
            if lc[i].split()[-1] != "1":
                c.violation("contract:" + case[1], dict(kind="property", what="distribution contract (finite / sign / range / other LP untouched)",
                                                       case=case, impl=lc[i]), True)
    if corr_bad and not c.violations:
        c.violation("correspondence", corr_bad, found_input=False)
    if not proof_ok and not c.violations:
        c.violation("proof", c.broken_proof, found_input=False)
    c.cov.update(evaluations=len(cases), distinct_nontrivial=len(nontriv), op_distribution=kinds,
                 rule="crafted generator states whose next raw output is 0, 1, 2^k, 2^k+-1, 2^(k+1)-1, 2^64-1 and neighbours of the "
                      "mantissa truncation boundary, plus random states; every call compares result bits and the four state words with the "
                      "extracted model and checks that a second LP's generator is untouched; non-trivial = distinct (result, new state) of Random/RandomRange/NonUniform",
                 traces_validated_against_impl=len(modelable), libm_contract_cases=ndist,
                 samples=[fmt(cases[0]) + " -> " + lc[0], fmt(cases[-1]) + " -> " + lc[-1]])
