"""C07 — no premature termination."""
import vcommon as V, simrun as S
from checks import simcommon as C


def term_correspondence(c, ctx, r):
    """the real termination.c against the extracted model of TW/Term.v on generated histories of one worker thread"""
    okb, lgb, objs = V.build_impl(ctx["sd"])
    okd, lgd, exe = V.build_driver(ctx["sd"], "drv_term", objs)
    if not (okb and okd):
        c.violation("build-failed", dict(kind="build", log=(lgb + lgd)[-2000:]), False)
        return
    nh = 150 if c.tier == "quick" else 3000
    tot, corr_bad = 0, None
    for h in range(nh):
        n = r.range(1, 5)
        lines = ["N %d %s" % (n, " ".join(str(r.choice([0, 0, 0, 1])) for _ in range(n)))]
        now = [0] * n
        if h % 10 == 7 and n >= 2:
            # directed: two LPs of the thread become true speculatively at tx < ty, the later one is rolled back below tx and becomes
            # true again early; a GVT between its new time and tx must not let the thread vote (tx is still speculative)
            lines = ["N %d %s" % (n, " ".join("0" if i < 2 else "1" for i in range(n)))]
            tx = r.range(5, 30); ty = tx + r.range(1, 20); m = r.range(1, tx - 1); y2 = r.range(m, tx - 1)
            pre = [("P 0 %d 0" % r.range(0, 1))] if r.chance(1, 2) else []
            lines += pre + ["P 0 %d 1" % tx, "P 1 %d 1" % ty, "R 1 %d" % m, "P 1 %d 1" % y2, "G %d 0" % r.range(y2 + 1, tx)]
            now = [tx, y2] + [0] * (n - 2)
        for _ in range(r.range(5, 40) if not (h % 10 == 7 and n >= 2) else r.range(0, 6)):
            k = r.below(10)
            lp = r.below(n)
            if k < 5:
                # every other history dwells on timestamp 0 and on predicates that hold often (the sentinel boundary of the accounting)
                now[lp] += r.choice([0, 0, 1, 2, 5]) if h % 2 == 0 else r.choice([0, 0, 0, 1])
                lines.append("P %d %d %d" % (lp, now[lp], r.choice([0, 0, 1]) if h % 2 == 0 else r.choice([0, 1, 1])))
            elif k < 8:
                t = r.range(0, now[lp])
                now[lp] = t
                lines.append("R %d %d" % (lp, t))
            else:
                lines.append("G %d %d" % (r.range(0, max(now) + 3), r.choice([0, 0, r.range(1, 30)])))
        inp = "\n".join(lines) + "\n"
        rc, oc, ec = V.run([exe], inp=inp)
        rm, om, em = V.model_run(ctx["mexe"], "term", inp)
        tot += len(lines)
        lc, lm = oc.split("\n"), om.split("\n")
        # ---- vote soundness evaluated on the implementation's own answers, independently of the model's representation
        init = [x == "1" for x in lines[0].split()[2:]]
        ghost = [[] for _ in range(n)]
        for j, l in enumerate(lines):
            f = l.split()
            if f[0] == "P":
                ghost[int(f[1])].append((int(f[2]), f[3] == "1"))
            elif f[0] == "R":
                ghost[int(f[1])] = [e for e in ghost[int(f[1])] if e[0] < int(f[2])]
            elif f[0] == "G" and j < len(lc) and lc[j].startswith("S") and lc[j].split()[3] == "1":
                g, tend = int(f[1]), int(f[2])
                if not (tend and tend <= g):
                    for lp in range(n):
                        if not init[lp] and not any(t0 < g and pr for (t0, pr) in ghost[lp]):
                            c.violation("premature-vote", dict(kind="property", what="thread votes to end at GVT %d although LP %d's predicate "
                                        "held on no event below that GVT that is still in its history" % (g, lp), history=lines[:j + 1],
                                        impl=lc[j], how="harness/drv_term < history"), True)
                            break
        if c.violations:
            break
        if rc != 0 or rm != 0 or oc != om:
            i = next((k for k in range(min(len(lc), len(lm))) if lc[k] != lm[k]), 0)
            if corr_bad is None:
                corr_bad = dict(kind="correspondence", driver="drv_term", history=lines[:i + 1],
                                impl=lc[i] if i < len(lc) else None, model=lm[i] if i < len(lm) else None, stderr=ec[-500:])
    if corr_bad and not c.violations:
        c.violation("termination-accounting", corr_bad, False)
    c.cov["termination_ops_compared"] = tot


def run(c, replay):
    r = V.Rng(c.seed)
    ctx = C.setup(c, "C07")
    if not ctx:
        return
    c.assumptions += ["a committed state = one reached by an event in the committed sequence of C03 (released by fossil collection, or held at shutdown below the last GVT)",
                      "runs stopped by RootsimStop are outside the property"]
    term_correspondence(c, ctx, r)
    nprogs = 12 if c.tier == "quick" else 120
    mask = S.mask("COMMIT", "FINI_ENTRY", "GVT", "GVT_DRAIN", "TERM_VOTE")
    progs, runs = C.campaign(c, ctx, r, nprogs, mask, c.tier, variants=("pred", "tend"), extra_cfgs=[(2, 1, 0)])
    ok, nontriv, votes = 0, 0, 0
    for run_ in runs:
        res, pr = run_["res"], run_["prog"]
        if res.sanitizer:
            C.sanitizer_violation(c, res, pr["text"], C.describe(run_))
            continue
        if not res.returned:
            continue
        ok += 1
        p = pr["p"]
        com, last = C.committed_per_lp(run_)
        tgt = {lp: p["target"] for lp in range(p["lps"])}
        for (lp, t) in p.get("targets", []):
            tgt[lp] = t
        lastg = max(last.values()) if last else 0
        gvt_ticks = C.bits_to_ticks(lastg, p["grid"]) if last else 0
        reached_tend = pr["tend"] and gvt_ticks >= pr["tend"]
        for rec in run_["trace"]:
            if rec["kind"] == "TERM_VOTE" and rec["w"][1] == 1:
                votes += 1
        if not reached_tend:
            for lp in range(p["lps"]):
                n = len(com.get(lp, []))
                if n < tgt[lp]:
                    # the reference tells whether the LP can reach its target at all: if the sequential run ends with the queue empty
                    # before the target, the parallel run ended because the GVT became infinite (no event left), which is legitimate
                    ref = C.seq_per_lp(pr["seqfull"]).get(lp, [])
                    if len(ref) >= tgt[lp]:
                        c.violation("premature-termination", dict(kind="property", lp=lp, committed_events=n, target=tgt[lp],
                                    final_gvt_ticks=gvt_ticks, termination_time=pr["tend"], program=pr["text"], config=C.describe(run_)), True)
                        break
        nontriv += 1
    # ---- LP level, deterministic: scripted late deliveries and cancellations on one worker; after every script line a recorded termination
    # time must belong to a state that still exists (harness/drv_lp.c check_termination): a rollback that undoes the event on which the
    # predicate first held must clear it, whatever the undone entries look like
    lpruns = C.lp_campaign(c, ctx, r, 10 if c.tier == "quick" else 150, S.mask("ROLLBACK"), low_targets=True)
    nrb = 0
    for run_ in lpruns:
        nrb += sum(1 for x in run_["trace"] if x["kind"] == "ROLLBACK")
        bad = [l for l in run_["res"].out.split("\n") if l.startswith("TERMBAD")]
        if bad and not any(v[0] == "termination-time-survives-rollback" for v in c.violations):
            k = int(bad[0].split()[1])
            c.violation("termination-time-survives-rollback", dict(kind="property", what="LP %s is accounted as terminated at tick %s although the state on which its "
                        "predicate held has been rolled back (predicate false on its current state)" % (bad[0].split()[2], bad[0].split()[3]),
                        program=run_["prog"]["text"], script=run_["script"][:k], checkpoint_interval=run_["cfg"][1], how="harness/drv_lp <program> <ckpt> < script"), True)
    c.cov.update(C.worker_report(c, lpruns, quiet_if_violations=True))      # a concrete failing script above is the better report
    c.cov.update(lp_level_runs=len(lpruns), lp_level_rollbacks=nrb)
    C.finish(c, ctx)
    c.cov.update(evaluations=len(runs), distinct_nontrivial=nontriv, runs_returned=ok, votes_seen=votes,
                 rule="interpreter programs with predicate 'count >= target' (per-LP targets, true at init, first true at timestamp 0) and optional "
                      "termination time x configurations; at return every LP must have committed at least target events unless the final GVT "
                      "reached the termination time or the model ran out of events; non-trivial = returning run",
                 traces_validated_against_impl=ok, samples=[C.describe(runs[0])])
