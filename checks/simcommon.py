"""Shared pieces of the simulation-level checks (C01, C02, C03, C04, C06, C07, C08, C09, C10, C11, C20)."""
import json, os
import vcommon as V, progen, simrun as S


def setup(c, pid, sanitize=True):
    pr = V.coq_prove(pid)
    proof_ok = c.proof(pr)
    okm, lgm, mexe = V.ocaml_build()
    sd = V.scratch_dir()
    ok, lg, exe = S.build_sim(sd, sanitize=sanitize)
    if not (okm and ok):
        c.violation("build-failed", dict(kind="build", log=(lgm + lg)[-3000:]), found_input=False)
        return None
    return dict(proof_ok=proof_ok, exe=exe, mexe=mexe, sd=sd)


def write_prog(sd, name, p):
    path = os.path.join(sd, name)
    open(path, "w").write(progen.render(p))
    return path


def finish(c, ctx):
    if not ctx["proof_ok"] and not c.violations:
        c.violation("proof", c.broken_proof, found_input=False)


def configs(r, tier, lps):
    """(threads, checkpoint interval, GVT period in us) — more threads than LPs included"""
    base = [(1, 0, 1000), (2, 1, 100), (3, 3, 500), (4, 7, 1000), (8, 2, 200), (min(16, lps + 3), 5, 300), (16, 0, 1000)]   # RootsimInit refuses more threads than cores (16 here)
    if tier == "quick":
        return [r.choice(base[:2]), r.choice(base[2:5]), r.choice(base[4:])]
    return base + [(r.range(1, 16), r.range(1, 9), r.choice([50, 100, 1000, 5000]))]


def sanitizer_violation(c, res, prog_text, cfg):
    c.violation("sanitizer", dict(kind="memory-safety / undefined behaviour", program=prog_text, config=cfg,
                                  cmd=res.cmd, stderr=res.err[-3000:]), found_input=True)


def per_lp(log):
    d = {}
    for l in log:
        f = l.split()
        d.setdefault(int(f[1]), []).append(tuple(f[2:]))
    return d


def committed_from_trace(tr, last_gvt_bits=None):
    """per LP: the committed sequence the runtime declares: entries released by fossil collection, in order, then the
    entries still held at shutdown whose timestamp is below the last GVT"""
    out = {}
    for r in tr:
        if r["kind"] == "COMMIT":
            out.setdefault(r["w"][0], []).append((r["ts"], r["type"], r["size"], r["fnv"]))
    return out


import struct
from concurrent.futures import ThreadPoolExecutor


def bits_to_ticks(bits, grid):
    d = struct.unpack("<d", struct.pack("<Q", bits))[0]
    if d >= 1.7e308:
        return 1 << 200
    return int(d * (1 << grid))


def gen_variant(r, k, tier, long_every=4):
    """program + run variant: how the run is meant to end"""
    heavy = (k % 5 == 0)
    if long_every and k % long_every == long_every // 2:
        # small event population, long duration: many GVT rounds, fossil collections and committed entries
        return progen.gen_long_program(r), "pred", 0
    p = progen.gen_program(r, heavy_mem=heavy, zero_ts=(k % 4 == 1))
    variant, tend = "pred", 0
    if k % 7 == 3:
        variant, tend = "tend", r.range(4, 30)
    elif k % 7 == 5:
        variant = "stop"
        p["stopat"] = (r.below(p["lps"]), r.range(1, max(1, p["target"])))
    elif k % 7 == 6 and p["lps"] > 1:
        p["targets"] = [(r.below(p["lps"]), 0)]
    return p, variant, tend


def parse_prog(text):
    p = dict(lps=1, ncls=1, target=0, seed=0, grid=0, inits=[], rows=[], targets=[])
    for l in text.split("\n"):
        t = l.split()
        if not t or t[0] == "#":
            continue
        if t[0] in ("lps", "ncls", "target", "grid"):
            p[t[0]] = int(t[1], 0)
        elif t[0] == "seed":
            p["seed"] = int(t[1], 0)
        elif t[0] == "ptarget":
            p["targets"].append((int(t[1]), int(t[2])))
        elif t[0] == "stopat":
            p["stopat"] = (int(t[1]), int(t[2]))
    return p


def campaign(c, ctx, r, nprogs, mask, tier, want_stats=False, variants=("pred", "tend", "stop"), ranks_list=(1,),
             extra_cfgs=None, jobs=4, watchdog=25, delays=(None,), long_every=4, only_cfgs=None, use_corpus=True, nets=(None,)):
    """runs nprogs generated programs under several configurations; returns a list of run records"""
    runs, progs = [], []
    k = 0
    while len(progs) < nprogs:
        p, variant, tend = gen_variant(r, k, tier, long_every)
        k += 1
        if variant not in variants:
            continue
        text = progen.render(p)
        pf = os.path.join(ctx["sd"], "prog%d.txt" % len(progs))
        open(pf, "w").write(text)
        # one reference run to exhaustion: LPs freeze once their predicate holds, so the final states are those at the stopping point too
        seqfull = S.run_seq(ctx["mexe"], pf, log=True, evalinit=True, stop=False)
        seqstop = seqfull
        progs.append(dict(p=p, text=text, path=pf, variant=variant, tend=tend, seqstop=seqstop, seqfull=seqfull, idx=len(progs)))
    # corpus programs of this property first (minimised past failures and targeted scenarios), each with its own configurations
    import glob
    corpus_jobs = []
    for f in sorted(glob.glob(os.path.join(V.VERIF, "corpus", c.pid + "_*.txt"))) if use_corpus else []:
        text = open(f).read()
        pcfg = [l for l in text.split("\n") if l.startswith("# run ")]
        pr = dict(p=parse_prog(text), text=text, path=f, variant="pred", tend=0, idx=len(progs),
                  seqstop=None,
                  seqfull=S.run_seq(ctx["mexe"], f, log=True, evalinit=True, stop=False))
        pr["seqstop"] = pr["seqfull"]
        progs.append(pr)
        for ci, l in enumerate(pcfg):
            t = l.split()
            corpus_jobs.append((pr, int(t[2]), int(t[3]), int(t[4]), 1, 100 + ci, None if t[5] == "-" else t[5], None))
    jobs_list = list(corpus_jobs)
    for pr in progs:
        if pr["path"].startswith(os.path.join(V.VERIF, "corpus")):
            continue
        cfgs = (configs(r, tier, pr["p"]["lps"]) if only_cfgs is None else list(only_cfgs)) + list(extra_cfgs or [])
        for ci, (th, ck, gp) in enumerate(cfgs):
            for ranks in ranks_list:
                if ranks > 1 and pr["p"]["lps"] < ranks:
                    continue          # a rank without LPs: known finding F15, probed separately by the C08 check
                jobs_list.append((pr, th, ck, gp, ranks, ci, delays[(pr["idx"] + ci) % len(delays)], nets[(pr["idx"] + ci + ranks) % len(nets)] if ranks > 1 else None))

    def one(job):
        pr, th, ck, gp, ranks, ci, delay, net = job
        tag = "%d_%d_%d" % (pr["idx"], ci, ranks)
        tf = os.path.join(ctx["sd"], "trace_%s.txt" % tag) if mask else None
        sf = os.path.join(ctx["sd"], "stats_%s" % tag) if want_stats else "-"
        nostate = [0, 2, 0, 3][(pr["idx"] + ci) % 4]      # half of the runs: some LPs never call SetState() (their state is reached without the API's pointer)
        res = S.run_sim(ctx["exe"], pr["path"], threads=th, ckpt=ck, gvt=gp, tend=pr["tend"], stats=sf, trace_file=tf,
                        trace_mask=mask, watchdog=watchdog, timeout=watchdog + 30, ranks=ranks, delay=delay, net=net, nostate=nostate,
                        init_via=((pr["idx"] + ci) % 3 == 1))        # a third of the runs: initial events cross LPs / threads / ranks
        tr = S.read_trace(tf) if tf else []
        if tf and os.path.exists(tf):
            os.remove(tf)
        return dict(prog=pr, cfg=(th, ck, gp, ranks), res=res, trace=tr, stats=(sf + ".bin") if want_stats else None, delay=delay, net=net, nostate=nostate, init_via=((pr["idx"] + ci) % 3 == 1))

    with ThreadPoolExecutor(jobs) as ex:
        runs = list(ex.map(one, jobs_list))
    return progs, runs


def worker_report(c, runs, quiet_if_violations=False):
    """reports a broken op-by-op correspondence between process.c / fossil.c and the worker model; returns coverage numbers"""
    nops, nruns = 0, 0
    for run_ in runs:
        if run_.get("worker_ops"):
            nruns += 1
            nops += run_["worker_ops"]
        if run_.get("worker_diff") and not (quiet_if_violations and c.violations) and not any(v[0] in ("worker-correspondence", "lp-level-result-differs") for v in c.violations):
            # the worker model no longer describes process.c / fossil.c: is the same script already a failing input?  The script ends by
            # running the queue out, so every LP's final digest must be the sequential one (C01 / C05 at LP level)
            res, pr = run_["res"], run_["prog"]
            if res.returned and not res.sanitizer and res.final != pr["seqfull"].final:
                wd = run_["worker_diff"]
                c.violation("lp-level-result-differs", dict(kind="property", what="final LP digests after the scripted run differ from the sequential execution",
                            program=pr["text"], script=run_["script"], checkpoint_interval=run_["cfg"][1], first_divergence_from_worker_model=dict(
                                after_script_line=wd.get("after_script_line"), op=wd.get("op"), impl=wd.get("impl"), model=wd.get("model")),
                            differing=[(a, b) for a, b in zip(res.final, pr["seqfull"].final) if a != b][:4],
                            how="harness/drv_lp <program> <ckpt> < script   vs   model_driver seq <program>"), True)
            else:
                c.violation("worker-correspondence", run_["worker_diff"], found_input=False)
    return dict(worker_model_runs=nruns, worker_model_states_compared=nops)


def describe(run):
    th, ck, gp, ranks = run["cfg"]
    return dict(threads=th, checkpoint_interval=ck, gvt_period_us=gp, ranks=ranks, variant=run["prog"]["variant"], injected_delay=run.get("delay"), network_delays=run.get("net"), lps_without_setstate_mod=run.get("nostate", 0), initial_events_sent_by_neighbour=run.get("init_via", False),
                tend=run["prog"]["tend"], cmd=run["res"].cmd)


def committed_per_lp(run):
    """C03 definition: entries released by fossil collection in order, then entries still held at shutdown with a timestamp
    below the last GVT delivered to the owning thread; each as (ticks, type, size, payload fnv)"""
    grid = run["prog"]["p"]["grid"]
    last_gvt = {}
    out = {}
    for rec in run["trace"]:
        if rec["kind"] in ("GVT", "GVT_DRAIN"):
            last_gvt[rec["rid"]] = rec["w"][0]
        elif rec["kind"] == "COMMIT" and rec["type"] != 65534:      # the LP_INIT pseudo-event heads every history
            out.setdefault(rec["w"][0], []).append((bits_to_ticks(rec["ts"], grid), rec["type"], rec["size"], rec["fnv"]))
    for rec in run["trace"]:
        if rec["kind"] == "FINI_ENTRY":
            g = last_gvt.get(rec["rid"])
            if g is not None and rec["type"] != 65534 and rec["ts"] < g:
                out.setdefault(rec["w"][0], []).append((bits_to_ticks(rec["ts"], grid), rec["type"], rec["size"], rec["fnv"]))
    return out, last_gvt


def seq_per_lp(seq):
    d = {}
    for l in seq.log:
        f = l.split()
        d.setdefault(int(f[1]), []).append((int(f[2]), int(f[3]), int(f[4]), int(f[5], 0)))
    return d


def gen_lp_script(r, steps=400, gvt_slack=(0, 0, 1, 3)):
    """a script for harness/drv_lp: P n (process n messages), H k (hold the next k sent messages back), U i / A (hand held messages back),
    G d (announce a legal GVT), E (run the queue out)"""
    script = []
    for _ in range(steps):
        x = r.below(10)
        if r.chance(1, 12):
            # run-ahead pattern: a message is kept in flight while the LPs go on, GVT rounds happen below it, then it lands
            script += ["H %d" % r.range(1, 2), "P %d" % r.range(1, 8), "G %d" % r.choice([0, 1, 3]), "P %d" % r.range(1, 8),
                       "G 0", "P %d" % r.range(1, 4), "G 0", "P %d" % r.range(1, 4), r.choice(["A", "U 0", "U 1"])]
        elif x < 4:
            script.append("P %d" % r.range(1, 6))
        elif x < 6:
            script.append("H %d" % r.range(1, 3))
        elif x < 8:
            script.append("U %d" % r.below(50))
        elif x < 9:
            script.append("G %d" % r.choice(list(gvt_slack)))
        else:
            script.append("A")
    script.append("E")
    return script


def lp_libm_campaign(c, ctx, r, nprogs):
    """programs drawing through libm (Normal, Expent, Gamma, Zipf, ...: no Gallina twin) at LP level: the same program is run by harness/drv_lp
    once in timestamp order (script 'E': no rollback) and once under a script of late deliveries, cancellations and GVT announcements; at the end
    of both every LP's digest (hash chain over every event, draw and buffer word) must be the same: the random stream is part of the state a
    rollback restores.  Returns (runs compared, rollbacks observed, first difference or None)."""
    okb, lgb, objs = V.build_impl(ctx["sd"])
    okd, lgd, exe = V.build_driver(ctx["sd"], "drv_lp", objs, srcs=["app.c"])
    if not (okb and okd):
        c.violation("build-failed", dict(kind="build", log=(lgb + lgd)[-2000:]), False)
        return 0, 0, None
    ncmp = nrb = 0
    bad = None
    for k in range(nprogs):
        p = progen.gen_program(r, lps=r.choice([1, 2, 3, 5]), target=r.choice([20, 40]), libm=True, zero_ts=(k % 3 == 0))
        text = progen.render(p)
        pf = os.path.join(ctx["sd"], "lplibm%d.txt" % k)
        open(pf, "w").write(text)
        ck = r.choice([1, 1, 2, 3, 5])
        rc0, so0, se0 = V.run([exe, pf, str(ck)], inp="E\n", timeout=120, env={"VERIF_WATCHDOG": "100"})
        ref = [l for l in so0.split("\n") if l.startswith("F ")]
        if rc0 != 0 or "RET 0" not in so0:
            continue
        script = gen_lp_script(r, 300)
        tf = os.path.join(ctx["sd"], "lplibmtrace%d.txt" % k)
        rc, so, se = V.run([exe, pf, str(ck)], inp="\n".join(script) + "\n", timeout=180,
                           env={"VERIF_TRACE_FILE": tf, "VERIF_TRACE_MASK": str(S.mask("ROLLBACK")), "VERIF_WATCHDOG": "120"})
        tr = S.read_trace(tf)
        if os.path.exists(tf):
            os.remove(tf)
        if ("ERROR: AddressSanitizer" in se) or ("runtime error:" in se):
            res = S.SimResult(); res.rc, res.out, res.err, res.sanitizer, res.cmd = rc, so, se, True, "harness/drv_lp <program> %d < script" % ck
            sanitizer_violation(c, res, text, dict(variant="lp-level libm", checkpoint_interval=ck, script=script))
            continue
        if rc != 0 or "RET 0" not in so:
            continue
        ncmp += 1
        nrb += sum(1 for x in tr if x["kind"] == "ROLLBACK")
        fin = [l for l in so.split("\n") if l.startswith("F ")]
        if fin != ref and bad is None:
            bad = dict(kind="property", what="final LP digests of a scripted run with rollbacks differ from the in-order run of the same program (libm draws)",
                       program=text, script=script, checkpoint_interval=ck, differing=[(a, b) for a, b in zip(fin, ref) if a != b][:4],
                       how="harness/drv_lp <program> <ckpt> < script   vs   echo E | harness/drv_lp <program> <ckpt>")
    return ncmp, nrb, bad


def lp_campaign(c, ctx, r, nprogs, mask, gvt_slack=(0, 0, 1, 3), steps=400, worker=True, low_targets=False):
    """LP-level driver (harness/drv_lp.c): one worker hosts every LP; the driver plays the network (holds messages back and
    returns them late) and announces legal GVT values.  Dense stragglers, anti-messages, rollbacks and fossil collections,
    deterministic and single-threaded.  Returns run records like campaign()."""
    okb, lgb, objs = V.build_impl(ctx["sd"])
    okd, lgd, exe = V.build_driver(ctx["sd"], "drv_lp", objs, srcs=["app.c"])
    if not (okb and okd):
        c.violation("build-failed", dict(kind="build", log=(lgb + lgd)[-2000:]), False)
        return []
    runs = []
    for k in range(nprogs):
        sparse = (k % 2 == 1)      # silent handlers: history entries that are followed at once by a checkpoint
        p = progen.gen_program(r, lps=r.choice([1, 2, 3, 5, 8]), target=r.choice([20, 40, 100]) if not low_targets else r.choice([2, 3, 5, 8]),
                               heavy_mem=(k % 4 == 0), zero_ts=(k % 3 == 0), sparse=sparse)
        text = progen.render(p)
        pf = os.path.join(ctx["sd"], "lpprog%d.txt" % k)
        open(pf, "w").write(text)
        seqfull = S.run_seq(ctx["mexe"], pf, log=True, evalinit=True, stop=False)
        script = gen_lp_script(r, steps, gvt_slack)
        ck = r.choice([1, 1, 2, 3, 5, 0]) if not sparse else r.choice([1, 1, 1, 2])
        tf = os.path.join(ctx["sd"], "lptrace%d.txt" % k)
        lsf = os.path.join(ctx["sd"], "lpstate%d.txt" % k)
        rc, so, se = V.run([exe, pf, str(ck)], inp="\n".join(script) + "\n", timeout=180,
                           env={"VERIF_TRACE_FILE": tf, "VERIF_TRACE_MASK": str(mask), "VERIF_WATCHDOG": "120", "VERIF_LPSTATE": lsf})
        # op-by-op correspondence with the worker model (coq/TW/Worker.v): digest of every LP (state, history, checkpoint log, bound)
        # after every script line; fixed checkpoint intervals only (the autonomic interval depends on measured times)
        wdiff, wops = None, 0
        if worker and ck > 0 and rc == 0:
            rm, om, em = V.run([ctx["mexe"], "worker", pf, str(ck)], inp="\n".join(script) + "\n", timeout=600)
            A = open(lsf).read().split("\n") if os.path.exists(lsf) else []
            B = [l for l in om.split("\n") if not l.startswith("T ")]
            if "T 1" not in om.split("\n") and rm == 0:
                # the program is outside the hypothesis of the no-error / exactly-once theorems: the generator must not produce it
                c.violation("worker-theorem-hypothesis", dict(kind="generator", what="types_okb false for a generated program", program=text), found_input=False)
            wops = sum(1 for l in A if l.startswith("S "))
            i = next((j for j in range(min(len(A), len(B))) if A[j] != B[j]), None)
            if rm != 0 or i is not None or len(A) != len(B):
                i = i if i is not None else min(len(A), len(B))
                opn = max([int(A[j].split()[1]) for j in range(min(i + 1, len(A))) if A[j].startswith("S ")] or [0])
                wdiff = dict(kind="correspondence", driver="drv_lp vs TW/Worker.v", after_script_line=opn,
                             op=script[opn - 1] if 0 < opn <= len(script) else "init", impl=A[i] if i < len(A) else None,
                             model=B[i] if i < len(B) else None, model_stderr=em[-300:], program=text, script=script[:opn], checkpoint_interval=ck)
        if os.path.exists(lsf):
            os.remove(lsf)
        res = S.SimResult()
        res.rc, res.out, res.err = rc, so, se
        res.final = [l for l in so.split("\n") if l.startswith("F ")]
        res.returned = "RET 0" in so
        res.hang = None
        res.sanitizer = ("ERROR: AddressSanitizer" in se) or ("runtime error:" in se)
        res.cmd = "harness/drv_lp <program> %d < script" % ck
        tr = S.read_trace(tf)
        if os.path.exists(tf):
            os.remove(tf)
        pr = dict(p=p, text=text, path=pf, variant="lp-level", tend=0, idx=1000 + k, seqfull=seqfull, seqstop=seqfull)
        runs.append(dict(prog=pr, cfg=(1, ck, 0, 1), res=res, trace=tr, stats=None, delay=None, script=script, worker_diff=wdiff, worker_ops=wops))
    return runs
