"""C12 / C05 / C13 share one correspondence driver for the rollbackable allocator; this module holds the generator and the
shadow-allocator oracle.  Entry points: run (C12), and run_ckpt / run_fossil used by checks/c05.py and checks/c13.py."""
import json, os
import vcommon as V

SIZES = [1, 63, 64, 65, 100, 128, 192, 1000, 4096, 8192, 20000, 32768, 32769, 50000, 65535, 65536]
BAD_SIZES = [0, 65537, 70000, 1 << 20, (1 << 32) + 5, (1 << 63)]


class Shadow:
    """python-side shadow of what the test itself knows: which slots are live, their sizes and the tag written last"""

    def __init__(self):
        self.live = {}        # slot -> [size, tag or None]
        self.next_slot = 0
        self.ckpts = []       # (ref, copy of live)
        self.hist = 0         # current history length (reference index space)

    def fresh(self):
        self.next_slot += 1
        return self.next_slot - 1


def gen_ops(r, nops, focus):
    """focus: 'alloc' (C12), 'ckpt' (C05), 'fossil' (C13), 'big' (many arenas per LP: C11, C12)"""
    sh = Shadow()
    ops = []
    tagc = [1]

    def newtag():
        tagc[0] += 1
        return tagc[0] * 0x9E3779B97F4A7C15 % (1 << 64)
    # the runtime always takes a checkpoint at history index 1 right after LP_INIT
    ops.append("K 1"); sh.ckpts.append((1, {})); sh.hist = 1
    for _ in range(nops):
        k = r.below(100)
        wck = 18 if focus != "alloc" else 6
        wrs = 12 if focus != "alloc" else 4
        wfo = 8 if focus == "fossil" else (2 if focus == "ckpt" else 1)
        if focus == "big" and k >= 30 and r.chance(1, 2):
            k = 0           # a growing population of blocks above half an arena: one arena each, so the per-LP arena table itself grows (9th, 17th, 33rd arena)
        if k < 30 or not sh.live:
            s = sh.fresh()
            size = r.choice(SIZES) if r.chance(4, 5) else r.range(1, 65536)
            if focus == "big" and r.chance(3, 4):
                size = r.choice([32769, 40000, 60000, 65535, 65536])
            if r.chance(1, 25):
                size = r.choice(BAD_SIZES)
            ops.append("M %d %s" % (s, hex(size) if size >= (1 << 62) else str(size)))
            if 0 < size <= 65536:
                sh.live[s] = [size, None]
                if size >= 64:
                    t = newtag(); ops.append("W %d 0x%x" % (s, t)); sh.live[s][1] = t
        elif k < 36:
            s = sh.fresh()
            if r.chance(1, 6):
                nm, sz = r.choice([((1 << 64) // 3 + 2, 3), (1 << 33, 1 << 33), (0, 64), (64, 0), (3, (1 << 64) // 3 + 2)])
            else:
                nm, sz = r.choice([1, 2, 8, 64, 100]), r.choice([1, 8, 64, 100, 512])
            ops.append("C %d %s %s" % (s, hex(nm), hex(sz)))
            tot = nm * sz
            if 0 < tot <= 65536:
                sh.live[s] = [tot, 0 if tot >= 64 else None]
        elif k < 52:
            s = r.choice(sorted(sh.live))
            ops.append("F %d" % s); del sh.live[s]
        elif k < 64:
            s = r.choice(sorted(sh.live))
            ns = sh.fresh()
            size = r.choice(SIZES + [0, 65537])
            ops.append("R %d %d %d" % (s, ns, size))
            old = sh.live[s]
            if size == 0 or size > 65536:
                pass                      # fails cleanly: old block untouched
            else:
                del sh.live[s]
                sh.live[ns] = [size, None]
                if size >= 64:
                    t = newtag(); ops.append("W %d 0x%x" % (ns, t)); sh.live[ns][1] = t
        elif k < 70:
            s = r.choice(sorted(sh.live))
            if sh.live[s][0] >= 64:
                t = newtag(); ops.append("W %d 0x%x" % (s, t)); sh.live[s][1] = t
        elif k < 70 + wck:
            sh.hist += r.choice([1, 1, 2, 5])
            ops.append("K %d" % sh.hist)
            sh.ckpts.append((sh.hist, {s: list(v) for s, v in sh.live.items()}))
        elif k < 70 + wck + wrs:
            # rollback to an arbitrary earlier index: at, between or just after checkpoints
            lo = sh.ckpts[0][0]
            target = r.choice([c[0] for c in sh.ckpts] + [r.range(lo, sh.hist), max(lo, sh.hist - 1)])
            ops.append("S %d" % target)
            idx = max(i for i, c in enumerate(sh.ckpts) if c[0] <= target)
            sh.ckpts = sh.ckpts[:idx + 1]
            sh.live = {s: list(v) for s, v in sh.ckpts[idx][1].items()}
            sh.hist = sh.ckpts[idx][0]
        elif k < 70 + wck + wrs + wfo:
            lo = sh.ckpts[0][0]
            tgt = r.range(lo, sh.hist)
            ops.append("O %d" % tgt)
            idx = max(i for i, c in enumerate(sh.ckpts) if c[0] <= tgt)
            base = sh.ckpts[idx][0]
            sh.ckpts = [(c[0] - base, c[1]) for c in sh.ckpts[idx:]]
            sh.hist -= base
        else:
            ops.append("T")
        # content of every live, fully written block must be what was written last
        if r.chance(1, 3) and sh.live:
            s = r.choice(sorted(sh.live))
            if sh.live[s][1] is not None:
                ops.append("D %d #expect %d" % (s, sh.live[s][1]))
    ops.append("T")
    for s in sorted(sh.live):
        if sh.live[s][1] is not None:
            ops.append("D %d #expect %d" % (s, sh.live[s][1]))
    return ops


def oracle(ops, out):
    """shadow-allocator laws on the implementation's own answers: returned blocks are inside an arena, aligned to their size class,
    pairwise disjoint while live, content as last written; bad sizes fail cleanly"""
    blocks = {}      # slot -> (arena, first leaf, leaves)
    live = set()
    ck = []
    for i, (op, o) in enumerate(zip(ops, out)):
        t = op.split()
        f = o.split()
        if t[0] in ("M", "C", "R"):
            slot = int(t[2]) if t[0] == "R" else int(t[1])
            size = int(t[2], 0) if t[0] == "M" else (int(t[2], 0) * int(t[3], 0) if t[0] == "C" else int(t[3], 0))
            if t[0] == "C" and (int(t[2], 0) * int(t[3], 0) >= (1 << 64)):
                size = None
            if f[1] == "NULL":
                if size is not None and 0 < size <= 65536:
                    return i, "valid request of %d bytes failed" % size
                continue
            if size is None or size == 0 or size > 65536:
                return i, "request of %s bytes returned a block" % (size,)
            arena, leaf = int(f[1]), int(f[2])
            n = 1
            while n * 64 < size:
                n *= 2
            if leaf % n or leaf + n > 1024:
                return i, "block of %d bytes at leaf %d: misaligned or outside its arena" % (size, leaf)
            if t[0] == "R":
                old = int(t[1])
                if old in live and (arena, leaf) != blocks[old][:2]:
                    live.discard(old)
                elif old in live:
                    live.discard(old)
            for s in live:
                a2, l2, n2 = blocks[s]
                if a2 == arena and leaf < l2 + n2 and l2 < leaf + n:
                    return i, "block overlaps live block of slot %d" % s
            blocks[slot] = (arena, leaf, n)
            live.add(slot)
            if t[0] == "C" and "zero=1" not in o:
                return i, "calloc memory not zeroed"
        elif t[0] == "F":
            live.discard(int(t[1]))
        elif t[0] == "K":
            ck.append((int(t[1]), set(live)))
        elif t[0] == "S":
            tgt = int(t[1])
            idx = max(j for j, c in enumerate(ck) if c[0] <= tgt)
            if int(f[1]) != ck[idx][0]:
                return i, "restore to %d returned reference %s, newest checkpoint not after it is %d" % (tgt, f[1], ck[idx][0])
            ck = ck[:idx + 1]
            live = set(ck[idx][1])
        elif t[0] == "O":
            tgt = int(t[1])
            idx = max(j for j, c in enumerate(ck) if c[0] <= tgt)
            base = ck[idx][0]
            if int(f[1]) != base:
                return i, "fossil collection at %d returned %s, expected %d" % (tgt, f[1], base)
            ck = [(c[0] - base, c[1]) for c in ck[idx:]]
        elif t[0] == "D" and "#expect" in op:
            exp = op.split("#expect")[1].strip()
            if f[1] == "MIXED" or int(f[1], 0) != int(exp):
                return i, "content of slot %s is %s, last written %s" % (t[1], f[1], exp)
        elif t[0] == "T":
            refs = o.split("logs=")[1].split()[0].split(",")[1:]
            if [int(x) for x in refs] != [c[0] for c in ck]:
                return i, "checkpoint log references %s, expected %s" % (refs, [c[0] for c in ck])
            if refs and int(refs[0]) != ck[0][0]:
                return i, "log does not start at its base"
    return None


def campaign(c, focus, pid):
    r = V.Rng(c.seed)
    pr = V.coq_prove(pid)
    proof_ok = c.proof(pr)
    okm, lgm, mexe = V.ocaml_build()
    sd = V.scratch_dir()
    okb, lgb, objs = V.build_impl(sd)
    okd, lgd, exe = V.build_driver(sd, "drv_alloc", objs) if okb else (False, "", "")
    if not (okm and okb and okd):
        c.violation("build-failed", dict(kind="build", log=(lgm + lgb + lgd)[-3000:]), found_input=False)
        return
    nseq = 30 if c.tier == "quick" else 500
    tot, corr_bad, dist, nontriv = 0, None, {}, 0
    for k in range(nseq):
        ops = gen_ops(r, r.choice([50, 120, 400]), focus if k % 5 else "big")      # every fifth sequence grows the arena table past 8, 16, 32 entries
        inp = "\n".join(o.split("#")[0].strip() for o in ops) + "\n"
        # every third sequence: later arenas below older ones (the library sorts its arenas by address and restores / re-initialises them by identity)
        aenv = {"VERIF_ARENA_ORDER": ["desc", "rand,%d" % (c.seed * 131 + k)][(k // 3) % 2]} if k % 3 == 2 else None
        rc, so, se = V.run([exe], inp=inp, timeout=120, env=aenv)
        out = [l for l in so.split("\n") if l]
        if rc != 0 or len(out) != len(ops) + 1:
            san = "Sanitizer" in se or "runtime error" in se
            c.violation("sanitizer" if san else "driver-failed", dict(kind="memory-safety" if san else "driver", ops=ops[:len(out) + 1], stderr=se[-2500:]), san)
            continue
        hdr = out[0].split()
        out = out[1:]
        tot += len(ops)
        for o in ops:
            dist[o[0]] = dist.get(o[0], 0) + 1
        bad = oracle(ops, out)
        if bad:
            i, what = bad
            c.violation("allocator:" + what.split(":")[0].split(" of ")[0][:40], dict(kind="property", what=what, ops=ops[:i + 1], impl=out[max(0, i - 3):i + 1],
                        how="harness/drv_alloc < ops"), True)
            continue
        # model: same ops, with the insertion rank of fresh arenas taken from the implementation (address order is an input)
        mops = []
        for o, l in zip(ops, out):
            base = o.split("#")[0].strip()
            if " new=" in l:
                base += " rank=" + l.split(" new=")[1].split()[0]
            mops.append(base)
        rm, mo, me = V.run([mexe, "alloc", hdr[1], hdr[2]], inp="\n".join(mops) + "\n", timeout=300)
        mout = [l for l in mo.split("\n") if l]
        if (rm != 0 or mout != out) and corr_bad is None:
            i = next((j for j in range(min(len(mout), len(out))) if mout[j] != out[j]), min(len(mout), len(out)))
            corr_bad = dict(kind="correspondence", driver="drv_alloc", ops=ops[:i + 1], impl=out[i] if i < len(out) else None,
                            model=mout[i] if i < len(mout) else None, stderr=me[-500:])
        if any(o.startswith("S ") for o in ops) and any(" new=" in l for l in out):
            nontriv += 1
    if corr_bad and not c.violations:
        c.violation("correspondence", corr_bad, found_input=False)
    if not proof_ok and not c.violations:
        c.violation("proof", c.broken_proof, found_input=False)
    c.cov.update(evaluations=nseq, distinct_nontrivial=nontriv, operations=tot, op_distribution=dist,
                 rule="operation sequences of 50..400 allocator calls (sizes 0, 1, 63..65, ..., 65535..65537, huge; calloc products that wrap; realloc to 0 / same class / "
                      "other class) interleaved with content writes, checkpoints at arbitrary history indices, restores to arbitrary earlier indices (at / between / "
                      "just after checkpoints) and fossil collections; every answer (arena, offset, checkpoint size, returned index), periodic digests of every longest[] "
                      "array and of the log, and block contents are compared with the extracted model; the shadow-allocator laws are evaluated on the implementation's "
                      "own answers; non-trivial = sequence with at least one restore and growth to more than one arena",
                 traces_validated_against_impl=nseq, samples=[gen_ops(V.Rng(c.seed), 12, focus)])


def run(c, replay):
    c.assumptions += ["arena insertion position (address order of malloc results) is an input of the model taken from the implementation",
                      "memory content is observed per 64-byte granule through whole-block tags; malloc returns fresh disjoint memory"]
    campaign(c, "alloc", "C12")
