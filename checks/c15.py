"""C15 — the inter-thread message queue loses nothing and its peek is a true lower bound."""
import json, os
import vcommon as V


def run(c, replay):
    r = V.Rng(c.seed)
    pr = V.coq_prove("C15")
    proof_ok = c.proof(pr)
    c.assumptions += ["SC atomics; code between two scheduling points is atomic (points: before the load of the list head, before every compare-and-swap "
                      "attempt, before the consumer's exchange, before a sender sets the ANTI bit)",
                      "minimality for a comparator whose answers change while elements are queued is replayed, not proved"]
    okm, lgm, mexe = V.ocaml_build()
    sd = V.scratch_dir()
    okb, lgb, objs = V.build_impl(sd)
    okd, lgd, exe = V.build_driver(sd, "drv_queue", objs) if okb else (False, "", "")
    if not (okm and okb and okd):
        c.violation("build-failed", dict(kind="build", log=(lgm + lgb + lgd)[-3000:]), found_input=False)
        return
    n = 40 if c.tier == "quick" else 1000
    cases = []
    if replay:
        rp = json.load(open(replay))
        if "case" in rp:
            cases.append(tuple(rp["case"]))
    for k in range(n):
        cases.append((r.choice([1, 2, 3, 4]), r.choice([3, 10, 30, 80]), r.below(1 << 30) + 1, r.choice([1, 1, 2, 4, 20])))
    corr_bad, ops, cas_retries = None, 0, 0
    for (p, per, seed, stride) in cases:
        log = os.path.join(sd, "q.log")
        rc, so, se = V.run([exe, str(p), str(per), str(seed), str(stride), log], timeout=180)
        case = [p, per, seed, stride]
        if rc != 0 or "OK" not in so:
            san = "Sanitizer" in se or "runtime error" in se
            c.violation("sanitizer" if san else "driver-failed", dict(kind="memory-safety" if san else "driver", case=case, out=so[-300:], stderr=se[-1500:]), san)
            continue
        acc = [l for l in so.split("\n") if l.startswith("LOST")][0].split()
        if acc[1] != "0" or acc[3] != "0":
            c.violation("lost-or-duplicated", dict(kind="property", what="%s messages never extracted, %s extracted more than once" % (acc[1], acc[3]), case=case,
                                                   how="harness/drv_queue %d %d %d %d -" % tuple(case)), True)
        sched = open(log).read()
        cas_retries += sum(1 for l in sched.split("\n") if l.endswith(" 22"))
        # ---- oracle on the implementation's own log: an extracted message has the smallest timestamp among those pushed before the
        # exchange and not yet extracted is checked through the model replay (exact element); here: peek never above a later extraction...
        rm, mo, me = V.run([mexe, "queue"], inp=sched, timeout=180)
        ops += sum(1 for l in mo.split("\n") if l.startswith("RES"))
        if rm != 0 or "BAD" in mo or "OK" not in mo:
            div = [l for l in mo.split("\n") if "DIVERGE" in l][:2]
            # is it a failure of the property? an extraction that is not minimal in time among the messages the model holds, or a wrong peek
            found = any("consumer" in d for d in div)
            if corr_bad is None:
                corr_bad = (dict(kind="property" if found else "correspondence", driver="drv_queue", case=case, divergence=div, stderr=me[-300:],
                                 what="the consumer's answer differs from the model, whose extraction is proved to keep the multiset and (for a fixed order) to return a minimal element"), found)
    # ---- free-running stress: real races between the consumer's buffer swap and concurrent producers (windows that no scheduling point covers)
    okd2, lgd2, exe2 = V.build_driver(sd, "drv_queue_stress", objs)
    stress = 0
    if okd2:
        for (p, it) in ([(2, 60000), (4, 60000)] if c.tier == "quick" else [(1, 300000), (2, 300000), (4, 300000), (8, 300000)]):
            rc, so, se = V.run([exe2, str(p), str(it)], timeout=300)
            stress += it
            vals = {l.split()[0]: int(l.split()[1]) for l in so.split("\n") if l and l.split()[0] in ("BADPEEK", "LOST", "DUP")}
            if rc != 0 or "OK" not in so:
                san = "Sanitizer" in se or "runtime error" in se
                c.violation("sanitizer" if san else "stress-driver-failed", dict(kind="memory-safety" if san else "driver", stderr=se[-1500:]), san)
            elif vals.get("BADPEEK") or vals.get("LOST") or vals.get("DUP"):
                c.violation("peek-above-inserted-message" if vals.get("BADPEEK") else "lost-or-duplicated",
                            dict(kind="property", what="free-running: %s" % vals, how="harness/drv_queue_stress %d %d" % (p, it)), True)
    c.cov["free_running_peek_queries"] = stress
    # ---- the queues inside the runtime: messages are inserted into another worker's buffer from the very first instant (LP_INIT handlers that
    # schedule events for LPs of other threads) until shutdown; every one of them must be extracted exactly once: final digests = reference
    import simrun as S, progen
    from checks import simcommon as C
    oks, lgs, sexe = S.build_sim(sd)
    nsim = nsim_ok = 0
    if oks:
        for k in range(6 if c.tier == "quick" else 60):
            ps = progen.gen_program(r, lps=r.choice([8, 12, 16]), target=r.choice([10, 25]), sparse=True)       # several initial events per LP
            pfs = os.path.join(sd, "qsim%d.txt" % k)
            open(pfs, "w").write(progen.render(ps))
            ref = S.run_seq(mexe, pfs, stop=False)
            for th in (r.choice([2, 3, 4]), r.choice([8, 16])):
                res = S.run_sim(sexe, pfs, threads=th, ckpt=r.choice([1, 3]), gvt=r.choice([100, 1000]), watchdog=25, timeout=60, init_via=True)
                nsim += 1
                if res.sanitizer:
                    C.sanitizer_violation(c, res, progen.render(ps), dict(threads=th, init_via=True))
                elif res.returned:
                    nsim_ok += 1
                    if res.final != ref.final:
                        c.violation("message-lost-or-duplicated-in-a-run", dict(kind="property", what="final digests differ from the reference: a message inserted into "
                                    "another worker's queue was lost, duplicated or extracted out of order", program=progen.render(ps),
                                    config=dict(threads=th, cmd=res.cmd + "  with VERIF_INIT_VIA=1")), True)
    c.cov.update(simulation_runs_with_cross_thread_initial_events=nsim, of_which_returned=nsim_ok)
    if corr_bad and not c.violations:
        c.violation("queue-answer-differs" if corr_bad[1] else "correspondence", corr_bad[0], found_input=corr_bad[1])
    if not proof_ok and not c.violations:
        c.violation("proof", c.broken_proof, found_input=False)
    c.cov.update(evaluations=len(cases), distinct_nontrivial=len(set(cases)), consumer_operations_replayed=ops, cas_retries_observed=cas_retries,
                 rule="1..4 producer threads x 3..80 messages each (six distinct timestamps: many ties; ANTI bits set by senders while messages are queued) and one consumer "
                      "mixing extractions and peeks, under uniform and long-stride cooperative schedules; every schedule is replayed through the extracted model: each "
                      "compare-and-swap outcome, each extracted message and each peeked time must agree; multiset accounting checked on the implementation; non-trivial = distinct schedule",
                 traces_validated_against_impl=len(cases), samples=[list(cases[0]), list(cases[-1])])
