"""C16 — event order is a strict weak order with content-only tie-break."""
import json, os
import vcommon as V

SIZES = [0, 1, 2, 31, 32, 33, 100]
TIMES = [0x0000000000000000, 0x8000000000000000, 0x0000000000000001, 0x8000000000000001,
         0x3ff0000000000000, 0x3ff0000000000001, 0x3fefffffffffffff, 0xbff0000000000000,
         0x4000000000000000, 0x7fefffffffffffff, 0x7ff0000000000000, 0xfff0000000000000,
         0x0010000000000000, 0x000fffffffffffff, 0x4024000000000000]


def gen_msg(r, base=None, tie_prefix=0):
    """a message; with base and tie_prefix k, the first k comparison keys are copied from base"""
    m = {}
    m["t"] = r.choice(TIMES) if r.chance(3, 4) else (r.u64() & 0x7fefffffffffffff) | (r.below(2) << 63)
    m["flags"] = r.choice([0, 1, 2, 3, 5, 6, 7, 4]) | (r.choice([0, 0, 0x10000, 0xfff00000 & r.u64()]))
    m["type"] = r.choice([0, 1, 2, 7, 65533, 65534, 65535, 0xffffffff, r.below(1 << 32)])
    m["size"] = r.choice(SIZES)
    full = r.choice([m["size"], m["size"] + 3, m["size"] + 40])
    m["pl"] = [r.choice([0, 1, 127, 128, 255, r.below(256)]) for _ in range(full)]
    if base is not None:
        if tie_prefix >= 1:
            m["t"] = base["t"] if r.chance(3, 4) else (base["t"] ^ (1 << 63) if base["t"] & 0x7fffffffffffffff == 0 else base["t"])
        if tie_prefix >= 2:
            m["flags"] = (m["flags"] & ~1) | (base["flags"] & 1)
        if tie_prefix >= 3:
            m["type"] = base["type"]
        if tie_prefix >= 4:
            m["size"] = base["size"]
            extra = r.choice([0, 3, 40])
            m["pl"] = list(base["pl"][:m["size"]]) + [r.below(256) for _ in range(extra)]
            if tie_prefix == 4 and m["size"] > 0:
                k = r.choice([0, m["size"] - 1, r.below(m["size"])])
                m["pl"][k] = (m["pl"][k] + r.choice([1, 255, 128])) % 256
    m["dest"] = r.below(1 << 20)
    m["seq"] = r.below(1 << 32)
    m["next"] = r.u64()
    return m


def twin(r, m):
    """same content, everything else different: link, destination, sequence number, non-ANTI flag bits,
    bytes beyond the payload size, sign of zero"""
    t = dict(m)
    t["flags"] = (m["flags"] & 1) | (r.u64() & 0xfffffffe)
    t["dest"], t["seq"], t["next"] = r.below(1 << 20), r.below(1 << 32), r.u64()
    t["pl"] = list(m["pl"][:m["size"]]) + [r.below(256) for _ in range(r.choice([0, 5, 64]))]
    if m["t"] & 0x7fffffffffffffff == 0:
        t["t"] = m["t"] ^ (r.below(2) << 63)
    return t


def line_of(ms):
    out = []
    for m in ms:
        out += ["0x%x" % m["t"], str(m["flags"]), str(m["type"]), str(m["size"]),
                ("".join("%02x" % b for b in m["pl"]) or "-"), str(m["dest"]), str(m["seq"]), "0x%x" % m["next"]]
    return " ".join(out)


def content_key(m):
    t = m["t"]
    if t & 0x7fffffffffffffff == 0:
        t = 0
    return (t, m["flags"] & 1, m["type"], m["size"], tuple(m["pl"][:m["size"]]))


def laws(bits):
    """strict-weak-order laws on a 3x3 result matrix; returns the name of a broken law or None"""
    b = [[bits[3 * i + j] == "1" for j in range(3)] for i in range(3)]
    for i in range(3):
        if b[i][i]:
            return "irreflexive(%d)" % i
    for i in range(3):
        for j in range(3):
            if b[i][j] and b[j][i]:
                return "asymmetric(%d,%d)" % (i, j)
    for i in range(3):
        for j in range(3):
            for k in range(3):
                if b[i][j] and b[j][k] and not b[i][k]:
                    return "transitive(%d,%d,%d)" % (i, j, k)
                inc = lambda x, y: not b[x][y] and not b[y][x]
                if inc(i, j) and inc(j, k) and not inc(i, k):
                    return "incomparability-transitive(%d,%d,%d)" % (i, j, k)
    return None


def run(c, replay):
    r = V.Rng(c.seed)
    n = 4000 if c.tier == "quick" else 120000
    pr = V.coq_prove("C16")
    proof_ok = c.proof(pr)
    c.assumptions += ["timestamps are not NaN (outside the property)",
                      "sign-magnitude key of the double's bit pattern is monotone for IEEE < and == : checked on the C side for every pair used (KEYFAIL otherwise)",
                      "payload arrays hold at least pl_size bytes (wf_msg)"]
    okm, lgm, mexe = V.ocaml_build()
    sd = V.scratch_dir()
    okb, lgb, objs = V.build_impl(sd)
    okd, lgd, exe = V.build_driver(sd, "drv_c16", objs) if okb else (False, "", "")
    if not (okm and okb and okd):
        c.violation("build-failed", dict(kind="build", log=(lgm + lgb + lgd)[-3000:]), found_input=False)
        return
    # ---- cases: corpus first, then generated triples, each followed by its twin
    triples = []
    if replay:
        rp = json.load(open(replay))
        triples = [rp["case"]] if "case" in rp else []
    cp = os.path.join(V.VERIF, "corpus", "C16.jsonl")
    if os.path.exists(cp):
        triples += [json.loads(l) for l in open(cp) if l.strip()]
    tiestat = [0] * 6
    while len(triples) < n:
        a = gen_msg(r)
        k1, k2 = r.below(6), r.below(6)
        tiestat[k1] += 1
        tiestat[k2] += 1
        b = gen_msg(r, a, k1)
        cc = gen_msg(r, r.choice([a, b]), k2)
        tr = [a, b, cc]
        r.shuffle(tr)
        triples.append(tr)
        triples.append([twin(r, m) for m in tr])
    inp = "\n".join(line_of(t) for t in triples) + "\n"
    rc, out_c, err_c = V.run([exe], inp=inp)
    rm, out_m, err_m = V.model_run(mexe, "c16", inp)
    lc, lm = out_c.split("\n"), out_m.split("\n")
    if rc != 0 or rm != 0 or len(lc) < len(triples) or len(lm) < len(triples):
        sig = "sanitizer" if "ERROR: AddressSanitizer" in err_c or "runtime error" in err_c else "driver-failed"
        c.violation(sig, dict(kind=sig, rc=[rc, rm], stderr=(err_c + err_m)[-3000:]), found_input=(sig == "sanitizer"))
        return
    # ---- correspondence + property oracle on the implementation's own answers
    corr_bad, nontrivial, seen = None, 0, set()
    for i, t in enumerate(triples):
        fc, fm = lc[i].split(), lm[i].split()
        if fc[2] != "K":
            c.violation("time-key", dict(kind="harness-assumption", what="time key not monotone", case=t), found_input=False)
            return
        law = laws(fc[0]) or laws(fc[1])
        if law:
            c.violation("swo-law:" + law.split("(")[0], dict(kind="property", law=law, case=t, impl=fc[:2],
                        how="./check C16 --replay <this file>"), found_input=True)
        ck = [content_key(m) for m in t]
        # content-only: implementation result must be a function of the content keys
        for x in range(3):
            for y in range(3):
                same = ck[x] == ck[y]
                if same and (fc[0][3 * x + y] == "1" or fc[0][3 * y + x] == "1"):
                    c.violation("content-only:equal-content-ordered", dict(kind="property", case=t, pair=[x, y], impl=fc[:2]), True)
        if i % 2 == 1 and not replay and i >= len(triples) - 2 * ((len(triples)) // 2):
            pass
        if fc[:2] != fm[:2] and corr_bad is None:
            corr_bad = dict(kind="correspondence", driver="drv_c16", index=i, case=t, impl=fc[:2], model=fm[:2])
        key = tuple(ck)
        if key not in seen and len(set(ck)) >= 2 and (ck[0][0] == ck[1][0] or ck[1][0] == ck[2][0] or ck[0][0] == ck[2][0]):
            nontrivial += 1
        seen.add(key)
    # twins: consecutive generated lines (original, twin) must give identical matrices on the implementation
    start = len(triples) - 2 * ((len(triples) - (len(triples) % 2 and 0)) // 2)
    gen0 = 0
    for i in range(len(triples) - 1):
        a, b = triples[i], triples[i + 1]
        if [content_key(m) for m in a] == [content_key(m) for m in b] and a is not b and lc[i].split()[:2] != lc[i + 1].split()[:2]:
            c.violation("content-only:twin-differs", dict(kind="property", case=a, twin=b, impl=[lc[i], lc[i + 1]]), True)
        gen0 += 1
    if corr_bad and not c.violations:
        # the model no longer describes the implementation: search around the disagreeing triple for an input on which the implementation
        # itself breaks a law (third messages whose differing key lies between / half a range away from the two that disagree)
        t = corr_bad["case"]
        extra = []
        for x in range(3):
            for y in range(3):
                if x == y:
                    continue
                for _ in range(150):
                    cmsg = dict(r.choice([t[x], t[y]]))
                    f = r.choice(["type", "type", "size", "flags", "t", "pl"])
                    if f == "type":
                        lo, hi = sorted([t[x]["type"], t[y]["type"]])
                        cmsg["type"] = r.choice([(lo + hi) // 2, ((lo + hi) // 2 + (1 << 31)) % (1 << 32), (lo + (1 << 31)) % (1 << 32), (hi + (1 << 31)) % (1 << 32),
                                                  (lo + (1 << 30)) % (1 << 32), (hi + (1 << 30)) % (1 << 32), r.below(1 << 32)])
                    elif f == "size":
                        cmsg["size"] = r.choice(SIZES)
                        cmsg["pl"] = (list(cmsg["pl"]) + [r.below(256) for _ in range(140)])[:cmsg["size"] + 3]
                    elif f == "flags":
                        cmsg["flags"] ^= r.choice([1, 2, 4, 0x10000])
                    elif f == "t":
                        cmsg["t"] = r.choice(TIMES + [t[x]["t"], t[y]["t"]])
                    elif cmsg["size"] > 0:
                        cmsg["pl"] = list(cmsg["pl"])
                        k = r.below(cmsg["size"])
                        cmsg["pl"][k] = (cmsg["pl"][k] + r.choice([1, 127, 128, 129, 255])) % 256
                    extra.append([t[x], t[y], cmsg])
        rc2, out2, err2 = V.run([exe], inp="\n".join(line_of(e) for e in extra) + "\n")
        for e, l in zip(extra, out2.split("\n")):
            f2 = l.split()
            if len(f2) < 2:
                break
            law = laws(f2[0]) or laws(f2[1])
            if law:
                c.violation("swo-law:" + law.split("(")[0], dict(kind="property", law=law, case=e, impl=f2[:2], found_by="search around the triple on which model and implementation disagree",
                            how="./check C16 --replay <this file>"), found_input=True)
                break
    if corr_bad and not c.violations:
        c.violation("correspondence", corr_bad, found_input=False)
    if not proof_ok and not c.violations:
        c.violation("proof", c.broken_proof, found_input=False)
    # in-Coq cross-check of the extraction on a small corpus
    c.cov.update(evaluations=len(triples) * 18, distinct_nontrivial=nontrivial,
                 rule="triples of messages with ties on a prefix of (time, ANTI bit, type, size, payload), sizes 0/1/2/31/32/33/100, "
                      "each followed by a same-content twin that differs in link/dest/seq/other flag bits/bytes beyond pl_size/sign of zero; "
                      "non-trivial = distinct content triple with at least one timestamp tie and two different contents",
                 traces_validated_against_impl=len(triples),
                 tie_prefix_distribution=tiestat,
                 samples=[line_of(triples[-2]), line_of(triples[-1])])
