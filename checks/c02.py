"""C02 — distributed (multi-node MPI) results equal the sequential execution."""
import vcommon as V, simrun as S
from checks import simcommon as C


def run(c, replay):
    r = V.Rng(c.seed)
    ctx = C.setup(c, "C02")
    if not ctx:
        return
    c.assumptions += ["MPI is modelled: every message delivered exactly once after a finite delay, no ordering across senders, collectives compute sum / min; "
                      "MPI progress and buffer exhaustion cannot be exhibited by the model",
                      "ranks run as separate processes on one machine (mpiexec --oversubscribe --bind-to none)"]
    nprogs = 3 if c.tier == "quick" else 60
    progs, runs = C.campaign(c, ctx, r, nprogs, 0, c.tier, variants=("pred",), ranks_list=(2, 3), jobs=3,
                             extra_cfgs=[(1, 1, 100), (2, 2, 0)] if c.tier == "quick" else [(1, 1, 100), (2, 2, 0), (3, 3, 50)], watchdog=15)
    # ---- the same under a network with finite, uneven delivery delays (harness/netshim.c): busy programs, short GVT periods, a few
    # messages (events or anti-messages) travelling much longer than a GVT round while the rest is delivered quickly
    import progen, os
    nets = ["300,20000,40,%d" % (c.seed * 7 + 1), "100,12000,15,%d" % (c.seed * 7 + 2), "1000,30000,100,%d" % (c.seed * 7 + 3)]
    njobs = 24 if c.tier == "quick" else 200
    busy = []
    for k in range(njobs):
        p = progen.gen_program(r, lps=r.choice([6, 8, 12, 16]), target=r.choice([100, 150, 300]), zero_ts=(k % 3 == 0))
        text = progen.render(p)
        pf = os.path.join(ctx["sd"], "busy%d.txt" % k)
        open(pf, "w").write(text)
        busy.append(dict(p=p, text=text, path=pf, variant="pred", tend=0, seqstop=None, seqfull=None, idx=1000 + k))

    def one(k):
        pr = busy[k]
        pr["seqstop"] = pr["seqfull"] = S.run_seq(ctx["mexe"], pr["path"], log=False, evalinit=True, stop=False)
        cfg = [(2, 2, 100, 2), (2, 1, 200, 3), (2, 3, 100, 2), (3, 2, 100, 2), (1, 2, 100, 3)][k % 5]
        net = nets[k % len(nets)]
        res = S.run_sim(ctx["exe"], pr["path"], threads=cfg[0], ckpt=cfg[1], gvt=cfg[2], ranks=cfg[3], watchdog=20, timeout=50, net=net)
        return dict(prog=pr, cfg=cfg, res=res, trace=[], stats=None, delay=None, net=net)
    from concurrent.futures import ThreadPoolExecutor
    with ThreadPoolExecutor(4) as ex:
        runs = runs + list(ex.map(one, range(njobs)))
    ok, hung, nontriv = 0, 0, set()
    for run_ in runs:
        res, pr = run_["res"], run_["prog"]
        if res.sanitizer:
            C.sanitizer_violation(c, res, pr["text"], C.describe(run_))
            continue
        if not res.returned:
            hung += 1
            continue
        ok += 1
        if len(res.final) != pr["p"]["lps"]:
            c.violation("lp-ownership", dict(kind="property", what="%d LPs finalised, %d expected" % (len(res.final), pr["p"]["lps"]), program=pr["text"], config=C.describe(run_)), True)
        elif res.final != pr["seqstop"].final:
            diff = [(a, b) for a, b in zip(res.final, pr["seqstop"].final) if a != b][:4]
            c.violation("final-state-differs", dict(kind="property", what="LP state differs from the sequential execution in a multi-rank run", differing=diff,
                                                    program=pr["text"], config=C.describe(run_)), True)
        nontriv.add((pr["idx"], run_["cfg"]))
    C.finish(c, ctx)
    c.cov.update(evaluations=len(runs), distinct_nontrivial=len(nontriv), runs_returned=ok, runs_not_returned_inconclusive=hung,
                 rule="generated interpreter programs x (2, 3 ranks) x (1..3+ threads per rank, checkpoint interval, GVT period down to 0), plus busy programs under a simulated network "
                      "with uneven finite delivery delays (per sender-thread and destination FIFO, as MPI guarantees); per-LP final digests of the "
                      "returning runs against the extracted reference executor; non-trivial = distinct (program, layout) that returned",
                 traces_validated_against_impl=ok, samples=[C.describe(runs[0])])
