"""C02 — distributed (multi-node MPI) results equal the sequential execution."""
import vcommon as V, simrun as S
from checks import simcommon as C


def run(c, replay):
    r = V.Rng(c.seed)
    ctx = C.setup(c, "C02")
    if not ctx:
        return
    c.assumptions += ["MPI is modelled: every message delivered exactly once after a finite delay, no ordering across senders, collectives compute sum / min; "
                      "MPI progress and buffer exhaustion cannot be exhibited by the model",
                      "ranks run as separate processes on one machine (mpiexec --oversubscribe --bind-to none)"]
    nprogs = 5 if c.tier == "quick" else 60
    progs, runs = C.campaign(c, ctx, r, nprogs, 0, c.tier, variants=("pred",), ranks_list=(2, 3), jobs=3,
                             extra_cfgs=[(1, 1, 100), (2, 2, 0)] if c.tier == "quick" else [(1, 1, 100), (2, 2, 0), (3, 3, 50)], watchdog=40)
    ok, hung, nontriv = 0, 0, set()
    for run_ in runs:
        res, pr = run_["res"], run_["prog"]
        if res.sanitizer:
            C.sanitizer_violation(c, res, pr["text"], C.describe(run_))
            continue
        if not res.returned:
            hung += 1
            continue
        ok += 1
        if len(res.final) != pr["p"]["lps"]:
            c.violation("lp-ownership", dict(kind="property", what="%d LPs finalised, %d expected" % (len(res.final), pr["p"]["lps"]), program=pr["text"], config=C.describe(run_)), True)
        elif res.final != pr["seqstop"].final:
            diff = [(a, b) for a, b in zip(res.final, pr["seqstop"].final) if a != b][:4]
            c.violation("final-state-differs", dict(kind="property", what="LP state differs from the sequential execution in a multi-rank run", differing=diff,
                                                    program=pr["text"], config=C.describe(run_)), True)
        nontriv.add((pr["idx"], run_["cfg"]))
    C.finish(c, ctx)
    c.cov.update(evaluations=len(runs), distinct_nontrivial=len(nontriv), runs_returned=ok, runs_not_returned_inconclusive=hung,
                 rule="generated interpreter programs x (2, 3 ranks) x (1..3+ threads per rank, checkpoint interval, GVT period down to 0); per-LP final digests of the "
                      "returning runs against the extracted reference executor; non-trivial = distinct (program, layout) that returned",
                 traces_validated_against_impl=ok, samples=[C.describe(runs[0])])
