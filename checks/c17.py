"""C17 — thread barrier: nobody passes early, exactly one leader, reusable."""
import json, os
import vcommon as V


def run(c, replay):
    r = V.Rng(c.seed)
    pr = V.coq_prove("C17")
    proof_ok = c.proof(pr)
    c.assumptions += ["C11 atomics taken as sequentially consistent; the code between two scheduling points runs atomically (cooperative scheduler: "
                      "one point before the fetch-add, one before every load in both spin loops)",
                      "the barrier keeps static state across runs: one set of threads per process"]
    okm, lgm, mexe = V.ocaml_build()
    sd = V.scratch_dir()
    okb, lgb, objs = V.build_impl(sd)
    okd, lgd, exe = V.build_driver(sd, "drv_barrier", objs) if okb else (False, "", "")
    if not (okm and okb and okd):
        c.violation("build-failed", dict(kind="build", log=(lgm + lgb + lgd)[-3000:]), found_input=False)
        return
    nruns = 60 if c.tier == "quick" else 1500
    cases = []
    if replay:
        rp = json.load(open(replay))
        if "case" in rp:
            cases.append(tuple(rp["case"]))
    for k in range(nruns):
        n = r.choice([1, 2, 2, 3, 3, 4, 5, 6])
        uses = r.choice([1, 4, 5, 9, 50]) if k % 3 else 50
        stride = r.choice([1, 1, 2, 5, 30])      # long strides: a fast thread re-enters while the slow ones are still polling
        cases.append((n, uses, r.below(1 << 30) + 1, stride))
    steps, corr_bad = 0, None
    for (n, uses, seed, stride) in cases:
        log = os.path.join(sd, "sched.log")
        rc, so, se = V.run([exe, str(n), str(uses), str(seed), str(stride), log], timeout=120)
        L = sorted(l for l in so.split("\n") if l.startswith("L "))
        case = [n, uses, seed, stride]
        if rc != 0 or "OK" not in so:
            san = "Sanitizer" in se or "runtime error" in se
            c.violation("sanitizer" if san else ("barrier-stuck" if "HANG" in so else "driver-failed"),
                        dict(kind="property" if "HANG" in so or san else "driver", case=case, out=so[-500:], stderr=se[-1500:]), "HANG" in so or san)
            continue
        # ---- property oracle on the implementation
        early = int([l for l in so.split("\n") if l.startswith("EARLY")][0].split()[1])
        if early:
            c.violation("early-exit", dict(kind="property", what="%d returns before all threads entered that use" % early, case=case,
                                           how="harness/drv_barrier %d %d %d %d -" % tuple(case)), True)
        per_use = {}
        for l in L:
            f = l.split()
            per_use.setdefault(int(f[2]), []).append(int(f[3]))
        for k, flags in per_use.items():
            if sum(flags) != 1 or len(flags) != n:
                c.violation("leader-count", dict(kind="property", what="use %d: %d leaders among %d returns" % (k, sum(flags), len(flags)), case=case), True)
                break
        if len(per_use) != uses:
            c.violation("not-reusable", dict(kind="property", what="%d of %d uses completed" % (len(per_use), uses), case=case), True)
        # ---- model replay of the exact linearisation
        sched = open(log).read()
        steps += sched.count("\n")
        rm, mo, me = V.run([mexe, "barrier", str(n)], inp=sched, timeout=120)
        Lm = sorted(l for l in mo.split("\n") if l.startswith("L "))
        if (rm != 0 or "BAD" in mo or L != Lm) and corr_bad is None:
            corr_bad = dict(kind="correspondence", driver="drv_barrier", case=case, model=[l for l in mo.split("\n") if "DIVERGE" in l or "STUCK" in l][:3],
                            leader_flags_equal=(L == Lm))
    if corr_bad and not c.violations:
        c.violation("correspondence", corr_bad, found_input=False)
    if not proof_ok and not c.violations:
        c.violation("proof", c.broken_proof, found_input=False)
    c.cov.update(evaluations=len(cases), distinct_nontrivial=len(set(cases)), scheduling_points_replayed=steps,
                 rule="real sync_thread_barrier on 1..6 threads for up to 50 consecutive uses under the cooperative scheduler (uniform and long-stride "
                      "schedules drawn from VERIF_SEED); every schedule is replayed action by action through the extracted model (exit decisions and leader "
                      "flags must agree); epoch counters check no-early-exit and leader counts on the implementation; non-trivial = distinct (threads, uses, schedule)",
                 traces_validated_against_impl=len(cases), samples=[list(cases[0]), list(cases[-1])])
