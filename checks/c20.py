"""C20 — statistics output is well-formed and consistent with what happened."""
import os, subprocess, sys
import vcommon as V, simrun as S
from checks import simcommon as C

# positions of the counters in a thread record (enum stats_thread_type)
M_PROC, M_ROLLBACK, M_MSG_ROLLBACK, M_CKPT, M_SILENT, M_ANTI = 0, 2, 4, 5, 8, 10


def run(c, replay):
    r = V.Rng(c.seed)
    ctx = C.setup(c, "C20")
    if not ctx:
        return
    c.assumptions += ["timing metrics (… time, real time) and memory metrics are not checked for value, only for presence",
                      "the LP_INIT dispatch of every LP counts as a processed message of its thread (common_msg_process) and is added to the traced forward executions"]
    nprogs = 8 if c.tier == "quick" else 80
    mask = S.mask("FORWARD", "ROLLBACK", "UNDO", "SILENT", "CKPT", "ANTI", "STATS_GVT")
    progs, runs = C.campaign(c, ctx, r, nprogs, mask, c.tier, want_stats=True, extra_cfgs=[(2, 1, 0), (3, 2, 100000), (2, 2, 50), (3, 1, 20)],
                              delays=(None, "10,1,2000,3", "10,0,1500,4", "11,1,1000,2"))
    ok, recs_checked, zero_rounds, many_rounds = 0, 0, 0, 0
    parser = os.path.join(V.REPO, "src", "log", "parse", "rootsim_stats.py")
    for run_ in runs:
        res, pr = run_["res"], run_["prog"]
        if res.sanitizer:
            C.sanitizer_violation(c, res, pr["text"], C.describe(run_))
            continue
        if not res.returned:
            continue
        ok += 1
        sf = run_["stats"]
        viol = lambda sig, **kw: c.violation(sig, dict(kind="property", program=pr["text"], config=C.describe(run_), stats_file_size=os.path.getsize(sf) if os.path.exists(sf) else -1, **kw), True)
        if not os.path.exists(sf):
            viol("stats-file-missing")
            continue
        rc, so, se = V.run([ctx["mexe"], "stats", sf], timeout=120)
        L = so.split("\n")
        if "DECODE ok" not in L:
            viol("stats-not-parsable", decoder=so[:200])
            continue
        if "REST 0" not in L or "REENC 1" not in L:
            viol("stats-trailing-garbage-or-not-canonical", decoder=[l for l in L if l.startswith(("REST", "REENC"))])
        # the shipped parser must accept it too
        pp = subprocess.run([sys.executable, "-c",
                             "import importlib.util as u; sp=u.spec_from_file_location('rsstats', %r); m=u.module_from_spec(sp); sp.loader.exec_module(m); "
                             "s=m.RSStats(%r); print(len(s.gvts))" % (parser, sf)], capture_output=True, text=True)
        if pp.returncode != 0:
            viol("shipped-parser-rejects", err=pp.stderr[-400:])
        if "COUNTS_EQUAL 1" not in L:
            viol("record-counts-differ", counts=[l for l in L if l.startswith(("NODE", "T "))])
        gv = [int(l.split()[1], 0) for l in L if l.startswith("G ")]
        if any(b < a for a, b in zip(gv, gv[1:])):
            viol("gvt-decreases", gvts=gv[:20])
        if any(l.startswith("UNDONE_LE_FORWARD") and l.endswith(" 0") for l in L):
            viol("undone-exceeds-forward")
        if len(gv) == 0:
            zero_rounds += 1
        if len(gv) > 3:
            many_rounds += 1
        # ---- per-thread counters against the trace of the same run
        th, ck, gp, ranks = run_["cfg"]
        rec_by_tid = {}
        for l in L:
            if l.startswith("R "):
                f = l.split()
                rec_by_tid.setdefault(int(f[1]), []).append([int(x, 0) for x in f[2:]])
        # LP ownership: LP_INIT dispatches are processed messages of the owner in its first interval
        cur, per = {}, {}
        for rec in run_["trace"]:
            t = rec["rid"]
            cnt = cur.setdefault(t, [0] * 6)
            k = rec["kind"]
            if k == "FORWARD": cnt[0] += 1
            elif k == "ROLLBACK": cnt[1] += 1
            elif k == "UNDO": cnt[2] += 1
            elif k == "CKPT": cnt[3] += 1
            elif k == "SILENT": cnt[4] += 1
            elif k == "ANTI": cnt[5] += 1
            elif k == "STATS_GVT":
                per.setdefault(t, []).append(cnt)
                cur[t] = [0] * 6
        for t, recs in rec_by_tid.items():
            tr = per.get(t, [])
            for i, rcd in enumerate(recs):
                if i >= len(tr):
                    break
                exp = tr[i]
                got = [rcd[M_PROC], rcd[M_ROLLBACK], rcd[M_MSG_ROLLBACK], rcd[M_CKPT], rcd[M_SILENT], rcd[M_ANTI]]
                recs_checked += 1
                # checkpoints and processed messages of the first record include the initialisation of the thread's LPs (not traced as FORWARD)
                ok_first = i == 0 and got[1:3] == exp[1:3] and got[4:] == exp[4:] and got[0] - exp[0] == got[3] - exp[3] + 0 * 1 if False else None
                if i == 0:
                    n_init = got[0] - exp[0]
                    good = got[1:3] == exp[1:3] and got[4:] == exp[4:] and got[3] == exp[3] and 0 <= n_init <= pr["p"]["lps"]
                else:
                    good = got == exp
                if not good:
                    viol("counters-differ", thread=t, record=i, file=got, traced=exp,
                         order="processed, rollbacks, undone, checkpoints, silent, anti")
                    break
    # ---- shutdown while everything pending sits at virtual time 0: a round that completes in the shutdown code computes 0.0, which the
    # main loop cannot tell from "no GVT yet": the per-thread and node record counts must still agree
    from concurrent.futures import ThreadPoolExecutor
    import progen
    t0jobs = []
    nt0 = 160 if c.tier == "quick" else 1600
    for k in range(nt0):
        if k % 4 == 0:
            p, th, spin = progen.gen_time0_program(r), r.choice([3, 4, 4, 6]), 0
        else:
            # costly self-rescheduling events: the stopping worker finishes its iteration (and possibly the round) in the main loop
            # while the others complete the round in the shutdown code
            lps = r.choice([4, 4, 5, 6])
            p, th, spin = progen.gen_time0_chain_program(r, lps), lps, r.choice([10000, 20000, 40000])
        text = progen.render(p)
        pf = os.path.join(ctx["sd"], "t0_%d.txt" % k)
        open(pf, "w").write(text)
        t0jobs.append((k, text, pf, th, r.choice([0, 1, 1, 20, 100]), r.choice([None, None, "10,1,300,3", "11,-1,200,2", "10,0,500,4"]) if not spin else None, spin))

    def t0_one(job):
        k, text, pf, th, gp, delay, spin = job
        sf = os.path.join(ctx["sd"], "t0stats_%d" % k)
        res = S.run_sim(ctx["exe"], pf, threads=th, ckpt=2 if not spin else 0, gvt=gp, stats=sf, watchdog=15, timeout=40, delay=delay, spin_ns=spin)
        return job, res, sf + ".bin"
    with ThreadPoolExecutor(6) as ex:
        t0res = list(ex.map(t0_one, t0jobs))
    t0_ok = 0
    for (k, text, pf, th, gp, delay, spin), res, sf in t0res:
        desc = dict(threads=th, checkpoint_interval=2 if not spin else 0, gvt_period_us=gp, ranks=1, variant="stop", injected_delay=delay, event_cost_ns=spin,
                    cmd=res.cmd + ("  with VERIF_EVENT_SPIN_NS=%d" % spin if spin else ""))
        if res.sanitizer:
            C.sanitizer_violation(c, res, text, desc)
            continue
        if not res.returned or not os.path.exists(sf):
            continue       # hangs of this shutdown pattern are C08's (known finding F12)
        t0_ok += 1
        rc, so, se = V.run([ctx["mexe"], "stats", sf], timeout=120)
        L = so.split("\n")
        if "DECODE ok" not in L:
            c.violation("stats-not-parsable", dict(kind="property", program=text, config=desc, decoder=so[:200]), True)
        elif "COUNTS_EQUAL 1" not in L:
            c.violation("record-counts-differ", dict(kind="property", program=text, config=desc, counts=[l for l in L if l.startswith(("NODE", "T "))]), True)
    c.cov["time0_shutdown_runs_checked"] = t0_ok
    # ---- several ranks: one file holds every node's records; each node's per-thread counters are compared with the hook trace of that
    # rank (remote anti-messages take their own paths in process.c: early ones are parked without any rollback)
    mrjobs = []
    for k in range(6 if c.tier == "quick" else 60):
        p = progen.gen_program(r, lps=r.choice([4, 6, 8]), target=r.choice([60, 150, 300]), zero_ts=(k % 3 == 0))
        text = progen.render(p)
        pf = os.path.join(ctx["sd"], "mrst%d.txt" % k)
        open(pf, "w").write(text)
        mrjobs.append((k, text, pf, r.choice([1, 2, 2]), r.choice([1, 2, 3]), r.choice([50, 100, 300]), r.choice(["100,3000,3,%d", "0,5000,5,%d", "300,8000,10,%d"]) % (c.seed * 7 + k)))

    def mr_one(job):
        k, text, pf, th, ck, gp, net = job
        sf = os.path.join(ctx["sd"], "mrstats_%d" % k)
        tf = os.path.join(ctx["sd"], "mrsttrace%d.txt" % k)
        res = S.run_sim(ctx["exe"], pf, threads=th, ckpt=ck, gvt=gp, ranks=2, net=net, stats=sf, trace_file=tf, trace_mask=mask, watchdog=25, timeout=60)
        traces = []
        for rk in range(2):
            f = "%s.rank%d" % (tf, rk)
            traces.append(S.read_trace(f))
            if os.path.exists(f):
                os.remove(f)
        return job, res, sf + ".bin", traces
    with ThreadPoolExecutor(3) as ex:
        mrres = list(ex.map(mr_one, mrjobs))
    mr_ok = mr_recs = 0
    for (k, text, pf, th, ck, gp, net), res, sf, traces in mrres:
        desc = dict(threads=th, checkpoint_interval=ck, gvt_period_us=gp, ranks=2, network_delays=net, cmd=res.cmd)
        if res.sanitizer:
            C.sanitizer_violation(c, res, text, desc)
            continue
        if not res.returned or not os.path.exists(sf):
            continue
        rc, so, se = V.run([ctx["mexe"], "stats", sf], timeout=120)
        L = so.split("\n")
        if "DECODE ok" not in L:
            c.violation("stats-not-parsable", dict(kind="property", program=text, config=desc, decoder=so[:200]), True)
            continue
        if "COUNTS_EQUAL 1" not in L:
            c.violation("record-counts-differ", dict(kind="property", program=text, config=desc, counts=[l for l in L if l.startswith(("NODE", "T "))]), True)
            continue
        mr_ok += 1
        node = -1
        recs = {}
        for l in L:
            if l.startswith("NODE"):
                node += 1
            elif l.startswith("R "):
                f = l.split()
                recs.setdefault((node, int(f[1])), []).append([int(x, 0) for x in f[2:]])
        bad = None
        for rk, tr in enumerate(traces):
            cur, per = {}, {}
            for rec in tr:
                t = rec["rid"]
                cnt = cur.setdefault(t, [0] * 6)
                kd = rec["kind"]
                if kd == "FORWARD": cnt[0] += 1
                elif kd == "ROLLBACK": cnt[1] += 1
                elif kd == "UNDO": cnt[2] += 1
                elif kd == "CKPT": cnt[3] += 1
                elif kd == "SILENT": cnt[4] += 1
                elif kd == "ANTI": cnt[5] += 1
                elif kd == "STATS_GVT":
                    per.setdefault(t, []).append(cnt)
                    cur[t] = [0] * 6
            for (nd, t), rl in recs.items():
                if nd != rk:
                    continue
                for i, rcd in enumerate(rl):
                    if i >= len(per.get(t, [])):
                        break
                    exp = per[t][i]
                    got = [rcd[M_PROC], rcd[M_ROLLBACK], rcd[M_MSG_ROLLBACK], rcd[M_CKPT], rcd[M_SILENT], rcd[M_ANTI]]
                    mr_recs += 1
                    good = (got[1:3] == exp[1:3] and got[4:] == exp[4:] and got[3] == exp[3] and 0 <= got[0] - exp[0] <= 8) if i == 0 else got == exp
                    if not good and bad is None:
                        bad = dict(node=rk, thread=t, record=i, file=got, traced=exp, order="processed, rollbacks, undone, checkpoints, silent, anti")
        if bad:
            c.violation("counters-differ", dict(kind="property", program=text, config=desc, **bad), True)
    c.cov.update(two_rank_files_checked=mr_ok, two_rank_thread_records_compared=mr_recs)
    C.finish(c, ctx)
    c.cov.update(evaluations=len(runs) + len(t0jobs), distinct_nontrivial=many_rounds, runs_returned=ok, thread_records_compared_with_trace=recs_checked,
                 files_with_zero_rounds=zero_rounds, files_with_more_than_3_rounds=many_rounds,
                 rule="runs with a statistics file under GVT periods 0 / small / very large (zero, one, many rounds) and 1..16 threads; the .bin is decoded by the "
                      "extracted decoder (must consume everything and re-encode identically) and by the shipped parser; record counts, GVT monotonicity, cumulative "
                      "undone <= forward, and every per-thread record vs the hook trace of the same interval; non-trivial = file with more than 3 rounds",
                 traces_validated_against_impl=ok, samples=[C.describe(runs[0])])
