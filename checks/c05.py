"""C05 — rollback restores the exact LP state (checkpoint restore + coast forward)."""
import vcommon as V, simrun as S
from checks import c12, simcommon as C


def run(c, replay):
    c.assumptions += ["allocator level: arena insertion position is an input; content observed per 64-byte granule",
                      "LP level (silent re-execution, no sends during it, RNG stream replay) is observed end to end through the hash-chain digests "
                      "of runs with checkpoint intervals 1..7/auto that roll back (rollback and silent-execution counts are recorded from the hooks)"]
    c12.campaign(c, "ckpt", "C05")
    # ---- LP level: runs that do roll back and coast forward must end with the reference digests
    r = V.Rng(c.seed + 77)
    okm, lgm, mexe = V.ocaml_build()
    sd = V.scratch_dir()
    ok, lg, exe = S.build_sim(sd)
    if not ok:
        c.violation("build-failed", dict(kind="build", log=lg[-2000:]), False)
        return
    ctx = dict(exe=exe, mexe=mexe, sd=sd, proof_ok=True)
    progs, runs = C.campaign(c, ctx, r, 6 if c.tier == "quick" else 60, S.mask("ROLLBACK", "SILENT", "CKPT"), c.tier, variants=("pred",),
                             extra_cfgs=[(3, 1, 300), (4, 4, 300), (6, 7, 300)])
    lpruns = C.lp_campaign(c, ctx, r, 12 if c.tier == "quick" else 200, S.mask("ROLLBACK", "SILENT", "CKPT"))
    c.cov.update(C.worker_report(c, lpruns))
    runs = runs + lpruns
    # two ranks: the history then holds markers of messages sent to another rank, which the coast forward must skip as well
    progs2, runs2 = C.campaign(c, ctx, r, 4 if c.tier == "quick" else 40, S.mask("ROLLBACK", "SILENT", "CKPT"), c.tier, variants=("pred",), ranks_list=(2,),
                               only_cfgs=[(2, 3, 200), (2, 6, 300), (1, 4, 200)], use_corpus=False, long_every=0, jobs=3)
    runs = runs + runs2
    rb = sil = deep = okr = 0
    for run_ in runs:
        res, pr = run_["res"], run_["prog"]
        if res.sanitizer:
            C.sanitizer_violation(c, res, pr["text"], C.describe(run_))
            continue
        if not res.returned:
            continue
        okr += 1
        nrb = sum(1 for x in run_["trace"] if x["kind"] == "ROLLBACK")
        nsil = sum(1 for x in run_["trace"] if x["kind"] == "SILENT")
        rb += nrb; sil += nsil
        deep += sum(1 for x in run_["trace"] if x["kind"] == "ROLLBACK" and x["w"][1] > x["w"][2] + 1)
        if res.final != pr["seqstop"].final:
            c.violation("state-after-rollback-differs", dict(kind="property", program=pr["text"], config=C.describe(run_), rollbacks=nrb, silent=nsil, script=run_.get("script")), True)
    c.cov.update(lp_level_runs=okr, rollbacks_observed=rb, silent_reexecutions_observed=sil, rollbacks_between_checkpoints=deep)
    # ---- the random stream through the library distributions (Normal, Gamma, ...) is part of the restored state as well
    ncmp, nrbl, bad = C.lp_libm_campaign(c, ctx, r, 8 if c.tier == "quick" else 120)
    if bad:
        c.violation("state-after-rollback-differs:libm-draws", bad, True)
    c.cov.update(libm_lp_level_runs_compared=ncmp, libm_lp_level_rollbacks=nrbl)
