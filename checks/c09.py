"""C09 — results are configuration-independent and repeatable; RNG replays after rollback."""
import vcommon as V, simrun as S
from checks import simcommon as C
from checks.c18 import fmt


def progen_libm(r, k):
    import progen
    return progen.gen_program(r, lps=r.choice([2, 3, 4, 8, 12]), target=r.choice([25, 60, 150]), libm=True, zero_ts=(k % 3 == 0))


def run(c, replay):
    r = V.Rng(c.seed)
    ctx = C.setup(c, "C09")
    if not ctx:
        return
    c.assumptions += ["the library RNG state lives in rollbackable LP memory: replay after rollback is observed through the hash chain (every draw is mixed in)",
                      "configuration independence inherits C01's level (abstract theorem + differential runs)"]
    # ---- seeding: a function of (seed, lp) only; compared bit-exactly with the model
    okb, lgb, objs = V.build_impl(ctx["sd"] + "")
    okd, lgd, exe18 = V.build_driver(ctx["sd"], "drv_c18", objs)
    cases = [["INIT", r.choice([0, 1, 2, 7, 1000, r.below(1 << 40), r.u64()]), r.choice([0, 1, r.u64(), r.u64()])] for _ in range(300 if c.tier == "quick" else 5000)]
    inp = "\n".join(fmt(x) for x in cases) + "\n"
    rc, out_c, err_c = V.run([exe18], inp=inp)
    rm, out_m, err_m = V.model_run(ctx["mexe"], "c18", inp)
    if rc != 0 or rm != 0 or out_c != out_m:
        lc, lm = out_c.split("\n"), out_m.split("\n")
        i = next((k for k in range(min(len(lc), len(lm))) if lc[k] != lm[k]), 0)
        c.violation("seeding-correspondence", dict(kind="correspondence", case=cases[i] if i < len(cases) else None,
                    impl=lc[i] if i < len(lc) else None, model=lm[i] if i < len(lm) else None), False)
    # ---- metamorphic matrix on RNG-driven programs
    nprogs = 8 if c.tier == "quick" else 80
    progs, runs = C.campaign(c, ctx, r, nprogs, 0, c.tier, variants=("pred",), extra_cfgs=[(2, 1, 100), (2, 1, 100), (5, 0, 2000)])
    groups, ok = {}, 0
    for run_ in runs:
        res, pr = run_["res"], run_["prog"]
        if res.sanitizer:
            C.sanitizer_violation(c, res, pr["text"], C.describe(run_))
            continue
        if not res.returned:
            continue
        ok += 1
        groups.setdefault(pr["idx"], []).append((tuple(res.final), run_))
    nontriv = 0
    for idx, lst in groups.items():
        pr = lst[0][1]["prog"]
        ref = tuple(pr["seqstop"].final)
        for fin, run_ in lst:
            if fin != lst[0][0]:
                c.violation("config-dependent-result", dict(kind="property", program=pr["text"], config_a=C.describe(lst[0][1]),
                            config_b=C.describe(run_)), True)
                break
            if fin != ref:
                c.violation("differs-from-sequential", dict(kind="property", program=pr["text"], config=C.describe(run_)), True)
                break
        if len(lst) >= 3:
            nontriv += 1
    # ---- programs drawing through libm (Expent, Normal, Gamma, Zipf, RandomRangeNonUniform): there is no Gallina twin of libm,
    # so these are compared implementation against implementation: the serial runtime's result is the reference (C10 ties it to the
    # reference executor on modelled programs) and every parallel configuration must reproduce it
    import os
    from concurrent.futures import ThreadPoolExecutor
    nl = 6 if c.tier == "quick" else 60
    ljobs, lprogs = [], []
    for k in range(nl):
        p = progen_libm(r, k)
        text = __import__("progen").render(p)
        pf = os.path.join(ctx["sd"], "libm%d.txt" % k)
        open(pf, "w").write(text)
        ref = S.run_sim(ctx["exe"], pf, mode="serial", threads=1, gvt=0, watchdog=60, timeout=120)
        if ref.sanitizer:
            C.sanitizer_violation(c, ref, text, "serial")
            continue
        if not ref.returned:
            continue
        lprogs.append((pf, text, ref))
        for (th, ck, gp) in C.configs(r, c.tier, p["lps"]) + [(2, 1, 100), (4, 1, 200)]:
            ljobs.append((len(lprogs) - 1, th, ck, gp, 1))
        if p["lps"] >= 2:
            ljobs.append((len(lprogs) - 1, 2, 2, 200, 2))

    def one(job):
        i, th, ck, gp, ranks = job
        return job, S.run_sim(ctx["exe"], lprogs[i][0], threads=th, ckpt=ck, gvt=gp, watchdog=25, timeout=60, ranks=ranks)
    with ThreadPoolExecutor(4) as ex:
        lres = list(ex.map(one, ljobs))
    lok = 0
    for (i, th, ck, gp, ranks), res in lres:
        pf, text, ref = lprogs[i]
        cfg = dict(threads=th, checkpoint_interval=ck, gvt_period_us=gp, ranks=ranks, cmd=res.cmd)
        if res.sanitizer:
            C.sanitizer_violation(c, res, text, cfg)
            continue
        if not res.returned:
            continue
        lok += 1
        if sorted(res.final) != sorted(ref.final):
            c.violation("config-dependent-result:libm-draws", dict(kind="property", program=text, config_a="serial runtime", config_b=cfg,
                        serial=ref.final[:4], parallel=sorted(res.final)[:4]), True)
    C.finish(c, ctx)
    c.cov["libm_programs"] = len(lprogs)
    c.cov["libm_runs_returned"] = lok
    c.cov.update(evaluations=len(runs) + len(cases) + len(lres), distinct_nontrivial=nontriv, runs_returned=ok, seeding_cases=len(cases),
                 rule="seeding compared bit-exactly with the model for sampled (lp, seed); programs drawing Expent/Normal/Gamma/Zipf/RandomRangeNonUniform (libm: no Gallina twin) "
                      "run under the same matrix plus a 2-rank run, all final digests equal the serial runtime's; programs drawing RandomU64/Random/RandomRange run under a matrix of "
                      "(threads, checkpoint interval, GVT period, repetition): all final digests equal each other and the reference; non-trivial = program with >= 3 returning configurations",
                 traces_validated_against_impl=ok, samples=[fmt(cases[0]), C.describe(runs[0])])
