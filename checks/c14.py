"""C14 — every LP has exactly one owner, and routing agrees with ownership."""
import json, os
import vcommon as V


def oracle(cfg, lines):
    """ownership/routing laws evaluated on the implementation's own output for one configuration.
    returns (law broken or None, number of LPs checked)"""
    L, R, T = cfg
    nodes, threads, routes = {}, {}, []
    for l in lines:
        f = l.split()
        if f[0] == "N":
            nodes[int(f[1])] = (int(f[2], 0), int(f[3], 0), int(f[4], 0))
        elif f[0] == "T":
            threads[(int(f[1]), int(f[2]))] = (int(f[3], 0), int(f[4], 0))
        elif f[0] == "R":
            routes.append((int(f[1], 0), int(f[2]), int(f[3])))
    pos = 0
    for nd in range(R):
        if nd not in nodes:
            return "node-missing", 0
        nf, nl, nt = nodes[nd]
        if nf != pos:
            return "node-ranges-not-contiguous", 0
        pos = nf + nl
        if nl >= 1 and nt != min(T, nl):
            return "thread-clamp", 0
        tp = nf
        for rd in range(nt):
            if (nd, rd) not in threads:
                return "thread-missing", 0
            a, b = threads[(nd, rd)]
            if a != tp:
                return "thread-ranges-not-contiguous", 0
            if b <= a:
                return "idle-thread", 0
            tp = b
        if nl >= 1 and tp != nf + nl:
            return "thread-ranges-do-not-cover-node", 0
    if pos != L:
        return "node-ranges-do-not-cover", 0
    for (l, nd, rd) in routes:
        owners = [(n, r) for (n, r), (a, b) in threads.items() if a <= l < b]
        if owners != [(nd, rd)]:
            return "routing-disagrees-with-ownership", len(routes)
    return None, len(routes)


def run(c, replay):
    r = V.Rng(c.seed)
    pr = V.coq_prove("C14")
    proof_ok = c.proof(pr)
    c.assumptions += ["lps * ranks < 2^64 and lps_on_node * threads < 2^64 (the unbounded model equals the 64-bit code); "
                      "ranks <= 65536, threads <= 4096 as the runtime's own limits",
                      "a rank that hosts zero LPs runs zero threads (n_threads is clamped to 0): outside the property"]
    okm, lgm, mexe = V.ocaml_build()
    sd = V.scratch_dir()
    okb, lgb, objs = V.build_impl(sd)
    okd, lgd, exe = V.build_driver(sd, "drv_c14", objs) if okb else (False, "", "")
    if not (okm and okb and okd):
        c.violation("build-failed", dict(kind="build", log=(lgm + lgb + lgd)[-3000:]), found_input=False)
        return
    cfgs = []
    if replay:
        rp = json.load(open(replay))
        if "case" in rp:
            cfgs.append(tuple(rp["case"]))
    cp = os.path.join(V.VERIF, "corpus", "C14.jsonl")
    if os.path.exists(cp):
        cfgs += [tuple(json.loads(l)) for l in open(cp) if l.strip()]
    if c.tier == "quick":
        LM, RM, TM, nbig = 20, 5, 5, 300
    else:
        LM, RM, TM, nbig = 64, 8, 8, 6000
    small = [(L, R, T, "ALL") for L in range(1, LM + 1) for R in range(1, RM + 1) for T in range(1, TM + 1)]
    cfgs += small
    for _ in range(nbig):
        kind = r.below(4)
        if kind == 0:
            L = r.range(1, 5000); R = r.range(1, 64); T = r.range(1, 64)
        elif kind == 1:
            L = r.range(1, 1 << 40); R = r.range(1, 24); T = r.choice([r.range(1, 48), r.range(1, 8)])
        elif kind == 2:   # divisibility boundaries
            R = r.range(1, 40); T = r.range(1, 40); L = max(1, R * T * r.range(1, 50) + r.range(-2, 2))
        else:             # fewer LPs than threads / ranks
            R = r.range(1, 24); T = r.range(1, 48); L = r.range(1, max(1, R * T // 2))
        picks = set()
        for _ in range(12):
            picks.add(r.below(L))
        for k in range(1, 6):
            b = (L * k) // 6
            for d in (-1, 0, 1):
                if 0 <= b + d < L:
                    picks.add(b + d)
        picks |= {0, L - 1}
        cfgs.append((L, R, T) + tuple(sorted(picks)))
    inp = "\n".join(" ".join(str(x) for x in cf) for cf in cfgs) + "\n"
    rc, out_c, err_c = V.run([exe], inp=inp)
    rm, out_m, err_m = V.model_run(mexe, "c14", inp)
    if rc != 0 and rm == 0:
        # the library's own ownership / routing code aborted or did not finish on some triple: find the smallest such triple, one run each
        # (the loops of partition_start are proved to terminate within their fuel: a run that does not finish is itself a failing input)
        for cf in sorted(cfgs, key=lambda t: (t[0], t[1], t[2])):
            one = " ".join(str(x) for x in cf) + "\n"
            r1, o1, e1 = V.run([exe], inp=one, timeout=10)
            rm1, om1, em1 = V.model_run(mexe, "c14", one)
            if r1 != 0:
                san = "Sanitizer" in e1 or "runtime error" in e1
                c.violation("sanitizer" if san else "ownership-code-does-not-finish", dict(kind="property", case=list(cf), rc=r1,
                            what="the library's ownership / routing code %s on this (lps, ranks, threads, probed LPs)" % ("aborts under the sanitizer" if san else "does not finish (10 s) or exits abnormally"),
                            model=om1.split("\n")[:8], stderr=e1[-1500:], how="./check C14 --replay <this file>"), True)
                return
            if o1 != om1:
                law, _k = oracle(cf[:3], [l for l in o1.split("\n")[1:] if l])
                c.violation("ownership:" + (law or "differs-from-model"), dict(kind="property", law=law, case=list(cf), impl=o1.split("\n")[:40], model=om1.split("\n")[:40]), True)
                return
    if rc != 0 or rm != 0:
        sig = "sanitizer" if "Sanitizer" in err_c or "runtime error" in err_c else "driver-failed"
        last = [l for l in out_c.split("\n") if l.startswith("C ")]
        case = [int(x) for x in last[-1].split()[1:]] + ["ALL"] if last else None
        c.violation(sig, dict(kind=sig, rc=[rc, rm], case=case, what="the library's own ownership/routing code aborts under the sanitizer "
                    "on this (lps, ranks, threads)", stderr=(err_c + err_m)[-3000:]), found_input=(sig == "sanitizer" and case is not None))
        return

    def blocks(txt):
        out, cur = [], None
        for l in txt.split("\n"):
            if l.startswith("C "):
                cur = []
                out.append(cur)
            elif l and cur is not None:
                cur.append(l)
        return out
    bc, bm = blocks(out_c), blocks(out_m)
    corr_bad, lps_checked, nontriv = None, 0, 0
    if len(bc) != len(cfgs) or len(bm) != len(cfgs):
        c.violation("driver-output", dict(kind="driver-output", n=[len(bc), len(bm), len(cfgs)]), False)
        return
    for i, cf in enumerate(cfgs):
        law, k = oracle(cf[:3], bc[i])
        lps_checked += k
        if law:
            c.violation("ownership:" + law, dict(kind="property", law=law, case=list(cf), impl=bc[i][:60],
                        how="./check C14 --replay <this file>"), True)
        if bc[i] != bm[i] and corr_bad is None:
            d = next((j for j in range(min(len(bc[i]), len(bm[i]))) if bc[i][j] != bm[i][j]), min(len(bc[i]), len(bm[i])))
            corr_bad = dict(kind="correspondence", driver="drv_c14", case=list(cf),
                            impl=bc[i][d:d + 3], model=bm[i][d:d + 3])
        L, R, T = cf[:3]
        if L % R != 0 or (L // R) % T != 0 or L < R * T:
            nontriv += 1
    if corr_bad and not c.violations:
        c.violation("correspondence", corr_bad, found_input=False)
    if not proof_ok and not c.violations:
        c.violation("proof", c.broken_proof, found_input=False)
    c.cov.update(evaluations=len(cfgs), distinct_nontrivial=nontriv, lps_routed_and_checked=lps_checked,
                 exhaustive_small_space="lps<=%d ranks<=%d threads<=%d (all LPs routed)" % (LM, RM, TM),
                 rule="every (lps, ranks, threads) in the small box exhaustively, plus random triples up to lps=2^40 aimed at divisibility "
                      "boundaries and lps < ranks*threads; non-trivial = lps not divisible by ranks, or node share not divisible by threads, or fewer LPs than threads",
                 traces_validated_against_impl=len(cfgs),
                 samples=[" ".join(str(x) for x in cfgs[-1]), bc[-1][:6]])
