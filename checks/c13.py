"""C13 — fossil collection never discards what a legal rollback can need."""
import vcommon as V, simrun as S
from checks import c12, simcommon as C


def run(c, replay):
    c.assumptions += ["allocator level as C12/C05; LP level: runs with GVT periods down to 0 (fossil collection at every opportunity) and checkpoint "
                      "intervals 1..7 must keep producing the reference digests; fossil collections and later rollbacks are counted from the hooks"]
    c12.campaign(c, "fossil", "C13")
    r = V.Rng(c.seed + 99)
    okm, lgm, mexe = V.ocaml_build()
    sd = V.scratch_dir()
    ok, lg, exe = S.build_sim(sd)
    if not ok:
        c.violation("build-failed", dict(kind="build", log=lg[-2000:]), False)
        return
    ctx = dict(exe=exe, mexe=mexe, sd=sd, proof_ok=True)
    progs, runs = C.campaign(c, ctx, r, 5 if c.tier == "quick" else 60, S.mask("ROLLBACK", "FOSSIL", "COMMIT"), c.tier, variants=("pred",),
                             extra_cfgs=[(2, 1, 10), (3, 1, 50), (4, 2, 100), (8, 1, 20)], long_every=1)
    lpruns = C.lp_campaign(c, ctx, r, 12 if c.tier == "quick" else 200, S.mask("ROLLBACK", "FOSSIL", "COMMIT"))
    c.cov.update(C.worker_report(c, lpruns))
    # two ranks: history entries of messages sent to another rank (the sender keeps its copy for the anti-message) across fossil collections
    # at short GVT periods, with rollbacks afterwards; traces of multi-rank runs are per rank and not merged here: digests and sanitizers decide
    progs2, runs2 = C.campaign(c, ctx, r, 4 if c.tier == "quick" else 40, 0, c.tier, variants=("pred",), ranks_list=(2,), jobs=3, use_corpus=False, long_every=0,
                               only_cfgs=[(2, 3, 100), (1, 2, 50), (2, 5, 20)], nets=(None, "300,8000,10,%d" % (c.seed + 41), "100,3000,3,%d" % (c.seed + 42)))
    runs = runs + lpruns + runs2
    fos = rb_after = okr = 0
    for run_ in runs:
        res, pr = run_["res"], run_["prog"]
        if res.sanitizer:
            C.sanitizer_violation(c, res, pr["text"], C.describe(run_))
            continue
        if not res.returned:
            continue
        okr += 1
        seen = set()
        pending_commits = {}
        for x in run_["trace"]:
            if x["kind"] == "COMMIT":
                pending_commits.setdefault(x["w"][0], []).append(x)
            if x["kind"] == "FOSSIL":
                # everything released by this collection must lie strictly below the GVT it was given (the committed frontier)
                for cm in pending_commits.pop(x["w"][0], []):
                    if cm["ts"] >= x["w"][1]:
                        c.violation("fossil-released-uncommitted-entry", dict(kind="property", lp=x["w"][0], entry_ts_bits=hex(cm["ts"]), gvt_bits=hex(x["w"][1]),
                                    program=pr["text"], config=C.describe(run_), script=run_.get("script")), True)
                        break
            if x["kind"] == "FOSSIL" and x["w"][2] > 0:
                fos += 1; seen.add(x["w"][0])
            elif x["kind"] == "ROLLBACK" and x["w"][0] in seen:
                rb_after += 1
        if res.final != pr["seqstop"].final:
            c.violation("state-after-fossil-and-rollback-differs", dict(kind="property", program=pr["text"], config=C.describe(run_), script=run_.get("script")), True)
    c.cov.update(lp_level_runs=okr, fossil_collections_releasing_entries=fos, rollbacks_after_a_fossil_collection_of_that_lp=rb_after)
