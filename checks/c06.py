"""C06 — cancellation is exactly-once: undone sends are annihilated, nothing else is."""
import os
import vcommon as V, progen, simrun as S
from checks import simcommon as C


def flag_records(tr):
    out = []
    for rec in tr:
        k = rec["kind"]
        if k == "MSG_ALLOC":
            out.append("A %x" % rec["w"][0])
        elif k == "MSG_FREE":
            out.append("F %x" % rec["w"][0])
        elif k == "PROC":
            out.append("P %x %d" % (rec["w"][0], rec["w"][1]))
        elif k == "ANTI" and rec["w"][3] == 0:
            out.append("C %x %d" % (rec["w"][1], rec["w"][2]))
        elif k == "UNDO":
            out.append("U %x %d" % (rec["w"][1], rec["w"][2]))
    return out


def lifetime_oracle(tr):
    """order-robust part, evaluated on any run: a buffer is never released twice without having been handed out in between"""
    live = {}
    for rec in tr:
        if rec["kind"] == "MSG_ALLOC":
            live[rec["w"][0]] = True
        elif rec["kind"] == "MSG_FREE":
            if live.get(rec["w"][0]) is False:
                return "buffer %x released twice" % rec["w"][0]
            live[rec["w"][0]] = False
    return None


def run(c, replay):
    r = V.Rng(c.seed)
    ctx = C.setup(c, "C06")
    if not ctx:
        return
    c.assumptions += ["SC atomics; under the cooperative scheduler the trace order is the exact order of the fetch-adds (scheduling points before each of them "
                      "and inside msg_queue_insert), so the model predicts every value the code branches on",
                      "the sender's deferred insertion is folded into its cancel step in the replay (the proof covers the unfolded system)",
                      "remote part: MPI modelled (exactly-once delivery, arbitrary delay and inter-sender reordering); decided by multi-rank runs against the reference executor"]
    mask = S.mask("MSG_ALLOC", "MSG_FREE", "PROC", "ANTI", "UNDO")
    # ---- (1) cooperatively scheduled runs: exact replay of the flag handshake
    nsched = 12 if c.tier == "quick" else 250
    steps = insts = ok = retries = 0
    corr_bad = None
    for k in range(nsched):
        p = progen.gen_program(r, lps=r.choice([2, 3, 4, 6]), target=r.choice([15, 40, 80]), zero_ts=(k % 3 == 0))
        text = progen.render(p)
        pf = os.path.join(ctx["sd"], "c06_%d.txt" % k)
        open(pf, "w").write(text)
        th = r.choice([2, 2, 3, 4])
        seed, stride = r.below(1 << 30) + 1, r.choice([1, 2, 5, 20, 100])
        tf = os.path.join(ctx["sd"], "c06trace%d.txt" % k)
        ckk = r.choice([1, 2, 4])
        res = S.run_sim(ctx["exe"], pf, threads=th, ckpt=ckk, gvt=0, trace_file=tf, trace_mask=mask,
                        sched="%d,%d" % (seed, stride), watchdog=40, timeout=70)
        if not res.returned and not res.sanitizer and retries < 3:
            retries += 1
            # a scheduled run is deterministic and finite: on a loaded machine it is only slow, so it gets one more, longer, chance
            res = S.run_sim(ctx["exe"], pf, threads=th, ckpt=ckk, gvt=0, trace_file=tf, trace_mask=mask,
                            sched="%d,%d" % (seed, stride), watchdog=200, timeout=260)
        tr = S.read_trace(tf)
        if os.path.exists(tf):
            os.remove(tf)
        desc = dict(threads=th, schedule_seed=seed, stride=stride, cmd=res.cmd + "  with VERIF_SCHED=%d,%d" % (seed, stride))
        if res.sanitizer:
            C.sanitizer_violation(c, res, text, desc)
            continue
        if not res.returned:
            continue
        ok += 1
        seq = S.run_seq(ctx["mexe"], pf, stop=False)
        if res.final != seq.final:
            c.violation("delivered-set-differs", dict(kind="property", what="final digests differ from the reference: some event was delivered twice, never, or although cancelled",
                                                      program=text, config=desc), True)
        recs = flag_records(tr)
        rc, so, se = V.run([ctx["mexe"], "flags"], inp="\n".join(recs) + "\n", timeout=120)
        last = so.strip().split("\n")[-1] if so.strip() else ""
        f = dict(x.split("=") for x in last.split()[1:]) if last else {}
        steps += int(f.get("steps", 0)); insts += int(f.get("instances", 0))
        if rc != 0 or not last.startswith("OK"):
            div = [l for l in so.split("\n") if l.startswith("DIVERGE")][:3]
            real = any("released twice" in d or "after its release" in d or "still reachable" in d for d in div)
            if real:
                c.violation("buffer-lifetime", dict(kind="property", what=div, program=text, config=desc), True)
            elif corr_bad is None:
                corr_bad = dict(kind="correspondence", driver="flag handshake replay", divergence=div, program=text, config=desc, stderr=se[-300:])
    # ---- (2) free-running and LP-level runs: order-robust lifetime oracle + delivered set
    # legal preemptions between the extraction of a message and the marking of its flag word (scheduling point 30), and in the middle of the
    # straggler test (33): a sender's cancellation lands while the receiver holds the message
    progs, runs = C.campaign(c, ctx, r, 6 if c.tier == "quick" else 60, S.mask("MSG_ALLOC", "MSG_FREE"), c.tier, variants=("pred",), extra_cfgs=[(3, 1, 0), (4, 2, 20)],
                             delays=(None, "30,-1,300,3", "30,-1,1500,6;33,-1,200,5", "30,-1,100,2"))
    lpruns = C.lp_campaign(c, ctx, r, 8 if c.tier == "quick" else 120, S.mask("MSG_ALLOC", "MSG_FREE"))
    wcov = C.worker_report(c, lpruns)     # ties the worker-model theorems (C06_worker_exactly_once, ..._finds_its_message) to process.c
    runs = runs + lpruns
    # ---- (3) several ranks: remote events, remote anti-messages (also early ones), exactly-once end to end
    progs2, runs2 = C.campaign(c, ctx, r, 4 if c.tier == "quick" else 40, 0, c.tier, variants=("pred",), ranks_list=(2, 3), jobs=3, nets=(None, "300,15000,20,%d" % (c.seed + 11), "100,8000,10,%d" % (c.seed + 12)))
    nfree = 0
    for run_ in runs + runs2:
        res, pr = run_["res"], run_["prog"]
        if res.sanitizer:
            C.sanitizer_violation(c, res, pr["text"], C.describe(run_))
            continue
        if not res.returned:
            continue
        nfree += 1
        bad = lifetime_oracle(run_["trace"])
        if bad:
            c.violation("buffer-lifetime", dict(kind="property", what=bad, program=pr["text"], config=C.describe(run_), script=run_.get("script")), True)
        if res.final != pr["seqstop"].final:
            c.violation("delivered-set-differs", dict(kind="property", what="final digests differ from the reference: some event was delivered twice, never, or although cancelled",
                                                      program=pr["text"], config=C.describe(run_), script=run_.get("script")), True)
    if corr_bad and not c.violations:
        c.violation("flag-handshake-correspondence", corr_bad, found_input=False)
    C.finish(c, ctx)
    c.cov.update(evaluations=nsched + len(runs) + len(runs2), distinct_nontrivial=ok, flag_steps_replayed=steps, message_instances=insts,
                 scheduled_runs_returned=ok, other_runs_checked=nfree, **wcov,
                 rule="cooperatively scheduled runs (uniform / long-stride schedules): every fetch-add result on every local message replayed through the extracted "
                      "handshake model, releases checked against it; free-running, LP-level (rollback storms) and 2..3-rank runs: release-twice oracle and final digests "
                      "against the reference executor; non-trivial = scheduled run that returned",
                 traces_validated_against_impl=ok, samples=[progen.render(progen.gen_program(V.Rng(c.seed), lps=2, target=5))[:300]])
