"""C10 — the serial runtime implements the reference semantics."""
import json, os
import vcommon as V, progen, simrun as S
from checks import simcommon as C


def ticks_of(p, t):
    return t


def run(c, replay):
    r = V.Rng(c.seed)
    ctx = C.setup(c, "C10")
    if not ctx:
        return
    c.assumptions += ["valid models only: no output before its cause in the event order (three quarters of the programs: strictly after; one quarter: "
                      "zero-delay relays whose content ties with the event in flight), event types < 65534",
                      "termination time test of serial.c is gated by a wall-clock timer: runs use period 0 (test at every event) or no termination time",
                      "tie between serial.c and the reference executor is differential (dispatch logs), not a mechanised refinement"]
    n = 25 if c.tier == "quick" else 300
    progs = []
    if replay:
        rp = json.load(open(replay))
        if "program" in rp:
            progs.append(("replay", rp["program"], rp.get("tend", 0)))
    import glob
    for f in sorted(glob.glob(os.path.join(V.VERIF, "corpus", "C10_*.txt"))):
        progs.append((os.path.basename(f)[:-4], open(f).read(), 0))
    nontriv, ndisp, stats = 0, 0, dict(ties=0, zero_ts=0, tend=0, init_true=0, relay=0, content_ties=0)
    for k in range(n):
        p = progen.gen_program(r, heavy_mem=(k % 7 == 0), zero_ts=(k % 3 == 0), relay=(k % 4 == 1))
        if "relay_type" in p:
            stats["relay"] += 1
        tend = 0
        if k % 5 == 4:
            tend = r.range(3, 40)
            stats["tend"] += 1
        if k % 6 == 5 and p["lps"] > 1:        # an LP whose predicate holds at initialisation and that may get no event
            p["targets"] = [(r.below(p["lps"]), 0)]
            stats["init_true"] += 1
        progs.append(("gen%d" % k, progen.render(p), tend))
    for name, text, tend in progs:
        pf = os.path.join(ctx["sd"], name + ".txt")
        open(pf, "w").write(text)
        dl = os.path.join(ctx["sd"], name + ".dlog")
        res = S.run_sim(ctx["exe"], pf, mode="serial", threads=1, gvt=0, tend=tend, displog=dl, watchdog=60, timeout=120)
        if res.sanitizer:
            C.sanitizer_violation(c, res, text, "serial")
            continue
        if not res.returned:
            c.violation("serial-did-not-return", dict(kind="property", program=text, tend=tend, out=res.out[-500:], err=res.err[-500:]), True)
            continue
        D = [l for l in open(dl).read().split("\n") if l]
        # the reference: the textbook executor stops when all predicates hold (evaluated on every state, the initial one included)
        q = S.run_seq(ctx["mexe"], pf, tend=0, log=True, evalinit=True)
        if q.rc != 0 or not q.done:
            c.violation("model-driver-failed", dict(kind="model-driver", err=q.err[-1000:]), False)
            continue
        ndisp += len(D)
        # ---- oracle on the implementation's own log: order, init/fini
        bad = None
        prev = None
        for l in D:
            f = l.split()
            key = (int(f[2]), -int(f[3]), int(f[4]))
            if prev is not None and key < prev:
                bad = "dispatch order decreases: %s" % l
                break
            if prev is not None and key[0] == prev[0]:
                stats["ties"] += 1
            if prev is not None and key == prev:
                stats["content_ties"] += 1
            if key[0] == 0:
                stats["zero_ts"] += 1
            prev = key
        for l in res.out.split("\n"):
            if l.startswith("I "):
                f = l.split()
                if f[2] != "1" or f[3] != "1":
                    bad = "LP %s: LP_INIT x%s, LP_FINI x%s" % (f[1], f[2], f[3])
        if bad:
            c.violation("serial-order-or-lifecycle", dict(kind="property", what=bad, program=text, tend=tend), True)
            continue
        # ---- against the reference executor
        A, B = C.per_lp(D), C.per_lp(q.log)
        last_tick = int(D[-1].split()[2]) if D else 0
        last_tick_m = int(q.log[-1].split()[2]) if q.log else 0
        mism = None
        # with a termination time the serial run stops at the first event at or beyond it: compare what lies below it.
        # Two executors may stop inside the same group of content-tied events after different members of the group
        # (the order among events of equal content addressed to different LPs is not determined by the runtime's order):
        # events delivered by one run only are accepted only in that final group.
        lim = tend if tend else None
        for lp in sorted(set(A) | set(B)):
            a = [x for x in A.get(lp, []) if lim is None or int(x[0]) < lim]
            b = [x for x in B.get(lp, []) if lim is None or int(x[0]) < lim]
            m = min(len(a), len(b))
            if a[:m] != b[:m]:
                mism = "LP %d: dispatch sequences differ at position %d" % (lp, next(i for i in range(m) if a[i] != b[i]))
                break
            extra = a[m:] + b[m:]
            if extra and (last_tick != last_tick_m or any(int(x[0]) != last_tick for x in extra)):
                mism = "LP %d: one run delivered %d events the other never did (stopping point differs beyond the final tie group)" % (lp, len(extra))
                break
        if not tend:
            if not mism and res.final != q.final:
                mism = "final LP states differ"
        if mism:
            c.violation("serial-vs-reference", dict(kind="property", what=mism, program=text, tend=tend,
                        impl_dispatches=len(D), reference_dispatches=len(q.log)), True)
        if len(D) > 20:
            nontriv += 1
    C.finish(c, ctx)
    c.cov.update(evaluations=len(progs), distinct_nontrivial=nontriv, dispatches_compared=ndisp, input_distribution=stats,
                 rule="generated interpreter programs (timestamp ties, zero-delay chains ordered by type, events at init incl. time 0, "
                      "payloads 0..100 bytes, library RNG, allocator scripts, optional termination time, an LP true at init); serial dispatch "
                      "log compared per LP with the extracted reference executor; non-trivial = more than 20 dispatches",
                 traces_validated_against_impl=len(progs), samples=[progs[-1][1][:400]])
