"""C03 — committed history is exactly a prefix of the sequential history."""
import vcommon as V, simrun as S
from checks import simcommon as C, c04


def run(c, replay):
    r = V.Rng(c.seed)
    ctx = C.setup(c, "C03")
    if not ctx:
        return
    c.assumptions += ["committed sequence of an LP = entries released by fossil collection (hook in fossil_lp_collect, before the buffers are freed) "
                      "followed by the entries still in its history at shutdown whose timestamp is below the last GVT delivered to its thread",
                      "reference = the extracted sequential executor run to exhaustion (it does not stop at the predicate: a parallel run may commit "
                      "events that lie after the point where all predicates held)",
                      "as C01: refinement of the C runtime to the abstract machine is by differential runs"]
    nprogs = 10 if c.tier == "quick" else 100
    mask = S.mask("COMMIT", "FINI_ENTRY", "GVT", "GVT_DRAIN", "FOSSIL", "EXTRACT", "GVT_PHASE")
    progs, runs = C.campaign(c, ctx, r, nprogs, mask, c.tier, extra_cfgs=[(2, 1, 20), (3, 2, 0)])
    lpruns = C.lp_campaign(c, ctx, r, 10 if c.tier == "quick" else 150, mask)
    wcov = C.worker_report(c, lpruns)
    runs = runs + lpruns
    ok, ncommit, nontriv, byvar = 0, 0, 0, {}
    for run_ in runs:
        res, pr = run_["res"], run_["prog"]
        if res.sanitizer:
            C.sanitizer_violation(c, res, pr["text"], C.describe(run_))
            continue
        if not res.returned:
            continue
        ok += 1
        byvar[pr["variant"]] = byvar.get(pr["variant"], 0) + 1
        # what is committed is what lies below a delivered GVT: the bound itself must be safe on this very run (the trace oracles of C04:
        # nothing extracted below a delivered value, every extraction lowers the thread's accumulator)
        if pr["variant"] != "lp-level":
            c04.monitors(c, run_, C.describe(run_))
        com, last = C.committed_per_lp(run_)
        ref = C.seq_per_lp(pr["seqfull"])
        tot = 0
        for lp, seqc in com.items():
            tot += len(seqc)
            refl = ref.get(lp, [])
            if seqc != refl[:len(seqc)]:
                i = next((k for k in range(min(len(seqc), len(refl))) if seqc[k] != refl[k]), min(len(seqc), len(refl)))
                c.violation("committed-not-a-prefix", dict(kind="property", lp=lp, position=i,
                            committed=seqc[max(0, i - 2):i + 3], sequential=refl[max(0, i - 2):i + 3],
                            committed_len=len(seqc), sequential_len=len(refl), program=pr["text"], config=C.describe(run_)), True)
                break
        # fossil collections use non-decreasing GVT values per LP
        lastf = {}
        for rec in run_["trace"]:
            if rec["kind"] == "FOSSIL":
                lp, g = rec["w"][0], rec["w"][1]
                if lp in lastf and g < lastf[lp]:
                    c.violation("fossil-gvt-decreases", dict(kind="property", lp=lp, program=pr["text"], config=C.describe(run_)), True)
                lastf[lp] = g
        ncommit += tot
        if tot > 10:
            nontriv += 1
    if getattr(c, "_acc_bad", None) and not c.violations:
        bad = dict(c._acc_bad); bad["consequence"] = "the GVT delivered to the threads is not a safe bound, so what fossil collection releases below it is not known to be committed"
        c.violation("commit-bound-unsafe:gvt-accumulator", bad, found_input=False)
    C.finish(c, ctx)
    c.cov.update(wcov)
    c.cov.update(evaluations=len(runs), distinct_nontrivial=nontriv, runs_returned=ok, committed_events_checked=ncommit, by_variant=byvar,
                 rule="interpreter programs ended by predicate / termination time / RootsimStop x thread, checkpoint and GVT configurations "
                      "(periods down to 0); per LP the committed sequence (timestamp, type, size, payload digest) must be a prefix of the sequential one; "
                      "non-trivial = run with more than 10 committed events",
                 traces_validated_against_impl=ok, samples=[C.describe(runs[0]), progs[0]["text"][:300]])
