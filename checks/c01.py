"""C01 — parallel (multi-thread) results equal the sequential execution."""
import json, os
import vcommon as V, progen, simrun as S
from checks import simcommon as C


def run(c, replay):
    r = V.Rng(c.seed)
    ctx = C.setup(c, "C01")
    if not ctx:
        return
    c.assumptions += ["the refinement process_msg -> abstract micro-steps is not mechanised: the C runtime is tied to the proved abstract machine by "
                      "differential runs (final state digests = hash chain over every event, payload, RNG draw and buffer word read)",
                      "valid models only (outputs strictly after their cause); C11 atomics taken as sequentially consistent at the model level",
                      "a run that does not return is inconclusive here and charged to C08"]
    nprogs = 10 if c.tier == "quick" else 120
    progs, runs = C.campaign(c, ctx, r, nprogs, 0, c.tier, variants=("pred",))
    ok, hung, nontriv = 0, 0, set()
    for run_ in runs:
        res, pr = run_["res"], run_["prog"]
        if res.sanitizer:
            C.sanitizer_violation(c, res, pr["text"], C.describe(run_))
            continue
        if not res.returned:
            hung += 1
            continue
        ok += 1
        fin = [l for l in res.final]
        if fin != pr["seqstop"].final:
            diff = [(a, b) for a, b in zip(fin, pr["seqstop"].final) if a != b][:4]
            c.violation("final-state-differs", dict(kind="property", what="LP state at the point its predicate first held differs from the sequential execution",
                        program=pr["text"], config=C.describe(run_), differing=diff,
                        how="write program to a file; harness drv_sim <file> parallel <threads> <ckpt> <gvt> 0 - -; model_driver seq <file> 0 2000000 0 1"), True)
        nontriv.add((pr["idx"], run_["cfg"]))
    # ---- op-by-op tie of process.c / fossil.c / the message queue to the executable worker model (stragglers, anti-messages, rollbacks,
    # fossil collections driven by scripts; the model's state digests must equal the implementation's after every script line)
    wcov = C.worker_report(c, C.lp_campaign(c, ctx, r, 8 if c.tier == "quick" else 150, 0))
    C.finish(c, ctx)
    c.cov.update(wcov)
    c.cov.update(evaluations=len(runs), distinct_nontrivial=len(nontriv), runs_returned=ok, runs_not_returned_inconclusive=hung,
                 programs=len(progs),
                 rule="generated interpreter programs x (threads 1..16 incl. more threads than LPs, checkpoint interval 1..7/auto, GVT period 100..1000us); "
                      "each returning run's per-LP final digest compared with the extracted reference executor; non-trivial = distinct (program, configuration) that returned",
                 traces_validated_against_impl=ok, samples=[progs[0]["text"][:300], C.describe(runs[0])])
