"""C04 — GVT is a monotone, safe lower bound: nothing happens below a reported GVT."""
import os
import vcommon as V, progen, simrun as S
from checks import simcommon as C

PH = {0: "I", 1: "A", 2: "B", 3: "C", 4: "D"}


def monitors(c, run_, desc):
    """trace oracles: per thread the delivered values never decrease; the k-th value is the same for all threads; after a thread has been
    told g it never extracts a message (event or anti-message) with a timestamp below g; fossil collections use delivered values"""
    tr = run_["trace"]
    pr = run_["prog"]
    per = {}
    told = {}
    nex = 0
    min_ext = {}          # per thread: smallest timestamp extracted since its accumulator was last reset
    for rec in tr:
        t = rec["rid"]
        if rec["kind"] == "GVT_PHASE":
            if rec["w"][3] == 1:
                min_ext[t] = None                      # gvt_start_processing: accumulator := SIMTIME_MAX
            elif rec["w"][3] == 0 and rec["w"][1] in (2, 4) and min_ext.get(t) is not None and rec["w"][2] > min_ext[t]:
                # invariant of the proved data model (Phi: the accumulator never exceeds the timestamp of anything the thread extracted since
                # the reset), evaluated on the values the code carries into phase B / publishes in phase C
                if not getattr(c, "_acc_bad", None):
                    c._acc_bad = dict(kind="correspondence", what="thread %d enters phase %s with accumulator bits %s although it extracted a message with timestamp bits %s since "
                                      "the accumulator was reset: the model's accumulator clause (every extraction lowers it) does not hold of the code"
                                      % (t, PH[rec["w"][1]], hex(rec["w"][2]), hex(min_ext[t])), program=pr["text"], config=desc)
        if rec["kind"] == "EXTRACT":
            m = min_ext.get(t, None)
            if t in min_ext:
                min_ext[t] = rec["w"][1] if m is None else min(m, rec["w"][1])
        if rec["kind"] in ("GVT", "GVT_DRAIN"):
            g = rec["w"][0]
            seq = per.setdefault(t, [])
            if seq and g < seq[-1]:
                c.violation("gvt-decreases", dict(kind="property", thread=t, values=[hex(x) for x in seq[-2:] + [g]], program=pr["text"], config=desc), True)
                return nex
            seq.append(g)
            told[t] = g
        elif rec["kind"] == "EXTRACT":
            nex += 1
            g = told.get(t)
            if g is not None and rec["w"][1] < g:
                c.violation("extraction-below-gvt", dict(kind="property", what="thread %d extracted a message with timestamp bits %s after having been told GVT bits %s"
                            % (t, hex(rec["w"][1]), hex(g)), program=pr["text"], config=desc), True)
                return nex
    n = max((len(v) for v in per.values()), default=0)
    for k in range(n):
        vals = {v[k] for v in per.values() if len(v) > k}
        if len(vals) > 1:
            c.violation("gvt-differs-between-threads", dict(kind="property", round=k, values=[hex(x) for x in vals], program=pr["text"], config=desc), True)
            break
    return nex


def phase_replay(c, ctx, run_, desc, nthreads):
    """the phase transitions traced from gvt_thread_phase_run, in their exact order (cooperative scheduler), replayed through the extracted
    step function of the counter protocol: every transition the code makes must be enabled in the model"""
    lines = []
    restarts = {}
    last = {}
    for rec in run_["trace"]:
        if rec["kind"] != "GVT_PHASE":
            continue
        t, frm, to, flag = rec["rid"], rec["w"][0], rec["w"][1], rec["w"][3]
        if flag == 2:
            # restart marker written after a completed pass: after the first pass of a round the thread really re-enters phase A (D -> A);
            # after the second pass the marker only says "busy in the node phases" and the counters are not touched again
            restarts[t] = restarts.get(t, 0) + 1
            if restarts[t] % 2 == 1 and lines and last.get(t) is not None:
                lines[last[t]] = "%d A" % t
            continue
        if flag == 1 and frm != 0:
            continue           # gvt_start_processing on a thread that is already inside the round (START delivered late): no counter change
        lines.append("%d %s" % (t, PH[to]))
        last[t] = len(lines) - 1 if to == 0 else None
    if not lines:
        return 0, None
    rc, so, se = V.run([ctx["mexe"], "gvtphase", str(nthreads)], inp="\n".join(lines) + "\n", timeout=120)
    if rc != 0 or "OK" not in so:
        return len(lines), dict(kind="correspondence", driver="gvt phase replay", detail=[l for l in so.split("\n") if "DIVERGE" in l][:2], stderr=se[-300:],
                                program=run_["prog"]["text"], config=desc, transitions=lines[:60])
    return len(lines), None


def node_events(traces):
    """events of the node-level reduction, per rank in program order (one worker thread per rank), for the extracted GvtNode model"""
    lines = []
    for rk, tr in enumerate(traces):
        after_wait = False
        for rec in tr:
            k, w = rec["kind"], rec["w"]
            if k == "GVT_PHASE" and w[3] == 1 and w[0] == 0:
                lines.append("%d S" % rk)
            elif k == "NODE":
                if w[0] == 1:
                    lines.append("%d F %d" % (rk, w[1]))
                elif w[0] == 2:
                    lines.append("%d C %d %d" % (rk, w[1], w[2] & 0xFFFFFFFF))
                elif w[0] == 3:
                    lines.append("%d K" % rk)
                elif w[0] == 4:
                    lines.append("%d N %d" % (rk, w[1]))
                elif w[0] == 5:
                    lines.append("%d W" % rk)
                    after_wait = True
                elif w[0] == 6:
                    lines.append("%d G" % rk)     # the round is over on this rank (a computed value of 0.0 is not delivered as a GVT, so GVT records cannot be used)
            elif k == "NET_SEND":
                lines.append("%d X %d %d" % (rk, w[0], w[1]))
            elif k == "NET_RECV":
                lines.append("%d R %d" % (rk, w[0]))
            elif k == "GVT_PHASE" and w[3] == 0 and w[0] == 3 and w[1] == 4 and after_wait:
                lines.append("%d P" % rk)
                after_wait = False
    return lines


def node_replay(c, ctx, r, n):
    """2..3 ranks x 1 thread under the simulated network: the colour of every remote (anti-)message, every receipt, the contributions to the
    reduce-scatter, its result and the end of the wait are replayed through the extracted step function of coq/TW/GvtNode.v"""
    from concurrent.futures import ThreadPoolExecutor
    jobs = []
    for k in range(n):
        p = progen.gen_program(r, lps=r.choice([2, 3, 4, 6]), target=r.choice([60, 120, 250]), zero_ts=(k % 3 == 0))
        text = progen.render(p)
        pf = os.path.join(ctx["sd"], "nd%d.txt" % k)
        open(pf, "w").write(text)
        ranks = min(p["lps"], r.choice([2, 2, 3]))
        jobs.append((k, p, text, pf, ranks, r.choice([1, 3]), r.choice([0, 50, 200]),
                     r.choice([None, "100,3000,3,%d", "0,5000,5,%d", "300,8000,10,%d"])))

    def one(job):
        k, p, text, pf, ranks, ck, gp, net = job
        net = net % (c.seed * 17 + k) if net else None
        tf = os.path.join(ctx["sd"], "ndtrace%d.txt" % k)
        res = S.run_sim(ctx["exe"], pf, threads=1, ckpt=ck, gvt=gp, ranks=ranks, net=net, trace_file=tf,
                        trace_mask=S.mask("GVT", "GVT_DRAIN", "GVT_PHASE", "NET_SEND", "NET_RECV", "NODE"), watchdog=25, timeout=60)
        traces = []
        for rk in range(ranks):
            f = "%s.rank%d" % (tf, rk)
            traces.append(S.read_trace(f))
            if os.path.exists(f):
                os.remove(f)
        return job, net, res, traces
    with ThreadPoolExecutor(3) as ex:
        out = list(ex.map(one, jobs))
    okn = steps = rounds = 0
    bad = None
    for (k, p, text, pf, ranks, ck, gp, _), net, res, traces in out:
        desc = dict(threads=1, checkpoint_interval=ck, gvt_period_us=gp, ranks=ranks, network_delays=net, cmd=res.cmd)
        if res.sanitizer:
            C.sanitizer_violation(c, res, text, desc)
            continue
        if not res.returned:
            continue
        lines = node_events(traces)
        rc, so, se = V.run([ctx["mexe"], "gvtnode", str(ranks)], inp="\n".join(lines) + "\n", timeout=120)
        last = so.strip().split("\n")[-1] if so.strip() else ""
        f = dict(x.split("=") for x in last.split()[1:]) if last else {}
        steps += int(f.get("steps", 0)); rounds += int(f.get("rounds", 0))
        if rc != 0 or not last.startswith("OK"):
            if bad is None:
                bad = dict(kind="correspondence", driver="node-level GVT reduction replay (coq/TW/GvtNode.v)", divergence=[l for l in so.split("\n") if l.startswith("DIVERGE")][:4],
                           program=text, config=desc, stderr=se[-300:], events=lines[:80])
        else:
            okn += 1
    c.cov.update(node_level_runs_replayed=okn, node_level_events_replayed=steps, node_level_rounds_replayed=rounds)
    return bad


def run(c, replay):
    r = V.Rng(c.seed)
    ctx = C.setup(c, "C04")
    if not ctx:
        return
    c.assumptions += ["thread-level protocol only is modelled and replayed; the node-level (MPI) reduction is exercised by C02's runs",
                      "SC atomics; under the cooperative scheduler the code between two scheduling points is atomic, so the trace order is the exact order of the phase transitions",
                      "'no message below g still queued or in flight' is observed as: nobody extracts below g after having been told g"]
    mask = S.mask("GVT", "GVT_DRAIN", "EXTRACT", "GVT_PHASE")
    nprogs = 6 if c.tier == "quick" else 60
    # ---- free-running runs (long programs: many rounds)
    progs, runs = C.campaign(c, ctx, r, nprogs, mask, c.tier, variants=("pred", "tend"), extra_cfgs=[(2, 1, 0), (4, 2, 0), (3, 3, 20)], long_every=2)
    nex = rounds = 0
    for run_ in runs:
        res = run_["res"]
        if res.sanitizer:
            C.sanitizer_violation(c, res, run_["prog"]["text"], C.describe(run_))
            continue
        if not res.returned:
            continue
        nex += monitors(c, run_, C.describe(run_))
        rounds += sum(1 for x in run_["trace"] if x["kind"] == "GVT" and x["rid"] == 0)
    # ---- two ranks under the simulated network (harness/netshim.c): remote messages stay in flight across rounds; every rank's threads
    # must never extract below a GVT they have been told
    from concurrent.futures import ThreadPoolExecutor
    nmr = 10 if c.tier == "quick" else 100
    mrjobs = []
    for k in range(nmr):
        p = progen.gen_program(r, lps=r.choice([2, 4, 6, 8]), target=r.choice([100, 200, 400]), zero_ts=(k % 3 == 0))
        text = progen.render(p)
        pf = os.path.join(ctx["sd"], "mr%d.txt" % k)
        open(pf, "w").write(text)
        mrjobs.append((k, p, text, pf, r.choice([1, 1, 2]), r.choice([1, 3]), r.choice([50, 100, 200]),
                       r.choice(["100,3000,3,%d", "0,5000,5,%d", "300,8000,10,%d"]) % (c.seed * 13 + k)))

    def mr_one(job):
        k, p, text, pf, th, ck, gp, net = job
        tf = os.path.join(ctx["sd"], "mrtrace%d.txt" % k)
        res = S.run_sim(ctx["exe"], pf, threads=th, ckpt=ck, gvt=gp, ranks=2, net=net, trace_file=tf, trace_mask=S.mask("GVT", "GVT_DRAIN", "EXTRACT"),
                        watchdog=25, timeout=60)
        traces = []
        for rk in range(2):
            f = "%s.rank%d" % (tf, rk)
            traces.append(S.read_trace(f))
            if os.path.exists(f):
                os.remove(f)
        return job, res, traces
    with ThreadPoolExecutor(3) as ex:
        mrres = list(ex.map(mr_one, mrjobs))
    mr_ok = 0
    for (k, p, text, pf, th, ck, gp, net), res, traces in mrres:
        desc = dict(threads=th, checkpoint_interval=ck, gvt_period_us=gp, ranks=2, network_delays=net, cmd=res.cmd)
        if res.sanitizer:
            C.sanitizer_violation(c, res, text, desc)
            continue
        if not res.returned:
            continue
        mr_ok += 1
        for rk, tr in enumerate(traces):
            d2 = dict(desc); d2["rank"] = rk
            nex += monitors(c, dict(trace=tr, prog=dict(text=text)), d2)
    c.cov["two_rank_runs_monitored"] = mr_ok
    # ---- cooperatively scheduled runs: schedules from VERIF_SEED, uniform and long strides; exact replay of the phase protocol
    nsched = 10 if c.tier == "quick" else 200
    replayed, corr_bad, sched_ok = 0, None, 0
    for k in range(nsched):
        p = progen.gen_program(r, lps=r.choice([2, 3, 4, 6]), target=r.choice([15, 40, 80])) if k % 3 else progen.gen_long_program(r, target=150)
        text = progen.render(p)
        pf = os.path.join(ctx["sd"], "sched%d.txt" % k)
        open(pf, "w").write(text)
        th = r.choice([2, 2, 3, 4])
        seed, stride = r.below(1 << 30) + 1, r.choice([1, 2, 5, 20, 100])
        tf = os.path.join(ctx["sd"], "schedtrace%d.txt" % k)
        res = S.run_sim(ctx["exe"], pf, threads=th, ckpt=r.choice([1, 2, 4]), gvt=0, trace_file=tf, trace_mask=mask,
                        sched="%d,%d" % (seed, stride), watchdog=40, timeout=70)
        run_ = dict(prog=dict(p=p, text=text, variant="pred", tend=0), cfg=(th, 0, 0, 1), res=res, trace=S.read_trace(tf), delay=None)
        desc = dict(threads=th, schedule_seed=seed, stride=stride, cmd=res.cmd + "  with VERIF_SCHED=%d,%d" % (seed, stride))
        if os.path.exists(tf):
            os.remove(tf)
        if res.sanitizer:
            C.sanitizer_violation(c, res, text, desc)
            continue
        if not res.returned:
            continue
        sched_ok += 1
        nex += monitors(c, run_, desc)
        nthreads = min(th, p["lps"])
        n, bad = phase_replay(c, ctx, run_, desc, nthreads)
        replayed += n
        if bad and corr_bad is None:
            corr_bad = bad
    node_bad = node_replay(c, ctx, V.Rng(c.seed + 4040), 8 if c.tier == "quick" else 80)
    if corr_bad and not c.violations:
        c.violation("gvt-phase-correspondence", corr_bad, found_input=False)
    if node_bad and not c.violations:
        c.violation("gvt-node-correspondence", node_bad, found_input=False)
    if getattr(c, "_acc_bad", None) and not c.violations:
        c.violation("gvt-accumulator-correspondence", c._acc_bad, found_input=False)
    C.finish(c, ctx)
    c.cov.update(evaluations=len(runs) + nsched, distinct_nontrivial=sched_ok, extractions_monitored=nex, rounds_observed_thread0=rounds,
                 phase_transitions_replayed=replayed, scheduled_runs_returned=sched_ok,
                 rule="free-running runs of long programs (many rounds, periods down to 0) and cooperatively scheduled runs (uniform and long-stride schedules from "
                      "VERIF_SEED); trace monitors for monotonicity, equality across threads and no-extraction-below-a-told-value; the traced phase transitions of every "
                      "scheduled run are replayed through the extracted counter-protocol step function; non-trivial = scheduled run that returned",
                 traces_validated_against_impl=sched_ok, samples=[C.describe(runs[0])])
