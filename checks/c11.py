"""C11 — memory safety and absence of undefined behaviour for every valid model."""
import os
import vcommon as V, progen, simrun as S
from checks import simcommon as C, c12, c18


def san(se):
    return ("ERROR: AddressSanitizer" in se) or ("runtime error:" in se) or ("LeakSanitizer" in se and False)


def run(c, replay):
    r = V.Rng(c.seed)
    ctx = C.setup(c, "C11")
    if not ctx:
        return
    c.assumptions += ["sanitizers observe the executions that are run, not all executions: this part of the claim is exploration, the proved part is the list of side "
                      "conditions in Properties_C11.v",
                      "leak detection is off (OpenMPI leaks); data races on non-atomic reads are not observed (no TSan run: OpenMPI's progress threads flood it)",
                      "a rank hosting no LP (finding F15: zero-length VLA) is excluded from the generated layouts and probed by the C08 check"]
    nrun = 0
    fired = lambda res, text, cfg: C.sanitizer_violation(c, res, text, cfg)
    # ---- numerical library on crafted generator states (UB in shifts, conversions)
    okb, lgb, objs = V.build_impl(ctx["sd"])
    ok18, lg18, exe18 = V.build_driver(ctx["sd"], "drv_c18", objs)
    cases = c18.gen_cases(c, r, 1000 if c.tier == "quick" else 50000)
    rc, so, se = V.run([exe18], inp="\n".join(c18.fmt(x) for x in cases) + "\n")
    nrun += len(cases)
    if rc != 0 or san(se):
        idx = len([l for l in so.split("\n") if l])
        c.violation("sanitizer:numerical", dict(kind="undefined behaviour", case=cases[idx] if idx < len(cases) else None, stderr=se[-2500:]), True)
    # ---- allocator under op sequences with checkpoints / restores / fossil
    okd, lgd, exea = V.build_driver(ctx["sd"], "drv_alloc", objs)
    for k in range(10 if c.tier == "quick" else 200):
        ops = c12.gen_ops(r, r.choice([120, 400]), r.choice(["alloc", "ckpt", "fossil"]) if k % 3 else "big")
        rc, so, se = V.run([exea], inp="\n".join(o.split("#")[0].strip() for o in ops) + "\n", timeout=120)
        nrun += 1
        if rc != 0 or san(se):
            nout = len([l for l in so.split("\n") if l])
            c.violation("sanitizer:allocator", dict(kind="memory-safety", ops=ops[:nout + 1], stderr=se[-2500:]), True)
            break
    # ---- message queue: concurrent use, then shutdown with messages of both payload classes still pending in the list and the heap
    okq, lgq, exeq = V.build_driver(ctx["sd"], "drv_queue_stress", objs)
    rc, so, se = V.run([exeq, "2", "20000"], timeout=120)
    nrun += 1
    if rc != 0 or san(se):
        c.violation("sanitizer:message-queue", dict(kind="memory-safety", how="harness/drv_queue_stress 2 20000", stderr=se[-2500:]), True)
    # ---- simulations: serial, parallel, several ranks, LP level, cooperatively scheduled (payloads > 32 bytes pending at shutdown, RootsimStop, statistics)
    progs, runs = C.campaign(c, ctx, r, 8 if c.tier == "quick" else 100, 0, c.tier, want_stats=True, extra_cfgs=[(2, 1, 0)])
    progs2, runs2 = C.campaign(c, ctx, r, 3 if c.tier == "quick" else 30, 0, c.tier, variants=("pred", "stop"), ranks_list=(2, 3), jobs=3)
    runs3 = C.lp_campaign(c, ctx, r, 8 if c.tier == "quick" else 120, 0)
    c.cov.update(C.worker_report(c, runs3))
    for run_ in runs + runs2 + runs3:
        nrun += 1
        if run_["res"].sanitizer:
            fired(run_["res"], run_["prog"]["text"], dict(C.describe(run_), script=run_.get("script")))
    for k in range(6 if c.tier == "quick" else 100):
        p = progen.gen_program(r, lps=r.choice([2, 3, 5]), target=r.choice([15, 40]), heavy_mem=(k % 2 == 0))
        text = progen.render(p)
        pf = os.path.join(ctx["sd"], "c11s%d.txt" % k)
        open(pf, "w").write(text)
        for mode in ("serial", "sched"):
            if mode == "serial":
                res = S.run_sim(ctx["exe"], pf, mode="serial", threads=1, gvt=0, tend=r.choice([0, 20]), watchdog=60, timeout=90)
            else:
                res = S.run_sim(ctx["exe"], pf, threads=r.choice([2, 3, 4]), ckpt=r.choice([1, 3]), gvt=0, sched="%d,%d" % (r.below(1 << 30) + 1, r.choice([1, 5, 50])), watchdog=40, timeout=70)
            nrun += 1
            if res.sanitizer:
                fired(res, text, dict(mode=mode, cmd=res.cmd))
    # ---- everything at virtual time 0 on several threads, with legal preemptions between the flag handshake and the straggler test of process_msg
    # (scheduling point 33): a straggler cancelled by its sender in that window must not be ordered before LP_INIT (finding F17)
    from concurrent.futures import ThreadPoolExecutor
    t0jobs = []
    for k in range(24 if c.tier == "quick" else 240):
        p = progen.gen_time0_program(r)
        p["stopat"] = (p["stopat"][0], r.range(200, 3000))
        text = progen.render(p)
        pf = os.path.join(ctx["sd"], "c11t0_%d.txt" % k)
        open(pf, "w").write(text)
        t0jobs.append((text, pf, r.choice([3, 4, 4, 6]), r.choice([1, 2, 5]), r.choice([0, 100, 1000]), "33,-1,%d,%d" % (r.choice([100, 300, 600]), r.choice([2, 3, 5]))))

    def t0_one(job):
        text, pf, th, ck, gp, delay = job
        return job, S.run_sim(ctx["exe"], pf, threads=th, ckpt=ck, gvt=gp, watchdog=15, timeout=40, delay=delay)
    with ThreadPoolExecutor(6) as ex:
        for (text, pf, th, ck, gp, delay), res in ex.map(t0_one, t0jobs):
            nrun += 1
            if res.sanitizer:
                fired(res, text, dict(threads=th, checkpoint_interval=ck, gvt_period_us=gp, injected_delay=delay, cmd=res.cmd, what="events at virtual time 0, preemption at point 33"))
    C.finish(c, ctx)
    c.cov.update(evaluations=nrun, distinct_nontrivial=nrun, sanitizer_runs=nrun, time0_preempted_runs=len(t0jobs),
                 rule="every driver built with -fsanitize=address,undefined -fno-sanitize-recover=undefined: numerical library on crafted generator states, allocator operation "
                      "sequences, serial / parallel / 2..3-rank / LP-level / cooperatively scheduled simulations of generated programs (payloads beyond 32 bytes pending at shutdown, "
                      "RootsimStop, statistics files); non-trivial = execution",
                 traces_validated_against_impl=nrun, samples=[c18.fmt(cases[0])])
