"""C08 — every run returns: termination and shutdown are live."""
import os
import vcommon as V, simrun as S, progen
from checks import simcommon as C


def run(c, replay):
    r = V.Rng(c.seed)
    ctx = C.setup(c, "C08")
    if not ctx:
        return
    c.assumptions += ["'returns after a bounded amount of further work' is observed as: returns before a watchdog of 25 s (runs take < 1 s); "
                      "OS-level starvation and MPI progress are outside what the model can exhibit (partial)",
                      "a non-returning run is classified by the per-thread stage markers of the hooks; known findings are matched on that signature"]
    nprogs = 10 if c.tier == "quick" else 150
    progs, runs = C.campaign(c, ctx, r, nprogs, 0, c.tier, extra_cfgs=[(4, 2, 0), (8, 1, 0)] if c.tier == "thorough" else [(3, 2, 0)])
    # ---- several ranks: the shutdown handshake crosses MPI (termination broadcast, node barrier, flushing rounds); legal preemptions
    # are injected so that ranks and threads reach the shutdown at different moments
    mr_delays = [None, "10,-1,3000,1,1;1,1,20000,1,0", "10,-1,2000,2,0;1,0,20000,1,1", "1,1,30000,1,-1", "10,-1,5000,1,1", "11,-1,4000,1,0;1,1,10000,1,0",
                 "10,-1,3000,1,1;1,0,20000,1,0"]
    progs2, runs2 = C.campaign(c, ctx, r, 10 if c.tier == "quick" else 80, 0, c.tier, ranks_list=(2, 3), delays=mr_delays, long_every=0,
                               only_cfgs=[(2, 2, 300), (3, 1, 1000), (2, 0, 5000)], use_corpus=False, watchdog=20)
    # (simulated network delays are used on 2 ranks only, below: on 3 ranks one generated program does not return under harness/netshim.c
    # on the unchanged tree and that observation is not classified yet - see DESIGN.md 0.6 and corpus-open/)
    # RootsimStop from a handler with messages and anti-messages still in flight between the ranks: the shutdown code has to receive them
    progs3, runs3 = C.campaign(c, ctx, r, 8 if c.tier == "quick" else 60, 0, c.tier, variants=("stop",), ranks_list=(2,), long_every=0,
                               only_cfgs=[(2, 2, 300), (1, 1, 100)], use_corpus=False, watchdog=20,
                               nets=("300,15000,20,%d" % (c.seed + 31), "100,8000,10,%d" % (c.seed + 32), "0,5000,5,%d" % (c.seed + 33)))
    runs = runs + runs2 + runs3
    # the same, denser: busy programs (zero-delay events, many rollbacks and remote anti-messages) stopped in mid-run under long network delays
    from concurrent.futures import ThreadPoolExecutor
    sjobs = []
    for k in range(16 if c.tier == "quick" else 200):
        # finite targets: if the stopping LP never processes that many events the run still ends, through the predicates
        ps = progen.gen_program(r, lps=r.choice([4, 6, 8]), target=r.choice([400, 800, 1500]), zero_ts=True)
        ps["stopat"] = (r.below(ps["lps"]), r.range(20, 400))
        pfs = os.path.join(ctx["sd"], "stopmr%d.txt" % k)
        open(pfs, "w").write(progen.render(ps))
        sjobs.append((ps, pfs, r.choice([1, 2, 2]), r.choice([1, 2, 4]), r.choice([50, 100, 300]), r.choice(["300,15000,20,%d", "1000,20000,50,%d", "100,8000,10,%d"]) % (c.seed * 3 + k)))

    def stop_one(job):
        ps, pfs, th, ck, gp, net = job
        return job, S.run_sim(ctx["exe"], pfs, threads=th, ckpt=ck, gvt=gp, ranks=2, net=net, watchdog=15, timeout=45)
    with ThreadPoolExecutor(3) as ex:
        sres = list(ex.map(stop_one, sjobs))
    for (ps, pfs, th, ck, gp, net), rs in sres:
        runs.append(dict(prog=dict(p=ps, text=progen.render(ps), path=pfs, variant="stop-busy", tend=0, idx=0), cfg=(th, ck, gp, 2), res=rs, trace=[], stats=None, delay=None, net=net))
    ok, hangs, byvar = 0, {}, {}
    hang_examples = []
    for run_ in runs:
        res, pr = run_["res"], run_["prog"]
        if res.sanitizer:
            C.sanitizer_violation(c, res, pr["text"], C.describe(run_))
            continue
        byvar[pr["variant"]] = byvar.get(pr["variant"], 0) + 1
        if res.returned:
            ok += 1
            for l in res.out.split("\n"):
                if l.startswith("I "):
                    f = l.split()
                    if f[3] != "1":
                        c.violation("lp-fini-count", dict(kind="property", what="LP %s finalised %s times" % (f[1], f[3]),
                                                         program=pr["text"], config=C.describe(run_)), True)
            continue
        sig = S.classify_hang(res.hang) if res.hang else "hang:no-watchdog-output"
        hangs[sig] = hangs.get(sig, 0) + 1
        hang_examples.append(dict(signature=sig, stages=res.hang, config=C.describe(run_)))
        c.violation(sig, dict(kind="property", what="RootsimRun did not return", stages=res.hang, program=pr["text"],
                              config=C.describe(run_)), True)
    # ---- probe of the layouts with more ranks than LPs (a rank hosting no LP)
    p1 = progen.gen_program(V.Rng(c.seed + 5), lps=1, target=5)
    pf1 = os.path.join(ctx["sd"], "onelp.txt")
    open(pf1, "w").write(progen.render(p1))
    res1 = S.run_sim(ctx["exe"], pf1, threads=1, ckpt=0, gvt=1000, ranks=2, watchdog=12, timeout=40)
    if not res1.returned:
        san = "variable length array bound evaluates to non-positive" in res1.err
        c.violation("hang:rank-without-lps" if not san else "hang:rank-without-lps:zero-length-vla",
                    dict(kind="property", what="1 LP on 2 ranks: RootsimRun does not return on any rank", program=progen.render(p1), stderr=res1.err[-600:]), True)
    # ---- probe: models that never run out of events (every LP keeps one self-scheduled event alive after its predicate holds) with more
    # requested threads than LPs: the run can only end through the termination detection, and every spawned worker's vote must count.
    # The LPs never talk to each other, so there is no rollback and none of the known rollback-related findings can interfere.
    nprobe = 0
    for (lps, th) in ([(2, 4), (3, 8)] if c.tier == "quick" else [(1, 2), (2, 4), (3, 8), (2, 16), (5, 6), (7, 16)]):
        pt = dict(lps=lps, ncls=1, target=30, seed=c.seed + lps, grid=0, inits=[(l, 1, 0, 0) for l in range(lps)], rows=[(0, 0, [], [], [(0, 0, 1, 0, 0)])], targets=[], plmode=0)
        ptf = os.path.join(ctx["sd"], "tick%d_%d.txt" % (lps, th))
        open(ptf, "w").write(progen.render(pt))
        for gp in (200, 0):
            rest = S.run_sim(ctx["exe"], ptf, threads=th, ckpt=2, gvt=gp, watchdog=15, timeout=45, keep_ticking=True)
            if rest.sanitizer:
                C.sanitizer_violation(c, rest, progen.render(pt), dict(threads=th, gvt_period_us=gp, keep_ticking=True))
                continue
            nprobe += 1
            if not rest.returned:
                hs = S.classify_hang(rest.hang) if rest.hang else "hang:no-watchdog-output"
                # the shutdown race F12 can hit any run: it keeps its own signature (known finding); anything else is specific to this probe
                c.violation(hs if hs.startswith("hang:drain-skips-opening-round") else "hang:never-ending-model:" + hs[5:],
                            dict(kind="property", what="%d independent LPs on %d requested threads, every LP keeps ticking after its predicate holds: RootsimRun did not return "
                                 "although every predicate holds on a committed state" % (lps, th), stages=rest.hang, program=progen.render(pt),
                                 config=dict(threads=th, checkpoint_interval=2, gvt_period_us=gp, cmd=rest.cmd + "  with VERIF_KEEP_TICKING=1")), True)
    c.cov["never_ending_model_probes"] = nprobe
    C.finish(c, ctx)
    c.cov.update(evaluations=len(runs), distinct_nontrivial=ok, runs_returned=ok, hang_signatures=hangs, hang_examples=hang_examples[:8], by_variant=byvar,
                 rule="interpreter programs ended by predicate, termination time or RootsimStop from a handler x thread counts 1..16 (more threads than "
                      "LPs included; plus 2 and 3 MPI ranks x 2-3 threads with injected preemptions around the shutdown barrier and the main loop) (more threads than "
                      "LPs included) x GVT periods down to 0; every run must return with one LP_FINI per LP; non-trivial = returning run",
                 traces_validated_against_impl=len(runs), samples=[C.describe(runs[0])])
