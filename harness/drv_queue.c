/* C15 driver: the real msg_queue_insert / msg_queue_extract / msg_queue_time_peek (src/datatypes/msg_queue.c) with
   several producer threads and one consumer under the cooperative scheduler.
   usage: drv_queue producers msgs_per_producer seed stride schedlog
   The schedule log holds the scheduling points and notes ("# tid M id t type", "# tid FLAG id", "# tid OP X|K",
   "# tid RES ...") from which the model replays the run.  stdout: "OK" and the multiset accounting. */
#include "vh.h"
#include "trace.h"
#include <lp/lp.h>
#include <lp/msg.h>
#include <datatypes/msg_queue.h>
#include <pthread.h>
#include <stdatomic.h>

static int nprod, per;
static uint64_t seed;
static struct lp_msg **all;   /* [producer * per + k] */
static int *extracted;        /* count per message id */

static uint64_t rnd(uint64_t *s) { *s ^= *s << 13; *s ^= *s >> 7; *s ^= *s << 17; return *s; }

static void *producer(void *arg)
{
	int tid = (int)(uintptr_t)arg;
	uint64_t s = seed * 7919 + (uint64_t)tid * 104729 + 1;
	verif_sched_register(tid);
	char note[96];
	for(int k = 0; k < per; ++k) {
		int id = (tid - 1) * per + k;
		struct lp_msg *m = calloc(1, sizeof(*m));
		m->dest = 0;
		m->dest_t = (double)(rnd(&s) % 6);           /* few distinct timestamps: many ties */
		m->m_type = (uint32_t)(rnd(&s) % 3);
		m->m_seq = (uint32_t)id;
		m->pl_size = 0;
		atomic_store_explicit(&m->flags, 0U, memory_order_relaxed);
		all[id] = m;
		snprintf(note, sizeof(note), "M %d %d %u", id, (int)m->dest_t, m->m_type);
		verif_sched_note(note);
		msg_queue_insert(m);
		if(k > 0 && rnd(&s) % 4 == 0) {              /* cancel an earlier message of mine while it may still be queued */
			int victim = (tid - 1) * per + (int)(rnd(&s) % (uint64_t)k);
			if(!(atomic_load(&all[victim]->flags) & MSG_FLAG_ANTI)) {
				snprintf(note, sizeof(note), "FLAG %d", victim);
				verif_sched_note(note);
				verif_yield(24);
				atomic_fetch_add_explicit(&all[victim]->flags, MSG_FLAG_ANTI, memory_order_relaxed);
			}
		}
	}
	verif_yield(25);
	verif_sched_done();
	return NULL;
}

static void *consumer(void *arg)
{
	(void)arg;
	uint64_t s = seed * 31 + 5;
	rid = 0;
	msg_queue_init();
	verif_sched_register(0);
	int got = 0, total = nprod * per, idle = 0;
	char note[96];
	while(got < total && idle < 200000) {
		if(rnd(&s) % 3 == 0) {
			verif_sched_note("OP K");
			simtime_t t = msg_queue_time_peek();
			snprintf(note, sizeof(note), "RES K %s%d", t == SIMTIME_MAX ? "NONE" : "", t == SIMTIME_MAX ? 0 : (int)t);
			verif_sched_note(note);
		} else {
			verif_sched_note("OP X");
			struct lp_msg *m = msg_queue_extract();
			if(m) {
				++got; idle = 0;
				extracted[m->m_seq]++;
				snprintf(note, sizeof(note), "RES X %u", m->m_seq);
			} else {
				++idle;
				snprintf(note, sizeof(note), "RES X NONE");
			}
			verif_sched_note(note);
		}
	}
	verif_yield(25);
	verif_sched_done();
	return NULL;
}

int main(int argc, char **argv)
{
	if(argc < 6) return 2;
	nprod = atoi(argv[1]); per = atoi(argv[2]); seed = vh_parse_u(argv[3]);
	global_config.n_threads = 1;
	global_config.lps = 1;
	n_lps_node = 1;
	lid_node_first = 0;
	all = calloc((size_t)nprod * per, sizeof(*all));
	extracted = calloc((size_t)nprod * per, sizeof(int));
	msg_queue_global_init();
	verif_sched_enable(nprod + 1, seed, vh_parse_u(argv[4]), strcmp(argv[5], "-") ? argv[5] : NULL);
	verif_trace_setup(NULL, 0, 120);
	pthread_t t[64];
	pthread_create(&t[0], NULL, consumer, NULL);
	for(int i = 1; i <= nprod; ++i) pthread_create(&t[i], NULL, producer, (void *)(uintptr_t)i);
	for(int i = 0; i <= nprod; ++i) pthread_join(t[i], NULL);
	int lost = 0, dup = 0;
	for(int i = 0; i < nprod * per; ++i) { lost += extracted[i] == 0; dup += extracted[i] > 1; }
	printf("LOST %d DUP %d\nOK\n", lost, dup);
	return 0;
}
