/* Harness side of the verification hooks: per-thread trace buffers, stage tracking and a watchdog that
   classifies a run that does not return.  Linked into every simulation driver. */
#include "vh.h"
#include "trace.h"
#include <verif_hooks.h>
#include <lp/msg.h>
#include <core/core.h>
#include <ROOT-Sim.h>
#include <pthread.h>
#include <stdatomic.h>
#include <unistd.h>
#include <sched.h>

struct rec { uint64_t seq, kind, w[4], m[5]; };   /* m: dest, ts bits, type, size, payload fnv */
struct tbuf {
	struct rec *r;
	size_t n, cap;
	unsigned rid;
	int stage, phase, stage_arg;
	struct tbuf *next;
};

static struct tbuf *all_bufs;
static pthread_mutex_t reg_lock = PTHREAD_MUTEX_INITIALIZER;
static __thread struct tbuf *tb;
static _Atomic uint64_t gseq;
uint64_t verif_trace_mask;
static const char *dump_path;

static struct tbuf *get_tb(void)
{
	if(tb)
		return tb;
	tb = calloc(1, sizeof(*tb));
	tb->rid = rid;
	pthread_mutex_lock(&reg_lock);
	tb->next = all_bufs;
	all_bufs = tb;
	pthread_mutex_unlock(&reg_lock);
	return tb;
}

static int has_msg(int kind, int *which)
{
	switch(kind) {
	case VT_PROC: case VT_EXTRACT: case VT_MSG_ALLOC: case VT_MSG_FREE: *which = 0; return kind == VT_PROC || kind == VT_EXTRACT;
	/* VT_ANTI / VT_UNDO: the receiver may already have released the buffer when the sender's record is written */
	case VT_FORWARD: case VT_SILENT: case VT_COMMIT: case VT_FINI_ENTRY: *which = 1; return 1;
	default: return 0;
	}
}

/* ---- cooperative scheduler: exactly one registered thread runs between two scheduling points; the next one is drawn
        from a PRNG seeded by the schedule seed, so a schedule is replayable and its log is an exact linearisation ---- */
#define SCHED_MAX 64
static int sched_on, sched_n;
static _Atomic int sched_turn = -1;
static int sched_alive[SCHED_MAX];
static uint64_t sched_rng, sched_stride;
static __thread int sched_id = -1;
static FILE *sched_log;

static uint64_t sched_next(void)
{
	sched_rng ^= sched_rng << 13; sched_rng ^= sched_rng >> 7; sched_rng ^= sched_rng << 17;
	return sched_rng;
}

void verif_sched_enable(int n, uint64_t seed, uint64_t stride, const char *logpath)
{
	sched_n = n;
	sched_rng = seed * 0x9E3779B97F4A7C15ULL + 1;
	sched_stride = stride ? stride : 1;
	for(int i = 0; i < n; ++i) sched_alive[i] = 1;
	sched_log = logpath ? fopen(logpath, "w") : NULL;
	sched_on = 1;
	atomic_store(&sched_turn, 0);
}

static void sched_pass(void)
{
	/* with probability 1 - 1/stride the same thread keeps running (long strides build deep asymmetries) */
	int next = sched_id;
	if(!sched_alive[sched_id] || sched_next() % sched_stride == 0) {
		int alive = 0;
		for(int i = 0; i < sched_n; ++i) alive += sched_alive[i];
		if(!alive) { atomic_store(&sched_turn, -2); return; }
		int k = (int)(sched_next() % (uint64_t)alive);
		for(int i = 0; i < sched_n; ++i) if(sched_alive[i] && k-- == 0) { next = i; break; }
	}
	atomic_store(&sched_turn, next);
}

void verif_sched_note(const char *txt)
{
	if(sched_on && sched_log && sched_id >= 0)
		fprintf(sched_log, "# %d %s\n", sched_id, txt);
}

void verif_sched_register(int id)
{
	sched_id = id;
	while(atomic_load(&sched_turn) != id) sched_yield();
}

void verif_sched_done(void)
{
	if(!sched_on || sched_id < 0) return;
	sched_alive[sched_id] = 0;
	sched_pass();
	sched_id = -1;
}

/* free-running mode: optional injected delays (legal preemptions) at scheduling points of chosen workers,
   VERIF_DELAY="point,rid,microseconds,one_in[,rank]" or several such specs separated by ';' (rid or rank -1: any) */
#define MAXDELAY 8
static struct { int point, rid, us, one_in, nid; } delays[MAXDELAY];
static int n_delays;
static _Atomic uint64_t delay_rng = 88172645463325252ULL;

static int sched_requested;
static uint64_t sched_req_seed, sched_req_stride;
static pthread_once_t sched_once = PTHREAD_ONCE_INIT;
static void sched_auto_enable(void)
{
	extern struct simulation_configuration global_config;
	verif_sched_enable((int)global_config.n_threads, sched_req_seed, sched_req_stride, getenv("VERIF_SCHED_LOG"));
}

void verif_yield(int point)
{
	if(sched_requested) {
		/* whole-simulation mode: worker threads register themselves at their first scheduling point */
		pthread_once(&sched_once, sched_auto_enable);
		if(sched_id < 0)
			verif_sched_register((int)rid);
	}
	for(int d = 0; d < n_delays; ++d) {
		extern nid_t nid;
		if(point != delays[d].point || (delays[d].rid >= 0 && (int)rid != delays[d].rid) || (delays[d].nid >= 0 && (int)nid != delays[d].nid))
			continue;
		uint64_t x = atomic_fetch_add(&delay_rng, 0x9E3779B97F4A7C15ULL);
		x ^= x >> 29; x *= 0xBF58476D1CE4E5B9ULL; x ^= x >> 32;
		if(x % (uint64_t)delays[d].one_in == 0)
			usleep((useconds_t)delays[d].us);
	}
	if(!sched_on || sched_id < 0)
		return;
	if(sched_log) fprintf(sched_log, "%d %d\n", sched_id, point);
	sched_pass();
	while(atomic_load(&sched_turn) != sched_id) sched_yield();
}

void verif_trace(int kind, uint64_t a, uint64_t b, uint64_t c, uint64_t d)
{
	struct tbuf *t = get_tb();
	t->rid = rid;
	if(kind == VT_STAGE) {
		t->stage = (int)a;
		t->phase = (int)b;
		t->stage_arg = (int)c;
		if(sched_requested) {
			if(a == 9)
				verif_sched_done();
			else
				verif_yield(100 + (int)a);
		}
	}
	if(!(verif_trace_mask & (1ULL << kind)))
		return;
	if(t->n == t->cap) {
		t->cap = t->cap ? t->cap * 2 : 1024;
		t->r = realloc(t->r, t->cap * sizeof(*t->r));
	}
	struct rec *r = &t->r[t->n++];
	r->seq = atomic_fetch_add_explicit(&gseq, 1, memory_order_relaxed);
	r->kind = (uint64_t)kind;
	r->w[0] = a; r->w[1] = b; r->w[2] = c; r->w[3] = d;
	memset(r->m, 0, sizeof(r->m));
	int which = 0;
	if(has_msg(kind, &which)) {
		const struct lp_msg *m = (const struct lp_msg *)(uintptr_t)r->w[which];
		r->m[0] = m->dest;
		r->m[1] = vh_double_to_bits(m->dest_t);
		r->m[2] = m->m_type;
		r->m[3] = m->pl_size;
		r->m[4] = vh_fnv(m->pl, m->pl_size, VH_FNV_INIT);
	}
}

void verif_trace_dump(void)
{
	if(!dump_path)
		return;
	char path[4096];
	if(n_nodes > 1)
		snprintf(path, sizeof(path), "%s.rank%d", dump_path, (int)nid);
	else
		snprintf(path, sizeof(path), "%s", dump_path);
	FILE *f = fopen(path, "w");
	if(!f)
		return;
	pthread_mutex_lock(&reg_lock);
	for(struct tbuf *t = all_bufs; t; t = t->next)
		for(size_t i = 0; i < t->n; ++i) {
			struct rec *r = &t->r[i];
			fprintf(f, "%" PRIu64 " %u %" PRIu64 " 0x%" PRIx64 " 0x%" PRIx64 " 0x%" PRIx64 " 0x%" PRIx64 " %" PRIu64 " 0x%" PRIx64 " %" PRIu64 " %" PRIu64 " 0x%" PRIx64 "\n",
			    r->seq, t->rid, r->kind, r->w[0], r->w[1], r->w[2], r->w[3], r->m[0], r->m[1], r->m[2], r->m[3], r->m[4]);
		}
	pthread_mutex_unlock(&reg_lock);
	fclose(f);
}

static unsigned wd_seconds;
static void *watchdog(void *arg)
{
	(void)arg;
	sleep(wd_seconds);
	/* the run did not return: report where every worker is */
	printf("HANG");
	pthread_mutex_lock(&reg_lock);
	for(struct tbuf *t = all_bufs; t; t = t->next)
		printf(" rid%u:stage%d:phase%d:arg%d", t->rid, t->stage, t->phase, t->stage_arg);
	pthread_mutex_unlock(&reg_lock);
	printf("\n");
	fflush(stdout);
	verif_trace_dump();
	sleep(3);	/* multi-rank runs: let the watchdogs of the other ranks report before mpiexec kills them */
	_exit(42);
	return NULL;
}

void verif_trace_setup(const char *path, uint64_t mask, unsigned watchdog_s)
{
	dump_path = path;
	verif_trace_mask = mask;
	const char *sc = getenv("VERIF_SCHED");
	if(sc && sscanf(sc, "%" SCNu64 ",%" SCNu64, &sched_req_seed, &sched_req_stride) == 2)
		sched_requested = 1;
	const char *dl = getenv("VERIF_DELAY");
	while(dl && *dl && n_delays < MAXDELAY) {
		delays[n_delays].nid = -1;
		delays[n_delays].one_in = 1;
		if(sscanf(dl, "%d,%d,%d,%d,%d", &delays[n_delays].point, &delays[n_delays].rid, &delays[n_delays].us, &delays[n_delays].one_in,
		       &delays[n_delays].nid) >= 3 && delays[n_delays].one_in > 0)
			++n_delays;
		dl = strchr(dl, ';');
		if(dl) ++dl;
	}
	if(watchdog_s) {
		wd_seconds = watchdog_s;
		pthread_t t;
		pthread_create(&t, NULL, watchdog, NULL);
		pthread_detach(t);
	}
}

/* ---- arena address order (VERIF_ARENA_ORDER=desc | rand,<seed>): mm/buddy/multi.c is compiled with malloc/free renamed to these two.  Requests
   of exactly one arena (struct buddy_state) are served from a pool of equal slots in the requested address order, so that arenas created
   later can lie BELOW older ones (the library keeps its arenas sorted by address); everything else goes to the real allocator. ---- */
#include <mm/buddy/buddy.h>
#define ARENA_SLOTS 96
static unsigned char *arena_pool;
static unsigned char arena_used[ARENA_SLOTS];
static size_t arena_slot;
static int arena_mode = -1;
static uint64_t arena_rng;
static pthread_mutex_t arena_lock = PTHREAD_MUTEX_INITIALIZER;
void *verif_arena_malloc(size_t n)
{
	if(arena_mode < 0) {
		const char *e = getenv("VERIF_ARENA_ORDER");
		arena_mode = !e ? 0 : (e[0] == 'd' ? 1 : 2);
		arena_rng = (e && strchr(e, ',')) ? strtoull(strchr(e, ',') + 1, NULL, 0) | 1 : 0x9E3779B97F4A7C15ULL;
	}
	if(!arena_mode || n != sizeof(struct buddy_state))
		return malloc(n);
	pthread_mutex_lock(&arena_lock);
	if(!arena_pool) {
		arena_slot = (sizeof(struct buddy_state) + 4095) & ~(size_t)4095;
		arena_pool = aligned_alloc(4096, arena_slot * ARENA_SLOTS);
	}
	int pick = -1;
	if(arena_mode == 1) {
		for(int i = ARENA_SLOTS - 1; i >= 0 && pick < 0; --i)
			if(!arena_used[i]) pick = i;
	} else {
		arena_rng ^= arena_rng << 13; arena_rng ^= arena_rng >> 7; arena_rng ^= arena_rng << 17;
		for(int k = 0; k < ARENA_SLOTS && pick < 0; ++k)
			if(!arena_used[(arena_rng + k) % ARENA_SLOTS]) pick = (int)((arena_rng + k) % ARENA_SLOTS);
	}
	void *ret = NULL;
	if(pick >= 0 && arena_pool) {
		arena_used[pick] = 1;
		ret = arena_pool + (size_t)pick * arena_slot;
	}
	pthread_mutex_unlock(&arena_lock);
	return ret ? ret : malloc(n);
}

void verif_arena_free(void *p)
{
	if(arena_pool && (unsigned char *)p >= arena_pool && (unsigned char *)p < arena_pool + arena_slot * ARENA_SLOTS) {
		pthread_mutex_lock(&arena_lock);
		arena_used[((unsigned char *)p - arena_pool) / arena_slot] = 0;
		pthread_mutex_unlock(&arena_lock);
		return;
	}
	free(p);
}
