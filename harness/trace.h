#pragma once
#include <stdint.h>
extern void verif_trace_setup(const char *path, uint64_t mask, unsigned watchdog_s);
extern void verif_trace_dump(void);
extern void verif_sched_enable(int n, uint64_t seed, uint64_t stride, const char *logpath);
extern void verif_sched_register(int id);
extern void verif_sched_done(void);
extern void verif_yield(int point);
extern void verif_sched_note(const char *txt);
