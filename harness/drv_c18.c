/* C18 / C09 correspondence driver: the real numerical library (src/lib/random) on crafted generator states.
   stdin lines:
     INIT lp seed                       -> "I s0 s1 s2 s3"                      (random_lib_lp_init)
     U64 s0 s1 s2 s3                    -> "U res s0 s1 s2 s3 other"            (RandomU64)
     RND s0 s1 s2 s3                    -> "R bits s0 s1 s2 s3 other"           (Random)
     RR  s0 s1 s2 s3 min max            -> "G val s0 s1 s2 s3 other"            (RandomRange)
     NU  s0 s1 s2 s3 x min max          -> "N val s0 s1 s2 s3 other"            (RandomRangeNonUniform)
     DIST kind s0 s1 s2 s3 a b          -> "D kind bits ok"  contract evaluated here (finite, sign, range)
   "other" = 1 iff the generator of a second LP is untouched by the call. */
#include "vh.h"
#include <lp/lp.h>
#include <lib/random/random.h>
#include <math.h>

static struct lp_ctx ctx[2];
static struct rng_ctx rngs[2];
static const uint64_t other_state[4] = {0x1111222233334444ULL, 0x5555666677778888ULL, 0x9999aaaabbbbccccULL, 0xddddeeeeffff0001ULL};

static void set_state(char **t)
{
	for(int i = 0; i < 4; ++i)
		rngs[0].state[i] = vh_parse_u(t[i]);
	memcpy(rngs[1].state, other_state, sizeof(other_state));
	current_lp = &ctx[0];
}

static void print_state(void)
{
	for(int i = 0; i < 4; ++i) {
		putchar(' ');
		vh_print_u(stdout, rngs[0].state[i]);
	}
	printf(" %d\n", memcmp(rngs[1].state, other_state, sizeof(other_state)) == 0);
}

int main(void)
{
	static char line[4096];
	ctx[0].rng_ctx = &rngs[0];
	ctx[1].rng_ctx = &rngs[1];
	while(fgets(line, sizeof(line), stdin)) {
		char *tok[16];
		int n = vh_split(line, tok, 16);
		if(n < 1)
			continue;
		if(!strcmp(tok[0], "INIT")) {
			global_config.prng_seed = vh_parse_u(tok[2]);
			random_lib_lp_init(vh_parse_u(tok[1]), &rngs[0]);
			printf("I");
			for(int i = 0; i < 4; ++i) {
				putchar(' ');
				vh_print_u(stdout, rngs[0].state[i]);
			}
			putchar('\n');
		} else if(!strcmp(tok[0], "U64")) {
			set_state(tok + 1);
			uint64_t r = RandomU64();
			printf("U ");
			vh_print_u(stdout, r);
			print_state();
		} else if(!strcmp(tok[0], "RND")) {
			set_state(tok + 1);
			double d = Random();
			printf("R ");
			vh_print_u(stdout, vh_double_to_bits(d));
			print_state();
		} else if(!strcmp(tok[0], "RR")) {
			set_state(tok + 1);
			int v = RandomRange(atoi(tok[5]), atoi(tok[6]));
			printf("G %d", v);
			print_state();
		} else if(!strcmp(tok[0], "NU")) {
			set_state(tok + 1);
			int v = RandomRangeNonUniform(atoi(tok[5]), atoi(tok[6]), atoi(tok[7]));
			printf("N %d", v);
			print_state();
		} else if(!strcmp(tok[0], "DIST")) {
			set_state(tok + 2);
			double a = atof(tok[6]);
			unsigned b = (unsigned)strtoul(tok[7], NULL, 0);
			double v = 0;
			int ok = 1;
			if(!strcmp(tok[1], "poisson")) {
				v = Poisson();
				ok = isfinite(v) && v >= 0.0;
			} else if(!strcmp(tok[1], "expent")) {
				v = Expent(a);
				ok = isfinite(v) && v >= 0.0;
			} else if(!strcmp(tok[1], "gamma")) {
				v = Gamma(b);
				ok = isfinite(v) && v >= 0.0;
			} else if(!strcmp(tok[1], "normal")) {
				v = Normal();
				ok = isfinite(v);
			} else if(!strcmp(tok[1], "zipf")) {
				unsigned z = Zipf(a, b);
				v = z;
				ok = z >= 1 && z <= b;
			}
			ok = ok && memcmp(rngs[1].state, other_state, sizeof(other_state)) == 0;
			printf("D %s ", tok[1]);
			vh_print_u(stdout, vh_double_to_bits(v));
			printf(" %d\n", ok);
		}
	}
	return 0;
}
