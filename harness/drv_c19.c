/* C19 correspondence driver: the real topology library (src/lib/topology/topology.c).
   stdin lines:
     T geom a b            new topology (grids: a = height, b = width; others: a = regions)
     L from to             AddTopologyLink(from, to, 0.5) (graph)
     Q from dir s0 s1 s2 s3   -> "Q recv s0 s1 s2 s3 isnb"   GetReceiver with the caller's generator state set;
                                 isnb = IsNeighbor(from, recv) (or - when INVALID)
     C from                -> "C count"                      CountDirections
     NB from to            -> "NB 0|1"                       IsNeighbor
     PAR k                 the next k Q lines are executed by two threads concurrently (alternating),
                           results printed in input order
   INVALID_DIRECTION is printed as INV. */
#include "vh.h"
#include <lp/lp.h>
#include <lib/random/random.h>
#include <pthread.h>

struct q {
	uint64_t from, st[4], recv, out[4];
	int dir, isnb;
};

static struct topology *topo;

static void do_q(struct q *q)
{
	struct lp_ctx ctx;
	struct rng_ctx rng;
	memset(&ctx, 0, sizeof(ctx));
	memcpy(rng.state, q->st, sizeof(rng.state));
	ctx.rng_ctx = &rng;
	current_lp = &ctx;
	q->recv = GetReceiver(q->from, topo, (enum topology_direction)q->dir);
	memcpy(q->out, rng.state, sizeof(rng.state));
	q->isnb = q->recv == INVALID_DIRECTION ? -1 : IsNeighbor(q->from, q->recv, topo);
	current_lp = NULL;
}

static void print_q(struct q *q)
{
	printf("Q ");
	if(q->recv == INVALID_DIRECTION)
		printf("INV");
	else
		vh_print_u(stdout, q->recv);
	for(int i = 0; i < 4; ++i) {
		putchar(' ');
		vh_print_u(stdout, q->out[i]);
	}
	if(q->isnb < 0)
		printf(" -\n");
	else
		printf(" %d\n", q->isnb);
}

static void parse_q(char **tok, struct q *q)
{
	q->from = vh_parse_u(tok[1]);
	q->dir = atoi(tok[2]);
	for(int i = 0; i < 4; ++i)
		q->st[i] = vh_parse_u(tok[3 + i]);
}

struct par {
	struct q *qs;
	int n, start;
	pthread_barrier_t *bar;
};

static void *par_run(void *arg)
{
	struct par *p = arg;
	pthread_barrier_wait(p->bar);
	for(int i = p->start; i < p->n; i += 2)
		do_q(&p->qs[i]);
	return NULL;
}

int main(void)
{
	static char line[4096];
	freopen("/dev/null", "w", stderr) == NULL ? (void)0 : (void)0;
	while(fgets(line, sizeof(line), stdin)) {
		char *tok[16];
		int n = vh_split(line, tok, 16);
		if(n < 1)
			continue;
		if(!strcmp(tok[0], "T")) {
			if(topo)
				ReleaseTopology(topo);
			int g = atoi(tok[1]);
			unsigned a = (unsigned)vh_parse_u(tok[2]), b = (unsigned)vh_parse_u(tok[3]);
			if(g == TOPOLOGY_HEXAGON || g == TOPOLOGY_SQUARE || g == TOPOLOGY_TORUS)
				topo = InitializeTopology(g, a, b);
			else
				topo = InitializeTopology(g, a);
			printf("T %d\n", topo != NULL);
		} else if(!strcmp(tok[0], "L")) {
			printf("L %d\n", AddTopologyLink(topo, vh_parse_u(tok[1]), vh_parse_u(tok[2]), 0.5));
		} else if(!strcmp(tok[0], "Q")) {
			struct q q;
			parse_q(tok, &q);
			do_q(&q);
			print_q(&q);
		} else if(!strcmp(tok[0], "C")) {
			printf("C ");
			vh_print_u(stdout, CountDirections(vh_parse_u(tok[1]), topo));
			putchar('\n');
		} else if(!strcmp(tok[0], "NB")) {
			printf("NB %d\n", IsNeighbor(vh_parse_u(tok[1]), vh_parse_u(tok[2]), topo));
		} else if(!strcmp(tok[0], "PAR")) {
			int k = atoi(tok[1]);
			struct q *qs = calloc(k, sizeof(*qs));
			for(int i = 0; i < k; ++i) {
				if(!fgets(line, sizeof(line), stdin))
					return 1;
				vh_split(line, tok, 16);
				parse_q(tok, &qs[i]);
			}
			pthread_barrier_t bar;
			pthread_barrier_init(&bar, NULL, 2);
			struct par p0 = {qs, k, 0, &bar}, p1 = {qs, k, 1, &bar};
			pthread_t t0, t1;
			pthread_create(&t0, NULL, par_run, &p0);
			pthread_create(&t1, NULL, par_run, &p1);
			pthread_join(t0, NULL);
			pthread_join(t1, NULL);
			for(int i = 0; i < k; ++i)
				print_q(&qs[i]);
			free(qs);
		}
	}
	return 0;
}
