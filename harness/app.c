#include "app.h"
#include <time.h>
#include <math.h>

#define GOLD 0x9E3779B97F4A7C15ULL
#define GOLD2 0xBF58476D1CE4E5B9ULL
#define SEEDC 0x123456789ABCDEF0ULL

struct app_prog app_prog;
uint64_t *app_final_acc, *app_final_cnt, *app_init_calls, *app_fini_calls;
void (*app_dispatch_hook)(lp_id_t me, uint64_t ticks, unsigned type, const void *pl, unsigned size);

static inline uint64_t rotl64(uint64_t x, int k) { return (x << k) | (x >> (64 - k)); }
static inline uint64_t mix(uint64_t x, uint64_t v)
{
	uint64_t a = x ^ v;
	a ^= a << 13;
	a ^= a >> 7;
	a ^= a << 17;
	return a + GOLD;
}

double app_ticks_to_time(uint64_t ticks) { return ldexp((double)ticks, -(int)app_prog.grid_exp); }
uint64_t app_time_to_ticks(double t) { return (uint64_t)ldexp(t, (int)app_prog.grid_exp); }

static struct app_state **app_state_ptr;
static uint64_t app_nostate_mod;
static int app_keep_ticking, app_init_via;

int app_load(const char *path)
{
	FILE *f = fopen(path, "r");
	if(!f)
		return -1;
	static char line[1 << 14];
	struct app_prog *p = &app_prog;
	memset(p, 0, sizeof(*p));
	while(fgets(line, sizeof(line), f)) {
		char *tok[128];
		int n = vh_split(line, tok, 128);
		if(n < 1)
			continue;
		if(!strcmp(tok[0], "lps")) p->lps = vh_parse_u(tok[1]);
		else if(!strcmp(tok[0], "ncls")) p->ncls = vh_parse_u(tok[1]);
		else if(!strcmp(tok[0], "target")) p->target = vh_parse_u(tok[1]);
		else if(!strcmp(tok[0], "seed")) p->seed = vh_parse_u(tok[1]);
		else if(!strcmp(tok[0], "grid")) p->grid_exp = vh_parse_u(tok[1]);
		else if(!strcmp(tok[0], "plmode")) p->plmode = vh_parse_u(tok[1]);
		else if(!strcmp(tok[0], "stopat")) { p->stop_lp = vh_parse_u(tok[1]); p->stop_cnt = vh_parse_u(tok[2]); p->has_stop = 1; }
		else if(!strcmp(tok[0], "ptarget")) {
			if(!p->targets) {
				p->targets = malloc(p->lps * sizeof(uint64_t));
				for(uint64_t i = 0; i < p->lps; ++i) p->targets[i] = p->target;
			}
			p->targets[vh_parse_u(tok[1])] = vh_parse_u(tok[2]);
		} else if(!strcmp(tok[0], "init")) {
			struct app_init *i = &p->inits[p->ninits++];
			i->lp = vh_parse_u(tok[1]); i->ticks = vh_parse_u(tok[2]); i->type = vh_parse_u(tok[3]); i->size = vh_parse_u(tok[4]);
		} else if(!strcmp(tok[0], "row")) {
			/* row type cls ndraws d.. nmem (op slot n).. nouts (rule arg dt type size).. */
			struct app_row *r = &p->rows[p->nrows++];
			int k = 1;
			r->type = vh_parse_u(tok[k++]); r->cls = vh_parse_u(tok[k++]);
			r->ndraws = atoi(tok[k++]);
			for(int i = 0; i < r->ndraws; ++i) r->draws[i] = vh_parse_u(tok[k++]);
			r->nmem = atoi(tok[k++]);
			for(int i = 0; i < r->nmem; ++i) for(int j = 0; j < 3; ++j) r->mem[i][j] = vh_parse_u(tok[k++]);
			r->nouts = atoi(tok[k++]);
			for(int i = 0; i < r->nouts; ++i) {
				r->outs[i].rule = vh_parse_u(tok[k++]); r->outs[i].arg = vh_parse_u(tok[k++]);
				r->outs[i].dt = vh_parse_u(tok[k++]); r->outs[i].type = vh_parse_u(tok[k++]);
				r->outs[i].size = vh_parse_u(tok[k++]);
			}
		}
	}
	fclose(f);
	if(!p->targets) {
		p->targets = malloc(p->lps * sizeof(uint64_t));
		for(uint64_t i = 0; i < p->lps; ++i) p->targets[i] = p->target;
	}
	app_final_acc = calloc(p->lps, sizeof(uint64_t));
	app_final_cnt = calloc(p->lps, sizeof(uint64_t));
	app_init_calls = calloc(p->lps, sizeof(uint64_t));
	app_fini_calls = calloc(p->lps, sizeof(uint64_t));
	app_state_ptr = calloc(p->lps, sizeof(*app_state_ptr));
	app_keep_ticking = getenv("VERIF_KEEP_TICKING") != NULL;
	app_init_via = getenv("VERIF_INIT_VIA") != NULL;
	app_nostate_mod = getenv("VERIF_NOSTATE_MOD") ? strtoull(getenv("VERIF_NOSTATE_MOD"), NULL, 0) : 0;
	return 0;
}

static const struct app_row *lookup_row(uint64_t type, uint64_t cls)
{
	static const struct app_row empty;
	for(int i = 0; i < app_prog.nrows; ++i)
		if(app_prog.rows[i].type == type && app_prog.rows[i].cls == cls)
			return &app_prog.rows[i];
	return &empty;
}

static unsigned make_payload(uint64_t a, uint64_t j, uint64_t sz, uint64_t ty, unsigned char *out)
{
	uint64_t nw = (sz + 7) / 8, base = j * 16 + 1;
	for(uint64_t k = 0; k < nw; ++k) {
		uint64_t w = (app_prog.plmode == 1 && k < 4) ? mix(ty + 1000, k + 1) : mix(a, base + k);
		for(int b = 0; b < 8; ++b)
			if(k * 8 + b < sz)
				out[k * 8 + b] = (unsigned char)(w >> (8 * b));
	}
	return (unsigned)sz;
}

static uint64_t digest_payload(uint64_t a, const unsigned char *pl, unsigned size)
{
	for(unsigned off = 0; off < size; off += 8) {
		uint64_t w = 0;
		for(int b = 7; b >= 0; --b)
			w = w * 256 + (off + b < size ? pl[off + b] : 0);
		a = mix(a, w);
	}
	return a;
}

static void fill(uint64_t *p, uint64_t seed, uint64_t from, uint64_t to)
{
	for(uint64_t i = from; i < to; ++i)
		p[i] = seed + i * GOLD2;
}

/* LPs that never call SetState() (VERIF_NOSTATE_MOD=k: every LP with me % k == k - 1): their state block still lives in rollbackable
   memory at an address fixed at LP_INIT, which is kept here; a model is free not to use the state pointer of the API */
const struct app_state *app_state_of(lp_id_t me, const void *st)
{
	return st ? (const struct app_state *)st : (app_state_ptr ? app_state_ptr[me] : NULL);
}

bool app_can_end(lp_id_t me, const void *st)
{
	const struct app_state *s = app_state_of(me, st);
	if(!s)
		return false;
	return s->cnt >= app_prog.targets[me];
}

void app_process(lp_id_t me, simtime_t now, unsigned type, const void *pl, unsigned size, void *st)
{
	struct app_state *s = (struct app_state *)app_state_of(me, st);
	unsigned char buf[4096];
	if(type == LP_INIT) {
		__atomic_fetch_add(&app_init_calls[me], 1, __ATOMIC_RELAXED);
		s = rs_malloc(sizeof(*s));
		memset(s, 0, sizeof(*s));
		s->acc = mix(SEEDC, me);
		app_state_ptr[me] = s;
		if(!(app_nostate_mod && me % app_nostate_mod == app_nostate_mod - 1))
			SetState(s);
		/* VERIF_INIT_VIA=1: the initial events of LP x are scheduled, with the very same content, by LP x+1 from ITS LP_INIT handler: the
		   event population is unchanged (same reference run) but initial events now cross LPs, worker threads and ranks */
		lp_id_t owner = app_init_via ? (me + app_prog.lps - 1) % app_prog.lps : me;
		uint64_t j = 0;
		for(int i = 0; i < app_prog.ninits; ++i) {
			const struct app_init *in = &app_prog.inits[i];
			if(in->lp != owner)
				continue;
			unsigned sz = make_payload(mix(SEEDC, owner), j++, in->size, in->type, buf);
			ScheduleNewEvent(owner, app_ticks_to_time(in->ticks), (unsigned)in->type, sz ? buf : NULL, sz);
		}
		return;
	}
	if(type == LP_FINI) {
		__atomic_fetch_add(&app_fini_calls[me], 1, __ATOMIC_RELAXED);
		app_final_acc[me] = s->acc;
		app_final_cnt[me] = s->cnt;
		return;
	}
	uint64_t ticks = app_time_to_ticks(now);
	if(app_dispatch_hook)
		app_dispatch_hook(me, ticks, type, pl, size);
	if(s->cnt >= app_prog.targets[me]) {
		/* VERIF_KEEP_TICKING=1: an LP whose predicate holds keeps one self-scheduled event alive, so the model never runs out of events
		   and the run can only end through the termination detection (used by the liveness probes of C08 only: no reference run) */
		if(app_keep_ticking)
			ScheduleNewEvent(me, now + app_ticks_to_time(1), type, NULL, 0);
		return;
	}
	uint64_t a = mix(mix(mix(s->acc, ticks), type), size);
	a = digest_payload(a, pl, size);
	const struct app_row *r = lookup_row(type, s->cnt % app_prog.ncls);
	for(int i = 0; i < r->ndraws; ++i) {
		if(r->draws[i] == 0)
			a = mix(a, RandomU64());
		else if(r->draws[i] == 1) {
			double d = Random();
			a = mix(a, vh_double_to_bits(d));
		} else if(r->draws[i] == 2)
			a = mix(a, (uint64_t)RandomRange(0, 9) + 1);
		/* draws through libm (no Gallina twin: programs using them are compared implementation against implementation) */
		else if(r->draws[i] == 3)
			a = mix(a, vh_double_to_bits(Expent(1.5)));
		else if(r->draws[i] == 4)
			a = mix(a, vh_double_to_bits(Normal()));
		else if(r->draws[i] == 5)
			a = mix(a, vh_double_to_bits(Gamma(1 + (unsigned)(a % 9))));
		else if(r->draws[i] == 6)
			a = mix(a, (uint64_t)Zipf(1.5, 100));
		else
			a = mix(a, (uint64_t)RandomRangeNonUniform(3, 0, 9) + 1);
	}
	for(int i = 0; i < r->nmem; ++i) {
		uint64_t op = r->mem[i][0], sl = r->mem[i][1], n = r->mem[i][2];
		if(op == 1) {
			if(s->slot[sl])
				rs_free(s->slot[sl]);
			s->slot[sl] = rs_malloc(8 * n);
			s->slot_seed[sl] = a;
			s->slot_n[sl] = n;
			fill(s->slot[sl], a, 0, n);
			a = mix(a, n);
		} else if(op == 2) {
			if(s->slot[sl])
				rs_free(s->slot[sl]);
			s->slot[sl] = NULL;
			a = mix(a, 2);
		} else if(op == 3) {
			if(!s->slot[sl]) {
				s->slot[sl] = rs_malloc(8 * n);
				s->slot_seed[sl] = a;
				s->slot_n[sl] = n;
				fill(s->slot[sl], a, 0, n);
				a = mix(a, n);
			} else {
				s->slot[sl] = rs_realloc(s->slot[sl], 8 * n);
				if(n > s->slot_n[sl])
					fill(s->slot[sl], s->slot_seed[sl], s->slot_n[sl], n);
				s->slot_n[sl] = n;
				a = mix(a, n + 3);
			}
		} else if(op == 4) {
			if(!s->slot[sl])
				a = mix(a, 4);
			else {
				uint64_t n0 = s->slot_n[sl], a0 = a;
				a = mix(a, s->slot[sl][0]);
				a = mix(a, s->slot[sl][n0 - 1]);
				a = mix(a, s->slot[sl][a0 % n0]);
			}
		}
	}
	s->acc = a;
	s->cnt++;
	{
		/* optional cost of an event (VERIF_EVENT_SPIN_NS, scaled by 1..3 per LP): expensive handlers make main-loop iterations long
		   with respect to the GVT protocol steps, which moves the points at which workers notice the end of the run */
		static long spin_ns = -1;
		if(spin_ns < 0) { const char *e = getenv("VERIF_EVENT_SPIN_NS"); spin_ns = e ? atol(e) : 0; }
		if(spin_ns > 0) {
			struct timespec t0, t1;
			clock_gettime(CLOCK_MONOTONIC, &t0);
			long want = spin_ns * (long)(1 + me % 3);
			do clock_gettime(CLOCK_MONOTONIC, &t1); while((t1.tv_sec - t0.tv_sec) * 1000000000L + (t1.tv_nsec - t0.tv_nsec) < want);
		}
	}
	if(app_prog.has_stop && me == app_prog.stop_lp && s->cnt == app_prog.stop_cnt)
		RootsimStop();
	for(int i = 0; i < r->nouts; ++i) {
		const struct app_out *o = &r->outs[i];
		uint64_t dest = o->rule == 0 ? me : o->rule == 1 ? o->arg % app_prog.lps : o->rule == 2 ? a % app_prog.lps : (me + o->arg) % app_prog.lps;
		unsigned sz = make_payload(a, (uint64_t)i, o->size, o->type, buf);
		ScheduleNewEvent(dest, app_ticks_to_time(ticks + o->dt), (unsigned)o->type, sz ? buf : NULL, sz);
	}
}
