/* C12 / C05 / C13 correspondence driver: the real rollbackable allocator (src/mm/buddy) of one LP.
   stdin ops (slots name live pointers):
     M slot size | C slot nmemb size | F slot | R old new size (old = -1: NULL) | W slot tag | D slot | K ref | S ref | O tgt | T
   stdout, one line per op:
     M/C/R: "<op> <arena id> <leaf offset> | NULL"  + " new=<rank>" when a fresh arena was inserted at that position, + " zero=0|1" for C
     D: "D <tag> | MIXED"      S: "S <returned ref_i>"      O: "O <returned ref_i>"      T: "T <arena id>:<fnv of longest[]> ..."
   every line ends with " size=<full_ckpt_size>" */
#include "vh.h"
#include <lp/lp.h>
#include <mm/model_allocator.h>
#include <mm/buddy/buddy.h>
#include <mm/buddy/ckpt.h>
#include <log/log.h>
#include <errno.h>

#define MAXSLOTS 8192
static struct lp_ctx lp;
static void *slot[MAXSLOTS];
static size_t slot_size[MAXSLOTS];
static struct buddy_state *known[1024];
static int nknown;

static int arena_id(struct buddy_state *b)
{
	for(int i = 0; i < nknown; ++i)
		if(known[i] == b)
			return i;
	known[nknown] = b;
	return nknown++;
}

static struct buddy_state *arena_of(void *p)
{
	struct mm_state *s = &lp.mm_state;
	for(array_count_t i = 0; i < array_count(s->buddies); ++i) {
		struct buddy_state *b = array_get_at(s->buddies, i);
		if((unsigned char *)p >= b->base_mem && (unsigned char *)p < b->base_mem + sizeof(b->base_mem))
			return b;
	}
	return NULL;
}

static void print_ptr(const char *op, void *p, array_count_t before)
{
	struct mm_state *s = &lp.mm_state;
	int newrank = -1;
	if(array_count(s->buddies) != before)
		for(array_count_t i = 0; i < array_count(s->buddies); ++i) {
			int was = 0;
			for(int k = 0; k < nknown; ++k)
				was |= known[k] == array_get_at(s->buddies, i);
			if(!was) {
				newrank = (int)i;
				arena_id(array_get_at(s->buddies, i));
			}
		}
	if(!p)
		printf("%s NULL", op);
	else {
		struct buddy_state *b = arena_of(p);
		printf("%s %d %u", op, arena_id(b), (unsigned)(((unsigned char *)p - b->base_mem) >> B_BLOCK_EXP));
	}
	if(newrank >= 0)
		printf(" new=%d", newrank);
}

int main(void)
{
	static char line[256];
	log_init(NULL);
	global_config.log_level = LOG_SILENT;
	current_lp = &lp;
	model_allocator_lp_init(&lp.mm_state);
	printf("HDR %lu %lu\n", (unsigned long)lp.mm_state.full_ckpt_size, (unsigned long)offsetof(struct buddy_checkpoint, base_mem));
	while(fgets(line, sizeof(line), stdin)) {
		char *tok[8];
		int n = vh_split(line, tok, 8);
		if(n < 1) continue;
		struct mm_state *s = &lp.mm_state;
		array_count_t before = array_count(s->buddies);
		char op = tok[0][0];
		if(op == 'M') {
			int k = atoi(tok[1]);
			slot_size[k] = vh_parse_u(tok[2]);
			slot[k] = rs_malloc(slot_size[k]);
			print_ptr("M", slot[k], before);
		} else if(op == 'C') {
			int k = atoi(tok[1]);
			size_t nm = vh_parse_u(tok[2]), sz = vh_parse_u(tok[3]);
			slot[k] = rs_calloc(nm, sz);
			slot_size[k] = nm * sz;
			print_ptr("C", slot[k], before);
			int zero = 1;
			if(slot[k])
				for(size_t i = 0; i < nm * sz; ++i) zero &= ((unsigned char *)slot[k])[i] == 0;
			printf(" zero=%d", zero);
		} else if(op == 'F') {
			int k = atoi(tok[1]);
			rs_free(slot[k]); /* the slot keeps naming the pointer: a later restore may make the block live again */
			printf("F");
		} else if(op == 'R') {
			int k = atoi(tok[1]), nk = atoi(tok[2]);   /* R old new size: the result is named by a fresh slot */
			size_t sz = vh_parse_u(tok[3]);
			void *p = rs_realloc(k < 0 ? NULL : slot[k], sz);
			slot[nk] = p; slot_size[nk] = sz;
			print_ptr("R", p, before);
		} else if(op == 'W') {
			int k = atoi(tok[1]);
			uint64_t tag = vh_parse_u(tok[2]);
			uint64_t *w = slot[k];
			for(size_t i = 0; i < (slot_size[k] / 64) * 8; ++i) w[i] = tag;
			printf("W");
		} else if(op == 'D') {
			int k = atoi(tok[1]);
			uint64_t *w = slot[k];
			size_t nw = (slot_size[k] / 64) * 8;
			int uniform = nw > 0;
			for(size_t i = 1; i < nw; ++i) uniform &= w[i] == w[0];
			if(uniform) { printf("D "); vh_print_u(stdout, w[0]); } else printf("D MIXED");
		} else if(op == 'K') {
			model_allocator_checkpoint_take(s, (array_count_t)vh_parse_u(tok[1]));
			printf("K");
		} else if(op == 'S') {
			array_count_t r = model_allocator_checkpoint_restore(s, (array_count_t)vh_parse_u(tok[1]));
			printf("S %u", (unsigned)r);
		} else if(op == 'O') {
			array_count_t r = model_allocator_fossil_lp_collect(s, (array_count_t)vh_parse_u(tok[1]));
			printf("O %u", (unsigned)r);
		} else if(op == 'P') {       /* P slot other: re-point a slot at a pointer known to be live again (after a restore) */
			int k = atoi(tok[1]), o = atoi(tok[2]);
			slot[k] = slot[o]; slot_size[k] = slot_size[o];
			printf("P");
		} else if(op == 'T') {
			printf("T");
			for(array_count_t i = 0; i < array_count(s->buddies); ++i) {
				struct buddy_state *b = array_get_at(s->buddies, i);
				printf(" %d:", arena_id(b));
				vh_print_u(stdout, vh_fnv(b->longest, sizeof(b->longest) - 1, VH_FNV_INIT));
			}
			printf(" logs=%u", (unsigned)array_count(s->logs));
			for(array_count_t i = 0; i < array_count(s->logs); ++i)
				printf(",%u", (unsigned)array_get_at(s->logs, i).ref_i);
		}
		printf(" size=%lu\n", (unsigned long)s->full_ckpt_size);
	}
	model_allocator_lp_fini(&lp.mm_state);
	return 0;
}
