/* C17 driver: the real sync_thread_barrier (src/core/sync.c) under the cooperative scheduler.
   usage: drv_barrier nthreads uses seed stride schedlog
   stdout: per thread and use "L tid use leader", then "EARLY n" (number of early exits seen) and "OK".
   A thread counts "arrived[tid] = use + 1" before entering use k and, on return, checks that every thread arrived. */
#include "vh.h"
#include "trace.h"
#include <core/sync.h>
#include <core/core.h>
#include <pthread.h>
#include <stdatomic.h>

static int nthr, uses;
static _Atomic int arrived[64];
static _Atomic int early;
static char *leaders; /* [tid * uses + k] */

static void *worker(void *arg)
{
	int tid = (int)(uintptr_t)arg;
	verif_sched_register(tid);
	for(int k = 0; k < uses; ++k) {
		atomic_store(&arrived[tid], k + 1);
		bool l = sync_thread_barrier();
		for(int j = 0; j < nthr; ++j)
			if(atomic_load(&arrived[j]) < k + 1)
				atomic_fetch_add(&early, 1);
		leaders[tid * uses + k] = l ? 1 : 0;
		verif_yield(3); /* between two uses: lets a fast thread race ahead or a slow one lag */
	}
	verif_sched_done();
	return NULL;
}

int main(int argc, char **argv)
{
	if(argc < 6) return 2;
	nthr = atoi(argv[1]); uses = atoi(argv[2]);
	global_config.n_threads = (unsigned)nthr;
	leaders = calloc((size_t)nthr * uses, 1);
	verif_sched_enable(nthr, vh_parse_u(argv[3]), vh_parse_u(argv[4]), strcmp(argv[5], "-") ? argv[5] : NULL);
	verif_trace_setup(NULL, 0, 60);
	pthread_t t[64];
	for(int i = 0; i < nthr; ++i) pthread_create(&t[i], NULL, worker, (void *)(uintptr_t)i);
	for(int i = 0; i < nthr; ++i) pthread_join(t[i], NULL);
	for(int i = 0; i < nthr; ++i)
		for(int k = 0; k < uses; ++k)
			printf("L %d %d %d\n", i, k, leaders[i * uses + k]);
	printf("EARLY %d\nOK\n", atomic_load(&early));
	return 0;
}
