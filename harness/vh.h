/* Common helpers of the correspondence drivers (harness side). */
#pragma once
#define _GNU_SOURCE
#include <stdint.h>
#include <stdio.h>
#include <stdlib.h>
#include <string.h>
#include <stdbool.h>
#include <inttypes.h>

/* printing rule shared with the OCaml driver: decimal below 2^62, hex (0x...) from there on */
static inline void vh_print_u(FILE *f, uint64_t v)
{
	if(v < (1ULL << 62))
		fprintf(f, "%" PRIu64, v);
	else
		fprintf(f, "0x%" PRIx64, v);
}

static inline uint64_t vh_parse_u(const char *s)
{
	return strtoull(s, NULL, 0);
}

static inline double vh_bits_to_double(uint64_t b)
{
	double d;
	memcpy(&d, &b, sizeof(d));
	return d;
}

static inline uint64_t vh_double_to_bits(double d)
{
	uint64_t b;
	memcpy(&b, &d, sizeof(b));
	return b;
}

/* sign-magnitude key of a non-NaN double: monotone for <, identifies +0 and -0 */
static inline int64_t vh_time_key(uint64_t bits)
{
	uint64_t mag = bits & 0x7fffffffffffffffULL;
	return (bits >> 63) ? -(int64_t)mag : (int64_t)mag;
}

static inline int vh_hexval(char c)
{
	if(c >= '0' && c <= '9') return c - '0';
	if(c >= 'a' && c <= 'f') return c - 'a' + 10;
	if(c >= 'A' && c <= 'F') return c - 'A' + 10;
	return -1;
}

/* parse "-" (empty) or a hex string into bytes; returns the number of bytes */
static inline size_t vh_parse_hex(const char *s, unsigned char *out, size_t cap)
{
	if(s[0] == '-')
		return 0;
	size_t n = 0;
	while(s[0] && s[1] && n < cap) {
		out[n++] = (unsigned char)(vh_hexval(s[0]) * 16 + vh_hexval(s[1]));
		s += 2;
	}
	return n;
}

/* split a line in place into at most max tokens */
static inline int vh_split(char *line, char **tok, int max)
{
	int n = 0;
	char *save = NULL;
	for(char *t = strtok_r(line, " \t\r\n", &save); t && n < max; t = strtok_r(NULL, " \t\r\n", &save))
		tok[n++] = t;
	return n;
}

/* FNV-1a 64 */
static inline uint64_t vh_fnv(const void *p, size_t n, uint64_t h)
{
	const unsigned char *b = p;
	for(size_t i = 0; i < n; ++i) {
		h ^= b[i];
		h *= 0x100000001b3ULL;
	}
	return h;
}
#define VH_FNV_INIT 0xcbf29ce484222325ULL
