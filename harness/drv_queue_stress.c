/* C15 free-running stress: real concurrency, no scheduler.  The consumer thread inserts a message for itself with a small
   timestamp, then asks the queue for its minimum time: the answer must not exceed that timestamp (the message was
   inserted before the query began and has not been extracted).  Meanwhile producer threads push far-future messages.
   usage: drv_queue_stress producers iterations     stdout: "BADPEEK n" "LOST n" "DUP n" "OK" */
#include "vh.h"
#include "trace.h"
#include <lp/lp.h>
#include <lp/msg.h>
#include <datatypes/msg_queue.h>
#include <mm/msg_allocator.h>
#include <pthread.h>
#include <stdatomic.h>

static int nprod;
static long iters;
static _Atomic int stop;
static _Atomic long pushed, got_far;

static struct lp_msg *mk(double t, uint32_t seq)
{
	struct lp_msg *m = calloc(1, sizeof(*m));
	m->dest = 0; m->dest_t = t; m->m_seq = seq; m->pl_size = 0;
	atomic_store_explicit(&m->flags, 0U, memory_order_relaxed);
	return m;
}

static void *producer(void *arg)
{
	(void)arg;
	while(!atomic_load(&stop)) {
		msg_queue_insert(mk(1e9 + (double)atomic_fetch_add(&pushed, 1), 0xffffffffu));
		if((atomic_load(&pushed) & 1023) == 0) sched_yield();
		while(atomic_load(&pushed) - atomic_load(&got_far) > 4096 && !atomic_load(&stop)) sched_yield();
	}
	return NULL;
}

int main(int argc, char **argv)
{
	if(argc < 3) return 2;
	nprod = atoi(argv[1]); iters = atol(argv[2]);
	global_config.n_threads = 1; global_config.lps = 1; n_lps_node = 1; lid_node_first = 0;
	msg_queue_global_init();
	rid = 0;
	msg_queue_init();
	verif_trace_setup(NULL, 0, 120);
	pthread_t t[64];
	for(int i = 0; i < nprod; ++i) pthread_create(&t[i], NULL, producer, NULL);
	long bad = 0, lost = 0, dup = 0;
	for(long i = 0; i < iters; ++i) {
		struct lp_msg *mine = mk((double)(i + 1), (uint32_t)i);
		msg_queue_insert(mine);
		simtime_t pk = msg_queue_time_peek();
		if(pk > (double)(i + 1)) ++bad;
		/* extract until my message comes back (far-future ones are discarded) */
		int seen = 0;
		for(int k = 0; k < 100000 && !seen; ++k) {
			struct lp_msg *m = msg_queue_extract();
			if(!m) continue;
			if(m == mine) seen = 1; else if(m->m_seq == 0xffffffffu) { atomic_fetch_add(&got_far, 1); free(m); } else ++dup;
		}
		if(!seen) ++lost;
		free(mine);
	}
	atomic_store(&stop, 1);
	for(int i = 0; i < nprod; ++i) pthread_join(t[i], NULL);
	/* shutdown with messages still pending in the shared list and in the heap, payloads on both sides of the 32-byte base size */
	msg_allocator_init();
	while(msg_queue_extract()) ;
	for(int k = 0; k < 6; ++k) {
		unsigned char pl[64] = {0};
		struct lp_msg *m = msg_allocator_pack(0, 5.0 + k, 1, pl, k % 2 ? 40 : 8);
		atomic_store_explicit(&m->flags, 0U, memory_order_relaxed);
		msg_queue_insert(m);
		if(k == 2) (void)msg_queue_time_peek();     /* the first three go to the heap, the rest stay in the list */
	}
	msg_queue_fini();
	msg_allocator_fini();
	printf("BADPEEK %ld\nLOST %ld\nDUP %ld\nOK\n", bad, lost, dup);
	return 0;
}
