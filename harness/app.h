/* The synthetic interpreter application: C twin of coq/TW/App.v.  See DESIGN.md Appendix B. */
#pragma once
#include "vh.h"
#include <ROOT-Sim.h>

#define APP_MAX_ROWS 256
#define APP_MAX_OUTS 4
#define APP_MAX_INITS 4096
#define APP_SLOTS 4

struct app_out { uint64_t rule, arg, dt, type, size; };
struct app_row {
	uint64_t type, cls;
	int ndraws; uint64_t draws[4];
	int nmem; uint64_t mem[3][3];
	int nouts; struct app_out outs[APP_MAX_OUTS];
};
struct app_init { uint64_t lp, ticks, type, size; };
struct app_prog {
	uint64_t lps, ncls, target, seed, grid_exp, plmode;
	uint64_t *targets; /* per LP */
	uint64_t stop_lp, stop_cnt; int has_stop; /* RootsimStop() when LP stop_lp reaches stop_cnt events */
	int ninits; struct app_init inits[APP_MAX_INITS];
	int nrows; struct app_row rows[APP_MAX_ROWS];
};

struct app_state {
	uint64_t acc, cnt;
	uint64_t *slot[APP_SLOTS];
	uint64_t slot_seed[APP_SLOTS], slot_n[APP_SLOTS];
};

extern struct app_prog app_prog;
extern int app_load(const char *path);
extern void app_process(lp_id_t me, simtime_t now, unsigned type, const void *pl, unsigned size, void *st);
extern bool app_can_end(lp_id_t me, const void *st);
extern const struct app_state *app_state_of(lp_id_t me, const void *st);   /* the LP state block, also when the LP never called SetState() */
/* final (acc, cnt) per LP recorded at LP_FINI */
extern uint64_t *app_final_acc, *app_final_cnt, *app_init_calls, *app_fini_calls;
/* optional dispatch log (serial runs): called for every non-init, non-fini dispatch */
extern void (*app_dispatch_hook)(lp_id_t me, uint64_t ticks, unsigned type, const void *pl, unsigned size);
extern double app_ticks_to_time(uint64_t ticks);
extern uint64_t app_time_to_ticks(double t);
