/* C07 correspondence driver: the real termination accounting (src/gvt/termination.c) of one worker thread.
   stdin:  N preds...          (first line: number of LPs and the predicate value on each initial state)
           P lp ticks pred     termination_on_msg_process after an event at time ticks, predicate value pred
           R lp ticks          termination_on_lp_rollback caused by a message at time ticks
           G ticks tend        termination_on_gvt (tend = 0: no termination time)
   stdout after every line: "S lps_to_end max_t voted | term_t of every LP"   (MAX for SIMTIME_MAX, -1 for not terminated) */
#include "vh.h"
#include <lp/lp.h>
#include <gvt/termination.h>

extern void verif_termination_state(uint64_t *lps_to_end_p, simtime_t *max_t_p, unsigned *thr_to_end_p);
static bool next_pred;
static bool committed_cb(lp_id_t me, const void *st) { (void)me; (void)st; return next_pred; }

static void print_time(double t)
{
	if(t == SIMTIME_MAX) printf("MAX");
	else if(t < 0) printf("-1");
	else printf("%" PRIu64, (uint64_t)t);
}

int main(void)
{
	static char line[1 << 16];
	char *tok[4096];
	uint64_t n = 0;
	unsigned thr_prev = 0;
	global_config.committed = committed_cb;
	global_config.n_threads = 100000;
	n_nodes = 1;
	while(fgets(line, sizeof(line), stdin)) {
		int k = vh_split(line, tok, 4096);
		if(k < 1) continue;
		if(!strcmp(tok[0], "N")) {
			n = vh_parse_u(tok[1]);
			lps = calloc(n, sizeof(*lps));
			global_config.termination_time = SIMTIME_MAX;
			termination_global_init();
			for(uint64_t i = 0; i < n; ++i) {
				next_pred = atoi(tok[2 + i]);
				termination_lp_init(&lps[i]);
			}
		} else if(!strcmp(tok[0], "P")) {
			next_pred = atoi(tok[3]);
			termination_on_msg_process(&lps[vh_parse_u(tok[1])], (double)vh_parse_u(tok[2]));
		} else if(!strcmp(tok[0], "R")) {
			termination_on_lp_rollback(&lps[vh_parse_u(tok[1])], (double)vh_parse_u(tok[2]));
		} else if(!strcmp(tok[0], "G")) {
			uint64_t tend = vh_parse_u(tok[2]);
			global_config.termination_time = tend ? (double)tend : SIMTIME_MAX;
			termination_on_gvt((double)vh_parse_u(tok[1]));
		}
		uint64_t lte; double mt; unsigned thr;
		verif_termination_state(&lte, &mt, &thr);
		printf("S ");
		vh_print_u(stdout, lte);
		putchar(' ');
		print_time(mt);
		printf(" %d |", !strcmp(tok[0], "N") ? 0 : (int)(thr_prev - thr));
		thr_prev = thr;
		for(uint64_t i = 0; i < n; ++i) { putchar(' '); print_time(lps[i].termination_t); }
		putchar('\n');
	}
	return 0;
}
