/* C14 correspondence driver: the real lp_global_init / lp_init range computation and the routing
   macros lid_to_nid / lid_to_rid (src/lp/lp.c, src/lp/lp.h).
   stdin : "lps nodes threads" per line
   stdout: per node "N nid first n_lps threads", per thread "T nid rid first end",
           then "R l nid rid" for the requested LPs ("ALL" or a list follows on the same line) */
#include "vh.h"
#include <lp/lp.h>
#include <log/log.h>
#include <mm/mm.h>

extern bool verif_lp_ranges_only;

int main(void)
{
	static char line[1 << 16];
	log_init(NULL);
	global_config.log_level = LOG_SILENT;
	verif_lp_ranges_only = true;
	while(fgets(line, sizeof(line), stdin)) {
		char *tok[4096];
		int n = vh_split(line, tok, 4096);
		if(n < 4)
			continue;
		uint64_t L = vh_parse_u(tok[0]), R = vh_parse_u(tok[1]), T = vh_parse_u(tok[2]);
		printf("C %" PRIu64 " %" PRIu64 " %" PRIu64 "\n", L, R, T);
		fflush(stdout);	/* a sanitizer abort inside the library's macros must leave the failing case visible */
		for(uint64_t nd = 0; nd < R; ++nd) {
			global_config.lps = L;
			global_config.n_threads = (unsigned)T;
			n_nodes = (nid_t)R;
			nid = (nid_t)nd;
			lp_global_init();
			uint64_t nf = lid_node_first, nl = n_lps_node, nt = global_config.n_threads;
			printf("N %" PRIu64 " %" PRIu64 " %" PRIu64 " %" PRIu64 "\n", nd, nf, nl, nt);
			for(uint64_t r = 0; r < nt; ++r) {
				rid = (rid_t)r;
				/* the real lp_init(), stopped after its two partition_start calls */
				lp_init();
				uint64_t a = lid_thread_first, b = lid_thread_end;
				printf("T %" PRIu64 " %" PRIu64 " %" PRIu64 " %" PRIu64 "\n", nd, r, a, b);
			}
			/* routing of the requested LPs that this node believes it hosts */
			for(int i = 3; i < n; ++i) {
				uint64_t l;
				if(!strcmp(tok[i], "ALL")) {
					for(l = 0; l < L; ++l)
						if((uint64_t)lid_to_nid(l) == nd)
							printf("R %" PRIu64 " %" PRIu64 " %u\n", l, nd, (unsigned)lid_to_rid(l));
				} else {
					l = vh_parse_u(tok[i]);
					if((uint64_t)lid_to_nid(l) == nd)
						printf("R %" PRIu64 " %" PRIu64 " %u\n", l, nd, (unsigned)lid_to_rid(l));
				}
			}
		}
	}
	return 0;
}
