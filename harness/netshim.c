/* Network with finite delivery delays for multi-rank runs (MPI profiling interface, harness side only).
   VERIF_NET="max_us,slow_us,slow_one_in,seed": every event / anti-message sent to another rank is delivered after a random
   delay below max_us; one in slow_one_in (anti-messages: ten times as often) after a delay in [slow_us/2, slow_us).  Control messages are never delayed.
   What MPI allows is respected: messages sent by one thread to one destination are delivered in the order they were sent
   (a delayed message holds back the later ones of that thread to that rank); messages of different threads or to different
   ranks overtake each other freely.  Everything still held is delivered before the node barrier of the shutdown. */
#include <mpi.h>
#include <lp/msg.h>
#include <pthread.h>
#include <stdatomic.h>
#include <stdint.h>
#include <stdlib.h>
#include <string.h>
#include <stdio.h>
#include <time.h>
#include <unistd.h>

struct held {
	uint64_t due_ns, seq;
	int count, dest, tag;
	unsigned char data[];
};

#define NET_MAXRANKS 64
static pthread_mutex_t net_mtx = PTHREAD_MUTEX_INITIALIZER;
static struct held **net_heap;
static size_t net_cnt, net_cap;
static pthread_t net_thread;
static atomic_int net_run;
static unsigned net_max_us, net_slow_us, net_slow_one_in = 1;
static uint64_t net_seed;
static _Atomic uint64_t net_seq;
static __thread uint64_t net_last_due[NET_MAXRANKS];
static int net_rank;

static uint64_t now_ns(void)
{
	struct timespec t;
	clock_gettime(CLOCK_MONOTONIC, &t);
	return (uint64_t)t.tv_sec * 1000000000ULL + (uint64_t)t.tv_nsec;
}

static int held_before(const struct held *a, const struct held *b)
{
	return a->due_ns < b->due_ns || (a->due_ns == b->due_ns && a->seq < b->seq);
}

static void net_push(struct held *h)
{
	pthread_mutex_lock(&net_mtx);
	if(net_cnt == net_cap) {
		net_cap = net_cap ? net_cap * 2 : 1024;
		net_heap = realloc(net_heap, net_cap * sizeof(*net_heap));
	}
	size_t i = net_cnt++;
	while(i && held_before(h, net_heap[(i - 1) / 2])) {
		net_heap[i] = net_heap[(i - 1) / 2];
		i = (i - 1) / 2;
	}
	net_heap[i] = h;
	pthread_mutex_unlock(&net_mtx);
}

/* pops and SENDS under the lock, so that two flushing threads cannot swap two messages of one sender thread */
static int net_send_one_due(uint64_t t)
{
	pthread_mutex_lock(&net_mtx);
	if(!net_cnt || net_heap[0]->due_ns > t) {
		pthread_mutex_unlock(&net_mtx);
		return 0;
	}
	struct held *ret = net_heap[0];
	struct held *last = net_heap[--net_cnt];
	size_t i = 0;
	while(1) {
		size_t c = 2 * i + 1;
		if(c >= net_cnt)
			break;
		if(c + 1 < net_cnt && held_before(net_heap[c + 1], net_heap[c]))
			++c;
		if(!held_before(net_heap[c], last))
			break;
		net_heap[i] = net_heap[c];
		i = c;
	}
	if(net_cnt)
		net_heap[i] = last;
	/* a standard-mode send of a small message completes eagerly */
	PMPI_Send(ret->data, ret->count, MPI_BYTE, ret->dest, ret->tag, MPI_COMM_WORLD);
	pthread_mutex_unlock(&net_mtx);
	free(ret);
	return 1;
}

static void net_flush(int all)
{
	while(net_send_one_due(all ? UINT64_MAX : now_ns()))
		;
}

static void *net_main(void *arg)
{
	(void)arg;
	while(atomic_load(&net_run) == 1) {
		net_flush(0);
		usleep(50);
	}
	net_flush(1);
	return NULL;
}

int MPI_Init_thread(int *argc, char ***argv, int required, int *provided)
{
	int ret = PMPI_Init_thread(argc, argv, required, provided);
	PMPI_Comm_rank(MPI_COMM_WORLD, &net_rank);
	const char *e = getenv("VERIF_NET");
	unsigned long long sd = 1;
	if(e && sscanf(e, "%u,%u,%u,%llu", &net_max_us, &net_slow_us, &net_slow_one_in, &sd) >= 3 && net_slow_one_in > 0 &&
	    *provided >= MPI_THREAD_MULTIPLE) {
		net_seed = sd * 0x9E3779B97F4A7C15ULL + (uint64_t)net_rank * 0xD1B54A32D192ED03ULL;
		atomic_store(&net_run, 1);
		pthread_create(&net_thread, NULL, net_main, NULL);
	}
	return ret;
}

static void net_stop(void)
{
	if(atomic_load(&net_run) == 1) {
		atomic_store(&net_run, 2);	/* from now on sends are immediate */
		pthread_join(net_thread, NULL);
	}
}

int MPI_Barrier(MPI_Comm comm)
{
	/* the node barriers (start-up, shutdown) are reached when no worker of this rank is sending: nothing may stay in the
	   simulated network beyond the shutdown rendezvous */
	if(atomic_load(&net_run) == 1)
		net_flush(1);
	return PMPI_Barrier(comm);
}

int MPI_Finalize(void)
{
	net_stop();
	return PMPI_Finalize();
}

int MPI_Isend(const void *buf, int count, MPI_Datatype dt, int dest, int tag, MPI_Comm comm, MPI_Request *req)
{
	/* tag 0 carries control (4 bytes), anti-messages and events: only the model traffic is delayed */
	if(atomic_load(&net_run) != 1 || tag != 0 || count <= (int)sizeof(int) || dt != MPI_BYTE || dest < 0 || dest >= NET_MAXRANKS)
		return PMPI_Isend(buf, count, dt, dest, tag, comm, req);
	struct held *h = malloc(sizeof(*h) + (size_t)count);
	memcpy(h->data, buf, (size_t)count);
	h->count = count;
	h->dest = dest;
	h->tag = tag;
	h->seq = atomic_fetch_add(&net_seq, 1);
	uint64_t x = net_seed + h->seq * 0xBF58476D1CE4E5B9ULL;
	x ^= x >> 30; x *= 0xBF58476D1CE4E5B9ULL; x ^= x >> 27; x *= 0x94D049BB133111EBULL; x ^= x >> 31;
	/* an adversarial but legal network: anti-messages take the slow path ten times as often as events */
	unsigned one_in = count == (int)msg_remote_anti_size() ? (net_slow_one_in + 9) / 10 : net_slow_one_in;
	int slow = (x >> 40) % one_in == 0;
	uint64_t lim = (uint64_t)(slow ? net_slow_us / 2 : net_max_us) * 1000ULL;
	uint64_t due = now_ns() + (lim ? (x & 0xffffffffffULL) % lim : 0) + (slow ? lim : 0);
	if(due < net_last_due[dest])
		due = net_last_due[dest];	/* FIFO per (sending thread, destination) */
	net_last_due[dest] = due;
	h->due_ns = due;
	net_push(h);
	*req = MPI_REQUEST_NULL;
	return MPI_SUCCESS;
}

int MPI_Request_free(MPI_Request *req)
{
	if(*req == MPI_REQUEST_NULL)
		return MPI_SUCCESS;
	return PMPI_Request_free(req);
}
