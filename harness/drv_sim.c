/* Simulation driver: runs the real runtime (RootsimInit / RootsimRun) on the interpreter application.
   usage: drv_sim prog.txt mode threads ckpt gvt_period_us tend_ticks statsfile|- displog|-
   environment: VERIF_TRACE_FILE, VERIF_TRACE_MASK (bit per enum verif_trace_kind), VERIF_WATCHDOG (seconds)
     mode: serial | parallel
   stdout: "F lp acc cnt" for every LP after the run, "RET code", and with a dispatch log path each
   dispatch "D lp ticks type size digest" (serial only: the log is not synchronised). */
#include "app.h"
#include "trace.h"
#include <ROOT-Sim.h>
#include <core/core.h>

static FILE *dlog;
static void dispatch_log(lp_id_t me, uint64_t ticks, unsigned type, const void *pl, unsigned size)
{
	fprintf(dlog, "D %" PRIu64 " %" PRIu64 " %u %u ", (uint64_t)me, ticks, type, size);
	vh_print_u(dlog, vh_fnv(pl, size, VH_FNV_INIT));
	fputc('\n', dlog);
}

int main(int argc, char **argv)
{
	if(argc < 9)
		return 2;
	if(app_load(argv[1]))
		return 3;
	struct simulation_configuration conf;
	memset(&conf, 0, sizeof(conf));
	conf.lps = app_prog.lps;
	conf.serial = !strcmp(argv[2], "serial");
	conf.n_threads = (unsigned)atoi(argv[3]);
	conf.ckpt_interval = (unsigned)atoi(argv[4]);
	conf.gvt_period = (unsigned)atoi(argv[5]);
	uint64_t tend = vh_parse_u(argv[6]);
	conf.termination_time = tend ? app_ticks_to_time(tend) : 0;
	conf.stats_file = strcmp(argv[7], "-") ? argv[7] : NULL;
	conf.log_level = LOG_SILENT;
	conf.prng_seed = app_prog.seed;
	conf.core_binding = false;
	conf.dispatcher = app_process;
	conf.committed = app_can_end;
	if(strcmp(argv[8], "-")) {
		dlog = fopen(argv[8], "w");
		app_dispatch_hook = dispatch_log;
	}
	const char *tf = getenv("VERIF_TRACE_FILE"), *tm = getenv("VERIF_TRACE_MASK"), *wd = getenv("VERIF_WATCHDOG");
	verif_trace_setup(tf, tm ? strtoull(tm, NULL, 0) : 0, wd ? (unsigned)atoi(wd) : 0);
	int rc = RootsimInit(&conf);
	if(rc) {
		printf("INITFAIL %d\n", rc);
		return 4;
	}
	rc = RootsimRun();
	verif_trace_dump();
	if(dlog)
		fclose(dlog);
	extern nid_t n_nodes;
	for(uint64_t i = 0; i < app_prog.lps; ++i) {
		/* with several ranks every process prints only the LPs it finalised */
		if(n_nodes > 1 && !app_fini_calls[i] && !app_init_calls[i])
			continue;
		printf("F %" PRIu64 " ", i);
		vh_print_u(stdout, app_final_acc[i]);
		printf(" %" PRIu64 "\n", app_final_cnt[i]);
		printf("I %" PRIu64 " %" PRIu64 " %" PRIu64 "\n", i, app_init_calls[i], app_fini_calls[i]);
	}
	printf("RET %d\n", rc);
	return 0;
}
