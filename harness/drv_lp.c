/* LP-level driver: the real process_msg / fossil collection / termination accounting of ONE worker thread hosting all
   LPs of an interpreter program, with the driver acting as the network: it may take messages out of the queue, hold
   them and hand them back later (so stragglers, anti-messages and rollbacks happen at will), and it announces GVT
   values that are legal lower bounds of everything pending, held or in hand.
   usage: drv_lp prog.txt ckpt_interval < script
   script: P n   process up to n messages            H k   hold the k next messages of the queue
           U i   hand back the i-th held message      A     hand back all held messages
           G d   announce GVT = (minimum pending timestamp) - d ticks (never below the previous one; may repeat it): fossil, at-gvt release, termination
           E     end: hand back everything, process until the queue is empty
   stdout: "F lp acc cnt" / "I lp ninit nfini" per LP, "GVTS n", "RET 0" */
#include "app.h"
#include "trace.h"
#include <lp/lp.h>
#include <lp/process.h>
#include <datatypes/msg_queue.h>
#include <gvt/fossil.h>
#include <gvt/gvt.h>
#include <gvt/termination.h>
#include <mm/msg_allocator.h>
#include <mm/auto_ckpt.h>
#include <log/stats.h>
#include <log/log.h>
#include <distributed/mpi.h>
#include <verif_hooks.h>

#define MAXHELD 100000
static struct lp_msg *held[MAXHELD];
static int nheld;

static double min_pending(void)
{
	double m = msg_queue_time_peek();
	for(int i = 0; i < nheld; ++i)
		if(held[i] && held[i]->dest_t < m)
			m = held[i]->dest_t;
	return m;
}

/* ---- state digest after every script line (VERIF_LPSTATE=<file>), compared with the worker model (coq/TW/Worker.v) ---- */
static FILE *lpstate_f;
static inline uint64_t dmix(uint64_t x, uint64_t v)
{
	uint64_t a = x ^ v;
	a ^= a << 13;
	a ^= a >> 7;
	a ^= a << 17;
	return a + 0x9E3779B97F4A7C15ULL;
}

/* C07 at LP level: a recorded termination time names an event that is still in the LP's history and on whose state the predicate held;
   the predicate of the interpreter application (count >= target) is monotone along a history, so it must hold on the current state too */
static void check_termination(unsigned long k)
{
	for(uint64_t i = 0; i < global_config.lps; ++i) {
		const struct lp_ctx *lp = &lps[i];
		if(lp->termination_t >= 0.0 && lp->termination_t != SIMTIME_MAX && !app_can_end(i, lp->state_pointer))
			printf("TERMBAD %lu %" PRIu64 " %" PRIu64 "\n", k, i, app_time_to_ticks(lp->termination_t));
	}
}

extern void verif_termination_state(uint64_t *lps_to_end_p, simtime_t *max_t_p, unsigned *thr_to_end_p);
static void dump_time(double t)
{
	if(t == SIMTIME_MAX) fprintf(lpstate_f, "MAX");
	else if(t < 0) fprintf(lpstate_f, "-1");
	else fprintf(lpstate_f, "%" PRIu64, app_time_to_ticks(t));
}

static void dump_state(unsigned long k)
{
	if(!lpstate_f)
		return;
	fprintf(lpstate_f, "S %lu\n", k);
	for(uint64_t i = 0; i < app_prog.lps; ++i) {
		struct lp_ctx *lp = &lps[i];
		const struct app_state *st = app_state_of(i, lp->state_pointer);
		uint64_t hh = 0, hl = 0;
		for(array_count_t j = 0; j < array_count(lp->p.p_msgs); ++j) {
			struct lp_msg *m = array_get_at(lp->p.p_msgs, j);
			if(is_msg_sent(m)) {	/* a marker is only counted: its message may already have been released */
				hh = dmix(hh, 2);
				continue;
			}
			uint32_t fl = atomic_load_explicit(&m->flags, memory_order_relaxed);
			hh = dmix(dmix(dmix(dmix(hh, 1), m->m_type == LP_INIT ? 0 : app_time_to_ticks(m->dest_t)), m->m_type), fl & 3U);
		}
		for(array_count_t j = 0; j < array_count(lp->mm_state.logs); ++j)
			hl = dmix(hl, array_get_at(lp->mm_state.logs, j).ref_i);
		fprintf(lpstate_f, "L %" PRIu64 " ", i);
		vh_print_u(lpstate_f, st->acc);
		fprintf(lpstate_f, " %" PRIu64 " %u ", st->cnt, (unsigned)array_count(lp->p.p_msgs));
		vh_print_u(lpstate_f, hh);
		fprintf(lpstate_f, " %u ", (unsigned)array_count(lp->mm_state.logs));
		vh_print_u(lpstate_f, hl);
		if(lp->p.bound < 0.0)
			fprintf(lpstate_f, " -1\n");
		else
			fprintf(lpstate_f, " %" PRIu64 "\n", app_time_to_ticks(lp->p.bound));
	}
	/* the termination accounting (TW/WorkerTerm.v driving TW/Term.v): lps_to_end, max_t, every LP's termination time */
	uint64_t lte; double mt; unsigned thr;
	verif_termination_state(&lte, &mt, &thr);
	fprintf(lpstate_f, "M %" PRIu64 " ", lte);
	dump_time(mt);
	fprintf(lpstate_f, " |");
	for(uint64_t i = 0; i < app_prog.lps; ++i) {
		fputc(' ', lpstate_f);
		dump_time(lps[i].termination_t);
	}
	fputc('\n', lpstate_f);
}

int main(int argc, char **argv)
{
	if(argc < 3 || app_load(argv[1]))
		return 2;
	struct simulation_configuration conf;
	memset(&conf, 0, sizeof(conf));
	conf.lps = app_prog.lps;
	conf.n_threads = 1;
	conf.ckpt_interval = (unsigned)atoi(argv[2]);
	conf.log_level = LOG_SILENT;
	conf.prng_seed = app_prog.seed;
	conf.dispatcher = app_process;
	conf.committed = app_can_end;
	if(RootsimInit(&conf))
		return 3;
	const char *tf = getenv("VERIF_TRACE_FILE"), *tm = getenv("VERIF_TRACE_MASK");
	verif_trace_setup(tf, tm ? strtoull(tm, NULL, 0) : 0, 120);
	mpi_global_init(NULL, NULL);   /* a termination vote broadcasts a control message */
	/* parallel_global_init + worker_thread_init of a single worker, without threads, barriers or MPI */
	stats_global_init();
	lp_global_init();
	msg_queue_global_init();
	termination_global_init();
	gvt_global_init();
	rid = 0;
	stats_init();
	auto_ckpt_init();
	msg_allocator_init();
	msg_queue_init();
	lp_init();

	static char line[256];
	double last_gvt = 0.0;
	unsigned long ngvt = 0, nline = 0;
	if(getenv("VERIF_LPSTATE"))
		lpstate_f = fopen(getenv("VERIF_LPSTATE"), "w");
	dump_state(0);
	while(fgets(line, sizeof(line), stdin)) {
		char *tok[4];
		int n = vh_split(line, tok, 4);
		if(n < 1) continue;
		if(nline) {
			dump_state(nline);
			check_termination(nline);
		}
		++nline;
		char op = tok[0][0];
		if(op == 'P') {
			for(int k = atoi(tok[1]); k > 0; --k)
				process_msg();
		} else if(op == 'H') {
			for(int k = atoi(tok[1]); k > 0 && nheld < MAXHELD; --k) {
				struct lp_msg *m = msg_queue_extract();
				if(!m) break;
				held[nheld++] = m;
			}
		} else if(op == 'U') {
			int i = nheld ? atoi(tok[1]) % nheld : -1;
			if(i >= 0 && held[i]) { msg_queue_insert(held[i]); held[i] = NULL; }
		} else if(op == 'A' || op == 'E') {
			for(int i = 0; i < nheld; ++i)
				if(held[i]) { msg_queue_insert(held[i]); held[i] = NULL; }
			nheld = 0;
			if(op == 'E')
				while(msg_queue_time_peek() != SIMTIME_MAX)
					process_msg();
		} else if(op == 'G') {
			double g = min_pending();
			if(g == SIMTIME_MAX) continue;
			g -= app_ticks_to_time(vh_parse_u(tok[1]));
			if(g < last_gvt || g <= 0.0) continue;	/* a round that does not advance the GVT is legal and still opens a fossil epoch */
			last_gvt = g;
			++ngvt;
			VERIF_TRACE(VT_GVT, verif_bits(g), 0, 0, 0);
			termination_on_gvt(g);
			auto_ckpt_on_gvt();
			fossil_on_gvt(g);
			msg_allocator_on_gvt(g);
		}
	}
	dump_state(nline);
	check_termination(nline);
	if(lpstate_f)
		fclose(lpstate_f);
	VERIF_TRACE(VT_GVT, verif_bits(last_gvt), 0, 0, 0);
	lp_fini();
	msg_queue_fini();
	msg_allocator_fini();
	verif_trace_dump();
	mpi_global_fini();
	for(uint64_t i = 0; i < app_prog.lps; ++i) {
		printf("F %" PRIu64 " ", i);
		vh_print_u(stdout, app_final_acc[i]);
		printf(" %" PRIu64 "\n", app_final_cnt[i]);
		printf("I %" PRIu64 " %" PRIu64 " %" PRIu64 "\n", i, app_init_calls[i], app_fini_calls[i]);
	}
	printf("GVTS %lu\nRET 0\n", ngvt);
	return 0;
}
