/* C16 correspondence driver: the real msg_is_before / msg_is_before_extended (src/lp/msg.h) and the
   queue comparator of src/datatypes/msg_queue.c on triples of messages.
   stdin : one triple per line, 3 x (tbits flags type plsize plhex dest seq next)
   stdout: 9 results of msg_is_before (row-major a,b,c x a,b,c), 9 of q_elem_is_before, key check */
#include "vh.h"
#include <lp/msg.h>

extern bool verif_q_elem_is_before(simtime_t ta, struct lp_msg *ma, simtime_t tb, struct lp_msg *mb);

#define MAXPL 4096

static struct lp_msg *mk(char **t, uint64_t *bits)
{
	struct lp_msg *m = calloc(1, sizeof(*m) + MAXPL);
	*bits = vh_parse_u(t[0]);
	m->dest_t = vh_bits_to_double(*bits);
	m->raw_flags = (uint32_t)vh_parse_u(t[1]);
	m->m_type = (uint32_t)vh_parse_u(t[2]);
	m->pl_size = (uint32_t)vh_parse_u(t[3]);
	vh_parse_hex(t[4], m->pl, MAXPL);
	m->dest = vh_parse_u(t[5]);
	m->m_seq = (uint32_t)vh_parse_u(t[6]);
	m->next = (struct lp_msg *)(uintptr_t)vh_parse_u(t[7]);
	return m;
}

int main(void)
{
	static char line[1 << 16];
	while(fgets(line, sizeof(line), stdin)) {
		char *tok[32];
		int n = vh_split(line, tok, 32);
		if(n < 24)
			continue;
		struct lp_msg *m[3];
		uint64_t bits[3];
		for(int i = 0; i < 3; ++i)
			m[i] = mk(tok + 8 * i, &bits[i]);
		char out[64];
		int k = 0, keyok = 1;
		for(int i = 0; i < 3; ++i)
			for(int j = 0; j < 3; ++j)
				out[k++] = msg_is_before(m[i], m[j]) ? '1' : '0';
		out[k++] = ' ';
		for(int i = 0; i < 3; ++i)
			for(int j = 0; j < 3; ++j)
				out[k++] = verif_q_elem_is_before(m[i]->dest_t, m[i], m[j]->dest_t, m[j]) ? '1' : '0';
		for(int i = 0; i < 3; ++i)
			for(int j = 0; j < 3; ++j) {
				int64_t ki = vh_time_key(bits[i]), kj = vh_time_key(bits[j]);
				if((m[i]->dest_t < m[j]->dest_t) != (ki < kj) || (m[i]->dest_t == m[j]->dest_t) != (ki == kj))
					keyok = 0;
			}
		out[k] = 0;
		printf("%s %s\n", out, keyok ? "K" : "KEYFAIL");
		for(int i = 0; i < 3; ++i)
			free(m[i]);
	}
	return 0;
}
