#!/bin/sh
# validates every seeded change in one scratch worktree: suite with patch, demo with / without patch
W=/tmp/wt-val
git -C /repo worktree add -q $W HEAD
for p in "$@"; do
  echo "######## $p"
  cd $W && git checkout -q -- . && git clean -qfd -e _build
  mkdir -p seeded && cp /verif/seeded/$p/* seeded/
  git apply seeded/patch.diff || { echo "PATCH FAILS TO APPLY"; continue; }
  (cmake -G Ninja -B _build >/dev/null && cmake --build _build 2>&1 | grep -E "\berror\b" | head -3; ctest --test-dir _build -j4 --timeout 900 > /tmp/ctest-val.log 2>&1; grep -E "tests passed|\*\*\*|Failed|Timeout" /tmp/ctest-val.log | head -8; if ! grep -q "100% tests passed" /tmp/ctest-val.log; then echo "re-running the failed tests alone (hard 60 s per-test limit, machine load):"; ctest --test-dir _build --rerun-failed 2>&1 | grep -E "tests passed|\*\*\*|Failed|Timeout" | head -8; fi)
  for d in seeded/demo.sh seeded/demo2.sh; do [ -f $d ] && { bash $d > /tmp/dw.log 2>&1; echo "WITH patch: $d exit $?"; tail -2 /tmp/dw.log; }; done
  git apply -R seeded/patch.diff
  for d in seeded/demo.sh seeded/demo2.sh; do [ -f $d ] && { bash $d > /tmp/dwo.log 2>&1; echo "WITHOUT patch: $d exit $?"; tail -2 /tmp/dwo.log; }; done
done
cd /; git -C /repo worktree remove --force $W
echo DONE
