#!/bin/sh
# applies a seeded change to /repo's working tree, runs the given quick checks, and undoes it:  tools/try_seed.sh <patch> C01 C05 ...
P=$1; shift
git -C /repo status --short -- src | grep -q . && { echo "/repo has local changes"; exit 2; }
git -C /repo apply --check "$P" || { echo "PATCH DOES NOT APPLY"; exit 2; }
git -C /repo apply "$P"
for c in "$@"; do
  echo "=== $c"; cd /verif && ./check $c --tier quick 2>&1 | grep -E "^(OK|VIOLATION|KNOWN)|signature" | cut -c1-400 | head -6
done
git -C /repo checkout -- .
git -C /repo status --short -- src
