#!/bin/sh
# regression of the machinery itself: every seeded change must still be caught by the quick check of its property.
#   tools/all_seeds.sh [seed dirs...]      prints one line per seed: CAUGHT / MISSED
cd /verif
S="$@"; [ -z "$S" ] && S=$(ls seeded | grep -v README)
for s in $S; do
  id=$(python3 -c "import json;print(json.load(open('seeded/$s/meta.json'))['property'])")
  out=$(tools/try_seed.sh /verif/seeded/$s/patch.diff $id 2>&1)
  if echo "$out" | grep -q "^VIOLATION property=$id"; then
    echo "CAUGHT $s ($id): $(echo "$out" | grep -m1 signature | cut -c1-160)"
  else
    echo "MISSED $s ($id): $(echo "$out" | tail -n 2 | tr '\n' ' ' | cut -c1-200)"
  fi
done
