#!/bin/sh
# tools/validate_seed.sh <worktree> : confirms a seeded change: suite passes with it, demo fails with it and passes without it.
# Leaves the worktree WITHOUT the patch applied.
W=$1
cd "$W" || exit 2
git checkout -q -- src 2>/dev/null
git apply seeded/patch.diff || { echo "PATCH DOES NOT APPLY"; exit 2; }
echo "== suite with patch"
(cmake -G Ninja -B _build >/dev/null && cmake --build _build 2>&1 | grep -E "\berror\b|warning: unused" | head -5; ctest --test-dir _build -j8 --timeout 900 2>&1 | tail -3)
echo "== demo with patch"
if [ -f seeded/demo.sh ]; then sh seeded/demo.sh > /tmp/demo_with.log 2>&1; echo "exit $?"; tail -3 /tmp/demo_with.log; else echo "no demo.sh"; fi
git apply -R seeded/patch.diff
echo "== demo without patch"
if [ -f seeded/demo.sh ]; then sh seeded/demo.sh > /tmp/demo_without.log 2>&1; echo "exit $?"; tail -3 /tmp/demo_without.log; fi
