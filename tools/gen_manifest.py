#!/usr/bin/env python3
"""Writes MANIFEST.json from the table below (one place to keep claims, levels and notes current)."""
import json, os, subprocess
V = os.path.dirname(os.path.dirname(os.path.abspath(__file__)))

TB = ("Trusted: Coq 8.16.1 kernel (vm_compute, no native_compute); axioms exactly as Print Assumptions lists them in the evidence; "
      "hand-written Gallina model tied to /repo by the correspondence run of every check (C drivers in harness/, extracted OCaml "
      "driver with ExtrOcamlBasic only); ")

CLAIMS = {
 "C16": dict(cat="proof", ref="DESIGN.md §5 C16",
   text="Theorems (Properties_C16.v, axiom-free): the model of msg_is_before/msg_is_before_extended/q_elem_is_before is the lexicographic "
        "order of the message content, hence irreflexive, asymmetric, transitive, with transitive incomparability, and a function of "
        "(time, ANTI bit, type, size, first size payload bytes) only — for all messages, payload sizes and contents. Tie: the real comparators "
        "from src/lp/msg.h and src/datatypes/msg_queue.c are run against the extracted model on generated triples with ties on every key prefix; "
        "the strict-weak-order laws and content-onlyness are also evaluated directly on the C answers.",
   note=TB + "timestamps are not NaN; the sign-magnitude time key is checked monotone on the C side for every pair used.",
   tech="Coq proof (lexicographic-order refinement) + differential correspondence of the C comparator with the extracted model"),
 "C14": dict(cat="proof", ref="DESIGN.md §5 C14",
   text="Theorems (Properties_C14.v, axiom-free, for all lps/ranks/threads >= 1): the partition_start macro (both loops, on fuel) returns "
        "ceil(id*tot/cnt) and never exhausts its fuel; node and thread ranges are contiguous and cover all LPs; an LP is in the range of "
        "(rank, thread) iff routing (lid_to_nid, lid_to_rid) computes that pair — exactly one owner; no thread idle; fewer LPs than threads "
        "gives one LP per thread. Tie: real lp_global_init/lp_init (ranges-only hook) and the routing macros vs extracted model, exhaustive "
        "small box + random up to 2^40 LPs; ownership laws also evaluated on the C output.",
   note=TB + "products lps*ranks and node_lps*threads below 2^64 (model is unbounded N); rank with zero LPs is outside the property.",
   tech="Coq proof (division arithmetic, all sizes) + differential correspondence of lp.c/lp.h with the extracted model"),
 "C18": dict(cat="proof", ref="DESIGN.md §5 C18",
   text="Theorems (Properties_C18.v, axiom-free): for all 2^64 raw generator outputs the integer half of Random() performs only defined "
        "shifts and returns the bit pattern of a finite double in [0,1) (exponent field 959+floor(log2 u), exact mantissa), proved by arithmetic "
        "on log2, not enumeration; floor(x*n) computed in binary64 (exact product, round-to-nearest-even on 53 bits, floor — modelled on integers) "
        "is < n for every such x and n>=1, hence RandomRange in [min,max] and RandomRangeNonUniform in range; the generator step keeps a well-formed "
        "state. Tie: real Random/RandomU64/RandomRange/RandomRangeNonUniform/random_lib_lp_init vs the extracted model on crafted states (raw output "
        "0,1,2^k,2^k+-1,2^64-1, mantissa-truncation boundary) and random states, bit-exact incl. the four state words and a second LP's untouched state; "
        "UBSan/ASan on. Partial: Poisson/Expent/Gamma/Normal/Zipf depend on libm and are checked against their contracts on the implementation only.",
   note=TB + "non-negative doubles are ordered like their bit patterns; documented argument domain 0<=min<=max, max-min+1<=2^31-1; libm not modelled.",
   tech="Coq proof (integer-exact binary64 arithmetic, all 2^64 outputs) + bit-exact differential correspondence with crafted generator states"),
 "C19": dict(cat="proof", ref="DESIGN.md §5 C19",
   text="Theorems (Properties_C19.v, axiom-free, all geometries, all sizes with width*height < 2^32, all sources/directions/generator states): a receiver "
        "other than INVALID_DIRECTION is inside the topology and confirmed by IsNeighbor; CountDirections equals the number of fixed directions with a "
        "receiver (grids, rings) / regions-1 / 1 / number of links; DIRECTION_RANDOM finds a neighbour whenever one exists (the Fisher-Yates shuffle is "
        "proved a permutation, its draws in range by C18); purity holds by construction of the model. Tie: real topology library vs extracted model, "
        "exhaustive over the small box of sizes for every source and direction, crafted generator states, repeat queries and two concurrent threads; "
        "the four laws are also evaluated directly on the C answers.",
   note=TB + "graph geometry: the cumulative-probability pick among adjacent regions is an oracle (candidate set and draw count modelled); mesh redraw loop on fuel.",
   tech="Coq proof (32-bit grid arithmetic, permutation of the shuffle) + exhaustive small-size differential correspondence"),
}

PENDING_REASON = "check not built yet in this session (work in progress, see DESIGN.md §8 order of work); not claimed until its theorem and correspondence run"

def main():
    props = [json.loads(l)["id"] for l in open(os.path.join(V, "properties.jsonl"))]
    hooks = subprocess.run(["git", "-C", "/repo", "log", "--format=%H %s"], capture_output=True, text=True).stdout.splitlines()
    hook_commits = [l.split()[0] for l in hooks if "verif hook" in l]
    checks = []
    for pid in props:
        if pid not in CLAIMS:
            continue
        c = CLAIMS[pid]
        checks.append(dict(property_id=pid, quick_cmd="./check %s --tier quick" % pid,
                           thorough_cmd="./check %s --tier thorough" % pid,
                           evidence_file="evidence/%s.json" % pid,
                           replay_cmd_template="./check %s --replay {path}" % pid,
                           engine="coq+correspondence",
                           level_claimed=dict(category=c["cat"], text=c["text"], design_ref=c["ref"]),
                           level_note=c["note"], technique=c["tech"]))
    na = [dict(property_id=p, reason=NA.get(p, PENDING_REASON)) for p in props if p not in CLAIMS]
    m = dict(version=1, setup_cmd="./setup.sh",
             hooks=dict(guard="ROOTSIM_VERIF",
                        enable="checks copy /repo/src to a scratch dir and compile every source with mpicc -DROOTSIM_VERIF (ASan+UBSan), see lib/vcommon.py build_impl",
                        baseline_off_cmd="cd /repo && cmake -G Ninja -B _build >/dev/null && cmake --build _build && ctest --test-dir _build -j8 --timeout 900",
                        source_commits=hook_commits, add_only=True),
             engines=[dict(name="coq+correspondence", path="check", serves_properties=sorted(CLAIMS),
                           kind_free_text="Coq 8.16 theorems over hand-written executable Gallina models (coq/), extracted to OCaml (ocaml/) and "
                                          "run against the real C sources rebuilt from /repo's working tree (harness/), orchestrated by ./check")],
             checks=checks, not_applicable=na,
             notes="See DESIGN.md. Every check: build scratch copy of /repo with hooks on -> build proofs (make, full .vo) -> Print Assumptions -> "
                   "correspondence implementation vs extracted model -> property oracle on the implementation -> evidence.")
    json.dump(m, open(os.path.join(V, "MANIFEST.json"), "w"), indent=1)

NA = {}
if __name__ == "__main__":
    main()
