#!/usr/bin/env python3
"""Writes MANIFEST.json from the table below (one place to keep claims, levels and notes current)."""
import json, os, subprocess
V = os.path.dirname(os.path.dirname(os.path.abspath(__file__)))

TB = ("Trusted: Coq 8.16.1 kernel (vm_compute, no native_compute); axioms exactly as Print Assumptions lists them in the evidence; "
      "hand-written Gallina model tied to /repo by the correspondence run of every check (C drivers in harness/, extracted OCaml "
      "driver with ExtrOcamlBasic only); ")

CLAIMS = {
 "C16": dict(cat="proof", ref="DESIGN.md §5 C16",
   text="Theorems (Properties_C16.v, axiom-free): the model of msg_is_before/msg_is_before_extended/q_elem_is_before is the lexicographic "
        "order of the message content, hence irreflexive, asymmetric, transitive, with transitive incomparability, and a function of "
        "(time, ANTI bit, type, size, first size payload bytes) only — for all messages, payload sizes and contents. Tie: the real comparators "
        "from src/lp/msg.h and src/datatypes/msg_queue.c are run against the extracted model on generated triples with ties on every key prefix; "
        "the strict-weak-order laws and content-onlyness are also evaluated directly on the C answers.",
   note=TB + "timestamps are not NaN; the sign-magnitude time key is checked monotone on the C side for every pair used.",
   tech="Coq proof (lexicographic-order refinement) + differential correspondence of the C comparator with the extracted model"),
 "C14": dict(cat="proof", ref="DESIGN.md §5 C14",
   text="Theorems (Properties_C14.v, axiom-free, for all lps/ranks/threads >= 1): the partition_start macro (both loops, on fuel) returns "
        "ceil(id*tot/cnt) and never exhausts its fuel; node and thread ranges are contiguous and cover all LPs; an LP is in the range of "
        "(rank, thread) iff routing (lid_to_nid, lid_to_rid) computes that pair — exactly one owner; no thread idle; fewer LPs than threads "
        "gives one LP per thread. Tie: real lp_global_init/lp_init (ranges-only hook) and the routing macros vs extracted model, exhaustive "
        "small box + random up to 2^40 LPs; ownership laws also evaluated on the C output.",
   note=TB + "products lps*ranks and node_lps*threads below 2^64 (model is unbounded N); rank with zero LPs is outside the property.",
   tech="Coq proof (division arithmetic, all sizes) + differential correspondence of lp.c/lp.h with the extracted model"),
 "C18": dict(cat="proof", ref="DESIGN.md §5 C18",
   text="Theorems (Properties_C18.v, axiom-free): for all 2^64 raw generator outputs the integer half of Random() performs only defined "
        "shifts and returns the bit pattern of a finite double in [0,1) (exponent field 959+floor(log2 u), exact mantissa), proved by arithmetic "
        "on log2, not enumeration; floor(x*n) computed in binary64 (exact product, round-to-nearest-even on 53 bits, floor — modelled on integers) "
        "is < n for every such x and n>=1, hence RandomRange in [min,max] and RandomRangeNonUniform in range; the generator step keeps a well-formed "
        "state. Tie: real Random/RandomU64/RandomRange/RandomRangeNonUniform/random_lib_lp_init vs the extracted model on crafted states (raw output "
        "0,1,2^k,2^k+-1,2^64-1, mantissa-truncation boundary) and random states, bit-exact incl. the four state words and a second LP's untouched state; "
        "UBSan/ASan on. Partial: Poisson/Expent/Gamma/Normal/Zipf depend on libm and are checked against their contracts on the implementation only.",
   note=TB + "non-negative doubles are ordered like their bit patterns; documented argument domain 0<=min<=max, max-min+1<=2^31-1; libm not modelled.",
   tech="Coq proof (integer-exact binary64 arithmetic, all 2^64 outputs) + bit-exact differential correspondence with crafted generator states"),
 "C19": dict(cat="proof", ref="DESIGN.md §5 C19",
   text="Theorems (Properties_C19.v, axiom-free, all geometries, all sizes with width*height < 2^32, all sources/directions/generator states): a receiver "
        "other than INVALID_DIRECTION is inside the topology and confirmed by IsNeighbor; CountDirections equals the number of fixed directions with a "
        "receiver (grids, rings) / regions-1 / 1 / number of links; DIRECTION_RANDOM finds a neighbour whenever one exists (the Fisher-Yates shuffle is "
        "proved a permutation, its draws in range by C18); purity holds by construction of the model. Tie: real topology library vs extracted model, "
        "exhaustive over the small box of sizes for every source and direction, crafted generator states, repeat queries and two concurrent threads; "
        "the four laws are also evaluated directly on the C answers.",
   note=TB + "graph geometry: the cumulative-probability pick among adjacent regions is an oracle (candidate set and draw count modelled); mesh redraw loop on fuel.",
   tech="Coq proof (32-bit grid arithmetic, permutation of the shuffle) + exhaustive small-size differential correspondence"),
 "C01": dict(cat="proof", ref="DESIGN.md §5 C01",
   text="Theorems (Properties_C01.v, axiom-free): for every valid program table of the interpreter application (proved strictly causal), every number "
        "of LPs and EVERY schedule of the micro-step abstract Time Warp machine (take/incremental rollback: mark one output, re-pool one input, annihilate, "
        "append, drop, begin-cancel), the invariants hold in every reachable state and, for every bound valid there, each LP's history below the bound equals "
        "its projection of the sequential execution (closed_sorted_family_unique by peeling); the order of the theory is proved to be the runtime's event order of C16. "
        "Tie to the C runtime: differential — generated programs (ties, zero delay, payload 0..100, library RNG, rs_malloc/realloc/free scripts over several arenas) x "
        "(threads 1..16 incl. > LPs, checkpoint interval, GVT period) — every returning run's per-LP hash-chain digest equals the extracted reference executor. "
        "At quiescence the abstract histories are proved equal to the log of the executable reference executor (C01_quiescent_histories_are_the_reference_log). "
        "process.c/fossil.c/the queue are tied op by op to an executable worker model (TW/Worker.v) whose state and history-structure invariants are proved for every script, and the "
        "REFINEMENT worker model -> abstract machine is mechanised (TW/WorkerAbs.v, C01_worker_refines_the_abstract_machine): for every valid program with types below the reserved ones, every checkpoint "
        "interval and EVERY script of deliveries, late hand-backs, cancellations, GVT announcements and the lazy fossil collections they trigger, the worker state is related to a reachable abstract state "
        "(same grouped histories, the groups released by fossil collection kept as ghosts below the GVT; pool = pending non-notice messages, cancelled identities = flag words 1/3), so what an LP has "
        "processed (released prefix ++ retained history) is the sequential execution below every bound under which nothing is pending, and at "
        "quiescence exactly its sequential dispatch sequence (C01_worker_at_quiescence_has_processed_the_sequential_sequence) and every LP's state is the sequential one (C01_worker_at_quiescence_lp_states_are_sequential).",
   note=TB + "SC atomics at model level; the refinement is proved for every script (GVT announcements and fossil collections included) of ONE worker thread hosting all LPs (arbitrary delivery orders): for the multi-thread code it rests on the abstract theorem (all schedules) plus differential runs.",
   tech="Coq proof (invariants over all schedules of an abstract Time Warp machine + uniqueness of closed sorted histories) + differential runs against the extracted sequential executor"),
 "C03": dict(cat="proof", ref="DESIGN.md §5 C03",
   text="Theorems (Properties_C03.v, axiom-free): in every reachable state of the abstract machine and for every GVT value valid there, the part of an LP's history "
        "below it is a prefix of the history and equals the LP's sequential dispatch sequence below it; commit bounds are monotone (what was released stays a prefix). "
        "At process.c / fossil.c level (C03_worker_committed_is_sequential, worker model, every script incl. GVT announcements and fossil collections): what fossil collection has released followed by the "
        "retained entries below any g <= GVT is exactly the LP's sequential dispatch sequence below g. "
        "Tie: the fossil-collection hook emits every released entry before it is freed, the shutdown hook the remaining history; per LP the committed sequence "
        "(time, type, size, payload digest) is compared with the extracted reference executor run to exhaustion, for runs ended by predicate, termination time and RootsimStop; "
        "LP-level scripts (messages held in flight while LPs run ahead, GVT rounds that do not advance, programs with silent handlers, checkpoint interval 1) with the op-by-op worker-model correspondence.",
   note=TB + "as C01; committed = released by fossil collection, or held at shutdown below the last GVT delivered to the owning thread.",
   tech="Coq proof (corollary of the C01 capstone + timestamp-sorted prefix lemma) + trace comparison of committed sequences with the extracted executor"),
 "C07": dict(cat="proof", ref="DESIGN.md §5 C07",
   text="Theorems (Properties_C07.v, axiom-free): model of termination.c for any number of LPs of a thread with a ghost history; for every sequence of forward executions, "
        "rollbacks and GVT notifications the accounting invariant holds and a thread votes at GVT g only if g reached the termination time or every LP's predicate is recorded "
        "true at init or on an event still in its history with timestamp < g. At process.c level (C07_worker_termination_invariant, C07_worker_vote_sound; TW/WorkerTerm.v + WorkerTermProofs.v): the hooks "
        "process.c calls (termination_on_lp_rollback with the straggler's / cancelled message's time, termination_on_msg_process after a forward execution, termination_on_gvt) are computed from the worker "
        "model and proved legal operations of the termination model for EVERY script, so the invariant holds along every execution of the worker and the model's ghost history ends with the timestamps "
        "of the entries the LP retains. Tie: real termination.c (hook exposes its thread-local counters) vs extracted model on generated "
        "histories dwelling on timestamp 0; vote soundness re-evaluated independently on the implementation's answers; end-to-end runs: at return every LP has committed >= target events "
        "unless the GVT reached the termination time or the model ran out of events; LP-level scripted runs (low targets, late deliveries, cancellations): lps_to_end, max_t and every "
        "termination_t compared with the model after every script line, and a recorded termination time must belong to a state that still exists.",
   note=TB + "g is a safe bound by C04; runs stopped by RootsimStop are outside the property.",
   tech="Coq proof (invariant by induction over operation histories) + differential correspondence of termination.c + end-to-end committed-count oracle"),
 "C08": dict(cat="proof", ref="DESIGN.md §5 C08",
   text="PARTIAL. Theorems (Properties_C08.v, axiom-free): the c_a/c_b GVT phase protocol has no deadlock in any reachable state while all threads keep stepping, a pass is bounded by 4n steps; "
        "barrier exits are enabled once all entered. REFUTED for the composition in the code: F12 (witness state reachable in the model; only the absent thread can move) — recorded known finding, "
        "reproduced by the runs. Decision on the real runtime: every generated run (predicate / termination time / RootsimStop from a handler; 1..16 threads; GVT periods down to 0) must return "
        "within the watchdog with one LP_FINI per LP, including 2- and 3-rank runs with preemptions injected at the shutdown barrier and in the main loop (found and fixed F16); a non-returning run is "
        "classified by the hook stage markers of the workers of all ranks and reported unless it matches a known finding (the F12 signature is exact: no worker past the drain barrier). "
        "Also: busy 2-rank programs stopped in mid-run under long simulated network delays (messages and anti-messages in flight at shutdown), and never-ending models (independent LPs that keep one "
        "event alive after their predicate holds, more requested threads than LPs) which can only end through the termination detection.",
   note=TB + "liveness of the whole shutdown path is not proved; OS starvation and MPI progress cannot be exhibited by the model.",
   tech="Coq proof of deadlock-freedom/bounded passes on protocol models + refutation witness + watchdog-classified runs"),
 "C09": dict(cat="proof", ref="DESIGN.md §5 C09",
   text="Theorems (Properties_C09.v, axiom-free): the seeded generator state is well formed for every (lp, seed) and stays so under draws (so by C18 every draw of every run is defined); "
        "the committed outcome theorem of C01 mentions no configuration. Tie: random_lib_lp_init compared bit-exactly with the model for sampled (lp, seed); metamorphic matrix "
        "(threads x checkpoint interval x GVT period x repetition) on programs drawing RandomU64/Random/RandomRange: all final digests equal each other and the reference; programs drawing "
        "Expent/Normal/Gamma/Zipf/RandomRangeNonUniform (libm: no Gallina twin) under the same matrix plus a 2-rank run: all final digests equal the serial runtime's.",
   note=TB + "configuration independence inherits C01's level.",
   tech="Coq proof (seeding well-formedness; C01 corollary) + bit-exact seeding correspondence + metamorphic runs"),
 "C10": dict(cat="proof", ref="DESIGN.md §5 C10",
   text="Theorems (Properties_C10.v, axiom-free): the reference executor run to exhaustion is a sequential execution in the sense of the abstract theory (C10_reference_run_is_a_sequential_execution); it dispatches at every step an event minimal in the runtime order among all pending ones, removes exactly it, adds exactly "
        "its outputs, changes only the destination LP, keeps the pending list sorted for the whole run; the heap algorithms of heap.h keep the heap property and a minimal root for any strict weak order "
        "and size. Tie: serial.c dispatch logs vs the extracted executor per LP (ties, zero delay, events at init incl. time 0, payloads, termination time, LP true at init), order and "
        "LP_INIT/LP_FINI counts checked on the implementation; a quarter of the programs contain zero-delay relays whose content ties with the event in flight.",
   note=TB + "serial.c itself is tied by differential runs (no mechanised refinement of serial.c).",
   tech="Coq proof (sortedness/minimality invariants of the executor, heap invariants) + differential dispatch-log correspondence"),
 "C17": dict(cat="proof", ref="DESIGN.md §5 C17",
   text="Theorems (Properties_C17.v, axiom-free, n >= 1 threads, every schedule): invariant for every reachable state; a poll leaves use u only when all n threads entered use u; the leader flag "
        "is true exactly for the first (counting-up use) / last (counting-down use) thread to enter, hence one leader per use; enter always enabled; exit enabled once all entered; window hand-over "
        "K -> K+1 re-establishes the invariant (reusable indefinitely). Tie: real sync_thread_barrier under the cooperative scheduler (yield hooks before the fetch-add and in both spin loops), "
        "1..6 threads x up to 50 uses x uniform/long-stride schedules; each schedule is replayed action by action through the extracted model; epoch counters check no-early-exit on the implementation.",
   note=TB + "SC atomics; code between two scheduling points is atomic.",
   tech="Coq proof (inductive invariant over all interleavings, parametric in n) + exact schedule replay through the extracted model"),
 "C20": dict(cat="proof", ref="DESIGN.md §5 C20",
   text="Theorems (Properties_C20.v, axiom-free): decode (encode f) = f consuming exactly the encoding, for every well-formed file content (any number of nodes, threads, "
        "records, metrics; names <= 255 bytes; 64-bit little-endian words). Consistency decided on real files: runs with a statistics file under GVT periods 0/small/very large "
        "(zero, one, many rounds), 1..16 threads, with injected preemptions at the hook after gvt_phase_run (corpus scenario of finding F9): the .bin must decode with the extracted "
        "decoder with nothing left over and re-encode identically, be accepted by the shipped parser, have equal record counts for node and threads, non-decreasing GVTs, cumulative "
        "undone <= forward, and every per-thread record must equal the hook-trace counts (forward, rollbacks, undone, checkpoints, silent, anti-messages) of its interval; "
        "shutdown while everything pending sits at virtual time 0 (rounds of value exactly 0.0 completed partly in the main loop, partly in the shutdown code; costly self-rescheduling events): record counts must still agree; 2-rank files under simulated network delays: every node's per-thread records against the hook trace of that rank.",
   note=TB + "timing and memory metrics are checked for presence only; counter accounting is checked against traces, not proved.",
   tech="Coq proof (codec round-trip) + decoding of real output with the extracted decoder + per-interval counter comparison with hook traces"),
 "C12": dict(cat="proof", ref="DESIGN.md §5 C12",
   text="Theorems (Properties_C12.v, axiom-free, any block exponent and tree height): malloc on the buddy tree succeeds iff the root admits the class, keeps the tree well formed, "
        "allocates exactly one aligned in-bounds previously-free range of leaves and changes no other leaf; larger requests fail cleanly; free is the exact inverse of the malloc that "
        "produced the block (the previous tree comes back: space reusable, buddies coalesce); a write leaves every granule outside the block unchanged. Tie: real rs_malloc/rs_calloc/rs_realloc/"
        "rs_free/checkpoint/restore/fossil driven by generated sequences (sizes 0,1,63..65,...,65535..65537,huge, wrapping calloc products) — every answer (arena, offset, size bookkeeping), "
        "periodic digests of every longest[] array and block contents compared with the extracted model; shadow-allocator laws (in-bounds, aligned, disjoint, content, clean failures, zeroed calloc) "
        "evaluated on the implementation's own answers.",
   note=TB + "arena insertion position (malloc address order) is an input of the model; content observed per 64-byte granule; multi-arena layer and size arithmetic tied by correspondence, not proved.",
   tech="Coq proof (structural induction on the buddy tree; free = inverse of malloc) + differential correspondence of the real allocator with the extracted model + shadow-allocator oracle"),
 "C05": dict(cat="proof", ref="DESIGN.md §5 C05",
   text="Theorems (Properties_C05.v, axiom-free): on the executable worker model (process_msg, rollback = anti-messages + checkpoint selection + silent re-execution, periodic checkpoints, "
        "fossil collection with re-basing, the queue), for EVERY script of deliveries, late hand-backs, cancellations and GVT announcements, every program and checkpoint interval: each LP's memory "
        "is exactly the replay of the processed messages of its retained history from its oldest checkpoint, each checkpoint the replay up to its reference, the markers before a processed message "
        "are exactly the handler's outputs on the replayed state, checkpoint references and rollback targets are group boundaries. Arena level: restoring an arena from a checkpoint yields the checkpointed tree (same live blocks; later allocations gone) and the checkpointed content of "
        "every granule of every block allocated at the checkpoint, whatever happened to the arena since; a restore to index ref uses the newest checkpoint not after ref, returns its reference, "
        "drops every later checkpoint. Tie: allocator driver with checkpoints at arbitrary indices and restores at/between/just after checkpoints incl. arenas created after the checkpoint; "
        "LP level: multi-thread runs (intervals 1..7/auto) and the LP-level driver (the harness plays the network: holds messages, returns them late — thousands of rollbacks to indices between "
        "checkpoints, silent re-executions) must end with the reference hash-chain digests (state, live buffers, RNG stream); programs drawing through the library distributions (libm, no Gallina twin): scripted LP-level run with "
        "rollbacks against the in-order run of the same program; in half of the multi-thread runs some LPs never call SetState() (their state lives in rollbackable memory all the same).",
   note=TB + "the worker model abstracts an LP's memory to the interpreter state (a checkpoint = a copy): that real checkpoints are exact copies is the arena theorem + allocator correspondence; "
        "the worker model is tied to process.c/fossil.c by digests after every script line (fixed checkpoint intervals); remote markers (2 ranks) are covered by runs only.",
   tech="Coq proof (invariant of an executable model of process.c over all scripts; checkpoint/restore exactness on the arena model) + op-by-op correspondence of process.c/fossil.c with the extracted worker model + differential allocator correspondence + rollback storms against the reference executor"),
 "C13": dict(cat="proof", ref="DESIGN.md §5 C13",
   text="Theorems (Properties_C13.v, axiom-free): on the executable worker model (tied op by op to process.c/fossil.c), for every program, checkpoint interval and script: nothing queued or held "
        "lies below the announced GVT, histories are in timestamp order, and every processed message released by a fossil collection has a timestamp below the GVT — so no message that can still "
        "arrive reaches into what was released; the model's error flag (out-of-bounds indexing in the C code: a rollback or a collection that finds no checkpoint at or below its target, a cancellation notice that does not find its message) is PROVED never to be raised for every program with types below the reserved ones (C13_every_rollback_finds_a_kept_checkpoint), so these invariants hold in every reachable state. Allocator level: fossil collection keeps the newest checkpoint not after the target and every later one, re-bases their references so the kept log starts at 0, "
        "changes neither arenas nor size bookkeeping, and afterwards a restore to any index finds a checkpoint. Tie: allocator driver calling the real model_allocator_fossil_lp_collect/_checkpoint_restore "
        "with swept distances; LP-level driver and multi-thread runs with GVT periods down to 0: every entry released by a collection must lie strictly below the GVT it was given, and runs with "
        "rollbacks after fossil collections must still produce the reference digests.",
   note=TB + "the GVT of the worker model is the minimum of everything pending, as drv_lp announces it (the multi-thread GVT protocol is C04's).",
   tech="Coq proof (invariants of an executable model of process.c/fossil.c over all scripts: pending >= GVT, timestamp-ordered histories, released < GVT; log re-basing invariants) + op-by-op correspondence with the extracted worker model + allocator correspondence + trace oracle + rollback-after-fossil runs"),
 "C15": dict(cat="proof", ref="DESIGN.md §5 C15",
   text="Theorems (Properties_C15.v, axiom-free): heap_insert/heap_extract (list model of the heap.h macros) preserve the multiset of elements for any comparator, even one that changes "
        "between calls; for every sequence of producer pushes, flag flips, extractions and peeks everything pushed = what is still queued + what was extracted (no loss, no duplication); "
        "an extraction/peek empties the shared list into the heap first; for a strict weak order the heap loops keep the heap property and a minimal root; under ANY comparator compatible with the "
        "timestamp, even one that changes between calls (the real one reads ANTI bits that flip on queued messages), the array stays a heap for the timestamp and the root carries a smallest one. Tie: real msg_queue_insert/"
        "extract/time_peek with 1..4 producer threads and a consumer under the cooperative scheduler (points before the head load, every CAS attempt, the exchange, and a sender's ANTI "
        "flip); each schedule is replayed through the extracted model: every CAS outcome, extracted message and peeked time must agree (thousands of CAS retries and ties).",
   note=TB + "SC atomics; hook-granularity atomicity; minimality of the full content order under a comparator that changes while elements are queued is replayed; its timestamp component is proved.",
   tech="Coq proof (multiset preservation for arbitrary comparators, queue accounting invariant, heap invariants) + exact schedule replay through the extracted model"),
 "C02": dict(cat="proof", ref="DESIGN.md §5 C02",
   text="Theorems (Properties_C02.v, axiom-free): the capstone of C01 is rank-free — the abstract machine's pool holds every existing message wherever it is (buffer, queue, MPI flight) and "
        "its steps may be scheduled in any order, so delivery delay, inter-sender reordering and anti-messages overtaking their message are schedules of it; remote (id word, sequence word) keys "
        "are injective, so an anti-message matches only its own message. Tie: real multi-process runs (mpiexec, 2..3 ranks x 1..16 threads, GVT periods down to 0) of generated programs: "
        "per-LP final digests against the extracted reference executor, one finalisation per LP; busy programs additionally under a simulated network (MPI profiling shim: uneven finite delivery "
        "delays, FIFO per sender thread and destination) so that events and anti-messages stay in flight across GVT rounds.",
   note=TB + "MPI modelled, not verified (exactly-once delivery, collectives, progress); node-level GVT reduction not modelled separately; layouts with a rank without LPs excluded (finding F15).",
   tech="Coq proof (rank-free abstract Time Warp machine + injectivity of remote ids) + multi-rank differential runs against the extracted sequential executor"),
 "C04": dict(cat="proof", ref="DESIGN.md §5 C04",
   text="Theorems (Properties_C04.v, axiom-free, n threads, every schedule): window invariant of the c_a/c_b protocol; a thread publishes only when all have joined, restarts only when nobody "
        "has published, enters B only when nobody is in C/D; the executable replay step is sound and keeps the invariant; data invariant Phi preserved by extraction, insertion, end of event, "
        "reset, rejoin, publish, end of pass; when all have published the minimum published value bounds every queued message and every event in progress. Tie: (a) the phase transitions traced "
        "from gvt_thread_phase_run in cooperatively scheduled runs are replayed, in their exact order, through the extracted step function; (b) monitors on free-running and scheduled runs: values "
        "per thread never decrease, the k-th value is the same for all threads, nobody extracts below a value it has been told, and the traced accumulator never exceeds a timestamp extracted since its reset. "
        "NODE LEVEL (TW/GvtNode.v): for any number of ranks and every interleaving of event processing, local and remote sends, deliveries with arbitrary delay and reordering, and protocol steps "
        "(start, colour flip, contribution of the old colour's send counts to the reduce-scatter, its completion, end of the wait for old-colour messages, publication, min reduction), the result of the min "
        "reduction is a lower bound of every queued message, every event in progress and every message IN FLIGHT on every rank (C04_node_gvt_is_below_everything_queued_in_progress_and_in_flight), and a rank "
        "leaves the wait only when no old-colour message addressed to it is in flight. Tie (c): 2..3 ranks x 1 thread under the simulated network: the colour of every remote (anti-)message sent and received, "
        "every contribution vector, every reduce-scatter result and every end of wait, traced by guarded hooks in gvt.c / gvt.h, are replayed through the extracted step function (sound for the relation): "
        "each must be enabled and carry the model's numbers.",
   note=TB + "node-level replay uses synthetic timestamps (the counting and colour protocol is what is replayed; values are covered by the monitors); one worker thread per rank in the node-level replay; SC atomics; MPI collectives modelled as all-contributed => result.",
   tech="Coq proof (inductive invariants of the thread counter protocol, of the thread data argument and of the node-level two-colour reduction over all interleavings) + exact replay of traced thread phase transitions and node-level reduction steps + trace monitors"),
 "C06": dict(cat="proof", ref="DESIGN.md §5 C06",
   text="Theorems (Properties_C06.v, axiom-free): flag-handshake transition system (sender cancel + deferred insertion; receiver extraction dispatching on the previous word, rollback with "
        "conditional re-insertion; releases) — for every interleaving the word determines where the message is, only 0,1,2,3,5 are observed, no step is enabled on a released buffer (no double free, "
        "no use after free), a release leaves the message nowhere, a never-cancelled message is released only as a committed entry; abstract exactly-once placement for all messages of all LPs "
        "(C01 invariants); remote anti-messages match only their own message. On the executable worker model tied op by op to process.c (TW/Worker.v), for every program with types below the reserved ones, every checkpoint interval and EVERY script (C06_worker_exactly_once): no identity is pending, processed or marked twice, the flag word says where the message is (pending 0/1 and not processed | pending as the cancellation notice of a processed message, word 3, which is then really in its destination's history | processed, word 2), retained markers point to never-cancelled messages, every message is in the history of the LP it is addressed to, and the notice of a cancelled processed message always finds it (the error flag is never raised). Tie: every fetch-add result on every local message of cooperatively scheduled runs is replayed through the extracted "
        "model and every release checked against it; op-by-op worker-model correspondence on LP-level scripts (the theorem's hypothesis types_okb is evaluated by the extracted model on every generated program); free-running, LP-level (rollback storms) and 2..3-rank runs: release-twice oracle and final digests against the reference.",
   note=TB + "SC atomics; hook-granularity atomicity; MPI modelled.",
   tech="Coq proof (invariant of the flag handshake over all interleavings) + exact replay of traced fetch-add results + multi-rank differential runs"),
 "C11": dict(cat="proof", ref="DESIGN.md §5 C11",
   text="PARTIAL by nature. Theorems (Properties_C11.v, axiom-free): safety side conditions of the modelled operations — every shift of Random() defined for all 2^64 raw outputs (pre-fix code refuted "
        "at 1), no handshake step on a released buffer, malloc results in bounds and aligned, a restore after fossil collection always finds a checkpoint, partition loops bounded, and the index loops of process.c / fossil.c (match_anti_msg, checkpoint restore, fossil collection, LP array) stay in bounds for every program, checkpoint interval and script (the worker model's error flag is proved never raised). Everything outside "
        "the models is decided by running every driver (numerical library on crafted states, allocator sequences, serial / parallel / multi-rank / LP-level / cooperatively scheduled simulations with "
        "payloads > 32 bytes pending at shutdown, RootsimStop, statistics files) under ASan + UBSan.",
   note=TB + "sanitizers observe the executions run, not all executions; no race detection; code outside the models (stdio, MPI, arch/*) only through those runs.",
   tech="Coq proof of modelled side conditions + sanitizer (ASan/UBSan) runs of all correspondence drivers"),
}

PENDING_REASON = "check not built yet in this session (work in progress, see DESIGN.md §8 order of work); not claimed until its theorem and correspondence run"

def main():
    props = [json.loads(l)["id"] for l in open(os.path.join(V, "properties.jsonl"))]
    hooks = subprocess.run(["git", "-C", "/repo", "log", "--format=%H %s"], capture_output=True, text=True).stdout.splitlines()
    hook_commits = [l.split()[0] for l in hooks if "verif hook" in l]
    checks = []
    for pid in props:
        if pid not in CLAIMS:
            continue
        c = CLAIMS[pid]
        checks.append(dict(property_id=pid, quick_cmd="./check %s --tier quick" % pid,
                           thorough_cmd="./check %s --tier thorough" % pid,
                           evidence_file="evidence/%s.json" % pid,
                           replay_cmd_template="./check %s --replay {path}" % pid,
                           engine="coq+correspondence",
                           level_claimed=dict(category=c["cat"], text=c["text"], design_ref=c["ref"]),
                           level_note=c["note"], technique=c["tech"]))
    na = [dict(property_id=p, reason=NA.get(p, PENDING_REASON)) for p in props if p not in CLAIMS]
    m = dict(version=1, setup_cmd="./setup.sh",
             hooks=dict(guard="ROOTSIM_VERIF",
                        enable="checks copy /repo/src to a scratch dir and compile every source with mpicc -DROOTSIM_VERIF (ASan+UBSan), see lib/vcommon.py build_impl",
                        baseline_off_cmd="cd /repo && cmake -G Ninja -B _build >/dev/null && cmake --build _build && ctest --test-dir _build -j8 --timeout 900",
                        source_commits=hook_commits, add_only=True),
             engines=[dict(name="coq+correspondence", path="check", serves_properties=sorted(CLAIMS),
                           kind_free_text="Coq 8.16 theorems over hand-written executable Gallina models (coq/), extracted to OCaml (ocaml/) and "
                                          "run against the real C sources rebuilt from /repo's working tree (harness/), orchestrated by ./check")],
             checks=checks, not_applicable=na,
             notes="See DESIGN.md. Every check: build scratch copy of /repo with hooks on -> build proofs (make, full .vo) -> Print Assumptions -> "
                   "correspondence implementation vs extracted model -> property oracle on the implementation -> evidence.")
    json.dump(m, open(os.path.join(V, "MANIFEST.json"), "w"), indent=1)

NA = {}
if __name__ == "__main__":
    main()
