(* C01 — parallel results equal the sequential execution.
   Proved here, for every valid program table of the interpreter application (every output strictly after its
   cause in the event order, destinations inside the model), every number of LPs, and EVERY schedule of the
   micro-step abstract Time Warp machine (take a message and roll back incrementally: mark one output cancelled,
   re-pool one undone input, annihilate, append a forward execution, drop a cancelled message, begin a
   cancellation): in every reachable state and for every bound that is valid there (nothing pending, in hand,
   being undone or pending cancellation lies below it — what C04 provides), each LP's history below the bound is
   exactly that LP's projection of the sequential execution.  Thread count, checkpoint interval, GVT period and
   interleaving do not occur in the statement: they are absent from the sequential side.
   The step-by-step refinement  process.c -> abstract machine  IS mechanised for the executable worker model (TW/Worker.v,
   tied op by op to process.c by the correspondence run): for every valid program with types below the reserved ones, every
   checkpoint interval and EVERY script of deliveries, late hand-backs, cancellations, GVT announcements and the (lazy) fossil
   collections they trigger, the worker's state is related to a reachable state of the abstract machine (TW/WorkerAbs.v; the groups
   fossil collection releases stay on the abstract side as ghosts, all below the GVT and never cancelled); hence what an LP has
   processed -- released prefix followed by retained history -- is, below any bound under which nothing is pending, the sequential
   execution, and at quiescence exactly its sequential dispatch sequence in that order (theorems C01_worker_...).  Not mechanised:
   the same refinement for several worker threads (thread interleavings are covered by the abstract schedules, the multi-thread
   code by the correspondence runs). *)
From Coq Require Import NArith List.
From RS Require Import TW.App TW.Seq TW.AppAbs TW.SeqRefines.
From RS.Abs Require Import Peel Abs Bridge AbsM AbsM2 BridgeM ReachM.
From RS Require TW.Worker TW.WorkerSafety TW.WorkerOnceApp TW.WorkerAbs.

Theorem C01_below_valid_bound_histories_are_sequential : forall (p : prog), prog_valid p = true ->
  forall (below : cont -> bool),
  (forall a b, ~ Abs.tlt cont tltb b a -> below b = true -> below a = true) ->
  forall a, ReachM.reach cont cltb tltb lpstate (nlps p) (s0 p) (ahandle p) (ainit p) (length (init_events p (nlps p) 0)) a ->
  BridgeM.gvt_ok cont below a ->
  forall tr, Peel.seqrun cont (Abs.clt cont cltb) lpstate (Bridge.handle_g cont lpstate (ahandle p) below) (s0 p)
               (Bridge.Pg cont (ainit p) below) tr ->
  forall l, (l < nlps p)%nat -> Peel.proj cont l tr = BridgeM.Hg cont below a l.
Proof. exact app_time_warp_is_sequential. Qed.

(* The loop closed at quiescence: in ANY reachable Time Warp state with nothing pending, in flight, being undone or doomed,
   every LP's history is exactly the projection on that LP of the dispatch log of the executable reference executor
   (TW/Seq.v, the object the correspondence runs compare the C runtime with), run to exhaustion. *)
Theorem C01_quiescent_histories_are_the_reference_log : forall (p : prog), prog_valid p = true ->
  forall a, ReachM.reach cont cltb tltb lpstate (nlps p) (s0 p) (ahandle p) (ainit p) (length (init_events p (nlps p) 0)) a ->
  BridgeM.gvt_ok cont (fun _ => true) a ->
  forall fuel b s', seq_run fuel p None false (seq_init p b) = (s', true) ->
  forall l, (l < nlps p)%nat ->
  Peel.proj cont l (map SeqRefines.pay (rev (q_log s'))) = map (Abs.con cont) (AbsM.hist cont a l).
Proof. exact time_warp_at_quiescence_is_reference_log. Qed.

(* the order used by the abstract theory is the runtime's event order of C16 *)
Theorem C01_order_is_runtime_order : forall (l1 l2 : N) (a b : cont),
  cltb a b = ev_before (mkEv l1 (c_t a) (c_type a) (c_pl a)) (mkEv l2 (c_t b) (c_type b) (c_pl b)).
Proof. exact cltb_is_event_order. Qed.

(* every output of a handler of a valid program is strictly after its cause and addressed to an existing LP *)
Theorem C01_valid_programs_are_strictly_causal : forall p, prog_valid p = true ->
  forall l s c o, In o (snd (ahandle p l s c)) -> Abs.clt cont cltb c (snd o) /\ (fst o < nlps p)%nat.
Proof. exact avalid. Qed.

(* invariants of the abstract machine hold in every reachable state (exactly-once placement of messages,
   recorded outputs = handler outputs, histories timestamp-sorted and content-sorted up to pending cancellations) *)
Theorem C01_invariants_reachable : forall p, prog_valid p = true ->
  forall a, ReachM.reach cont cltb tltb lpstate (nlps p) (s0 p) (ahandle p) (ainit p) (length (init_events p (nlps p) 0)) a ->
  AbsM.Inv cont (nlps p) (ainit p) a /\ AbsM.InvK cont (nlps p) a /\
  AbsM2.Inv2 cont cltb tltb lpstate (nlps p) (s0 p) (ahandle p) a.
Proof.
  intros p Hv a R.
  exact (ReachM.reach_inv cont cltb clt_trans clt_total tltb tlt_clt tlt_negtrans lpstate (nlps p) (s0 p) (ahandle p)
           (ainit p) (ainit_nodup p) (length (init_events p (nlps p) 0)) (ainit_bound p) a R).
Qed.

(* process.c level: the worker model refines the abstract machine, for every script (GVT announcements and the fossil
   collections they trigger included) *)
Theorem C01_worker_refines_the_abstract_machine : forall (p : prog) (ck : nat), WorkerOnceApp.types_okb p = true ->
  forall ops : list Worker.wop,
  exists a, WorkerAbs.R p (fold_left (Worker.wstep p ck) ops (Worker.w_init p)) a.
Proof. exact WorkerAbs.worker_refines_abstract. Qed.

(* what an LP has processed = what fossil collection released (all below the GVT) followed by what it retains; below any
   bound under which nothing is pending that sequence is the LP's projection of the sequential execution *)
Theorem C01_worker_histories_below_a_valid_bound_are_sequential : forall (p : prog) (ck : nat), prog_valid p = true -> WorkerOnceApp.types_okb p = true ->
  forall (ops : list Worker.wop) (below : cont -> bool),
  (forall c1 c2, ~ Abs.tlt cont tltb c2 c1 -> below c2 = true -> below c1 = true) ->
  let w := fold_left (Worker.wstep p ck) ops (Worker.w_init p) in
  (forall y, In y (WorkerSafety.pend w) -> below (WorkerAbs.evc y) = false) ->
  forall tr, Peel.seqrun cont (Abs.clt cont cltb) lpstate (Bridge.handle_g cont lpstate (ahandle p) below) (s0 p) (Bridge.Pg cont (WorkerAbs.init0 p) below) tr ->
  forall l, (l < nlps p)%nat -> exists released, (forall y, In y released -> BinInt.Z.lt (BinInt.Z.of_N (WorkerSafety.tm y)) (Worker.k_gvt w)) /\
    Peel.proj cont l tr = map WorkerAbs.evc (filter (fun y => below (WorkerAbs.evc y)) (released ++ WorkerAbs.retained w l)).
Proof. exact WorkerAbs.worker_below_bound_is_sequential. Qed.

(* while the GVT is 0 nothing has been released *)
Theorem C01_worker_histories_before_any_gvt : forall (p : prog) (ck : nat), prog_valid p = true -> WorkerOnceApp.types_okb p = true ->
  forall (ops : list Worker.wop) (below : cont -> bool),
  (forall c1 c2, ~ Abs.tlt cont tltb c2 c1 -> below c2 = true -> below c1 = true) ->
  let w := fold_left (Worker.wstep p ck) ops (Worker.w_init p) in
  BinInt.Z.le (Worker.k_gvt w) BinNums.Z0 -> (forall y, In y (WorkerSafety.pend w) -> below (WorkerAbs.evc y) = false) ->
  forall tr, Peel.seqrun cont (Abs.clt cont cltb) lpstate (Bridge.handle_g cont lpstate (ahandle p) below) (s0 p) (Bridge.Pg cont (WorkerAbs.init0 p) below) tr ->
  forall l, (l < nlps p)%nat -> Peel.proj cont l tr = map WorkerAbs.evc (filter (fun y => below (WorkerAbs.evc y)) (WorkerAbs.retained w l)).
Proof. exact WorkerAbs.worker_below_bound_gvt0. Qed.

Theorem C01_worker_at_quiescence_has_processed_the_sequential_sequence : forall (p : prog) (ck : nat), prog_valid p = true -> WorkerOnceApp.types_okb p = true ->
  forall ops : list Worker.wop,
  let w := fold_left (Worker.wstep p ck) ops (Worker.w_init p) in
  WorkerSafety.pend w = nil ->
  forall tr, Peel.seqrun cont (Abs.clt cont cltb) lpstate (Bridge.handle_g cont lpstate (ahandle p) (fun _ => true)) (s0 p) (Bridge.Pg cont (WorkerAbs.init0 p) (fun _ => true)) tr ->
  forall l, (l < nlps p)%nat -> exists released, (forall y, In y released -> BinInt.Z.lt (BinInt.Z.of_N (WorkerSafety.tm y)) (Worker.k_gvt w)) /\
    Peel.proj cont l tr = map WorkerAbs.evc (released ++ WorkerAbs.retained w l).
Proof. exact WorkerAbs.worker_quiescent_is_sequential. Qed.

(* ... and every LP's STATE is then the one the sequential execution leaves it in *)
Theorem C01_worker_at_quiescence_lp_states_are_sequential : forall (p : prog) (ck : nat), prog_valid p = true -> WorkerOnceApp.types_okb p = true ->
  forall ops : list Worker.wop,
  let w := fold_left (Worker.wstep p ck) ops (Worker.w_init p) in
  WorkerSafety.pend w = nil ->
  forall tr, Peel.seqrun cont (Abs.clt cont cltb) lpstate (Bridge.handle_g cont lpstate (ahandle p) (fun _ => true)) (s0 p) (Bridge.Pg cont (WorkerAbs.init0 p) (fun _ => true)) tr ->
  forall l, (l < nlps p)%nat ->
    Worker.x_st (Worker.get_lp w l) = fold_left (fun s c => fst (ahandle p l s c)) (Peel.proj cont l tr) (s0 p l).
Proof. exact WorkerAbs.worker_quiescent_state_is_sequential. Qed.

Print Assumptions C01_worker_refines_the_abstract_machine.
Print Assumptions C01_worker_at_quiescence_lp_states_are_sequential.
Print Assumptions C01_worker_histories_below_a_valid_bound_are_sequential.
Print Assumptions C01_worker_histories_before_any_gvt.
Print Assumptions C01_worker_at_quiescence_has_processed_the_sequential_sequence.
Print Assumptions C01_below_valid_bound_histories_are_sequential.
Print Assumptions C01_quiescent_histories_are_the_reference_log.
Print Assumptions C01_order_is_runtime_order.
Print Assumptions C01_valid_programs_are_strictly_causal.
Print Assumptions C01_invariants_reachable.
