(* C20 — statistics output is well-formed and consistent with what happened.
   Format: the encoder follows stats_file_final_write / stats_files_receive, the decoder follows the documented layout
   (the one rootsim_stats.py reads); decode (encode f) = f for every well-formed file content — any number of nodes,
   threads, records and metrics, names up to 255 bytes — consuming exactly the encoding (no trailing garbage).
   The consistency half (equal record counts, non-decreasing GVT, per-thread counters = what happened) is decided on the
   files produced by real runs: decoded by the extracted decoder and compared with the hook trace of the same run. *)
From Coq Require Import NArith List.
From RS Require Import Stats.StatsFormat Stats.StatsProofs.
Import ListNotations.

Theorem C20_decode_encode : forall f rest, wf_file f -> decode (encode f ++ rest) = Some (f, rest).
Proof. exact decode_encode. Qed.

Theorem C20_decode_encode_whole : forall f, wf_file f -> decode (encode f) = Some (f, []).
Proof. exact decode_encode_whole. Qed.

Theorem C20_u64_roundtrip : forall x r, (x < W)%N -> p_u64 (le64 x ++ r) = Some (x, r).
Proof. exact p_u64_le64. Qed.

Print Assumptions C20_decode_encode.
Print Assumptions C20_decode_encode_whole.
Print Assumptions C20_u64_roundtrip.
