(* C14 — every LP has exactly one owner, and routing agrees with ownership. *)
From Coq Require Import NArith Bool.
From RS Require Import Part.PartitionDefs Part.PartitionProofs.
Local Open Scope N_scope.

(* the C macro (both loops, three iterations of fuel each) computes the least index routed
   to partition id or beyond: ceil(id*tot/cnt), and never runs out of fuel *)
Theorem C14_partition_start_spec : forall cnt tot, 0 < cnt -> 0 < tot -> forall start id,
  partition_start id cnt start tot = Some (start + first cnt tot id).
Proof. exact partition_start_spec. Qed.

Theorem C14_ranges_contiguous_cover : forall cnt tot, 0 < cnt -> 0 < tot ->
  first cnt tot 0 = 0 /\ first cnt tot cnt = tot /\ forall r, first cnt tot r <= first cnt tot (r + 1).
Proof.
  intros cnt tot Hc Ht. split; [exact (first_0 cnt tot Hc Ht)|].
  split; [exact (first_cnt cnt tot Hc Ht) | exact (first_mono cnt tot Hc Ht)].
Qed.

Theorem C14_routing_agrees : forall cnt tot, 0 < cnt -> 0 < tot -> forall l r,
  (first cnt tot r <= l < first cnt tot (r + 1)) <-> l * cnt / tot = r.
Proof. exact routing_agrees. Qed.

Theorem C14_owner_unique : forall lps nodes threads, 0 < lps -> 0 < nodes -> 0 < threads ->
  forall l, l < lps ->
  exists nd rd,
    owner lps nodes threads l = Some (nd, rd) /\ nd < nodes /\ rd < nthreads lps nodes threads nd /\
    forall nd' rd', nd' < nodes -> 0 < nlps lps nodes nd' -> rd' < nthreads lps nodes threads nd' ->
      ((exists a b, thread_init (nfirst lps nodes nd') (nlps lps nodes nd') (nthreads lps nodes threads nd') rd'
                    = Some (a, b) /\ a <= l < b)
       <-> (nd' = nd /\ rd' = rd)).
Proof. exact owner_unique. Qed.

Theorem C14_node_init_spec : forall lps nodes threads, 0 < lps -> 0 < nodes -> 0 < threads -> forall nd,
  node_init lps nodes threads nd =
  Some (nfirst lps nodes nd, nlps lps nodes nd, nthreads lps nodes threads nd).
Proof. exact node_init_spec. Qed.

Theorem C14_thread_cover : forall lps nodes threads, 0 < lps -> 0 < nodes -> 0 < threads -> forall nd,
  0 < nlps lps nodes nd ->
  first (nthreads lps nodes threads nd) (nlps lps nodes nd) 0 = 0 /\
  first (nthreads lps nodes threads nd) (nlps lps nodes nd) (nthreads lps nodes threads nd) = nlps lps nodes nd.
Proof. exact thread_cover. Qed.

Theorem C14_no_idle_thread : forall lps nodes threads, 0 < lps -> 0 < nodes -> 0 < threads -> forall nd rd,
  0 < nlps lps nodes nd -> rd < nthreads lps nodes threads nd ->
  first (nthreads lps nodes threads nd) (nlps lps nodes nd) rd <
  first (nthreads lps nodes threads nd) (nlps lps nodes nd) (rd + 1).
Proof. exact no_idle_thread. Qed.

Theorem C14_fewer_lps_than_threads : forall lps nodes threads, 0 < lps -> 0 < nodes -> 0 < threads ->
  forall nd rd, 0 < nlps lps nodes nd -> nlps lps nodes nd < threads ->
  nthreads lps nodes threads nd = nlps lps nodes nd /\
  first (nthreads lps nodes threads nd) (nlps lps nodes nd) rd = rd.
Proof. exact clamp_one_each. Qed.

Print Assumptions C14_partition_start_spec.
Print Assumptions C14_ranges_contiguous_cover.
Print Assumptions C14_routing_agrees.
Print Assumptions C14_owner_unique.
Print Assumptions C14_node_init_spec.
Print Assumptions C14_thread_cover.
Print Assumptions C14_no_idle_thread.
Print Assumptions C14_fewer_lps_than_threads.
