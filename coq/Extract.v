(* Extraction of the executable models to OCaml: ExtrOcamlBasic only (bool, option, unit, list, prod,
   sumbool, sumor mapped to OCaml's own; every number stays the extracted inductive type). *)
From Coq Require Import Extraction ExtrOcamlBasic NArith ZArith.
From RS Require Import Order.MsgOrderDefs Part.PartitionDefs Rng.RngDefs Topo.TopoDefs TW.App TW.Seq TW.Term Sync.BarrierProto Sync.BarrierMore Stats.StatsFormat Buddy.Alloc Heap.HeapList TW.GvtCounters TW.GvtExec TW.Flags TW.Worker TW.WorkerOnceApp TW.GvtNode TW.WorkerTerm.
Extraction "model.ml" before before_ext q_before content node_init thread_init owner first
  rng_init random_u64 random_bits random_bits_unsplit floor_mul random_range random_range_nonuniform
  get_receiver is_neighbor count_directions add_link N.mul
  seq_init seq_run handle lp_init can_end ev_before
  t_init TW.Term.step votes
  Sync.BarrierMore.barrier_init Sync.BarrierProto.enter Sync.BarrierProto.poll
  encode decode record_counts_equal undone_le_forward
  mm_init rs_malloc rs_free rs_realloc write_block read_cell checkpoint_take checkpoint_restore fossil_collect flatten ckpt_written N.ltb N.div
  q_init q_push q_flag q_extract q_peek heap_insert heap_extract
  gstep gvt_init fstep fm_init
  w_init wstep wdigest types_okb tw_init twstep tdigest gn_init gn_exec gn_gvt gn_col gn_ctr gn_need gn_recv gn_stage gn_find gn_inflight.
