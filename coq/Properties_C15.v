(* C15 — the inter-thread message queue loses nothing and its peek is a true lower bound.
   - heap_insert / heap_extract (list model of the macros of heap.h) preserve the multiset of elements for ANY comparator,
     even one whose answers change between calls (a sender may set the ANTI bit of a message sitting in the heap);
   - queue accounting, for every sequence of operations of any number of producers and the consumer (successful
     compare-and-swap pushes, flag flips, extractions, peeks): everything pushed is, as a multiset, what is still in the
     queue plus what has been extracted — nothing is lost, nothing is extracted twice;
   - an extraction or a peek first empties the shared list into the heap, so every message whose push preceded the
     exchange is in the heap when the answer is computed;
   - for a strict weak order the heap algorithms keep the heap property and the root is minimal (function-array model of
     the same loops: Heap/HeapFun.v), so the element returned / the time peeked is minimal among those transferred.
   The compare-and-swap retry loop, the LIFO list and the real comparator are tied by the exact schedule replay of the
   check; minimality under a comparator that changes while elements are queued is modelled and replayed, not proved. *)
From Coq Require Import List Arith NArith Permutation.
From RS Require Import Heap.HeapList Heap.HeapListProofs Heap.HeapFun Heap.HeapTime.

Theorem C15_heap_insert_keeps_multiset : forall A d cmp l e, Permutation (HeapList.heap_insert A d cmp l e) (e :: l).
Proof. exact heap_insert_perm. Qed.

Theorem C15_heap_extract_keeps_multiset : forall A d cmp l r l', HeapList.heap_extract A d cmp l = Some (r, l') -> Permutation (r :: l') l.
Proof. exact heap_extract_perm. Qed.

Theorem C15_no_loss_no_duplication : forall ops, accounted (fold_left g_step ops g_init).
Proof. exact no_loss_no_dup. Qed.

Theorem C15_exchange_takes_everything : forall s,
  q_shared (q_transfer s) = nil /\ Permutation (q_heap (q_transfer s)) (q_shared s ++ q_heap s).
Proof. exact transfer_takes_everything. Qed.

Theorem C15_heap_root_minimal : forall (A : Type) (cmp : A -> A -> bool),
  (forall a, cmp a a = false) ->
  (forall a b c, cmp a b = false -> cmp b c = false -> cmp a c = false) ->
  forall f n, HeapFun.heap_ok A cmp f n -> forall k, k < n -> cmp (f k) (f 0) = false.
Proof. exact heap_root_min. Qed.

(* The queue comparator reads the LIVE flag word of the queued messages, so it changes while they are queued.  Whatever a comparator
   does on ties, if it agrees with a fixed key (the timestamp: "a before b" implies key a <= key b, and key a < key b implies
   "a before b"), the array model of the heap.h loops keeps the array a heap FOR THE KEY; each call may use a different such
   comparator.  Hence the root always carries a smallest timestamp: what extraction and msg_queue_time_peek (GVT) rely on. *)
Theorem C15_insert_keeps_the_timestamp_heap_under_any_compatible_comparator : forall A d (key : A -> N) cmp l e,
  compat A key cmp -> theap A d key l -> theap A d key (HeapList.heap_insert A d cmp l e).
Proof. exact heap_insert_theap. Qed.

Theorem C15_extract_keeps_the_timestamp_heap_under_any_compatible_comparator : forall A d (key : A -> N) cmp l r l',
  compat A key cmp -> theap A d key l -> HeapList.heap_extract A d cmp l = Some (r, l') -> theap A d key l'.
Proof. exact heap_extract_theap. Qed.

Theorem C15_root_carries_a_smallest_timestamp : forall A d (key : A -> N) l,
  theap A d key l -> forall k, k < length l -> (key (nth 0 l d) <= key (nth k l d))%N.
Proof. exact theap_root_min. Qed.

Print Assumptions C15_heap_insert_keeps_multiset.
Print Assumptions C15_insert_keeps_the_timestamp_heap_under_any_compatible_comparator.
Print Assumptions C15_extract_keeps_the_timestamp_heap_under_any_compatible_comparator.
Print Assumptions C15_root_carries_a_smallest_timestamp.
Print Assumptions C15_heap_extract_keeps_multiset.
Print Assumptions C15_no_loss_no_duplication.
Print Assumptions C15_exchange_takes_everything.
Print Assumptions C15_heap_root_minimal.
