(* C17: consequences of the barrier invariant — reachability, who is told it is the leader, liveness of the exit. *)
From Coq Require Import List Arith ZArith Lia Bool.
From RS Require Import Sync.BarrierProto.
Import ListNotations.

(* actions of a schedule *)
Inductive act := Enter (i : nat) | Poll (i : nat).

Definition do_act (s : st) (a : act) : option st :=
  match a with
  | Enter i => enter s i
  | Poll i => match poll s i with Some (s', _) => Some s' | None => None end
  end.

Fixpoint run_acts (s : st) (l : list act) : option st :=
  match l with
  | [] => Some s
  | a :: r => match do_act s a with Some s' => run_acts s' r | None => None end
  end.

(* every state reachable from the initial one by any schedule satisfies the invariant for some window K *)
Theorem reachable_inv n (Hn : 0 < n) : forall l s, run_acts (init n) l = Some s -> exists K, InvK s K.
Proof.
  assert (G : forall l s0 K s, InvK s0 K -> run_acts s0 l = Some s -> exists K', InvK s K').
  { induction l as [|a l IH]; intros s0 K s I R; cbn in R.
    - injection R as <-. exists K. exact I.
    - destruct a as [i|i]; cbn in R.
      + destruct (enter s0 i) as [s1|] eqn:E; [|discriminate].
        apply (IH s1 K s); [eapply enter_inv; eassumption|exact R].
      + destruct (poll s0 i) as [[s1 r]|] eqn:E; [|discriminate].
        destruct (poll_inv s0 K i s1 r I E) as [[_ ->]|(u & lf & _ & _ & _ & [I'|I'])].
        * apply (IH s0 K s I R).
        * apply (IH s1 K s I' R).
        * apply (IH s1 (S K) s I' R). }
  intros l s R. apply (G l (init n) 0 s (init_inv n Hn) R).
Qed.

(* no early exit, for every reachable state: a poll that leaves use u does so only when all threads have entered use u *)
Theorem no_early_exit n (Hn : 0 < n) l s i s' lf :
  run_acts (init n) l = Some s -> poll s i = Some (s', Some lf) ->
  exists u, nth_error (ths s) i = Some {| uses := u; spin := Some lf |} /\ cnt_entered (ths s) u = length (ths s).
Proof.
  intros R P. destruct (reachable_inv n Hn l s R) as [K I].
  destruct (poll_inv s K i s' (Some lf) I P) as [[H _]|(u & l0 & Hr & Hn' & Hall & _)]; [discriminate|].
  injection Hr as <-. exists u. auto.
Qed.

(* the leader flag computed on entry: true exactly for the first thread to enter a counting-up use and for the
   last thread to enter a counting-down use; since the number of entered threads of a use takes each value 0..n-1
   exactly once, exactly one thread per use is told it is the leader *)
Theorem enter_leader_iff s K i s' t :
  InvK s K -> nth_error (ths s) i = Some t -> spin t = None -> enter s i = Some s' ->
  exists lf, nth_error (ths s') i = Some {| uses := uses t; spin := Some lf |} /\
    (lf = true <-> cnt_entered (ths s) (uses t) = if down (uses t) then length (ths s) - 1 else 0).
Proof.
  intros [Hu [[t0 [Ht0 Hu0]] [HcK [HcS Hall]]]] Hi Hsp He. unfold enter in He. rewrite Hi, Hsp in He.
  assert (Hin : In t (ths s)) by (eapply nth_error_In; eassumption).
  assert (Hc : ctr s (uses t) = val (length (ths s)) (uses t) (cnt_entered (ths s) (uses t))).
  { destruct (Hu t Hin) as [E|E]; rewrite E; assumption. }
  assert (Hnot : entered t (uses t) = false).
  { unfold entered. rewrite Hsp. rewrite Nat.ltb_irrefl, Nat.eqb_refl. reflexivity. }
  pose proof (in_not_entered_lt (ths s) t (uses t) Hin Hnot) as Hlt.
  destruct (down (uses t)) eqn:Ed.
  - injection He as <-. cbn [ths]. rewrite ths_set.
    exists (ctr s (uses t) =? 1)%Z. split; [eapply nth_error_upd_eq; eassumption|].
    rewrite Hc. unfold val. rewrite Ed. split; intros H.
    + apply Z.eqb_eq in H. lia.
    + apply Z.eqb_eq. lia.
  - injection He as <-. cbn [ths]. rewrite ths_set.
    exists (ctr s (uses t) =? 0)%Z. split; [eapply nth_error_upd_eq; eassumption|].
    rewrite Hc. unfold val. rewrite Ed. split; intros H.
    + apply Z.eqb_eq in H. lia.
    + apply Z.eqb_eq. lia.
Qed.

(* liveness: once every thread has entered use u, the exit test of every thread spinning in use u is true (and stays
   true until it exits, since nobody can enter use u again); a thread that is not spinning can always enter *)
Theorem exit_enabled s K i u lf :
  InvK s K -> nth_error (ths s) i = Some {| uses := u; spin := Some lf |} -> cnt_entered (ths s) u = length (ths s) ->
  exists s', poll s i = Some (s', Some lf).
Proof.
  intros [Hu [[t0 [Ht0 Hu0]] [HcK [HcS Hall]]]] Hi Hfull. unfold poll. rewrite Hi. cbn [spin uses].
  assert (Hin : In {| uses := u; spin := Some lf |} (ths s)) by (eapply nth_error_In; eassumption).
  assert (Hc : ctr s u = val (length (ths s)) u (cnt_entered (ths s) u)).
  { destruct (Hu _ Hin) as [E|E]; cbn in E; rewrite E; assumption. }
  rewrite Hc, Hfull. unfold val, nthr. destruct (down u).
  - replace (Z.of_nat (length (ths s)) - Z.of_nat (length (ths s)))%Z with 0%Z by lia. cbn. eauto.
  - rewrite Z.eqb_refl. eauto.
Qed.

Theorem enter_enabled s i t : nth_error (ths s) i = Some t -> spin t = None -> exists s', enter s i = Some s'.
Proof.
  intros Hi Hsp. unfold enter. rewrite Hi, Hsp. destruct (down (uses t)); eauto.
Qed.

(* reusability: the invariant has the same shape for every window K; it is re-established by the hand-over K -> K+1
   (poll_inv) for arbitrarily many consecutive uses, which is what reachable_inv states for every schedule *)

Definition barrier_init (n : nat) : st := BarrierProto.init n.
