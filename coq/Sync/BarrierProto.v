(* scratch prototype: sense-reversing two-counter barrier of core/sync.c, n threads, all schedules *)
From Coq Require Import List Arith ZArith Lia Bool.
Import ListNotations.

(* thread-local state: completed uses u (phase = u mod 4), and whether it is spinning in use u,
   with the leader flag it computed on entry *)
Record th := { uses : nat; spin : option bool }.

Record st := { ths : list th; c0 : Z; c1 : Z }.

Definition ctr (s : st) (u : nat) : Z := if Nat.even u then c0 s else c1 s.
Definition set_ctr (s : st) (u : nat) (v : Z) : st :=
  if Nat.even u then {| ths := ths s; c0 := v; c1 := c1 s |} else {| ths := ths s; c0 := c0 s; c1 := v |}.
Definition down (u : nat) : bool := Nat.leb 2 (u mod 4).

Fixpoint upd {A} (l : list A) (i : nat) (x : A) : list A :=
  match l, i with
  | [], _ => []
  | _ :: t, 0 => x :: t
  | h :: t, S j => h :: upd t j x
  end.

Definition nthr (s : st) : Z := Z.of_nat (length (ths s)).

(* Enter i: fetch_add on the counter of the current use *)
Definition enter (s : st) (i : nat) : option st :=
  match nth_error (ths s) i with
  | Some t =>
    match spin t with
    | Some _ => None
    | None =>
      let u := uses t in
      let c := ctr s u in
      let '(l, c') := if down u then (Z.eqb c 1, (c - 1)%Z) else (Z.eqb c 0, (c + 1)%Z) in
      let s' := set_ctr s u c' in
      Some {| ths := upd (ths s') i {| uses := u; spin := Some l |}; c0 := c0 s'; c1 := c1 s' |}
    end
  | None => None
  end.

(* Poll i: one load; leaves the barrier iff the exit test holds, otherwise no change *)
Definition poll (s : st) (i : nat) : option (st * option bool) :=
  match nth_error (ths s) i with
  | Some t =>
    match spin t with
    | None => None
    | Some l =>
      let u := uses t in
      let c := ctr s u in
      let ok := if down u then Z.eqb c 0 else Z.eqb c (nthr s) in
      if ok then Some ({| ths := upd (ths s) i {| uses := S u; spin := None |}; c0 := c0 s; c1 := c1 s |}, Some l)
      else Some (s, None)
    end
  | None => None
  end.

Definition init (n : nat) : st := {| ths := repeat {| uses := 0; spin := None |} n; c0 := 0; c1 := 0 |}.

(* entered t k : thread t has performed the fetch_add of use k *)
Definition entered (t : th) (k : nat) : bool :=
  Nat.ltb k (uses t) || (Nat.eqb k (uses t) && match spin t with Some _ => true | None => false end).
Definition cnt_entered (l : list th) (k : nat) : nat := length (filter (fun t => entered t k) l).

(* resting / running value of the counter of use k when e threads have entered it *)
Definition val (n : nat) (k : nat) (e : nat) : Z :=
  if down k then (Z.of_nat n - Z.of_nat e)%Z else Z.of_nat e.

(* K = the minimum number of completed uses *)
Definition Inv (s : st) : Prop :=
  exists K,
    (forall t, In t (ths s) -> uses t = K \/ uses t = S K) /\
    (exists t, In t (ths s) /\ uses t = K) /\
    ctr s K = val (length (ths s)) K (cnt_entered (ths s) K) /\
    ctr s (S K) = val (length (ths s)) (S K) (cnt_entered (ths s) (S K)) /\
    (* nobody completed use K unless all entered it *)
    ((exists t, In t (ths s) /\ uses t = S K) -> cnt_entered (ths s) K = length (ths s)).

(* ---------- proofs ---------- *)
Lemma upd_length {A} (l : list A) i x : length (upd l i x) = length l.
Proof. revert i; induction l as [|h t IH]; intros [|i]; simpl; auto. Qed.

Lemma nth_error_upd_eq {A} (l : list A) i x t : nth_error l i = Some t -> nth_error (upd l i x) i = Some x.
Proof. revert i; induction l as [|h tl IH]; intros [|i]; simpl; try discriminate; auto. Qed.

Lemma in_upd {A} (l : list A) i x y : In y (upd l i x) -> y = x \/ In y l.
Proof. revert i; induction l as [|h t IH]; intros [|i]; simpl; auto.
  - intros [H|H]; auto.
  - intros [H|H]; auto. destruct (IH _ H) as [H1|H1]; auto. Qed.

Lemma in_upd_other {A} (l : list A) i x t y : nth_error l i = Some t -> In y l -> y <> t -> In y (upd l i x).
Proof. revert i; induction l as [|h tl IH]; intros [|i]; simpl; try discriminate.
  - intros [= ->] [H|H] Hn; auto. congruence.
  - intros Hi [H|H] Hn; [auto | right; eapply IH; eauto]. Qed.

Lemma in_upd_self {A} (l : list A) i x t : nth_error l i = Some t -> In x (upd l i x).
Proof. revert i; induction l as [|h tl IH]; intros [|i]; simpl; try discriminate; eauto. Qed.

(* counting under a point update *)
Definition b2n (b : bool) : nat := if b then 1 else 0.
Lemma cnt_upd (l : list th) i x t k :
  nth_error l i = Some t ->
  cnt_entered (upd l i x) k + b2n (entered t k) = cnt_entered l k + b2n (entered x k).
Proof.
  unfold cnt_entered. revert i; induction l as [|h tl IH]; intros [|i]; simpl; try discriminate.
  - intros [= ->]. destruct (entered t k), (entered x k); simpl; lia.
  - intros Hi. specialize (IH _ Hi). destruct (entered h k); simpl; lia.
Qed.

Lemma filter_length_le {A} (f : A -> bool) (l : list A) : length (filter f l) <= length l.
Proof. induction l as [|h t IH]; simpl; [lia|]. destruct (f h); simpl; lia. Qed.

Lemma cnt_le (l : list th) k : cnt_entered l k <= length l.
Proof. unfold cnt_entered. apply filter_length_le. Qed.

Lemma in_not_entered_lt (l : list th) t k : In t l -> entered t k = false -> cnt_entered l k < length l.
Proof.
  unfold cnt_entered. induction l as [|h tl IH]; simpl; [tauto|].
  intros [->|H] He.
  - rewrite He. pose proof (filter_length_le (fun t => entered t k) tl). lia.
  - specialize (IH H He). destruct (entered h k); simpl; lia.
Qed.

(* ---------- counter / parity facts ---------- *)
Lemma even_S u : Nat.even (S u) = negb (Nat.even u).
Proof. rewrite Nat.even_succ. rewrite <- Nat.negb_even. reflexivity. Qed.

Lemma ctr_set_same s u v : ctr (set_ctr s u v) u = v.
Proof. unfold ctr, set_ctr. destruct (Nat.even u) eqn:E; simpl; rewrite ?E; reflexivity. Qed.
Lemma ctr_set_other s u v : ctr (set_ctr s u v) (S u) = ctr s (S u).
Proof. unfold ctr, set_ctr. rewrite even_S. destruct (Nat.even u); reflexivity. Qed.
Lemma ctr_set_other' s u v : ctr (set_ctr s (S u) v) u = ctr s u.
Proof. unfold ctr, set_ctr. rewrite even_S. destruct (Nat.even u); reflexivity. Qed.
Lemma ths_set s u v : ths (set_ctr s u v) = ths s.
Proof. unfold set_ctr. destruct (Nat.even u); reflexivity. Qed.
Lemma ctr_SS s u : ctr s (S (S u)) = ctr s u.
Proof. unfold ctr. rewrite !even_S, Bool.negb_involutive. reflexivity. Qed.

Lemma mod4_lt u : u mod 4 < 4. Proof. apply Nat.mod_upper_bound. lia. Qed.
Lemma down_SS u : down (S (S u)) = negb (down u).
Proof.
  unfold down. replace (S (S u)) with (u + 2) by lia.
  rewrite Nat.add_mod by lia. pose proof (mod4_lt u) as H.
  destruct (u mod 4) as [|[|[|[|k]]]]; try lia; reflexivity.
Qed.

Lemma val_start_after n K : val n K n = val n (S (S K)) 0.
Proof. unfold val. rewrite down_SS. destruct (down K); simpl; lia. Qed.

(* a thread that completed K uses and is outside the barrier has not entered use K, but entered all earlier ones *)
Lemma entered_out u k : entered {| uses := u; spin := None |} k = Nat.ltb k u.
Proof. unfold entered. simpl. rewrite Bool.andb_false_r, Bool.orb_false_r. reflexivity. Qed.
Lemma entered_spin u l k : entered {| uses := u; spin := Some l |} k = Nat.leb k u.
Proof. unfold entered. simpl. rewrite Bool.andb_true_r.
  destruct (Nat.ltb_spec k u), (Nat.eqb_spec k u), (Nat.leb_spec k u); simpl; auto; lia. Qed.

Definition ctr_ok (s : st) (k : nat) : Prop := ctr s k = val (length (ths s)) k (cnt_entered (ths s) k).

Lemma entered_after t k : uses t < k -> entered t k = false.
Proof. intros H. unfold entered. destruct (Nat.ltb_spec k (uses t)); [lia|]. destruct (Nat.eqb_spec k (uses t)); [lia|]. reflexivity. Qed.

Definition InvK (s : st) (K : nat) : Prop :=
  (forall t, In t (ths s) -> uses t = K \/ uses t = S K) /\
  (exists t, In t (ths s) /\ uses t = K) /\
  ctr_ok s K /\ ctr_ok s (S K) /\
  ((exists t, In t (ths s) /\ uses t = S K) -> cnt_entered (ths s) K = length (ths s)).

Lemma nth_error_in {A} (l : list A) i x : nth_error l i = Some x -> In x l.
Proof. apply nth_error_In. Qed.

Lemma cnt_upd_same l i x t k : nth_error l i = Some t -> entered t k = entered x k -> cnt_entered (upd l i x) k = cnt_entered l k.
Proof. intros Hi E. pose proof (cnt_upd l i x t k Hi) as H. rewrite E in H. lia. Qed.
Lemma cnt_upd_inc l i x t k : nth_error l i = Some t -> entered t k = false -> entered x k = true ->
  cnt_entered (upd l i x) k = S (cnt_entered l k).
Proof. intros Hi E1 E2. pose proof (cnt_upd l i x t k Hi) as H. rewrite E1, E2 in H. simpl in H. lia. Qed.

Lemma val_step n k e : val n k (S e) = if down k then (val n k e - 1)%Z else (val n k e + 1)%Z.
Proof. unfold val. destruct (down k); lia. Qed.

Theorem enter_inv s K i s' : InvK s K -> enter s i = Some s' -> InvK s' K.
Proof.
  intros [Hu [[t0 [Ht0 Hu0]] [HcK [HcS Hall]]]] He. unfold enter in He.
  destruct (nth_error (ths s) i) as [t|] eqn:Hi; [|discriminate].
  destruct t as [u sp]. destruct sp as [l|]; [discriminate|]. simpl in He.
  assert (Ht : In {| uses := u; spin := None |} (ths s)) by (eapply nth_error_in; eauto).
  set (c := ctr s u) in *.
  destruct (if down u then ((c =? 1)%Z, (c - 1)%Z) else ((c =? 0)%Z, (c + 1)%Z)) as [l c'] eqn:Ec.
  injection He as <-. simpl.
  assert (Ec' : c' = if down u then (c - 1)%Z else (c + 1)%Z) by (destruct (down u); injection Ec as _ <-; reflexivity).
  set (t' := {| uses := u; spin := Some l |}).
  set (s1 := set_ctr s u c').
  assert (Hlen : length (upd (ths s1) i t') = length (ths s)) by (rewrite upd_length; unfold s1; rewrite ths_set; reflexivity).
  assert (Hi1 : nth_error (ths s1) i = Some {| uses := u; spin := None |}) by (unfold s1; rewrite ths_set; exact Hi).
  assert (Hths : ths s1 = ths s) by (unfold s1; apply ths_set).
  assert (Hctr : forall k, ctr {| ths := upd (ths s1) i t'; c0 := c0 s1; c1 := c1 s1 |} k = ctr s1 k) by reflexivity.
  unfold InvK, ctr_ok. simpl. rewrite !Hctr, Hlen.
  destruct (Hu _ Ht) as [E|E]; simpl in E; subst u.
  - (* entering the current use K *)
    assert (Hne : entered {| uses := K; spin := None |} K = false) by (rewrite entered_out; apply Nat.ltb_irrefl).
    repeat split.
    + intros x Hx. apply in_upd in Hx. destruct Hx as [->|Hx]; [left; reflexivity|]. rewrite Hths in Hx. auto.
    + exists t'. split; [eapply in_upd_self; eauto|reflexivity].
    + rewrite (cnt_upd_inc (ths s1) i t' _ K Hi1 Hne) by (unfold t'; rewrite entered_spin; apply Nat.leb_refl).
      rewrite Hths, val_step. unfold s1. rewrite ctr_set_same, Ec'. unfold ctr_ok in HcK. fold c in HcK. rewrite HcK. reflexivity.
    + rewrite (cnt_upd_same (ths s1) i t' _ (S K) Hi1).
      * rewrite Hths. unfold s1. rewrite ctr_set_other. exact HcS.
      * unfold t'. rewrite entered_out, entered_spin.
        destruct (Nat.ltb_spec (S K) K), (Nat.leb_spec (S K) K); auto; lia.
    + intros [x [Hx Hux]]. exfalso. apply in_upd in Hx. destruct Hx as [->|Hx]; [simpl in Hux; lia|].
      rewrite Hths in Hx. pose proof (in_not_entered_lt (ths s) _ K Ht Hne) as Hlt.
      rewrite Hall in Hlt; [lia|]. exists x. auto.
  - (* entering use K+1: everybody has completed... entered use K already *)
    assert (Hall' : cnt_entered (ths s) K = length (ths s)) by (apply Hall; eexists; split; [exact Ht|reflexivity]).
    repeat split.
    + intros x Hx. apply in_upd in Hx. destruct Hx as [->|Hx]; [right; reflexivity|]. rewrite Hths in Hx. auto.
    + exists t0. split; auto. rewrite Hths. eapply in_upd_other; eauto. intros ->. simpl in Hu0. lia.
    + rewrite (cnt_upd_same (ths s1) i t' _ K Hi1).
      * rewrite Hths. unfold s1. rewrite ctr_set_other'. exact HcK.
      * unfold t'. rewrite entered_out, entered_spin.
        destruct (Nat.ltb_spec K (S K)), (Nat.leb_spec K (S K)); auto; lia.
    + rewrite (cnt_upd_inc (ths s1) i t' _ (S K) Hi1).
      * rewrite Hths, val_step. unfold s1. rewrite ctr_set_same, Ec'. unfold ctr_ok in HcS. fold c in HcS. rewrite HcS. reflexivity.
      * rewrite entered_out. apply Nat.ltb_irrefl.
      * unfold t'. rewrite entered_spin. apply Nat.leb_refl.
    + intros _. rewrite (cnt_upd_same (ths s1) i t' _ K Hi1).
      * rewrite Hths. exact Hall'.
      * unfold t'. rewrite entered_out, entered_spin.
        destruct (Nat.ltb_spec K (S K)), (Nat.leb_spec K (S K)); auto; lia.
Qed.

Lemma val_full n k e : e <= n -> (val n k e = if down k then 0%Z else Z.of_nat n) -> e = n.
Proof. unfold val. destruct (down k); intros; lia. Qed.

Lemma cnt_zero l k : (forall t, In t l -> entered t k = false) -> cnt_entered l k = 0.
Proof. unfold cnt_entered. induction l as [|x r IH]; simpl; auto. intros H. rewrite (H x) by (left; auto). apply IH.
  intros t Ht. apply H. right; auto. Qed.

(* a poll either changes nothing, or leaves use u -- and then every thread has entered use u *)
Theorem poll_inv s K i s' r : InvK s K -> poll s i = Some (s', r) ->
  (r = None /\ s' = s) \/
  (exists u l, r = Some l /\ nth_error (ths s) i = Some {| uses := u; spin := Some l |} /\
               cnt_entered (ths s) u = length (ths s) /\ (InvK s' K \/ InvK s' (S K))).
Proof.
  intros [Hu [[t0 [Ht0 Hu0]] [HcK [HcS Hall]]]] Hp. unfold poll in Hp.
  destruct (nth_error (ths s) i) as [t|] eqn:Hi; [|discriminate].
  destruct t as [u sp]. destruct sp as [l|]; [|discriminate]. simpl in Hp.
  assert (Ht : In {| uses := u; spin := Some l |} (ths s)) by (eapply nth_error_in; eauto).
  destruct (if down u then (ctr s u =? 0)%Z else (ctr s u =? nthr s)%Z) eqn:Eok.
  2:{ injection Hp as <- <-. left; auto. }
  injection Hp as <- <-. right. exists u, l. split; [reflexivity|]. split; [reflexivity|].
  set (t' := {| uses := S u; spin := None |}).
  assert (Hfull : forall k, ctr_ok s k -> k = u -> cnt_entered (ths s) k = length (ths s)).
  { intros k Hk ->. apply (val_full (length (ths s)) u); [apply cnt_le|]. unfold ctr_ok in Hk. rewrite <- Hk.
    unfold nthr in Eok. destruct (down u); apply Z.eqb_eq in Eok; exact Eok. }
  destruct (Hu _ Ht) as [E|E]; simpl in E; subst u.
  - (* leaving the current use K *)
    pose proof (Hfull K HcK eq_refl) as HallK. split; [exact HallK|].
    assert (Hsame : forall k, cnt_entered (upd (ths s) i t') k = cnt_entered (ths s) k).
    { intros k. apply (cnt_upd_same (ths s) i t' _ k Hi). unfold t'. rewrite entered_out, entered_spin.
      destruct (Nat.ltb_spec k (S K)), (Nat.leb_spec k K); auto; lia. }
    assert (Hlen : length (upd (ths s) i t') = length (ths s)) by apply upd_length.
    destruct (existsb (fun x => Nat.eqb (uses x) K) (upd (ths s) i t')) eqn:Ex.
    + (* somebody is still in use K *)
      left. apply existsb_exists in Ex. destruct Ex as [x [Hx Hxu]]. apply Nat.eqb_eq in Hxu.
      unfold InvK, ctr_ok. simpl. rewrite Hlen, !Hsame. repeat split; auto.
      * intros y Hy. apply in_upd in Hy. destruct Hy as [->|Hy]; [right; reflexivity|auto].
      * exists x. auto.
    + (* that was the last one: the window moves to K+1 *)
      right.
      assert (HallS : forall y, In y (upd (ths s) i t') -> uses y = S K).
      { intros y Hy. assert (Hy' := Hy). apply in_upd in Hy. 
        assert (uses y = K \/ uses y = S K) as [Ey|Ey] by (destruct Hy as [->|Hy]; [right; reflexivity|auto]); auto.
        exfalso. assert (existsb (fun x => Nat.eqb (uses x) K) (upd (ths s) i t') = true); [|congruence].
        apply existsb_exists. exists y. split; auto. apply Nat.eqb_eq. auto. }
      unfold InvK, ctr_ok. simpl. rewrite Hlen, !Hsame. repeat split.
      * intros y Hy. left. auto.
      * exists t'. split; [eapply in_upd_self; eauto|reflexivity].
      * exact HcS.
      * change (ctr {| ths := upd (ths s) i t'; c0 := c0 s; c1 := c1 s |} (S (S K))) with (ctr s (S (S K))).
        rewrite ctr_SS. unfold ctr_ok in HcK. rewrite HcK, HallK, val_start_after. f_equal.
        rewrite <- (Hsame (S (S K))). symmetry. apply cnt_zero. intros y Hy. pose proof (HallS y Hy) as Ey.
        apply entered_after. lia.
      * intros [y [Hy Ey]]. pose proof (HallS y Hy). lia.
  - (* leaving use K+1 is impossible while somebody has not even entered it *)
    exfalso. pose proof (Hfull (S K) HcS eq_refl) as HallS.
    assert (Hne : entered t0 (S K) = false).
    { apply entered_after. lia. }
    pose proof (in_not_entered_lt (ths s) t0 (S K) Ht0 Hne). lia.
Qed.

Lemma init_inv n : 0 < n -> InvK (init n) 0.
Proof.
  intros Hn. unfold InvK, ctr_ok, init. simpl. rewrite repeat_length.
  assert (Hz : forall k, cnt_entered (repeat {| uses := 0; spin := None |} n) k = 0).
  { intros k. apply cnt_zero. intros t Ht. apply repeat_spec in Ht. subst t. rewrite entered_out. reflexivity. }
  repeat split.
  - intros t Ht. apply repeat_spec in Ht. subst. left; reflexivity.
  - exists {| uses := 0; spin := None |}. split; [|reflexivity]. destruct n; [lia|left; reflexivity].
  - rewrite Hz. reflexivity.
  - rewrite Hz. reflexivity.
  - intros [t [Ht Eu]]. apply repeat_spec in Ht. subst. discriminate.
Qed.
