(* C11 — memory safety and absence of undefined behaviour for every valid model.   PARTIAL by nature.
   What is proved are the safety side conditions of the modelled operations (re-exported from the properties they serve):
   - Random(): for all 2^64 raw outputs every shift amount is below the width (the model returns None for a shift by the
     width or more), and the pre-fix code is refuted at raw output 1 (finding F1);
   - message buffers: no step of the flag handshake is enabled on a released buffer — no double free, no use after free —
     for every interleaving of sender and receiver;
   - allocator: a successful malloc returns a range inside the arena, aligned to its size; restore after a fossil collection
     always finds a checkpoint (no index below the log);
   - partitioning: the loops of partition_start never exhaust their bound and ownership ranges stay inside [0, lps).
   Everything else — code outside the models (stdio, MPI library, arch/*, logging), compiler-level undefined behaviour, data
   races on non-atomic reads — is decided by running every driver of the other properties, the serial / parallel / multi-rank
   / LP-level / cooperatively scheduled simulations included, under AddressSanitizer + UndefinedBehaviorSanitizer. *)
From Coq Require Import NArith ZArith List.
From RS Require Import TW.App TW.Worker TW.WorkerOnceApp.
From RS Require Import Rng.RngDefs Rng.RngProofs TW.Flags Buddy.BuddyTree Buddy.Alloc Buddy.AllocProofs Part.PartitionDefs Part.PartitionProofs.

Theorem C11_random_shifts_defined : forall u, (u < W64)%N -> exists b, random_bits u = Some b.
Proof. intros u H. destruct (random_bits_spec u H) as (b & E & _). exists b. exact E. Qed.

Theorem C11_unsplit_shift_undefined_at_one : random_bits_unsplit 1 = None.
Proof. exact random_bits_unsplit_undefined. Qed.

Theorem C11_no_use_of_released_buffer : forall m a, f_freed m = true -> fstep m a = None.
Proof. exact no_step_after_release. Qed.

Theorem C11_malloc_in_bounds_aligned : forall B, 0 < B -> forall h t e, wf B h t -> B <= e -> e <= val t ->
  exists t' o, bm B h t e = Some (t', o) /\ o + 2 ^ (e - B) <= 2 ^ h /\ Nat.divide (2 ^ (e - B)) o.
Proof.
  intros B HB h t e Hw H1 H2. destruct (bm_spec B HB h t e Hw H1 H2) as (t' & o & E & P).
  exists t', o. split; [exact E|]. split; [exact (m_in B h t t' e o P)|exact (m_al B h t t' e o P)].
Qed.

Theorem C11_restore_after_fossil_never_below_the_log : forall B H AHDR s tgt s' base ref,
  fossil_collect s tgt = Some (s', base) -> exists s'' r, checkpoint_restore B H AHDR s' ref = Some (s'', r).
Proof. exact restore_after_fossil. Qed.

Theorem C11_partition_loops_bounded : forall cnt tot, (0 < cnt)%N -> (0 < tot)%N -> forall start id,
  partition_start id cnt start tot = Some (start + first cnt tot id)%N.
Proof. exact partition_start_spec. Qed.

(* process.c / fossil.c: the index loops stay inside the history and the checkpoint log.  The worker model raises its error
   flag exactly where match_anti_msg would walk below index 0, model_allocator_checkpoint_restore / fossil would find no
   checkpoint at or below the target, or a destination would index outside the LP array; for every program with types below
   the reserved ones, every checkpoint interval and every script it is never raised. *)
Theorem C11_history_and_log_indices_stay_in_bounds : forall (p : prog) (ck : nat), types_okb p = true ->
  forall (ops : list wop), k_err (fold_left (wstep p ck) ops (w_init p)) = false.
Proof. exact worker_never_errs. Qed.

Print Assumptions C11_history_and_log_indices_stay_in_bounds.
Print Assumptions C11_random_shifts_defined.
Print Assumptions C11_unsplit_shift_undefined_at_one.
Print Assumptions C11_no_use_of_released_buffer.
Print Assumptions C11_malloc_in_bounds_aligned.
Print Assumptions C11_restore_after_fossil_never_below_the_log.
Print Assumptions C11_partition_loops_bounded.
