(* Lexicographic order on lists of integers: a strict total order. *)
From Coq Require Import List ZArith Bool Lia.
Import ListNotations.
Local Open Scope Z_scope.

Fixpoint lexltb (a b : list Z) : bool :=
  match a, b with
  | [], [] => false
  | [], _ :: _ => true
  | _ :: _, [] => false
  | x :: a', y :: b' => if x <? y then true else if x =? y then lexltb a' b' else false
  end.

Lemma lexltb_irrefl a : lexltb a a = false.
Proof.
  induction a as [|x a IH]; cbn; [reflexivity|].
  rewrite Z.ltb_irrefl, Z.eqb_refl. exact IH.
Qed.

Lemma lexltb_trans a : forall b c, lexltb a b = true -> lexltb b c = true -> lexltb a c = true.
Proof.
  induction a as [|x a IH]; intros [|y b] [|z c]; cbn; try congruence.
  destruct (Z.ltb_spec x y) as [Hxy|Hxy].
  - intros _. destruct (Z.ltb_spec y z) as [Hyz|Hyz].
    + intros _. destruct (Z.ltb_spec x z); [reflexivity|lia].
    + destruct (Z.eqb_spec y z) as [->|]; [|congruence]. intros _.
      destruct (Z.ltb_spec x z); [reflexivity|lia].
  - destruct (Z.eqb_spec x y) as [->|]; [|congruence]. intros Hab.
    destruct (Z.ltb_spec y z) as [Hyz|Hyz]; [reflexivity|].
    destruct (Z.eqb_spec y z) as [->|]; [|congruence]. apply IH. exact Hab.
Qed.

Lemma lexltb_total a : forall b, lexltb a b = false -> lexltb b a = false -> a = b.
Proof.
  induction a as [|x a IH]; intros [|y b]; cbn; try congruence.
  destruct (Z.ltb_spec x y) as [Hxy|Hxy]; [congruence|].
  destruct (Z.ltb_spec y x) as [Hyx|Hyx]; [destruct (Z.eqb_spec x y); congruence|].
  assert (x = y) by lia. subst y. rewrite Z.eqb_refl. intros H1 H2. f_equal. apply IH; assumption.
Qed.

Lemma lexltb_asym a b : lexltb a b = true -> lexltb b a = false.
Proof.
  intros H. destruct (lexltb b a) eqn:E; [|reflexivity].
  pose proof (lexltb_trans _ _ _ H E) as Hc. rewrite lexltb_irrefl in Hc. discriminate.
Qed.

(* incomparability is equality, hence transitive *)
Lemma lexltb_incomp_iff a b : (lexltb a b = false /\ lexltb b a = false) <-> a = b.
Proof.
  split.
  - intros [H1 H2]. apply lexltb_total; assumption.
  - intros ->. split; apply lexltb_irrefl.
Qed.

Lemma lexltb_app_eq p a b : lexltb (p ++ a) (p ++ b) = lexltb a b.
Proof. induction p as [|x p IH]; cbn; [reflexivity|]. rewrite Z.ltb_irrefl, Z.eqb_refl. exact IH. Qed.
