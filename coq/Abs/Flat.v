(* scratch prototype: the flat tagged history p_msgs (sent markers followed by the processed event) and the
   backward scan of match_straggler_msg, related to the grouped view used by the abstract machine *)
From Coq Require Import List Arith Lia Bool.
From RS.Abs Require Import Abs.
Import ListNotations.

Section Flat.
Variable M : Type.                                   (* message buffers *)
Record entry := { em : M; eouts : list M }.
Inductive pm := Sent (m : M) | Past (m : M).

Definition flatten1 (e : entry) : list pm := map Sent (eouts e) ++ [Past (em e)].
Definition flatten (h : list entry) : list pm := flat_map flatten1 h.

Variable p : M -> bool.                              (* "the straggler is before this message" *)

(* the loop of match_straggler_msg, on the reversed array: skip sent markers and events the straggler is before *)
Fixpoint scanr (r : list pm) : list pm :=
  match r with
  | [] => []
  | Sent _ :: t => scanr t
  | Past m :: t => if p m then scanr t else r
  end.
Definition keep_flat (l : list pm) : list pm := rev (scanr (rev l)).
Definition keep_count (l : list pm) : nat := length (keep_flat l).     (* the value returned: i + 1, or 0 *)

Lemma flatten_app h1 h2 : flatten (h1 ++ h2) = flatten h1 ++ flatten h2.
Proof. unfold flatten. apply flat_map_app. Qed.

Lemma scanr_sents ms t : scanr (rev (map Sent ms) ++ t) = scanr t.
Proof. induction ms as [|m ms IH] using rev_ind; simpl; auto. rewrite map_app, rev_app_distr. simpl. exact IH. Qed.

Theorem keep_flat_spec h : keep_flat (flatten h) = flatten (keep_of (fun e => p (em e)) h).
Proof.
  induction h as [|e h IH] using rev_ind; [reflexivity|].
  unfold keep_flat in *. rewrite flatten_app. simpl. rewrite app_nil_r. unfold flatten1 at 1.
  rewrite !rev_app_distr. simpl.
  unfold keep_of. rewrite rev_app_distr. simpl.
  destruct (p (em e)) eqn:E.
  - rewrite scanr_sents. exact IH.
  - cbn [rev]. rewrite rev_app_distr, !rev_involutive.
    rewrite flatten_app. cbn [flatten flat_map]. rewrite app_nil_r. unfold flatten1. rewrite <- app_assoc. reflexivity.
Qed.

(* the array is kept as a prefix: the scan only decides where to cut *)
Theorem keep_flat_prefix h : exists suffix, flatten h = keep_flat (flatten h) ++ suffix /\
  suffix = flatten (undo_of (fun e => p (em e)) h).
Proof.
  exists (flatten (undo_of (fun e => p (em e)) h)). split; auto.
  rewrite keep_flat_spec, <- flatten_app, <- keep_undo. reflexivity.
Qed.
End Flat.
