(* scratch prototype: abstract Time Warp machine (histories, message pool, pending cancellations)
   and the invariants from which "closed below GVT" follows *)
From Coq Require Import List Arith Lia Permutation Sorted Bool Setoid Morphisms.
From AAC_tactics Require Import AAC.
From AAC_tactics Require Instances.
Import Instances.Lists.
Import ListNotations.

Section Abs.
(* contents with a strict total order, timestamps as a coarser key *)
Variable C : Type.
Variable cltb : C -> C -> bool.
Definition clt a b := cltb a b = true.
Hypothesis clt_irrefl : forall a, ~ clt a a.
Hypothesis clt_trans : forall a b c, clt a b -> clt b c -> clt a c.
Hypothesis clt_total : forall a b, clt a b \/ a = b \/ clt b a.
Variable tltb : C -> C -> bool.                  (* strictly smaller timestamp *)
Definition tlt a b := tltb a b = true.
Hypothesis tlt_clt : forall a b, tlt a b -> clt a b.
Hypothesis clt_not_tlt : forall a b, clt a b -> ~ tlt b a.
Hypothesis tlt_trans : forall a b c, tlt a b -> tlt b c -> tlt a c.
Definition cle a b := clt a b \/ a = b.
Definition tle a b := ~ tlt b a.

Variable St : Type.
Variable n : nat.
Variable s0 : nat -> St.
Variable handle : nat -> St -> C -> St * list (nat * C).
Hypothesis valid : forall l s c o, In o (snd (handle l s c)) -> clt c (snd o) /\ fst o < n.

Record msg := { mid : nat; mdest : nat; mc : C }.
Record entry := { em : msg; eouts : list msg }.
Record abs := { hist : nat -> list entry; pool : list msg; antis : list nat; nid : nat }.

Definition doomedb (a : abs) (m : msg) : bool := existsb (Nat.eqb (mid m)) (antis a).

(* the comparison made when message m meets history entry e: the ANTI bit of e sorts it first
   among equal timestamps, so m is "before" a doomed entry only with a strictly smaller timestamp *)
Definition dbefore (a : abs) (m : msg) (e : entry) : bool :=
  if doomedb a (em e) then tltb (mc m) (mc (em e)) else cltb (mc m) (mc (em e)).

(* split h = keep ++ undo where undo is the longest suffix satisfying p (scan from the end) *)
Fixpoint take_while {A} (p : A -> bool) (l : list A) : list A :=
  match l with [] => [] | x :: t => if p x then x :: take_while p t else [] end.
Fixpoint drop_while {A} (p : A -> bool) (l : list A) : list A :=
  match l with [] => [] | x :: t => if p x then drop_while p t else l end.
Definition undo_of {A} (p : A -> bool) (h : list A) := rev (take_while p (rev h)).
Definition keep_of {A} (p : A -> bool) (h : list A) := rev (drop_while p (rev h)).

Definition stof (l : nat) (h : list entry) : St := fold_left (fun s e => fst (handle l s (mc (em e)))) h (s0 l).

Fixpoint number (k : nat) (l : nat) (os : list (nat * C)) : list msg :=
  match os with [] => [] | (d, c) :: t => {| mid := k; mdest := d; mc := c |} :: number (S k) l t end.

Definition upd {A} (f : nat -> A) (k : nat) (v : A) : nat -> A := fun x => if Nat.eqb x k then v else f x.
Fixpoint remove1 (m : nat) (l : list msg) : list msg :=
  match l with [] => [] | x :: t => if Nat.eqb (mid x) m then t else x :: remove1 m t end.
Fixpoint remove_id (i : nat) (l : list nat) : list nat :=
  match l with [] => [] | x :: t => if Nat.eqb x i then t else x :: remove_id i t end.

Definition ids_of (es : list entry) : list nat := map mid (flat_map eouts es).

Inductive step : abs -> abs -> Prop :=
| s_process : forall a l m,
    l < n -> In m (pool a) -> mdest m = l -> doomedb a m = false ->
    let h := hist a l in
    let keep := keep_of (dbefore a m) h in
    let undo := undo_of (dbefore a m) h in
    let outs := number (nid a) l (snd (handle l (stof l keep) (mc m))) in
    step a {| hist := upd (hist a) l (keep ++ [{| em := m; eouts := outs |}]);
              pool := remove1 (mid m) (pool a) ++ map em undo ++ outs;
              antis := antis a ++ ids_of undo;
              nid := nid a + length outs |}
| s_drop : forall a m,                                  (* cancelled before being processed *)
    In m (pool a) -> doomedb a m = true ->
    step a {| hist := hist a; pool := remove1 (mid m) (pool a); antis := remove_id (mid m) (antis a); nid := nid a |}
| s_cancel : forall a l h1 e h2,                       (* cancelled after being processed *)
    l < n -> hist a l = h1 ++ e :: h2 -> doomedb a (em e) = true ->
    step a {| hist := upd (hist a) l h1;
              pool := pool a ++ map em h2;
              antis := remove_id (mid (em e)) (antis a) ++ ids_of (e :: h2);
              nid := nid a |}.

(* everything that exists now / everything sent by an entry that is currently valid *)
Definition hist_msgs (a : abs) : list msg := flat_map (fun l => map em (hist a l)) (seq 0 n).
Definition placed (a : abs) : list msg := pool a ++ hist_msgs a.
Definition sent (init : list msg) (a : abs) : list msg := init ++ flat_map (fun l => flat_map eouts (hist a l)) (seq 0 n).

(* ---------- generic list lemmas ---------- *)
Lemma nodup_app_l {A} (l r : list A) : NoDup (l ++ r) -> NoDup l.
Proof. induction l as [|x t IH]; simpl; intros H; [constructor|]. inversion H as [|? ? Hx Ht]; subst.
  constructor; auto. intro Hi. apply Hx. apply in_or_app; auto. Qed.
Lemma nodup_app_r {A} (l r : list A) : NoDup (l ++ r) -> NoDup r.
Proof. induction l as [|x t IH]; simpl; intros H; auto. inversion H; auto. Qed.
Lemma nodup_app_disj {A} (l r : list A) x : NoDup (l ++ r) -> In x l -> In x r -> False.
Proof. induction l as [|y t IH]; simpl; intros H Hl Hr; [contradiction|]. inversion H as [|? ? Hy Ht]; subst.
  destruct Hl as [->|Hl]; [apply Hy; apply in_or_app; auto | eauto]. Qed.
Lemma nodup_app_intro {A} (l r : list A) : NoDup l -> NoDup r -> (forall x, In x l -> In x r -> False) -> NoDup (l ++ r).
Proof. induction l as [|y t IH]; simpl; intros Hl Hr Hd; auto. inversion Hl as [|? ? Hy Ht]; subst.
  constructor; [|apply IH; eauto]. intro Hi. apply in_app_or in Hi. destruct Hi as [Hi|Hi]; [auto|]. eapply Hd; eauto. Qed.

Lemma keep_undo {A} (p : A -> bool) (h : list A) : h = keep_of p h ++ undo_of p h.
Proof.
  unfold keep_of, undo_of. rewrite <- rev_app_distr.
  assert (E : forall l : list A, take_while p l ++ drop_while p l = l).
  { induction l as [|x t IH]; simpl; auto. destruct (p x); simpl; [f_equal; auto|auto]. }
  rewrite E. symmetry. apply rev_involutive.
Qed.

Lemma undo_all {A} (p : A -> bool) (h : list A) x : In x (undo_of p h) -> p x = true.
Proof.
  unfold undo_of. rewrite <- in_rev. generalize (rev h). induction l as [|y t IH]; simpl; [tauto|].
  destruct (p y) eqn:E; simpl; [|tauto]. intros [<-|H]; auto.
Qed.

Lemma keep_last {A} (p : A -> bool) (h : list A) k x : keep_of p h = k ++ [x] -> p x = false.
Proof.
  unfold keep_of. intros E. assert (E' : drop_while p (rev h) = x :: rev k).
  { rewrite <- (rev_involutive (drop_while p (rev h))), E, rev_app_distr. reflexivity. }
  revert E'. generalize (rev h). induction l as [|y t IH]; simpl; [discriminate|].
  destruct (p y) eqn:Ey; auto. intros [= -> _]. exact Ey.
Qed.

Lemma flat_map_upd_perm {A} (f g : nat -> list A) k (o : list A) (ls : list nat) :
  NoDup ls -> In k ls -> f k = o ++ g k -> (forall x, x <> k -> f x = g x) ->
  Permutation (flat_map f ls) (o ++ flat_map g ls).
Proof.
  induction ls as [|a t IH]; intros Hnd Hin Hk Hoth; [contradiction|].
  inversion Hnd as [|? ? Hna Hnd']; subst. simpl. destruct Hin as [->|Hin].
  - rewrite Hk. rewrite <- app_assoc. apply Permutation_app_head.
    assert (E : flat_map f t = flat_map g t).
    { clear -Hna Hoth. induction t as [|b t IH]; simpl; auto. rewrite Hoth, IH; auto.
      - intro; apply Hna; right; auto.
      - intros ->. apply Hna; left; auto. }
    rewrite E. apply Permutation_refl.
  - assert (a <> k) by (intros ->; contradiction). rewrite (Hoth a) by auto.
    eapply perm_trans; [apply Permutation_app_head; apply IH; auto|].
    rewrite !app_assoc. apply Permutation_app_tail. apply Permutation_app_comm.
Qed.

(* flat_map over all LPs, with LP l0 singled out *)
Definition others {X Y} (f : list X -> list Y) (H : nat -> list X) (l0 : nat) : list Y :=
  flat_map (fun l => if Nat.eqb l l0 then [] else f (H l)) (seq 0 n).

Lemma split_lp {X Y} (f : list X -> list Y) (H : nat -> list X) l0 :
  l0 < n -> Permutation (flat_map (fun l => f (H l)) (seq 0 n)) (f (H l0) ++ others f H l0).
Proof.
  intros Hl. unfold others. apply flat_map_upd_perm with (k := l0).
  - apply seq_NoDup.
  - apply in_seq; lia.
  - rewrite Nat.eqb_refl, app_nil_r. reflexivity.
  - intros x Hx. destruct (Nat.eqb_spec x l0); [contradiction|reflexivity].
Qed.

Lemma others_upd {X Y} (f : list X -> list Y) (H : nat -> list X) l0 v : others f (upd H l0 v) l0 = others f H l0.
Proof. unfold others. apply flat_map_ext. intros l. unfold upd. destruct (Nat.eqb l l0); reflexivity. Qed.

Lemma split_lp_upd {X Y} (f : list X -> list Y) (H : nat -> list X) l0 v :
  l0 < n -> Permutation (flat_map (fun l => f (upd H l0 v l)) (seq 0 n)) (f v ++ others f H l0).
Proof.
  intros Hl. eapply perm_trans; [apply (split_lp f (upd H l0 v) l0 Hl)|].
  rewrite others_upd. unfold upd at 1. rewrite Nat.eqb_refl. apply Permutation_refl.
Qed.

Lemma remove1_perm (m : msg) (l : list msg) :
  In m l -> NoDup (map mid l) -> Permutation l (m :: remove1 (mid m) l).
Proof.
  induction l as [|x t IH]; simpl; [tauto|]. intros Hin Hnd. inversion Hnd as [|? ? Hx Hnd']; subst.
  destruct (Nat.eqb_spec (mid x) (mid m)) as [E|E].
  - destruct Hin as [->|Hin]; [apply Permutation_refl|]. exfalso. apply Hx. rewrite E. apply in_map; auto.
  - destruct Hin as [->|Hin]; [congruence|]. eapply perm_trans; [apply perm_skip; apply IH; auto|]. apply perm_swap.
Qed.

Lemma remove_id_perm (i : nat) (l : list nat) : In i l -> Permutation l (i :: remove_id i l).
Proof.
  induction l as [|x t IH]; simpl; [tauto|]. intros Hin.
  destruct (Nat.eqb_spec x i) as [->|E]; [apply Permutation_refl|].
  destruct Hin as [->|Hin]; [congruence|]. eapply perm_trans; [apply perm_skip; apply IH; auto|]. apply perm_swap.
Qed.

Lemma doomedb_true a m : doomedb a m = true <-> In (mid m) (antis a).
Proof. unfold doomedb. rewrite existsb_exists. split.
  - intros [x [Hx E]]. apply Nat.eqb_eq in E. subst. auto.
  - intros H. exists (mid m). split; auto. apply Nat.eqb_refl. Qed.

Lemma number_ids k l os : map mid (number k l os) = seq k (length os).
Proof. revert k; induction os as [|[d c] t IH]; intros k; simpl; auto. rewrite IH. reflexivity. Qed.
Lemma number_length k l os : length (number k l os) = length os.
Proof. revert k; induction os as [|[d c] t IH]; intros k; simpl; auto. Qed.
Lemma number_payload k l os : map (fun m => (mdest m, mc m)) (number k l os) = os.
Proof. revert k; induction os as [|[d c] t IH]; intros k; simpl; auto. rewrite IH. reflexivity. Qed.

(* ---------- the placement invariant ---------- *)
Variable init : list msg.

Record Inv (a : abs) : Prop := {
  i_nd_placed : NoDup (map mid (placed a));
  i_nd_sent : NoDup (map mid (sent init a));
  i_nd_antis : NoDup (antis a);
  i_sent_placed : incl (sent init a) (placed a);
  i_placed : forall m, In m (placed a) -> In m (sent init a) \/ In (mid m) (antis a);
  i_antis : forall i, In i (antis a) -> In i (map mid (placed a)) /\ ~ In i (map mid (sent init a));
  i_ids : forall m, In m (placed a) -> mid m < nid a
}.

(* permutation normal forms of placed / sent around one LP *)
Lemma placed_split a l : l < n ->
  Permutation (placed a) (pool a ++ map em (hist a l) ++ others (map em) (hist a) l).
Proof. intros Hl. unfold placed, hist_msgs. apply Permutation_app_head. apply (split_lp (map em) (hist a) l Hl). Qed.
Lemma sent_split a l : l < n ->
  Permutation (sent init a) (init ++ flat_map eouts (hist a l) ++ others (flat_map eouts) (hist a) l).
Proof. intros Hl. unfold sent. apply Permutation_app_head. apply (split_lp (flat_map eouts) (hist a) l Hl). Qed.


Lemma perm_map_mid (x y : list msg) : Permutation x y -> Permutation (map mid x) (map mid y).
Proof. apply Permutation_map. Qed.

Lemma nodup_cons_inv {A} (x : A) l : NoDup (x :: l) -> ~ In x l /\ NoDup l.
Proof. intros H; inversion H; auto. Qed.

Lemma step_drop_inv a m :
  Inv a -> In m (pool a) -> doomedb a m = true ->
  Inv {| hist := hist a; pool := remove1 (mid m) (pool a); antis := remove_id (mid m) (antis a); nid := nid a |}.
Proof.
  intros I Hin Hd. apply doomedb_true in Hd.
  set (a' := {| hist := hist a; pool := remove1 (mid m) (pool a); antis := remove_id (mid m) (antis a); nid := nid a |}).
  assert (Hndp : NoDup (map mid (pool a))).
  { pose proof (i_nd_placed a I) as H. unfold placed in H. rewrite map_app in H. apply nodup_app_l in H. exact H. }
  assert (Pp : Permutation (placed a) (m :: placed a')).
  { unfold placed. simpl. pose proof (remove1_perm m (pool a) Hin Hndp) as H.
    apply (Permutation_app_tail (hist_msgs a)) in H. exact H. }
  assert (Pa : Permutation (antis a) (mid m :: antis a')) by (apply remove_id_perm; auto).
  assert (Es : sent init a' = sent init a) by reflexivity.
  pose proof (Permutation_NoDup (perm_map_mid _ _ Pp) (i_nd_placed a I)) as Hnd1. simpl in Hnd1.
  apply nodup_cons_inv in Hnd1. destruct Hnd1 as [Hm1 Hnd1].
  pose proof (Permutation_NoDup Pa (i_nd_antis a I)) as Hnd2. apply nodup_cons_inv in Hnd2. destruct Hnd2 as [Hm2 Hnd2].
  destruct (i_antis a I (mid m) Hd) as [_ Hns].
  constructor.
  - exact Hnd1.
  - rewrite Es. apply (i_nd_sent a I).
  - exact Hnd2.
  - rewrite Es. intros x Hx. pose proof (i_sent_placed a I x Hx) as H. apply (Permutation_in _ Pp) in H.
    destruct H as [<-|H]; auto. exfalso. apply Hns. apply in_map. exact Hx.
  - intros x Hx. rewrite Es.
    assert (Hx' : In x (placed a)) by (apply (Permutation_in _ (Permutation_sym Pp)); right; exact Hx).
    destruct (i_placed a I x Hx') as [H|H]; auto. right.
    apply (Permutation_in _ Pa) in H. destruct H as [E|H]; auto. exfalso. apply Hm1. rewrite E. apply in_map. exact Hx.
  - intros i Hi. rewrite Es.
    assert (Hi' : In i (antis a)) by (apply (Permutation_in _ (Permutation_sym Pa)); right; exact Hi).
    destruct (i_antis a I i Hi') as [H1 H2]. split; auto.
    apply (Permutation_in _ (perm_map_mid _ _ Pp)) in H1. simpl in H1. destruct H1 as [E|H1]; auto.
    exfalso. apply Hm2. rewrite E. exact Hi.
  - intros x Hx. simpl. apply (i_ids a I). apply (Permutation_in _ (Permutation_sym Pp)). right; exact Hx.
Qed.

Lemma in_number_id k l os x : In x (number k l os) -> k <= mid x < k + length os.
Proof. intros H. apply (in_map mid) in H. rewrite number_ids in H. apply in_seq in H. exact H. Qed.

Lemma placed_lt a : Inv a -> forall i, In i (map mid (placed a)) -> i < nid a.
Proof. intros I i Hi. apply in_map_iff in Hi. destruct Hi as [x [<- Hx]]. apply (i_ids a I); auto. Qed.
Lemma sent_lt a : Inv a -> forall i, In i (map mid (sent init a)) -> i < nid a.
Proof. intros I i Hi. apply in_map_iff in Hi. destruct Hi as [x [<- Hx]]. apply (i_ids a I). apply (i_sent_placed a I); auto. Qed.

Lemma step_process_inv a l m :
  Inv a -> l < n -> In m (pool a) -> doomedb a m = false ->
  let h := hist a l in
  let keep := keep_of (dbefore a m) h in
  let undo := undo_of (dbefore a m) h in
  let outs := number (nid a) l (snd (handle l (stof l keep) (mc m))) in
  Inv {| hist := upd (hist a) l (keep ++ [{| em := m; eouts := outs |}]);
         pool := remove1 (mid m) (pool a) ++ map em undo ++ outs;
         antis := antis a ++ ids_of undo;
         nid := nid a + length outs |}.
Proof.
  intros I Hl Hin Hd h keep undo outs.
  set (e := {| em := m; eouts := outs |}).
  set (a' := {| hist := upd (hist a) l (keep ++ [e]); pool := remove1 (mid m) (pool a) ++ map em undo ++ outs;
                antis := antis a ++ ids_of undo; nid := nid a + length outs |}).
  assert (Eh : hist a l = keep ++ undo) by (apply keep_undo).
  assert (Hndp : NoDup (map mid (pool a))).
  { pose proof (i_nd_placed a I) as H. unfold placed in H. rewrite map_app in H. apply nodup_app_l in H. exact H. }
  set (Oem := others (map em) (hist a) l). set (Oout := others (flat_map eouts) (hist a) l).
  set (OK := flat_map eouts keep). set (OU := flat_map eouts undo).
  set (S0 := init ++ OK ++ Oout).
  (* normal forms *)
  pose proof (remove1_perm m (pool a) Hin Hndp) as Hr.
  assert (Pp : Permutation (placed a') (outs ++ placed a)).
  { eapply perm_trans; [| apply Permutation_app_head; apply Permutation_sym; apply (placed_split a l Hl)].
    unfold placed, hist_msgs. simpl.
    eapply perm_trans; [apply Permutation_app_head; apply (split_lp_upd (map em) (hist a) l (keep ++ [e]) Hl)|].
    fold Oem. rewrite Eh, !map_app. simpl.
    eapply perm_trans; [| apply Permutation_app_head; apply Permutation_app_tail; apply Permutation_sym; exact Hr].
    change (m :: remove1 (mid m) (pool a)) with ([m] ++ remove1 (mid m) (pool a)). aac_reflexivity. }
  assert (Ps : Permutation (sent init a) (OU ++ S0)).
  { eapply perm_trans; [apply (sent_split a l Hl)|]. rewrite Eh, flat_map_app. fold OK OU Oout. unfold S0.
    aac_reflexivity. }
  assert (Ps' : Permutation (sent init a') (outs ++ S0)).
  { unfold sent. simpl.
    eapply perm_trans; [apply Permutation_app_head; apply (split_lp_upd (flat_map eouts) (hist a) l (keep ++ [e]) Hl)|].
    fold Oout. rewrite flat_map_app. simpl. rewrite app_nil_r. fold OK. unfold S0. aac_reflexivity. }
  assert (Hfresh : forall x, In x outs -> nid a <= mid x < nid a + length outs).
  { intros x Hx. unfold outs in Hx. pose proof (in_number_id _ _ _ _ Hx) as H. unfold outs. rewrite number_length. exact H. }
  pose proof (Permutation_NoDup (perm_map_mid _ _ Ps) (i_nd_sent a I)) as HndS. rewrite map_app in HndS.
  assert (HS0 : forall x, In x S0 -> In x (sent init a)).
  { intros x Hx. apply (Permutation_in _ (Permutation_sym Ps)). apply in_or_app; auto. }
  assert (HOU : forall x, In x OU -> In x (sent init a)).
  { intros x Hx. apply (Permutation_in _ (Permutation_sym Ps)). apply in_or_app; auto. }
  constructor.
  - (* NoDup placed' *)
    apply (Permutation_NoDup (Permutation_sym (perm_map_mid _ _ Pp))). rewrite map_app.
    apply nodup_app_intro.
    + unfold outs. rewrite number_ids. apply seq_NoDup.
    + apply (i_nd_placed a I).
    + intros i H1 H2. apply in_map_iff in H1. destruct H1 as [x [<- Hx]]. apply Hfresh in Hx.
      apply (placed_lt a I) in H2. lia.
  - (* NoDup sent' *)
    apply (Permutation_NoDup (Permutation_sym (perm_map_mid _ _ Ps'))). rewrite map_app.
    apply nodup_app_intro.
    + unfold outs. rewrite number_ids. apply seq_NoDup.
    + apply nodup_app_r in HndS. exact HndS.
    + intros i H1 H2. apply in_map_iff in H1. destruct H1 as [x [<- Hx]]. apply Hfresh in Hx.
      apply in_map_iff in H2. destruct H2 as [y [E Hy]]. apply HS0 in Hy.
      assert (mid y < nid a) by (apply (sent_lt a I); apply in_map; auto). lia.
  - (* NoDup antis' *)
    simpl. apply nodup_app_intro.
    + apply (i_nd_antis a I).
    + unfold ids_of. fold OU. apply nodup_app_l in HndS. exact HndS.
    + intros i H1 H2. destruct (i_antis a I i H1) as [_ Hn]. apply Hn.
      unfold ids_of in H2. fold OU in H2. apply in_map_iff in H2. destruct H2 as [x [<- Hx]]. apply in_map. apply HOU; auto.
  - (* sent' ⊆ placed' *)
    intros x Hx. apply (Permutation_in _ Ps') in Hx. apply (Permutation_in _ (Permutation_sym Pp)).
    apply in_app_or in Hx. apply in_or_app. destruct Hx as [Hx|Hx]; auto. right. apply (i_sent_placed a I). auto.
  - (* placed' is sent' or doomed *)
    intros x Hx. apply (Permutation_in _ Pp) in Hx. apply in_app_or in Hx. destruct Hx as [Hx|Hx].
    + left. apply (Permutation_in _ (Permutation_sym Ps')). apply in_or_app; auto.
    + destruct (i_placed a I x Hx) as [H|H].
      * apply (Permutation_in _ Ps) in H. apply in_app_or in H. destruct H as [H|H].
        -- right. simpl. apply in_or_app. right. unfold ids_of. fold OU. apply in_map; auto.
        -- left. apply (Permutation_in _ (Permutation_sym Ps')). apply in_or_app; auto.
      * right. simpl. apply in_or_app; auto.
  - (* antis' are placed' and not sent' *)
    intros i Hi. simpl in Hi. apply in_app_or in Hi.
    assert (Hpl : In i (map mid (placed a))).
    { destruct Hi as [Hi|Hi]; [apply (i_antis a I i Hi)|].
      unfold ids_of in Hi. fold OU in Hi. apply in_map_iff in Hi. destruct Hi as [x [<- Hx]].
      apply in_map. apply (i_sent_placed a I). apply HOU; auto. }
    split.
    + apply (Permutation_in _ (Permutation_sym (perm_map_mid _ _ Pp))). rewrite map_app. apply in_or_app; auto.
    + intro Hs. apply (Permutation_in _ (perm_map_mid _ _ Ps')) in Hs. rewrite map_app in Hs.
      apply in_app_or in Hs. destruct Hs as [Hs|Hs].
      * apply in_map_iff in Hs. destruct Hs as [x [<- Hx]]. apply Hfresh in Hx. apply (placed_lt a I) in Hpl. lia.
      * destruct Hi as [Hi|Hi].
        -- destruct (i_antis a I i Hi) as [_ Hn]. apply Hn.
           apply in_map_iff in Hs. destruct Hs as [x [<- Hx]]. apply in_map. apply HS0; auto.
        -- unfold ids_of in Hi. fold OU in Hi. eapply nodup_app_disj; [exact HndS| exact Hi | exact Hs].
  - (* ids *)
    intros x Hx. simpl. apply (Permutation_in _ Pp) in Hx. apply in_app_or in Hx. destruct Hx as [Hx|Hx].
    + apply Hfresh in Hx. lia.
    + pose proof (i_ids a I x Hx). lia.
Qed.

Lemma step_cancel_inv a l h1 e h2 :
  Inv a -> l < n -> hist a l = h1 ++ e :: h2 -> doomedb a (em e) = true ->
  Inv {| hist := upd (hist a) l h1; pool := pool a ++ map em h2;
         antis := remove_id (mid (em e)) (antis a) ++ ids_of (e :: h2); nid := nid a |}.
Proof.
  intros I Hl Eh Hd. apply doomedb_true in Hd.
  set (a' := {| hist := upd (hist a) l h1; pool := pool a ++ map em h2;
                antis := remove_id (mid (em e)) (antis a) ++ ids_of (e :: h2); nid := nid a |}).
  set (Oem := others (map em) (hist a) l). set (Oout := others (flat_map eouts) (hist a) l).
  set (OU := flat_map eouts (e :: h2)). set (S0 := init ++ flat_map eouts h1 ++ Oout).
  set (ra := remove_id (mid (em e)) (antis a)).
  assert (Pp : Permutation (placed a) (em e :: placed a')).
  { eapply perm_trans; [apply (placed_split a l Hl)|]. fold Oem. rewrite Eh, map_app. simpl.
    unfold placed, hist_msgs. simpl.
    eapply perm_trans; [|apply perm_skip; apply Permutation_app_head; apply Permutation_sym;
                         apply (split_lp_upd (map em) (hist a) l h1 Hl)].
    fold Oem. change (em e :: map em h2) with ([em e] ++ map em h2).
    change (em e :: (pool a ++ map em h2) ++ map em h1 ++ Oem) with ([em e] ++ (pool a ++ map em h2) ++ map em h1 ++ Oem).
    aac_reflexivity. }
  assert (Ps : Permutation (sent init a) (OU ++ S0)).
  { eapply perm_trans; [apply (sent_split a l Hl)|]. fold Oout. rewrite Eh, flat_map_app. fold OU. unfold S0. aac_reflexivity. }
  assert (Ps' : Permutation (sent init a') S0).
  { unfold sent. simpl. apply Permutation_app_head. apply (split_lp_upd (flat_map eouts) (hist a) l h1 Hl). }
  assert (Pa : Permutation (antis a) (mid (em e) :: ra)) by (apply remove_id_perm; auto).
  pose proof (Permutation_NoDup (perm_map_mid _ _ Pp) (i_nd_placed a I)) as Hnd1. simpl in Hnd1.
  apply nodup_cons_inv in Hnd1. destruct Hnd1 as [Hm1 Hnd1].
  pose proof (Permutation_NoDup Pa (i_nd_antis a I)) as Hnd2. apply nodup_cons_inv in Hnd2. destruct Hnd2 as [Hm2 Hnd2].
  pose proof (Permutation_NoDup (perm_map_mid _ _ Ps) (i_nd_sent a I)) as HndS. rewrite map_app in HndS.
  destruct (i_antis a I _ Hd) as [_ Hens].
  assert (HS0 : forall x, In x S0 -> In x (sent init a)).
  { intros x Hx. apply (Permutation_in _ (Permutation_sym Ps)). apply in_or_app; auto. }
  assert (HOU : forall x, In x OU -> In x (sent init a)).
  { intros x Hx. apply (Permutation_in _ (Permutation_sym Ps)). apply in_or_app; auto. }
  assert (Hra : forall i, In i ra -> In i (antis a)).
  { intros i Hi. apply (Permutation_in _ (Permutation_sym Pa)). right; auto. }
  assert (Hpl' : forall x, In x (placed a') -> In x (placed a)).
  { intros x Hx. apply (Permutation_in _ (Permutation_sym Pp)). right; auto. }
  constructor.
  - exact Hnd1.
  - apply (Permutation_NoDup (Permutation_sym (perm_map_mid _ _ Ps'))). apply nodup_app_r in HndS. exact HndS.
  - simpl. fold ra. apply nodup_app_intro; auto.
    + unfold ids_of. fold OU. apply nodup_app_l in HndS. exact HndS.
    + intros i H1 H2. destruct (i_antis a I i (Hra i H1)) as [_ Hn]. apply Hn.
      unfold ids_of in H2. fold OU in H2. apply in_map_iff in H2. destruct H2 as [x [<- Hx]]. apply in_map. auto.
  - intros x Hx. apply (Permutation_in _ Ps') in Hx. pose proof (i_sent_placed a I x (HS0 x Hx)) as H.
    apply (Permutation_in _ Pp) in H. destruct H as [<-|H]; auto.
    exfalso. apply Hens. apply in_map. auto.
  - intros x Hx. destruct (i_placed a I x (Hpl' x Hx)) as [H|H].
    + apply (Permutation_in _ Ps) in H. apply in_app_or in H. destruct H as [H|H].
      * right. simpl. apply in_or_app. right. unfold ids_of. fold OU. apply in_map; auto.
      * left. apply (Permutation_in _ (Permutation_sym Ps')). exact H.
    + apply (Permutation_in _ Pa) in H. destruct H as [E|H].
      * exfalso. apply Hm1. rewrite E. apply in_map. exact Hx.
      * right. simpl. apply in_or_app. left. exact H.
  - intros i Hi. simpl in Hi. fold ra in Hi. apply in_app_or in Hi.
    assert (Hpl : In i (map mid (placed a'))).
    { destruct Hi as [Hi|Hi].
      - destruct (i_antis a I i (Hra i Hi)) as [H1 _].
        apply (Permutation_in _ (perm_map_mid _ _ Pp)) in H1. simpl in H1. destruct H1 as [E|H1]; auto.
        exfalso. apply Hm2. rewrite E. exact Hi.
      - unfold ids_of in Hi. fold OU in Hi. apply in_map_iff in Hi. destruct Hi as [x [<- Hx]].
        pose proof (i_sent_placed a I x (HOU x Hx)) as H. apply (Permutation_in _ Pp) in H.
        destruct H as [E|H]; [|apply in_map; auto]. exfalso. apply Hens. rewrite E. apply in_map. auto. }
    split; auto. intro Hs. apply (Permutation_in _ (perm_map_mid _ _ Ps')) in Hs.
    destruct Hi as [Hi|Hi].
    + destruct (i_antis a I i (Hra i Hi)) as [_ Hn]. apply Hn.
      apply in_map_iff in Hs. destruct Hs as [x [<- Hx]]. apply in_map. auto.
    + unfold ids_of in Hi. fold OU in Hi. eapply nodup_app_disj; [exact HndS|exact Hi|exact Hs].
  - intros x Hx. simpl. apply (i_ids a I). auto.
Qed.

Theorem step_inv a a' : Inv a -> step a a' -> Inv a'.
Proof.
  intros I S. destruct S.
  - apply step_process_inv; auto.
  - apply step_drop_inv; auto.
  - apply step_cancel_inv; auto.
Qed.

(* ================= part 2: well-formedness and sortedness ================= *)
Hypothesis tlt_negtrans : forall a b c, ~ tlt b a -> ~ tlt c b -> ~ tlt c a.   (* a <=t b, b <=t c  =>  a <=t c *)

Definition con (e : entry) : C := mc (em e).

Definition entry_ok (l : nat) (h1 : list entry) (e : entry) : Prop :=
  map (fun m => (mdest m, mc m)) (eouts e) = snd (handle l (stof l h1) (con e)) /\ mdest (em e) = l.
Definition hist_ok (l : nat) (h : list entry) : Prop := forall h1 e h2, h = h1 ++ e :: h2 -> entry_ok l h1 e.
Definition tsorted (h : list entry) : Prop :=
  forall h1 e h2, h = h1 ++ e :: h2 -> forall x, In x h1 -> ~ tlt (con e) (con x).
Definition csorted (a : abs) (h : list entry) : Prop :=
  forall h1 e h2, h = h1 ++ e :: h2 -> (forall x, In x (h1 ++ [e]) -> doomedb a (em x) = false) ->
  forall x, In x h1 -> cle (con x) (con e).

Record Inv2 (a : abs) : Prop := {
  j_out : forall l, hist a l = [] \/ l < n;
  j_ok : forall l, hist_ok l (hist a l);
  j_ts : forall l, tsorted (hist a l);
  j_cs : forall l, csorted a (hist a l)
}.

Lemma app_cons_split {A} (k : list A) (x : A) (h1 : list A) (e : A) (h2 : list A) :
  k ++ [x] = h1 ++ e :: h2 -> (h2 = [] /\ h1 = k /\ e = x) \/ (exists h2', h2 = h2' ++ [x] /\ k = h1 ++ e :: h2').
Proof.
  revert h1. induction k as [|y k IH]; intros h1 E.
  - destruct h1 as [|z h1]; simpl in E.
    + injection E as -> <-. left; auto.
    + injection E as _ E. destruct h1; discriminate.
  - destruct h1 as [|z h1]; simpl in E.
    + injection E as <- E. right. exists k. split; auto.
    + injection E as <- E. destruct (IH h1 E) as [[-> [-> ->]]|[h2' [-> ->]]].
      * left; auto.
      * right. exists h2'. split; auto.
Qed.

Lemma hist_ok_prefix l h t : hist_ok l (h ++ t) -> hist_ok l h.
Proof. intros H h1 e h2 E. apply (H h1 e (h2 ++ t)). rewrite E, <- app_assoc. reflexivity. Qed.
Lemma tsorted_prefix h t : tsorted (h ++ t) -> tsorted h.
Proof. intros H h1 e h2 E. apply (H h1 e (h2 ++ t)). rewrite E, <- app_assoc. reflexivity. Qed.
Lemma hist_ok_snoc l h e : hist_ok l h -> entry_ok l h e -> hist_ok l (h ++ [e]).
Proof.
  intros H He h1 e' h2 E. destruct (app_cons_split _ _ _ _ _ E) as [[-> [-> ->]]|[h2' [-> ->]]]; auto.
  apply (H h1 e' h2'). reflexivity.
Qed.

Lemma cle_refl a : cle a a. Proof. right; reflexivity. Qed.
Lemma cle_trans a b c : cle a b -> cle b c -> cle a c.
Proof. intros [H| ->] [H'| ->]; unfold cle; eauto. Qed.
Lemma not_clt_cle a b : ~ clt a b -> cle b a.
Proof. intros H. destruct (clt_total a b) as [H'|[->|H']]; [contradiction|apply cle_refl|left; auto]. Qed.

Lemma doomedb_false a x : doomedb a x = false <-> ~ In (mid x) (antis a).
Proof. rewrite <- doomedb_true. destruct (doomedb a x); split; intro H.
  - discriminate.
  - exfalso; apply H; reflexivity.
  - intro; discriminate.
  - reflexivity. Qed.

Lemma doomed_mono a a' x : incl (antis a) (antis a') -> doomedb a' x = false -> doomedb a x = false.
Proof. intros Hi H. apply doomedb_false. apply doomedb_false in H. auto. Qed.

Lemma snoc_cases {A} (l : list A) : l = [] \/ exists k y, l = k ++ [y].
Proof. induction l as [|x t IH] using rev_ind; [left; auto|right; eauto]. Qed.

(* the last kept entry bounds the new message from below, in timestamp and (if nothing kept is cancelled) in content *)
Lemma keep_ts_bound a m h : tsorted h -> forall x, In x (keep_of (dbefore a m) h) -> ~ tlt (mc m) (con x).
Proof.
  intros Hts x Hx. set (p := dbefore a m) in *.
  pose proof (keep_undo p h) as Eh.
  destruct (snoc_cases (keep_of p h)) as [Ek|[k [y Ek]]]; [rewrite Ek in Hx; contradiction|].
  rewrite Ek in Hx, Eh.
  pose proof (keep_last p h k y Ek) as Hy.
  assert (Hmy : ~ tlt (mc m) (con y)).
  { unfold p, dbefore in Hy. destruct (doomedb a (em y)).
    - unfold tlt, con. rewrite Hy. discriminate.
    - intro H. apply tlt_clt in H. unfold clt, con in H. congruence. }
  apply in_app_or in Hx. destruct Hx as [Hx|[<-|[]]]; auto.
  apply (tlt_negtrans (con x) (con y) (mc m)); auto.
  apply (Hts k y (undo_of p h)); auto. rewrite <- app_assoc in Eh. exact Eh.
Qed.

Lemma keep_cs_bound a m h : csorted a h ->
  (forall x, In x (keep_of (dbefore a m) h) -> doomedb a (em x) = false) ->
  forall x, In x (keep_of (dbefore a m) h) -> cle (con x) (mc m).
Proof.
  intros Hcs Hlive x Hx. set (p := dbefore a m) in *.
  pose proof (keep_undo p h) as Eh.
  destruct (snoc_cases (keep_of p h)) as [Ek|[k [y Ek]]]; [rewrite Ek in Hx; contradiction|].
  rewrite Ek in Hx, Eh, Hlive.
  pose proof (keep_last p h k y Ek) as Hy.
  assert (Hym : cle (con y) (mc m)).
  { unfold p, dbefore in Hy. rewrite (Hlive y) in Hy by (apply in_or_app; right; left; auto).
    apply not_clt_cle. unfold clt, con. congruence. }
  apply in_app_or in Hx. destruct Hx as [Hx|[<-|[]]]; auto.
  eapply cle_trans; [|exact Hym].
  apply (Hcs k y (undo_of p h)); auto.
  rewrite <- app_assoc in Eh. exact Eh.
Qed.

Lemma in_others_em a l l' x : l' < n -> l' <> l -> In x (hist a l') -> In (em x) (others (map em) (hist a) l).
Proof.
  intros Hl Hne Hx. unfold others. apply in_flat_map. exists l'. split; [apply in_seq; lia|].
  destruct (Nat.eqb_spec l' l); [contradiction|]. apply in_map; auto.
Qed.

(* ids of processed messages are pairwise distinct, and distinct from the ids of pending ones *)
Lemma hist_id_distinct a l h1 e h2 : Inv a -> l < n -> hist a l = h1 ++ e :: h2 ->
  (forall m, In m (pool a) -> mid m <> mid (em e)) /\
  (forall x, In x (h1 ++ h2) -> mid (em x) <> mid (em e)) /\
  (forall l' x, l' < n -> l' <> l -> In x (hist a l') -> mid (em x) <> mid (em e)).
Proof.
  intros I Hl Eh.
  set (rest := pool a ++ map em h1 ++ map em h2 ++ others (map em) (hist a) l).
  assert (P : Permutation (placed a) (em e :: rest)).
  { eapply perm_trans; [apply (placed_split a l Hl)|]. rewrite Eh, map_app. simpl. unfold rest.
    change (em e :: map em h2) with ([em e] ++ map em h2).
    change (em e :: pool a ++ map em h1 ++ map em h2 ++ others (map em) (hist a) l)
      with ([em e] ++ pool a ++ map em h1 ++ map em h2 ++ others (map em) (hist a) l). aac_reflexivity. }
  pose proof (Permutation_NoDup (perm_map_mid _ _ P) (i_nd_placed a I)) as Hnd. simpl in Hnd.
  apply nodup_cons_inv in Hnd. destruct Hnd as [Hne _].
  assert (Hrest : forall y, In y rest -> mid y <> mid (em e)).
  { intros y Hy E. apply Hne. rewrite <- E. apply in_map; auto. }
  repeat split.
  - intros m Hm. apply Hrest. unfold rest. apply in_or_app; auto.
  - intros x Hx. apply Hrest. unfold rest. apply in_or_app. right. apply in_app_or in Hx.
    destruct Hx as [Hx|Hx]; [apply in_or_app; left | apply in_or_app; right; apply in_or_app; left]; apply in_map; auto.
  - intros l' x Hl' Hne' Hx. apply Hrest. unfold rest. do 3 (apply in_or_app; right). apply (in_others_em a l l' x); auto.
Qed.

Lemma remove_id_in i j l : In i l -> i <> j -> In i (remove_id j l).
Proof. induction l as [|x t IH]; simpl; [tauto|]. intros [->|H] Hne.
  - destruct (Nat.eqb_spec i j); [contradiction|left; auto].
  - destruct (Nat.eqb_spec x j); auto. right; auto. Qed.
Lemma remove_id_incl j l : incl (remove_id j l) l.
Proof. induction l as [|x t IH]; simpl; [apply incl_refl|]. destruct (Nat.eqb_spec x j).
  - apply incl_tl, incl_refl.
  - intros y [->|Hy]; [left; auto|right; apply IH; auto]. Qed.

Lemma csorted_mono a a' h :
  (forall x, In x h -> doomedb a' (em x) = false -> doomedb a (em x) = false) -> csorted a h -> csorted a' h.
Proof.
  intros Hm Hcs h1 e h2 E Hlive x Hx. apply (Hcs h1 e h2 E); auto.
  intros y Hy. apply Hm; auto. rewrite E. apply in_app_or in Hy. apply in_or_app.
  destruct Hy as [Hy|[<-|[]]]; [left; auto|right; left; auto].
Qed.

Lemma csorted_prefix a h t : csorted a (h ++ t) -> csorted a h.
Proof. intros H h1 e h2 E. apply (H h1 e (h2 ++ t)). rewrite E, <- app_assoc. reflexivity. Qed.

Theorem step_inv2 a a' : Inv a -> Inv2 a -> step a a' -> Inv2 a'.
Proof.
  intros I J S. destruct S as [a l m Hl Hin Hdest Hd h keep undo outs | a m Hin Hd | a l h1 e h2 Hl Eh Hd].
  - (* process *)
    assert (Eh : hist a l = keep ++ undo) by apply keep_undo.
    match goal with |- Inv2 ?A => set (a' := A) end.
    assert (Hinc : incl (antis a) (antis a')) by (simpl; apply incl_appl, incl_refl).
    constructor; simpl.
    + intros l'. unfold upd. destruct (Nat.eqb_spec l' l) as [->|]; [right; auto|apply (j_out a J)].
    + intros l'. unfold upd. destruct (Nat.eqb_spec l' l) as [->|]; [|apply (j_ok a J)].
      apply hist_ok_snoc.
      * apply hist_ok_prefix with undo. rewrite <- Eh. apply (j_ok a J).
      * split; simpl; auto. unfold outs. apply number_payload.
    + intros l'. unfold upd. destruct (Nat.eqb_spec l' l) as [->|]; [|apply (j_ts a J)].
      intros h1 e h2 E. destruct (app_cons_split _ _ _ _ _ E) as [[-> [-> ->]]|[h2' [-> Ek]]].
      * intros x Hx. apply (keep_ts_bound a m (hist a l)); auto. apply (j_ts a J).
      * assert (Hts : tsorted keep) by (apply tsorted_prefix with undo; rewrite <- Eh; apply (j_ts a J)).
        apply (Hts h1 e h2'). exact Ek.
    + intros l'. unfold upd. destruct (Nat.eqb_spec l' l) as [->|].
      * intros h1 e h2 E Hlive. destruct (app_cons_split _ _ _ _ _ E) as [[-> [-> ->]]|[h2' [-> Ek]]].
        -- intros x Hx. apply (keep_cs_bound a m (hist a l)); auto; [apply (j_cs a J)|].
           intros y Hy. apply (doomed_mono a a' (em y) Hinc). apply Hlive. apply in_or_app; auto.
        -- assert (Hcs : csorted a keep) by (apply csorted_prefix with undo; rewrite <- Eh; apply (j_cs a J)).
           apply (Hcs h1 e h2' Ek). intros y Hy. apply (doomed_mono a a' (em y) Hinc). auto.
      * apply csorted_mono with a; [|apply (j_cs a J)]. intros x _. apply (doomed_mono a a' (em x) Hinc).
  - (* drop a cancelled pending message: no history entry changes status *)
    constructor; simpl; try apply J.
    intros l. apply csorted_mono with a; [|apply (j_cs a J)].
    intros x Hx Hf. apply doomedb_false. apply doomedb_false in Hf. simpl in Hf. intro Hi. apply Hf.
    apply remove_id_in; auto.
    destruct (j_out a J l) as [E|Hl]; [rewrite E in Hx; contradiction|].
    destruct (in_split _ _ Hx) as [h1 [h2 Eh]].
    destruct (hist_id_distinct a l h1 x h2 I Hl Eh) as [H1 _]. intro E. apply (H1 m Hin). auto.
  - (* cancel a processed message *)
    constructor; simpl.
    + intros l'. unfold upd. destruct (Nat.eqb_spec l' l) as [->|]; [right; auto|apply (j_out a J)].
    + intros l'. unfold upd. destruct (Nat.eqb_spec l' l) as [->|]; [|apply (j_ok a J)].
      apply hist_ok_prefix with (e :: h2). rewrite <- Eh. apply (j_ok a J).
    + intros l'. unfold upd. destruct (Nat.eqb_spec l' l) as [->|]; [|apply (j_ts a J)].
      apply tsorted_prefix with (e :: h2). rewrite <- Eh. apply (j_ts a J).
    + destruct (hist_id_distinct a l h1 e h2 I Hl Eh) as [_ [H2 H3]].
      assert (Hkeep : forall i, In i (antis a) -> i <> mid (em e) ->
                                In i (remove_id (mid (em e)) (antis a) ++ ids_of (e :: h2))).
      { intros i Hi Hne. apply in_or_app. left. apply remove_id_in; auto. }
      intros l'. unfold upd. destruct (Nat.eqb_spec l' l) as [->|Hne].
      * apply csorted_mono with a.
        -- intros x Hx Hf. apply doomedb_false. apply doomedb_false in Hf. simpl in Hf. intro Hi. apply Hf.
           apply Hkeep; auto. apply H2. apply in_or_app; auto.
        -- apply csorted_prefix with (e :: h2). rewrite <- Eh. apply (j_cs a J).
      * apply csorted_mono with a; [|apply (j_cs a J)].
        intros x Hx Hf. apply doomedb_false. apply doomedb_false in Hf. simpl in Hf. intro Hi. apply Hf.
        apply Hkeep; auto. destruct (j_out a J l') as [E|Hl']; [rewrite E in Hx; contradiction|].
        apply (H3 l' x); auto.
Qed.
End Abs.
Check step_inv.
Check step_inv2.
