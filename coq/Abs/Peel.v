(* scratch prototype: a family of sorted, mutually closed per-LP histories IS the sequential execution *)
From Coq Require Import List Arith Lia Permutation Sorted Bool.
Import ListNotations.

Section Peel.
Variable C : Type.
Variable clt : C -> C -> Prop.
Hypothesis clt_irrefl : forall a, ~ clt a a.
Hypothesis clt_trans : forall a b c, clt a b -> clt b c -> clt a c.
Hypothesis clt_total : forall a b, clt a b \/ a = b \/ clt b a.
Definition cle a b := clt a b \/ a = b.

Variable St : Type.
Definition Ev := (nat * C)%type.
Variable handle : nat -> St -> C -> St * list Ev.
Variable n : nat.
(* strict validity: every output is strictly after its cause, and goes to an existing LP *)
Hypothesis valid : forall l s c o, In o (snd (handle l s c)) -> clt c (snd o) /\ fst o < n.

Fixpoint run (l : nat) (s : St) (h : list C) : St * list Ev :=
  match h with
  | [] => (s, [])
  | c :: t => let '(s1, o) := handle l s c in let '(s2, os) := run l s1 t in (s2, o ++ os)
  end.

Definition upd {A} (f : nat -> A) (k : nat) (v : A) : nat -> A := fun x => if Nat.eqb x k then v else f x.

Definition outs_of (sg : nat -> St) (H : nat -> list C) (l : nat) : list Ev := snd (run l (sg l) (H l)).
Definition all_outs sg H : list Ev := flat_map (outs_of sg H) (seq 0 n).
Definition proj (l : nat) (es : list Ev) : list C := map snd (filter (fun e => Nat.eqb (fst e) l) es).

Definition closed sg (P : list Ev) (H : nat -> list C) : Prop :=
  forall l, l < n -> Permutation (H l) (proj l (P ++ all_outs sg H)).
Definition sortedH (H : nat -> list C) : Prop := forall l, l < n -> StronglySorted cle (H l).
Definition dests_ok (P : list Ev) : Prop := forall e, In e P -> fst e < n.

(* the sequential executor, relationally: always process a content-minimal pending event *)
Definition minimal (e : Ev) (P : list Ev) : Prop := In e P /\ forall p, In p P -> ~ clt (snd p) (snd e).
Inductive seqrun : (nat -> St) -> list Ev -> list Ev -> Prop :=
| seq_nil : forall sg, seqrun sg [] []
| seq_cons : forall sg P e P1 s' o tr,
    minimal e P -> Permutation P (e :: P1) ->
    handle (fst e) (sg (fst e)) (snd e) = (s', o) ->
    seqrun (upd sg (fst e) s') (o ++ P1) tr ->
    seqrun sg P (e :: tr).

(* ---------- basic facts ---------- *)
Lemma cle_refl a : cle a a. Proof. right; reflexivity. Qed.
Lemma cle_trans a b c : cle a b -> cle b c -> cle a c.
Proof. intros [H| ->] [H'| ->]; unfold cle; eauto. Qed.
Lemma cle_antisym a b : cle a b -> cle b a -> a = b.
Proof. intros [H| ->] [H'|H']; auto. exfalso; eapply clt_irrefl; eauto. Qed.
Lemma clt_cle_false a b : clt a b -> cle b a -> False.
Proof. intros H [H'| ->]; [eapply clt_irrefl; eauto | eapply clt_irrefl; eauto]. Qed.

Lemma proj_perm l a b : Permutation a b -> Permutation (proj l a) (proj l b).
Proof. intros H. unfold proj. apply Permutation_map.
  induction H; simpl; auto.
  - destruct (Nat.eqb (fst x) l); auto.
  - destruct (Nat.eqb (fst x) l), (Nat.eqb (fst y) l); auto. apply perm_swap.
  - eapply perm_trans; eauto.
Qed.

Lemma in_proj l c es : In c (proj l es) <-> In (l, c) es.
Proof. unfold proj. rewrite in_map_iff. split.
  - intros [[l' c'] [<- Hin]]. apply filter_In in Hin. destruct Hin as [Hin Heq]. simpl in *.
    apply Nat.eqb_eq in Heq. subst. exact Hin.
  - intros Hin. exists (l, c). split; auto. apply filter_In. split; auto. simpl. apply Nat.eqb_refl.
Qed.

Lemma proj_cons l e es : proj l (e :: es) = if Nat.eqb (fst e) l then snd e :: proj l es else proj l es.
Proof. unfold proj. simpl. destruct (Nat.eqb (fst e) l); reflexivity. Qed.

(* every output of a run has a strictly earlier cause inside the history that produced it *)
Lemma run_out_cause l : forall h s o, In o (snd (run l s h)) -> exists c, In c h /\ clt c (snd o) /\ fst o < n.
Proof.
  induction h as [|c t IH]; simpl; intros s o Hin; [contradiction|].
  destruct (handle l s c) as [s1 o1] eqn:Hh. destruct (run l s1 t) as [s2 os] eqn:Hr. simpl in Hin.
  apply in_app_or in Hin. destruct Hin as [Hin|Hin].
  - exists c. split; [left; reflexivity|]. apply (valid l s c o). rewrite Hh. exact Hin.
  - specialize (IH s1 o). rewrite Hr in IH. destruct (IH Hin) as [c' [H1 H2]]. exists c'. split; [right|]; auto.
Qed.

Lemma in_all_outs sg H o : In o (all_outs sg H) -> exists l, l < n /\ In o (outs_of sg H l).
Proof. unfold all_outs. rewrite in_flat_map. intros [l [Hl Hin]]. apply in_seq in Hl. exists l. split; [lia|auto]. Qed.

(* a nonempty finite list has a least element *)
Lemma exists_min (l : list C) : l <> [] -> exists m, In m l /\ forall x, In x l -> cle m x.
Proof.
  induction l as [|a t IH]; [congruence|]. intros _. destruct t as [|b t'].
  - exists a. split; [left; auto|]. intros x [<-|[]]. apply cle_refl.
  - destruct IH as [m [Hm Hmin]]; [congruence|].
    destruct (clt_total a m) as [H|[H|H]].
    + exists a. split; [left; auto|]. intros x [<-|Hx]; [apply cle_refl|]. eapply cle_trans; [left; exact H|]. auto.
    + subst. exists m. split; [left; auto|]. intros x [<-|Hx]; [apply cle_refl|auto].
    + exists m. split; [right; auto|]. intros x [<-|Hx]; [left; auto|auto].
Qed.

Definition head_of (H : nat -> list C) (l : nat) : list C := match H l with [] => [] | c :: _ => [c] end.

Lemma StronglySorted_head_le (h : C) t c : StronglySorted cle (h :: t) -> In c (h :: t) -> cle h c.
Proof. intros HS [<-|Hin]; [apply cle_refl|]. inversion HS as [|? ? _ Hall]; subst.
  rewrite Forall_forall in Hall. auto. Qed.

Lemma min_head_in_P sg P H :
  closed sg P H -> sortedH H -> (exists l, l < n /\ H l <> []) ->
  exists lm cm tm, lm < n /\ H lm = cm :: tm /\ (forall l c, l < n -> In c (H l) -> cle cm c) /\ In (lm, cm) P.
Proof.
  intros Hcl Hso [l0 [Hl0 Hne]].
  set (heads := flat_map (head_of H) (seq 0 n)).
  assert (Hh : heads <> []).
  { intro E. destruct (H l0) as [|c t] eqn:El; [congruence|].
    assert (In c heads) as Hin.
    { unfold heads. apply in_flat_map. exists l0. split; [apply in_seq; lia|]. unfold head_of. rewrite El. left; auto. }
    rewrite E in Hin. contradiction. }
  destruct (exists_min heads Hh) as [cm [Hcm Hmin]].
  unfold heads in Hcm. apply in_flat_map in Hcm. destruct Hcm as [lm [Hlm Hin]]. apply in_seq in Hlm.
  unfold head_of in Hin. destruct (H lm) as [|c tm] eqn:Elm; [contradiction|]. destruct Hin as [->|[]].
  assert (Hle : forall l c, l < n -> In c (H l) -> cle cm c).
  { intros l c Hl Hc. destruct (H l) as [|h t] eqn:El; [contradiction|].
    assert (In h heads) as Hh'.
    { unfold heads. apply in_flat_map. exists l. split; [apply in_seq; lia|]. unfold head_of. rewrite El. left; auto. }
    eapply cle_trans; [apply Hmin; exact Hh'|]. apply (StronglySorted_head_le h t c); auto.
    specialize (Hso l Hl). rewrite El in Hso. exact Hso. }
  exists lm, cm, tm. repeat split; auto; try lia.
  assert (Hlm' : lm < n) by lia.
  pose proof (Hcl lm Hlm') as Hp. rewrite Elm in Hp.
  assert (In cm (proj lm (P ++ all_outs sg H))) as Hin.
  { eapply Permutation_in; [exact Hp|left; auto]. }
  apply in_proj in Hin. apply in_app_or in Hin. destruct Hin as [Hin|Hin]; [exact Hin|].
  exfalso. apply in_all_outs in Hin. destruct Hin as [l' [Hl' Hin]].
  unfold outs_of in Hin. apply run_out_cause in Hin. destruct Hin as [c' [Hc' [Hlt _]]]. simpl in Hlt.
  eapply clt_cle_false; [exact Hlt|]. apply (Hle l' c'); auto.
Qed.

Lemma flat_map_upd_perm {A} (f g : nat -> list A) k (o : list A) (ls : list nat) :
  NoDup ls -> In k ls -> f k = o ++ g k -> (forall x, x <> k -> f x = g x) ->
  Permutation (flat_map f ls) (o ++ flat_map g ls).
Proof.
  induction ls as [|a t IH]; intros Hnd Hin Hk Hoth; [contradiction|].
  inversion Hnd as [|? ? Hna Hnd']; subst. simpl. destruct Hin as [->|Hin].
  - rewrite Hk. rewrite <- app_assoc. apply Permutation_app_head. apply Permutation_app_head.
    assert (E : flat_map f t = flat_map g t).
    { clear -Hna Hoth. induction t as [|b t IH]; simpl; auto. rewrite Hoth, IH; auto.
      - intro; apply Hna; right; auto.
      - intros ->. apply Hna; left; auto. }
    rewrite E. apply Permutation_refl.
  - assert (a <> k) by (intros ->; contradiction). rewrite (Hoth a) by auto.
    eapply perm_trans; [apply Permutation_app_head; apply IH; auto|].
    rewrite !app_assoc. apply Permutation_app_tail. apply Permutation_app_comm.
Qed.

Lemma run_cons l s c t s' o : handle l s c = (s', o) -> snd (run l s (c :: t)) = o ++ snd (run l s' t).
Proof. intros Hh. simpl. rewrite Hh. destruct (run l s' t); reflexivity. Qed.

Lemma all_outs_peel sg H l0 c t0 s' o :
  l0 < n -> H l0 = c :: t0 -> handle l0 (sg l0) c = (s', o) ->
  Permutation (all_outs sg H) (o ++ all_outs (upd sg l0 s') (upd H l0 t0)).
Proof.
  intros Hl Hh Hd. unfold all_outs. apply flat_map_upd_perm with (k := l0).
  - apply seq_NoDup.
  - apply in_seq; lia.
  - unfold outs_of, upd. rewrite Nat.eqb_refl, Hh. apply run_cons; auto.
  - intros x Hx. unfold outs_of, upd. destruct (Nat.eqb_spec x l0); [contradiction|reflexivity].
Qed.

Theorem closed_sorted_family_unique :
  forall sg P tr, seqrun sg P tr ->
  forall H, closed sg P H -> sortedH H -> dests_ok P ->
  forall l, l < n -> proj l tr = H l.
Proof.
  induction 1 as [sg | sg P e P1 s' o tr Hmin Hperm Hh Hrun IH]; intros H Hcl Hso Hd l Hl.
  - (* nothing pending: every history must be empty *)
    destruct (H l) as [|c t] eqn:El; [reflexivity|]. exfalso.
    destruct (min_head_in_P sg [] H Hcl Hso) as [lm [cm [tm [_ [_ [_ Hin]]]]]]; [|contradiction].
    exists l. split; auto. congruence.
  - destruct e as [l0 c]. simpl in *. destruct Hmin as [HinP Hmin].
    assert (Hl0 : l0 < n) by (apply (Hd (l0, c)); auto).
    (* c is in H l0 *)
    assert (Hc : In c (H l0)).
    { eapply Permutation_in; [apply Permutation_sym; apply (Hcl l0 Hl0)|]. apply in_proj. apply in_or_app. left; auto. }
    destruct (min_head_in_P sg P H Hcl Hso) as [lm [cm [tm [Hlm [Elm [Hle Hinm]]]]]].
    { exists l0. split; auto. intro E. rewrite E in Hc. contradiction. }
    (* c = cm, and it is the head of H l0 *)
    assert (Ecm : cm = c).
    { destruct (Hle l0 c Hl0 Hc) as [Hlt|E]; auto. exfalso. apply (Hmin (lm, cm) Hinm). exact Hlt. }
    subst cm.
    destruct (H l0) as [|h t0] eqn:El0; [contradiction|].
    assert (Eh : h = c).
    { apply cle_antisym.
      - apply (StronglySorted_head_le h t0 c); auto. specialize (Hso l0 Hl0). rewrite El0 in Hso. exact Hso.
      - apply (Hle l0 h Hl0). rewrite El0. left; auto. }
    subst h.
    (* residual family *)
    set (H' := upd H l0 t0). set (sg' := upd sg l0 s').
    assert (Hcl' : closed sg' (o ++ P1) H').
    { intros k Hk. pose proof (Hcl k Hk) as Hp.
      assert (Hall : Permutation (P ++ all_outs sg H) ((l0, c) :: ((o ++ P1) ++ all_outs sg' H'))).
      { eapply perm_trans; [apply Permutation_app; [exact Hperm | apply (all_outs_peel sg H l0 c t0 s' o); auto]|].
        simpl. apply perm_skip. rewrite <- !app_assoc.
        eapply perm_trans; [apply Permutation_app_comm|]. rewrite <- !app_assoc. apply Permutation_app_head.
        apply Permutation_app_comm. }
      apply (proj_perm k) in Hall. rewrite proj_cons in Hall. simpl in Hall.
      unfold H', upd. destruct (Nat.eqb_spec k l0) as [->|Hne].
      + rewrite Nat.eqb_refl in Hall. rewrite El0 in Hp.
        eapply Permutation_cons_inv. eapply perm_trans; [exact Hp|exact Hall].
      + destruct (Nat.eqb_spec l0 k); [congruence|]. eapply perm_trans; [exact Hp|exact Hall]. }
    assert (Hso' : sortedH H').
    { intros k Hk. unfold H', upd. destruct (Nat.eqb_spec k l0) as [->|]; [|auto].
      specialize (Hso l0 Hl0). rewrite El0 in Hso. inversion Hso; auto. }
    assert (Hd' : dests_ok (o ++ P1)).
    { intros e He. apply in_app_or in He. destruct He as [He|He].
      - apply (valid l0 (sg l0) c e). rewrite Hh. exact He.
      - apply Hd. eapply Permutation_in; [apply Permutation_sym; exact Hperm|]. right; auto. }
    specialize (IH H' Hcl' Hso' Hd' l Hl).
    rewrite proj_cons. simpl. unfold H', upd in IH.
    destruct (Nat.eqb_spec l0 l) as [->|Hne].
    + rewrite Nat.eqb_refl in IH. rewrite IH, El0. reflexivity.
    + destruct (Nat.eqb_spec l l0); [congruence|]. exact IH.
Qed.

End Peel.
Check closed_sorted_family_unique.
