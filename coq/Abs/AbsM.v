(* scratch prototype: abstract Time Warp machine with INCREMENTAL rollback (one fetch-add / one insert per step) *)
From Coq Require Import List Arith Lia Permutation Sorted Bool.
From AAC_tactics Require Import AAC.
From AAC_tactics Require Instances.
Import Instances.Lists.
From RS.Abs Require Import Abs.
Import ListNotations.

Section AbsM.
Variable C : Type.
Variable cltb : C -> C -> bool.
Variable tltb : C -> C -> bool.
Variable St : Type.
Variable n : nat.
Variable s0 : nat -> St.
Variable handle : nat -> St -> C -> St * list (nat * C).
Variable init : list (msg C).

Notation msg := (msg C).
Notation entry := (entry C).
Notation mid := (mid C).
Notation em := (em C).
Notation eouts := (eouts C).

Record absm := {
  hist : nat -> list entry;
  undoing : nat -> list entry;     (* removed from the history; outputs still to be marked, input still to be re-pooled *)
  cur : nat -> list msg;           (* the message in hand ([] or [m]) *)
  kill : nat -> list nat;          (* id of the processed message being annihilated ([] or [id]) *)
  pool : list msg;
  antis : list nat;
  nid : nat
}.

Definition doomedb (a : absm) (m : msg) : bool := existsb (Nat.eqb (mid m)) (antis a).
Definition dbefore (a : absm) (m : msg) (e : entry) : bool :=
  if doomedb a (em e) then tltb (mc C m) (mc C (em e)) else cltb (mc C m) (mc C (em e)).
Definition stof := (Abs.stof C St s0 handle).
Definition upd {A} := @Abs.upd A.
Definition idle (a : absm) (l : nat) : Prop := undoing a l = [] /\ cur a l = [] /\ kill a l = [].

Inductive step : absm -> absm -> Prop :=
| s_take : forall a l m,          (* extract an uncancelled message; the LP-local part of the rollback *)
    l < n -> In m (pool a) -> mdest C m = l -> doomedb a m = false -> idle a l ->
    let h := hist a l in
    step a {| hist := upd (hist a) l (keep_of (dbefore a m) h); undoing := upd (undoing a) l (undo_of (dbefore a m) h);
              cur := upd (cur a) l [m]; kill := kill a;
              pool := remove1 C (mid m) (pool a); antis := antis a; nid := nid a |}
| s_mark : forall a l e o os rest,  (* one fetch_add(ANTI) *)
    l < n -> undoing a l = e :: rest -> eouts e = o :: os ->
    step a {| hist := hist a; undoing := upd (undoing a) l ({| Abs.em := em e; Abs.eouts := os |} :: rest);
              cur := cur a; kill := kill a; pool := pool a; antis := antis a ++ [mid o]; nid := nid a |}
| s_repool : forall a l e rest,     (* one re-insertion of an undone input *)
    l < n -> undoing a l = e :: rest -> eouts e = [] -> ~ In (mid (em e)) (kill a l) ->
    step a {| hist := hist a; undoing := upd (undoing a) l rest; cur := cur a; kill := kill a;
              pool := pool a ++ [em e]; antis := antis a; nid := nid a |}
| s_annihilate : forall a l e rest, (* the cancelled processed message itself is released *)
    l < n -> undoing a l = e :: rest -> eouts e = [] -> kill a l = [mid (em e)] ->
    step a {| hist := hist a; undoing := upd (undoing a) l rest; cur := cur a; kill := upd (kill a) l [];
              pool := pool a; antis := remove_id (mid (em e)) (antis a); nid := nid a |}
| s_append : forall a l m,          (* forward execution of the message in hand *)
    l < n -> cur a l = [m] -> undoing a l = [] ->
    let outs := number C (nid a) l (snd (handle l (stof l (hist a l)) (mc C m))) in
    step a {| hist := upd (hist a) l (hist a l ++ [{| Abs.em := m; Abs.eouts := outs |}]); undoing := undoing a;
              cur := upd (cur a) l []; kill := kill a;
              pool := pool a ++ outs; antis := antis a; nid := nid a + length outs |}
| s_drop : forall a m,
    In m (pool a) -> doomedb a m = true ->
    step a {| hist := hist a; undoing := undoing a; cur := cur a; kill := kill a;
              pool := remove1 C (mid m) (pool a); antis := remove_id (mid m) (antis a); nid := nid a |}
| s_cancel_begin : forall a l h1 e h2,
    l < n -> hist a l = h1 ++ e :: h2 -> doomedb a (em e) = true -> idle a l ->
    step a {| hist := upd (hist a) l h1; undoing := upd (undoing a) l (e :: h2); cur := cur a;
              kill := upd (kill a) l [mid (em e)]; pool := pool a; antis := antis a; nid := nid a |}.

Definition over {X Y} (f : list X -> list Y) (H : nat -> list X) : list Y := flat_map (fun l => f (H l)) (seq 0 n).
Definition placed (a : absm) : list msg :=
  pool a ++ over (map em) (hist a) ++ over (map em) (undoing a) ++ over (fun x => x) (cur a).
Definition sent (a : absm) : list msg :=
  init ++ over (flat_map eouts) (hist a) ++ over (flat_map eouts) (undoing a).

Record Inv (a : absm) : Prop := {
  i_nd_placed : NoDup (map mid (placed a));
  i_nd_sent : NoDup (map mid (sent a));
  i_nd_antis : NoDup (antis a);
  i_sent_placed : incl (sent a) (placed a);
  i_placed : forall m, In m (placed a) -> In m (sent a) \/ In (mid m) (antis a);
  i_antis : forall i, In i (antis a) -> In i (map mid (placed a)) /\ ~ In i (map mid (sent a));
  i_ids : forall m, In m (placed a) -> mid m < nid a
}.

(* singling out one LP *)
Lemma over_split {X Y} (f : list X -> list Y) (H : nat -> list X) l :
  l < n -> Permutation (over f H) (f (H l) ++ Abs.others n f H l).
Proof. intros Hl. apply (Abs.split_lp n f H l Hl). Qed.
Lemma over_split_upd {X Y} (f : list X -> list Y) (H : nat -> list X) l v :
  l < n -> Permutation (over f (upd H l v)) (f v ++ Abs.others n f H l).
Proof. intros Hl. apply (Abs.split_lp_upd n f H l v Hl). Qed.

(* ---------- the invariant as a predicate on (existing, valid, cancelled, next id) ---------- *)
Record InvT (pl se : list msg) (an : list nat) (N : nat) : Prop := {
  t_nd_pl : NoDup (map mid pl);
  t_nd_se : NoDup (map mid se);
  t_nd_an : NoDup an;
  t_se_pl : incl se pl;
  t_pl : forall m, In m pl -> In m se \/ In (mid m) an;
  t_an : forall i, In i an -> In i (map mid pl) /\ ~ In i (map mid se);
  t_ids : forall m, In m pl -> mid m < N
}.
Lemma Inv_T a : Inv a <-> InvT (placed a) (sent a) (antis a) (nid a).
Proof. split; intros [A1 A2 A3 A4 A5 A6 A7]; constructor; auto. Qed.


(* rearrangement *)
Lemma T_equiv pl se an N pl' se' : InvT pl se an N -> Permutation pl' pl -> Permutation se' se -> InvT pl' se' an N.
Proof.
  intros [A1 A2 A3 A4 A5 A6 A7] Pp Ps. constructor; auto.
  - apply (Permutation_NoDup (Permutation_sym (Permutation_map mid Pp))). auto.
  - apply (Permutation_NoDup (Permutation_sym (Permutation_map mid Ps))). auto.
  - intros x Hx. apply (Permutation_in _ (Permutation_sym Pp)). apply A4. apply (Permutation_in _ Ps). auto.
  - intros x Hx. destruct (A5 x (Permutation_in _ Pp Hx)) as [H|H]; auto. left. apply (Permutation_in _ (Permutation_sym Ps)). auto.
  - intros i Hi. destruct (A6 i Hi) as [H1 H2]. split.
    + apply (Permutation_in _ (Permutation_sym (Permutation_map mid Pp))). auto.
    + intro H. apply H2. apply (Permutation_in _ (Permutation_map mid Ps)). auto.
  - intros x Hx. apply A7. apply (Permutation_in _ Pp). auto.
Qed.

(* one valid message becomes cancelled *)
Lemma T_mark pl se an N o se' : InvT pl se an N -> Permutation se (o :: se') -> InvT pl se' (an ++ [mid o]) N.
Proof.
  intros [A1 A2 A3 A4 A5 A6 A7] Ps.
  pose proof (Permutation_NoDup (Permutation_map mid Ps) A2) as Hnd. simpl in Hnd. inversion Hnd as [|? ? Hno Hnd']; subst.
  assert (Ho : In o se) by (apply (Permutation_in _ (Permutation_sym Ps)); left; auto).
  assert (Hsub : forall x, In x se' -> In x se) by (intros x Hx; apply (Permutation_in _ (Permutation_sym Ps)); right; auto).
  constructor; auto.
  - apply Abs.nodup_app_intro; auto; [constructor; [intros []|constructor]|].
    intros i H1 [<-|[]]. destruct (A6 _ H1) as [_ H2]. apply H2. apply in_map. auto.
  - intros x Hx. apply A4. auto.
  - intros x Hx. destruct (A5 x Hx) as [H|H].
    + apply (Permutation_in _ Ps) in H. destruct H as [<-|H]; [right; apply in_or_app; right; left; auto|left; auto].
    + right. apply in_or_app; auto.
  - intros i Hi. apply in_app_or in Hi. destruct Hi as [Hi|[<-|[]]].
    + destruct (A6 i Hi) as [H1 H2]. split; auto. intro H. apply H2. apply in_map_iff in H. destruct H as [x [<- Hx]]. apply in_map. auto.
    + split; [apply in_map; apply A4; auto|exact Hno].
Qed.

(* one cancelled message disappears *)
Lemma T_remove pl se an N x pl' an' : InvT pl se an N -> Permutation pl (x :: pl') -> Permutation an (mid x :: an') ->
  InvT pl' se an' N.
Proof.
  intros [A1 A2 A3 A4 A5 A6 A7] Pp Pa.
  pose proof (Permutation_NoDup (Permutation_map mid Pp) A1) as Hnd. simpl in Hnd. inversion Hnd as [|? ? Hnx Hnd']; subst.
  pose proof (Permutation_NoDup Pa A3) as Hna. inversion Hna as [|? ? Hnax Hna']; subst.
  assert (Hx : In (mid x) an) by (apply (Permutation_in _ (Permutation_sym Pa)); left; auto).
  destruct (A6 _ Hx) as [_ Hxs].
  constructor; auto.
  - intros y Hy. pose proof (A4 y Hy) as H. apply (Permutation_in _ Pp) in H. destruct H as [<-|H]; auto.
    exfalso. apply Hxs. apply in_map. auto.
  - intros y Hy. assert (Hy' : In y pl) by (apply (Permutation_in _ (Permutation_sym Pp)); right; auto).
    destruct (A5 y Hy') as [H|H]; auto. apply (Permutation_in _ Pa) in H. destruct H as [E|H]; auto.
    exfalso. apply Hnx. rewrite E. apply in_map. auto.
  - intros i Hi. assert (Hi' : In i an) by (apply (Permutation_in _ (Permutation_sym Pa)); right; auto).
    destruct (A6 i Hi') as [H1 H2]. split; auto.
    apply (Permutation_in _ (Permutation_map mid Pp)) in H1. simpl in H1. destruct H1 as [E|H1]; auto.
    exfalso. apply Hnax. rewrite E. auto.
  - intros y Hy. apply A7. apply (Permutation_in _ (Permutation_sym Pp)). right; auto.
Qed.

(* fresh valid messages appear *)
Lemma T_add pl se an N outs : InvT pl se an N -> map mid outs = seq N (length outs) ->
  InvT (outs ++ pl) (outs ++ se) an (N + length outs).
Proof.
  intros [A1 A2 A3 A4 A5 A6 A7] Hids.
  assert (Hfresh : forall x, In x outs -> N <= mid x < N + length outs).
  { intros x Hx. apply (in_map mid) in Hx. rewrite Hids in Hx. apply in_seq in Hx. lia. }
  assert (Hpl_lt : forall i, In i (map mid pl) -> i < N).
  { intros i Hi. apply in_map_iff in Hi. destruct Hi as [x [<- Hx]]. auto. }
  constructor; auto.
  - rewrite map_app. apply Abs.nodup_app_intro; auto; [rewrite Hids; apply seq_NoDup|].
    intros i H1 H2. apply in_map_iff in H1. destruct H1 as [x [<- Hx]]. apply Hfresh in Hx. apply Hpl_lt in H2. lia.
  - rewrite map_app. apply Abs.nodup_app_intro; auto; [rewrite Hids; apply seq_NoDup|].
    intros i H1 H2. apply in_map_iff in H1. destruct H1 as [x [<- Hx]]. apply Hfresh in Hx.
    apply in_map_iff in H2. destruct H2 as [y [E Hy]]. pose proof (A7 y (A4 y Hy)). lia.
  - intros x Hx. apply in_app_or in Hx. apply in_or_app. destruct Hx; auto.
  - intros x Hx. apply in_app_or in Hx. destruct Hx as [Hx|Hx]; [left; apply in_or_app; auto|].
    destruct (A5 x Hx); auto. left. apply in_or_app; auto.
  - intros i Hi. destruct (A6 i Hi) as [H1 H2]. split; [rewrite map_app; apply in_or_app; auto|].
    rewrite map_app. intro H. apply in_app_or in H. destruct H as [H|H]; auto.
    apply in_map_iff in H. destruct H as [x [<- Hx]]. apply Hfresh in Hx. apply Hpl_lt in H1. lia.
  - intros x Hx. apply in_app_or in Hx. destruct Hx as [Hx|Hx]; [apply Hfresh in Hx; lia|]. pose proof (A7 x Hx). lia.
Qed.

Lemma remove1_perm' (m : msg) (l : list msg) :
  In m l -> NoDup (map mid l) -> Permutation l (m :: remove1 C (mid m) l).
Proof.
  induction l as [|x t IH]; simpl; [tauto|]. intros Hin Hnd. inversion Hnd as [|? ? Hx Hnd']; subst.
  destruct (Nat.eqb_spec (mid x) (mid m)) as [E|E].
  - destruct Hin as [->|Hin]; [apply Permutation_refl|]. exfalso. apply Hx. rewrite E. apply in_map; auto.
  - destruct Hin as [->|Hin]; [congruence|]. eapply perm_trans; [apply perm_skip; apply IH; auto|]. apply perm_swap.
Qed.
Lemma remove_id_perm' (i : nat) (l : list nat) : In i l -> Permutation l (i :: remove_id i l).
Proof.
  induction l as [|x t IH]; simpl; [tauto|]. intros Hin.
  destruct (Nat.eqb_spec x i) as [->|E]; [apply Permutation_refl|].
  destruct Hin as [->|Hin]; [congruence|]. eapply perm_trans; [apply perm_skip; apply IH; auto|]. apply perm_swap.
Qed.

Ltac consapp := repeat match goal with |- context [?x :: ?l] =>
  lazymatch l with nil => fail | _ => change (x :: l) with ([x] ++ l) end end.
Ltac perm_ac := consapp; aac_reflexivity.

Lemma perm4 {X} (a b c d a' b' c' d' : list X) :
  Permutation a a' -> Permutation b b' -> Permutation c c' -> Permutation d d' ->
  Permutation (a ++ b ++ c ++ d) (a' ++ b' ++ c' ++ d').
Proof. intros. repeat apply Permutation_app; auto. Qed.
Lemma perm3 {X} (a b c a' b' c' : list X) :
  Permutation a a' -> Permutation b b' -> Permutation c c' -> Permutation (a ++ b ++ c) (a' ++ b' ++ c').
Proof. intros. repeat apply Permutation_app; auto. Qed.

Notation Oh a l := (Abs.others n (map em) (hist a) l).
Notation Ou a l := (Abs.others n (map em) (undoing a) l).
Notation Oc a l := (Abs.others n (fun x : list msg => x) (cur a) l).
Notation Sh a l := (Abs.others n (flat_map eouts) (hist a) l).
Notation Su a l := (Abs.others n (flat_map eouts) (undoing a) l).

Lemma placed_nf a l : l < n ->
  Permutation (placed a) (pool a ++ (map em (hist a l) ++ Oh a l) ++ (map em (undoing a l) ++ Ou a l) ++ (cur a l ++ Oc a l)).
Proof. intros Hl. unfold placed. apply perm4; [apply Permutation_refl|apply over_split; auto|apply over_split; auto|].
  exact (over_split (fun x : list msg => x) (cur a) l Hl). Qed.
Lemma sent_nf a l : l < n ->
  Permutation (sent a) (init ++ (flat_map eouts (hist a l) ++ Sh a l) ++ (flat_map eouts (undoing a l) ++ Su a l)).
Proof. intros Hl. unfold sent. apply perm3; [apply Permutation_refl| |]; apply over_split; auto. Qed.

Lemma nodup_pool a : Inv a -> NoDup (map mid (pool a)).
Proof. intros I. pose proof (i_nd_placed a I) as H. unfold placed in H. rewrite map_app in H. apply Abs.nodup_app_l in H. exact H. Qed.


(* the message being annihilated is cancelled and sits in the undoing list of its LP *)
Definition InvK (a : absm) : Prop :=
  forall l i, In i (kill a l) -> l < n /\ In i (antis a) /\ exists e, In e (undoing a l) /\ mid (em e) = i.

Lemma in_over {X Y} (f : list X -> list Y) (H : nat -> list X) l y : l < n -> In y (f (H l)) -> In y (over f H).
Proof. intros Hl Hy. unfold over. apply in_flat_map. exists l. split; [apply in_seq; lia|auto]. Qed.

Lemma pool_undoing_distinct a m l e : Inv a -> In m (pool a) -> l < n -> In e (undoing a l) -> mid m <> mid (em e).
Proof.
  intros I Hm Hl He E. pose proof (i_nd_placed a I) as H. unfold placed in H. rewrite map_app in H.
  apply (Abs.nodup_app_disj _ _ (mid m) H); [apply in_map; auto|]. rewrite E. apply in_map.
  apply in_or_app. right. apply in_or_app. left. apply (in_over (map em) (undoing a) l); auto. apply in_map; auto.
Qed.

Lemma undoing_distinct a l l' e e' : Inv a -> l < n -> l' < n -> l <> l' -> In e (undoing a l) -> In e' (undoing a l') ->
  mid (em e) <> mid (em e').
Proof.
  intros I Hl Hl' Hne He He' E.
  pose proof (i_nd_placed a I) as H. apply (Permutation_NoDup (Permutation_map mid (placed_nf a l Hl))) in H.
  rewrite !map_app in H. apply Abs.nodup_app_r in H. apply Abs.nodup_app_r in H. apply Abs.nodup_app_l in H.
  apply (Abs.nodup_app_disj _ _ (mid (em e)) H).
  - apply in_map. apply in_map. auto.
  - rewrite E. apply in_map. unfold Abs.others. apply in_flat_map. exists l'. split; [apply in_seq; lia|].
    destruct (Nat.eqb_spec l' l); [congruence|]. apply in_map. auto.
Qed.

Lemma remove_id_in i j l : In i l -> i <> j -> In i (remove_id j l).
Proof. induction l as [|x t IH]; simpl; [tauto|]. intros [->|H] Hne.
  - destruct (Nat.eqb_spec i j); [contradiction|left; auto].
  - destruct (Nat.eqb_spec x j); auto. right; auto. Qed.

Theorem step_inv a a' : Inv a -> InvK a -> step a a' -> Inv a' /\ InvK a'.
Proof.
  intros I K S. pose proof (proj1 (Inv_T a) I) as T.
  destruct S as [a l m Hl Hin Hdest Hd [Eu [Ec Ek]] h | a l e o os rest Hl Eu Eo | a l e rest Hl Eu Eo Hk
               | a l e rest Hl Eu Eo Hk | a l m Hl Ec Eu outs | a m Hin Hd | a l h1 e h2 Hl Eh Hd [Eu [Ec Ek]]].
  - (* take *)
    assert (Eh : hist a l = keep_of (dbefore a m) h ++ undo_of (dbefore a m) h) by apply keep_undo.
    pose proof (remove1_perm' m (pool a) Hin (nodup_pool a I)) as Hr.
    split.
    + apply Inv_T. eapply T_equiv; [exact T| |]; simpl.
      * eapply perm_trans; [| apply Permutation_sym; apply (placed_nf a l Hl)]. unfold placed. simpl.
        eapply perm_trans; [apply perm4; [apply Permutation_refl|apply over_split_upd; auto|apply over_split_upd; auto|exact (over_split_upd (fun x : list msg => x) (cur a) l [m] Hl)]|].
        rewrite Eh, Eu, Ec at 1. simpl. rewrite map_app.
        eapply perm_trans; [| apply Permutation_app_tail; apply Permutation_sym; exact Hr]. perm_ac.
      * eapply perm_trans; [| apply Permutation_sym; apply (sent_nf a l Hl)]. unfold sent. simpl.
        eapply perm_trans; [apply perm3; [apply Permutation_refl|apply over_split_upd; auto|apply over_split_upd; auto]|].
        rewrite Eh, Eu at 1. simpl. rewrite flat_map_app. perm_ac.
    + intros l' i Hi. simpl in *. destruct (K l' i Hi) as [Hl' [Ha [e [He Hid]]]]. repeat split; auto.
      exists e. split; auto. unfold upd, Abs.upd. destruct (Nat.eqb_spec l' l) as [->|]; auto.
      rewrite Ek in Hi. contradiction.
  - (* mark one output *)
    split.
    + apply Inv_T. simpl.
      eapply T_equiv with (pl := placed a) (se := flat_map eouts (hist a l) ++ Sh a l ++ init ++ os ++ flat_map eouts rest ++ Su a l).
      * apply (T_mark _ (sent a) _ _ o); auto.
        eapply perm_trans; [apply (sent_nf a l Hl)|]. rewrite Eu. simpl. rewrite Eo. perm_ac.
      * unfold placed. simpl. apply perm4; try apply Permutation_refl.
        eapply perm_trans; [apply over_split_upd; auto|]. eapply perm_trans; [|apply Permutation_sym; apply (over_split (map em) (undoing a) l Hl)].
        rewrite Eu. simpl. apply Permutation_refl.
      * unfold sent. simpl.
        eapply perm_trans; [apply perm3; [apply Permutation_refl|apply (over_split (flat_map eouts) (hist a) l Hl)|apply over_split_upd; auto]|].
        simpl. perm_ac.
    + intros l' i Hi. simpl in *. destruct (K l' i Hi) as [Hl' [Ha [e0 [He Hid]]]]. repeat split; auto.
      * apply in_or_app; auto.
      * unfold upd, Abs.upd. destruct (Nat.eqb_spec l' l) as [->|]; [|exists e0; auto].
        rewrite Eu in He. destruct He as [<-|He]; [|exists e0; split; auto; right; auto].
        eexists. split; [left; reflexivity|]. simpl. auto.
  - (* re-pool one undone input *)
    split.
    + apply Inv_T. eapply T_equiv; [exact T| |]; simpl.
      * eapply perm_trans; [| apply Permutation_sym; apply (placed_nf a l Hl)]. unfold placed. simpl.
        eapply perm_trans; [apply perm4; [apply Permutation_refl|apply (over_split (map em) (hist a) l Hl)|apply over_split_upd; auto|exact (over_split (fun x : list msg => x) (cur a) l Hl)]|].
        rewrite Eu. simpl. perm_ac.
      * eapply perm_trans; [| apply Permutation_sym; apply (sent_nf a l Hl)]. unfold sent. simpl.
        eapply perm_trans; [apply perm3; [apply Permutation_refl|apply (over_split (flat_map eouts) (hist a) l Hl)|apply over_split_upd; auto]|].
        rewrite Eu. simpl. rewrite Eo. simpl. apply Permutation_refl.
    + intros l' i Hi. simpl in *. destruct (K l' i Hi) as [Hl' [Ha [e0 [He Hid]]]]. repeat split; auto.
      unfold upd, Abs.upd. destruct (Nat.eqb_spec l' l) as [->|]; [|exists e0; auto].
      rewrite Eu in He. destruct He as [<-|He]; [exfalso; apply Hk; rewrite Hid; auto|exists e0; auto].
  - (* annihilate the cancelled processed message *)
    assert (Hek : In (mid (em e)) (antis a)).
    { destruct (K l (mid (em e))) as [_ [Ha _]]; auto. rewrite Hk. left; auto. }
    split.
    + apply Inv_T. simpl.
      eapply T_equiv with (pl := pool a ++ (map em (hist a l) ++ Oh a l) ++ (map em rest ++ Ou a l) ++ (cur a l ++ Oc a l)) (se := sent a).
      * apply (T_remove (placed a) _ (antis a) _ (em e)); auto.
        -- eapply perm_trans; [apply (placed_nf a l Hl)|]. rewrite Eu. simpl. perm_ac.
        -- apply remove_id_perm'. auto.
      * unfold placed. simpl. apply perm4; [apply Permutation_refl|apply (over_split (map em) (hist a) l Hl)|apply over_split_upd; auto|exact (over_split (fun x : list msg => x) (cur a) l Hl)].
      * unfold sent. simpl. apply perm3; try apply Permutation_refl.
        eapply perm_trans; [apply over_split_upd; auto|]. eapply perm_trans; [|apply Permutation_sym; apply (over_split (flat_map eouts) (undoing a) l Hl)].
        rewrite Eu. simpl. rewrite Eo. simpl. apply Permutation_refl.
    + intros l' i Hi. simpl in *. unfold upd, Abs.upd in Hi. destruct (Nat.eqb_spec l' l) as [->|Hne]; [contradiction|].
      destruct (K l' i Hi) as [Hl' [Ha [e0 [He Hid]]]]. repeat split; auto.
      * apply remove_id_in; auto. rewrite <- Hid. apply (undoing_distinct a l' l e0 e I); auto. rewrite Eu. left; auto.
      * exists e0. split; auto. unfold upd, Abs.upd. destruct (Nat.eqb_spec l' l); [contradiction|auto].
  - (* append *)
    split.
    + apply Inv_T. simpl.
      eapply T_equiv with (pl := outs ++ placed a) (se := outs ++ sent a).
      * apply T_add; auto. unfold outs. rewrite Abs.number_ids, Abs.number_length. reflexivity.
      * eapply perm_trans; [| apply Permutation_app_head; apply Permutation_sym; apply (placed_nf a l Hl)]. unfold placed. simpl.
        eapply perm_trans; [apply perm4; [apply Permutation_refl|apply over_split_upd; auto|apply (over_split (map em) (undoing a) l Hl)|exact (over_split_upd (fun x : list msg => x) (cur a) l [] Hl)]|].
        rewrite Ec, map_app. simpl. perm_ac.
      * eapply perm_trans; [| apply Permutation_app_head; apply Permutation_sym; apply (sent_nf a l Hl)]. unfold sent. simpl.
        eapply perm_trans; [apply perm3; [apply Permutation_refl|apply over_split_upd; auto|apply (over_split (flat_map eouts) (undoing a) l Hl)]|].
        rewrite flat_map_app. simpl. rewrite app_nil_r. perm_ac.
    + intros l' i Hi. simpl in *. exact (K l' i Hi).
  - (* drop a cancelled pending message *)
    apply (Abs.doomedb_true C) in Hd || idtac.
    assert (Hd' : In (mid m) (antis a)).
    { unfold doomedb in Hd. apply existsb_exists in Hd. destruct Hd as [x [Hx E]]. apply Nat.eqb_eq in E. subst. auto. }
    pose proof (remove1_perm' m (pool a) Hin (nodup_pool a I)) as Hr.
    split.
    + apply Inv_T. simpl.
      apply (T_remove (placed a) (sent a) (antis a) _ m); auto.
      * unfold placed. simpl. apply (Permutation_app_tail _ Hr).
      * apply remove_id_perm'. auto.
    + intros l' i Hi. simpl in *. destruct (K l' i Hi) as [Hl' [Ha [e0 [He Hid]]]]. repeat split; auto; [|exists e0; auto].
      apply remove_id_in; auto. rewrite <- Hid. intro E. apply (pool_undoing_distinct a m l' e0 I Hin Hl' He). auto.
  - (* begin cancelling a processed message *)
    assert (Hd' : In (mid (em e)) (antis a)).
    { unfold doomedb in Hd. apply existsb_exists in Hd. destruct Hd as [x [Hx E]]. apply Nat.eqb_eq in E. subst. auto. }
    split.
    + apply Inv_T. eapply T_equiv; [exact T| |]; simpl.
      * eapply perm_trans; [| apply Permutation_sym; apply (placed_nf a l Hl)]. unfold placed. simpl.
        eapply perm_trans; [apply perm4; [apply Permutation_refl|apply over_split_upd; auto|apply over_split_upd; auto|exact (over_split (fun x : list msg => x) (cur a) l Hl)]|].
        rewrite Eh, Eu, map_app. simpl. perm_ac.
      * eapply perm_trans; [| apply Permutation_sym; apply (sent_nf a l Hl)]. unfold sent. simpl.
        eapply perm_trans; [apply perm3; [apply Permutation_refl|apply over_split_upd; auto|apply over_split_upd; auto]|].
        rewrite Eh, Eu, flat_map_app. simpl. perm_ac.
    + intros l' i Hi. simpl in *. unfold upd, Abs.upd in *. destruct (Nat.eqb_spec l' l) as [->|Hne].
      * destruct Hi as [<-|[]]. repeat split; auto. exists e. split; [left; auto|auto].
      * exact (K l' i Hi).
Qed.
End AbsM.
Check step_inv.
