(* Reachability for the micro-step abstract Time Warp machine and the composed theorem:
   in every reachable state, below any valid bound, the per-LP histories are the sequential execution. *)
From Coq Require Import List Arith Lia Permutation Sorted Bool.
From RS.Abs Require Import Peel Abs Bridge AbsM AbsM2 BridgeM.
Import ListNotations.

Section ReachM.
Variable C : Type.
Variable cltb : C -> C -> bool.
Notation clt := (Abs.clt C cltb).
Hypothesis clt_irrefl : forall a, ~ clt a a.
Hypothesis clt_trans : forall a b c, clt a b -> clt b c -> clt a c.
Hypothesis clt_total : forall a b, clt a b \/ a = b \/ clt b a.
Variable tltb : C -> C -> bool.
Notation tlt := (Abs.tlt C tltb).
Hypothesis tlt_clt : forall a b, tlt a b -> clt a b.
Hypothesis clt_not_tlt : forall a b, clt a b -> ~ tlt b a.
Hypothesis tlt_negtrans : forall a b c, ~ tlt b a -> ~ tlt c b -> ~ tlt c a.
Variable St : Type.
Variable n : nat.
Variable s0 : nat -> St.
Variable handle : nat -> St -> C -> St * list (nat * C).
Hypothesis valid : forall l s c o, In o (snd (handle l s c)) -> clt c (snd o) /\ fst o < n.
Variable init : list (msg C).
Hypothesis init_dest : forall m, In m init -> mdest C m < n.
Hypothesis init_nodup : NoDup (map (mid C) init).
Variable below : C -> bool.
Hypothesis below_tdown : forall a b, ~ tlt b a -> below b = true -> below a = true.

Notation absm := (absm C).
Notation step := (AbsM.step C cltb tltb St n s0 handle).
Notation Inv := (AbsM.Inv C n init).
Notation InvK := (AbsM.InvK C n).
Notation Inv2 := (AbsM2.Inv2 C cltb tltb St n s0 handle).

Definition a0 (N : nat) : absm :=
  {| AbsM.hist := fun _ => []; undoing := fun _ => []; cur := fun _ => []; kill := fun _ => [];
     AbsM.pool := init; AbsM.antis := []; AbsM.nid := N |}.

Inductive reach (N : nat) : absm -> Prop :=
| r0 : reach N (a0 N)
| rs : forall a a', reach N a -> step a a' -> reach N a'.

Lemma flat_map_nil' {A B} (ls : list A) : flat_map (fun _ => @nil B) ls = [].
Proof. induction ls; simpl; auto. Qed.

Lemma inv_a0 N : (forall m, In m init -> mid C m < N) -> Inv (a0 N) /\ InvK (a0 N) /\ Inv2 (a0 N).
Proof.
  intros HN. split; [|split].
  - assert (Ep : AbsM.placed C n (a0 N) = init).
    { unfold AbsM.placed, AbsM.over. simpl. rewrite !(flat_map_nil' (seq 0 n)). rewrite !app_nil_r. reflexivity. }
    assert (Es : AbsM.sent C n init (a0 N) = init).
    { unfold AbsM.sent, AbsM.over. simpl. rewrite !(flat_map_nil' (seq 0 n)). rewrite !app_nil_r. reflexivity. }
    constructor; rewrite ?Ep, ?Es; simpl; auto.
    + constructor.
    + apply incl_refl.
    + intros i [].
  - intros l i []. 
  - constructor; simpl.
    + intros l _. auto.
    + intros l h1 e h2 E. destruct h1; discriminate.
    + intros l h1 e h2 E. destruct h1; discriminate.
    + intros l h1 e h2 E. destruct h1; discriminate.
    + intros l m [].
Qed.

Theorem reach_inv N : (forall m, In m init -> mid C m < N) -> forall a, reach N a -> Inv a /\ InvK a /\ Inv2 a.
Proof.
  intros HN a R. induction R as [|a a' R (I & K & J) S].
  - apply inv_a0; auto.
  - destruct (AbsM.step_inv C cltb tltb St n s0 handle init a a' I K S) as [I' K'].
    split; [exact I'|split; [exact K'|]].
    apply (AbsM2.step_inv2 C cltb clt_trans clt_total tltb tlt_clt tlt_negtrans St n s0 handle init a a' I J S).
Qed.

(* The capstone for the micro-step machine: every schedule of takes, marks, re-pools, annihilations,
   appends, drops and cancellations; any bound that is valid in the reached state. *)
Theorem time_warp_m_below_gvt_is_sequential N a :
  (forall m, In m init -> mid C m < N) -> reach N a ->
  BridgeM.gvt_ok C below a ->
  forall tr, Peel.seqrun C clt St (Bridge.handle_g C St handle below) s0 (Bridge.Pg C init below) tr ->
  forall l, l < n -> Peel.proj C l tr = BridgeM.Hg C below a l.
Proof.
  intros HN R G tr Hrun l Hl. destruct (reach_inv N HN a R) as (I & _ & J).
  eapply (BridgeM.below_gvt_is_sequential_m C cltb clt_irrefl clt_trans clt_total tltb clt_not_tlt
            St n s0 handle valid init init_dest below below_tdown a I J G tr Hrun l Hl).
Qed.
End ReachM.
