(* scratch prototype: the abstract C01/C03 theorem for the micro-step (incremental rollback) machine *)
From Coq Require Import List Arith Lia Permutation Sorted Bool.
From RS.Abs Require Import Peel Abs Bridge AbsM AbsM2.
Import ListNotations.

Section BridgeM.
Variable C : Type.
Variable cltb : C -> C -> bool.
Notation clt := (Abs.clt C cltb).
Hypothesis clt_irrefl : forall a, ~ clt a a.
Hypothesis clt_trans : forall a b c, clt a b -> clt b c -> clt a c.
Hypothesis clt_total : forall a b, clt a b \/ a = b \/ clt b a.
Variable tltb : C -> C -> bool.
Notation tlt := (Abs.tlt C tltb).
Hypothesis tlt_clt : forall a b, tlt a b -> clt a b.
Hypothesis clt_not_tlt : forall a b, clt a b -> ~ tlt b a.
Hypothesis tlt_negtrans : forall a b c, ~ tlt b a -> ~ tlt c b -> ~ tlt c a.
Variable St : Type.
Variable n : nat.
Variable s0 : nat -> St.
Variable handle : nat -> St -> C -> St * list (nat * C).
Hypothesis valid : forall l s c o, In o (snd (handle l s c)) -> clt c (snd o) /\ fst o < n.
Variable init : list (msg C).
Hypothesis init_dest : forall m, In m init -> mdest C m < n.
Variable below : C -> bool.
Hypothesis below_tdown : forall a b, ~ tlt b a -> below b = true -> below a = true.

Notation absm := (absm C).
Notation entry := (entry C).
Notation msg := (msg C).
Notation Inv := (AbsM.Inv C n init).
Notation Inv2 := (AbsM2.Inv2 C cltb tltb St n s0 handle).
Notation con := (Abs.con C).
Notation stof := (Abs.stof C St s0 handle).
Notation hg := (handle_g C St handle below).
Notation belowm := (Bridge.belowm C below).
Notation belowe := (Bridge.belowe C below).
Notation pay := (Bridge.pay C).
Notation Pg := (Bridge.Pg C init below).
Notation over := (AbsM.over n).

(* the bound is valid in state a: nothing pending, in hand, being undone or cancelled lies below it *)
Record gvt_ok (a : absm) : Prop := {
  g_pool : forall m, In m (pool C a) -> belowm m = false;
  g_cur : forall l m, In m (cur C a l) -> belowm m = false;
  g_undo : forall l e, In e (undoing C a l) -> belowe e = false /\ forall o, In o (eouts C e) -> belowm o = false;
  g_doomed : forall l e, In e (hist C a l) -> AbsM.doomedb C a (em C e) = true -> belowe e = false
}.

Definition Hg (a : absm) (l : nat) : list C := map con (filter belowe (hist C a l)).

Lemma Hg_as_msgs a l : Hg a l = map (mc C) (filter belowm (map (em C) (hist C a l))).
Proof. unfold Hg. rewrite (filter_map_comm (em C) belowm). rewrite map_map. reflexivity. Qed.

Lemma outs_not_below l h h1 e h2 : hist_ok C St s0 handle l h -> h = h1 ++ e :: h2 -> belowe e = false ->
  forall m, In m (eouts C e) -> belowm m = false.
Proof.
  intros Hok Eh Be m Hm. destruct (Hok h1 e h2 Eh) as [Hout _].
  assert (Hin : In (pay m) (snd (handle l (stof l h1) (con e)))) by (rewrite <- Hout; apply (in_map pay); auto).
  destruct (valid _ _ _ _ Hin) as [Hlt _]. simpl in Hlt.
  destruct (belowm m) eqn:Bm; auto. unfold Bridge.belowm in Bm. unfold Bridge.belowe in Be.
  rewrite (below_cdown C cltb tltb clt_not_tlt below below_tdown (con e) (mc C m)) in Be; [discriminate|left; auto|auto].
Qed.

Definition S1 (a : absm) : list msg := init ++ over (flat_map (eouts C)) (hist C a).

Lemma all_outs_eq a : Inv2 a -> Pg ++ Peel.all_outs C St hg n s0 (Hg a) = map pay (filter belowm (S1 a)).
Proof.
  intros J. unfold Bridge.Pg, S1. rewrite filter_app, map_app. f_equal.
  unfold Peel.all_outs, AbsM.over. rewrite filter_flat_map, map_flat_map. apply flat_map_ext. intros l.
  unfold Peel.outs_of, Hg.
  destruct (filter_below_prefix C tltb below below_tdown (hist C a l) (j_ts _ _ _ _ _ _ _ a J l)) as [p [r [E [Ef Hr]]]].
  rewrite Ef.
  assert (Hok : hist_ok C St s0 handle l ([] ++ p ++ r)) by (simpl; rewrite <- E; apply (j_ok _ _ _ _ _ _ _ a J)).
  pose proof (run_prefix C St s0 handle below l p [] r Hok) as Hrun. simpl in Hrun. unfold Abs.stof in Hrun at 1. simpl in Hrun.
  rewrite Hrun. simpl. f_equal. rewrite E, flat_map_app, filter_app.
  assert (En : filter belowm (flat_map (eouts C) r) = []).
  { apply filter_none. intros m Hm. apply in_flat_map in Hm. destruct Hm as [e [He Hm]].
    destruct (in_split _ _ He) as [r1 [r2 Er]].
    apply (outs_not_below l (hist C a l) (p ++ r1) e r2 (j_ok _ _ _ _ _ _ _ a J l)); auto.
    rewrite E, Er, <- app_assoc. reflexivity. }
  rewrite En, app_nil_r. reflexivity.
Qed.

Lemma in_over_inv {X Y} (f : list X -> list Y) (H : nat -> list X) y : In y (over f H) -> exists l, l < n /\ In y (f (H l)).
Proof. unfold AbsM.over. rewrite in_flat_map. intros [l [Hl Hy]]. apply in_seq in Hl. exists l. split; [lia|auto]. Qed.

Lemma hist_dest a l e : Inv2 a -> In e (hist C a l) -> mdest C (em C e) = l.
Proof. intros J He. destruct (in_split _ _ He) as [h1 [h2 E]]. destruct (j_ok _ _ _ _ _ _ _ a J l h1 e h2 E) as [_ H]. exact H. Qed.

Lemma sent_S1 a : AbsM.sent C n init a = S1 a ++ over (flat_map (eouts C)) (undoing C a).
Proof. unfold AbsM.sent, S1. rewrite <- app_assoc. reflexivity. Qed.

Lemma closed_g a : Inv a -> Inv2 a -> gvt_ok a -> Peel.closed C St hg n s0 Pg (Hg a).
Proof.
  intros I J G. unfold Peel.closed. intros l Hl.
  match goal with |- Permutation _ (Peel.proj _ _ ?X) =>
    assert (EX : X = map pay (filter belowm (S1 a))) by (apply (all_outs_eq a J)); rewrite EX end.
  rewrite proj_pay, Hg_as_msgs. apply Permutation_map. apply NoDup_Permutation.
  - apply NoDup_filter.
    pose proof (AbsM.i_nd_placed C n init a I) as H. apply NoDup_map_inv in H. unfold AbsM.placed in H.
    apply Abs.nodup_app_r in H. apply Abs.nodup_app_l in H.
    apply (Permutation_NoDup (AbsM.over_split n (map (em C)) (hist C a) l Hl)) in H. apply Abs.nodup_app_l in H. exact H.
  - apply NoDup_filter, NoDup_filter. pose proof (AbsM.i_nd_sent C n init a I) as H. apply NoDup_map_inv in H.
    rewrite sent_S1 in H. apply Abs.nodup_app_l in H. exact H.
  - intros x. rewrite !filter_In, in_map_iff. split.
    + intros [[e [<- He]] Bx]. repeat split; auto.
      * assert (Hpl : In (em C e) (AbsM.placed C n a)).
        { unfold AbsM.placed. apply in_or_app. right. apply in_or_app. left.
          apply (AbsM.in_over n (map (em C)) (hist C a) l); auto. apply in_map; auto. }
        destruct (AbsM.i_placed C n init a I _ Hpl) as [Hs|Hd].
        -- rewrite sent_S1 in Hs. apply in_app_or in Hs. destruct Hs as [Hs|Hs]; auto. exfalso.
           apply in_over_inv in Hs. destruct Hs as [l' [Hl' Hs]]. apply in_flat_map in Hs. destruct Hs as [e' [He' Ho]].
           destruct (g_undo a G l' e' He') as [_ Hn]. rewrite (Hn _ Ho) in Bx. discriminate.
        -- exfalso. apply (AbsM2.doomed_iff C) in Hd. pose proof (g_doomed a G l e He Hd) as Hb.
           unfold Bridge.belowe, Abs.con in Hb. unfold Bridge.belowm in Bx. congruence.
      * apply Nat.eqb_eq. apply (hist_dest a l e J He).
    + intros [[Hs Bx] Hd]. apply Nat.eqb_eq in Hd. split; auto.
      assert (Hs' : In x (AbsM.sent C n init a)) by (rewrite sent_S1; apply in_or_app; auto).
      pose proof (AbsM.i_sent_placed C n init a I x Hs') as Hp. unfold AbsM.placed in Hp.
      apply in_app_or in Hp. destruct Hp as [Hp|Hp]; [rewrite (g_pool a G x Hp) in Bx; discriminate|].
      apply in_app_or in Hp. destruct Hp as [Hp|Hp].
      * apply in_over_inv in Hp. destruct Hp as [l' [_ Hp]]. apply in_map_iff in Hp. destruct Hp as [e [<- He]].
        exists e. split; auto. rewrite (hist_dest a l' e J He) in Hd. subst l'. exact He.
      * exfalso. apply in_app_or in Hp. destruct Hp as [Hp|Hp].
        -- apply in_over_inv in Hp. destruct Hp as [l' [_ Hp]]. apply in_map_iff in Hp. destruct Hp as [e [<- He]].
           destruct (g_undo a G l' e He) as [Hb _]. unfold Bridge.belowe, Abs.con in Hb. unfold Bridge.belowm in Bx. congruence.
        -- apply in_over_inv in Hp. destruct Hp as [l' [_ Hp]]. rewrite (g_cur a G l' x Hp) in Bx. discriminate.
Qed.

Lemma sorted_g a : Inv2 a -> gvt_ok a -> Peel.sortedH C clt n (Hg a).
Proof.
  intros J G l Hl. unfold Hg.
  destruct (filter_below_prefix C tltb below below_tdown (hist C a l) (j_ts _ _ _ _ _ _ _ a J l)) as [p [r [E [Ef Hr]]]].
  rewrite Ef. apply sorted_from_splits. intros h1 e h2 Ep x Hx.
  apply (j_cs _ _ _ _ _ _ _ a J l h1 e (h2 ++ r)); auto.
  - rewrite E, Ep, <- app_assoc. reflexivity.
  - intros y Hy. destruct (AbsM.doomedb C a (em C y)) eqn:Ed; auto. exfalso.
    assert (Hyp : In y p).
    { rewrite Ep. apply in_app_or in Hy. apply in_or_app. destruct Hy as [Hy|[<-|[]]]; [left; auto|right; left; auto]. }
    assert (Hyh : In y (hist C a l)) by (rewrite E; apply in_or_app; auto).
    pose proof (g_doomed a G l y Hyh Ed) as Hb.
    rewrite <- Ef in Hyp. apply filter_In in Hyp. destruct Hyp as [_ Hyp]. congruence.
Qed.

Theorem below_gvt_is_sequential_m a : Inv a -> Inv2 a -> gvt_ok a ->
  forall tr, Peel.seqrun C clt St hg s0 Pg tr -> forall l, l < n -> Peel.proj C l tr = Hg a l.
Proof.
  intros I J G tr Hrun l Hl.
  apply (Peel.closed_sorted_family_unique C clt clt_irrefl clt_trans clt_total St hg n
           (valid_g C cltb St n handle valid below) s0 Pg tr Hrun); auto using closed_g, sorted_g.
  apply (dests_g C n init init_dest below).
Qed.
End BridgeM.
Check below_gvt_is_sequential_m.
