(* scratch prototype: history invariants (J1, J3) of the micro-step machine *)
From Coq Require Import List Arith Lia Permutation Sorted Bool.
From RS.Abs Require Import Abs AbsM.
Import ListNotations.

Section AbsM2.
Variable C : Type.
Variable cltb : C -> C -> bool.
Notation clt := (Abs.clt C cltb).
Hypothesis clt_trans : forall a b c, clt a b -> clt b c -> clt a c.
Hypothesis clt_total : forall a b, clt a b \/ a = b \/ clt b a.
Variable tltb : C -> C -> bool.
Notation tlt := (Abs.tlt C tltb).
Hypothesis tlt_clt : forall a b, tlt a b -> clt a b.
Hypothesis tlt_negtrans : forall a b c, ~ tlt b a -> ~ tlt c b -> ~ tlt c a.
Notation cle := (Abs.cle C cltb).
Variable St : Type.
Variable n : nat.
Variable s0 : nat -> St.
Variable handle : nat -> St -> C -> St * list (nat * C).
Variable init : list (msg C).

Notation absm := (absm C).
Notation entry := (entry C).
Notation msg := (msg C).
Notation step := (AbsM.step C cltb tltb St n s0 handle).
Notation Inv := (AbsM.Inv C n init).
Notation con := (Abs.con C).
Notation hist_ok := (Abs.hist_ok C St s0 handle).
Notation tsorted := (Abs.tsorted C tltb).
Notation doomedb := (AbsM.doomedb C).
Notation dbefore := (AbsM.dbefore C cltb tltb).

Definition csorted (a : absm) (h : list entry) : Prop :=
  forall h1 e h2, h = h1 ++ e :: h2 -> (forall x, In x (h1 ++ [e]) -> doomedb a (em C x) = false) ->
  forall x, In x h1 -> cle (con x) (con e).

(* what is known about the message in hand: it is routed here and not before anything kept *)
Definition cur_ok (a : absm) (l : nat) : Prop :=
  forall m, In m (cur C a l) ->
    mdest C m = l /\ (forall x, In x (hist C a l) -> ~ tlt (mc C m) (con x)) /\
    ((forall x, In x (hist C a l) -> doomedb a (em C x) = false) -> forall x, In x (hist C a l) -> cle (con x) (mc C m)).

Record Inv2 (a : absm) : Prop := {
  j_out : forall l, n <= l -> hist C a l = [] /\ undoing C a l = [] /\ cur C a l = [];
  j_ok : forall l, hist_ok l (hist C a l);
  j_ts : forall l, tsorted (hist C a l);
  j_cs : forall l, csorted a (hist C a l);
  j_cur : forall l, cur_ok a l
}.

Lemma cle_refl a : cle a a. Proof. right; reflexivity. Qed.
Lemma cle_trans a b c : cle a b -> cle b c -> cle a c.
Proof. intros [H| ->] [H'| ->]; unfold Abs.cle; eauto. Qed.
Lemma not_clt_cle a b : ~ clt a b -> cle b a.
Proof. intros H. destruct (clt_total a b) as [H'|[->|H']]; [contradiction|apply cle_refl|left; auto]. Qed.

Lemma doomed_iff a x : doomedb a x = true <-> In (mid C x) (antis C a).
Proof. unfold AbsM.doomedb. rewrite existsb_exists. split.
  - intros [y [Hy E]]. apply Nat.eqb_eq in E. subst. auto.
  - intros H. exists (mid C x). split; auto. apply Nat.eqb_refl. Qed.
Lemma doomed_false_iff a x : doomedb a x = false <-> ~ In (mid C x) (antis C a).
Proof. rewrite <- doomed_iff. destruct (doomedb a x); split; intro H.
  - discriminate.
  - exfalso; apply H; reflexivity.
  - intro; discriminate.
  - reflexivity. Qed.

Lemma csorted_mono a a' h :
  (forall x, In x h -> doomedb a' (em C x) = false -> doomedb a (em C x) = false) -> csorted a h -> csorted a' h.
Proof.
  intros Hm Hcs h1 e h2 E Hlive x Hx. apply (Hcs h1 e h2 E); auto.
  intros y Hy. apply Hm; auto. rewrite E. apply in_app_or in Hy. apply in_or_app.
  destruct Hy as [Hy|[<-|[]]]; [left; auto|right; left; auto].
Qed.
Lemma csorted_prefix a h t : csorted a (h ++ t) -> csorted a h.
Proof. intros H h1 e h2 E. apply (H h1 e (h2 ++ t)). rewrite E, <- app_assoc. reflexivity. Qed.

(* bounds delivered by the backward scan *)
Lemma keep_bounds a m h : tsorted h -> csorted a h ->
  (forall x, In x (keep_of (dbefore a m) h) -> ~ tlt (mc C m) (con x)) /\
  ((forall x, In x (keep_of (dbefore a m) h) -> doomedb a (em C x) = false) ->
   forall x, In x (keep_of (dbefore a m) h) -> cle (con x) (mc C m)).
Proof.
  intros Hts Hcs. set (p := dbefore a m). pose proof (keep_undo p h) as Eh.
  destruct (Abs.snoc_cases (keep_of p h)) as [Ek|[k [y Ek]]].
  - rewrite Ek. split; [intros x []|intros _ x []].
  - rewrite Ek in *. pose proof (keep_last p h k y Ek) as Hy. rewrite <- app_assoc in Eh. simpl in Eh.
    assert (Hmy : ~ tlt (mc C m) (con y)).
    { unfold p, AbsM.dbefore in Hy. destruct (doomedb a (em C y)).
      - unfold Abs.tlt, Abs.con. rewrite Hy. discriminate.
      - intro H. apply tlt_clt in H. unfold Abs.clt, Abs.con in H. congruence. }
    split.
    + intros x Hx. apply in_app_or in Hx. destruct Hx as [Hx|[<-|[]]]; auto.
      apply (tlt_negtrans (con x) (con y) (mc C m)); auto. apply (Hts k y (undo_of p h)); auto.
    + intros Hlive x Hx.
      assert (Hym : cle (con y) (mc C m)).
      { unfold p, AbsM.dbefore in Hy. rewrite (Hlive y) in Hy by (apply in_or_app; right; left; auto).
        apply not_clt_cle. unfold Abs.clt, Abs.con. congruence. }
      apply in_app_or in Hx. destruct Hx as [Hx|[<-|[]]]; auto.
      eapply cle_trans; [|exact Hym]. apply (Hcs k y (undo_of p h)); auto.
Qed.

Notation over := (AbsM.over n).

Lemma in_over' {X Y} (f : list X -> list Y) (H : nat -> list X) l y : l < n -> In y (f (H l)) -> In y (over f H).
Proof. intros Hl Hy. unfold AbsM.over. apply in_flat_map. exists l. split; [apply in_seq; lia|auto]. Qed.

Lemma hist_pool_distinct a l x m : Inv a -> l < n -> In x (hist C a l) -> In m (pool C a) -> mid C (em C x) <> mid C m.
Proof.
  intros I Hl Hx Hm E. pose proof (AbsM.i_nd_placed C n init a I) as H. unfold AbsM.placed in H. rewrite map_app in H.
  apply (Abs.nodup_app_disj _ _ (mid C m) H); [apply in_map; auto|]. rewrite <- E. apply in_map.
  apply in_or_app. left. apply (in_over' (map (em C)) (hist C a) l); auto. apply in_map; auto.
Qed.

Lemma hist_undoing_distinct a l l' x e : Inv a -> l < n -> l' < n -> In x (hist C a l) -> In e (undoing C a l') ->
  mid C (em C x) <> mid C (em C e).
Proof.
  intros I Hl Hl' Hx He E. pose proof (AbsM.i_nd_placed C n init a I) as H. unfold AbsM.placed in H.
  rewrite !map_app in H. apply Abs.nodup_app_r in H. rewrite app_assoc in H. apply Abs.nodup_app_l in H.
  apply (Abs.nodup_app_disj _ _ (mid C (em C x)) H).
  - apply in_map. apply (in_over' (map (em C)) (hist C a) l); auto. apply in_map; auto.
  - rewrite E. apply in_map. apply (in_over' (map (em C)) (undoing C a) l'); auto. apply in_map; auto.
Qed.

Lemma remove_id_in' i j l : In i l -> i <> j -> In i (remove_id j l).
Proof. induction l as [|x t IH]; simpl; [tauto|]. intros [->|H] Hne.
  - destruct (Nat.eqb_spec i j); [contradiction|left; auto].
  - destruct (Nat.eqb_spec x j); auto. right; auto. Qed.

Lemma hist_lt a l x : Inv2 a -> In x (hist C a l) -> l < n.
Proof. intros J Hx. destruct (Nat.lt_ge_cases l n) as [|Hge]; auto. destruct (j_out a J l Hge) as [E _]. rewrite E in Hx. contradiction. Qed.

(* statuses of history entries are unchanged (or only get cancelled) *)
Definition status_mono (a a' : absm) : Prop :=
  forall l x, In x (hist C a l) -> doomedb a' (em C x) = false -> doomedb a (em C x) = false.

Lemma cur_ok_mono a a' l : hist C a' l = hist C a l -> cur C a' l = cur C a l -> status_mono a a' -> cur_ok a l -> cur_ok a' l.
Proof.
  intros Eh Ec Hm Hc m Hin. rewrite Ec in Hin. destruct (Hc m Hin) as [H1 [H2 H3]]. rewrite Eh. repeat split; auto.
  intros Hlive. apply H3. intros x Hx. apply (Hm l x Hx). apply Hlive. auto.
Qed.

Theorem step_inv2 a a' : Inv a -> Inv2 a -> step a a' -> Inv2 a'.
Proof.
  intros I J S.
  destruct S as [a l m Hl Hin Hdest Hd [Eu [Ec Ek]] h | a l e o os rest Hl Eu Eo | a l e rest Hl Eu Eo Hk
               | a l e rest Hl Eu Eo Hk | a l m Hl Ec Eu outs | a m Hin Hd | a l h1 e h2 Hl Eh Hd [Eu [Ec Ek]]].
  - (* take *)
    assert (Eh : hist C a l = keep_of (dbefore a m) h ++ undo_of (dbefore a m) h) by apply keep_undo.
    destruct (keep_bounds a m (hist C a l) (j_ts a J l) (j_cs a J l)) as [Kt Kc].
    constructor; simpl.
    + intros l' Hge. unfold AbsM.upd, Abs.upd. destruct (Nat.eqb_spec l' l); [lia|apply (j_out a J l' Hge)].
    + intros l'. unfold AbsM.upd, Abs.upd. destruct (Nat.eqb_spec l' l) as [->|]; [|apply (j_ok a J)].
      apply Abs.hist_ok_prefix with (undo_of (dbefore a m) h). fold h in Eh. rewrite <- Eh. apply (j_ok a J).
    + intros l'. unfold AbsM.upd, Abs.upd. destruct (Nat.eqb_spec l' l) as [->|]; [|apply (j_ts a J)].
      apply Abs.tsorted_prefix with (undo_of (dbefore a m) h). fold h in Eh. rewrite <- Eh. apply (j_ts a J).
    + intros l'. unfold AbsM.upd, Abs.upd. destruct (Nat.eqb_spec l' l) as [->|].
      * apply csorted_mono with a; [auto|]. apply csorted_prefix with (undo_of (dbefore a m) h). fold h in Eh. rewrite <- Eh. apply (j_cs a J).
      * apply csorted_mono with a; [auto|apply (j_cs a J)].
    + intros l' x Hx. simpl in *. unfold AbsM.upd, Abs.upd in *. destruct (Nat.eqb_spec l' l) as [->|].
      * destruct Hx as [<-|[]]. repeat split; auto.
      * apply (j_cur a J l' x Hx).
  - (* mark *)
    assert (Hm : status_mono a {| hist := hist C a; undoing := AbsM.upd (undoing C a) l ({| Abs.em := em C e; Abs.eouts := os |} :: rest);
                                  cur := cur C a; kill := kill C a; pool := pool C a; antis := antis C a ++ [mid C o]; nid := nid C a |}).
    { intros l' x Hx Hf. apply doomed_false_iff. apply doomed_false_iff in Hf. simpl in Hf. intro Hi. apply Hf. apply in_or_app; auto. }
    constructor; simpl; try apply J.
    + intros l' Hge. destruct (j_out a J l' Hge) as [A [B D]]. repeat split; auto.
      unfold AbsM.upd, Abs.upd. destruct (Nat.eqb_spec l' l); [lia|auto].
    + intros l'. apply csorted_mono with a; [|apply (j_cs a J)]. intros x Hx. apply (Hm l' x Hx).
    + intros l'. apply (cur_ok_mono a _ l'); auto. apply (j_cur a J).
  - (* re-pool *)
    constructor; simpl; try apply J.
    + intros l' Hge. destruct (j_out a J l' Hge) as [A [B D]]. repeat split; auto.
      unfold AbsM.upd, Abs.upd. destruct (Nat.eqb_spec l' l); [lia|auto].
  - (* annihilate: the id removed from the cancelled set belongs to an undoing entry, not to a history entry *)
    assert (Hm : status_mono a {| hist := hist C a; undoing := AbsM.upd (undoing C a) l rest; cur := cur C a;
                                  kill := AbsM.upd (kill C a) l []; pool := pool C a;
                                  antis := remove_id (mid C (em C e)) (antis C a); nid := nid C a |}).
    { intros l' x Hx Hf. apply doomed_false_iff. apply doomed_false_iff in Hf. simpl in Hf. intro Hi. apply Hf.
      apply remove_id_in'; auto. apply (hist_undoing_distinct a l' l x e I); auto.
      - apply (hist_lt a l' x J Hx).
      - rewrite Eu. left; auto. }
    constructor; simpl; try apply J.
    + intros l' Hge. destruct (j_out a J l' Hge) as [A [B D]]. repeat split; auto.
      unfold AbsM.upd, Abs.upd. destruct (Nat.eqb_spec l' l); [lia|auto].
    + intros l'. apply csorted_mono with a; [|apply (j_cs a J)]. intros x Hx. apply (Hm l' x Hx).
    + intros l'. apply (cur_ok_mono a _ l'); auto. apply (j_cur a J).
  - (* append: the bounds recorded when the message was taken make the extended history well-formed and sorted *)
    destruct (j_cur a J l m) as [Hdest [Ht Hc]]; [rewrite Ec; left; auto|].
    set (me := {| Abs.em := m; Abs.eouts := outs |}).
    constructor; simpl.
    + intros l' Hge. destruct (j_out a J l' Hge) as [A [B D]]. unfold AbsM.upd, Abs.upd. destruct (Nat.eqb_spec l' l); [lia|auto].
    + intros l'. unfold AbsM.upd, Abs.upd. destruct (Nat.eqb_spec l' l) as [->|]; [|apply (j_ok a J)].
      apply Abs.hist_ok_snoc; [apply (j_ok a J)|]. split; simpl; auto. unfold outs. apply Abs.number_payload.
    + intros l'. unfold AbsM.upd, Abs.upd. destruct (Nat.eqb_spec l' l) as [->|]; [|apply (j_ts a J)].
      intros h1 e h2 E. destruct (Abs.app_cons_split _ _ _ _ _ E) as [[-> [-> ->]]|[h2' [-> Ek]]].
      * intros x Hx. apply Ht. auto.
      * apply (j_ts a J l h1 e h2'). exact Ek.
    + intros l'. unfold AbsM.upd, Abs.upd. destruct (Nat.eqb_spec l' l) as [->|]; [|apply csorted_mono with a; [auto|apply (j_cs a J)]].
      intros h1 e h2 E Hlive. destruct (Abs.app_cons_split _ _ _ _ _ E) as [[-> [-> ->]]|[h2' [-> Ek]]].
      * intros x Hx. apply Hc; auto. intros y Hy. apply (Hlive y). apply in_or_app; auto.
      * apply (j_cs a J l h1 e h2' Ek). exact Hlive.
    + intros l' x Hx. simpl in *. unfold AbsM.upd, Abs.upd in *. destruct (Nat.eqb_spec l' l) as [->|]; [contradiction|].
      apply (j_cur a J l' x Hx).
  - (* drop *)
    assert (Hm : status_mono a {| hist := hist C a; undoing := undoing C a; cur := cur C a; kill := kill C a;
                                  pool := remove1 C (mid C m) (pool C a); antis := remove_id (mid C m) (antis C a); nid := nid C a |}).
    { intros l' x Hx Hf. apply doomed_false_iff. apply doomed_false_iff in Hf. simpl in Hf. intro Hi. apply Hf.
      apply remove_id_in'; auto. apply (hist_pool_distinct a l' x m I); auto. apply (hist_lt a l' x J Hx). }
    constructor; simpl; try apply J.
    + intros l'. apply csorted_mono with a; [|apply (j_cs a J)]. intros x Hx. apply (Hm l' x Hx).
    + intros l'. apply (cur_ok_mono a _ l'); auto. apply (j_cur a J).
  - (* begin cancel *)
    constructor; simpl.
    + intros l' Hge. destruct (j_out a J l' Hge) as [A [B D]]. unfold AbsM.upd, Abs.upd. destruct (Nat.eqb_spec l' l); [lia|auto].
    + intros l'. unfold AbsM.upd, Abs.upd. destruct (Nat.eqb_spec l' l) as [->|]; [|apply (j_ok a J)].
      apply Abs.hist_ok_prefix with (e :: h2). rewrite <- Eh. apply (j_ok a J).
    + intros l'. unfold AbsM.upd, Abs.upd. destruct (Nat.eqb_spec l' l) as [->|]; [|apply (j_ts a J)].
      apply Abs.tsorted_prefix with (e :: h2). rewrite <- Eh. apply (j_ts a J).
    + intros l'. unfold AbsM.upd, Abs.upd. destruct (Nat.eqb_spec l' l) as [->|].
      * apply csorted_mono with a; [auto|]. apply csorted_prefix with (e :: h2). rewrite <- Eh. apply (j_cs a J).
      * apply csorted_mono with a; [auto|apply (j_cs a J)].
    + intros l' x Hx. simpl in *. destruct (Nat.eq_dec l' l) as [->|Hne].
      * rewrite Ec in Hx. contradiction.
      * destruct (j_cur a J l' x Hx) as [H1 [H2 H3]]. unfold AbsM.upd, Abs.upd. destruct (Nat.eqb_spec l' l); [contradiction|].
        repeat split; auto.
Qed.
End AbsM2.
Check step_inv2.
