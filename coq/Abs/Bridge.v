(* scratch prototype: invariants of the abstract Time Warp machine + a valid GVT bound
   ==> the histories below the bound are the sequential execution *)
From Coq Require Import List Arith Lia Permutation Sorted Bool.
From RS.Abs Require Import Peel Abs.
Import ListNotations.

Section Bridge.
Variable C : Type.
Variable cltb : C -> C -> bool.
Notation clt := (Abs.clt C cltb).
Hypothesis clt_irrefl : forall a, ~ clt a a.
Hypothesis clt_trans : forall a b c, clt a b -> clt b c -> clt a c.
Hypothesis clt_total : forall a b, clt a b \/ a = b \/ clt b a.
Variable tltb : C -> C -> bool.
Notation tlt := (Abs.tlt C tltb).
Hypothesis tlt_clt : forall a b, tlt a b -> clt a b.
Hypothesis clt_not_tlt : forall a b, clt a b -> ~ tlt b a.
Hypothesis tlt_negtrans : forall a b c, ~ tlt b a -> ~ tlt c b -> ~ tlt c a.

Variable St : Type.
Variable n : nat.
Variable s0 : nat -> St.
Variable handle : nat -> St -> C -> St * list (nat * C).
Hypothesis valid : forall l s c o, In o (snd (handle l s c)) -> clt c (snd o) /\ fst o < n.
Variable init : list (msg C).
Hypothesis init_dest : forall m, In m init -> mdest C m < n.

(* the GVT bound, as a predicate on contents that only looks at the timestamp *)
Variable below : C -> bool.
Hypothesis below_tdown : forall a b, ~ tlt b a -> below b = true -> below a = true.

Notation abs := (abs C).
Notation entry := (entry C).
Notation msg := (msg C).
Notation Inv := (Inv C n init).
Notation Inv2 := (Inv2 C cltb tltb St n s0 handle).
Notation con := (con C).
Notation stof := (stof C St s0 handle).

Lemma below_cdown a b : Abs.cle C cltb a b -> below b = true -> below a = true.
Proof. intros [H| ->]; auto. apply below_tdown. apply clt_not_tlt; auto. Qed.

(* handler that forgets outputs at or above the bound *)
Definition handle_g (l : nat) (s : St) (c : C) : St * list (nat * C) :=
  let '(s', o) := handle l s c in (s', filter (fun o => below (snd o)) o).

Lemma valid_g l s c o : In o (snd (handle_g l s c)) -> clt c (snd o) /\ fst o < n.
Proof. unfold handle_g. destruct (handle l s c) as [s' os] eqn:E. simpl. intros H. apply filter_In in H.
  destruct H as [H _]. apply (valid l s c o). rewrite E. exact H. Qed.

Definition belowm (m : msg) : bool := below (mc C m).
Definition belowe (e : entry) : bool := below (con e).
Definition pay (m : msg) : nat * C := (mdest C m, mc C m).

(* validity of the bound in state a: nothing pending and nothing cancelled lies below it *)
Record gvt_ok (a : abs) : Prop := {
  g_pool : forall m, In m (pool C a) -> belowm m = false;
  g_doomed : forall l e, In e (hist C a l) -> doomedb C a (em C e) = true -> belowe e = false
}.

Definition Hg (a : abs) (l : nat) : list C := map con (filter belowe (hist C a l)).
Definition Pg : list (nat * C) := map pay (filter belowm init).

(* along a timestamp-sorted history the entries below the bound form a prefix *)
Lemma filter_below_prefix (h : list entry) : tsorted C tltb h ->
  exists p r, h = p ++ r /\ filter belowe h = p /\ (forall x, In x r -> belowe x = false).
Proof.
  induction h as [|e t IH] using rev_ind; intros Hts.
  - exists [], []. repeat split; auto. intros x [].
  - destruct IH as [p [r [E [Ef Hr]]]].
    { intros h1 x h2 Eq. apply (Hts h1 x (h2 ++ [e])). rewrite Eq, <- app_assoc. reflexivity. }
    rewrite filter_app. simpl. destruct (belowe e) eqn:Be.
    + (* e is below: then everything before it is below too, so r = [] *)
      assert (r = []) as ->.
      { destruct r as [|y r']; auto. exfalso.
        assert (Hy : belowe y = false) by (apply Hr; left; auto).
        assert (~ tlt (con e) (con y)) as Hle.
        { apply (Hts t e []); auto. rewrite E. apply in_or_app. right. left. auto. }
        unfold belowe in *. rewrite (below_tdown (con y) (con e) Hle Be) in Hy. discriminate. }
      rewrite app_nil_r in E. subst t. exists (p ++ [e]), []. repeat split.
      * rewrite app_nil_r. reflexivity.
      * rewrite Ef. reflexivity.
      * intros x [].
    + exists p, (r ++ [e]). repeat split.
      * rewrite E, <- app_assoc. reflexivity.
      * rewrite Ef, app_nil_r. reflexivity.
      * intros x Hx. apply in_app_or in Hx. destruct Hx as [Hx|[<-|[]]]; auto.
Qed.

(* ---- small list facts ---- *)
Lemma filter_map_comm {A B} (f : A -> B) (p : B -> bool) (l : list A) :
  filter p (map f l) = map f (filter (fun x => p (f x)) l).
Proof. induction l as [|x t IH]; simpl; auto. destruct (p (f x)); simpl; rewrite IH; reflexivity. Qed.

Lemma filter_flat_map {A B} (f : A -> list B) (p : B -> bool) (l : list A) :
  filter p (flat_map f l) = flat_map (fun x => filter p (f x)) l.
Proof. induction l as [|x t IH]; simpl; auto. rewrite filter_app, IH. reflexivity. Qed.

Lemma map_flat_map {A B D} (f : A -> list B) (g : B -> D) (l : list A) :
  map g (flat_map f l) = flat_map (fun x => map g (f x)) l.
Proof. induction l as [|x t IH]; simpl; auto. rewrite map_app, IH. reflexivity. Qed.

Lemma filter_none {A} (p : A -> bool) (l : list A) : (forall x, In x l -> p x = false) -> filter p l = [].
Proof. induction l as [|x t IH]; simpl; auto. intros H. rewrite (H x) by (left; auto). apply IH. intros y Hy. apply H. right; auto. Qed.

Lemma proj_pay l (X : list msg) : Peel.proj C l (map pay X) = map (mc C) (filter (fun m => Nat.eqb (mdest C m) l) X).
Proof. unfold Peel.proj. rewrite (filter_map_comm pay (fun e => Nat.eqb (fst e) l) X). rewrite map_map. reflexivity. Qed.

Lemma Hg_as_msgs a l : Hg a l = map (mc C) (filter belowm (map (em C) (hist C a l))).
Proof. unfold Hg. rewrite (filter_map_comm (em C) belowm). rewrite map_map. reflexivity. Qed.

Lemma stof_snoc l h e : stof l (h ++ [e]) = fst (handle l (stof l h) (con e)).
Proof. unfold Abs.stof. rewrite fold_left_app. reflexivity. Qed.

(* running the truncated handler over a prefix of a well-formed history reproduces the recorded outputs below the bound *)
Lemma run_prefix l : forall p2 p1 t, hist_ok C St s0 handle l (p1 ++ p2 ++ t) ->
  Peel.run C St handle_g l (stof l p1) (map con p2)
  = (stof l (p1 ++ p2), map pay (filter belowm (flat_map (eouts C) p2))).
Proof.
  induction p2 as [|e q IH]; intros p1 t Hok; simpl.
  - rewrite app_nil_r. reflexivity.
  - destruct (Hok p1 e (q ++ t)) as [Hout _]; [reflexivity|].
    unfold handle_g at 1. destruct (handle l (stof l p1) (con e)) as [s1 o1] eqn:Eh. simpl in Hout.
    assert (Es1 : s1 = stof l (p1 ++ [e])) by (rewrite stof_snoc, Eh; reflexivity).
    rewrite Es1. rewrite (IH (p1 ++ [e]) t) by (rewrite <- app_assoc; exact Hok).
    rewrite <- app_assoc. simpl. f_equal. rewrite filter_app, map_app. f_equal.
    rewrite <- Hout. fold pay. rewrite (filter_map_comm pay (fun o => below (snd o))). reflexivity.
Qed.

(* outputs of entries at or above the bound are at or above the bound *)
Lemma outs_not_below a l h1 e h2 : Inv2 a -> hist C a l = h1 ++ e :: h2 -> belowe e = false ->
  forall m, In m (eouts C e) -> belowm m = false.
Proof.
  intros J Eh Be m Hm. destruct (j_ok _ _ _ _ _ _ _ a J l h1 e h2 Eh) as [Hout _].
  assert (Hin : In (pay m) (snd (handle l (stof l h1) (con e)))) by (rewrite <- Hout; apply (in_map pay); auto).
  destruct (valid _ _ _ _ Hin) as [Hlt _]. simpl in Hlt.
  destruct (belowm m) eqn:Bm; auto. unfold belowm in Bm. unfold belowe in Be.
  rewrite (below_cdown (con e) (mc C m)) in Be; [discriminate| left; auto | auto].
Qed.

Lemma all_outs_eq a : Inv2 a ->
  Pg ++ Peel.all_outs C St handle_g n s0 (Hg a) = map pay (filter belowm (sent C n init a)).
Proof.
  intros J. unfold Pg, sent. rewrite filter_app, map_app. f_equal.
  unfold Peel.all_outs. rewrite filter_flat_map, map_flat_map. apply flat_map_ext. intros l.
  unfold Peel.outs_of, Hg.
  destruct (filter_below_prefix (hist C a l) (j_ts _ _ _ _ _ _ _ a J l)) as [p [r [E [Ef Hr]]]].
  rewrite Ef.
  assert (Hok : hist_ok C St s0 handle l ([] ++ p ++ r)) by (simpl; rewrite <- E; apply (j_ok _ _ _ _ _ _ _ a J)).
  pose proof (run_prefix l p [] r Hok) as Hrun. simpl in Hrun. unfold Abs.stof in Hrun at 1. simpl in Hrun.
  rewrite Hrun. simpl. f_equal. rewrite E, flat_map_app, filter_app.
  assert (En : filter belowm (flat_map (eouts C) r) = []).
  { apply filter_none. intros m Hm. apply in_flat_map in Hm. destruct Hm as [e [He Hm]].
    destruct (in_split _ _ He) as [r1 [r2 Er]].
    assert (E2 : hist C a l = (p ++ r1) ++ e :: r2) by (rewrite E, Er, <- app_assoc; reflexivity).
    exact (outs_not_below a l (p ++ r1) e r2 J E2 (Hr e He) m Hm). }
  rewrite En, app_nil_r. reflexivity.
Qed.

Lemma in_hist_msgs a l e : l < n -> In e (hist C a l) -> In (em C e) (hist_msgs C n a).
Proof. intros Hl He. unfold hist_msgs. apply in_flat_map. exists l. split; [apply in_seq; lia|apply in_map; auto]. Qed.

Lemma hist_dest a l e : Inv2 a -> In e (hist C a l) -> mdest C (em C e) = l.
Proof. intros J He. destruct (in_split _ _ He) as [h1 [h2 E]]. destruct (j_ok _ _ _ _ _ _ _ a J l h1 e h2 E) as [_ H]. exact H. Qed.

Lemma closed_g a : Inv a -> Inv2 a -> gvt_ok a -> Peel.closed C St handle_g n s0 Pg (Hg a).
Proof.
  intros I J G. unfold Peel.closed. intros l Hl.
  match goal with |- Permutation _ (Peel.proj _ _ ?X) =>
    assert (EX : X = map pay (filter belowm (sent C n init a))) by (apply (all_outs_eq a J)); rewrite EX end.
  rewrite proj_pay, Hg_as_msgs. apply Permutation_map.
  apply NoDup_Permutation.
  - apply NoDup_filter.
    pose proof (i_nd_placed _ _ _ a I) as H. apply NoDup_map_inv in H.
    apply (Permutation_NoDup (Abs.placed_split C n a l Hl)) in H.
    apply Abs.nodup_app_r in H. apply Abs.nodup_app_l in H. exact H.
  - apply NoDup_filter, NoDup_filter. pose proof (i_nd_sent _ _ _ a I) as H. apply NoDup_map_inv in H. exact H.
  - intros x. rewrite !filter_In, in_map_iff. split.
    + intros [[e [<- He]] Bx]. repeat split; auto.
      * destruct (i_placed _ _ _ a I (em C e)) as [Hs|Hd]; auto.
        { unfold placed. apply in_or_app. right. apply (in_hist_msgs a l e); auto. }
        exfalso. apply (Abs.doomedb_true C) in Hd. pose proof (g_doomed a G l e He Hd) as Hb.
        unfold belowe, Abs.con in Hb. unfold belowm in Bx. congruence.
      * apply Nat.eqb_eq. apply (hist_dest a l e J He).
    + intros [[Hs Bx] Hd]. apply Nat.eqb_eq in Hd. split; auto.
      pose proof (i_sent_placed _ _ _ a I x Hs) as Hp. unfold placed in Hp. apply in_app_or in Hp.
      destruct Hp as [Hp|Hp].
      * rewrite (g_pool a G x Hp) in Bx. discriminate.
      * unfold hist_msgs in Hp. apply in_flat_map in Hp. destruct Hp as [l' [_ Hp]].
        apply in_map_iff in Hp. destruct Hp as [e [<- He]]. exists e. split; auto.
        rewrite (hist_dest a l' e J He) in Hd. subst l'. exact He.
Qed.

Lemma sorted_from_splits {A} (R : C -> C -> Prop) (f : A -> C) (p : list A) :
  (forall h1 e h2, p = h1 ++ e :: h2 -> forall x, In x h1 -> R (f x) (f e)) -> StronglySorted R (map f p).
Proof.
  induction p as [|a q IH]; intros H; simpl; constructor.
  - apply IH. intros h1 e h2 E x Hx. apply (H (a :: h1) e h2); [rewrite E; reflexivity|right; auto].
  - apply Forall_forall. intros c Hc. apply in_map_iff in Hc. destruct Hc as [y [<- Hy]].
    destruct (in_split _ _ Hy) as [q1 [q2 E]]. apply (H (a :: q1) y q2); [rewrite E; reflexivity|left; auto].
Qed.

Lemma sorted_g a : Inv2 a -> gvt_ok a -> Peel.sortedH C clt n (Hg a).
Proof.
  intros J G l Hl. unfold Hg.
  destruct (filter_below_prefix (hist C a l) (j_ts _ _ _ _ _ _ _ a J l)) as [p [r [E [Ef Hr]]]].
  rewrite Ef. apply sorted_from_splits. intros h1 e h2 Ep x Hx.
  apply (j_cs _ _ _ _ _ _ _ a J l h1 e (h2 ++ r)); auto.
  - rewrite E, Ep, <- app_assoc. reflexivity.
  - intros y Hy. destruct (doomedb C a (em C y)) eqn:Ed; auto. exfalso.
    assert (Hyp : In y p).
    { rewrite Ep. apply in_app_or in Hy. apply in_or_app. destruct Hy as [Hy|[<-|[]]]; [left; auto|right; left; auto]. }
    assert (Hyh : In y (hist C a l)) by (rewrite E; apply in_or_app; auto).
    pose proof (g_doomed a G l y Hyh Ed) as Hb.
    rewrite <- Ef in Hyp. apply filter_In in Hyp. destruct Hyp as [_ Hyp]. congruence.
Qed.

Lemma dests_g : Peel.dests_ok C n Pg.
Proof. intros e He. unfold Pg in He. apply in_map_iff in He. destruct He as [m [<- Hm]].
  apply filter_In in Hm. destruct Hm as [Hm _]. simpl. auto. Qed.

(* the abstract form of C01/C03: in any state satisfying the invariants, for any valid GVT bound,
   every sequential execution (of the model truncated at the bound) dispatches to each LP exactly the
   part of its history that lies below the bound *)
Theorem below_gvt_is_sequential a : Inv a -> Inv2 a -> gvt_ok a ->
  forall tr, Peel.seqrun C clt St handle_g s0 Pg tr ->
  forall l, l < n -> Peel.proj C l tr = Hg a l.
Proof.
  intros I J G tr Hrun l Hl.
  apply (Peel.closed_sorted_family_unique C clt clt_irrefl clt_trans clt_total St handle_g n valid_g s0 Pg tr Hrun);
    auto using closed_g, sorted_g, dests_g.
Qed.

(* reachability from the initial state *)
Definition a0 (N : nat) : abs := {| hist := fun _ => []; pool := init; antis := []; nid := N |}.
Inductive reach (N : nat) : abs -> Prop :=
| r0 : reach N (a0 N)
| rs : forall a a', reach N a -> step C cltb tltb St n s0 handle a a' -> reach N a'.

Hypothesis init_nodup : NoDup (map (mid C) init).

Lemma flat_map_nil {A B} (ls : list A) : flat_map (fun _ => @nil B) ls = [].
Proof. induction ls; simpl; auto. Qed.

Lemma inv_a0 N : (forall m, In m init -> mid C m < N) -> Inv (a0 N) /\ Inv2 (a0 N).
Proof.
  intros HN. split.
  - assert (Ep : placed C n (a0 N) = init).
    { unfold placed, hist_msgs. simpl. rewrite (flat_map_nil (seq 0 n)). apply app_nil_r. }
    assert (Es : sent C n init (a0 N) = init).
    { unfold sent. simpl. rewrite (flat_map_nil (seq 0 n)). apply app_nil_r. }
    constructor; rewrite ?Ep, ?Es; simpl; auto.
    + constructor.
    + apply incl_refl.
    + intros i [].
  - constructor; simpl.
    + intros l. left; auto.
    + intros l h1 e h2 E. destruct h1; discriminate.
    + intros l h1 e h2 E. destruct h1; discriminate.
    + intros l h1 e h2 E. destruct h1; discriminate.
Qed.

Theorem reach_inv N : (forall m, In m init -> mid C m < N) -> forall a, reach N a -> Inv a /\ Inv2 a.
Proof.
  intros HN a R. induction R as [|a a' R [I J] S].
  - apply inv_a0; auto.
  - split.
    + apply (step_inv C cltb tltb St n s0 handle init a a' I S).
    + apply (step_inv2 C cltb clt_trans clt_total tltb tlt_clt St n s0 handle init tlt_negtrans a a' I J S).
Qed.

Corollary time_warp_below_gvt_is_sequential N a :
  (forall m, In m init -> mid C m < N) -> reach N a -> gvt_ok a ->
  forall tr, Peel.seqrun C clt St handle_g s0 Pg tr ->
  forall l, l < n -> Peel.proj C l tr = Hg a l.
Proof. intros HN R G. destruct (reach_inv N HN a R) as [I J]. apply below_gvt_is_sequential; auto. Qed.
End Bridge.
Check time_warp_below_gvt_is_sequential.
