(* C04 — GVT is a monotone, safe lower bound: nothing happens below a reported GVT.
   Thread level, for n threads and every schedule:
   - counter protocol (c_a / c_b of gvt_thread_phase_run): window invariant; a thread publishes its value (phase C step)
     only when every thread has joined the pass, (re)starts with a cleared accumulator only when nobody is between
     publishing and leaving, and enters B only when nobody is still in C or D; the executable step function used to
     replay the transitions traced from gvt.c is sound for this model and preserves the invariant;
   - data argument (abstract lock-step discipline whose two guards are exactly the ones above): the invariant Phi is
     preserved by extraction, insertion into any queue with a timestamp not below the current one, end of event, reset,
     rejoin, publish and end of pass; when every thread has published, the minimum of the published values is a lower
     bound of every queued message and of every event in progress (gvt_safe).
   Monotonicity, "same value for all threads" and "no extraction below a value once told" are decided on the traces of
   free-running and cooperatively scheduled runs.
   Node level (TW/GvtNode.v), for ANY number of ranks and EVERY interleaving of event processing, local and remote sends,
   deliveries (arbitrary delay, arbitrary reordering) and protocol steps: two message colours, per-colour send and receive
   counters, the reduce-scatter of the old colour's send counts, the wait for the old-colour messages, the min reduction —
   when the min reduction completes its result is a lower bound of every queued message, of every event in progress and of
   every message IN FLIGHT on every rank; a rank leaves the wait only when no old-colour message addressed to it is in
   flight; the executable step function used to replay traced multi-rank runs is sound for the relation and every state of
   a replayed run satisfies the invariant. *)
From Coq Require Import List Arith.
From RS Require Import TW.GvtCounters TW.GvtExec TW.GvtData.
From RS Require TW.GvtNode.

Theorem C04_counter_invariant : forall s s', GvtCounters.Inv s -> GvtCounters.step s s' -> GvtCounters.Inv s'.
Proof. exact GvtCounters.step_inv. Qed.

Theorem C04_publish_only_when_all_joined : forall s i, GvtCounters.Inv s -> nth_error (ths s) i = Some C -> ca s = length (ths s) ->
  cnt I (ths s) = 0 /\ cnt A (ths s) = 0 /\ cnt B (ths s) = 0.
Proof. exact publish_guard. Qed.

Theorem C04_restart_only_when_nobody_published : forall s i, GvtCounters.Inv s -> nth_error (ths s) i = Some I ->
  (cnt I (ths s) = length (ths s) \/ cb s <> 0) -> cnt D (ths s) = 0.
Proof. exact start_guard. Qed.

Theorem C04_enterB_guard : forall s i, GvtCounters.Inv s -> nth_error (ths s) i = Some A -> ca s = 0 ->
  cnt C (ths s) = 0 /\ cnt D (ths s) = 0.
Proof. exact enterB_guard. Qed.

Theorem C04_replay_step_sound : forall s i to s', gstep s i to = Some s' -> GvtCounters.step s s'.
Proof. exact gstep_sound. Qed.

Theorem C04_replayed_traces_keep_invariant : forall tr s s', GvtCounters.Inv s -> greplay s tr = Some s' -> GvtCounters.Inv s'.
Proof. exact greplay_inv. Qed.

Theorem C04_data_invariant : forall s s', Phi s -> GvtData.step s s' -> Phi s'.
Proof. exact step_Phi. Qed.

Theorem C04_gvt_safe : forall s, Phi s -> (forall y, In y s -> st y = Done) ->
  (forall y t, In y s -> In t (q y) -> ole (gmin s) t) /\ (forall y c, In y s -> cur y = Some c -> ole (gmin s) c).
Proof. exact gvt_safe. Qed.

Theorem C04_node_invariant_all_interleavings : forall s s', GvtNode.Inv s -> GvtNode.step s s' -> GvtNode.Inv s'.
Proof. exact GvtNode.step_inv. Qed.

Theorem C04_node_gvt_is_below_everything_queued_in_progress_and_in_flight : forall w queues s,
  GvtNode.reach (GvtNode.init w queues) s -> (forall y, In y (GvtNode.rks s) -> GvtNode.stg y = GvtNode.Published) ->
  (forall y t, In y (GvtNode.rks s) -> In t (GvtNode.q y) -> ole (GvtNode.gvt_of s) t) /\
  (forall y c, In y (GvtNode.rks s) -> GvtNode.cur y = Some c -> ole (GvtNode.gvt_of s) c) /\
  (forall m, In m (GvtNode.net s) -> ole (GvtNode.gvt_of s) (GvtNode.mts m)).
Proof. exact GvtNode.gvt_node_safe. Qed.

Theorem C04_node_old_colour_received_before_publishing : forall s d y, GvtNode.Inv s -> nth_error (GvtNode.rks s) d = Some y -> 5 <= GvtNode.sn (GvtNode.stg y) ->
  forall m, In m (GvtNode.net s) -> GvtNode.mdst m = d -> GvtNode.mcol m = negb (GvtNode.white s).
Proof. exact GvtNode.white_received_before_publishing. Qed.

Theorem C04_node_replay_step_sound : forall s o s', GvtNode.nexec s o = Some s' -> GvtNode.step s s'.
Proof. exact GvtNode.nexec_sound. Qed.

Theorem C04_node_replayed_runs_keep_invariant : forall w queues ops s, GvtNode.nrun (GvtNode.init w queues) ops = Some s -> GvtNode.Inv s.
Proof. exact GvtNode.nrun_inv. Qed.

Print Assumptions C04_node_invariant_all_interleavings.
Print Assumptions C04_node_gvt_is_below_everything_queued_in_progress_and_in_flight.
Print Assumptions C04_node_old_colour_received_before_publishing.
Print Assumptions C04_node_replay_step_sound.
Print Assumptions C04_node_replayed_runs_keep_invariant.
Print Assumptions C04_counter_invariant.
Print Assumptions C04_publish_only_when_all_joined.
Print Assumptions C04_restart_only_when_nobody_published.
Print Assumptions C04_enterB_guard.
Print Assumptions C04_replay_step_sound.
Print Assumptions C04_replayed_traces_keep_invariant.
Print Assumptions C04_data_invariant.
Print Assumptions C04_gvt_safe.
