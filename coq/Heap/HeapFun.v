(* scratch prototype: the array heap of datatypes/heap.h, insert (sift-up), function-as-array style *)
From Coq Require Import List Arith Lia Permutation Bool.
Import ListNotations.

Section Heap.
Variable A : Type.
Variable cmp : A -> A -> bool.            (* "is before" *)
Hypothesis cmp_irrefl : forall a, cmp a a = false.
Hypothesis cmp_trans : forall a b c, cmp a b = true -> cmp b c = true -> cmp a c = true.
Hypothesis cmp_negtrans : forall a b c, cmp a b = false -> cmp b c = false -> cmp a c = false.

Definition arr := nat -> A.
Definition upd (f : arr) (i : nat) (x : A) : arr := fun k => if Nat.eqb k i then x else f k.
Definition par (i : nat) : nat := (i - 1) / 2.

Definition heap_ok (f : arr) (n : nat) : Prop := forall k, 0 < k < n -> cmp (f k) (f (par k)) = false.

(* the loop of heap_insert: i is the hole, e the element being inserted *)
Fixpoint sift_up (fuel : nat) (f : arr) (i : nat) (e : A) : arr :=
  match fuel with
  | 0 => upd f i e
  | S fuel' =>
      if (0 <? i) && cmp e (f (par i)) then sift_up fuel' (upd f i (f (par i))) (par i) e else upd f i e
  end.

Definition heap_insert (f : arr) (n : nat) (e : A) : arr := sift_up n f n e.

Lemma par_lt i : 0 < i -> par i < i.
Proof. intros H. unfold par. apply Nat.div_lt_upper_bound; lia. Qed.

Lemma cmp_asym a b : cmp a b = true -> cmp b a = false.
Proof. intros H. destruct (cmp b a) eqn:E; auto. pose proof (cmp_trans _ _ _ H E) as H'. rewrite cmp_irrefl in H'. discriminate. Qed.

Lemma upd_same f i x : upd f i x i = x. Proof. unfold upd. rewrite Nat.eqb_refl. reflexivity. Qed.
Lemma upd_other f i x k : k <> i -> upd f i x k = f k.
Proof. intros H. unfold upd. destruct (Nat.eqb_spec k i); [contradiction|reflexivity]. Qed.

(* hole invariant *)
Record hole_inv (f : arr) (n i : nat) (e : A) : Prop := {
  h_a : forall k, 0 < k < n -> k <> i -> cmp (f k) (f (par k)) = false;
  h_b : forall k, 0 < k < n -> par k = i -> cmp (f k) e = false;
  h_c : forall k, 0 < k < n -> par k = i -> 0 < i -> cmp (f k) (f (par i)) = false
}.

Lemma sift_up_ok fuel : forall f n i e, i < n -> i <= fuel -> hole_inv f n i e -> heap_ok (sift_up fuel f i e) n.
Proof.
  induction fuel as [|fuel IH]; intros f n i e Hin Hfuel H.
  - (* i = 0 *)
    assert (i = 0) by lia. subst i. simpl. intros k Hk. unfold upd.
    destruct (Nat.eqb_spec k 0); [lia|]. destruct (Nat.eqb_spec (par k) 0) as [E|E].
    + apply (h_b f n 0 e H k Hk E).
    + apply (h_a f n 0 e H k Hk). lia.
  - simpl. destruct ((0 <? i) && cmp e (f (par i))) eqn:Econd.
    + apply andb_prop in Econd. destruct Econd as [Hpos Hcmp]. apply Nat.ltb_lt in Hpos.
      pose proof (par_lt i Hpos) as Hp.
      apply IH; [lia|lia|]. set (p := par i) in *. set (f' := upd f i (f p)).
      constructor.
      * intros k Hk Hkp. unfold f'. destruct (Nat.eq_dec k i) as [->|Hki].
        -- rewrite upd_same. fold p. rewrite upd_other by lia. apply cmp_irrefl.
        -- rewrite (upd_other f i (f p) k Hki). destruct (Nat.eq_dec (par k) i) as [Epk|Epk].
           ++ rewrite Epk, upd_same. apply (h_c f n i e H k Hk Epk Hpos).
           ++ rewrite (upd_other f i (f p) (par k) Epk). apply (h_a f n i e H k Hk Hki).
      * intros k Hk Epk. unfold f'. destruct (Nat.eq_dec k i) as [->|Hki].
        -- rewrite upd_same. apply cmp_asym. exact Hcmp.
        -- rewrite (upd_other f i (f p) k Hki).
           pose proof (h_a f n i e H k Hk Hki) as H1. rewrite Epk in H1.
           destruct (cmp (f k) e) eqn:E; auto. rewrite (cmp_trans _ _ _ E Hcmp) in H1. discriminate.
      * intros k Hk Epk Hppos. unfold f'. rewrite (upd_other f i (f p) (par p)) by (pose proof (par_lt p Hppos); lia).
        assert (Hpa : cmp (f p) (f (par p)) = false) by (apply (h_a f n i e H p); lia).
        destruct (Nat.eq_dec k i) as [->|Hki].
        -- rewrite upd_same. exact Hpa.
        -- rewrite (upd_other f i (f p) k Hki).
           pose proof (h_a f n i e H k Hk Hki) as H1. rewrite Epk in H1. apply (cmp_negtrans _ _ _ H1 Hpa).
    + (* stop here *)
      intros k Hk. unfold upd. destruct (Nat.eqb_spec k i) as [->|Hki].
      * destruct (Nat.eqb_spec (par i) i) as [E|E]; [pose proof (par_lt i); lia|].
        apply andb_false_iff in Econd. destruct Econd as [Hz|Hc]; [apply Nat.ltb_ge in Hz; lia|exact Hc].
      * destruct (Nat.eqb_spec (par k) i) as [E|E].
        -- apply (h_b f n i e H k Hk E).
        -- apply (h_a f n i e H k Hk Hki).
Qed.

(* inserting into a heap of size n gives a heap of size n+1 *)
Theorem heap_insert_ok f n e : heap_ok f n -> heap_ok (heap_insert f n e) (S n).
Proof.
  intros H. unfold heap_insert. apply sift_up_ok; [lia|lia|]. constructor.
  - intros k Hk Hkn. apply H. lia.
  - intros k Hk Epk. exfalso. pose proof (par_lt k). lia.
  - intros k Hk Epk. exfalso. pose proof (par_lt k). lia.
Qed.

(* ---------- extraction (sift-down) ---------- *)
Definition pick (f : arr) (cnt i : nat) : nat := if (i + 1 <? cnt) && cmp (f (i + 1)) (f i) then i + 1 else i.

Fixpoint sift_down (fuel : nat) (f : arr) (cnt j : nat) (last : A) : arr :=
  match fuel with
  | 0 => upd f j last
  | S fuel' =>
      let i := 2 * j + 1 in
      if i <? cnt then
        let i' := pick f cnt i in
        if cmp (f i') last then sift_down fuel' (upd f j (f i')) cnt i' last else upd f j last
      else upd f j last
  end.

(* heap_extract: returns (minimum, remaining heap of size n-1) *)
Definition heap_extract (f : arr) (n : nat) : A * arr := (f 0, sift_down n f (n - 1) 0 (f (n - 1))).

Lemma par_child_l j : par (2 * j + 1) = j.
Proof. unfold par. replace (2 * j + 1 - 1) with (j * 2) by lia. apply Nat.div_mul. lia. Qed.
Lemma par_child_r j : par (2 * j + 1 + 1) = j.
Proof. unfold par. replace (2 * j + 1 + 1 - 1) with (1 + j * 2) by lia. rewrite Nat.div_add by lia. reflexivity. Qed.
Lemma par_inv k j : 0 < k -> par k = j -> k = 2 * j + 1 \/ k = 2 * j + 1 + 1.
Proof. unfold par. intros Hk E. pose proof (Nat.div_mod (k - 1) 2). pose proof (Nat.mod_upper_bound (k - 1) 2). lia. Qed.

Lemma pick_spec f cnt i : i < cnt ->
  (pick f cnt i = i \/ (pick f cnt i = i + 1 /\ i + 1 < cnt)) /\
  cmp (f i) (f (pick f cnt i)) = false /\ (i + 1 < cnt -> cmp (f (i + 1)) (f (pick f cnt i)) = false).
Proof.
  intros Hi. unfold pick. destruct (Nat.ltb_spec (i + 1) cnt) as [H1|H1]; simpl.
  - destruct (cmp (f (i + 1)) (f i)) eqn:E.
    + split; [right; auto|]. split; [apply cmp_asym; auto|intros _; apply cmp_irrefl].
    + split; [left; auto|]. split; [apply cmp_irrefl|auto].
  - split; [left; auto|]. split; [apply cmp_irrefl|lia].
Qed.

Lemma sift_down_S fuel f cnt j last :
  sift_down (S fuel) f cnt j last =
  if 2 * j + 1 <? cnt then
    if cmp (f (pick f cnt (2 * j + 1))) last then sift_down fuel (upd f j (f (pick f cnt (2 * j + 1)))) cnt (pick f cnt (2 * j + 1)) last
    else upd f j last
  else upd f j last.
Proof. reflexivity. Qed.

Lemma sift_down_ok fuel : forall f cnt j last, cnt - j <= fuel -> j < cnt \/ cnt = 0 ->
  heap_ok f cnt -> (0 < j -> cmp last (f (par j)) = false) -> heap_ok (sift_down fuel f cnt j last) cnt.
Proof.
  induction fuel as [|fuel IH]; intros f cnt j last Hfuel Hj Hok Hb.
  - intros k Hk. lia.
  - rewrite sift_down_S. destruct (Nat.ltb_spec (2 * j + 1) cnt) as [Hc|Hc].
    + set (i := 2 * j + 1) in *. destruct (pick_spec f cnt i Hc) as [Hpk [Hl Hr]]. set (i' := pick f cnt i) in *.
      assert (Hi'par : par i' = j) by (destruct Hpk as [-> |[-> _]]; [apply par_child_l|apply par_child_r]).
      assert (Hi'lt : i' < cnt) by (destruct Hpk as [-> |[-> ?]]; lia).
      assert (Hi'j : j < i') by (destruct Hpk as [-> |[-> _]]; unfold i; lia).
      destruct (cmp (f i') last) eqn:Ecmp.
      * (* move the smaller child up and continue *)
        apply IH; [lia|left; lia| |].
        -- intros k Hk. destruct (Nat.eq_dec k j) as [->|Hkj].
           ++ rewrite upd_same. rewrite upd_other by (pose proof (par_lt j); lia).
              apply (cmp_negtrans _ (f j)); [|apply Hok; lia]. rewrite <- Hi'par. apply Hok. lia.
           ++ rewrite (upd_other f j (f i') k Hkj). destruct (Nat.eq_dec (par k) j) as [Epk|Epk].
              ** rewrite Epk, upd_same. destruct (par_inv k j (proj1 Hk) Epk) as [->| ->]; fold i.
                 --- exact Hl.
                 --- apply Hr. lia.
              ** rewrite (upd_other f j (f i') (par k) Epk). apply Hok. exact Hk.
        -- intros _. rewrite Hi'par, upd_same. apply cmp_asym. exact Ecmp.
      * (* stop: last goes into the hole *)
        intros k Hk. unfold upd. destruct (Nat.eqb_spec k j) as [->|Hkj].
        -- destruct (Nat.eqb_spec (par j) j); [pose proof (par_lt j); lia|]. apply Hb. lia.
        -- destruct (Nat.eqb_spec (par k) j) as [Epk|Epk]; [|apply Hok; exact Hk].
           destruct (par_inv k j (proj1 Hk) Epk) as [->| ->]; fold i.
           ++ apply (cmp_negtrans _ (f i')); auto.
           ++ apply (cmp_negtrans _ (f i')); auto. apply Hr. lia.
    + (* no children *)
      intros k Hk. unfold upd. destruct (Nat.eqb_spec k j) as [->|Hkj].
      * destruct (Nat.eqb_spec (par j) j); [pose proof (par_lt j); lia|]. apply Hb. lia.
      * destruct (Nat.eqb_spec (par k) j) as [Epk|Epk]; [|apply Hok; exact Hk].
        destruct (par_inv k j (proj1 Hk) Epk); lia.
Qed.

Theorem heap_extract_ok f n : 0 < n -> heap_ok f n -> heap_ok (snd (heap_extract f n)) (n - 1).
Proof.
  intros Hn H. unfold heap_extract. simpl. apply sift_down_ok; try lia.
  - intros k Hk. apply H. lia.
Qed.

(* the root of a heap is before-or-equivalent to everything *)
Theorem heap_root_min f n : heap_ok f n -> forall k, k < n -> cmp (f k) (f 0) = false.
Proof.
  intros H k. induction k as [k IH] using lt_wf_ind. intros Hk.
  destruct (Nat.eq_dec k 0) as [->|Hk0]; [apply cmp_irrefl|].
  apply (cmp_negtrans _ (f (par k))); [apply H; lia|]. apply IH; [apply par_lt; lia|pose proof (par_lt k); lia].
Qed.
End Heap.
