(* C15: the list-based heap operations preserve the multiset of elements whatever the comparator answers (even one
   that changes between calls), and the queue never loses or duplicates a message. *)
From Coq Require Import List Arith Bool Lia Permutation.
From RS Require Import Heap.HeapList.
Import ListNotations.

Section Perm.
Variable A : Type.
Variable d : A.
Notation upd := (HeapList.upd A).

Lemma upd_length l : forall i x, length (upd l i x) = length l.
Proof. induction l as [|h t IH]; intros [|i] x; cbn; auto. Qed.

Lemma upd_same l : forall i, i < length l -> upd l i (nth i l d) = l.
Proof. induction l as [|h t IH]; intros [|i] H; cbn in *; try lia; [reflexivity|]. f_equal. apply IH. lia. Qed.

Lemma nth_upd_other l : forall i j x, i <> j -> nth i (upd l j x) d = nth i l d.
Proof. induction l as [|h t IH]; intros [|i] [|j] x H; cbn; try reflexivity; try lia. apply IH. lia. Qed.

Lemma upd_perm_cons t : forall j x y, j < length t -> Permutation (x :: upd t j y) (y :: upd t j x).
Proof.
  induction t as [|h t IH]; intros [|j] x y H; cbn in *; try lia.
  - apply perm_swap.
  - eapply perm_trans; [apply perm_swap|]. eapply perm_trans; [apply perm_skip, IH; lia|]. apply perm_swap.
Qed.

Lemma perm_upd2 l : forall i j a b, i <> j -> i < length l -> j < length l ->
  Permutation (upd (upd l i a) j b) (upd (upd l i b) j a).
Proof.
  induction l as [|h t IH]; intros [|i] [|j] a b Hne Hi Hj; cbn in *; try lia.
  - apply upd_perm_cons. lia.
  - apply upd_perm_cons. lia.
  - apply perm_skip, IH; lia.
Qed.

Variable cmp : A -> A -> bool.

Lemma sift_up_perm fuel : forall l i e, i < length l -> Permutation (sift_up A d cmp fuel l i e) (upd l i e).
Proof.
  induction fuel as [|f IH]; intros l i e Hi; cbn [sift_up]; [reflexivity|].
  destruct (Nat.ltb_spec 0 i) as [Hpos|]; cbn [andb]; [|reflexivity].
  destruct (cmp e (nth ((i - 1) / 2) l d)); [|reflexivity].
  set (p := (i - 1) / 2). assert (Hp : p < i) by (unfold p; apply Nat.div_lt_upper_bound; lia).
  eapply perm_trans; [apply IH; rewrite upd_length; lia|].
  rewrite <- (upd_same (upd l i e) p) at 1 by (rewrite upd_length; lia).
  rewrite nth_upd_other by lia. apply perm_upd2; lia.
Qed.

Lemma upd_app_last l e x : upd (l ++ [e]) (length l) x = l ++ [x].
Proof. induction l as [|h t IH]; cbn; [reflexivity|]. f_equal. exact IH. Qed.

Theorem heap_insert_perm l e : Permutation (heap_insert A d cmp l e) (e :: l).
Proof.
  unfold heap_insert. eapply perm_trans; [apply sift_up_perm; rewrite app_length; cbn; lia|].
  rewrite upd_app_last. apply Permutation_sym, Permutation_cons_append.
Qed.

Lemma sift_down_perm fuel : forall l cnt i j last, j < i -> cnt <= length l -> j < length l ->
  Permutation (sift_down A d cmp fuel l cnt i j last) (upd l j last).
Proof.
  induction fuel as [|f IH]; intros l cnt i j last Hji Hc Hj; cbn [sift_down]; [reflexivity|].
  destruct (Nat.ltb_spec i cnt) as [Hi|]; [|reflexivity].
  set (i' := if Nat.ltb (i + 1) cnt && cmp (nth (i + 1) l d) (nth i l d) then i + 1 else i).
  assert (Hi' : i <= i' /\ i' < cnt).
  { unfold i'. destruct (Nat.ltb_spec (i + 1) cnt); cbn [andb]; [destruct (cmp _ _)|]; lia. }
  destruct (cmp (nth i' l d) last); [|reflexivity].
  eapply perm_trans; [apply IH; rewrite ?upd_length; lia|].
  rewrite <- (upd_same (upd l j last) i') at 1 by (rewrite upd_length; lia).
  rewrite nth_upd_other by lia. apply perm_upd2; lia.
Qed.

Theorem heap_extract_perm l r l' : heap_extract A d cmp l = Some (r, l') -> Permutation (r :: l') l.
Proof.
  unfold heap_extract. destruct l as [|x t]; [discriminate|]. intros E. injection E as <- <-.
  destruct t as [|y t'].
  - cbn. reflexivity.
  - assert (Hne : y :: t' <> []) by discriminate.
    pose proof (app_removelast_last d Hne) as El.
    change (last (x :: y :: t') d) with (last (y :: t') d).
    change (removelast (x :: y :: t')) with (x :: removelast (y :: t')).
    set (rl := removelast (y :: t')) in *. set (la := last (y :: t') d) in *.
    eapply perm_trans; [apply perm_skip, sift_down_perm; cbn; lia|]. cbn [HeapList.upd].
    rewrite El. apply perm_skip. apply Permutation_cons_append.
Qed.
End Perm.

(* ---- the queue: ghost accounting of everything pushed and everything extracted ---- *)
Inductive qop := Push (m : qmsg) | Flag (id : nat) | Extract | Peek.

Record ghost := mkG { g_state : qstate; g_pushed : list qmsg; g_extracted : list qmsg; g_peeks : list (option nat) }.

Definition g_step (g : ghost) (o : qop) : ghost :=
  match o with
  | Push m => mkG (q_push (g_state g) m) (m :: g_pushed g) (g_extracted g) (g_peeks g)
  | Flag id => mkG (q_flag (g_state g) id) (g_pushed g) (g_extracted g) (g_peeks g)
  | Extract => let '(r, s') := q_extract (g_state g) in
               mkG s' (g_pushed g) (match r with Some m => m :: g_extracted g | None => g_extracted g end) (g_peeks g)
  | Peek => let '(r, s') := q_peek (g_state g) in mkG s' (g_pushed g) (g_extracted g) (r :: g_peeks g)
  end.

Definition g_init : ghost := mkG q_init [] [] [].
Definition contents (s : qstate) : list qmsg := q_shared s ++ q_heap s.
Definition accounted (g : ghost) : Prop := Permutation (g_pushed g) (contents (g_state g) ++ g_extracted g).

Lemma transfer_perm s : Permutation (q_heap (q_transfer s)) (q_shared s ++ q_heap s).
Proof.
  unfold q_transfer. cbn [q_heap]. generalize (q_heap s). induction (q_shared s) as [|m l IH]; intros h; cbn; [reflexivity|].
  eapply perm_trans; [apply IH|].
  eapply perm_trans; [apply Permutation_app_head, heap_insert_perm|]. apply Permutation_sym, Permutation_middle.
Qed.

Theorem step_accounted g o : accounted g -> accounted (g_step g o).
Proof.
  unfold accounted, contents. intros H. destruct o as [m|id| |]; cbn [g_step].
  - cbn. apply perm_skip. exact H.
  - exact H.
  - unfold q_extract. pose proof (transfer_perm (g_state g)) as Ht.
    destruct (heap_extract qmsg qm_dummy (cmp_now (q_transfer (g_state g))) (q_heap (q_transfer (g_state g)))) as [[m h']|] eqn:E; cbn.
    + pose proof (heap_extract_perm _ _ _ _ _ _ E) as Hp.
      eapply perm_trans; [exact H|]. eapply perm_trans; [apply Permutation_app_tail, Permutation_sym, Ht|].
      eapply perm_trans; [apply Permutation_app_tail, Permutation_sym, Hp|]. cbn. apply Permutation_middle.
    + eapply perm_trans; [exact H|]. apply Permutation_app_tail, Permutation_sym, Ht.
  - unfold q_peek. cbn. eapply perm_trans; [exact H|]. apply Permutation_app_tail, Permutation_sym, transfer_perm.
Qed.

(* every message pushed by any producer is, after any sequence of operations, either still in the queue or has been
   extracted — exactly once (as multisets): nothing is lost, nothing is duplicated *)
Theorem no_loss_no_dup ops : accounted (fold_left g_step ops g_init).
Proof.
  assert (G : forall l g, accounted g -> accounted (fold_left g_step l g)).
  { induction l as [|o l IH]; intros g H; cbn; [exact H|]. apply IH, step_accounted, H. }
  apply G. unfold accounted, contents. cbn. reflexivity.
Qed.

(* after an extraction or a peek the shared list has been emptied into the heap: everything pushed before the
   exchange is in the heap (or was extracted) when the answer is computed *)
Theorem transfer_takes_everything s : q_shared (q_transfer s) = [] /\ Permutation (q_heap (q_transfer s)) (q_shared s ++ q_heap s).
Proof. split; [reflexivity|apply transfer_perm]. Qed.
