(* Executable model of the array heap of src/datatypes/heap.h (heap_insert, heap_extract) on lists, and of the
   inter-thread message queue of src/datatypes/msg_queue.c (shared LIFO list + private heap).  Definitions only. *)
From Coq Require Import List Arith Bool.
Import ListNotations.

Section Heap.
Variable A : Type.
Variable d : A.                       (* default for out-of-range reads (never used on well-formed calls) *)
Variable cmp : A -> A -> bool.        (* "is before" *)

Fixpoint upd (l : list A) (i : nat) (x : A) : list A :=
  match l, i with [], _ => [] | _ :: t, 0 => x :: t | h :: t, S j => h :: upd t j x end.

(* the loop of heap_insert: hole at i, element e in hand *)
Fixpoint sift_up (fuel : nat) (l : list A) (i : nat) (e : A) : list A :=
  match fuel with
  | 0 => upd l i e
  | S f =>
      let p := (i - 1) / 2 in
      if Nat.ltb 0 i && cmp e (nth p l d) then sift_up f (upd l i (nth p l d)) p e else upd l i e
  end.

Definition heap_insert (l : list A) (e : A) : list A := sift_up (length l) (l ++ [e]) (length l) e.

(* the loop of heap_extract: hole at j, candidate child i, [last] in hand, cnt = number of elements left *)
Fixpoint sift_down (fuel : nat) (l : list A) (cnt i j : nat) (last : A) : list A :=
  match fuel with
  | 0 => upd l j last
  | S f =>
      if Nat.ltb i cnt then
        let i' := if Nat.ltb (i + 1) cnt && cmp (nth (i + 1) l d) (nth i l d) then i + 1 else i in
        if cmp (nth i' l d) last then sift_down f (upd l j (nth i' l d)) cnt (i' * 2 + 1) i' last
        else upd l j last
      else upd l j last
  end.

Definition heap_extract (l : list A) : option (A * list A) :=
  match l with
  | [] => None
  | r :: _ =>
      let last := List.last l d in
      let l' := removelast l in
      Some (r, match l' with [] => [] | _ => sift_down (length l') l' (length l') 1 0 last end)
  end.
End Heap.

(* ---- the message queue of one consumer thread ---- *)
Record qmsg := mkQm { qm_id : nat; qm_t : nat; qm_anti : bool; qm_type : nat }.

(* the queue comparator on what the harness varies: time, then the ANTI bit (cancelled first), then type (higher first) *)
Definition qm_before (a b : qmsg) : bool :=
  Nat.ltb (qm_t a) (qm_t b) ||
  (Nat.eqb (qm_t a) (qm_t b) &&
   (if Bool.eqb (qm_anti a) (qm_anti b) then Nat.ltb (qm_type b) (qm_type a) else qm_anti a)).

Definition qm_dummy := mkQm 0 0 false 0.

Record qstate := mkQs {
  q_shared : list qmsg;          (* the lock-free list, head first *)
  q_heap : list qmsg;            (* the consumer's private heap (array order) *)
  q_flags : list (nat * bool)    (* messages whose ANTI bit was set while queued *)
}.

Definition q_init : qstate := mkQs [] [] [].

Definition cur_anti (s : qstate) (m : qmsg) : qmsg :=
  if existsb (fun x => Nat.eqb (fst x) (qm_id m)) (q_flags s) then mkQm (qm_id m) (qm_t m) true (qm_type m) else m.

(* the comparator sees the CURRENT flag word of the queued messages *)
Definition cmp_now (s : qstate) (a b : qmsg) : bool := qm_before (cur_anti s a) (cur_anti s b).

(* producer: successful compare-and-swap *)
Definition q_push (s : qstate) (m : qmsg) : qstate := mkQs (m :: q_shared s) (q_heap s) (q_flags s).
(* a sender cancels a message it inserted earlier *)
Definition q_flag (s : qstate) (id : nat) : qstate := mkQs (q_shared s) (q_heap s) ((id, true) :: q_flags s).
(* consumer: atomic exchange, then heap_insert of every element in list order *)
Definition q_transfer (s : qstate) : qstate :=
  mkQs [] (fold_left (fun h m => heap_insert qmsg qm_dummy (cmp_now s) h m) (q_shared s) (q_heap s)) (q_flags s).
Definition q_extract (s : qstate) : option qmsg * qstate :=
  let s1 := q_transfer s in
  match heap_extract qmsg qm_dummy (cmp_now s1) (q_heap s1) with
  | None => (None, s1)
  | Some (m, h') => (Some m, mkQs [] h' (q_flags s1))
  end.
(* msg_queue_time_peek: None = SIMTIME_MAX *)
Definition q_peek (s : qstate) : option nat * qstate :=
  let s1 := q_transfer s in
  (match q_heap s1 with [] => None | m :: _ => Some (qm_t m) end, s1).
