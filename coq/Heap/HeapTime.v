(* The array heap of heap.h under a comparator that may CHANGE between operations (the queue comparator reads the live
   ANTI bit of queued messages): whatever the comparator does on ties, as long as every comparator used agrees with a fixed
   key (here the timestamp) -- "a before b" implies key a <= key b, and key a < key b implies "a before b" -- the array stays
   a heap for the key, so the root always carries a minimal key.  This is what msg_queue_time_peek relies on for the GVT. *)
From Coq Require Import List Arith NArith Bool Lia ZArith ZifyNat ZifyBool ZifyN.
From RS Require Import Heap.HeapList Heap.HeapListProofs.
Import ListNotations.
Ltac Zify.zify_post_hook ::= Z.div_mod_to_equations.

Section TimeHeap.
Variable A : Type.
Variable d : A.
Variable key : A -> N.
Notation upd := (HeapList.upd A).

(* a comparator compatible with the key *)
Definition compat (cmp : A -> A -> bool) : Prop :=
  (forall a b, cmp a b = true -> (key a <= key b)%N) /\ (forall a b, (key a < key b)%N -> cmp a b = true).

Definition theap (l : list A) : Prop :=
  forall k, 0 < k < length l -> (key (nth ((k - 1) / 2) l d) <= key (nth k l d))%N.

Lemma nth_upd_same l : forall i x, i < length l -> nth i (upd l i x) d = x.
Proof. induction l as [|h t IH]; intros [|i] x H; cbn in *; try lia; [reflexivity|]. apply IH. lia. Qed.

(* ---------- sift up ---------- *)
Record up_inv (l : list A) (i : nat) (e : A) : Prop := {
  u_in : i < length l;
  u_edges : forall k, 0 < k < length l -> k <> i -> (k - 1) / 2 <> i -> (key (nth ((k - 1) / 2) l d) <= key (nth k l d))%N;
  u_kids : forall k, 0 < k < length l -> (k - 1) / 2 = i -> (key e <= key (nth k l d))%N;
  u_gkids : forall k, 0 < k < length l -> (k - 1) / 2 = i -> 0 < i -> (key (nth ((i - 1) / 2) l d) <= key (nth k l d))%N
}.

Lemma sift_up_theap cmp (Hc : compat cmp) fuel : forall l i e, i <= fuel -> up_inv l i e -> theap (sift_up A d cmp fuel l i e).
Proof.
  destruct Hc as [R1 R2].
  assert (Stop : forall l i e, up_inv l i e -> (0 < i -> (key (nth ((i - 1) / 2) l d) <= key e)%N) -> theap (upd l i e)).
  { intros l i e [Hin He Hk Hg] Hp k Hkr. rewrite upd_length in Hkr.
    destruct (Nat.eq_dec k i) as [->|Hki].
    - rewrite nth_upd_same by exact Hin. rewrite nth_upd_other by lia. apply Hp. lia.
    - rewrite (nth_upd_other A d l k i e Hki). destruct (Nat.eq_dec ((k - 1) / 2) i) as [Epi|Hpi].
      + rewrite Epi, nth_upd_same by exact Hin. apply Hk; assumption.
      + rewrite nth_upd_other by exact Hpi. apply He; assumption. }
  induction fuel as [|f IH]; intros l i e Hf Hinv; cbn [sift_up].
  - assert (i = 0) by lia. subst i. apply Stop; [exact Hinv|lia].
  - destruct (Nat.ltb_spec 0 i) as [Hi|Hi]; cbn [andb].
    2:{ apply Stop; [exact Hinv|lia]. }
    destruct (cmp e (nth ((i - 1) / 2) l d)) eqn:Ec.
    2:{ apply Stop; [exact Hinv|]. intros _.
        destruct (N.le_gt_cases (key (nth ((i - 1) / 2) l d)) (key e)) as [H|H]; [exact H|]. rewrite (R2 _ _ H) in Ec. discriminate. }
    set (pp := (i - 1) / 2) in *. assert (Hpi : pp < i) by (unfold pp; lia).
    apply IH; [lia|]. destruct Hinv as [Hin He Hk Hg].
    assert (Hlen : length (upd l i (nth pp l d)) = length l) by apply upd_length.
    constructor.
    + rewrite Hlen. lia.
    + intros k Hkr Hkp Hpk. rewrite Hlen in Hkr.
      destruct (Nat.eq_dec k i) as [->|Hki]; [fold pp in Hpk; lia|].
      rewrite (nth_upd_other A d l k i _ Hki).
      destruct (Nat.eq_dec ((k - 1) / 2) i) as [Epi|Hpi'].
      * rewrite Epi, nth_upd_same by exact Hin. apply (Hg k Hkr Epi Hi).
      * rewrite nth_upd_other by exact Hpi'. apply He; assumption.
    + intros k Hkr Hpk. rewrite Hlen in Hkr.
      destruct (Nat.eq_dec k i) as [->|Hki].
      * rewrite nth_upd_same by exact Hin. apply R1. exact Ec.
      * rewrite (nth_upd_other A d l k i _ Hki).
        apply N.le_trans with (key (nth pp l d)); [apply R1; exact Ec|].
        rewrite <- Hpk. apply He; [exact Hkr|exact Hki|lia].
    + intros k Hkr Hpk Hp0. rewrite Hlen in Hkr.
      assert (Hppi : (pp - 1) / 2 <> i) by lia.
      rewrite (nth_upd_other A d l ((pp - 1) / 2) i _ Hppi).
      assert (Hedge : (key (nth ((pp - 1) / 2) l d) <= key (nth pp l d))%N) by (apply He; lia).
      destruct (Nat.eq_dec k i) as [->|Hki].
      * rewrite nth_upd_same by exact Hin. exact Hedge.
      * rewrite (nth_upd_other A d l k i _ Hki). apply N.le_trans with (key (nth pp l d)); [exact Hedge|].
        rewrite <- Hpk. apply He; [exact Hkr|exact Hki|lia].
Qed.

Lemma nth_app_l (l : list A) e k : k < length l -> nth k (l ++ [e]) d = nth k l d.
Proof. intros H. apply app_nth1. exact H. Qed.

Theorem heap_insert_theap cmp l e : compat cmp -> theap l -> theap (heap_insert A d cmp l e).
Proof.
  intros Hc Hh. unfold heap_insert. apply sift_up_theap; [exact Hc|lia|].
  constructor.
  - rewrite app_length. cbn. lia.
  - intros k Hk Hki Hpk. rewrite app_length in Hk. cbn in Hk.
    rewrite !nth_app_l by lia. apply Hh. lia.
  - intros k Hk Hpk. rewrite app_length in Hk. cbn in Hk. lia.
  - intros k Hk Hpk. rewrite app_length in Hk. cbn in Hk. lia.
Qed.

(* ---------- sift down ---------- *)
Record down_inv (l : list A) (cnt j : nat) (last : A) : Prop := {
  d_len : cnt <= length l;
  d_in : j < cnt \/ cnt = 0;
  d_edges : forall k, 0 < k < cnt -> k <> j -> (k - 1) / 2 <> j -> (key (nth ((k - 1) / 2) l d) <= key (nth k l d))%N;
  d_par : 0 < j -> (key (nth ((j - 1) / 2) l d) <= key last)%N;
  d_gkids : forall k, 0 < k < cnt -> (k - 1) / 2 = j -> 0 < j -> (key (nth ((j - 1) / 2) l d) <= key (nth k l d))%N
}.

Definition theap_upto (l : list A) (cnt : nat) : Prop :=
  forall k, 0 < k < cnt -> (key (nth ((k - 1) / 2) l d) <= key (nth k l d))%N.

Lemma sift_down_theap cmp (Hc : compat cmp) fuel : forall l cnt j last,
  cnt <= fuel + j -> j < length l -> down_inv l cnt j last -> theap_upto (sift_down A d cmp fuel l cnt (2 * j + 1) j last) cnt.
Proof.
  destruct Hc as [R1 R2].
  assert (Stop : forall l cnt j last, j < length l -> down_inv l cnt j last ->
            (forall k, 0 < k < cnt -> (k - 1) / 2 = j -> (key last <= key (nth k l d))%N) -> theap_upto (upd l j last) cnt).
  { intros l cnt j last Hjl [Hlen Hin He Hp Hg] Hkids k Hkr.
    destruct (Nat.eq_dec k j) as [->|Hkj].
    - rewrite nth_upd_same by exact Hjl. rewrite nth_upd_other by lia. apply Hp. lia.
    - rewrite (nth_upd_other A d l k j last Hkj). destruct (Nat.eq_dec ((k - 1) / 2) j) as [Epj|Hpj].
      + rewrite Epj, nth_upd_same by exact Hjl. apply Hkids; assumption.
      + rewrite nth_upd_other by exact Hpj. apply He; assumption. }
  induction fuel as [|f IH]; intros l cnt j last Hf Hjl Hinv; cbn [sift_down].
  - apply Stop; [exact Hjl|exact Hinv|]. intros k Hk Hpk. lia.
  - destruct (Nat.ltb_spec (2 * j + 1) cnt) as [Hc1|Hc1].
    2:{ apply Stop; [exact Hjl|exact Hinv|]. intros k Hk Hpk. lia. }
    set (i := 2 * j + 1) in *.
    set (i' := if Nat.ltb (i + 1) cnt && cmp (nth (i + 1) l d) (nth i l d) then i + 1 else i).
    assert (Hi' : (i' = i \/ i' = i + 1) /\ i' < cnt /\
                  (forall k, 0 < k < cnt -> (k - 1) / 2 = j -> (key (nth i' l d) <= key (nth k l d))%N)).
    { unfold i'. destruct (Nat.ltb_spec (i + 1) cnt) as [H2|H2]; cbn [andb].
      - destruct (cmp (nth (i + 1) l d) (nth i l d)) eqn:E2.
        + split; [right; reflexivity|]. split; [exact H2|]. intros k Hk Hpk.
          assert (k = i \/ k = i + 1) as [->| ->] by (unfold i; lia); [apply R1; exact E2|apply N.le_refl].
        + split; [left; reflexivity|]. split; [exact Hc1|]. intros k Hk Hpk.
          assert (k = i \/ k = i + 1) as [->| ->] by (unfold i; lia); [apply N.le_refl|].
          destruct (N.le_gt_cases (key (nth i l d)) (key (nth (i + 1) l d))) as [H|H]; [exact H|]. rewrite (R2 _ _ H) in E2. discriminate.
      - split; [left; reflexivity|]. split; [exact Hc1|]. intros k Hk Hpk.
        assert (k = i) as -> by (unfold i; lia). apply N.le_refl. }
    destruct Hi' as (Hi'v & Hi'c & Hmin).
    destruct (cmp (nth i' l d) last) eqn:Ecl.
    2:{ apply Stop; [exact Hjl|exact Hinv|]. intros k Hk Hpk.
        apply N.le_trans with (key (nth i' l d)); [|apply Hmin; assumption].
        destruct (N.le_gt_cases (key last) (key (nth i' l d))) as [H|H]; [exact H|]. rewrite (R2 _ _ H) in Ecl. discriminate. }
    destruct Hinv as [Hlen Hin He Hp Hg].
    assert (Hpj : (i' - 1) / 2 = j) by (unfold i in Hi'v; lia).
    assert (Hij : i' <> j) by (unfold i in Hi'v; lia).
    replace (i' * 2 + 1) with (2 * i' + 1) by lia.
    assert (Hlen' : length (upd l j (nth i' l d)) = length l) by apply upd_length.
    apply (fun H1 H2 H3 => (IH (upd l j (nth i' l d)) cnt i' last H1 H2 H3)); [unfold i in Hi'v; lia|rewrite Hlen'; lia|].
    constructor.
    + rewrite Hlen'. exact Hlen.
    + left. exact Hi'c.
    + intros k Hk Hki Hpk'.
      destruct (Nat.eq_dec k j) as [->|Hkj].
      * (* the old hole now holds the chosen child: its parent edge *)
        rewrite nth_upd_same by exact Hjl. rewrite nth_upd_other by lia.
        apply (Hg i' ltac:(lia) Hpj). lia.
      * rewrite (nth_upd_other A d l k j _ Hkj).
        destruct (Nat.eq_dec ((k - 1) / 2) j) as [Epj|Hpj'].
        -- rewrite Epj, nth_upd_same by exact Hjl. apply Hmin; [exact Hk|exact Epj].
        -- rewrite nth_upd_other by exact Hpj'. apply He; assumption.
    + intros _. rewrite Hpj, nth_upd_same by exact Hjl. apply R1. exact Ecl.
    + intros k Hk Hpk' _. rewrite Hpj, nth_upd_same by exact Hjl.
      assert (Hkj : k <> j) by lia. rewrite (nth_upd_other A d l k j _ Hkj).
      rewrite <- Hpk'. apply He; [exact Hk|exact Hki_dummy|lia] || (apply He; [exact Hk|lia|lia]).
Qed.


Lemma nth_removelast (l : list A) k : k < length l - 1 -> nth k (removelast l) d = nth k l d.
Proof.
  revert k. induction l as [|x l IH]; intros k H; [cbn in H; lia|].
  destruct l as [|y l]; [cbn in H; lia|]. destruct k as [|k]; [reflexivity|].
  change (removelast (x :: y :: l)) with (x :: removelast (y :: l)). cbn [nth]. apply IH. cbn in *. lia.
Qed.
Lemma removelast_length (l : list A) : length (removelast l) = length l - 1.
Proof.
  induction l as [|x l IH]; [reflexivity|]. destruct l as [|y l]; [reflexivity|].
  change (removelast (x :: y :: l)) with (x :: removelast (y :: l)). cbn [length] in *. lia.
Qed.

Theorem heap_extract_theap cmp l r l' : compat cmp -> theap l -> heap_extract A d cmp l = Some (r, l') -> theap l'.
Proof.
  intros Hc Hh H. unfold heap_extract in H. destruct l as [|x l0] eqn:El; [discriminate|]. rewrite <- El in *.
  injection H as _ <-.
  destruct (removelast l) as [|y rl] eqn:Er; [intros k Hk; cbn in Hk; lia|]. rewrite <- Er.
  assert (Hlen : length (removelast l) = length l - 1) by apply removelast_length.
  pose proof (sift_down_theap cmp Hc (length (removelast l)) (removelast l) (length (removelast l)) 0 (last l d)) as Hs.
  cbn [Nat.mul Nat.add] in Hs.
  assert (Hne : 0 < length (removelast l)) by (rewrite Er; cbn; lia).
  specialize (Hs ltac:(lia) Hne).
  assert (Hinv : down_inv (removelast l) (length (removelast l)) 0 (last l d)).
  { constructor; try lia.
    - intros k Hk Hk0 Hp0. rewrite !nth_removelast by lia. apply Hh. lia. }
  specialize (Hs Hinv). intros k Hk.
  assert (Hl2 : length (sift_down A d cmp (length (removelast l)) (removelast l) (length (removelast l)) 1 0 (last l d)) = length (removelast l)).
  { rewrite (Permutation.Permutation_length (sift_down_perm A d cmp _ (removelast l) (length (removelast l)) 1 0 (last l d) ltac:(lia) ltac:(lia) Hne)).
    apply upd_length. }
  apply Hs. rewrite Hl2 in Hk. exact Hk.
Qed.

(* the root of a key-heap carries a minimal key *)
Theorem theap_root_min l : theap l -> forall k, k < length l -> (key (nth 0 l d) <= key (nth k l d))%N.
Proof.
  intros Hh k. induction k as [k IH] using lt_wf_ind. intros Hk.
  destruct k as [|k]; [apply N.le_refl|].
  apply N.le_trans with (key (nth ((S k - 1) / 2) l d)); [apply IH; lia|apply Hh; lia].
Qed.

End TimeHeap.
