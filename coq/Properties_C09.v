(* C09 — results are configuration-independent and repeatable; RNG replays after rollback.
   (1) The seeding function of the model takes the seed and the LP identifier and nothing else, and its result is a
       well-formed generator state; every state reachable by draws stays well formed (so, by C18, every draw is defined).
   (2) The generator state is part of the LP state that handlers transform; the capstone of C01 (re-exported) says the
       committed histories are those of the sequential execution, whose definition mentions no thread count, rank,
       checkpoint interval or GVT period — so are the RNG values drawn along them (they are folded into the state).
   The code's side — no other input to seeding, generator state restored by rollback — is what the correspondence and the
   metamorphic runs of the check establish. *)
From Coq Require Import NArith List.
From RS Require Import Rng.RngDefs Rng.RngProofs TW.App TW.AppAbs TW.AppAbs2.
From RS.Abs Require Import Peel Abs Bridge AbsM AbsM2 BridgeM ReachM.

Theorem C09_seeded_state_well_formed : forall lp seed, rng_wf (rng_init lp seed).
Proof. exact rng_init_wf. Qed.

Theorem C09_reachable_generator_states_well_formed : forall lp seed n, rng_wf (draws n (rng_init lp seed)).
Proof. exact reachable_generator_states_wf. Qed.

Theorem C09_committed_outcome_is_configuration_free : forall (p : prog), prog_valid p = true ->
  forall (below : cont -> bool),
  (forall a b, ~ Abs.tlt cont tltb b a -> below b = true -> below a = true) ->
  forall a, ReachM.reach cont cltb tltb lpstate (nlps p) (s0 p) (ahandle p) (ainit p) (length (init_events p (nlps p) 0)) a ->
  BridgeM.gvt_ok cont below a ->
  forall tr, Peel.seqrun cont (Abs.clt cont cltb) lpstate (Bridge.handle_g cont lpstate (ahandle p) below) (s0 p)
               (Bridge.Pg cont (ainit p) below) tr ->
  forall l, (l < nlps p)%nat -> Peel.proj cont l tr = BridgeM.Hg cont below a l.
Proof. exact app_time_warp_is_sequential. Qed.

Print Assumptions C09_seeded_state_well_formed.
Print Assumptions C09_reachable_generator_states_well_formed.
Print Assumptions C09_committed_outcome_is_configuration_free.
