(* C03 — committed history is exactly a prefix of the sequential history.
   For every valid program, every schedule of the micro-step abstract Time Warp machine and every GVT value g that is
   valid in the reached state: the entries of an LP's history with timestamp below g (what fossil collection at g may
   release, what is "committed" at shutdown) are (i) a prefix of the LP's current history and (ii) exactly — same
   events, same order, nothing missing, duplicated or alien — the LP's dispatch sequence below g in the sequential
   execution.  Bounds are monotone: the committed part for g1 is the below-g1 part of the committed part for any g2 >= g1,
   so what was released earlier stays a prefix.  Runs stopped by a termination time or RootsimStop are covered: the
   statement is about every reachable state, not about quiescence. *)
From Coq Require Import NArith List.
From RS Require Import TW.App TW.AppAbs TW.AppAbs2.
From RS.Abs Require Import Peel Abs Bridge AbsM AbsM2 BridgeM ReachM.
From RS Require TW.Worker TW.WorkerSafety TW.WorkerOnceApp TW.WorkerAbs.

Theorem C03_committed_is_sequential_prefix : forall p, prog_valid p = true -> forall g a,
  ReachM.reach cont cltb tltb lpstate (nlps p) (s0 p) (ahandle p) (ainit p) (length (init_events p (nlps p) 0)) a ->
  BridgeM.gvt_ok cont (below_ts g) a ->
  forall tr, Peel.seqrun cont (Abs.clt cont cltb) lpstate (Bridge.handle_g cont lpstate (ahandle p) (below_ts g)) (s0 p)
               (Bridge.Pg cont (ainit p) (below_ts g)) tr ->
  forall l, (l < nlps p)%nat ->
    Peel.proj cont l tr = BridgeM.Hg cont (below_ts g) a l /\
    exists rest, map (Abs.con cont) (AbsM.hist cont a l) = BridgeM.Hg cont (below_ts g) a l ++ rest.
Proof. exact committed_is_sequential_prefix. Qed.

Theorem C03_commit_bounds_monotone : forall g1 g2 (h : list (Abs.entry cont)), (g1 <= g2)%N ->
  filter (Bridge.belowe cont (below_ts g1)) (filter (Bridge.belowe cont (below_ts g2)) h) =
  filter (Bridge.belowe cont (below_ts g1)) h.
Proof. exact filter_below_mono. Qed.

(* process.c / fossil.c level (worker model, TW/WorkerAbs.v): after EVERY script -- deliveries, late hand-backs, cancellations, GVT
   announcements, fossil collections -- and for every bound g at or below the worker's GVT, what fossil collection has released
   (all of it below the GVT) followed by the retained history entries below g is exactly the LP's part of the sequential execution
   below g: nothing released was speculative, nothing committed is missing, duplicated or out of order. *)
Theorem C03_worker_committed_is_sequential : forall (p : prog) (ck : nat), prog_valid p = true -> WorkerOnceApp.types_okb p = true ->
  forall (ops : list Worker.wop) (g : N),
  let w := fold_left (Worker.wstep p ck) ops (Worker.w_init p) in
  BinInt.Z.le (BinInt.Z.of_N g) (Worker.k_gvt w) ->
  forall tr, Peel.seqrun cont (Abs.clt cont cltb) lpstate (Bridge.handle_g cont lpstate (ahandle p) (below_ts g)) (s0 p) (Bridge.Pg cont (WorkerAbs.init0 p) (below_ts g)) tr ->
  forall l, (l < nlps p)%nat -> exists released, (forall y, In y released -> BinInt.Z.lt (BinInt.Z.of_N (WorkerSafety.tm y)) (Worker.k_gvt w)) /\
    Peel.proj cont l tr = map WorkerAbs.evc (filter (fun y => below_ts g (WorkerAbs.evc y)) (released ++ WorkerAbs.retained w l)) /\
    (BinInt.Z.of_N g = Worker.k_gvt w ->
     Peel.proj cont l tr = map WorkerAbs.evc released ++ map WorkerAbs.evc (filter (fun y => below_ts g (WorkerAbs.evc y)) (WorkerAbs.retained w l))).
Proof. exact WorkerAbs.worker_committed_is_sequential. Qed.

Print Assumptions C03_committed_is_sequential_prefix.
Print Assumptions C03_commit_bounds_monotone.
Print Assumptions C03_worker_committed_is_sequential.
