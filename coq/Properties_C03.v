(* C03 — committed history is exactly a prefix of the sequential history.
   For every valid program, every schedule of the micro-step abstract Time Warp machine and every GVT value g that is
   valid in the reached state: the entries of an LP's history with timestamp below g (what fossil collection at g may
   release, what is "committed" at shutdown) are (i) a prefix of the LP's current history and (ii) exactly — same
   events, same order, nothing missing, duplicated or alien — the LP's dispatch sequence below g in the sequential
   execution.  Bounds are monotone: the committed part for g1 is the below-g1 part of the committed part for any g2 >= g1,
   so what was released earlier stays a prefix.  Runs stopped by a termination time or RootsimStop are covered: the
   statement is about every reachable state, not about quiescence. *)
From Coq Require Import NArith List.
From RS Require Import TW.App TW.AppAbs TW.AppAbs2.
From RS.Abs Require Import Peel Abs Bridge AbsM AbsM2 BridgeM ReachM.

Theorem C03_committed_is_sequential_prefix : forall p, prog_valid p = true -> forall g a,
  ReachM.reach cont cltb tltb lpstate (nlps p) (s0 p) (ahandle p) (ainit p) (length (init_events p (nlps p) 0)) a ->
  BridgeM.gvt_ok cont (below_ts g) a ->
  forall tr, Peel.seqrun cont (Abs.clt cont cltb) lpstate (Bridge.handle_g cont lpstate (ahandle p) (below_ts g)) (s0 p)
               (Bridge.Pg cont (ainit p) (below_ts g)) tr ->
  forall l, (l < nlps p)%nat ->
    Peel.proj cont l tr = BridgeM.Hg cont (below_ts g) a l /\
    exists rest, map (Abs.con cont) (AbsM.hist cont a l) = BridgeM.Hg cont (below_ts g) a l ++ rest.
Proof. exact committed_is_sequential_prefix. Qed.

Theorem C03_commit_bounds_monotone : forall g1 g2 (h : list (Abs.entry cont)), (g1 <= g2)%N ->
  filter (Bridge.belowe cont (below_ts g1)) (filter (Bridge.belowe cont (below_ts g2)) h) =
  filter (Bridge.belowe cont (below_ts g1)) h.
Proof. exact filter_below_mono. Qed.

Print Assumptions C03_committed_is_sequential_prefix.
Print Assumptions C03_commit_bounds_monotone.
