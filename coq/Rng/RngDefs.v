(* Model of src/lib/random: xxtea seeding, the xoshiro256** step (random_u64), the integer half
   of Random(), and RandomRange / RandomRangeNonUniform as exact integer arithmetic on the
   binary64 encoding.  All machine words are N with explicit wrap-around. Executable only. *)
From Coq Require Import NArith ZArith List Bool.
Import ListNotations.
Local Open Scope N_scope.

Definition W64 : N := 18446744073709551616.
Definition W32 : N := 4294967296.
Definition u64 (x : N) : N := x mod W64.
Definition u32 (x : N) : N := x mod W32.

Definition rotl64 (x k : N) : N := N.lor (u64 (N.shiftl x k)) (N.shiftr x (64 - k)).

(* ---- xxtea_encode (n words of 32 bits, key of 4 words) ---- *)
Definition XXTEA_DELTA : N := 2654435769. (* 0x9e3779b9 *)

Definition xxtea_mx (y z sum p e : N) (key : list N) : N :=
  let a := N.lxor (N.shiftr z 5) (u32 (N.shiftl y 2)) in
  let b := N.lxor (N.shiftr y 3) (u32 (N.shiftl z 4)) in
  let k := nth (N.to_nat (N.lxor (N.land p 3) e)) key 0 in
  N.lxor (u32 (a + b)) (u32 (N.lxor sum y + N.lxor k z)).

(* one inner pass: v[p] += mx(v[p+1], z) for p < n-1 (old right neighbour), then the last word
   with the NEW v[0] as right neighbour *)
Fixpoint xxtea_pass (vs : list N) (z sum p e : N) (key : list N) (new0 : option N) : list N :=
  match vs with
  | [] => []
  | [x] =>
      let y := match new0 with Some y0 => y0 | None => x end in
      [u32 (x + xxtea_mx y z sum p e key)]
  | x :: ((y :: _) as rest) =>
      let x' := u32 (x + xxtea_mx y z sum p e key) in
      x' :: xxtea_pass rest x' sum (p + 1) e key (match new0 with Some _ => new0 | None => Some x' end)
  end.

Fixpoint xxtea_rounds (rounds : nat) (vs : list N) (sum : N) (key : list N) : list N :=
  match rounds with
  | O => vs
  | S k =>
      let e := N.land (N.shiftr sum 2) 3 in
      let z := last vs 0 in
      let vs' := xxtea_pass vs z sum 0 e key None in
      xxtea_rounds k vs' (u32 (sum + XXTEA_DELTA)) key
  end.

Definition xxtea_encode (vs : list N) (key : list N) : list N :=
  let n := N.of_nat (length vs) in
  xxtea_rounds (N.to_nat (8 + 50 / n)) vs XXTEA_DELTA key.

Definition seeding_key : list N := [3500733834; 859149348; 163226971; 2162277808].
  (* 0xd0a8f58a 0x33359424 0x09baa55b 0x80e1bdb0 *)

(* ---- generator state: four 64-bit words ---- *)
Record rng := mkRng { s0 : N; s1 : N; s2 : N; s3 : N }.

Definition lo32 (x : N) := u32 x.
Definition hi32 (x : N) := N.shiftr x 32.
Definition join32 (lo hi : N) := N.lor lo (N.shiftl hi 32).

(* random_lib_lp_init: a function of the seed and the LP identifier only *)
Definition rng_init (lp seed : N) : rng :=
  let v := [lo32 lp; hi32 lp; lo32 seed; hi32 seed; lo32 lp; hi32 lp; lo32 seed; hi32 seed] in
  match xxtea_encode v seeding_key with
  | [a; b; c; d; e; f; g; h] => mkRng (join32 a b) (join32 c d) (join32 e f) (join32 g h)
  | _ => mkRng 0 0 0 0
  end.

(* random_u64 macro of xoroshiro.h *)
Definition random_u64 (s : rng) : N * rng :=
  let res := u64 (rotl64 (u64 (s1 s * 5)) 7 * 9) in
  let t := u64 (N.shiftl (s1 s) 17) in
  let s2' := N.lxor (s2 s) (s0 s) in
  let s3' := N.lxor (s3 s) (s1 s) in
  let s1' := N.lxor (s1 s) s2' in
  let s0' := N.lxor (s0 s) s3' in
  let s2'' := N.lxor s2' t in
  let s3'' := rotl64 s3' 45 in
  (res, mkRng s0' s1' s2'' s3'').

(* ---- the integer half of Random() ---- *)
(* C shift with definedness: a shift by the width or more is undefined *)
Definition shl64 (x k : N) : option N := if k <? 64 then Some (u64 (N.shiftl x k)) else None.

Definition clz64 (u : N) : N := 63 - N.log2 u.   (* for 0 < u < 2^64 *)

Definition ONE_BITS : N := 4607182418800017408.   (* 0x3FF0000000000000 = bits of 1.0 *)

(* bit pattern of the double returned by Random() for raw output u; None = undefined shift *)
Definition random_bits (u : N) : option N :=
  if u =? 0 then Some 0 else
  let lzs := clz64 u + 1 in
  match shl64 u (lzs - 1) with
  | None => None
  | Some u1 =>
    match shl64 u1 1 with
    | None => None
    | Some u2 =>
      let u3 := N.shiftr u2 12 in
      let ex := 1023 - lzs in
      Some (N.lor u3 (N.shiftl ex 52))
    end
  end.

(* the pre-fix code: one shift by lzs (undefined for u = 1) *)
Definition random_bits_unsplit (u : N) : option N :=
  if u =? 0 then Some 0 else
  let lzs := clz64 u + 1 in
  match shl64 u lzs with
  | None => None
  | Some u2 => Some (N.lor (N.shiftr u2 12) (N.shiftl (1023 - lzs) 52))
  end.

(* ---- floor (x * n) for x given by its binary64 bit pattern b (0 <= x < 1) and an integer n >= 0:
        exact product, round to nearest even on 53 bits, floor ---- *)
Definition round53 (p : N) : N :=
  let l := N.size p in
  if l <=? 53 then p else
  let s := l - 53 in
  let q := N.shiftr p s in
  let r := p mod (2 ^ s) in
  let half := 2 ^ (s - 1) in
  let q' := if (half <? r) || ((r =? half) && N.odd q) then q + 1 else q in
  N.shiftl q' s.

Definition floor_mul (b n : N) : N :=
  if b =? 0 then 0 else
  let e := N.shiftr b 52 in
  let m := b mod (2 ^ 52) in
  let big := 2 ^ 52 + m in
  N.shiftr (round53 (big * n)) (1075 - e).

Local Open Scope Z_scope.
(* RandomRange(min, max) given the bit pattern of the Random() draw; int arithmetic is exact in the
   documented domain 0 <= min <= max, max - min + 1 <= 2^31 - 1 *)
Definition random_range (b : N) (mn mx : Z) : Z :=
  Z.of_N (floor_mul b (Z.to_N (mx - mn + 1))) + mn.

(* RandomRangeNonUniform(x, min, max) from the two draws it makes (first RandomRange(0,x)?  no:
   the evaluation order of the two operands of | is unspecified in C; the driver records which
   draw went to which operand, here b1 feeds RandomRange(0, x) and b2 RandomRange(min, max)) *)
Definition random_range_nonuniform (b1 b2 : N) (x mn mx : Z) : Z :=
  Z.lor (random_range b1 0 x) (random_range b2 mn mx) mod (mx - mn + 1) + mn.
