(* C18 (integer part): Random() is defined for every raw generator output and lies in [0,1). *)
From Coq Require Import NArith ZArith List Bool Lia.
From RS Require Import Rng.RngDefs.
Import ListNotations.
Local Open Scope N_scope.

Lemma lor_disjoint_add a e k : a < 2 ^ k -> N.lor a (e * 2 ^ k) = a + e * 2 ^ k.
Proof.
  intros Ha.
  assert (D : N.land a (e * 2 ^ k) = 0).
  { apply N.bits_inj_0. intros n. rewrite N.land_spec.
    destruct (N.lt_ge_cases n k) as [Hn|Hn].
    - rewrite N.mul_pow2_bits_low by assumption. apply andb_false_r.
    - destruct (N.eq_dec a 0) as [->|Hz]; [rewrite N.bits_0; reflexivity|].
      rewrite (N.bits_above_log2 a n); [reflexivity|].
      apply N.log2_lt_pow2 in Ha; lia. }
  rewrite <- N.lxor_lor by assumption. symmetry. apply N.add_nocarry_lxor. assumption.
Qed.

Lemma log2_bounds u : 0 < u -> 2 ^ N.log2 u <= u < 2 ^ (N.log2 u + 1).
Proof. intros H. pose proof (N.log2_spec u H). rewrite N.add_1_r. lia. Qed.

Lemma log2_lt64 u : 0 < u -> u < W64 -> N.log2 u <= 63.
Proof.
  intros H0 H. assert (N.log2 u < 64); [|lia]. apply N.log2_lt_pow2; [assumption|]. exact H.
Qed.

(* the exact value: exponent field 959 + log2 u, mantissa = the bits of u below its leading one,
   left-aligned in 52 bits (truncated) *)
Definition mantissa (u : N) : N := (u * 2 ^ (63 - N.log2 u) - 2 ^ 63) * 2 / 2 ^ 12.

Theorem random_bits_spec u : u < W64 ->
  exists b, random_bits u = Some b /\ b < ONE_BITS /\
            (u = 0 -> b = 0) /\
            (0 < u -> b = mantissa u + (959 + N.log2 u) * 2 ^ 52 /\ mantissa u < 2 ^ 52).
Proof.
  intros Hu. unfold random_bits.
  destruct (N.eqb_spec u 0) as [->|Hnz].
  { exists 0. repeat split; try reflexivity; intros; lia. }
  assert (Hpos : 0 < u) by lia.
  pose proof (log2_bounds u Hpos) as [Hlo Hhi]. pose proof (log2_lt64 u Hpos Hu) as Hl.
  set (l := N.log2 u) in *.
  unfold clz64. fold l.
  replace (63 - l + 1 - 1) with (63 - l) by lia.
  unfold shl64. destruct (N.ltb_spec (63 - l) 64) as [_|]; [|lia].
  assert (Hpq : 2 ^ (63 - l) * 2 ^ l = 2 ^ 63) by (rewrite <- N.pow_add_r; f_equal; lia).
  assert (Hq1 : 2 ^ (l + 1) = 2 * 2 ^ l) by (rewrite N.pow_add_r, N.pow_1_r; lia).
  set (p := 2 ^ (63 - l)) in *. set (q := 2 ^ l) in *.
  assert (E63 : (2:N) ^ 63 = 9223372036854775808) by reflexivity.
  assert (H1 : 2 ^ 63 <= u * p < W64).
  { unfold W64. rewrite E63 in *. nia. }
  rewrite !N.shiftl_mul_pow2. fold p. change (2 ^ 1) with 2.
  destruct (N.ltb_spec 1 64) as [_|]; [|lia].
  replace (u64 (u * p)) with (u * p) by (unfold u64; rewrite N.mod_small; [reflexivity|lia]).
  assert (E2 : u64 (u * p * 2) = (u * p - 2 ^ 63) * 2).
  { unfold u64. replace (u * p * 2) with ((u * p - 2 ^ 63) * 2 + 1 * W64).
    - rewrite N.mod_add by (unfold W64; lia). apply N.mod_small. unfold W64 in *. rewrite E63 in *. lia.
    - unfold W64 in *. rewrite E63 in *. lia. }
  rewrite E2. rewrite N.shiftr_div_pow2.
  assert (Hm : (u * p - 2 ^ 63) * 2 / 2 ^ 12 < 2 ^ 52).
  { apply N.div_lt_upper_bound; [discriminate|]. rewrite <- N.pow_add_r. change (2 ^ (12 + 52)) with W64.
    unfold W64 in *. rewrite E63 in *. lia. }
  replace (1023 - (63 - l + 1)) with (959 + l) by lia.
  rewrite lor_disjoint_add by exact Hm.
  eexists. split; [reflexivity|]. split; [|split].
  - unfold ONE_BITS. change ((2:N) ^ 52) with 4503599627370496 in *. lia.
  - intros ->. lia.
  - intros _. unfold mantissa. fold l p. split; [reflexivity|exact Hm].
Qed.

(* F1, kept as a regression witness: the unsplit shift of the original code is undefined for u = 1 *)
Example random_bits_unsplit_undefined : random_bits_unsplit 1 = None.
Proof. reflexivity. Qed.

(* and the two agree wherever the original is defined *)
Example random_bits_examples :
  map random_bits [0; 1; 2; 3; 18446744073709551615] =
  [Some 0; Some 4318952042648305664; Some 4323455642275676160; Some 4325707442089361408; Some 4607182418800017407].
Proof. vm_compute. reflexivity. Qed.

(* ---- generator step keeps a well-formed state and returns a 64-bit word ---- *)
Definition rng_wf (s : rng) : Prop := s0 s < W64 /\ s1 s < W64 /\ s2 s < W64 /\ s3 s < W64.

Lemma log2_lt_pow2' a n : a < 2 ^ n -> a = 0 \/ N.log2 a < n.
Proof. intros H. destruct (N.eq_dec a 0); [left; assumption|right]. apply N.log2_lt_pow2; lia. Qed.

Lemma bitop_lt (op : N -> N -> N) n :
  (forall a b, N.log2 (op a b) <= N.max (N.log2 a) (N.log2 b)) ->
  forall a b, 0 < n -> a < 2 ^ n -> b < 2 ^ n -> op a b < 2 ^ n.
Proof.
  intros Hop a b Hn Ha Hb. destruct (N.eq_dec (op a b) 0) as [->|Hz].
  { apply N.neq_0_lt_0, N.pow_nonzero. discriminate. }
  apply N.log2_lt_pow2; [lia|]. eapply N.le_lt_trans; [apply Hop|].
  apply N.max_lub_lt.
  - destruct (log2_lt_pow2' a n Ha) as [->|]; [exact Hn|assumption].
  - destruct (log2_lt_pow2' b n Hb) as [->|]; [exact Hn|assumption].
Qed.

Lemma lxor_lt64 a b : a < W64 -> b < W64 -> N.lxor a b < W64.
Proof. change W64 with (2 ^ 64). apply (bitop_lt N.lxor 64); [apply N.log2_lxor|reflexivity]. Qed.

Lemma lor_lt64 a b : a < W64 -> b < W64 -> N.lor a b < W64.
Proof.
  change W64 with (2 ^ 64). apply (bitop_lt N.lor 64); [|reflexivity].
  intros x y. rewrite N.log2_lor. apply N.le_refl.
Qed.

Lemma u64_lt x : u64 x < W64.
Proof. unfold u64. apply N.mod_lt. discriminate. Qed.

Lemma rotl64_lt x k : x < W64 -> rotl64 x k < W64.
Proof.
  intros Hx. unfold rotl64. apply lor_lt64; [apply u64_lt|].
  rewrite N.shiftr_div_pow2. eapply N.le_lt_trans; [|exact Hx].
  apply N.div_le_upper_bound; [apply N.pow_nonzero; discriminate|].
  assert (1 <= 2 ^ (64 - k)) by (apply N.lt_pred_le, N.neq_0_lt_0, N.pow_nonzero; discriminate). nia.
Qed.

Theorem random_u64_wf s : rng_wf s -> fst (random_u64 s) < W64 /\ rng_wf (snd (random_u64 s)).
Proof.
  intros (H0 & H1 & H2 & H3). unfold random_u64, rng_wf. cbn [fst snd s0 s1 s2 s3].
  repeat split; try apply u64_lt;
    repeat first [apply lxor_lt64 | apply rotl64_lt | apply u64_lt | assumption].
Qed.

(* ---- RandomRange: floor(Random() * n) < n, by integer reasoning on the binary64 product ---- *)
Lemma round53_lt p n : 0 < n -> p < 2 ^ 53 * n -> round53 p < p + n.
Proof.
  intros Hn Hp. unfold round53.
  destruct (N.leb_spec (N.size p) 53) as [Hs|Hs]; [lia|].
  assert (Hp0 : p <> 0) by (intros ->; cbn in Hs; lia).
  rewrite N.size_log2 in * by assumption.
  set (s := N.succ (N.log2 p) - 53) in *.
  assert (Hs1 : 1 <= s) by lia.
  assert (Hl : N.log2 p = 52 + s) by lia.
  pose proof (N.log2_spec p ltac:(lia)) as [Hlo _]. rewrite Hl in Hlo.
  rewrite N.pow_add_r in Hlo.
  assert (E2 : 2 ^ s = 2 * 2 ^ (s - 1)).
  { replace s with (1 + (s - 1)) at 1 by lia. rewrite N.pow_add_r. reflexivity. }
  set (half := 2 ^ (s - 1)) in *. set (ps := 2 ^ s) in *.
  assert (Hhalf : half < n).
  { change ((2:N) ^ 53) with (2 * 2 ^ 52) in Hp. change ((2:N)^52) with 4503599627370496 in *. nia. }
  rewrite N.shiftr_div_pow2, N.shiftl_mul_pow2. fold ps.
  assert (Hps : ps <> 0) by (unfold ps; apply N.pow_nonzero; discriminate).
  pose proof (N.div_mod p ps Hps) as Hdm. pose proof (N.mod_lt p ps Hps) as Hr.
  set (q := p / ps) in *. set (r := p mod ps) in *.
  destruct ((half <? r) || ((r =? half) && N.odd q)) eqn:C.
  - assert (half <= r).
    { apply orb_true_iff in C. destruct C as [C|C].
      - apply N.ltb_lt in C. lia.
      - apply andb_true_iff in C. destruct C as [C _]. apply N.eqb_eq in C. lia. }
    nia.
  - nia.
Qed.

Theorem floor_mul_lt b n : 0 < n -> b < ONE_BITS -> floor_mul b n < n.
Proof.
  intros Hn Hb. unfold floor_mul. destruct (N.eqb_spec b 0) as [->|Hb0]; [assumption|].
  rewrite !N.shiftr_div_pow2.
  assert (P52 : (2:N) ^ 52 <> 0) by discriminate.
  pose proof (N.div_mod b (2 ^ 52) P52) as Hdm. pose proof (N.mod_lt b (2 ^ 52) P52) as Hm.
  set (e := b / 2 ^ 52) in *. set (m := b mod 2 ^ 52) in *.
  assert (He : e <= 1022).
  { unfold ONE_BITS in Hb. change ((2:N) ^ 52) with 4503599627370496 in *. nia. }
  set (big := 2 ^ 52 + m).
  assert (Hbig : big * n < 2 ^ 53 * n).
  { unfold big. change ((2:N) ^ 53) with (2 * 2 ^ 52). nia. }
  pose proof (round53_lt (big * n) n Hn Hbig) as HR.
  apply N.div_lt_upper_bound; [apply N.pow_nonzero; discriminate|].
  assert (Hk : 2 ^ 53 <= 2 ^ (1075 - e)) by (apply N.pow_le_mono_r; [discriminate|lia]).
  assert (big * n + n <= 2 ^ 53 * n).
  { unfold big. change ((2:N) ^ 53) with (2 * 2 ^ 52). change ((2:N) ^ 52) with 4503599627370496 in *. nia. }
  nia.
Qed.

Local Open Scope Z_scope.

Theorem random_range_in_bounds b mn mx :
  (b < ONE_BITS)%N -> mn <= mx -> mn <= random_range b mn mx <= mx.
Proof.
  intros Hb Hmm. unfold random_range.
  pose proof (floor_mul_lt b (Z.to_N (mx - mn + 1)) ltac:(lia) Hb). lia.
Qed.

Theorem random_range_nonuniform_in_bounds b1 b2 x mn mx :
  (b1 < ONE_BITS)%N -> (b2 < ONE_BITS)%N -> 0 <= x -> 0 <= mn <= mx ->
  mn <= random_range_nonuniform b1 b2 x mn mx <= mx.
Proof.
  intros H1 H2 Hx Hmm. unfold random_range_nonuniform.
  pose proof (Z.mod_pos_bound (Z.lor (random_range b1 0 x) (random_range b2 mn mx)) (mx - mn + 1) ltac:(lia)).
  lia.
Qed.

(* every value Random() can return, fed to RandomRange, stays in range: composition with random_bits_spec *)
Corollary random_then_range u mn mx : (u < W64)%N -> mn <= mx ->
  exists b, random_bits u = Some b /\ mn <= random_range b mn mx <= mx.
Proof.
  intros Hu Hmm. destruct (random_bits_spec u Hu) as (b & E & Hb & _).
  exists b. split; [exact E|]. apply random_range_in_bounds; assumption.
Qed.
