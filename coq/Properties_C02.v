(* C02 — distributed (multi-node MPI) results equal the sequential execution.
   The abstract Time Warp machine of C01 has no notion of rank or thread: its pool holds every message that exists,
   wherever it is (buffer, queue, MPI flight), and its steps may be taken in any order — so arbitrary finite delivery
   delay, reordering between senders, and anti-messages that overtake their message (the cancellation is pending while
   the message is still in the pool: step s_drop) are schedules of that machine.  The capstone therefore applies
   unchanged: for every valid program, every reachable state and every valid bound, each LP's history below the bound is
   its sequential dispatch sequence.  Remote identification: anti-messages match exactly their own message.
   MPI itself (exactly-once delivery, collectives computing sum / min, progress) is modelled, not verified; the tie is the
   multi-process runs of the check (mpiexec, 2..3 ranks x 1..3 threads) against the extracted reference executor. *)
From Coq Require Import ZArith NArith List.
From RS Require Import Net.RemoteId TW.App TW.AppAbs.
From RS.Abs Require Import Peel Abs Bridge AbsM AbsM2 BridgeM ReachM.

Theorem C02_rank_free_capstone : forall (p : prog), prog_valid p = true ->
  forall (below : cont -> bool),
  (forall a b, ~ Abs.tlt cont tltb b a -> below b = true -> below a = true) ->
  forall a, ReachM.reach cont cltb tltb lpstate (nlps p) (s0 p) (ahandle p) (ainit p) (length (init_events p (nlps p) 0)) a ->
  BridgeM.gvt_ok cont below a ->
  forall tr, Peel.seqrun cont (Abs.clt cont cltb) lpstate (Bridge.handle_g cont lpstate (ahandle p) below) (s0 p)
               (Bridge.Pg cont (ainit p) below) tr ->
  forall l, (l < nlps p)%nat -> Peel.proj cont l tr = BridgeM.Hg cont below a l.
Proof. exact app_time_warp_is_sequential. Qed.

Theorem C02_remote_id_injective : forall nid rid ph nid' rid' ph', wf_ids nid rid ph -> wf_ids nid' rid' ph' ->
  id_word nid rid ph = id_word nid' rid' ph' -> nid = nid' /\ rid = rid' /\ ph = ph'.
Proof. exact id_injective. Qed.

Theorem C02_remote_anti_matches_only_its_message : forall nid rid ph cnt nid' rid' ph' cnt',
  wf_ids nid rid ph -> wf_ids nid' rid' ph' ->
  id_received (id_word nid rid ph) = id_received (id_word nid' rid' ph') -> seq_word cnt ph = seq_word cnt' ph' ->
  nid = nid' /\ rid = rid' /\ cnt = cnt' /\ ph = ph'.
Proof. exact anti_matches_only_its_message. Qed.

Print Assumptions C02_rank_free_capstone.
Print Assumptions C02_remote_id_injective.
Print Assumptions C02_remote_anti_matches_only_its_message.
