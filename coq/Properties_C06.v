(* C06 — cancellation is exactly-once: undone sends are annihilated, nothing else is.
   Local messages: transition system of the flag handshake (sender: cancel, deferred insertion of a copy; receiver:
   extraction with dispatch on the previous flag word, rollback with conditional re-insertion; release by fossil
   collection, by the drop of a cancelled message, by the annihilation after the rollback, by the shutdown of the queue),
   for EVERY interleaving of these actions: the flag word determines where the message is (0 queued once; 2 in the
   history; 1 cancelled, one copy queued or about to be; 3 cancelled, in the history, one copy queued or about to be;
   5 being annihilated), only the words 0,1,2,3,5 are ever observed, no step is enabled on a released buffer (no double
   free, no use after free), a release leaves the message nowhere, and a message whose send stays valid is released only
   as a committed history entry (or with the queue at shutdown).
   Abstract level (all LPs, all messages, every schedule of the micro-step machine): every existing message is placed
   exactly once, valid messages are exactly the outputs of the entries currently in the histories, a cancelled message is
   not valid and is removed by exactly one step (re-exported from C01).
   Remote messages: the (id word, sequence word) key is injective in (rank, thread, counter, phase) and a received id is
   >= 4 with clear low bits, so anti-messages match only their own message, whatever the arrival order.
   Tie: exact replay of the traced fetch-add results of cooperatively scheduled runs through the extracted step function;
   multi-rank runs for the remote part. *)
From Coq Require Import ZArith List.
From RS Require Import TW.Flags Net.RemoteId TW.App TW.AppAbs TW.Worker TW.WorkerSafety TW.WorkerOnce TW.WorkerOnceProofs TW.WorkerOnceApp.
From RS.Abs Require Import Abs AbsM ReachM.
Import ListNotations.
Local Open Scope Z_scope.

Theorem C06_flag_word_determines_location : forall m a m' prev, finv m -> fstep m a = Some (m', prev) -> finv m'.
Proof. exact fstep_inv. Qed.

Theorem C06_invariant_all_interleavings : forall l m m', finv m -> frun m l = Some m' -> finv m'.
Proof. exact frun_inv. Qed.

Theorem C06_only_words_0_1_2_3_5 : forall m, finv m -> f_freed m = false -> In (f_word m) [0; 1; 2; 3; 5].
Proof. exact reachable_words. Qed.

Theorem C06_no_double_free_no_use_after_free : forall m a, f_freed m = true -> fstep m a = None.
Proof. exact no_step_after_release. Qed.

Theorem C06_released_message_is_nowhere : forall m a m' prev, finv m -> fstep m a = Some (m', prev) -> f_freed m' = true ->
  f_q m' = 0 /\ f_hist m' = false /\ f_pend m' = false.
Proof. exact release_is_final. Qed.

Theorem C06_valid_message_never_removed : forall m a m' prev,
  finv m -> f_cancelled m = false -> fstep m a = Some (m', prev) -> f_freed m' = true ->
  a = Release \/ a = FiniQueue \/ f_cancelled m' = true.
Proof. exact valid_message_released_only_when_committed. Qed.

Theorem C06_abstract_exactly_once : forall p, prog_valid p = true ->
  forall a, ReachM.reach cont cltb tltb lpstate (nlps p) (s0 p) (ahandle p) (ainit p) (length (init_events p (nlps p) 0)) a ->
  AbsM.Inv cont (nlps p) (ainit p) a.
Proof.
  intros p Hv a R.
  exact (proj1 (ReachM.reach_inv cont cltb clt_trans clt_total tltb tlt_clt tlt_negtrans lpstate (nlps p) (s0 p) (ahandle p)
           (ainit p) (ainit_nodup p) (length (init_events p (nlps p) 0)) (ainit_bound p) a R)).
Qed.

Theorem C06_remote_anti_matches_only_its_message : forall nid rid ph cnt nid' rid' ph' cnt',
  wf_ids nid rid ph -> wf_ids nid' rid' ph' ->
  id_received (id_word nid rid ph) = id_received (id_word nid' rid' ph') -> seq_word cnt ph = seq_word cnt' ph' ->
  nid = nid' /\ rid = rid' /\ cnt = cnt' /\ ph = ph'.
Proof. exact anti_matches_only_its_message. Qed.

Theorem C06_remote_recognised_by_flag_word : forall nid rid ph, wf_ids nid rid ph ->
  4 <= id_received (id_word nid rid ph) /\ id_received (id_word nid rid ph) mod 4 = 0 /\
  id_received (id_word nid rid ph) = nid * 16384 + (rid + 1) * 4.
Proof. exact received_id_ge4. Qed.

(* process.c level, on the executable worker model tied op by op to the code (TW/Worker.v): for EVERY program whose event
   types stay below the reserved ones (types_okb, checked on every generated program by the correspondence run), every
   checkpoint interval and EVERY script of deliveries, late hand-backs, cancellations, GVT announcements and fossil
   collections, in every state between two script operations:
     pd = everything pending (shared list, heap, held in flight), pr = the processed messages of all histories,
     mk = the messages the retained markers point to;
   no identity occurs twice in pd, in pr or in mk (nothing is delivered, processed or cancelled twice), an identity determines
   its message, and the flag word says where the message is:  pending with word 0 or 1 and not processed | pending as the
   cancellation notice of a processed message (word 3, and then it IS in a history) | processed (word 2, not pending);
   a retained marker points to a message that was never cancelled (word 0 or 2) and that is still in a history unless it
   lies below the GVT.  (Word 5 only exists inside process_msg.) *)
Theorem C06_worker_exactly_once : forall (p : prog) (ck : nat), types_okb p = true -> forall (ops : list wop),
  let w := fold_left (wstep p ck) ops (w_init p) in
  let f := k_flags w in let pd := pend w in let pr := allprocs (k_lps w) in let mk := allmarks (k_lps w) in
  NoDup (map wm_id pd) /\ NoDup (map wm_id pr) /\ NoDup (map wm_id mk) /\
  (forall a b, In a (pd ++ pr ++ mk) -> In b (pd ++ pr ++ mk) -> wm_id a = wm_id b -> a = b) /\
  (forall m, In m pd -> (fl f m = 3%N /\ In m pr) \/ ((fl f m = 0%N \/ fl f m = 1%N) /\ ~ In m pr)) /\
  (forall m, In m pr -> (fl f m = 3%N /\ In m pd) \/ (fl f m = 2%N /\ ~ In m pd) \/ (fl f m = 5%N /\ ~ In m pd)) /\
  (forall m, In m mk -> fl f m = 0%N \/ (fl f m = 2%N /\ (In m pr \/ (Z.of_N (tm m) < k_gvt w)))).
Proof. exact worker_exactly_once. Qed.

(* ... and the cancellation notice of a processed message always finds it: the model's error flag (the C loops of
   match_anti_msg / do_rollback / fossil_lp_collect running off the history or the checkpoint log) is never raised *)
Theorem C06_worker_cancellation_always_finds_its_message : forall (p : prog) (ck : nat), types_okb p = true ->
  forall (ops : list wop), k_err (fold_left (wstep p ck) ops (w_init p)) = false.
Proof. exact worker_never_errs. Qed.

Theorem C06_worker_messages_are_where_they_are_addressed : forall (p : prog) (ck : nat), types_okb p = true -> forall (ops : list wop),
  let w := fold_left (wstep p ck) ops (w_init p) in
  (forall m, In m (pend w) -> (N.to_nat (e_dest (wm_ev m)) < length (k_lps w))%nat) /\
  (forall l m, (l < length (k_lps w))%nat -> In (EProc m) (x_hist (get_lp w l)) -> N.to_nat (e_dest (wm_ev m)) = l).
Proof. exact worker_destinations. Qed.

Print Assumptions C06_worker_exactly_once.
Print Assumptions C06_worker_cancellation_always_finds_its_message.
Print Assumptions C06_worker_messages_are_where_they_are_addressed.
Print Assumptions C06_flag_word_determines_location.
Print Assumptions C06_invariant_all_interleavings.
Print Assumptions C06_only_words_0_1_2_3_5.
Print Assumptions C06_no_double_free_no_use_after_free.
Print Assumptions C06_released_message_is_nowhere.
Print Assumptions C06_valid_message_never_removed.
Print Assumptions C06_abstract_exactly_once.
Print Assumptions C06_remote_anti_matches_only_its_message.
Print Assumptions C06_remote_recognised_by_flag_word.
