(* C08 — every run returns: termination and shutdown are live.   PARTIAL, and one part REFUTED (finding F12).
   Proved on the models of the two spin protocols the shutdown path consists of, for every number of threads and every
   schedule in which all threads keep taking steps:
   - GVT phase protocol (c_a / c_b): in every reachable state in which some thread is inside a pass, some thread has an
     enabled step (no deadlock); every step except leaving phase D advances a measure bounded by 4n, so a pass needs at
     most 4n steps between two exits (bounded further work);
   - thread barrier: a thread that is not spinning can always enter, and once all have entered every spinner's exit
     test is true (C17).
   Refuted for the composition the code actually has: F12 — a worker that leaves the main loop idle goes to the barrier
   of gvt_msg_drain and stops taking protocol steps while another worker that joined an opening round waits in phase B
   for it.  The witness state is reachable in the protocol model and its only enabled step belongs to the absent thread.
   What the model cannot exhibit: OS-level starvation, MPI progress.  The end-to-end statement is decided by the runs of
   the check (stage markers classify a non-returning run; F12 is a recorded known finding). *)
From Coq Require Import List Arith.
From RS Require Import TW.GvtCounters TW.GvtProgress Sync.BarrierProto Sync.BarrierMore.
Import ListNotations.

Theorem C08_gvt_protocol_invariant : forall s s', GvtCounters.Inv s -> GvtCounters.step s s' -> GvtCounters.Inv s'.
Proof. exact GvtCounters.step_inv. Qed.

Theorem C08_gvt_protocol_no_deadlock_partial : forall s, GvtCounters.Inv s ->
  cnt I (GvtCounters.ths s) < length (GvtCounters.ths s) -> exists s', GvtCounters.step s s'.
Proof. exact progress. Qed.

Theorem C08_gvt_pass_bounded : forall s s', GvtCounters.step s s' ->
  measure (GvtCounters.ths s') = S (measure (GvtCounters.ths s)) \/
  (exists i, nth_error (GvtCounters.ths s) i = Some D /\ measure (GvtCounters.ths s') < measure (GvtCounters.ths s)).
Proof. exact step_advances. Qed.

Theorem C08_gvt_measure_bound : forall l, measure l <= 4 * length l.
Proof. exact measure_bound. Qed.

Theorem C08_drain_race_refuted : (* F12 *)
  (exists s1 s2, GvtCounters.step (GvtCounters.init 2) s1 /\ GvtCounters.step s1 s2 /\ s2 = f12_state) /\
  (forall s', GvtCounters.step f12_state s' -> s' = {| GvtCounters.ths := [B; A]; ca := 0; cb := 1 |}).
Proof. split; [exact f12_reachable|exact f12_only_the_absent_thread_can_move]. Qed.

Theorem C08_barrier_exit_live : forall s K i u lf,
  BarrierProto.InvK s K -> nth_error (BarrierProto.ths s) i = Some {| uses := u; spin := Some lf |} ->
  cnt_entered (BarrierProto.ths s) u = length (BarrierProto.ths s) -> exists s', poll s i = Some (s', Some lf).
Proof. exact exit_enabled. Qed.

Print Assumptions C08_gvt_protocol_invariant.
Print Assumptions C08_gvt_protocol_no_deadlock_partial.
Print Assumptions C08_gvt_pass_bounded.
Print Assumptions C08_gvt_measure_bound.
Print Assumptions C08_drain_race_refuted.
Print Assumptions C08_barrier_exit_live.
