(* C10 — the serial runtime implements the reference semantics.
   Specification side: the reference executor (TW/Seq.v) is a textbook event-list executor — at every step it
   dispatches an event that is minimal in the runtime's event order among ALL pending events, removes exactly
   that event, adds exactly its outputs, and changes only the destination LP's state; the pending list stays
   sorted through the whole run.  Data-structure side: the binary heap algorithms used by serial.c (sift-up
   insertion, sift-down extraction) keep the heap property and the root minimal, for any strict weak order and
   any size.  The tie between serial.c and the reference executor is the correspondence run (dispatch logs). *)
From Coq Require Import NArith List Permutation.
From RS Require Import TW.App TW.Seq TW.SeqProofs TW.AppAbs TW.SeqRefines Heap.HeapFun.
From RS.Abs Require Import Peel Abs.

Theorem C10_step_dispatches_minimal_exactly_once : forall p tend stop s s',
  sorted (q_pending s) -> seq_step p tend stop s = Some s' ->
  exists e rest,
    q_pending s = e :: rest /\
    (forall y, In y (q_pending s) -> ev_before y e = false) /\
    q_log s' = e :: q_log s /\
    sorted (q_pending s') /\
    let i := N.to_nat (e_dest e) in
    let st := nth i (q_lps s) dummy_lp in
    Permutation (q_pending s') (snd (handle p e st) ++ rest) /\
    q_lps s' = set_lp (q_lps s) i (fst (handle p e st)).
Proof. exact seq_step_spec. Qed.

Theorem C10_pending_sorted_from_init : forall p b, sorted (q_pending (seq_init p b)).
Proof. exact seq_init_sorted. Qed.

Theorem C10_pending_sorted_invariant : forall fuel p tend stop s,
  sorted (q_pending s) -> sorted (q_pending (fst (seq_run fuel p tend stop s))).
Proof. exact seq_run_sorted. Qed.

Theorem C10_heap_insert_keeps_heap : forall (A : Type) (cmp : A -> A -> bool),
  (forall a, cmp a a = false) ->
  (forall a b c, cmp a b = true -> cmp b c = true -> cmp a c = true) ->
  (forall a b c, cmp a b = false -> cmp b c = false -> cmp a c = false) ->
  forall f n e, heap_ok A cmp f n -> heap_ok A cmp (heap_insert A cmp f n e) (S n).
Proof. exact heap_insert_ok. Qed.

Theorem C10_heap_extract_keeps_heap : forall (A : Type) (cmp : A -> A -> bool),
  (forall a, cmp a a = false) ->
  (forall a b c, cmp a b = true -> cmp b c = true -> cmp a c = true) ->
  (forall a b c, cmp a b = false -> cmp b c = false -> cmp a c = false) ->
  forall f n, 0 < n -> heap_ok A cmp f n -> heap_ok A cmp (snd (heap_extract A cmp f n)) (n - 1).
Proof. exact heap_extract_ok. Qed.

Theorem C10_heap_root_minimal : forall (A : Type) (cmp : A -> A -> bool),
  (forall a, cmp a a = false) ->
  (forall a b c, cmp a b = false -> cmp b c = false -> cmp a c = false) ->
  forall f n, heap_ok A cmp f n -> forall k, k < n -> cmp (f k) (f 0) = false.
Proof. exact heap_root_min. Qed.

(* The whole run, not one step: the reference executor started as the runtime starts (LP_INIT on every LP) and run until no
   event is pending produces a dispatch log that is a sequential execution in the sense of the abstract theory (every step
   dispatches a pending event minimal in the runtime's order, exactly once, and its outputs join the pending set). *)
Theorem C10_reference_run_is_a_sequential_execution : forall p, prog_valid p = true ->
  forall fuel b s', seq_run fuel p None false (seq_init p b) = (s', true) ->
  Peel.seqrun cont (Abs.clt cont cltb) lpstate (ahandle p) (s0 p)
    (map pay (init_events p (nlps p) 0)) (map pay (rev (q_log s'))).
Proof. exact reference_run_is_sequential. Qed.

Print Assumptions C10_step_dispatches_minimal_exactly_once.
Print Assumptions C10_reference_run_is_a_sequential_execution.
Print Assumptions C10_pending_sorted_from_init.
Print Assumptions C10_pending_sorted_invariant.
Print Assumptions C10_heap_insert_keeps_heap.
Print Assumptions C10_heap_extract_keeps_heap.
Print Assumptions C10_heap_root_minimal.
