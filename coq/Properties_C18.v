(* C18 — numerical library contracts for every generator state (integer-exact part). *)
From Coq Require Import NArith ZArith List.
From RS Require Import Rng.RngDefs Rng.RngProofs.

(* Random(): for all 2^64 raw outputs every shift is defined and the returned bit pattern is that of a
   finite double in [0,1): below the pattern of 1.0 (non-negative doubles are ordered like their
   patterns), +0 for u = 0, otherwise exponent field 959 + floor(log2 u) in [959, 1022] and the bits of u
   below its leading one as mantissa. *)
Theorem C18_random_defined_range : forall u, (u < W64)%N ->
  exists b, random_bits u = Some b /\ (b < ONE_BITS)%N /\ (u = 0%N -> b = 0%N) /\
            ((0 < u)%N -> b = (mantissa u + (959 + N.log2 u) * 2 ^ 52)%N /\ (mantissa u < 2 ^ 52)%N).
Proof. exact random_bits_spec. Qed.

(* the pre-fix single shift was undefined for raw output 1 (regression witness of finding F1) *)
Theorem C18_unsplit_shift_refuted : exists u, (u < W64)%N /\ random_bits_unsplit u = None.
Proof. exists 1%N. split; reflexivity. Qed.

Theorem C18_generator_step_wellformed : forall s, rng_wf s ->
  (fst (random_u64 s) < W64)%N /\ rng_wf (snd (random_u64 s)).
Proof. exact random_u64_wf. Qed.

(* RandomRange: floor(x * n) computed in binary64 (exact product, round to nearest even, floor) never
   reaches n, for every x Random() can return and every n >= 1 *)
Theorem C18_floor_mul_lt : forall b n, (0 < n)%N -> (b < ONE_BITS)%N -> (floor_mul b n < n)%N.
Proof. exact floor_mul_lt. Qed.

Theorem C18_range_in_bounds : forall b mn mx, (b < ONE_BITS)%N -> (mn <= mx)%Z ->
  (mn <= random_range b mn mx <= mx)%Z.
Proof. exact random_range_in_bounds. Qed.

Theorem C18_nonuniform_in_bounds : forall b1 b2 x mn mx,
  (b1 < ONE_BITS)%N -> (b2 < ONE_BITS)%N -> (0 <= x)%Z -> (0 <= mn <= mx)%Z ->
  (mn <= random_range_nonuniform b1 b2 x mn mx <= mx)%Z.
Proof. exact random_range_nonuniform_in_bounds. Qed.

Theorem C18_random_then_range : forall u mn mx, (u < W64)%N -> (mn <= mx)%Z ->
  exists b, random_bits u = Some b /\ (mn <= random_range b mn mx <= mx)%Z.
Proof. exact random_then_range. Qed.

Print Assumptions C18_random_defined_range.
Print Assumptions C18_unsplit_shift_refuted.
Print Assumptions C18_generator_step_wellformed.
Print Assumptions C18_floor_mul_lt.
Print Assumptions C18_range_in_bounds.
Print Assumptions C18_nonuniform_in_bounds.
Print Assumptions C18_random_then_range.
