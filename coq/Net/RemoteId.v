(* The identification of remote messages (src/gvt/gvt.h: gvt_remote_msg_send / _receive and their anti-message twins):
   id word = nid * 2^14 + (rid + 1) * 4 + phase, sequence word = counter * 2 + phase.  Used by the receiver to match
   an anti-message with its message, and to tell remote messages from local ones by the value of the flag word. *)
From Coq Require Import ZArith Lia.
Local Open Scope Z_scope.

Definition id_word (nid rid ph : Z) : Z := nid * 16384 + (rid + 1) * 4 + ph.
Definition seq_word (cnt ph : Z) : Z := cnt * 2 + ph.
(* what the receiver keeps after gvt_remote_msg_receive: the two low bits cleared *)
Definition id_received (w : Z) : Z := w - w mod 4.

Definition wf_ids (nid rid ph : Z) : Prop := 0 <= nid /\ 0 <= rid < 4095 /\ 0 <= ph <= 1.

Theorem id_injective nid rid ph nid' rid' ph' : wf_ids nid rid ph -> wf_ids nid' rid' ph' ->
  id_word nid rid ph = id_word nid' rid' ph' -> nid = nid' /\ rid = rid' /\ ph = ph'.
Proof. unfold wf_ids, id_word. intros (H1 & H2 & H3) (H4 & H5 & H6) E. lia. Qed.

Theorem seq_injective cnt ph cnt' ph' : 0 <= ph <= 1 -> 0 <= ph' <= 1 -> seq_word cnt ph = seq_word cnt' ph' -> cnt = cnt' /\ ph = ph'.
Proof. unfold seq_word. lia. Qed.

(* a remote message is recognised by its flag word: once received it is at least 4 and its two low bits are clear, so the
   receiver's fetch-add(+PROCESSED) returns a value with the ANTI bit clear for a message, and a value > 3 with the ANTI
   bit set for an anti-message; local flag words never exceed 5 and are never 4 *)
Theorem received_id_ge4 nid rid ph : wf_ids nid rid ph ->
  4 <= id_received (id_word nid rid ph) /\ id_received (id_word nid rid ph) mod 4 = 0 /\
  id_received (id_word nid rid ph) = nid * 16384 + (rid + 1) * 4.
Proof.
  unfold wf_ids, id_word, id_received. intros (H1 & H2 & H3).
  assert (E : (nid * 16384 + (rid + 1) * 4 + ph) mod 4 = ph).
  { replace (nid * 16384 + (rid + 1) * 4 + ph) with (ph + (nid * 4096 + rid + 1) * 4) by lia.
    rewrite Z.mod_add by lia. apply Z.mod_small. lia. }
  rewrite E. repeat split; try lia.
  replace (nid * 16384 + (rid + 1) * 4 + ph - ph) with ((nid * 4096 + rid + 1) * 4) by lia. apply Z.mod_mul. lia.
Qed.

(* the matching key of an anti-message equals the key of its message and of no other message of the same destination *)
Theorem anti_matches_only_its_message nid rid ph cnt nid' rid' ph' cnt' :
  wf_ids nid rid ph -> wf_ids nid' rid' ph' ->
  id_received (id_word nid rid ph) = id_received (id_word nid' rid' ph') -> seq_word cnt ph = seq_word cnt' ph' ->
  nid = nid' /\ rid = rid' /\ cnt = cnt' /\ ph = ph'.
Proof.
  intros W W' E S. destruct (received_id_ge4 _ _ _ W) as (_ & _ & E1). destruct (received_id_ge4 _ _ _ W') as (_ & _ & E2).
  rewrite E1, E2 in E. unfold wf_ids, seq_word in *. lia.
Qed.
