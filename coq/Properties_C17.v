(* C17 — thread barrier: nobody passes early, exactly one leader, reusable.
   Model of sync_thread_barrier (two counters, four-phase sense reversal) for n threads as an interleaving transition
   system: Enter i = the fetch-add (computing the leader flag from the previous value), Poll i = one load of the counter
   (leaves iff the exit test holds).  Statements hold for every n >= 1 and every schedule (list of actions). *)
From Coq Require Import List Arith ZArith.
From RS Require Import Sync.BarrierProto Sync.BarrierMore.

Theorem C17_invariant_every_schedule : forall n, 0 < n -> forall l s, run_acts (init n) l = Some s -> exists K, InvK s K.
Proof. exact reachable_inv. Qed.

Theorem C17_no_early_exit : forall n, 0 < n -> forall l s i s' lf,
  run_acts (init n) l = Some s -> poll s i = Some (s', Some lf) ->
  exists u, nth_error (ths s) i = Some {| uses := u; spin := Some lf |} /\ cnt_entered (ths s) u = length (ths s).
Proof. exact no_early_exit. Qed.

Theorem C17_leader_is_first_or_last_to_enter : forall s K i s' t,
  InvK s K -> nth_error (ths s) i = Some t -> spin t = None -> enter s i = Some s' ->
  exists lf, nth_error (ths s') i = Some {| uses := uses t; spin := Some lf |} /\
    (lf = true <-> cnt_entered (ths s) (uses t) = if down (uses t) then length (ths s) - 1 else 0).
Proof. exact enter_leader_iff. Qed.

Theorem C17_exit_enabled_when_all_entered : forall s K i u lf,
  InvK s K -> nth_error (ths s) i = Some {| uses := u; spin := Some lf |} -> cnt_entered (ths s) u = length (ths s) ->
  exists s', poll s i = Some (s', Some lf).
Proof. exact exit_enabled. Qed.

Theorem C17_enter_always_enabled : forall s i t, nth_error (ths s) i = Some t -> spin t = None -> exists s', enter s i = Some s'.
Proof. exact enter_enabled. Qed.

Theorem C17_window_handover : forall s K i s' r, InvK s K -> poll s i = Some (s', r) ->
  (r = None /\ s' = s) \/
  (exists u l, r = Some l /\ nth_error (ths s) i = Some {| uses := u; spin := Some l |} /\
               cnt_entered (ths s) u = length (ths s) /\ (InvK s' K \/ InvK s' (S K))).
Proof. exact poll_inv. Qed.

Print Assumptions C17_invariant_every_schedule.
Print Assumptions C17_no_early_exit.
Print Assumptions C17_leader_is_first_or_last_to_enter.
Print Assumptions C17_exit_enabled_when_all_entered.
Print Assumptions C17_enter_always_enabled.
Print Assumptions C17_window_handover.
