(* Model of src/lp/msg.h: msg_is_before, msg_is_before_extended and of
   q_elem_is_before (src/datatypes/msg_queue.c).  Executable definitions only. *)
From Coq Require Import List ZArith NArith Bool.
Import ListNotations.
Local Open Scope Z_scope.

(* Every field struct lp_msg has at run time.  Timestamps are represented by a key in Z
   that is monotone for the IEEE comparison of non-NaN doubles (sign-magnitude reading of
   the bit pattern, +0 and -0 both 0); the correspondence driver checks that monotonicity
   on the C side for every pair of timestamps it uses. *)
Record msg := mkMsg {
  m_next   : Z;          (* pointer, opaque *)
  m_dest   : Z;
  m_t      : Z;          (* dest_t key *)
  m_flags  : Z;          (* raw_flags word, 0 <= . < 2^32 *)
  m_send   : Z;          (* debug-only fields: sender and send time *)
  m_send_t : Z;
  m_seq    : Z;
  m_type   : Z;
  m_plsize : Z;
  m_pl     : list Z      (* payload bytes (0..255), at least m_plsize of them *)
}.

Definition anti_bit (m : msg) : Z := Z.land (m_flags m) 1.

(* memcmp(a, b, n) > 0 on the first n bytes *)
Fixpoint memcmp_gt (a b : list Z) : bool :=
  match a, b with
  | x :: a', y :: b' => if x =? y then memcmp_gt a' b' else y <? x
  | _, _ => false
  end.

Definition payload (m : msg) : list Z := firstn (Z.to_nat (m_plsize m)) (m_pl m).

Definition before_ext (a b : msg) : bool :=
  if negb (anti_bit a =? anti_bit b) then anti_bit b <? anti_bit a
  else if negb (m_type a =? m_type b) then m_type b <? m_type a
  else if negb (m_plsize a =? m_plsize b) then m_plsize a <? m_plsize b
  else memcmp_gt (payload a) (payload b).

Definition before (a b : msg) : bool :=
  (m_t a <? m_t b) || ((m_t a =? m_t b) && before_ext a b).

(* struct q_elem { simtime_t t; struct lp_msg *m; } *)
Record qelem := mkQ { q_t : Z; q_m : msg }.
Definition q_before (a b : qelem) : bool :=
  (q_t a <? q_t b) || ((q_t a =? q_t b) && before_ext (q_m a) (q_m b)).

(* the content of a message: what the order is allowed to depend on *)
Definition content (m : msg) : list Z :=
  [m_t m; - anti_bit m; - m_type m; m_plsize m] ++ map Z.opp (payload m).

Definition wf_msg (m : msg) : Prop :=
  0 <= m_plsize m /\ (Z.to_nat (m_plsize m) <= length (m_pl m))%nat.
