(* C16: the event order of msg.h is the lexicographic order of the message content. *)
From Coq Require Import List ZArith Bool Lia.
From RS Require Import Base.Lex Order.MsgOrderDefs.
Import ListNotations.
Local Open Scope Z_scope.

Lemma memcmp_gt_lex a : forall b, length a = length b ->
  memcmp_gt a b = lexltb (map Z.opp a) (map Z.opp b).
Proof.
  induction a as [|x a IH]; intros [|y b] Hl; cbn in *; try discriminate; [reflexivity|].
  injection Hl as Hl.
  destruct (Z.eqb_spec x y) as [->|Hne].
  - rewrite Z.ltb_irrefl, Z.eqb_refl. apply IH. exact Hl.
  - destruct (Z.ltb_spec y x); destruct (Z.ltb_spec (-x) (-y)); try lia; try reflexivity.
    destruct (Z.eqb_spec (-x) (-y)); [lia|reflexivity].
Qed.

Lemma payload_length m : wf_msg m -> length (payload m) = Z.to_nat (m_plsize m).
Proof. intros [_ H]. unfold payload. apply firstn_length_le. exact H. Qed.

Lemma land1_mod2 f : Z.land f 1 = f mod 2.
Proof. apply (Z.land_ones f 1). lia. Qed.

Lemma anti_bit_range m : anti_bit m = 0 \/ anti_bit m = 1.
Proof.
  unfold anti_bit. rewrite land1_mod2.
  pose proof (Z.mod_pos_bound (m_flags m) 2 ltac:(lia)). lia.
Qed.

Theorem before_is_lex a b : wf_msg a -> wf_msg b ->
  before a b = lexltb (content a) (content b).
Proof.
  intros Ha Hb. unfold before, before_ext, content. cbn [app lexltb].
  destruct (Z.ltb_spec (m_t a) (m_t b)) as [Ht|Ht]; [reflexivity|]. cbn [orb].
  destruct (Z.eqb_spec (m_t a) (m_t b)) as [Et|Et]; [|reflexivity]. cbn [andb].
  destruct (Z.eqb_spec (anti_bit a) (anti_bit b)) as [Ea|Ea]; cbn [negb].
  2:{ destruct (Z.ltb_spec (anti_bit b) (anti_bit a)); destruct (Z.ltb_spec (- anti_bit a) (- anti_bit b));
      try lia; try reflexivity. destruct (Z.eqb_spec (- anti_bit a) (- anti_bit b)); [lia|reflexivity]. }
  rewrite Ea, Z.ltb_irrefl, Z.eqb_refl.
  destruct (Z.eqb_spec (m_type a) (m_type b)) as [Ey|Ey]; cbn [negb].
  2:{ destruct (Z.ltb_spec (m_type b) (m_type a)); destruct (Z.ltb_spec (- m_type a) (- m_type b));
      try lia; try reflexivity. destruct (Z.eqb_spec (- m_type a) (- m_type b)); [lia|reflexivity]. }
  rewrite Ey, Z.ltb_irrefl, Z.eqb_refl.
  destruct (Z.eqb_spec (m_plsize a) (m_plsize b)) as [Es|Es]; cbn [negb].
  2:{ destruct (Z.ltb_spec (m_plsize a) (m_plsize b)); [reflexivity|].
      destruct (Z.eqb_spec (m_plsize a) (m_plsize b)); [lia|reflexivity]. }
  destruct (Z.ltb_spec (m_plsize a) (m_plsize b)); [lia|].
  apply memcmp_gt_lex. rewrite !payload_length by assumption. rewrite Es. reflexivity.
Qed.

Section Laws.
Variables a b c : msg.
Hypothesis Wa : wf_msg a.
Hypothesis Wb : wf_msg b.
Hypothesis Wc : wf_msg c.

Lemma before_irrefl_l : before a a = false.
Proof. rewrite before_is_lex by assumption. apply lexltb_irrefl. Qed.

Lemma before_asym_l : before a b = true -> before b a = false.
Proof. rewrite !before_is_lex by assumption. apply lexltb_asym. Qed.

Lemma before_trans_l : before a b = true -> before b c = true -> before a c = true.
Proof. rewrite !before_is_lex by assumption. apply lexltb_trans. Qed.

Lemma incomparable_iff_same_content_l :
  (before a b = false /\ before b a = false) <-> content a = content b.
Proof. rewrite !before_is_lex by assumption. apply lexltb_incomp_iff. Qed.

Lemma incomparable_trans_l :
  before a b = false -> before b a = false -> before b c = false -> before c b = false ->
  before a c = false /\ before c a = false.
Proof.
  intros H1 H2 H3 H4.
  assert (E1 : content a = content b) by (apply lexltb_incomp_iff; rewrite <- !before_is_lex by assumption; auto).
  assert (E2 : content b = content c) by (apply lexltb_incomp_iff; rewrite <- !before_is_lex by assumption; auto).
  rewrite !before_is_lex by assumption. rewrite E1, E2. split; apply lexltb_irrefl.
Qed.
End Laws.

(* The order depends on the content only: two pairs of messages with pairwise equal content
   (timestamp, cancellation bit, type, payload size, first payload-size payload bytes) compare
   equally, whatever their link pointer, destination, sequence number, sender fields, the
   other bits of the flag word and the bytes beyond the payload size are. *)
Lemma before_content_only_l a a' b b' :
  wf_msg a -> wf_msg a' -> wf_msg b -> wf_msg b' ->
  content a = content a' -> content b = content b' -> before a b = before a' b'.
Proof. intros Wa Wa' Wb Wb' Ea Eb. rewrite !before_is_lex by assumption. rewrite Ea, Eb. reflexivity. Qed.

(* what "equal content" means field by field *)
Lemma content_eq_fields a b : wf_msg a -> wf_msg b ->
  (content a = content b <->
   m_t a = m_t b /\ anti_bit a = anti_bit b /\ m_type a = m_type b /\ m_plsize a = m_plsize b /\
   payload a = payload b).
Proof.
  intros Wa Wb. unfold content. cbn [app]. split.
  - intros H. injection H as H1 H2 H3 H4 H5.
    repeat split; try lia.
    revert H5. generalize (payload a) (payload b). intros l1. induction l1 as [|x l1 IH]; intros [|y l2]; cbn; try discriminate; [reflexivity|].
    intros H. injection H as Hx Hl. f_equal; [lia|]. apply IH. exact Hl.
  - intros (H1 & H2 & H3 & H4 & H5). rewrite H1, H2, H3, H4, H5. reflexivity.
Qed.

(* the queue comparator is the same order when the cached timestamp is the message's *)
Lemma q_before_is_before x y : q_t x = m_t (q_m x) -> q_t y = m_t (q_m y) ->
  q_before x y = before (q_m x) (q_m y).
Proof. intros Hx Hy. unfold q_before, before. rewrite Hx, Hy. reflexivity. Qed.

(* non-vacuity: concrete well-formed messages with a tie on every key but the last byte *)
Definition ex_a := mkMsg 11 3 7 2 0 0 5 9 3 [1;2;3;77].
Definition ex_b := mkMsg 99 4 7 0 1 1 6 9 3 [1;2;4].
Example ex_wf : wf_msg ex_a /\ wf_msg ex_b.
Proof. unfold wf_msg; cbn; lia. Qed.
Example ex_order : before ex_b ex_a = true /\ before ex_a ex_b = false.
Proof. split; reflexivity. Qed.
