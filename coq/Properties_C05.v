(* C05 — rollback restores the exact LP state (checkpoint restore + coast forward).
   Arena level: whatever happened to an arena since a checkpoint was taken (any allocations, frees, reallocations and
   writes: the restored arena a' is arbitrary), restoring gives back the checkpointed tree — hence the same set of live
   blocks, and allocations made since are gone — and the checkpointed content of every granule of every block that was
   allocated at the checkpoint.  Log level: a restore to index ref uses the newest checkpoint whose reference is not
   after ref, returns that reference, drops every later checkpoint and keeps every earlier one.
   Silent re-execution from the restored index, suppression of sends during it, arenas created after the checkpoint
   (re-initialised, counted in the size), the checkpoint size bookkeeping and the generator state living in LP memory
   are part of the executable models and are tied to the code by the allocator correspondence run and by the
   simulation runs (hash-chain digests equal to the reference for every configuration and checkpoint interval). *)
From Coq Require Import List Arith NArith.
From RS Require Import Buddy.BuddyTree Buddy.Alloc Buddy.AllocProofs TW.App TW.Worker TW.WorkerProofs.
From Coq Require Import Sorted.
From RS Require TW.AppAbs TW.WorkerOnceApp TW.WorkerAbs.
From RS.Abs Require Abs.
Import ListNotations.

Theorem C05_arena_restore_is_exact : forall B H (a a' : arena), length (a_cells a') = length (a_cells a) ->
  let r := arena_restore B H a' (arena_take a) in
  a_tree r = a_tree a /\
  forall o len k, In (o, len) (visit B H (a_tree a) 0) -> o <= k < o + len -> nth k (a_cells r) 0%N = nth k (a_cells a) 0%N.
Proof. exact arena_restore_take. Qed.

Theorem C05_restore_uses_newest_checkpoint_not_after : forall B H AHDR s ref s' r,
  checkpoint_restore B H AHDR s ref = Some (s', r) ->
  exists i g, nth_error (m_logs s) i = Some g /\ r = g_ref g /\ (g_ref g <= ref)%N /\
    (forall k g', i < k -> nth_error (m_logs s) k = Some g' -> (ref < g_ref g')%N) /\
    m_logs s' = firstn (S i) (m_logs s).
Proof. exact restore_picks_newest. Qed.

(* process.c level, on the executable worker model (TW/Worker.v: process_msg, rollback = anti-messages + checkpoint restore +
   silent re-execution, periodic checkpoints, fossil collection with re-basing, the message queue; tied to the C code by the
   op-by-op correspondence run of this check).  In EVERY state the worker reaches, by any script of message deliveries, held-back
   messages handed back late (stragglers), cancellations and GVT announcements, and for any program and checkpoint interval:
   the memory of every LP is exactly the result of executing, in order and from its oldest retained checkpoint, the processed
   messages of its retained history; and every retained checkpoint is the result of executing the history up to its reference. *)
Theorem C05_every_reachable_lp_state_is_the_replay_of_its_history : forall (p : prog) (ck : nat) (ops : list wop),
  Forall (lp_ok p) (k_lps (fold_left (wstep p ck) ops (w_init p))).
(* where (TW/WorkerProofs.v)
     lp_ok p x := exists newer r0 s0,
        x_logs x = newer ++ [(r0, s0)]                                   -- the checkpoint log, newest first; the oldest is the base
     /\ StronglySorted (fun a b => fst b < fst a) (x_logs x)            -- references strictly increasing with age
     /\ (forall r s, In (r, s) (x_logs x) ->
            r <= length (x_hist x) /\ s = replay p s0 (sub (x_hist x) r0 r))  -- every checkpoint = replay of the history up to it
     /\ x_st x = replay p s0 (skipn r0 (x_hist x))                        -- the LP memory = replay of the whole retained history *)
Proof. exact worker_states_exact. Qed.

(* ... and its history is made of groups [markers of the messages an event sent; that event], the markers of every group being
   exactly (same events, same order) what the handler outputs on the state the replay reaches before it; every checkpoint
   reference is a group boundary.  This is what makes silent re-execution skip the right entries and what makes a rollback
   cancel exactly the messages the undone events sent.
     lp_wf p x := hist_ok p (snd (base x)) [] (skipn (fst (base x)) (x_hist x)) /\ forall g, In g (x_logs x) -> bnd (x_hist x) (fst g) *)
Theorem C05_every_reachable_history_is_wellformed : forall (p : prog) (ck : nat) (ops : list wop),
  Forall (fun x => lp_ok p x /\ lp_wf p x) (k_lps (fold_left (wstep p ck) ops (w_init p))).
Proof. exact worker_states_wellformed. Qed.

(* one rollback, spelled out: the restored-and-coasted state is the replay of the kept history from the chosen checkpoint *)
Theorem C05_rollback_state : forall (p : prog) (x : lpx) past ref snap older,
  lp_ok p x -> drop_newer (x_logs x) past = (ref, snap) :: older ->
  lp_ok p (mkLpx (firstn past (x_hist x)) (x_bound x) (replay p snap (sub (firstn past (x_hist x)) ref past))
                 ((ref, snap) :: older) (x_rem x) (x_epoch x)).
Proof. exact rollback_lp_ok. Qed.

(* across fossil collections too: the state of every LP is the handlers folded, from the LP's initial state, over its WHOLE history
   (the part fossil collection released, kept on the abstract side of the refinement, followed by the retained part) *)
Theorem C05_lp_state_is_the_fold_of_its_whole_history : forall (p : prog) (ck : nat), WorkerOnceApp.types_okb p = true ->
  forall ops : list wop,
  let w := fold_left (wstep p ck) ops (w_init p) in
  exists a, WorkerAbs.R p w a /\
    forall l, l < AppAbs.nlps p -> x_st (get_lp w l) = Abs.stof AppAbs.cont lpstate (AppAbs.s0 p) (AppAbs.ahandle p) l (Abs.hist AppAbs.cont a l).
Proof. exact WorkerAbs.worker_state_is_fold_of_history. Qed.

Print Assumptions C05_arena_restore_is_exact.
Print Assumptions C05_lp_state_is_the_fold_of_its_whole_history.
Print Assumptions C05_every_reachable_lp_state_is_the_replay_of_its_history.
Print Assumptions C05_rollback_state.
Print Assumptions C05_every_reachable_history_is_wellformed.
Print Assumptions C05_restore_uses_newest_checkpoint_not_after.
