(* C05 — rollback restores the exact LP state (checkpoint restore + coast forward).
   Arena level: whatever happened to an arena since a checkpoint was taken (any allocations, frees, reallocations and
   writes: the restored arena a' is arbitrary), restoring gives back the checkpointed tree — hence the same set of live
   blocks, and allocations made since are gone — and the checkpointed content of every granule of every block that was
   allocated at the checkpoint.  Log level: a restore to index ref uses the newest checkpoint whose reference is not
   after ref, returns that reference, drops every later checkpoint and keeps every earlier one.
   Silent re-execution from the restored index, suppression of sends during it, arenas created after the checkpoint
   (re-initialised, counted in the size), the checkpoint size bookkeeping and the generator state living in LP memory
   are part of the executable models and are tied to the code by the allocator correspondence run and by the
   simulation runs (hash-chain digests equal to the reference for every configuration and checkpoint interval). *)
From Coq Require Import List Arith NArith.
From RS Require Import Buddy.BuddyTree Buddy.Alloc Buddy.AllocProofs.

Theorem C05_arena_restore_is_exact : forall B H (a a' : arena), length (a_cells a') = length (a_cells a) ->
  let r := arena_restore B H a' (arena_take a) in
  a_tree r = a_tree a /\
  forall o len k, In (o, len) (visit B H (a_tree a) 0) -> o <= k < o + len -> nth k (a_cells r) 0%N = nth k (a_cells a) 0%N.
Proof. exact arena_restore_take. Qed.

Theorem C05_restore_uses_newest_checkpoint_not_after : forall B H AHDR s ref s' r,
  checkpoint_restore B H AHDR s ref = Some (s', r) ->
  exists i g, nth_error (m_logs s) i = Some g /\ r = g_ref g /\ (g_ref g <= ref)%N /\
    (forall k g', i < k -> nth_error (m_logs s) k = Some g' -> (ref < g_ref g')%N) /\
    m_logs s' = firstn (S i) (m_logs s).
Proof. exact restore_picks_newest. Qed.

Print Assumptions C05_arena_restore_is_exact.
Print Assumptions C05_restore_uses_newest_checkpoint_not_after.
