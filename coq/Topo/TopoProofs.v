(* C19: receivers are valid and confirmed by IsNeighbor, CountDirections counts them, DIRECTION_RANDOM
   finds a neighbour whenever one exists — for every geometry, size, source, direction, generator state. *)
From Coq Require Import NArith ZArith List Bool Lia Permutation.
From RS Require Import Rng.RngDefs Rng.RngProofs Topo.TopoDefs.
Import ListNotations.
Local Open Scope N_scope.

Definition P32 : N := 4294967296.

Definition is_grid (g : geom) : bool := match g with Hexagon | Square | Torus => true | _ => false end.

Definition topo_wf (t : topo) : Prop :=
  0 < t_regions t /\ t_regions t < P32 /\
  (is_grid (t_geom t) = true -> 0 < t_w t /\ 0 < t_h t /\ t_regions t = t_w t * t_h t) /\
  (t_geom t = Graph -> Forall (Forall (fun x => x < t_regions t)) (t_adj t)).

Lemma u32_small x : x < P32 -> u32 x = x.
Proof. intros H. unfold u32. apply N.mod_small. exact H. Qed.

Lemma sub_div_mod a w : 0 < w -> a - a / w * w = a mod w.
Proof.
  intros Hw0. pose proof (N.div_mod a w ltac:(lia)) as H.
  set (q := a / w) in *. set (m := a mod w) in *. clearbody q m. nia.
Qed.

Section Grid.
Variable t : topo.
Hypothesis Hw : 0 < t_w t.
Hypothesis Hh : 0 < t_h t.
Hypothesis Hreg : t_regions t = t_w t * t_h t.
Hypothesis H32 : t_regions t < P32.
Variable from : N.
Hypothesis Hfrom : from < t_regions t.
Set Default Proof Using "Hw Hh Hreg H32 Hfrom".

Lemma coords_spec : coords t from = (from mod t_w t, from / t_w t) /\ from mod t_w t < t_w t /\ from / t_w t < t_h t.
Proof.
  unfold coords.
  assert (Hy : from / t_w t < t_h t) by (apply N.div_lt_upper_bound; [lia|rewrite <- Hreg; exact Hfrom]).
  pose proof (N.mod_lt from (t_w t) ltac:(lia)) as Hm.
  assert (Hy32 : from / t_w t < P32).
  { eapply N.le_lt_trans; [|exact H32]. eapply N.le_trans; [|apply N.lt_le_incl; exact Hfrom].
    apply N.div_le_upper_bound; [lia|]. nia. }
  rewrite (u32_small (from / t_w t)) by exact Hy32.
  rewrite sub_div_mod by exact Hw.
  rewrite u32_small by (eapply N.lt_trans; [exact Hm|]; nia).
  repeat split; assumption.
Qed.

Lemma in_grid_some x y r : in_grid t x y = Some r -> r < t_regions t.
Proof.
  unfold in_grid. destruct (N.ltb_spec x (t_w t)); destruct (N.ltb_spec y (t_h t)); cbn [andb]; try discriminate.
  intros E. injection E as <-. assert (y * t_w t + x < t_regions t) by nia.
  rewrite u32_small by lia. assumption.
Qed.

Lemma nb_hexagon_valid d r : nb_hexagon t from d = Some r ->
  r < t_regions t /\ existsb (fun d => opt_is (nb_hexagon t from d) r) [0;1;2;3;4;5;6;7] = true.
Proof.
  intros E. split.
  - revert E. unfold nb_hexagon. destruct (coords t from) as [x y].
    repeat match goal with |- context [if ?c then _ else _] => destruct c end;
      try discriminate; apply in_grid_some.
  - apply existsb_exists.
    assert (Hd : In d [0;1;2;3;4;5;6;7]).
    { revert E. unfold nb_hexagon. destruct (coords t from) as [x y].
      unfold D_NW, D_NE, D_SW, D_SE, D_E, D_W.
      repeat match goal with |- context [?a =? ?b] => destruct (N.eqb_spec a b); [subst; intros _; cbn; tauto|] end.
      discriminate. }
    exists d. split; [exact Hd|]. rewrite E. cbn. apply N.eqb_refl.
Qed.

Lemma nb_square_valid d r : nb_square t from d = Some r ->
  r < t_regions t /\ existsb (fun d => opt_is (nb_square t from d) r) [0;1;2;3] = true.
Proof.
  intros E. split.
  - revert E. unfold nb_square. destruct (coords t from) as [x y].
    repeat match goal with |- context [if ?c then _ else _] => destruct c end;
      try discriminate; apply in_grid_some.
  - apply existsb_exists.
    assert (Hd : In d [0;1;2;3]).
    { revert E. unfold nb_square. destruct (coords t from) as [x y].
      unfold D_N, D_S, D_E, D_W.
      repeat match goal with |- context [?a =? ?b] => destruct (N.eqb_spec a b); [subst; intros _; cbn; tauto|] end.
      discriminate. }
    exists d. split; [exact Hd|]. rewrite E. cbn. apply N.eqb_refl.
Qed.

Lemma torus_cell X Y : X < t_w t -> Y < t_h t -> u32 (Y * t_w t + X) < t_regions t.
Proof. intros HX HY. assert (Y * t_w t + X < t_regions t) by nia. rewrite u32_small by lia. assumption. Qed.

Lemma nb_torus_valid d r : nb_torus t from d = Some r ->
  r < t_regions t /\ existsb (fun d => opt_is (nb_torus t from d) r) [0;1;2;3] = true.
Proof.
  intros E. destruct coords_spec as (Ec & Hx & Hy). split.
  - revert E. unfold nb_torus. rewrite Ec.
    repeat match goal with |- context [if ?c then _ else _] => destruct c end; try discriminate;
      intros E; injection E as <-; apply torus_cell; try assumption; apply N.mod_lt; lia.
  - apply existsb_exists.
    assert (Hd : In d [0;1;2;3]).
    { revert E. unfold nb_torus. destruct (coords t from) as [x y].
      unfold D_N, D_S, D_E, D_W.
      repeat match goal with |- context [?a =? ?b] => destruct (N.eqb_spec a b); [subst; intros _; cbn; tauto|] end.
      discriminate. }
    exists d. split; [exact Hd|]. rewrite E. cbn. apply N.eqb_refl.
Qed.
End Grid.
Set Default Proof Using "Type".

Lemma first_valid_some f l r : first_valid f l = Some r -> exists d, In d l /\ f d = Some r.
Proof.
  induction l as [|d l IH]; cbn; [discriminate|].
  destruct (f d) eqn:E.
  - intros H. injection H as <-. exists d. auto.
  - intros H. destruct (IH H) as (d' & Hin & Hd). exists d'. auto.
Qed.

Lemma first_valid_finds f l d x : In d l -> f d = Some x -> exists r, first_valid f l = Some r.
Proof.
  induction l as [|e l IH]; cbn; [tauto|].
  intros [->|Hin] E.
  - rewrite E. eauto.
  - destruct (f e); eauto.
Qed.

(* ---- draws are always defined on a well-formed generator state and stay well-formed ---- *)
Lemma draw_defined s : rng_wf s -> exists b s', draw s = Some (b, s') /\ b < ONE_BITS /\ rng_wf s'.
Proof.
  intros Hs. unfold draw. pose proof (random_u64_wf s Hs) as [Hu Hs'].
  destruct (random_u64 s) as [u s']. cbn [fst snd] in *.
  destruct (random_bits_spec u Hu) as (b & E & Hb & _). rewrite E. eauto.
Qed.

(* ---- the shuffle is a permutation ---- *)
Lemma set_nth_length l : forall i v, length (set_nth l i v) = length l.
Proof. induction l as [|x l IH]; intros [|i] v; cbn; auto. Qed.

Lemma nth_set_nth_eq l : forall i v, (i < length l)%nat -> nth i (set_nth l i v) 0 = v.
Proof. induction l as [|x l IH]; intros [|i] v H; cbn in *; try lia; auto. apply IH. lia. Qed.

Lemma nth_set_nth_neq l : forall i j v, i <> j -> nth i (set_nth l j v) 0 = nth i l 0.
Proof.
  induction l as [|x l IH]; intros [|i] [|j] v H; cbn; try reflexivity; try lia.
  apply IH. lia.
Qed.

Lemma swap_perm l i j : (i < length l)%nat -> (j < length l)%nat -> Permutation (swap l i j) l.
Proof.
  intros Hi Hj. unfold swap.
  apply Permutation_sym.
  apply (Permutation_nth l (set_nth (set_nth l j (nth i l 0)) i (nth j l 0)) 0).
  split; [rewrite !set_nth_length; reflexivity|].
  exists (fun k => if Nat.eqb k i then j else if Nat.eqb k j then i else k).
  split; [|split].
  - intros k Hk. destruct (Nat.eqb_spec k i); [assumption|]. destruct (Nat.eqb_spec k j); assumption.
  - intros a b Ha Hb. destruct (Nat.eqb_spec a i); destruct (Nat.eqb_spec b i);
      destruct (Nat.eqb_spec a j); destruct (Nat.eqb_spec b j); subst; intros; subst; try reflexivity; try lia; try congruence.
  - intros k Hk. destruct (Nat.eqb_spec k i) as [->|Hki].
    + rewrite nth_set_nth_eq by (rewrite set_nth_length; assumption). reflexivity.
    + rewrite nth_set_nth_neq by assumption.
      destruct (Nat.eqb_spec k j) as [->|Hkj].
      * rewrite nth_set_nth_eq by assumption. reflexivity.
      * rewrite nth_set_nth_neq by assumption. reflexivity.
Qed.

Lemma shuffle_perm steps : forall i l s, rng_wf s -> (i + steps < length l)%nat \/ steps = O ->
  exists l' s', shuffle steps i l s = Some (l', s') /\ Permutation l' l /\ rng_wf s'.
Proof.
  induction steps as [|k IH]; intros i l s Hs Hb; cbn [shuffle].
  - exists l, s. auto.
  - destruct Hb as [Hb|Hb]; [|discriminate].
    destruct (draw_defined s Hs) as (b & s' & E & Hbb & Hs'). rewrite E.
    pose proof (random_range_in_bounds b (Z.of_nat i) (Z.of_nat (length l) - 1) Hbb ltac:(lia)) as Hr.
    set (j := Z.to_nat (random_range b (Z.of_nat i) (Z.of_nat (length l) - 1))).
    assert (Hj : (j < length l)%nat) by (unfold j; lia).
    pose proof (swap_perm l i j ltac:(lia) Hj) as Hp.
    destruct (IH (S i) (swap l i j) s' Hs') as (l' & s'' & E' & Hp' & Hs'').
    { rewrite (Permutation_length Hp). destruct k; [right; reflexivity|left; lia]. }
    exists l', s''. split; [exact E'|]. split; [|exact Hs'']. eapply Permutation_trans; eassumption.
Qed.

Lemma random_grid_spec f dirs s : rng_wf s -> dirs <> [] ->
  exists o s', random_grid f dirs s = Some (o, s') /\ rng_wf s' /\
    (forall r, o = Some r -> exists d, In d dirs /\ f d = Some r) /\
    ((exists d x, In d dirs /\ f d = Some x) -> exists r, o = Some r).
Proof.
  intros Hs Hne. unfold random_grid.
  destruct (shuffle_perm (length dirs - 1) 0 dirs s Hs) as (l & s' & E & Hp & Hs').
  { destruct dirs; [congruence|]. cbn. destruct dirs; [right; reflexivity|left; cbn; lia]. }
  rewrite E. exists (first_valid f l), s'. split; [reflexivity|]. split; [exact Hs'|]. split.
  - intros r Hr. destruct (first_valid_some f l r Hr) as (d & Hin & Hd).
    exists d. split; [|exact Hd]. eapply Permutation_in; eassumption.
  - intros (d & x & Hin & Hd). apply (first_valid_finds f l d x); [|exact Hd].
    eapply Permutation_in; [apply Permutation_sym; exact Hp|exact Hin].
Qed.

Lemma mesh_pick_spec fuel : forall regions from s o s', 0 < regions -> rng_wf s ->
  mesh_pick fuel regions from s = Some (o, s') ->
  exists r, o = Some r /\ r < regions /\ r <> from.
Proof.
  induction fuel as [|k IH]; intros regions from s o s' Hr Hs; cbn [mesh_pick]; [discriminate|].
  destruct (draw_defined s Hs) as (b & s1 & E & Hb & Hs1). rewrite E.
  destruct (N.eqb_spec (floor_mul b regions) from) as [Heq|Hne].
  - apply IH; assumption.
  - intros H. injection H as <- <-. eexists. split; [reflexivity|]. split; [|exact Hne].
    apply floor_mul_lt; assumption.
Qed.

(* ---- main theorem: a receiver is inside the topology and IsNeighbor confirms it ---- *)
Theorem receiver_valid fuel pick t s from dir r s' :
  topo_wf t -> rng_wf s ->
  (t_geom t = Graph -> (N.to_nat pick < length (nth (N.to_nat from) (t_adj t) []))%nat) ->
  get_receiver fuel pick t s from dir = Some (Some r, s') ->
  r < t_regions t /\ is_neighbor t from r = true.
Proof.
  intros (Hr0 & H32 & Hgrid & Hgraph) Hs Hpick. unfold get_receiver.
  destruct (N.leb_spec (t_regions t) from) as [|Hfrom]; [discriminate|].
  unfold is_neighbor. destruct (t_geom t) eqn:G.
  - (* hexagon *) destruct (Hgrid eq_refl) as (Hw & Hh & Hreg).
    destruct (N.eqb_spec dir D_RANDOM) as [_|_].
    + destruct (random_grid_spec (nb_hexagon t from) hexagon_dirs s Hs ltac:(discriminate)) as (o & s1 & E & _ & Ho & _).
      rewrite E. intros H. injection H as -> <-. destruct (Ho r eq_refl) as (d & _ & Hd).
      eapply nb_hexagon_valid; eassumption.
    + intros H. injection H as H <-. eapply nb_hexagon_valid; eassumption.
  - (* square *) destruct (Hgrid eq_refl) as (Hw & Hh & Hreg).
    destruct (N.eqb_spec dir D_RANDOM) as [_|_].
    + destruct (random_grid_spec (nb_square t from) square_dirs s Hs ltac:(discriminate)) as (o & s1 & E & _ & Ho & _).
      rewrite E. intros H. injection H as -> <-. destruct (Ho r eq_refl) as (d & _ & Hd).
      eapply nb_square_valid; eassumption.
    + intros H. injection H as H <-. eapply nb_square_valid; eassumption.
  - (* torus *) destruct (Hgrid eq_refl) as (Hw & Hh & Hreg).
    destruct (N.eqb_spec dir D_RANDOM) as [_|_].
    + destruct (random_grid_spec (nb_torus t from) square_dirs s Hs ltac:(discriminate)) as (o & s1 & E & _ & Ho & _).
      rewrite E. intros H. injection H as -> <-. destruct (Ho r eq_refl) as (d & _ & Hd).
      eapply nb_torus_valid; eassumption.
    + intros H. injection H as H <-. eapply nb_torus_valid; eassumption.
  - (* ring *) unfold nb_ring. destruct ((dir =? D_E) || (dir =? D_RANDOM)); [|discriminate].
    intros H. injection H as <- <-. split; [apply N.mod_lt; lia|]. cbn. apply N.eqb_refl.
  - (* bidring *)
    assert (Hfix : forall d x, nb_bidring_fixed t from d = Some x ->
              x < t_regions t /\ opt_is (nb_bidring_fixed t from D_E) x || opt_is (nb_bidring_fixed t from D_W) x = true).
    { intros d x. unfold nb_bidring_fixed at 1.
      destruct (N.eqb_spec d D_E) as [->|]; [|destruct (N.eqb_spec d D_W) as [->|]; [|discriminate]];
        intros H; injection H as <-; (split; [apply N.mod_lt; lia|]); cbn; rewrite N.eqb_refl; auto using orb_true_r. }
    destruct (N.eqb_spec dir D_RANDOM) as [_|_].
    + destruct (draw_defined s Hs) as (b & s1 & E & _ & _). rewrite E.
      intros H. injection H as H <-. eapply Hfix; eassumption.
    + intros H. injection H as H <-. eapply Hfix; eassumption.
  - (* star *) destruct (negb (dir =? D_RANDOM)); [discriminate|].
    destruct (N.eqb_spec from 0) as [->|Hf0].
    + destruct (N.eqb_spec (t_regions t) 1) as [|Hr1]; [discriminate|].
      destruct (draw_defined s Hs) as (b & s1 & E & Hb & _). rewrite E.
      intros H. injection H as <- <-.
      pose proof (random_range_in_bounds b 1 (Z.of_N (t_regions t) - 1) Hb ltac:(lia)) as Hrr.
      set (v := random_range b 1 (Z.of_N (t_regions t) - 1)) in *.
      split; [lia|]. cbn.
      destruct (N.eqb_spec (Z.to_N v) 0); [lia|]. destruct (N.ltb_spec (Z.to_N v) (t_regions t)); [reflexivity|lia].
    + intros H. injection H as <- <-. split; [lia|]. cbn.
      destruct (N.eqb_spec from 0); [lia|]. destruct (N.ltb_spec from (t_regions t)); [reflexivity|lia].
  - (* fully connected mesh *) destruct (negb (dir =? D_RANDOM)); [discriminate|].
    destruct (N.eqb_spec (t_regions t) 1); [discriminate|].
    intros H. destruct (mesh_pick_spec _ _ _ _ _ _ Hr0 Hs H) as (x & Ex & Hx & _). injection Ex as <-.
    split; [exact Hx|]. destruct (N.ltb_spec from (t_regions t)); [|lia].
    destruct (N.ltb_spec r (t_regions t)); [reflexivity|lia].
  - (* graph *) destruct (negb (dir =? D_RANDOM)); [discriminate|].
    specialize (Hpick eq_refl). specialize (Hgraph eq_refl).
    set (adj := nth (N.to_nat from) (t_adj t) []) in *.
    destruct adj as [|a0 adj'] eqn:Ea; [discriminate|]. rewrite <- Ea in *.
    destruct (draw_defined s Hs) as (b & s1 & E & _ & _). rewrite E.
    intros H. injection H as <- <-.
    assert (Hin : In (nth (N.to_nat pick) adj 0) adj) by (apply nth_In; exact Hpick).
    split.
    + assert (Hall : Forall (fun x => x < t_regions t) adj).
      { destruct (Nat.lt_ge_cases (N.to_nat from) (length (t_adj t))) as [Hl|Hl].
        - rewrite Forall_forall in Hgraph. apply Hgraph. unfold adj. apply nth_In. exact Hl.
        - unfold adj. rewrite nth_overflow by exact Hl. constructor. }
      rewrite Forall_forall in Hall. apply Hall. exact Hin.
    + apply existsb_exists. eexists. split; [exact Hin|]. apply N.eqb_refl.
Qed.

(* ---- CountDirections = number of fixed directions with a valid receiver ---- *)
Definition fixed_dirs : list N := [0;1;2;3;4;5;6;7].

Definition fixed_receiver (t : topo) (from d : N) : option N :=
  match t_geom t with
  | Hexagon => nb_hexagon t from d
  | Square => nb_square t from d
  | Torus => nb_torus t from d
  | Ring => nb_ring t from d
  | Bidring => nb_bidring_fixed t from d
  | _ => None
  end.

Theorem count_consistent_grids_rings t from :
  match t_geom t with
  | Hexagon | Square | Torus | Ring | Bidring =>
      count_directions t from = count_valid (fixed_receiver t from) fixed_dirs
  | Star => count_directions t from = if from =? 0 then t_regions t - 1 else 1
  | Fcmesh => count_directions t from = t_regions t - 1
  | Graph => count_directions t from = N.of_nat (length (nth (N.to_nat from) (t_adj t) []))
  end.
Proof.
  unfold count_directions, fixed_receiver. destruct (t_geom t); try reflexivity;
    unfold count_valid, fixed_dirs, nb_square, nb_torus, nb_ring, nb_bidring_fixed;
    try destruct (coords t from) as [x y]; cbn; reflexivity.
Qed.

(* ---- DIRECTION_RANDOM finds a neighbour whenever one exists (grids) ---- *)
Theorem random_finds_neighbor_grid fuel pick t s from :
  topo_wf t -> rng_wf s -> from < t_regions t -> is_grid (t_geom t) = true ->
  (exists d x, In d fixed_dirs /\ fixed_receiver t from d = Some x) ->
  exists r s', get_receiver fuel pick t s from D_RANDOM = Some (Some r, s').
Proof.
  intros Hwf Hs Hfrom Hg (d & x & Hd & Hx). unfold get_receiver.
  destruct (N.leb_spec (t_regions t) from); [lia|]. unfold fixed_receiver in Hx.
  assert (Hsub : forall f dirs, (forall d x, f d = Some x -> In d dirs) -> f d = Some x -> dirs <> [] ->
            exists r s', random_grid f dirs s = Some (Some r, s')).
  { intros f dirs Hdirs Hfd Hne.
    destruct (random_grid_spec f dirs s Hs Hne) as (o & s1 & E & _ & _ & Hfind).
    destruct Hfind as (r & ->); [exists d, x; split; [eapply Hdirs; eassumption|assumption]|].
    eauto. }
  destruct (t_geom t); try discriminate; cbn [N.eqb D_RANDOM Pos.eqb].
  - apply Hsub; [|exact Hx|discriminate]. intros d' x'. unfold nb_hexagon, hexagon_dirs.
    destruct (coords t from) as [cx cy]. unfold D_NW, D_NE, D_SW, D_SE, D_E, D_W.
    repeat match goal with |- context [?a =? ?b] => destruct (N.eqb_spec a b); [subst; intros _; cbn; tauto|] end.
    discriminate.
  - apply Hsub; [|exact Hx|discriminate]. intros d' x'. unfold nb_square, square_dirs.
    destruct (coords t from) as [cx cy]. unfold D_N, D_S, D_E, D_W.
    repeat match goal with |- context [?a =? ?b] => destruct (N.eqb_spec a b); [subst; intros _; cbn; tauto|] end.
    discriminate.
  - apply Hsub; [|exact Hx|discriminate]. intros d' x'. unfold nb_torus, square_dirs.
    destruct (coords t from) as [cx cy]. unfold D_N, D_S, D_E, D_W.
    repeat match goal with |- context [?a =? ?b] => destruct (N.eqb_spec a b); [subst; intros _; cbn; tauto|] end.
    discriminate.
Qed.

(* rings, star, mesh: another region / the fixed neighbour always exists *)
Theorem random_finds_neighbor_others fuel pick t s from :
  topo_wf t -> rng_wf s -> from < t_regions t ->
  match t_geom t with
  | Ring | Bidring => exists r s', get_receiver fuel pick t s from D_RANDOM = Some (Some r, s')
  | Star => 1 < t_regions t -> exists r s', get_receiver fuel pick t s from D_RANDOM = Some (Some r, s')
  | _ => True
  end.
Proof.
  intros Hwf Hs Hfrom. unfold get_receiver. destruct (N.leb_spec (t_regions t) from); [lia|].
  destruct (t_geom t); try exact I; cbn [N.eqb D_RANDOM Pos.eqb negb].
  - unfold nb_ring. cbn. eauto.
  - destruct (draw_defined s Hs) as (b & s1 & E & _ & _). rewrite E. unfold nb_bidring_fixed.
    destruct (b <? HALF_BITS); cbn; eauto.
  - intros H1. destruct (N.eqb_spec from 0).
    + destruct (N.eqb_spec (t_regions t) 1); [lia|].
      destruct (draw_defined s Hs) as (b & s1 & E & _ & _). rewrite E. eauto.
    + eauto.
Qed.

(* non-vacuity: a 3x3 hexagonal grid, source in the middle of the top row *)
Example ex_hexagon :
  let t := mkTopo Hexagon 9 3 3 [] in
  topo_wf t /\ count_directions t 1 = 4 /\
  get_receiver 8 0 t (rng_init 1 7) 1 D_SE = Some (Some 4, rng_init 1 7).
Proof.
  cbn zeta. split; [|split; vm_compute; reflexivity].
  unfold topo_wf. cbn. repeat split; try reflexivity; try discriminate.
Qed.
