(* Model of src/lib/topology/topology.c (after the fixes of findings F3-F5): the eight neighbour
   functions, GetReceiver, IsNeighbor, CountDirections.  Grid coordinates are 32-bit words with
   wrap-around as in the C code; the random choices consume draws of the caller's generator (C18 model).
   Executable definitions only. *)
From Coq Require Import NArith ZArith List Bool.
From RS Require Import Rng.RngDefs.
Import ListNotations.
Local Open Scope N_scope.

Inductive geom := Hexagon | Square | Torus | Ring | Bidring | Star | Fcmesh | Graph.

Record topo := mkTopo {
  t_geom : geom; t_regions : N; t_w : N; t_h : N;
  t_adj : list (list N)        (* graph only: neighbours of each region, in insertion order *)
}.

(* enum topology_direction *)
Definition D_E := 0. Definition D_W := 1. Definition D_N := 2. Definition D_S := 3.
Definition D_NE := 4. Definition D_SW := 5. Definition D_NW := 6. Definition D_SE := 7.
Definition D_RANDOM := 8.

Definition M32 : N := 4294967295.   (* (uint32_t)-1 *)

(* result convention: None = INVALID_DIRECTION *)
Definition in_grid (t : topo) (x y : N) : option N :=
  if (x <? t_w t) && (y <? t_h t) then Some (u32 (y * t_w t + x)) else None.

Definition coords (t : topo) (from : N) : N * N :=
  let y := u32 (from / t_w t) in (u32 (from - y * t_w t), y).

Definition nb_hexagon (t : topo) (from dir : N) : option N :=
  let '(x, y) := coords t from in
  let odd := N.land y 1 in
  if dir =? D_NW then in_grid t (u32 (x + u32 (odd + M32))) (u32 (y + M32))
  else if dir =? D_NE then in_grid t (u32 (x + odd)) (u32 (y + M32))
  else if dir =? D_SW then in_grid t (u32 (x + u32 (odd + M32))) (u32 (y + 1))
  else if dir =? D_SE then in_grid t (u32 (x + odd)) (u32 (y + 1))
  else if dir =? D_E then in_grid t (u32 (x + 1)) y
  else if dir =? D_W then in_grid t (u32 (x + M32)) y
  else None.

Definition nb_square (t : topo) (from dir : N) : option N :=
  let '(x, y) := coords t from in
  if dir =? D_N then in_grid t x (u32 (y + M32))
  else if dir =? D_S then in_grid t x (u32 (y + 1))
  else if dir =? D_E then in_grid t (u32 (x + 1)) y
  else if dir =? D_W then in_grid t (u32 (x + M32)) y
  else None.

Definition nb_torus (t : topo) (from dir : N) : option N :=
  let '(x, y) := coords t from in
  let w := t_w t in let h := t_h t in
  if dir =? D_N then Some (u32 (u32 (y + h - 1) mod h * w + x))
  else if dir =? D_S then Some (u32 (u32 (y + 1) mod h * w + x))
  else if dir =? D_E then Some (u32 (y * w + u32 (x + 1) mod w))
  else if dir =? D_W then Some (u32 (y * w + u32 (x + w - 1) mod w))
  else None.

Definition nb_ring (t : topo) (from dir : N) : option N :=
  if (dir =? D_E) || (dir =? D_RANDOM) then Some (u64 (from + 1) mod t_regions t) else None.

Definition nb_bidring_fixed (t : topo) (from dir : N) : option N :=
  if dir =? D_E then Some (u64 (from + 1) mod t_regions t)
  else if dir =? D_W then Some (u64 (from + t_regions t - 1) mod t_regions t)
  else None.

Definition hexagon_dirs : list N := [D_E; D_W; D_NE; D_NW; D_SE; D_SW].
Definition square_dirs : list N := [D_E; D_W; D_N; D_S].

(* one Random() draw: bit pattern and new generator state; None = undefined shift (excluded by C18) *)
Definition draw (s : rng) : option (N * rng) :=
  let '(u, s') := random_u64 s in
  match random_bits u with Some b => Some (b, s') | None => None end.

Fixpoint set_nth (l : list N) (i : nat) (v : N) : list N :=
  match l, i with
  | [], _ => []
  | _ :: r, O => v :: r
  | x :: r, S k => x :: set_nth r k v
  end.

Definition swap (l : list N) (i j : nat) : list N :=
  let a := nth i l 0 in let b := nth j l 0 in set_nth (set_nth l j a) i b.

(* the Fisher-Yates loop of get_random_neighbor on a private copy: i = 0 .. n-2, j = RandomRange(i, n-1) *)
Fixpoint shuffle (steps : nat) (i : nat) (l : list N) (s : rng) : option (list N * rng) :=
  match steps with
  | O => Some (l, s)
  | S k =>
      match draw s with
      | None => None
      | Some (b, s') =>
          let j := Z.to_nat (random_range b (Z.of_nat i) (Z.of_nat (length l) - 1)) in
          shuffle k (S i) (swap l i j) s'
      end
  end.

Fixpoint first_valid (f : N -> option N) (dirs : list N) : option N :=
  match dirs with
  | [] => None
  | d :: r => match f d with Some x => Some x | None => first_valid f r end
  end.

Definition random_grid (f : N -> option N) (dirs : list N) (s : rng) : option (option N * rng) :=
  match shuffle (length dirs - 1) 0 dirs s with
  | None => None
  | Some (l, s') => Some (first_valid f l, s')
  end.

(* fully connected mesh: redraw while the candidate is the caller; fuel = number of draws allowed *)
Fixpoint mesh_pick (fuel : nat) (regions from : N) (s : rng) : option (option N * rng) :=
  match fuel with
  | O => None
  | S k =>
      match draw s with
      | None => None
      | Some (b, s') =>
          let r := floor_mul b regions in
          if r =? from then mesh_pick k regions from s' else Some (Some r, s')
      end
  end.

Definition HALF_BITS : N := 4602678819172646912. (* 0x3FE0000000000000 = bits of 0.5 *)

(* graph: the neighbour returned by the cumulative-probability walk is some element of the adjacency
   list; which one depends on binary64 additions that are not modelled: the pick is an oracle input *)
Definition get_receiver (mesh_fuel : nat) (graph_pick : N) (t : topo) (s : rng) (from dir : N)
  : option (option N * rng) :=
  if t_regions t <=? from then Some (None, s) else
  match t_geom t with
  | Hexagon => if dir =? D_RANDOM then random_grid (nb_hexagon t from) hexagon_dirs s
               else Some (nb_hexagon t from dir, s)
  | Square => if dir =? D_RANDOM then random_grid (nb_square t from) square_dirs s
              else Some (nb_square t from dir, s)
  | Torus => if dir =? D_RANDOM then random_grid (nb_torus t from) square_dirs s
             else Some (nb_torus t from dir, s)
  | Ring => Some (nb_ring t from dir, s)
  | Bidring =>
      if dir =? D_RANDOM then
        match draw s with
        | None => None
        | Some (b, s') => Some (nb_bidring_fixed t from (if b <? HALF_BITS then D_E else D_W), s')
        end
      else Some (nb_bidring_fixed t from dir, s)
  | Star =>
      if negb (dir =? D_RANDOM) then Some (None, s)
      else if from =? 0 then
        if t_regions t =? 1 then Some (None, s)
        else match draw s with
             | None => None
             | Some (b, s') => Some (Some (Z.to_N (random_range b 1 (Z.of_N (t_regions t) - 1))), s')
             end
      else Some (Some 0, s)
  | Fcmesh =>
      if negb (dir =? D_RANDOM) then Some (None, s)
      else if t_regions t =? 1 then Some (None, s)
      else mesh_pick mesh_fuel (t_regions t) from s
  | Graph =>
      if negb (dir =? D_RANDOM) then Some (None, s)
      else match nth (N.to_nat from) (t_adj t) [] with
           | [] => Some (None, s)
           | adj => match draw s with
                    | None => None
                    | Some (_, s') => Some (Some (nth (N.to_nat graph_pick) adj 0), s')
                    end
           end
  end.

Definition opt_is (o : option N) (v : N) : bool := match o with Some x => x =? v | None => false end.

Definition is_neighbor (t : topo) (from to : N) : bool :=
  match t_geom t with
  | Hexagon => existsb (fun d => opt_is (nb_hexagon t from d) to) [0;1;2;3;4;5;6;7]
  | Torus => existsb (fun d => opt_is (nb_torus t from d) to) [0;1;2;3]
  | Square => existsb (fun d => opt_is (nb_square t from d) to) [0;1;2;3]
  | Bidring => opt_is (nb_bidring_fixed t from D_E) to || opt_is (nb_bidring_fixed t from D_W) to
  | Ring => opt_is (nb_ring t from D_E) to
  | Star => ((from =? 0) && negb (to =? 0) && (to <? t_regions t)) ||
            (negb (from =? 0) && (to =? 0) && (from <? t_regions t))
  | Fcmesh => (from <? t_regions t) && (to <? t_regions t)
  | Graph => existsb (fun x => x =? to) (nth (N.to_nat from) (t_adj t) [])
  end.

Definition count_valid (f : N -> option N) (dirs : list N) : N :=
  N.of_nat (length (filter (fun d => match f d with Some _ => true | None => false end) dirs)).

Definition count_directions (t : topo) (from : N) : N :=
  match t_geom t with
  | Fcmesh => t_regions t - 1
  | Hexagon => count_valid (nb_hexagon t from) [0;1;2;3;4;5;6;7]
  | Torus => 4
  | Square => count_valid (nb_square t from) [0;1;2;3]
  | Bidring => 2
  | Star => if from =? 0 then t_regions t - 1 else 1
  | Ring => 1
  | Graph => N.of_nat (length (nth (N.to_nat from) (t_adj t) []))
  end.

(* AddTopologyLink on the adjacency lists: append unless already present *)
Definition add_link (t : topo) (from to : N) : topo :=
  let i := N.to_nat from in
  let l := nth i (t_adj t) [] in
  if existsb (fun x => x =? to) l then t
  else mkTopo (t_geom t) (t_regions t) (t_w t) (t_h t)
         (firstn i (t_adj t) ++ [l ++ [to]] ++ skipn (S i) (t_adj t)).
