(* scratch prototype: one buddy arena as a complete binary tree carrying the `longest` values *)
From Coq Require Import List Arith Lia Bool.
Import ListNotations.

Section Buddy.
Variable B : nat.                 (* block exponent; the code has 6 *)
Hypothesis Bpos : 0 < B.

Inductive bt := Lf (v : nat) | Nd (v : nat) (l r : bt).
Definition val (t : bt) : nat := match t with Lf v => v | Nd v _ _ => v end.

Fixpoint mk_full (h : nat) : bt := match h with 0 => Lf B | S h' => Nd (B + S h') (mk_full h') (mk_full h') end.

(* well-formed tree of height h: entirely free / handed out as one block (children keep their stale full values) / split *)
Fixpoint wf (h : nat) (t : bt) : Prop :=
  match h, t with
  | 0, Lf v => v = 0 \/ v = B
  | S h', Nd v l r =>
      t = mk_full (S h') \/
      (v = 0 /\ l = mk_full h' /\ r = mk_full h') \/
      (wf h' l /\ wf h' r /\ v = Nat.max (val l) (val r) /\ ~ (l = mk_full h' /\ r = mk_full h'))
  | _, _ => False
  end.

(* which 2^B-byte leaves are allocated *)
Fixpoint leaves (h : nat) (t : bt) : list bool :=
  match h, t with
  | 0, Lf v => [Nat.eqb v 0]
  | S h', Nd v l r => if Nat.eqb v 0 then repeat true (2 ^ S h') else leaves h' l ++ leaves h' r
  | _, _ => []
  end.

(* buddy_malloc for a block of 2^e bytes: new tree and offset in leaves *)
Fixpoint bm (h : nat) (t : bt) (e : nat) : option (bt * nat) :=
  match h, t with
  | 0, Lf v => if Nat.leb e v then Some (Lf 0, 0) else None
  | S h', Nd v l r =>
      if Nat.ltb v e then None
      else if Nat.eqb e (B + S h') then Some (Nd 0 l r, 0)
      else if Nat.leb e (val l)
           then match bm h' l e with Some (l', o) => Some (Nd (Nat.max (val l') (val r)) l' r, o) | None => None end
           else match bm h' r e with Some (r', o) => Some (Nd (Nat.max (val l) (val r')) l r', 2 ^ h' + o) | None => None end
  | _, _ => None
  end.

(* ---------- facts ---------- *)
Lemma val_full h : val (mk_full h) = B + h.
Proof. destruct h; simpl; lia. Qed.

Lemma wf_full h : wf h (mk_full h).
Proof. destruct h; simpl; auto. Qed.

Lemma leaves_full h : leaves h (mk_full h) = repeat false (2 ^ h).
Proof.
  induction h as [|h IH]; simpl.
  - destruct (Nat.eqb_spec B 0); [lia|reflexivity].
  - destruct (Nat.eqb_spec (B + S h) 0); [lia|]. rewrite IH, <- repeat_app. f_equal. lia.
Qed.

Lemma leaves_length h t : wf h t -> length (leaves h t) = 2 ^ h.
Proof.
  revert t; induction h as [|h IH]; intros [v|v l r]; simpl; try tauto.
  intros H. destruct (Nat.eqb v 0); [apply repeat_length|].
  rewrite app_length. destruct H as [E|[[_ [-> ->]]|[Hl [Hr _]]]].
  - injection E as _ -> ->. rewrite !IH by apply wf_full. lia.
  - rewrite !IH by apply wf_full. lia.
  - rewrite !IH by auto. lia.
Qed.

(* the value at the root bounds the values below it, and is either 0 or in [B, B+h] *)
Lemma val_range h t : wf h t -> val t = 0 \/ B <= val t <= B + h.
Proof.
  revert t; induction h as [|h IH]; intros [v|v l r]; simpl; try tauto.
  - intros [->| ->]; lia.
  - intros [E|[[-> _]|[Hl [Hr [-> _]]]]].
    + injection E as -> _ _. lia.
    + lia.
    + destruct (IH l Hl), (IH r Hr); lia.
Qed.

(* value B+h at height h means the tree is entirely free *)
Lemma val_top_full h t : wf h t -> val t = B + h -> t = mk_full h.
Proof.
  revert t; induction h as [|h IH]; intros [v|v l r]; simpl; try tauto.
  - intros [->| ->] E; [lia|reflexivity].
  - intros [E|[[-> _]|[Hl [Hr [-> _]]]]] Ev; auto; [lia|].
    exfalso. destruct (val_range h l Hl), (val_range h r Hr); lia.
Qed.

Definition lv (h : nat) (t : bt) (k : nat) : bool := nth k (leaves h t) false.
Definition inr (o len k : nat) : bool := Nat.leb o k && Nat.ltb k (o + len).

Lemma nth_repeat {A} (x d : A) n k : nth k (repeat x n) d = if Nat.ltb k n then x else d.
Proof. revert k; induction n as [|n IH]; intros [|k]; simpl; auto. rewrite IH.
  destruct (Nat.ltb_spec k n), (Nat.ltb_spec (S k) (S n)); auto; lia. Qed.

Lemma lv_full h k : lv h (mk_full h) k = false.
Proof. unfold lv. rewrite leaves_full, nth_repeat. destruct (Nat.ltb k (2 ^ h)); reflexivity. Qed.

Lemma lv_node h v l r k : wf (S h) (Nd v l r) -> v <> 0 ->
  lv (S h) (Nd v l r) k = if Nat.ltb k (2 ^ h) then lv h l k else lv h r (k - 2 ^ h).
Proof.
  intros Hwf Hv. unfold lv. simpl leaves. destruct (Nat.eqb_spec v 0); [contradiction|].
  assert (Hl : length (leaves h l) = 2 ^ h).
  { simpl in Hwf. destruct Hwf as [E|[[-> _]|[Hl _]]]; [injection E as _ -> _; apply leaves_length, wf_full|lia|apply leaves_length; auto]. }
  destruct (Nat.ltb_spec k (2 ^ h)).
  - apply app_nth1. lia.
  - rewrite app_nth2 by lia. rewrite Hl. reflexivity.
Qed.

Lemma lv_val0 h t k : wf h t -> val t = 0 -> k < 2 ^ h -> lv h t k = true.
Proof.
  revert t k; induction h as [|h IH]; intros [v|v l r] k; simpl; try tauto.
  - intros _ -> Hk. unfold lv. simpl. assert (k = 0) by lia. subst. reflexivity.
  - intros _ -> Hk. unfold lv. simpl. rewrite nth_repeat.
    destruct (Nat.ltb_spec k (2 ^ h + (2 ^ h + 0))); [reflexivity|lia].
Qed.

Lemma pow_le_mono e1 e2 : e1 <= e2 -> 2 ^ e1 <= 2 ^ e2.
Proof. intros H. apply Nat.pow_le_mono_r; lia. Qed.
Lemma pow_pos e : 0 < 2 ^ e.
Proof. pose proof (Nat.pow_nonzero 2 e). lia. Qed.
Lemma pow_divide e1 e2 : e1 <= e2 -> Nat.divide (2 ^ e1) (2 ^ e2).
Proof. intros H. exists (2 ^ (e2 - e1)). rewrite <- Nat.pow_add_r. f_equal. lia. Qed.

Record bm_post (h : nat) (t t' : bt) (e o : nat) : Prop := {
  m_wf : wf h t';
  m_free : forall k, inr o (2 ^ (e - B)) k = true -> lv h t k = false;
  m_lv : forall k, lv h t' k = if inr o (2 ^ (e - B)) k then true else lv h t k;
  m_in : o + 2 ^ (e - B) <= 2 ^ h;
  m_al : Nat.divide (2 ^ (e - B)) o
}.

Lemma bm_not_full h t t' e o : bm_post h t t' e o -> t' <> mk_full h.
Proof.
  intros P E. pose proof (m_lv h t t' e o P o) as H. rewrite E, lv_full in H.
  unfold inr in H. pose proof (pow_pos (e - B)).
  destruct (Nat.leb_spec o o); [|lia]. destruct (Nat.ltb_spec o (o + 2 ^ (e - B))); [|lia]. simpl in H. discriminate.
Qed.

Theorem bm_spec : forall h t e, wf h t -> B <= e -> e <= val t ->
  exists t' o, bm h t e = Some (t', o) /\ bm_post h t t' e o.
Proof.
  induction h as [|h IH]; intros [v|v l r] e Hwf HB He; simpl in Hwf; try tauto.
  - (* leaf *)
    simpl in He. assert (v = B /\ e = B) as [-> ->] by (destruct Hwf; lia).
    exists (Lf 0), 0. simpl. destruct (Nat.leb_spec B B); [|lia]. split; [reflexivity|].
    constructor; rewrite ?Nat.sub_diag; simpl; auto.
    + intros k Hk. unfold lv. simpl. destruct (Nat.eqb_spec B 0); [lia|]. destruct k as [|[|k]]; reflexivity.
    + intros k. unfold inr, lv. simpl. destruct (Nat.eqb_spec B 0); [lia|].
      destruct k as [|[|k]]; simpl; reflexivity.
    + apply Nat.divide_0_r.
  - (* inner node *)
    simpl in He. pose proof (val_range (S h) (Nd v l r) Hwf) as Hr. simpl in Hr.
    assert (Hv0 : v <> 0) by lia.
    simpl bm. destruct (Nat.ltb_spec v e); [lia|].
    destruct (Nat.eqb_spec e (B + S h)) as [->|Hne].
    + (* the whole subtree is the block *)
      assert (Et : Nd v l r = mk_full (S h)) by (apply val_top_full; [exact Hwf|simpl; lia]).
      injection Et as -> -> ->.
      exists (Nd 0 (mk_full h) (mk_full h)), 0. split; [reflexivity|].
      assert (Esub : B + S h - B = S h) by lia.
      constructor; rewrite ?Esub.
      * simpl. right. left. auto.
      * intros k _. apply (lv_full (S h)).
      * intros k. unfold lv at 1. simpl leaves. rewrite nth_repeat. unfold inr. simpl.
        change (Nd (B + S h) (mk_full h) (mk_full h)) with (mk_full (S h)). rewrite lv_full.
        destruct (Nat.ltb_spec k (2 ^ h + (2 ^ h + 0))); reflexivity.
      * simpl. lia.
      * apply Nat.divide_0_r.
    + assert (HeS : e - B <= h) by lia.
      assert (Hlen : 2 ^ (e - B) <= 2 ^ h) by (apply pow_le_mono; auto).
      assert (Hsub : wf h l /\ wf h r /\ (e <= val l \/ e <= val r)).
      { destruct Hwf as [E|[[-> _]|[Hl [Hr' [Ev _]]]]]; [|lia|repeat split; auto; lia].
        injection E as -> -> ->. repeat split; try apply wf_full. rewrite val_full. lia. }
      destruct Hsub as [Hwl [Hwr Ev]].
      destruct (Nat.leb_spec e (val l)) as [Hel|Hel].
      * (* descend left *)
        destruct (IH l e Hwl HB Hel) as [l' [o [Eb P]]]. rewrite Eb.
        exists (Nd (Nat.max (val l') (val r)) l' r), o. split; [reflexivity|].
        assert (Hwf' : wf (S h) (Nd (Nat.max (val l') (val r)) l' r)).
        { simpl. right. right. repeat split; auto; [apply (m_wf _ _ _ _ _ P)|].
          intros [El _]. apply (bm_not_full h l l' e o P El). }
        constructor; auto.
        -- intros k Hk. rewrite (lv_node h v l r k Hwf Hv0). unfold inr in Hk. pose proof (m_in _ _ _ _ _ P).
           destruct (Nat.ltb_spec k (2 ^ h)); [apply (m_free _ _ _ _ _ P); exact Hk|].
           apply andb_prop in Hk. destruct Hk as [_ Hk]. apply Nat.ltb_lt in Hk. lia.
        -- intros k. rewrite (lv_node h v l r k Hwf Hv0).
           destruct (Nat.eq_dec (Nat.max (val l') (val r)) 0) as [E0|E0].
           ++ (* both halves are now completely allocated *)
              assert (val l' = 0 /\ val r = 0) as [E1 E2] by lia.
              pose proof (m_in _ _ _ _ _ P) as Hin.
              destruct (Nat.ltb_spec k (2 ^ S h)) as [Hk|Hk].
              ** unfold lv at 1. simpl leaves. rewrite E0. simpl. rewrite nth_repeat.
                 destruct (Nat.ltb_spec k (2 ^ h + (2 ^ h + 0))); [|simpl in Hk; lia].
                 destruct (Nat.ltb_spec k (2 ^ h)).
                 --- pose proof (m_lv _ _ _ _ _ P k) as Hm. rewrite (lv_val0 h l' k (m_wf _ _ _ _ _ P) E1) in Hm by auto.
                     destruct (inr o (2 ^ (e - B)) k); auto.
                 --- rewrite (lv_val0 h r (k - 2 ^ h) Hwr E2) by (simpl in Hk; lia).
                     destruct (inr o (2 ^ (e - B)) k); auto.
              ** unfold lv at 1. simpl leaves. rewrite E0. simpl. rewrite nth_repeat.
                 destruct (Nat.ltb_spec k (2 ^ h + (2 ^ h + 0))); [simpl in Hk; lia|].
                 assert (inr o (2 ^ (e - B)) k = false) as ->.
                 { unfold inr. destruct (Nat.leb o k); simpl; auto. destruct (Nat.ltb_spec k (o + 2 ^ (e - B))); auto. simpl in Hk. lia. }
                 destruct (Nat.ltb_spec k (2 ^ h)); [simpl in Hk; lia|].
                 unfold lv. rewrite nth_overflow; auto. rewrite (leaves_length h r Hwr). simpl in Hk. lia.
           ++ rewrite (lv_node h _ l' r k Hwf' E0). pose proof (m_in _ _ _ _ _ P) as Hin.
              destruct (Nat.ltb_spec k (2 ^ h)); [apply (m_lv _ _ _ _ _ P)|].
              assert (inr o (2 ^ (e - B)) k = false) as ->; auto.
              unfold inr. destruct (Nat.leb o k); simpl; auto. destruct (Nat.ltb_spec k (o + 2 ^ (e - B))); auto. lia.
        -- pose proof (m_in _ _ _ _ _ P). simpl. lia.
        -- apply (m_al _ _ _ _ _ P).
      * (* descend right *)
        assert (Her : e <= val r) by lia.
        destruct (IH r e Hwr HB Her) as [r' [o [Eb P]]]. rewrite Eb.
        exists (Nd (Nat.max (val l) (val r')) l r'), (2 ^ h + o). split; [reflexivity|].
        assert (Hwf' : wf (S h) (Nd (Nat.max (val l) (val r')) l r')).
        { simpl. right. right. repeat split; auto; [apply (m_wf _ _ _ _ _ P)|].
          intros [_ Er]. apply (bm_not_full h r r' e o P Er). }
        pose proof (m_in _ _ _ _ _ P) as Hin.
        assert (Hinr : forall k, inr (2 ^ h + o) (2 ^ (e - B)) k = if Nat.ltb k (2 ^ h) then false else inr o (2 ^ (e - B)) (k - 2 ^ h)).
        { intros k. unfold inr. destruct (Nat.ltb_spec k (2 ^ h)).
          - destruct (Nat.leb_spec (2 ^ h + o) k); [lia|reflexivity].
          - destruct (Nat.leb_spec (2 ^ h + o) k), (Nat.leb_spec o (k - 2 ^ h)),
              (Nat.ltb_spec k (2 ^ h + o + 2 ^ (e - B))), (Nat.ltb_spec (k - 2 ^ h) (o + 2 ^ (e - B))); simpl; auto; lia. }
        constructor; auto.
        -- intros k Hk. rewrite Hinr in Hk. rewrite (lv_node h v l r k Hwf Hv0).
           destruct (Nat.ltb_spec k (2 ^ h)); [discriminate|]. apply (m_free _ _ _ _ _ P). exact Hk.
        -- intros k. rewrite Hinr, (lv_node h v l r k Hwf Hv0).
           destruct (Nat.eq_dec (Nat.max (val l) (val r')) 0) as [E0|E0].
           ++ assert (val l = 0 /\ val r' = 0) as [E1 E2] by lia.
              unfold lv at 1. simpl leaves. rewrite E0. simpl. rewrite nth_repeat.
              destruct (Nat.ltb_spec k (2 ^ h + (2 ^ h + 0))) as [Hk|Hk].
              ** destruct (Nat.ltb_spec k (2 ^ h)).
                 --- rewrite (lv_val0 h l k Hwl E1) by auto. reflexivity.
                 --- pose proof (m_lv _ _ _ _ _ P (k - 2 ^ h)) as Hm.
                     rewrite (lv_val0 h r' (k - 2 ^ h) (m_wf _ _ _ _ _ P) E2) in Hm by lia.
                     destruct (inr o (2 ^ (e - B)) (k - 2 ^ h)); auto.
              ** destruct (Nat.ltb_spec k (2 ^ h)); [lia|].
                 assert (inr o (2 ^ (e - B)) (k - 2 ^ h) = false) as ->.
                 { unfold inr. destruct (Nat.leb o (k - 2 ^ h)); simpl; auto.
                   destruct (Nat.ltb_spec (k - 2 ^ h) (o + 2 ^ (e - B))); auto. lia. }
                 unfold lv. rewrite nth_overflow; auto. rewrite (leaves_length h r Hwr). lia.
           ++ rewrite (lv_node h _ l r' k Hwf' E0).
              destruct (Nat.ltb_spec k (2 ^ h)); [reflexivity|apply (m_lv _ _ _ _ _ P)].
        -- simpl. lia.
        -- apply Nat.divide_add_r; [apply pow_divide; auto|apply (m_al _ _ _ _ _ P)].
Qed.

(* clean failure: a request larger than the largest free block changes nothing *)
Lemma bm_fail h t e : wf h t -> val t < e -> bm h t e = None.
Proof.
  destruct h, t; simpl; try tauto; intros _ H.
  - destruct (Nat.leb_spec e v); [lia|reflexivity].
  - destruct (Nat.ltb_spec v e); [reflexivity|lia].
Qed.
End Buddy.
