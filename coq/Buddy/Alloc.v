(* Executable model of the rollbackable allocator: src/mm/buddy/buddy.c (one arena, on the tree datatype of
   BuddyTree.v), src/mm/buddy/ckpt.c (full checkpoints) and src/mm/buddy/multi.c (arenas, logs, restore, fossil).
   Memory content is modelled per 2^B-byte granule (one tag per granule).  Executable definitions only. *)
From Coq Require Import List Arith NArith Bool.
From RS Require Import Buddy.BuddyTree.
Import ListNotations.

Section Arena.
Variable B : nat.      (* block exponent: 6 *)
Variable H : nat.      (* tree height: total exponent - block exponent = 10 *)

Notation bt := BuddyTree.bt.
Notation val := BuddyTree.val.
Notation mk_full := (BuddyTree.mk_full B).

(* parent value after a free below it: both children entirely free -> one level more, else the max *)
Definition comb (h : nat) (a b : nat) : nat := if Nat.eqb a (B + h) && Nat.eqb b (B + h) then B + S h else Nat.max a b.

(* buddy_free of the block that starts at leaf o: new tree and the exponent of the freed block.
   The C code climbs from the leaf to the LOWEST node whose value is 0. *)
Fixpoint bfree (h : nat) (t : bt) (o : nat) : option (bt * nat) :=
  match h, t with
  | 0, Lf v => if Nat.eqb v 0 then Some (Lf B, B) else None
  | S h', Nd v l r =>
      let sub :=
        if Nat.ltb o (2 ^ h') then
          match bfree h' l o with Some (l', e) => Some (Nd (comb h' (val l') (val r)) l' r, e) | None => None end
        else
          match bfree h' r (o - 2 ^ h') with Some (r', e) => Some (Nd (comb h' (val l) (val r')) l r', e) | None => None end in
      match sub with
      | Some x => Some x
      | None => if Nat.eqb v 0 then Some (Nd (B + S h') l r, B + S h') else None
      end
  | _, _ => None
  end.

(* exponent of the allocated block containing leaf o (buddy_best_effort_realloc's first loop) *)
Fixpoint block_exp (h : nat) (t : bt) (o : nat) : option nat :=
  match h, t with
  | 0, Lf v => if Nat.eqb v 0 then Some B else None
  | S h', Nd v l r =>
      let sub := if Nat.ltb o (2 ^ h') then block_exp h' l o else block_exp h' r (o - 2 ^ h') in
      match sub with Some e => Some e | None => if Nat.eqb v 0 then Some (B + S h') else None end
  | _, _ => None
  end.

(* the longest[] array of the C code: breadth-first order *)
Fixpoint level (d : nat) (t : bt) : list nat :=
  match d, t with
  | 0, _ => [val t]
  | S d', Nd _ l r => level d' l ++ level d' r
  | S _, Lf _ => []
  end.
Definition flatten (t : bt) : list nat := flat_map (fun d => level d t) (seq 0 (S H)).

(* buddy_tree_visit: the allocated blocks (leaf offset, number of leaves) from left to right; a node whose value
   is 0 is one block, an entirely free node is skipped, anything else is descended *)
Fixpoint visit (h : nat) (t : bt) (o : nat) : list (nat * nat) :=
  match h, t with
  | 0, Lf v => if Nat.eqb v 0 then [(o, 1)] else []
  | S h', Nd v l r =>
      if Nat.eqb v 0 then [(o, 2 ^ S h')]
      else if Nat.eqb v (B + S h') then []
      else visit h' l o ++ visit h' r (o + 2 ^ h')
  | _, _ => []
  end.

Record arena := mkArena { a_id : nat; a_tree : bt; a_cells : list N }.

Definition arena_init (id : nat) : arena := mkArena id (mk_full H) (repeat 0%N (2 ^ H)).

Fixpoint write_cells (cells : list N) (o len : nat) (tag : N) : list N :=
  match cells, o, len with
  | [], _, _ => []
  | c :: r, 0, 0 => c :: r
  | c :: r, 0, S k => tag :: write_cells r 0 k tag
  | c :: r, S o', _ => c :: write_cells r o' len tag
  end.

Fixpoint copy_cells (dst src : list N) (o len : nat) : list N :=
  match dst, src, o, len with
  | [], _, _, _ => []
  | d :: r, _, 0, 0 => d :: r
  | d :: r, s :: sr, 0, S k => s :: copy_cells r sr 0 k
  | d :: r, [], 0, S k => d :: r
  | d :: r, s :: sr, S o', _ => d :: copy_cells r sr o' len
  | d :: r, [], S o', _ => d :: r
  end.

(* a full checkpoint of one arena: the tree and the content of its allocated blocks *)
Record actp := mkCk { k_id : nat; k_tree : bt; k_cells : list N }.
Definition arena_take (a : arena) : actp := mkCk (a_id a) (a_tree a) (a_cells a).
Definition allocated_leaves (t : bt) : nat := fold_right (fun b acc => snd b + acc) 0 (visit H t 0).
(* restore: the tree comes back, the content of the blocks allocated in the checkpoint is copied back *)
Definition arena_restore (a : arena) (k : actp) : arena :=
  mkArena (a_id a) (k_tree k)
    (fold_left (fun cells b => copy_cells cells (k_cells k) (fst b) (snd b)) (visit H (k_tree k) 0) (a_cells a)).
End Arena.

(* ---- the multi-arena allocator of one LP ---- *)
Section Multi.
Variable B H : nat.
Variable HDR : N.        (* offsetof(struct mm_checkpoint, chkps) + size of one pointer *)
Variable AHDR : N.       (* offsetof(struct buddy_checkpoint, base_mem) *)

Record mlog := mkLog { g_ref : N; g_size : N; g_arenas : list actp }.
Record mm := mkMm { m_arenas : list arena; m_logs : list mlog; m_size : N; m_nextid : nat }.

Definition mm_init : mm := mkMm [] [] HDR 0.

Definition total_exp : nat := B + H.

(* buddy_allocation_block_compute: exponent of the smallest power of two >= max(req, 2^B) *)
Definition block_exp_of (req : N) : nat :=
  let r := (N.max req (2 ^ N.of_nat B) - 1)%N in
  N.to_nat (N.size r).

Fixpoint try_arenas (l : list arena) (e : nat) : option (list arena * nat * nat) :=
  (* arenas are tried from the LAST to the first: the list is given reversed *)
  match l with
  | [] => None
  | a :: r =>
      match BuddyTree.bm B H (a_tree a) e with
      | Some (t', o) => Some (mkArena (a_id a) t' (a_cells a) :: r, a_id a, o)
      | None => match try_arenas r e with
                | Some (r', id, o) => Some (a :: r', id, o)
                | None => None
                end
      end
  end.

Fixpoint insert_at {A} (l : list A) (i : nat) (x : A) : list A :=
  match i, l with
  | 0, _ => x :: l
  | S k, [] => [x]
  | S k, y :: r => y :: insert_at r k x
  end.

(* rs_malloc; [rank] = position at which a fresh arena is inserted (decided by its address: an input).
   Result: None = NULL returned (state unchanged except as the C code changes it), Some (arena id, leaf offset) *)
Definition rs_malloc (s : mm) (req : N) (rank : nat) : mm * option (nat * nat) :=
  if (req =? 0)%N then (s, None) else
  let e := block_exp_of req in
  if Nat.ltb total_exp e then (s, None) else
  let size' := (m_size s + 2 ^ N.of_nat e)%N in
  match try_arenas (rev (m_arenas s)) e with
  | Some (ra, id, o) => (mkMm (rev ra) (m_logs s) size' (m_nextid s), Some (id, o))
  | None =>
      let a := arena_init B H (m_nextid s) in
      match BuddyTree.bm B H (a_tree a) e with
      | Some (t', o) =>
          (mkMm (insert_at (m_arenas s) rank (mkArena (a_id a) t' (a_cells a))) (m_logs s) (size' + AHDR)%N (S (m_nextid s)),
           Some (a_id a, o))
      | None => (mkMm (insert_at (m_arenas s) rank a) (m_logs s) (size' + AHDR)%N (S (m_nextid s)), None)
      end
  end.

Fixpoint upd_arena (l : list arena) (id : nat) (f : arena -> arena) : list arena :=
  match l with
  | [] => []
  | a :: r => if Nat.eqb (a_id a) id then f a :: r else a :: upd_arena r id f
  end.
Fixpoint find_arena (l : list arena) (id : nat) : option arena :=
  match l with [] => None | a :: r => if Nat.eqb (a_id a) id then Some a else find_arena r id end.

(* rs_free of the block (arena id, leaf offset) *)
Definition rs_free (s : mm) (id o : nat) : option mm :=
  match find_arena (m_arenas s) id with
  | None => None
  | Some a =>
      match bfree B H (a_tree a) o with
      | None => None
      | Some (t', e) =>
          Some (mkMm (upd_arena (m_arenas s) id (fun a => mkArena (a_id a) t' (a_cells a))) (m_logs s)
                     (m_size s - 2 ^ N.of_nat e)%N (m_nextid s))
      end
  end.

Definition write_block (s : mm) (id o len : nat) (tag : N) : mm :=
  mkMm (upd_arena (m_arenas s) id (fun a => mkArena (a_id a) (a_tree a) (write_cells (a_cells a) o len tag)))
       (m_logs s) (m_size s) (m_nextid s).

Definition read_cell (s : mm) (id o : nat) : N :=
  match find_arena (m_arenas s) id with Some a => nth o (a_cells a) 0%N | None => 0%N end.

(* rs_realloc of (id, o) to req bytes: Some (new state, result) ; result None = NULL *)
Definition rs_realloc (s : mm) (id o : nat) (req : N) (rank : nat) : option (mm * option (nat * nat)) :=
  if (req =? 0)%N then Some (s, None) else
  match find_arena (m_arenas s) id with
  | None => None
  | Some a =>
      match block_exp B H (a_tree a) o with
      | None => None
      | Some e0 =>
          if Nat.eqb e0 (block_exp_of req) then Some (s, Some (id, o)) else
          match rs_malloc s req rank with
          | (s1, None) => Some (s1, None)
          | (s1, Some (id', o')) =>
              (* memcpy of min(req, old size) bytes: whole granules of the common prefix (the driver keeps sizes multiples of 2^B) *)
              let ncopy := N.to_nat (N.min req (2 ^ N.of_nat e0) / 2 ^ N.of_nat B) in
              let src := match find_arena (m_arenas s1) id with Some x => skipn o (a_cells x) | None => [] end in
              let s2 := mkMm (upd_arena (m_arenas s1) id' (fun x => mkArena (a_id x) (a_tree x) (copy_cells (a_cells x) (repeat 0%N o' ++ src) o' ncopy)))
                             (m_logs s1) (m_size s1) (m_nextid s1) in
              match rs_free s2 id o with Some s3 => Some (s3, Some (id', o')) | None => None end
          end
      end
  end.

(* model_allocator_checkpoint_take *)
Definition ckpt_written (s : mm) : N :=
  (HDR + fold_right (fun a acc => AHDR + N.of_nat (allocated_leaves B H (a_tree a)) * 2 ^ N.of_nat B + acc) 0 (m_arenas s))%N.

Definition checkpoint_take (s : mm) (ref : N) : mm :=
  mkMm (m_arenas s) (m_logs s ++ [mkLog ref (m_size s) (map arena_take (m_arenas s))]) (m_size s) (m_nextid s).

Fixpoint find_ck (l : list actp) (id : nat) : option actp :=
  match l with [] => None | k :: r => if Nat.eqb (k_id k) id then Some k else find_ck r id end.

(* index of the newest log with ref_i <= ref (the scan from the end of model_allocator_checkpoint_restore) *)
Fixpoint newest_le (logs : list mlog) (ref : N) (i : nat) (best : option nat) : option nat :=
  match logs with
  | [] => best
  | g :: r => newest_le r ref (S i) (if (g_ref g <=? ref)%N then Some i else best)
  end.

Definition checkpoint_restore (s : mm) (ref : N) : option (mm * N) :=
  match newest_le (m_logs s) ref 0 None with
  | None => None
  | Some i =>
      match nth_error (m_logs s) i with
      | None => None
      | Some g =>
          let restored := map (fun a => match find_ck (g_arenas g) (a_id a) with
                                        | Some k => (arena_restore B H a k, 0%N)
                                        | None => (mkArena (a_id a) (BuddyTree.mk_full B H) (a_cells a), AHDR)
                                        end) (m_arenas s) in
          Some (mkMm (map fst restored) (firstn (S i) (m_logs s))
                     (g_size g + fold_right (fun x acc => snd x + acc) 0 restored)%N (m_nextid s), g_ref g)
      end
  end.

(* model_allocator_fossil_lp_collect *)
Definition fossil_collect (s : mm) (tgt : N) : option (mm * N) :=
  match newest_le (m_logs s) tgt 0 None with
  | None => None
  | Some i =>
      match nth_error (m_logs s) i with
      | None => None
      | Some g =>
          let base := g_ref g in
          Some (mkMm (m_arenas s) (map (fun x => mkLog (g_ref x - base) (g_size x) (g_arenas x)) (skipn i (m_logs s)))
                     (m_size s) (m_nextid s), base)
      end
  end.
End Multi.
