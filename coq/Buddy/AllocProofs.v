(* C12 / C05 / C13: properties of the executable allocator model. *)
From Coq Require Import List Arith NArith Bool Lia.
From RS Require Import Buddy.BuddyTree Buddy.Alloc.
Import ListNotations.

Section Arena.
Variable B : nat.
Hypothesis Bpos : 0 < B.
Notation bt := BuddyTree.bt.
Notation val := BuddyTree.val.
Notation mk_full := (BuddyTree.mk_full B).
Notation wf := (BuddyTree.wf B).
Notation bm := (BuddyTree.bm B).
Notation bfree := (Alloc.bfree B).
Notation comb := (Alloc.comb B).

Lemma val_full h : val (mk_full h) = B + h.
Proof. destruct h; simpl; lia. Qed.

(* nothing below an entirely free tree looks allocated *)
Lemma bfree_full h : forall o, bfree h (mk_full h) o = None.
Proof.
  induction h as [|h IH]; intros o; cbn -[Nat.ltb Nat.pow Nat.eqb].
  - destruct (Nat.eqb_spec B 0); [lia|reflexivity].
  - rewrite !IH. destruct (Nat.ltb o (2 ^ h)); destruct (Nat.eqb_spec (B + S h) 0); try lia; reflexivity.
Qed.

Lemma comb_restore h l r v : wf (S h) (Nd v l r) -> v <> 0 -> comb h (val l) (val r) = v.
Proof.
  intros Hwf Hv. unfold Alloc.comb. cbn in Hwf. destruct Hwf as [E|[[-> _]|(Hl & Hr & -> & Hnf)]]; [|lia|].
  - injection E as -> -> ->. rewrite val_full, !Nat.eqb_refl. reflexivity.
  - destruct (Nat.eqb_spec (val l) (B + h)) as [El|El]; cbn [andb]; [|reflexivity].
    destruct (Nat.eqb_spec (val r) (B + h)) as [Er|Er]; [|reflexivity].
    exfalso. apply Hnf. split; apply (BuddyTree.val_top_full B Bpos); assumption.
Qed.

(* free undoes malloc exactly: the tree before the allocation comes back *)
Theorem bfree_bm_inverse : forall h t e t' o, wf h t -> B <= e -> bm h t e = Some (t', o) -> bfree h t' o = Some (t, e).
Proof.
  induction h as [|h IH]; intros [v|v l r] e t' o Hwf HB Hbm; cbn in Hwf; try tauto; cbn -[Nat.ltb Nat.leb Nat.pow Nat.eqb] in Hbm.
  - destruct (Nat.leb_spec e v); [|discriminate]. injection Hbm as <- <-. cbn -[Nat.ltb Nat.leb Nat.pow Nat.eqb].
    assert (v = B /\ e = B) as [-> ->] by (destruct Hwf; lia). reflexivity.
  - destruct (Nat.ltb_spec v e); [discriminate|].
    pose proof (BuddyTree.val_range B Bpos (S h) (Nd v l r) Hwf) as Hr. cbn in Hr.
    assert (Hv0 : v <> 0) by lia.
    destruct (Nat.eqb_spec e (B + S h)) as [->|Hne].
    + injection Hbm as <- <-.
      assert (Et : Nd v l r = mk_full (S h)) by (apply (BuddyTree.val_top_full B Bpos); [exact Hwf|cbn; lia]).
      injection Et as -> -> ->. cbn -[Nat.ltb Nat.pow Nat.eqb]. rewrite !bfree_full.
      destruct (Nat.ltb 0 (2 ^ h)); reflexivity.
    + assert (Hsub : wf h l /\ wf h r).
      { cbn in Hwf. destruct Hwf as [E|[[-> _]|(Hl & Hr' & _)]]; [|lia|auto].
        injection E as -> -> ->. split; apply (BuddyTree.wf_full B). }
      destruct Hsub as [Hwl Hwr].
      destruct (Nat.leb_spec e (val l)) as [Hel|Hel].
      * destruct (bm h l e) as [[l' o1]|] eqn:Eb; [|discriminate]. injection Hbm as <- <-.
        destruct (BuddyTree.bm_spec B Bpos h l e Hwl HB Hel) as (l2 & o2 & Eb2 & P). rewrite Eb in Eb2. injection Eb2 as <- <-.
        pose proof (BuddyTree.m_in B h l l' e o1 P) as Hin.
        assert (Hlt : o1 < 2 ^ h) by (pose proof (BuddyTree.pow_pos B Bpos (e - B)); lia).
        cbn -[Nat.ltb Nat.pow Nat.eqb]. destruct (Nat.ltb_spec o1 (2 ^ h)); [|lia].
        rewrite (IH l e l' o1 Hwl HB Eb). rewrite (comb_restore h l r v Hwf Hv0). reflexivity.
      * destruct (bm h r e) as [[r' o1]|] eqn:Eb; [|discriminate]. injection Hbm as <- <-.
        cbn -[Nat.ltb Nat.pow Nat.eqb]. destruct (Nat.ltb_spec (2 ^ h + o1) (2 ^ h)); [lia|].
        replace (2 ^ h + o1 - 2 ^ h) with o1 by lia.
        rewrite (IH r e r' o1 Hwr HB Eb). rewrite (comb_restore h l r v Hwf Hv0). reflexivity.
Qed.
End Arena.

(* ---- memory content: writing one block leaves every other granule alone ---- *)
Lemma write_cells_length cells : forall o len tag, length (write_cells cells o len tag) = length cells.
Proof. induction cells as [|c r IH]; intros [|o] [|len] tag; cbn; auto. Qed.

Lemma write_cells_nth cells : forall o len tag k,
  nth k (write_cells cells o len tag) 0%N =
  if (Nat.leb o k && Nat.ltb k (o + len) && Nat.ltb k (length cells))%bool then tag else nth k cells 0%N.
Proof.
  induction cells as [|c r IH]; intros o len tag k.
  - cbn. destruct k; rewrite andb_false_r; destruct o, len; reflexivity.
  - destruct o as [|o].
    + destruct len as [|len].
      * cbn. destruct k; cbn; [reflexivity|]. destruct (Nat.ltb_spec (S k) 0); [lia|]. reflexivity.
      * cbn [write_cells]. destruct k as [|k]; [reflexivity|]. cbn [nth]. rewrite IH. cbn [length].
        destruct (Nat.ltb_spec k (0 + len)), (Nat.ltb_spec (S k) (0 + S len)); try lia;
        destruct (Nat.ltb_spec k (length r)), (Nat.ltb_spec (S k) (S (length r))); try lia; reflexivity.
    + cbn [write_cells]. destruct k as [|k]; [reflexivity|]. cbn [nth]. rewrite IH. cbn [length].
      destruct (Nat.leb_spec o k), (Nat.leb_spec (S o) (S k)); try lia;
      destruct (Nat.ltb_spec k (o + len)), (Nat.ltb_spec (S k) (S o + len)); try lia;
      destruct (Nat.ltb_spec k (length r)), (Nat.ltb_spec (S k) (S (length r))); try lia; reflexivity.
Qed.

Theorem write_other_blocks_untouched cells o len tag k : ~ (o <= k < o + len) ->
  nth k (write_cells cells o len tag) 0%N = nth k cells 0%N.
Proof.
  intros H. rewrite write_cells_nth.
  destruct (Nat.leb_spec o k); [|reflexivity]. destruct (Nat.ltb_spec k (o + len)); [lia|reflexivity].
Qed.

(* ---- checkpoint / restore of one arena ---- *)
Lemma copy_cells_length dst : forall src o len, length (copy_cells dst src o len) = length dst.
Proof. induction dst as [|d r IH]; intros [|s sr] [|o] [|len]; cbn; auto. Qed.

Lemma copy_cells_nth dst : forall src o len k, length src = length dst ->
  nth k (copy_cells dst src o len) 0%N = if (Nat.leb o k && Nat.ltb k (o + len))%bool then nth k src 0%N else nth k dst 0%N.
Proof.
  induction dst as [|d r IH]; intros src o len k Hl.
  - destruct src; [|discriminate]. cbn. destruct k; destruct (Nat.leb o _ && _)%bool; reflexivity.
  - destruct src as [|s sr]; [discriminate|]. injection Hl as Hl.
    destruct o as [|o].
    + destruct len as [|len].
      * cbn. destruct k; [reflexivity|]. destruct (Nat.ltb_spec (S k) 0); [lia|reflexivity].
      * cbn [copy_cells]. destruct k as [|k]; [reflexivity|]. cbn [nth]. rewrite (IH sr 0 len k Hl).
        destruct (Nat.ltb_spec k (0 + len)), (Nat.ltb_spec (S k) (0 + S len)); try lia; reflexivity.
    + cbn [copy_cells]. destruct k as [|k]; [reflexivity|]. cbn [nth]. rewrite (IH sr o len k Hl).
      destruct (Nat.leb_spec o k), (Nat.leb_spec (S o) (S k)); try lia;
      destruct (Nat.ltb_spec k (o + len)), (Nat.ltb_spec (S k) (S o + len)); try lia; reflexivity.
Qed.

Lemma fold_copy_nth (blocks : list (nat * nat)) src : forall dst k, length src = length dst ->
  nth k (fold_left (fun cells b => copy_cells cells src (fst b) (snd b)) blocks dst) 0%N =
  if existsb (fun b => Nat.leb (fst b) k && Nat.ltb k (fst b + snd b))%bool blocks then nth k src 0%N else nth k dst 0%N.
Proof.
  induction blocks as [|b bs IH]; intros dst k Hl; cbn [fold_left existsb]; [reflexivity|].
  rewrite IH by (rewrite copy_cells_length; exact Hl). rewrite copy_cells_nth by exact Hl.
  destruct (Nat.leb (fst b) k && Nat.ltb k (fst b + snd b))%bool; cbn [orb].
  - destruct (existsb _ bs); reflexivity.
  - reflexivity.
Qed.

(* C05 at the arena level: whatever happened to the arena since the checkpoint (allocations, frees, writes),
   restoring gives back the checkpointed tree and the checkpointed content of every block allocated in it *)
Theorem arena_restore_take B H (a a' : arena) : length (a_cells a') = length (a_cells a) ->
  let r := arena_restore B H a' (arena_take a) in
  a_tree r = a_tree a /\
  forall o len k, In (o, len) (visit B H (a_tree a) 0) -> o <= k < o + len -> nth k (a_cells r) 0%N = nth k (a_cells a) 0%N.
Proof.
  intros Hl. cbn. split; [reflexivity|]. intros o len k Hin Hk.
  rewrite fold_copy_nth by (symmetry; exact Hl).
  assert (E : existsb (fun b => Nat.leb (fst b) k && Nat.ltb k (fst b + snd b))%bool (visit B H (a_tree a) 0) = true).
  { apply existsb_exists. exists (o, len). split; [exact Hin|]. cbn [fst snd].
    destruct (Nat.leb_spec o k); [|lia]. destruct (Nat.ltb_spec k (o + len)); [reflexivity|lia]. }
  rewrite E. reflexivity.
Qed.

(* ---- logs: which checkpoint a restore / a fossil collection picks ---- *)
Lemma newest_le_spec logs ref : forall i best,
  match newest_le logs ref i best with
  | None => best = None /\ forall g, In g logs -> (ref < g_ref g)%N
  | Some j =>
      (Some j = best /\ forall g, In g logs -> (ref < g_ref g)%N) \/
      (i <= j < i + length logs /\ exists g, nth_error logs (j - i) = Some g /\ (g_ref g <= ref)%N /\
         forall k g', j - i < k -> nth_error logs k = Some g' -> (ref < g_ref g')%N)
  end.
Proof.
  induction logs as [|g logs IH]; intros i best; cbn.
  - destruct best; [left|]; split; auto; intros g [].
  - specialize (IH (S i) (if (g_ref g <=? ref)%N then Some i else best)).
    destruct (newest_le logs ref (S i) (if (g_ref g <=? ref)%N then Some i else best)) as [j|].
    + destruct IH as [[Hb Hall]|(Hr & g0 & Hn & Hle & Hlater)].
      * destruct (N.leb_spec (g_ref g) ref) as [Hg|Hg].
        -- injection Hb as ->. right. split; [lia|]. exists g. rewrite Nat.sub_diag. split; [reflexivity|]. split; [exact Hg|].
           intros k g' Hk Hn. destruct k; [lia|]. cbn in Hn. apply Hall. eapply nth_error_In; eassumption.
        -- left. split; [exact Hb|]. intros g' [<-|Hin]; [exact Hg|auto].
      * right. split; [lia|]. exists g0. replace (j - i) with (S (j - S i)) by lia. split; [exact Hn|]. split; [exact Hle|].
        intros k g' Hk Hn'. destruct k; [lia|]. cbn in Hn'. apply (Hlater k g'); [lia|exact Hn'].
    + destruct IH as [Hb Hall]. destruct (N.leb_spec (g_ref g) ref); [discriminate|].
      split; [exact Hb|]. intros g' [<-|Hin]; auto.
Qed.

(* the reference returned by a restore is that of the newest checkpoint not after the requested index, every later
   checkpoint is dropped, every earlier one kept *)
Theorem restore_picks_newest B H AHDR s ref s' r : checkpoint_restore B H AHDR s ref = Some (s', r) ->
  exists i g, nth_error (m_logs s) i = Some g /\ r = g_ref g /\ (g_ref g <= ref)%N /\
    (forall k g', i < k -> nth_error (m_logs s) k = Some g' -> (ref < g_ref g')%N) /\
    m_logs s' = firstn (S i) (m_logs s).
Proof.
  unfold checkpoint_restore. pose proof (newest_le_spec (m_logs s) ref 0 None) as Hs.
  destruct (newest_le (m_logs s) ref 0 None) as [i|]; [|discriminate].
  destruct Hs as [[Hb _]|(_ & g & Hn & Hle & Hlater)]; [discriminate|]. rewrite Nat.sub_0_r in *.
  rewrite Hn. intros E. injection E as <- <-. exists i, g. cbn. repeat split; auto;
    try (intros k g' Hk; apply Hlater; lia).
Qed.

(* C13: fossil collection keeps the newest checkpoint not after the target and everything after it, re-based so
   that the kept log starts at reference 0; nothing later than the target is discarded *)
Theorem fossil_keeps_base s tgt s' base : fossil_collect s tgt = Some (s', base) ->
  exists i g, nth_error (m_logs s) i = Some g /\ base = g_ref g /\ (g_ref g <= tgt)%N /\
    m_logs s' = map (fun x => mkLog (g_ref x - base) (g_size x) (g_arenas x)) (skipn i (m_logs s)) /\
    (exists g0 rest, m_logs s' = g0 :: rest /\ g_ref g0 = 0%N) /\
    m_arenas s' = m_arenas s /\ m_size s' = m_size s.
Proof.
  unfold fossil_collect. pose proof (newest_le_spec (m_logs s) tgt 0 None) as Hs.
  destruct (newest_le (m_logs s) tgt 0 None) as [i|]; [|discriminate].
  destruct Hs as [[Hb _]|(_ & g & Hn & Hle & Hlater)]; [discriminate|]. rewrite Nat.sub_0_r in *.
  rewrite Hn. intros E. injection E as <- <-. exists i, g. cbn. repeat split; auto.
  assert (Hsk : exists rest, skipn i (m_logs s) = g :: rest).
  { clear - Hn. revert i Hn. generalize (m_logs s). induction l as [|x l IH]; intros [|i] Hn; cbn in *; try discriminate.
    - injection Hn as ->. eauto.
    - apply IH. exact Hn. }
  destruct Hsk as [rest ->]. cbn. eexists _, _. split; [reflexivity|]. cbn. apply N.sub_diag.
Qed.

(* a rollback to any index at or above the collected one still finds a checkpoint afterwards (the log is never empty
   and starts at 0), and kept checkpoints keep their content: only the references are shifted *)
Theorem restore_after_fossil B H AHDR s tgt s' base ref :
  fossil_collect s tgt = Some (s', base) -> exists s'' r, checkpoint_restore B H AHDR s' ref = Some (s'', r).
Proof.
  intros F. destruct (fossil_keeps_base s tgt s' base F) as (i & g & _ & _ & _ & _ & (g0 & rest & El & E0) & _).
  unfold checkpoint_restore. pose proof (newest_le_spec (m_logs s') ref 0 None) as Hs.
  destruct (newest_le (m_logs s') ref 0 None) as [j|].
  - destruct Hs as [[Hb _]|(_ & g1 & Hn & _)]; [discriminate|]. rewrite Nat.sub_0_r in Hn. rewrite Hn. eauto.
  - destruct Hs as [_ Hall]. exfalso. specialize (Hall g0). rewrite El in Hall. specialize (Hall (or_introl eq_refl)). lia.
Qed.
