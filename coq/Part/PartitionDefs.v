(* Model of the LP partitioning arithmetic of src/lp/lp.h and src/lp/lp.c (C14).
   Unbounded N; the 64-bit code computes the same values whenever l * cnt < 2^64
   (stated as a guard in the correspondence driver). Executable definitions only. *)
From Coq Require Import NArith Bool.
Local Open Scope N_scope.

(* lid_to_nid (start = 0, cnt = n_nodes, tot = lps) and
   lid_to_rid (start = lid_node_first, cnt = n_threads, tot = n_lps_node) *)
Definition route (start cnt tot l : N) : N := (l - start) * cnt / tot.

(* the two loops of the partition_start macro, on explicit fuel;
   None = fuel exhausted (excluded by the theorems) *)
Fixpoint walk_down (fuel : nat) (start cnt tot id g : N) : option N :=
  if (start <? g) && (id <=? route start cnt tot g) then
    match fuel with O => None | S k => walk_down k start cnt tot id (g - 1) end
  else Some g.

Fixpoint walk_up (fuel : nat) (start cnt tot id g : N) : option N :=
  if route start cnt tot g <? id then
    match fuel with O => None | S k => walk_up k start cnt tot id (g + 1) end
  else Some g.

Definition loop_fuel : nat := 3.

Definition partition_start (id cnt start tot : N) : option N :=
  match walk_down loop_fuel start cnt tot id (id * tot / cnt + start) with
  | None => None
  | Some g => walk_up loop_fuel start cnt tot id g
  end.

(* closed form: least index whose route is >= id *)
Definition first (cnt tot id : N) : N := (id * tot + cnt - 1) / cnt.

(* lp_global_init on node [nid]: (lid_node_first, n_lps_node, clamped n_threads) *)
Definition node_init (lps nodes threads nid : N) : option (N * N * N) :=
  match partition_start nid nodes 0 lps, partition_start (nid + 1) nodes 0 lps with
  | Some f, Some e =>
      let n := e - f in
      Some (f, n, if n <? threads then n else threads)
  | _, _ => None
  end.

(* lp_init on thread [rid] of a node: (lid_thread_first, lid_thread_end) *)
Definition thread_init (node_first n_lps_node threads rid : N) : option (N * N) :=
  match partition_start rid threads node_first n_lps_node,
        partition_start (rid + 1) threads node_first n_lps_node with
  | Some f, Some e => Some (f, e)
  | _, _ => None
  end.

(* routing of an event to LP l, as ScheduleNewEvent (lid_to_nid) followed on the
   destination node by msg_queue_insert (lid_to_rid) *)
Definition owner (lps nodes threads l : N) : option (N * N) :=
  let nd := route 0 nodes lps l in
  match node_init lps nodes threads nd with
  | Some (f, n, t) => Some (nd, route f t n l)
  | None => None
  end.
