From Coq Require Import NArith Bool Lia.
From RS Require Import Part.PartitionDefs.
Local Open Scope N_scope.

Section Part.
Variables cnt tot : N.
Hypothesis cnt_pos : 0 < cnt.
Hypothesis tot_pos : 0 < tot.
Set Default Proof Using "cnt_pos tot_pos".

Definition f (l : N) : N := l * cnt / tot.

Lemma f_mono a b : a <= b -> f a <= f b.
Proof. intros H. unfold f. apply N.div_le_mono; [lia|]. apply N.mul_le_mono_r. exact H. Qed.

Lemma f_ge_iff l id : id <= f l <-> id * tot <= l * cnt.
Proof.
  unfold f. split; intros H.
  - pose proof (N.mul_div_le (l * cnt) tot ltac:(lia)). nia.
  - apply N.div_le_lower_bound; [lia|]. lia.
Qed.

Notation first := (first cnt tot).

Lemma first_spec id : id <= f (first id) /\ forall g, g < first id -> f g < id.
Proof.
  unfold PartitionDefs.first. split.
  - apply f_ge_iff.
    pose proof (N.div_mod (id * tot + cnt - 1) cnt ltac:(lia)) as Hd.
    pose proof (N.mod_upper_bound (id * tot + cnt - 1) cnt ltac:(lia)) as Hm. nia.
  - intros g Hg. apply N.lt_nge. intro Hc. apply f_ge_iff in Hc.
    assert (Hlt : (id * tot + cnt - 1) / cnt < g + 1); [|lia].
    apply N.div_lt_upper_bound; [lia|]. nia.
Qed.

Lemma guess_close id : id * tot / cnt <= first id <= id * tot / cnt + 1.
Proof.
  unfold PartitionDefs.first.
  pose proof (N.div_mod (id * tot) cnt ltac:(lia)) as Hd.
  pose proof (N.mod_upper_bound (id * tot) cnt ltac:(lia)) as Hm.
  set (q := id * tot / cnt) in *. set (r := (id * tot) mod cnt) in *.
  split.
  - apply N.div_le_lower_bound; [lia|]. nia.
  - assert ((id * tot + cnt - 1) / cnt < q + 2); [|lia]. apply N.div_lt_upper_bound; [lia|]. nia.
Qed.

Variable start : N.

Lemma route_f g : route start cnt tot (start + g) = f g.
Proof. unfold route, f. replace (start + g - start) with g by lia. reflexivity. Qed.

Lemma walk_up_spec fuel : forall g id, g <= first id -> first id - g <= N.of_nat fuel ->
  walk_up fuel start cnt tot id (start + g) = Some (start + first id).
Proof.
  induction fuel as [|k IH]; intros g id Hg Hf; cbn [walk_up]; rewrite route_f.
  - assert (g = first id) by lia. subst g.
    destruct (first_spec id) as [H1 _]. destruct (N.ltb_spec (f (first id)) id); [lia|reflexivity].
  - destruct (N.ltb_spec (f g) id) as [H|H].
    + replace (start + g + 1) with (start + (g + 1)) by lia. apply IH; [|lia].
      destruct (N.eq_dec g (first id)) as [->|]; [|lia].
      destruct (first_spec id) as [H1 _]. lia.
    + destruct (N.eq_dec g (first id)) as [->|Hne]; [reflexivity|].
      destruct (first_spec id) as [_ H2]. specialize (H2 g ltac:(lia)). lia.
Qed.

Lemma walk_down_spec fuel : forall g id, first id <= g + 1 -> g + 1 <= first id + N.of_nat fuel ->
  exists g', walk_down fuel start cnt tot id (start + g) = Some (start + g') /\
             g' <= first id /\ first id <= g' + 1.
Proof.
  induction fuel as [|k IH]; intros g id H1 H2; cbn [walk_down]; rewrite route_f.
  - assert (Hlt : g < first id) by lia.
    destruct (first_spec id) as [_ Hs]. specialize (Hs g Hlt).
    destruct (N.leb_spec id (f g)); [lia|]. rewrite andb_false_r.
    exists g. split; [reflexivity|]. lia.
  - destruct (N.ltb_spec start (start + g)) as [Hpos|Hpos]; cbn [andb].
    + destruct (N.leb_spec id (f g)) as [H|H].
      * assert (first id <= g).
        { destruct (first_spec id) as [_ Hs]. destruct (N.le_gt_cases (first id) g); auto.
          specialize (Hs g ltac:(lia)). lia. }
        replace (start + g - 1) with (start + (g - 1)) by lia.
        apply IH; lia.
      * exists g. split; [reflexivity|].
        assert (g < first id).
        { destruct (first_spec id) as [Hs _]. destruct (N.le_gt_cases (first id) g) as [Hc|]; auto.
          pose proof (f_mono _ _ Hc). lia. }
        lia.
    + exists g. split; [reflexivity|]. lia.
Qed.

Theorem partition_start_spec id :
  partition_start id cnt start tot = Some (start + first id).
Proof.
  unfold partition_start. pose proof (guess_close id) as [G1 G2].
  replace (id * tot / cnt + start) with (start + id * tot / cnt) by lia.
  destruct (walk_down_spec loop_fuel (id * tot / cnt) id) as (g' & E & D1 & D2);
    [lia | unfold loop_fuel; lia |].
  rewrite E. apply walk_up_spec; [lia | unfold loop_fuel; lia].
Qed.

Theorem routing_agrees l r : (first r <= l < first (r + 1)) <-> f l = r.
Proof.
  destruct (first_spec r) as [A1 A2]. destruct (first_spec (r + 1)) as [B1 B2]. split.
  - intros [H1 H2]. pose proof (f_mono _ _ H1). specialize (B2 l H2). lia.
  - intros <-. split.
    + destruct (N.le_gt_cases (first (f l)) l); auto. specialize (A2 l ltac:(lia)). lia.
    + destruct (N.le_gt_cases (first (f l + 1)) l) as [H|]; auto. pose proof (f_mono _ _ H). lia.
Qed.

Theorem first_0 : first 0 = 0.
Proof. unfold PartitionDefs.first. rewrite N.mul_0_l, N.add_0_l. apply N.div_small. lia. Qed.

Theorem first_cnt : first cnt = tot.
Proof.
  unfold PartitionDefs.first. replace (cnt * tot + cnt - 1) with (cnt - 1 + tot * cnt) by lia.
  rewrite N.div_add by lia. rewrite N.div_small by lia. reflexivity.
Qed.

Theorem first_mono r : first r <= first (r + 1).
Proof. unfold PartitionDefs.first. apply N.div_le_mono; [lia|]. lia. Qed.

Theorem route_lt_cnt l : l < tot -> f l < cnt.
Proof. intros H. unfold f. apply N.div_lt_upper_bound; [lia|]. nia. Qed.

Theorem no_idle_part r : cnt <= tot -> r < cnt -> first r < first (r + 1).
Proof.
  intros Hle Hr.
  destruct (first_spec r) as [A1 A2]. destruct (first_spec (r + 1)) as [B1 B2].
  assert (Hfr : f (first r) = r).
  { apply N.le_antisymm; auto.
    destruct (N.eq_dec (first r) 0) as [E|E].
    - rewrite E. unfold f. rewrite N.mul_0_l, N.div_0_l by lia. lia.
    - specialize (A2 (first r - 1) ltac:(lia)).
      assert (f (first r) <= f (first r - 1) + 1).
      { unfold f. replace (first r * cnt) with ((first r - 1) * cnt + cnt) by nia.
        assert (((first r - 1) * cnt + cnt) / tot < (first r - 1) * cnt / tot + 2); [|lia].
        apply N.div_lt_upper_bound; [lia|].
        pose proof (N.div_mod ((first r - 1) * cnt) tot ltac:(lia)).
        pose proof (N.mod_upper_bound ((first r - 1) * cnt) tot ltac:(lia)). nia. }
      lia. }
  apply routing_agrees in Hfr. lia.
Qed.

(* when there are exactly as many partitions as indexes, each gets exactly one *)
Theorem first_diag r : cnt = tot -> first r = r.
Proof.
  intros E. unfold PartitionDefs.first. rewrite E.
  replace (r * tot + tot - 1) with (tot - 1 + r * tot) by lia.
  rewrite N.div_add by lia. rewrite N.div_small by lia. reflexivity.
Qed.
End Part.
Set Default Proof Using "Type".

(* ---- the runtime's initialisation and routing functions ---- *)
Section System.
Variables lps nodes threads : N.
Hypothesis lps_pos : 0 < lps.
Hypothesis nodes_pos : 0 < nodes.
Hypothesis threads_pos : 0 < threads.
Set Default Proof Using "lps_pos nodes_pos threads_pos".

Definition nfirst (nd : N) : N := first nodes lps nd.
Definition nlps (nd : N) : N := nfirst (nd + 1) - nfirst nd.
Definition nthreads (nd : N) : N := if nlps nd <? threads then nlps nd else threads.

Lemma nthreads_pos nd : 0 < nlps nd -> 0 < nthreads nd.
Proof. intros H. unfold nthreads. destruct (N.ltb_spec (nlps nd) threads); lia. Qed.

Lemma nthreads_le nd : nthreads nd <= nlps nd.
Proof. unfold nthreads. destruct (N.ltb_spec (nlps nd) threads); lia. Qed.

Lemma node_init_spec nd :
  node_init lps nodes threads nd = Some (nfirst nd, nlps nd, nthreads nd).
Proof.
  unfold node_init.
  rewrite !(partition_start_spec nodes lps nodes_pos lps_pos 0). rewrite !N.add_0_l. reflexivity.
Qed.

Lemma thread_init_spec nd rd : 0 < nlps nd ->
  thread_init (nfirst nd) (nlps nd) (nthreads nd) rd =
  Some (nfirst nd + first (nthreads nd) (nlps nd) rd, nfirst nd + first (nthreads nd) (nlps nd) (rd + 1)).
Proof.
  intros Hn. unfold thread_init. pose proof (nthreads_pos nd Hn).
  rewrite !(partition_start_spec (nthreads nd) (nlps nd)) by assumption. reflexivity.
Qed.

Lemma nfirst_mono nd : nfirst nd <= nfirst (nd + 1).
Proof. apply first_mono; assumption. Qed.

(* node ranges: [nfirst nd, nfirst (nd+1)), from 0 to lps *)
Lemma node_cover : nfirst 0 = 0 /\ nfirst nodes = lps.
Proof. split; [apply first_0 | apply first_cnt]; assumption. Qed.

Lemma in_node_iff l nd : (nfirst nd <= l < nfirst (nd + 1)) <-> route 0 nodes lps l = nd.
Proof. unfold route. rewrite N.sub_0_r. apply (routing_agrees nodes lps nodes_pos lps_pos). Qed.

Lemma first_mono_le cnt tot a b : 0 < cnt -> a <= b -> first cnt tot a <= first cnt tot b.
Proof. intros Hc Hab. unfold first. apply N.div_le_mono; [lia|]. nia. Qed.

(* a thread range never extends beyond its node when it contains an LP routed inside *)
Lemma thread_range_in_node cnt tot r g : 0 < cnt -> 0 < tot ->
  first cnt tot r <= g < first cnt tot (r + 1) -> g < tot \/ cnt <= r.
Proof.
  intros Hc Ht [H1 H2]. destruct (N.le_gt_cases cnt r) as [|Hr]; [right; assumption|left].
  pose proof (first_mono_le cnt tot (r + 1) cnt Hc ltac:(lia)) as M.
  rewrite (first_cnt cnt tot Hc Ht) in M. lia.
Qed.

(* Every LP has exactly one owner, and it is the one routing computes. *)
Theorem owner_unique l : l < lps ->
  exists nd rd,
    owner lps nodes threads l = Some (nd, rd) /\ nd < nodes /\ rd < nthreads nd /\
    forall nd' rd', nd' < nodes -> 0 < nlps nd' -> rd' < nthreads nd' ->
      ((exists a b, thread_init (nfirst nd') (nlps nd') (nthreads nd') rd' = Some (a, b) /\ a <= l < b)
       <-> (nd' = nd /\ rd' = rd)).
Proof.
  intros Hl.
  set (nd := route 0 nodes lps l).
  assert (Hin : nfirst nd <= l < nfirst (nd + 1)) by (apply in_node_iff; reflexivity).
  assert (Hnl : 0 < nlps nd) by (unfold nlps; lia).
  pose proof (nthreads_pos nd Hnl) as Hnt.
  set (rd := route (nfirst nd) (nthreads nd) (nlps nd) l).
  exists nd, rd. split; [|split; [|split]].
  - unfold owner. fold nd. rewrite node_init_spec. reflexivity.
  - unfold nd, route. rewrite N.sub_0_r. apply route_lt_cnt; lia.
  - unfold rd, route. apply route_lt_cnt; [lia|lia|]. unfold nlps. lia.
  - intros nd' rd' Hnd' Hnl' Hrd'. rewrite thread_init_spec by assumption.
    pose proof (nthreads_pos nd' Hnl') as Hnt'.
    split.
    + intros (a & b & E & Hab). injection E as <- <-.
      assert (Hin' : first (nthreads nd') (nlps nd') rd' <= l - nfirst nd' <
                     first (nthreads nd') (nlps nd') (rd' + 1)) by lia.
      destruct (thread_range_in_node _ _ _ _ Hnt' Hnl' Hin') as [Hlt|Hge]; [|lia].
      assert (Hnode : nfirst nd' <= l < nfirst (nd' + 1)) by (unfold nlps in Hlt; lia).
      apply in_node_iff in Hnode. fold nd in Hnode. subst nd'. split; [reflexivity|].
      unfold rd, route.
      symmetry. apply (routing_agrees (nthreads nd) (nlps nd) Hnt Hnl). lia.
    + intros [-> ->]. eexists _, _. split; [reflexivity|].
      assert (R : f (nthreads nd) (nlps nd) (l - nfirst nd) = rd) by reflexivity.
      apply (routing_agrees (nthreads nd) (nlps nd) Hnt Hnl) in R. lia.
Qed.

(* contiguity inside a node: thread ranges run from the node's first LP to its last *)
Theorem thread_cover nd : 0 < nlps nd ->
  first (nthreads nd) (nlps nd) 0 = 0 /\ first (nthreads nd) (nlps nd) (nthreads nd) = nlps nd.
Proof.
  intros Hn. pose proof (nthreads_pos nd Hn).
  split; [apply first_0 | apply first_cnt]; assumption.
Qed.

(* no thread is idle: the clamp makes "LPs >= threads" true on every node that hosts an LP *)
Theorem no_idle_thread nd rd : 0 < nlps nd -> rd < nthreads nd ->
  first (nthreads nd) (nlps nd) rd < first (nthreads nd) (nlps nd) (rd + 1).
Proof.
  intros Hn Hr. pose proof (nthreads_pos nd Hn). pose proof (nthreads_le nd).
  apply no_idle_part; assumption.
Qed.

Theorem clamp_one_each nd rd : 0 < nlps nd -> nlps nd < threads ->
  nthreads nd = nlps nd /\ first (nthreads nd) (nlps nd) rd = rd.
Proof.
  intros Hn Hlt. assert (E : nthreads nd = nlps nd).
  { unfold nthreads. destruct (N.ltb_spec (nlps nd) threads); lia. }
  split; [exact E|]. apply first_diag; lia.
Qed.
End System.
Set Default Proof Using "Type".

(* non-vacuity *)
Example ex_partition : owner 10 3 4 7 = Some (2, 0) /\ node_init 10 3 4 2 = Some (7, 3, 3)
  /\ thread_init 7 3 3 0 = Some (7, 8).
Proof. vm_compute. repeat split. Qed.
