(* C16 — event order is a strict weak order with content-only tie-break.
   Only statements, each closed by [exact]; proofs live in Order/MsgOrderProofs.v. *)
From Coq Require Import List ZArith Bool.
From RS Require Import Order.MsgOrderDefs Order.MsgOrderProofs.

Theorem C16_before_irreflexive : forall a, wf_msg a -> before a a = false.
Proof. exact before_irrefl_l. Qed.

Theorem C16_before_asymmetric : forall a b, wf_msg a -> wf_msg b ->
  before a b = true -> before b a = false.
Proof. exact before_asym_l. Qed.

Theorem C16_before_transitive : forall a b c, wf_msg a -> wf_msg b -> wf_msg c ->
  before a b = true -> before b c = true -> before a c = true.
Proof. exact before_trans_l. Qed.

Theorem C16_incomparability_transitive : forall a b c, wf_msg a -> wf_msg b -> wf_msg c ->
  before a b = false -> before b a = false -> before b c = false -> before c b = false ->
  before a c = false /\ before c a = false.
Proof. exact incomparable_trans_l. Qed.

Theorem C16_incomparable_iff_same_content : forall a b, wf_msg a -> wf_msg b ->
  ((before a b = false /\ before b a = false) <-> content a = content b).
Proof. exact incomparable_iff_same_content_l. Qed.

Theorem C16_content_only : forall a a' b b',
  wf_msg a -> wf_msg a' -> wf_msg b -> wf_msg b' ->
  content a = content a' -> content b = content b' -> before a b = before a' b'.
Proof. exact before_content_only_l. Qed.

Theorem C16_content_fields : forall a b, wf_msg a -> wf_msg b ->
  (content a = content b <->
   m_t a = m_t b /\ anti_bit a = anti_bit b /\ m_type a = m_type b /\ m_plsize a = m_plsize b /\
   payload a = payload b).
Proof. exact content_eq_fields. Qed.

Theorem C16_queue_order_is_event_order : forall x y,
  q_t x = m_t (q_m x) -> q_t y = m_t (q_m y) -> q_before x y = before (q_m x) (q_m y).
Proof. exact q_before_is_before. Qed.

Print Assumptions C16_before_irreflexive.
Print Assumptions C16_before_asymmetric.
Print Assumptions C16_before_transitive.
Print Assumptions C16_incomparability_transitive.
Print Assumptions C16_incomparable_iff_same_content.
Print Assumptions C16_content_only.
Print Assumptions C16_content_fields.
Print Assumptions C16_queue_order_is_event_order.
