(* C19 — topology queries are mutually consistent and rollback-safe. *)
From Coq Require Import NArith ZArith List.
From RS Require Import Rng.RngDefs Rng.RngProofs Topo.TopoDefs Topo.TopoProofs.
Import ListNotations.
Local Open Scope N_scope.

(* GetReceiver is a Gallina function of (topology, caller's generator state, source, direction): it has no
   other input and no other output than the new generator state — "the random choice is a function of the
   calling LP's generator state only" holds of the model by construction; that the C code has no further
   input is what the correspondence run checks (repeat and concurrent queries). *)

Theorem C19_receiver_valid : forall fuel pick t s from dir r s',
  topo_wf t -> rng_wf s ->
  (t_geom t = Graph -> (N.to_nat pick < length (nth (N.to_nat from) (t_adj t) []))%nat) ->
  get_receiver fuel pick t s from dir = Some (Some r, s') ->
  r < t_regions t /\ is_neighbor t from r = true.
Proof. exact receiver_valid. Qed.

Theorem C19_count_consistent : forall t from,
  match t_geom t with
  | Hexagon | Square | Torus | Ring | Bidring =>
      count_directions t from = count_valid (fixed_receiver t from) fixed_dirs
  | Star => count_directions t from = if from =? 0 then t_regions t - 1 else 1
  | Fcmesh => count_directions t from = t_regions t - 1
  | Graph => count_directions t from = N.of_nat (length (nth (N.to_nat from) (t_adj t) []))
  end.
Proof. exact count_consistent_grids_rings. Qed.

Theorem C19_random_finds_neighbor_grid : forall fuel pick t s from,
  topo_wf t -> rng_wf s -> from < t_regions t -> is_grid (t_geom t) = true ->
  (exists d x, In d fixed_dirs /\ fixed_receiver t from d = Some x) ->
  exists r s', get_receiver fuel pick t s from D_RANDOM = Some (Some r, s').
Proof. exact random_finds_neighbor_grid. Qed.

Theorem C19_random_finds_neighbor_others : forall fuel pick t s from,
  topo_wf t -> rng_wf s -> from < t_regions t ->
  match t_geom t with
  | Ring | Bidring => exists r s', get_receiver fuel pick t s from D_RANDOM = Some (Some r, s')
  | Star => 1 < t_regions t -> exists r s', get_receiver fuel pick t s from D_RANDOM = Some (Some r, s')
  | _ => True
  end.
Proof. exact random_finds_neighbor_others. Qed.

(* the shuffle of DIRECTION_RANDOM is a permutation of the direction table and leaves the generator well formed *)
Theorem C19_shuffle_is_permutation : forall steps i l s, rng_wf s -> (i + steps < length l)%nat \/ steps = O ->
  exists l' s', shuffle steps i l s = Some (l', s') /\ Permutation.Permutation l' l /\ rng_wf s'.
Proof. exact shuffle_perm. Qed.

Print Assumptions C19_receiver_valid.
Print Assumptions C19_count_consistent.
Print Assumptions C19_random_finds_neighbor_grid.
Print Assumptions C19_random_finds_neighbor_others.
Print Assumptions C19_shuffle_is_permutation.
