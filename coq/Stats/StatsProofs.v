(* C20 (format): decode (encode f) = f, consuming exactly the encoding. *)
From Coq Require Import NArith List Bool Lia.
From RS Require Import Stats.StatsFormat.
Import ListNotations.
Local Open Scope N_scope.

Definition W : N := 18446744073709551616.

Lemma pow256_S k : 256 ^ N.of_nat (S k) = 256 * 256 ^ N.of_nat k.
Proof. rewrite Nat2N.inj_succ, N.pow_succ_r'. reflexivity. Qed.

Lemma p_le_bytes n : forall x r, x < 256 ^ N.of_nat n -> p_le n (le_bytes n x ++ r) = Some (x, r).
Proof.
  induction n as [|k IH]; intros x r Hx.
  - cbn in *. assert (x = 0) by lia. subst. reflexivity.
  - cbn [le_bytes p_le app]. rewrite pow256_S in Hx.
    rewrite IH by (apply N.div_lt_upper_bound; lia).
    f_equal. f_equal. pose proof (N.div_mod x 256 ltac:(lia)). lia.
Qed.

Lemma p_u64_le64 x r : x < W -> p_u64 (le64 x ++ r) = Some (x, r).
Proof. intros H. apply p_le_bytes. exact H. Qed.

Lemma p_take_app l : forall r, p_take (length l) (l ++ r) = Some (l, r).
Proof. induction l as [|b l IH]; intros r; cbn; [reflexivity|]. rewrite IH. reflexivity. Qed.

Lemma p_rep_concat {A} (enc : A -> list N) (p : parser A) (xs : list A) : forall r,
  (forall x r', In x xs -> p (enc x ++ r') = Some (x, r')) ->
  p_rep (length xs) p (concat (map enc xs) ++ r) = Some (xs, r).
Proof.
  induction xs as [|x xs IH]; intros r H; cbn; [reflexivity|].
  rewrite <- app_assoc. rewrite H by (left; reflexivity).
  rewrite IH by (intros; apply H; right; assumption). reflexivity.
Qed.

Definition wf_name (nm : list N) : Prop := (length nm < 256)%nat.
Definition wf_rec (metrics : N) (r : list N) : Prop := N.of_nat (length r) = metrics /\ Forall (fun x => x < W) r.
Definition wf_thread (metrics : N) (recs : list (list N)) : Prop :=
  Forall (wf_rec metrics) recs /\ 8 * metrics * N.of_nat (length recs) < W.
Definition wf_node (metrics : N) (nd : node) : Prop :=
  length (n_glob nd) = 9%nat /\ Forall (fun x => x < W) (n_glob nd) /\
  hd 0 (n_glob nd) = N.of_nat (length (n_threads nd)) /\
  Forall (fun r => fst r < W /\ snd r < W) (n_recs nd) /\ 16 * N.of_nat (length (n_recs nd)) < W /\
  Forall (wf_thread metrics) (n_threads nd).
Definition wf_file (f : sfile) : Prop :=
  0 < N.of_nat (length (f_names f)) /\ N.of_nat (length (f_names f)) < W /\ Forall wf_name (f_names f) /\
  N.of_nat (length (f_nodes f)) < W /\ Forall (wf_node (N.of_nat (length (f_names f)))) (f_nodes f).

Lemma p_name_enc nm r : wf_name nm -> p_name (enc_name nm ++ r) = Some (nm, r).
Proof. intros H. unfold p_name, enc_name. cbn [app]. rewrite Nat2N.id. apply p_take_app. Qed.

Lemma p_rec_enc metrics rcd r : wf_rec metrics rcd ->
  p_rep (N.to_nat metrics) p_u64 (enc_rec rcd ++ r) = Some (rcd, r).
Proof.
  intros [Hl Hall]. rewrite <- Hl, Nat2N.id. unfold enc_rec. apply p_rep_concat.
  intros x r' Hin. apply p_u64_le64. rewrite Forall_forall in Hall. auto.
Qed.

Lemma p_thread_enc metrics recs r : 0 < metrics -> wf_thread metrics recs ->
  p_thread metrics (enc_thread metrics recs ++ r) = Some (recs, r).
Proof.
  intros Hm [Hall Hsz]. unfold p_thread, enc_thread. rewrite <- app_assoc. rewrite p_u64_le64 by exact Hsz.
  destruct (N.eqb_spec metrics 0); [lia|].
  rewrite N.mul_comm, N.mod_mul by lia. cbn [N.eqb negb].
  rewrite N.div_mul by lia. rewrite Nat2N.id.
  apply p_rep_concat. intros x r' Hin. apply p_rec_enc. rewrite Forall_forall in Hall. auto.
Qed.

Lemma p_noderec_enc x r : fst x < W -> snd x < W -> p_noderec (enc_noderec x ++ r) = Some (x, r).
Proof.
  intros H1 H2. unfold p_noderec, enc_noderec. rewrite <- app_assoc.
  rewrite p_u64_le64 by exact H1. rewrite p_u64_le64 by exact H2. destruct x; reflexivity.
Qed.

Lemma p_node_enc metrics nd r : 0 < metrics -> wf_node metrics nd ->
  p_node metrics (enc_node metrics nd ++ r) = Some (nd, r).
Proof.
  intros Hm (Hg9 & Hg & Hhd & Hrecs & Hsz & Hth). unfold p_node, enc_node.
  rewrite <- !app_assoc.
  change 9%nat with (length (n_glob nd)) at 1 || rewrite <- Hg9.
  rewrite (p_rep_concat le64 p_u64 (n_glob nd)).
  2:{ intros x r' Hin. apply p_u64_le64. rewrite Forall_forall in Hg. auto. }
  rewrite p_u64_le64 by exact Hsz.
  rewrite N.mul_comm, N.mod_mul by lia. cbn [N.eqb negb]. rewrite N.div_mul by lia. rewrite Nat2N.id.
  rewrite (p_rep_concat enc_noderec p_noderec (n_recs nd)).
  2:{ intros x r' Hin. rewrite Forall_forall in Hrecs. destruct (Hrecs x Hin). apply p_noderec_enc; assumption. }
  rewrite Hhd, Nat2N.id.
  rewrite (p_rep_concat (enc_thread metrics) (p_thread metrics) (n_threads nd)).
  2:{ intros x r' Hin. apply p_thread_enc; [exact Hm|]. rewrite Forall_forall in Hth. auto. }
  destruct nd; reflexivity.
Qed.

Theorem decode_encode f rest : wf_file f -> decode (encode f ++ rest) = Some (f, rest).
Proof.
  intros (Hm & Hn & Hnames & Hnn & Hnodes). unfold decode, encode. cbn [app].
  rewrite <- !app_assoc.
  rewrite p_u64_le64 by exact Hn. rewrite Nat2N.id.
  rewrite (p_rep_concat enc_name p_name (f_names f)).
  2:{ intros x r' Hin. apply p_name_enc. rewrite Forall_forall in Hnames. auto. }
  rewrite p_u64_le64 by exact Hnn. rewrite Nat2N.id.
  rewrite (p_rep_concat (enc_node (N.of_nat (length (f_names f)))) (p_node (N.of_nat (length (f_names f)))) (f_nodes f)).
  2:{ intros x r' Hin. apply p_node_enc; [exact Hm|]. rewrite Forall_forall in Hnodes. auto. }
  destruct f; reflexivity.
Qed.

Corollary decode_encode_whole f : wf_file f -> decode (encode f) = Some (f, []).
Proof. intros H. rewrite <- (app_nil_r (encode f)). apply decode_encode. exact H. Qed.


(* non-vacuity: a small file round-trips *)
Definition ex_file : sfile :=
  mkFile [[112;114]; [114]] [mkNode [1;5;0;1;2;3;4;5;6] [(4607182418800017408, 77)] [[[3;0]]]].
Example ex_file_wf_roundtrip : decode (encode ex_file) = Some (ex_file, []) /\ record_counts_equal ex_file = true.
Proof. vm_compute. split; reflexivity. Qed.
