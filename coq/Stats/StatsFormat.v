(* Model of the statistics file layout written by src/log/stats.c (stats_file_final_write and, for the
   other nodes, stats_files_receive) and read by src/log/parse/rootsim_stats.py.  Little endian. *)
From Coq Require Import NArith List Bool.
Import ListNotations.
Local Open Scope N_scope.

Record node := mkNode {
  n_glob : list N;                    (* struct stats_global: 9 words; word 0 = threads_count *)
  n_recs : list (N * N);              (* struct stats_node: (gvt bits, rss) per GVT *)
  n_threads : list (list (list N))    (* per thread: per GVT one record of [metrics] words *)
}.
Record sfile := mkFile { f_names : list (list N); f_nodes : list node }.

Fixpoint le_bytes (n : nat) (x : N) : list N :=
  match n with O => [] | S k => x mod 256 :: le_bytes k (x / 256) end.
Definition le64 := le_bytes 8.

Definition enc_name (nm : list N) : list N := N.of_nat (length nm) :: nm.
Definition enc_rec (r : list N) : list N := concat (map le64 r).
Definition enc_thread (metrics : N) (recs : list (list N)) : list N :=
  le64 (8 * metrics * N.of_nat (length recs)) ++ concat (map enc_rec recs).
Definition enc_noderec (r : N * N) : list N := le64 (fst r) ++ le64 (snd r).
Definition enc_node (metrics : N) (nd : node) : list N :=
  concat (map le64 (n_glob nd)) ++ le64 (16 * N.of_nat (length (n_recs nd))) ++
  concat (map enc_noderec (n_recs nd)) ++ concat (map (enc_thread metrics) (n_threads nd)).
Definition encode (f : sfile) : list N :=
  [15; 240] ++ le64 (N.of_nat (length (f_names f))) ++ concat (map enc_name (f_names f)) ++
  le64 (N.of_nat (length (f_nodes f))) ++
  concat (map (enc_node (N.of_nat (length (f_names f)))) (f_nodes f)).

(* ---- the parser ---- *)
Definition parser (A : Type) := list N -> option (A * list N).

Fixpoint p_le (n : nat) : parser N := fun inp =>
  match n with
  | O => Some (0, inp)
  | S k => match inp with
           | [] => None
           | b :: r => match p_le k r with Some (v, r') => Some (b + 256 * v, r') | None => None end
           end
  end.
Definition p_u64 : parser N := p_le 8.

Fixpoint p_take (n : nat) : parser (list N) := fun inp =>
  match n with
  | O => Some ([], inp)
  | S k => match inp with
           | [] => None
           | b :: r => match p_take k r with Some (l, r') => Some (b :: l, r') | None => None end
           end
  end.

Fixpoint p_rep {A} (n : nat) (p : parser A) : parser (list A) := fun inp =>
  match n with
  | O => Some ([], inp)
  | S k => match p inp with
           | None => None
           | Some (x, r) => match p_rep k p r with Some (l, r') => Some (x :: l, r') | None => None end
           end
  end.

Definition p_name : parser (list N) := fun inp =>
  match inp with [] => None | l :: r => p_take (N.to_nat l) r end.

Definition p_noderec : parser (N * N) := fun inp =>
  match p_u64 inp with
  | None => None
  | Some (g, r) => match p_u64 r with Some (m, r') => Some ((g, m), r') | None => None end
  end.

Definition p_thread (metrics : N) : parser (list (list N)) := fun inp =>
  match p_u64 inp with
  | None => None
  | Some (sz, r) =>
      if metrics =? 0 then None else
      if negb (sz mod (8 * metrics) =? 0) then None else
      p_rep (N.to_nat (sz / (8 * metrics))) (p_rep (N.to_nat metrics) p_u64) r
  end.

Definition p_node (metrics : N) : parser node := fun inp =>
  match p_rep 9 p_u64 inp with
  | None => None
  | Some (glob, r) =>
    match p_u64 r with
    | None => None
    | Some (sz, r1) =>
      if negb (sz mod 16 =? 0) then None else
      match p_rep (N.to_nat (sz / 16)) p_noderec r1 with
      | None => None
      | Some (recs, r2) =>
        match p_rep (N.to_nat (hd 0 glob)) (p_thread metrics) r2 with
        | None => None
        | Some (ths, r3) => Some (mkNode glob recs ths, r3)
        end
      end
    end
  end.

Definition decode : parser sfile := fun inp =>
  match inp with
  | 15 :: 240 :: r =>
    match p_u64 r with
    | None => None
    | Some (nn, r1) =>
      match p_rep (N.to_nat nn) p_name r1 with
      | None => None
      | Some (names, r2) =>
        match p_u64 r2 with
        | None => None
        | Some (nnodes, r3) =>
          match p_rep (N.to_nat nnodes) (p_node nn) r3 with
          | None => None
          | Some (nodes, r4) => Some (mkFile names nodes, r4)
          end
        end
      end
    end
  | _ => None
  end.

(* ---- consistency oracles on a decoded file (what C20 states about the records) ---- *)
Definition record_counts_equal (f : sfile) : bool :=
  forallb (fun nd => forallb (fun th => Nat.eqb (length th) (length (n_recs nd))) (n_threads nd)) (f_nodes f).

(* cumulative undone events (metric 4: rolled back messages) never exceed forward executions (metric 0) *)
Fixpoint undone_le_forward (fwd und : N) (recs : list (list N)) : bool :=
  match recs with
  | [] => true
  | r :: rest =>
      let fwd' := fwd + nth 0 r 0 in
      let und' := und + nth 4 r 0 in
      (und' <=? fwd') && undone_le_forward fwd' und' rest
  end.
