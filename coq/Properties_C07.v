(* C07 — no premature termination.
   Model of termination.c for the LPs of one worker thread (any number of LPs), with a ghost history per LP.
   For every sequence of forward executions, rollbacks (undoing any suffix whose entries are not earlier than the
   straggler) and GVT notifications: the accounting invariant holds (the counter equals the number of LPs not
   recorded as terminated; a recorded termination time is witnessed by an event that is still in the LP's history and
   on which the predicate was true; recorded times are bounded by max_t), and a thread votes at GVT g only if g has
   reached the termination time or every LP it owns has its predicate recorded true on its initial state or on an
   event still in its history with timestamp below g — which, g being a safe bound (C04), is committed.
   A run ends (without RootsimStop) only when every thread of every node has voted (thr_to_end / nodes_to_end
   countdowns). *)
From Coq Require Import ZArith NArith List.
From RS Require Import TW.Term.
From RS Require TW.App TW.Worker TW.WorkerOnceProofs TW.WorkerOnceApp TW.WorkerTerm TW.WorkerTermProofs.
Local Open Scope Z_scope.

Theorem C07_initial_state_invariant : forall TMAX, 0 < TMAX -> forall preds, Inv TMAX (t_init TMAX preds).
Proof. exact init_inv. Qed.

Theorem C07_accounting_invariant_preserved : forall TMAX, 0 < TMAX -> forall s o,
  Inv TMAX s -> legal TMAX s o -> Inv TMAX (step TMAX s o).
Proof. exact step_inv. Qed.

Theorem C07_invariant_all_histories : forall TMAX, 0 < TMAX -> forall os s,
  Inv TMAX s -> all_legal TMAX s os -> Inv TMAX (run TMAX s os).
Proof. exact run_inv. Qed.

Theorem C07_vote_sound : forall TMAX s g tend, Inv TMAX s -> votes s g tend = true ->
  tend <= g \/
  forall lp, (lp < length (term s))%nat ->
    nth lp (term s) (-1) = TMAX \/ exists t, 0 <= t < g /\ In (t, true) (nth lp (hist s) nil).
Proof. exact vote_sound. Qed.

(* non-vacuity and regression witness of finding F6: with the old sentinel 0 ("term * msg_time") an event at time 0
   that makes the predicate true left the LP looking non-terminated; in the repaired model it is recorded *)
Example C07_time_zero_is_recorded :
  let s := step 1000 (t_init 1000 (false :: false :: nil)) (Proc 0%nat 0 true) in
  term s = 0 :: -1 :: nil /\ to_end s = 1 /\ votes s 5 1000 = false.
Proof. vm_compute. repeat split; reflexivity. Qed.

(* process.c level.  The termination hooks process.c calls -- termination_on_lp_rollback(lp, msg->dest_t) at a straggler or at the
   cancellation notice of a processed message, termination_on_msg_process(lp, msg->dest_t) after a forward execution,
   termination_on_gvt at a GVT announcement -- are computed from the executable worker model (TW/WorkerTerm.v; tied to process.c by
   comparing lps_to_end, max_t and every termination_t after every script line).  For every program with types below the reserved
   ones, every checkpoint interval and EVERY script: all these calls are legal operations of the termination model (a rollback undoes,
   in the accounting, exactly the processed entries process.c removes, and all of them are at or after the time passed), so the
   accounting invariant holds throughout, and the ghost history of the termination model ends with the timestamps of the entries
   the LP retains (what precedes was released by fossil collection).  [tw_ovf] is raised only if a timestamp reaches TMAX. *)
Theorem C07_worker_termination_invariant : forall (p : App.prog) (ck : nat) (TMAX : Z), 0 < TMAX -> WorkerOnceApp.types_okb p = true ->
  forall ops : list Worker.wop, WorkerTermProofs.TI p TMAX (fold_left (WorkerTerm.twstep p ck TMAX) ops (WorkerTerm.tw_init p TMAX)).
Proof. exact WorkerTermProofs.worker_termination_invariant. Qed.

Theorem C07_worker_component_is_the_worker_model : forall (p : App.prog) (ck : nat) (TMAX : Z) (ops : list Worker.wop),
  WorkerTerm.tw_w (fold_left (WorkerTerm.twstep p ck TMAX) ops (WorkerTerm.tw_init p TMAX)) = fold_left (Worker.wstep p ck) ops (Worker.w_init p).
Proof. exact WorkerTermProofs.tw_worker. Qed.

Theorem C07_worker_vote_sound : forall (p : App.prog) (ck : nat) (TMAX : Z), 0 < TMAX -> WorkerOnceApp.types_okb p = true ->
  forall (ops : list Worker.wop) (g tend : Z),
  let s := fold_left (WorkerTerm.twstep p ck TMAX) ops (WorkerTerm.tw_init p TMAX) in
  votes (WorkerTerm.tw_t s) g tend = true ->
  tend <= g \/
  forall l, (l < N.to_nat (App.p_lps p))%nat ->
    nth l (term (WorkerTerm.tw_t s)) (-1) = TMAX \/
    exists t, 0 <= t < g /\ In (t, true) (nth l (hist (WorkerTerm.tw_t s)) nil) /\
              (WorkerTerm.tw_ovf s = false -> exists pre, map fst (nth l (hist (WorkerTerm.tw_t s)) nil) =
                 pre ++ map WorkerTerm.ztm (WorkerTermProofs.P (Worker.x_hist (Worker.get_lp (WorkerTerm.tw_w s) l)))).
Proof. exact WorkerTermProofs.worker_vote_sound. Qed.

(* ... and every rollback the accounting sees is at or above the worker's GVT, so what a vote at g <= GVT relies on is never undone *)
Theorem C07_worker_hooks_are_at_or_above_the_gvt : forall (p : App.prog) (ck : nat), WorkerOnceApp.types_okb p = true ->
  forall w, WorkerOnceProofs.full p w -> forall o, In o (WorkerTerm.msg_term_ops p ck w) ->
  match o with Proc _ t _ => Worker.k_gvt w <= t | Rb _ t _ => Worker.k_gvt w <= t | Gvt _ _ => True end.
Proof. intros p ck _. exact (WorkerTermProofs.term_ops_at_or_above_gvt p ck). Qed.

Print Assumptions C07_initial_state_invariant.
Print Assumptions C07_accounting_invariant_preserved.
Print Assumptions C07_invariant_all_histories.
Print Assumptions C07_vote_sound.
Print Assumptions C07_worker_termination_invariant.
Print Assumptions C07_worker_component_is_the_worker_model.
Print Assumptions C07_worker_vote_sound.
Print Assumptions C07_worker_hooks_are_at_or_above_the_gvt.
