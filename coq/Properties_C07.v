(* C07 — no premature termination.
   Model of termination.c for the LPs of one worker thread (any number of LPs), with a ghost history per LP.
   For every sequence of forward executions, rollbacks (undoing any suffix whose entries are not earlier than the
   straggler) and GVT notifications: the accounting invariant holds (the counter equals the number of LPs not
   recorded as terminated; a recorded termination time is witnessed by an event that is still in the LP's history and
   on which the predicate was true; recorded times are bounded by max_t), and a thread votes at GVT g only if g has
   reached the termination time or every LP it owns has its predicate recorded true on its initial state or on an
   event still in its history with timestamp below g — which, g being a safe bound (C04), is committed.
   A run ends (without RootsimStop) only when every thread of every node has voted (thr_to_end / nodes_to_end
   countdowns). *)
From Coq Require Import ZArith List.
From RS Require Import TW.Term.
Local Open Scope Z_scope.

Theorem C07_initial_state_invariant : forall TMAX, 0 < TMAX -> forall preds, Inv TMAX (t_init TMAX preds).
Proof. exact init_inv. Qed.

Theorem C07_accounting_invariant_preserved : forall TMAX, 0 < TMAX -> forall s o,
  Inv TMAX s -> legal TMAX s o -> Inv TMAX (step TMAX s o).
Proof. exact step_inv. Qed.

Theorem C07_invariant_all_histories : forall TMAX, 0 < TMAX -> forall os s,
  Inv TMAX s -> all_legal TMAX s os -> Inv TMAX (run TMAX s os).
Proof. exact run_inv. Qed.

Theorem C07_vote_sound : forall TMAX s g tend, Inv TMAX s -> votes s g tend = true ->
  tend <= g \/
  forall lp, (lp < length (term s))%nat ->
    nth lp (term s) (-1) = TMAX \/ exists t, 0 <= t < g /\ In (t, true) (nth lp (hist s) nil).
Proof. exact vote_sound. Qed.

(* non-vacuity and regression witness of finding F6: with the old sentinel 0 ("term * msg_time") an event at time 0
   that makes the predicate true left the LP looking non-terminated; in the repaired model it is recorded *)
Example C07_time_zero_is_recorded :
  let s := step 1000 (t_init 1000 (false :: false :: nil)) (Proc 0%nat 0 true) in
  term s = 0 :: -1 :: nil /\ to_end s = 1 /\ votes s 5 1000 = false.
Proof. vm_compute. repeat split; reflexivity. Qed.

Print Assumptions C07_initial_state_invariant.
Print Assumptions C07_accounting_invariant_preserved.
Print Assumptions C07_invariant_all_histories.
Print Assumptions C07_vote_sound.
