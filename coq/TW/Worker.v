(* Executable model of ONE worker thread of the parallel runtime hosting every LP of an interpreter program:
   process_msg and its helpers (src/lp/process.c), per-LP fossil collection (src/gvt/fossil.c), the checkpoint log as far as
   process.c sees it (src/mm/buddy/multi.c: take / restore / fossil, full checkpoints), the fixed-interval checkpoint counter
   (src/mm/auto_ckpt.h) and the thread's message queue (src/datatypes/msg_queue.c over heap.h, with the comparator reading the
   live flag word).  The network is played by the script of harness/drv_lp.c (hold messages back, hand them back, announce
   legal GVT values).  An LP's memory is abstracted to its interpreter state: a checkpoint is a copy of it (what the
   allocator theorems of C05/C12 and the allocator correspondence establish).  Single node: no remote messages.
   Definitions only; proofs are in WorkerProofs.v. *)
From Coq Require Import List ZArith NArith Bool Arith FMapPositive.
From RS Require Import Order.MsgOrderDefs Heap.HeapList TW.App TW.Seq.
Import ListNotations.

Definition FLAG_ANTI : N := 1.
Definition FLAG_PROC : N := 2.
Definition LP_INIT_TYPE : N := 65534.

(* a message: the identity is what the flag word is attached to; the body never changes *)
Record wmsg := mkWm { wm_id : positive; wm_ev : event }.
Definition wm_dummy := mkWm 1 (mkEv 0 0 0 []).

Definition fmap := PositiveMap.t N.
Definition flag_of (f : fmap) (i : positive) : N := match PositiveMap.find i f with Some x => x | None => 0%N end.
Definition flag_set (f : fmap) (i : positive) (v : N) : fmap := PositiveMap.add i v f.
Definition m32 (x : N) : N := N.modulo x 4294967296.
(* atomic_fetch_add on the 32-bit flag word: returns the old value *)
Definition flag_add (f : fmap) (i : positive) (d : N) : N * fmap :=
  let o := flag_of f i in (o, flag_set f i (m32 (o + d))).
Definition flag_sub (f : fmap) (i : positive) (d : N) : N * fmap :=
  let o := flag_of f i in (o, flag_set f i (m32 (o + 4294967296 - d))).
Definition has (x b : N) : bool := negb (N.eqb (N.land x b) 0).

(* the runtime's view of a message, with its CURRENT flag word *)
Definition rt_msg (f : fmap) (m : wmsg) : msg :=
  let e := wm_ev m in
  mkMsg 0 (Z.of_N (e_dest e)) (Z.of_N (e_t e)) (Z.of_N (flag_of f (wm_id m))) 0 0 0 (Z.of_N (e_type e))
        (Z.of_nat (length (e_pl e))) (map Z.of_N (e_pl e)).
(* msg_is_before and q_elem_is_before (the cached timestamp is the message's) *)
Definition wbefore (f : fmap) (a b : wmsg) : bool := before (rt_msg f a) (rt_msg f b).

(* the same message: same identity (the C code compares pointers) and, redundantly on every reachable state, same body *)
Definition event_eq_dec : forall a b : event, {a = b} + {a <> b}.
Proof. decide equality; try apply N.eq_dec. apply (list_eq_dec N.eq_dec). Defined.
Definition wmsg_eqb (a b : wmsg) : bool :=
  Pos.eqb (wm_id a) (wm_id b) && (if event_eq_dec (wm_ev a) (wm_ev b) then true else false).

(* an entry of p_msgs: a sent-message marker or a processed message *)
Inductive entry := ESent (m : wmsg) | EProc (m : wmsg).
Definition is_proc (e : entry) : bool := match e with EProc _ => true | ESent _ => false end.
Definition entry_msg (e : entry) : wmsg := match e with EProc m => m | ESent m => m end.

Record lpx := mkLpx {
  x_hist : list entry;              (* p_msgs, oldest first; the markers of the messages an event sent precede it *)
  x_bound : Z;                      (* p.bound in ticks; -1 when the history is empty *)
  x_st : lpstate;                   (* the LP's memory *)
  x_logs : list (nat * lpstate);    (* mm_state.logs, NEWEST first: (ref_i, checkpoint) *)
  x_rem : nat;                      (* auto_ckpt.ckpt_rem *)
  x_epoch : nat                     (* fossil_epoch *)
}.
Definition lpx_dummy := mkLpx [] (-1) dummy_lp [] 0 0.

Record worker := mkWk {
  k_flags : fmap;
  k_shared : list wmsg;             (* queues[rid].list, head first *)
  k_heap : list wmsg;               (* the private heap, array order *)
  k_lps : list lpx;
  k_held : list (option wmsg);      (* the driver's held[] array *)
  k_next : positive;                (* next message identity *)
  k_epoch : nat;                    (* fossil_epoch_current *)
  k_gvt : Z;                        (* fossil_gvt_current, ticks *)
  k_lastgvt : Z;                    (* the driver's last announced GVT *)
  k_err : bool                      (* the C code would have indexed out of bounds (undefined behaviour) *)
}.

Section WithProg.
Variable p : prog.
Variable ckpt_interval : nat.       (* global_config.ckpt_interval > 0: fixed-interval checkpointing *)

(* ---------------- the message queue ---------------- *)
Definition wq_insert (w : worker) (m : wmsg) : worker :=
  mkWk (k_flags w) (m :: k_shared w) (k_heap w) (k_lps w) (k_held w) (k_next w) (k_epoch w) (k_gvt w) (k_lastgvt w) (k_err w).
Definition set_queue (w : worker) (sh hp : list wmsg) : worker :=
  mkWk (k_flags w) sh hp (k_lps w) (k_held w) (k_next w) (k_epoch w) (k_gvt w) (k_lastgvt w) (k_err w).
Definition set_flags (w : worker) (f : fmap) : worker :=
  mkWk f (k_shared w) (k_heap w) (k_lps w) (k_held w) (k_next w) (k_epoch w) (k_gvt w) (k_lastgvt w) (k_err w).
Definition set_lps (w : worker) (l : list lpx) : worker :=
  mkWk (k_flags w) (k_shared w) (k_heap w) l (k_held w) (k_next w) (k_epoch w) (k_gvt w) (k_lastgvt w) (k_err w).
Definition set_held (w : worker) (h : list (option wmsg)) : worker :=
  mkWk (k_flags w) (k_shared w) (k_heap w) (k_lps w) h (k_next w) (k_epoch w) (k_gvt w) (k_lastgvt w) (k_err w).
Definition set_err (w : worker) : worker :=
  mkWk (k_flags w) (k_shared w) (k_heap w) (k_lps w) (k_held w) (k_next w) (k_epoch w) (k_gvt w) (k_lastgvt w) true.

(* msg_queue_insert_queued: atomic exchange, then heap_insert of every element in list order *)
Definition wq_transfer (w : worker) : worker :=
  set_queue w [] (fold_left (fun h m => heap_insert wmsg wm_dummy (wbefore (k_flags w)) h m) (k_shared w) (k_heap w)).
Definition wq_extract (w : worker) : option wmsg * worker :=
  let w1 := wq_transfer w in
  match heap_extract wmsg wm_dummy (wbefore (k_flags w1)) (k_heap w1) with
  | None => (None, w1)
  | Some (m, h') => (Some m, set_queue w1 [] h')
  end.
(* msg_queue_time_peek: None = SIMTIME_MAX *)
Definition wq_peek (w : worker) : option N * worker :=
  let w1 := wq_transfer w in
  (match k_heap w1 with [] => None | m :: _ => Some (e_t (wm_ev m)) end, w1).

(* ---------------- per-LP pieces ---------------- *)
Definition get_lp (w : worker) (l : nat) : lpx := nth l (k_lps w) lpx_dummy.
Fixpoint set_nth {A} (l : list A) (i : nat) (x : A) : list A :=
  match l, i with [] , _ => [] | _ :: t, O => x :: t | h :: t, S j => h :: set_nth t j x end.
Definition put_lp (w : worker) (l : nat) (x : lpx) : worker := set_lps w (set_nth (k_lps w) l x).

(* the newest checkpoint whose reference is not after ref, and the ones before it (logs are newest first) *)
Fixpoint drop_newer (logs : list (nat * lpstate)) (ref : nat) : list (nat * lpstate) :=
  match logs with
  | [] => []
  | g :: r => if Nat.leb (fst g) ref then logs else drop_newer r ref
  end.

(* silent_execution: re-run the processed messages of hist[from, to) on st; ScheduleNewEvent does nothing *)
Definition replay (st : lpstate) (es : list entry) : lpstate :=
  fold_left (fun s e => match e with EProc m => fst (handle p (wm_ev m) s) | ESent _ => s end) es st.
Definition sub {A} (l : list A) (from to : nat) : list A := firstn (to - from) (skipn from l).

(* send_anti_messages over the entries from past_i on, in order *)
Definition undo_entry (w : worker) (e : entry) : worker :=
  match e with
  | ESent m =>
      let '(o, f) := flag_add (k_flags w) (wm_id m) FLAG_ANTI in
      let w1 := set_flags w f in
      if has o FLAG_PROC then wq_insert w1 m else w1
  | EProc m =>
      let '(o, f) := flag_sub (k_flags w) (wm_id m) FLAG_PROC in
      let w1 := set_flags w f in
      if has o FLAG_ANTI then w1 else wq_insert w1 m
  end.

(* do_rollback(lp, past_i) *)
Definition do_rollback (w : worker) (l : nat) (past_i : nat) : worker :=
  let x := get_lp w l in
  let w1 := fold_left undo_entry (skipn past_i (x_hist x)) w in
  let hist' := firstn past_i (x_hist x) in
  match drop_newer (x_logs x) past_i with
  | [] => set_err w1                                      (* the C loop would run below index 0 *)
  | (ref, snap) :: older =>
      let st' := replay snap (sub hist' ref past_i) in
      put_lp w1 l (mkLpx hist' (x_bound x) st' ((ref, snap) :: older) (x_rem x) (x_epoch x))
  end.

(* match_straggler_msg: index after the newest processed message that the straggler is not before.  The scan starts below the
   last entry and answers 0 when it reaches index 0 without testing it (as the C loop does). *)
Fixpoint match_straggler (f : fmap) (s : wmsg) (rh : list entry) (i : nat) : nat :=
  (* rh = the entries at indexes i-1, i-2, ..., 0 (newest first) *)
  match rh, i with
  | _, O => 0
  | [], _ => 0
  | e :: r, S j =>
      match e with
      | ESent _ => match_straggler f s r j
      | EProc m => if wbefore f s m then match_straggler f s r j else S j
      end
  end.
Definition straggler_index (f : fmap) (s : wmsg) (hist : list entry) : nat :=
  let cnt := length hist in
  match rev hist with
  | [] => 0
  | _ :: below => match_straggler f s below (cnt - 1)
  end.

(* match_anti_msg: the index where the group of the cancelled processed message starts *)
Fixpoint find_proc (a : wmsg) (rh : list entry) (i : nat) : option (nat * list entry) :=
  (* rh = entries at indexes i-1 ... 0; returns the index of the processed message id and the entries below it *)
  match rh, i with
  | e :: r, S j => match e with
                   | EProc m => if wmsg_eqb m a then Some (j, r) else find_proc a r j
                   | ESent _ => find_proc a r j
                   end
  | _, _ => None
  end.
Fixpoint group_start (rh : list entry) (i : nat) : nat :=
  (* rh = entries at indexes i-1 ... 0: walk down to the previous processed message *)
  match rh, i with
  | e :: r, S j => if is_proc e then S j else group_start r j
  | _, _ => 0
  end.
Definition anti_index (a : wmsg) (hist : list entry) : option nat :=
  match find_proc a (rev hist) (length hist) with
  | Some (j, below) => Some (group_start below j)
  | None => None
  end.

(* fossil_lp_collect *)
Fixpoint newest_below (gvt : Z) (rh : list entry) (i : nat) : option nat :=
  (* rh = entries at indexes i-1 ... 0: index of the newest processed message with a timestamp below gvt *)
  match rh, i with
  | e :: r, S j => match e with
                   | EProc m => if Z.ltb (Z.of_N (e_t (wm_ev m))) gvt then Some j else newest_below gvt r j
                   | ESent _ => newest_below gvt r j
                   end
  | _, _ => None
  end.
Definition fossil_lp (w : worker) (l : nat) : worker :=
  let x := get_lp w l in
  match newest_below (k_gvt w) (rev (x_hist x)) (length (x_hist x)) with
  | None => w                                                       (* nothing to release: the epoch is NOT recorded *)
  | Some past_i =>
      match drop_newer (x_logs x) (past_i + 1) with
      | [] => set_err w
      | (ref, snap) :: _ =>
          let kept := firstn (length (x_logs x) - length (drop_newer (x_logs x) (past_i + 1)) + 1) (x_logs x) in
          let logs' := map (fun g => (fst g - ref, snd g)) kept in
          put_lp w l (mkLpx (skipn ref (x_hist x)) (x_bound x) (x_st x) logs' (x_rem x) (k_epoch w))
      end
  end.

Definition fix_bound (x : lpx) : lpx :=
  match x_hist x with [] => mkLpx [] (-1) (x_st x) (x_logs x) (x_rem x) (x_epoch x) | _ => x end.

(* ScheduleNewEvent for every output of a handler, in order: new identity, flag word 0, queue insertion, marker *)
Fixpoint send_all (w : worker) (outs : list event) (acc : list entry) : worker * list entry :=
  match outs with
  | [] => (w, rev acc)
  | e :: r =>
      let m := mkWm (k_next w) e in
      let w1 := mkWk (flag_set (k_flags w) (wm_id m) 0) (m :: k_shared w) (k_heap w) (k_lps w) (k_held w) (Pos.succ (k_next w))
                     (k_epoch w) (k_gvt w) (k_lastgvt w) (k_err w) in
      send_all w1 r (ESent m :: acc)
  end.

(* forward execution of msg at LP l: dispatcher, markers, the message itself, the checkpoint counter *)
Definition forward (w : worker) (l : nat) (m : wmsg) : worker :=
  let x := get_lp w l in
  let '(st', outs) := handle p (wm_ev m) (x_st x) in
  let '(w1, marks) := send_all w outs [] in
  let hist' := x_hist x ++ marks ++ [EProc m] in
  let rem1 := S (x_rem x) in
  let take := Nat.leb ckpt_interval rem1 in
  let logs' := if take then (length hist', st') :: x_logs x else x_logs x in
  put_lp w1 l (mkLpx hist' (Z.of_N (e_t (wm_ev m))) st' logs' (if take then 0 else rem1) (x_epoch x)).

Definition last_proc (hist : list entry) : option wmsg :=
  match rev hist with EProc m :: _ => Some m | _ => None end.

(* process_msg *)
Definition process_msg (w : worker) : worker :=
  match wq_extract w with
  | (None, w1) => w1
  | (Some m, w1) =>
      let l := N.to_nat (e_dest (wm_ev m)) in
      let w2 := if Nat.eqb (x_epoch (get_lp w1 l)) (k_epoch w1) then w1
                else let w' := fossil_lp w1 l in put_lp w' l (fix_bound (get_lp w' l)) in
      let '(o, f) := flag_add (k_flags w2) (wm_id m) FLAG_PROC in
      let w3 := set_flags w2 f in
      if has o FLAG_ANTI then
        (* handle_anti_msg: only a message this LP has processed needs a rollback *)
        let w4 := if N.eqb o (FLAG_ANTI + FLAG_PROC) then
                    match anti_index m (x_hist (get_lp w3 l)) with
                    | Some past_i => do_rollback w3 l past_i
                    | None => set_err w3
                    end
                  else w3 in
        put_lp w4 l (fix_bound (get_lp w4 l))
      else
        let x := get_lp w3 l in
        let strag := match last_proc (x_hist x) with
                     | Some lastm => Z.leb (Z.of_N (e_t (wm_ev m))) (x_bound x) && wbefore (k_flags w3) m lastm
                     | None => false
                     end in
        let w4 := if strag then do_rollback w3 l (straggler_index (k_flags w3) m (x_hist x)) else w3 in
        forward w4 l m
  end.

(* ---------------- initialisation: LP_INIT on every LP, in order ---------------- *)
Definition init_lp (w : worker) (l : nat) : worker :=
  let '(st, evs) := lp_init p (N.of_nat l) in
  let im := mkWm (k_next w) (mkEv (N.of_nat l) 0 LP_INIT_TYPE []) in
  let w0 := mkWk (flag_set (k_flags w) (wm_id im) FLAG_PROC) (k_shared w) (k_heap w) (k_lps w) (k_held w) (Pos.succ (k_next w))
                 (k_epoch w) (k_gvt w) (k_lastgvt w) (k_err w) in
  let '(w1, marks) := send_all w0 evs [] in
  let hist := marks ++ [EProc im] in
  set_lps w1 (k_lps w1 ++ [mkLpx hist 0 st [(length hist, st)] 0 0]).
Definition w_init : worker :=
  fold_left init_lp (seq 0 (N.to_nat (p_lps p))) (mkWk (PositiveMap.empty N) [] [] [] [] 1%positive 0 0 0 false).

(* ---------------- the driver's script ---------------- *)
Inductive wop := OpP (n : nat) | OpH (k : nat) | OpU (i : nat) | OpA | OpG (d : N) | OpE (fuel : nat).

Fixpoint iter {A} (n : nat) (f : A -> A) (x : A) : A := match n with O => x | S k => iter k f (f x) end.

Fixpoint hold (k : nat) (w : worker) : worker :=
  match k with
  | O => w
  | S j => match wq_extract w with
           | (None, w1) => w1
           | (Some m, w1) => hold j (set_held w1 (k_held w1 ++ [Some m]))
           end
  end.
Definition unhold (i : nat) (w : worker) : worker :=
  match k_held w with
  | [] => w
  | hs => let j := Nat.modulo i (length hs) in
          match nth j hs None with
          | Some m => wq_insert (set_held w (set_nth hs j None)) m
          | None => w
          end
  end.
Definition unhold_all (w : worker) : worker :=
  set_held (fold_left (fun w' h => match h with Some m => wq_insert w' m | None => w' end) (k_held w) w) [].

Definition min_held (hs : list (option wmsg)) (m0 : option N) : option N :=
  fold_left (fun a h => match h, a with
                        | Some m, Some t => Some (N.min t (e_t (wm_ev m)))
                        | Some m, None => Some (e_t (wm_ev m))
                        | None, _ => a
                        end) hs m0.
Definition announce (d : N) (w : worker) : worker :=
  let '(pk, w1) := wq_peek w in
  match min_held (k_held w1) pk with
  | None => w1
  | Some t =>
      let g := (Z.of_N t - Z.of_N d)%Z in
      if Z.ltb g (k_lastgvt w1) || Z.leb g 0 then w1
      else mkWk (k_flags w1) (k_shared w1) (k_heap w1) (k_lps w1) (k_held w1) (k_next w1) (S (k_epoch w1)) g g (k_err w1)
  end.
Fixpoint run_out (fuel : nat) (w : worker) : worker * bool :=
  match fuel with
  | O => (w, false)
  | S f => match wq_peek w with
           | (None, w1) => (w1, true)
           | (Some _, w1) => run_out f (process_msg w1)
           end
  end.
Definition wstep (w : worker) (o : wop) : worker :=
  match o with
  | OpP n => iter n process_msg w
  | OpH k => hold k w
  | OpU i => unhold i w
  | OpA => unhold_all w
  | OpG d => announce d w
  | OpE fuel => fst (run_out fuel (unhold_all w))
  end.

(* ---------------- what the correspondence compares after every operation ---------------- *)
(* a marker is only counted: the message it points to may already have been released by its receiver *)
Definition entry_digest (f : fmap) (a : N) (e : entry) : N :=
  match e with
  | ESent _ => mix a 2
  | EProc m => mix (mix (mix (mix a 1) (e_t (wm_ev m))) (e_type (wm_ev m))) (N.land (flag_of f (wm_id m)) 3)
  end.
Definition lp_digest (f : fmap) (x : lpx) : (N * N) * (nat * N) * (nat * N) * Z :=
  ((l_acc (x_st x), l_cnt (x_st x)),
   (length (x_hist x), fold_left (entry_digest f) (x_hist x) 0%N),
   (length (x_logs x), fold_left (fun a g => mix a (N.of_nat (fst g))) (rev (x_logs x)) 0%N),
   x_bound x).
Definition wdigest (w : worker) := (map (lp_digest (k_flags w)) (k_lps w), k_err w).
End WithProg.
