(* C08 (GVT part): the c_a / c_b phase protocol never deadlocks while every thread keeps calling it, and a pass
   takes a bounded number of steps.  The shutdown race of finding F12 is exactly a state where the only enabled
   step belongs to a thread that has stopped calling the protocol (it waits at the drain barrier). *)
From Coq Require Import List Arith Lia Bool.
From RS Require Import TW.GvtCounters.
Import ListNotations.

Lemma cnt_zero_not_in p l : cnt p l = 0 -> forall i, nth_error l i <> Some p.
Proof. intros H i Hi. pose proof (cnt_pos _ _ _ Hi). lia. Qed.

Lemma exists_phase p l : 0 < cnt p l -> exists i, nth_error l i = Some p.
Proof.
  unfold cnt. induction l as [|h t IH]; cbn; [lia|].
  destruct (ph_eqb_spec p h) as [->|Hne].
  - intros _. exists 0. reflexivity.
  - intros H. destruct (IH H) as [i Hi]. exists (S i). exact Hi.
Qed.

(* no deadlock: whenever some thread is inside a pass, some thread has an enabled step *)
Theorem progress s : Inv s -> cnt I (ths s) < length (ths s) -> exists s', step s s'.
Proof.
  intros [Hb Ha Hw] Hnot. pose proof (cnt_total (ths s)) as Ht.
  destruct (Nat.eq_dec (cnt A (ths s)) 0) as [HA|HA].
  - destruct (Nat.eq_dec (cnt B (ths s)) 0) as [HB|HB].
    + destruct (Nat.eq_dec (cnt C (ths s)) 0) as [HC|HC].
      * (* only I and D: a D thread may leave (cb = 0) *)
        destruct (exists_phase D (ths s) ltac:(lia)) as [i Hi].
        eexists. apply (stepD s i I Hi); [lia|right; reflexivity].
      * (* some C, no A, no B: window {C,D} or {B,C} with B = 0: all in C/D, ca = n *)
        destruct (exists_phase C (ths s) ltac:(lia)) as [i Hi].
        eexists. apply (stepC s i Hi). lia.
    + (* some B, no A *)
      destruct (Nat.eq_dec (cb s) (length (ths s))) as [Hfull|Hnf].
      * destruct (exists_phase B (ths s) ltac:(lia)) as [i Hi]. eexists. apply (stepB s i Hi). exact Hfull.
      * (* not everybody joined: an idle thread sees cb <> 0 and starts *)
        assert (0 < cnt I (ths s)) by lia.
        destruct (exists_phase I (ths s) ltac:(lia)) as [i Hi]. eexists. apply (start s i Hi). right. lia.
  - (* some A *)
    destruct (Nat.eq_dec (ca s) 0) as [Hca|Hca].
    + destruct (exists_phase A (ths s) ltac:(lia)) as [i Hi]. eexists. apply (stepA s i Hi). exact Hca.
    + (* A together with C or D: only window {I,A,D}: a D thread may leave *)
      assert (0 < cnt D (ths s)) by lia.
      destruct (exists_phase D (ths s) ltac:(lia)) as [i Hi].
      eexists. apply (stepD s i I Hi); [lia|right; reflexivity].
Qed.

(* bounded length of a pass: every step other than leaving D moves one thread one phase forward *)
Definition rank (p : ph) : nat := match p with I => 0 | A => 1 | B => 2 | C => 3 | D => 4 end.
Definition measure (l : list ph) : nat := fold_right (fun p acc => rank p + acc) 0 l.

Lemma measure_upd l : forall i x y, nth_error l i = Some x -> measure (upd l i y) + rank x = measure l + rank y.
Proof.
  unfold measure. induction l as [|h t IH]; intros [|i] x y; cbn; try discriminate.
  - intros [= ->]. lia.
  - intros Hi. specialize (IH i x y Hi). lia.
Qed.

Lemma measure_bound l : measure l <= 4 * length l.
Proof. unfold measure. induction l as [|h t IH]; cbn; [lia|]. destruct h; cbn; lia. Qed.

Theorem step_advances s s' : step s s' ->
  measure (ths s') = S (measure (ths s)) \/ (exists i, nth_error (ths s) i = Some D /\ measure (ths s') < measure (ths s)).
Proof.
  intros S. destruct S as [s i Hi Hg | s i Hi Hg | s i Hi Hg | s i Hi Hg | s i x Hi Hg Hx]; cbn [ths].
  - left. pose proof (measure_upd _ _ _ A Hi). cbn in *. lia.
  - left. pose proof (measure_upd _ _ _ B Hi). cbn in *. lia.
  - left. pose proof (measure_upd _ _ _ C Hi). cbn in *. lia.
  - left. pose proof (measure_upd _ _ _ D Hi). cbn in *. lia.
  - right. exists i. split; [exact Hi|]. pose proof (measure_upd _ _ _ x Hi). destruct Hx as [-> | ->]; cbn in *; lia.
Qed.

(* Finding F12 as a state of the model: thread 0 has joined an opening round and waits in phase B for everybody,
   thread 1 is idle.  The invariant holds, the state is reachable, and the ONLY enabled steps are thread 1's start.
   In the implementation thread 1 may at that moment already be waiting at the barrier of gvt_msg_drain, where it no
   longer calls the protocol: the run cannot return. *)
Definition f12_state : st := {| ths := [B; I]; ca := 0; cb := 1 |}.

Lemma f12_reachable : exists s1 s2, step (init 2) s1 /\ step s1 s2 /\ s2 = f12_state.
Proof.
  exists {| ths := [A; I]; ca := 0; cb := 0 |}, f12_state. split; [|split; [|reflexivity]].
  - apply (start (init 2) 0); [reflexivity|left; reflexivity].
  - apply (stepA {| ths := [A; I]; ca := 0; cb := 0 |} 0); reflexivity.
Qed.

Theorem f12_only_the_absent_thread_can_move s' : step f12_state s' -> s' = {| ths := [B; A]; ca := 0; cb := 1 |}.
Proof.
  intros S. inversion S as [s i Hi Hg | s i Hi Hg | s i Hi Hg | s i Hi Hg | s i x Hi Hg Hx]; subst; cbn in *.
  - destruct i as [|[|i]]; cbn in Hi; try discriminate; [reflexivity|destruct i; discriminate].
  - destruct i as [|[|i]]; cbn in Hi; try discriminate. destruct i; discriminate.
  - discriminate.
  - discriminate.
  - discriminate.
Qed.
