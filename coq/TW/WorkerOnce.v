(* Exactly-once cancellation on the worker model (TW/Worker.v), for every script  —  C06 at the level of process.c.
   Part A (this file): the location predicate [Loc] over abstract lists and its one-step lemmas.
   A message identity is, at every moment, in exactly the places its flag word says:
     pending (shared list, heap, or held by the network)          flag 0 (valid) or 1 (cancelled while pending)
     processed (an EProc entry of its destination's history)      flag 2
     processed AND pending again as its own cancellation notice   flag 3
     being annihilated by the rollback its notice started         flag 5 (transient, inside process_msg)
   and a retained marker (ESent) points to a message that was never cancelled (flag 0 or 2).
   Pending, processed and marker lists carry no duplicates, so nothing is delivered or removed twice. *)
From Coq Require Import List ZArith NArith PArith Bool Arith Lia Sorted Permutation FMapPositive.
From RS Require Import Order.MsgOrderDefs Heap.HeapList TW.App TW.Seq TW.Worker TW.WorkerProofs TW.WorkerSafety.
Import ListNotations.

Definition fl (f : fmap) (m : wmsg) : N := flag_of f (wm_id m).

Lemma fl_set_same f m v : fl (flag_set f (wm_id m) v) m = v.
Proof. unfold fl, flag_of, flag_set. rewrite PositiveMap.gss. reflexivity. Qed.
Lemma fl_set_other f i v x : wm_id x <> i -> fl (flag_set f i v) x = fl f x.
Proof. intros H. unfold fl, flag_of, flag_set. rewrite PositiveMap.gso; [reflexivity|exact H]. Qed.

Record Loc (g : Z) (f : fmap) (pd pr mk : list wmsg) (nx : positive) : Prop := {
  l_nd_pd : NoDup (map wm_id pd);
  l_nd_pr : NoDup (map wm_id pr);
  l_nd_mk : NoDup (map wm_id mk);
  l_body : forall a b, In a (pd ++ pr ++ mk) -> In b (pd ++ pr ++ mk) -> wm_id a = wm_id b -> a = b;
  l_lt : forall a, In a (pd ++ pr ++ mk) -> (wm_id a < nx)%positive;
  l_pd : forall m, In m pd -> (fl f m = 3%N /\ In m pr) \/ ((fl f m = 0%N \/ fl f m = 1%N) /\ ~ In m pr);
  l_pr : forall m, In m pr -> (fl f m = 3%N /\ In m pd) \/ (fl f m = 2%N /\ ~ In m pd) \/ (fl f m = 5%N /\ ~ In m pd);
  l_mk : forall m, In m mk -> fl f m = 0%N \/ (fl f m = 2%N /\ (In m pr \/ (Z.of_N (tm m) < g)%Z))
}.

Lemma nodup_perm_ids (a b : list wmsg) : Permutation a b -> NoDup (map wm_id a) -> NoDup (map wm_id b).
Proof. intros P. apply Permutation_NoDup. apply Permutation_map. exact P. Qed.

Lemma Loc_perm g f pd pr mk nx pd' pr' mk' :
  Loc g f pd pr mk nx -> Permutation pd pd' -> Permutation pr pr' -> Permutation mk mk' -> Loc g f pd' pr' mk' nx.
Proof.
  intros [A1 A2 A3 A4 A5 A6 A7 A8] P1 P2 P3.
  assert (Hall : forall x, In x (pd' ++ pr' ++ mk') -> In x (pd ++ pr ++ mk)).
  { intros x. rewrite !in_app_iff. intros [H|[H|H]]; [left; apply (Permutation_in _ (Permutation_sym P1) H)|
      right; left; apply (Permutation_in _ (Permutation_sym P2) H)|right; right; apply (Permutation_in _ (Permutation_sym P3) H)]. }
  constructor.
  - apply (nodup_perm_ids _ _ P1 A1).
  - apply (nodup_perm_ids _ _ P2 A2).
  - apply (nodup_perm_ids _ _ P3 A3).
  - intros a b Ha Hb. apply A4; apply Hall; assumption.
  - intros a Ha. apply A5. apply Hall. exact Ha.
  - intros m Hm. apply (Permutation_in _ (Permutation_sym P1)) in Hm. destruct (A6 m Hm) as [[H1 H2]|[H1 H2]].
    + left. split; [exact H1|apply (Permutation_in _ P2 H2)].
    + right. split; [exact H1|]. intro H. apply H2. apply (Permutation_in _ (Permutation_sym P2) H).
  - intros m Hm. apply (Permutation_in _ (Permutation_sym P2)) in Hm. destruct (A7 m Hm) as [[H1 H2]|[[H1 H2]|[H1 H2]]].
    + left. split; [exact H1|apply (Permutation_in _ P1 H2)].
    + right. left. split; [exact H1|]. intro H. apply H2. apply (Permutation_in _ (Permutation_sym P1) H).
    + right. right. split; [exact H1|]. intro H. apply H2. apply (Permutation_in _ (Permutation_sym P1) H).
  - intros m Hm. apply (Permutation_in _ (Permutation_sym P3)) in Hm. destruct (A8 m Hm) as [H|[H1 [H2|H2]]].
    + left. exact H.
    + right. split; [exact H1|left; apply (Permutation_in _ P2 H2)].
    + right. split; [exact H1|right; exact H2].
Qed.

Lemma Loc_gvt g g' f pd pr mk nx : Loc g f pd pr mk nx -> (g <= g')%Z -> Loc g' f pd pr mk nx.
Proof.
  intros [A1 A2 A3 A4 A5 A6 A7 A8] Hg. constructor; try assumption.
  intros m Hm. destruct (A8 m Hm) as [H|[H1 [H2|H2]]]; [left; exact H|right; split; [exact H1|left; exact H2]|right; split; [exact H1|right; lia]].
Qed.

(* ---------- membership by identity ---------- *)
Section One.
Variables (g : Z) (f : fmap) (pd pr mk : list wmsg) (nx : positive).

Lemma nodup_cons_id (m : wmsg) l : NoDup (map wm_id (m :: l)) -> ~ In m l /\ NoDup (map wm_id l).
Proof. cbn. intros H. inversion H as [|? ? Hn Hd]; subst. split; [|exact Hd]. intro Hi. apply Hn. apply in_map. exact Hi. Qed.
Lemma nodup_cons_id' (m : wmsg) l x : NoDup (map wm_id (m :: l)) -> In x l -> wm_id x <> wm_id m.
Proof. cbn. intros H Hx E. inversion H as [|? ? Hn Hd]; subst. apply Hn. rewrite <- E. apply in_map. exact Hx. Qed.
End One.

Ltac inapp := rewrite ?in_app_iff; cbn [In]; tauto.

(* a pending valid message is taken in hand: it counts as processed from the moment its flag word says so *)
Lemma Loc_extract0 g f m pd pr mk nx : Loc g f (m :: pd) pr mk nx -> fl f m = 0%N ->
  Loc g (flag_set f (wm_id m) 2) pd (m :: pr) mk nx.
Proof.
  intros [A1 A2 A3 A4 A5 A6 A7 A8] Hf.
  destruct (nodup_cons_id m pd A1) as [Hnpd A1'].
  assert (Hnpr : ~ In m pr).
  { destruct (A6 m (or_introl eq_refl)) as [[H _]|[_ H]]; [rewrite Hf in H; discriminate|exact H]. }
  assert (Hid : forall x, In x (pd ++ pr ++ mk) -> wm_id x = wm_id m -> x = m).
  { intros x Hx E. apply A4; [revert Hx; inapp|left; reflexivity|exact E]. }
  constructor.
  - exact A1'.
  - cbn. constructor; [|exact A2]. intro H. apply in_map_iff in H. destruct H as [x [E Hx]].
    apply Hnpr. rewrite <- (Hid x ltac:(inapp) E). exact Hx.
  - exact A3.
  - intros a b Ha Hb. apply A4; [revert Ha|revert Hb]; inapp.
  - intros a Ha. apply A5. revert Ha. inapp.
  - intros x Hx. destruct (Pos.eq_dec (wm_id x) (wm_id m)) as [E|E].
    + exfalso. apply Hnpd. rewrite <- (Hid x ltac:(inapp) E). exact Hx.
    + rewrite (fl_set_other _ _ _ _ E). destruct (A6 x (or_intror Hx)) as [[H1 H2]|[H1 H2]].
      * left. split; [exact H1|right; exact H2].
      * right. split; [exact H1|]. intros [H|H]; [apply E; rewrite H; reflexivity|apply H2; exact H].
  - intros x [<-|Hx].
    + rewrite fl_set_same. right. left. split; [reflexivity|exact Hnpd].
    + destruct (Pos.eq_dec (wm_id x) (wm_id m)) as [E|E].
      * exfalso. apply Hnpr. rewrite <- (Hid x ltac:(inapp) E). exact Hx.
      * rewrite (fl_set_other _ _ _ _ E). destruct (A7 x Hx) as [[H1 [H2|H2]]|[[H1 H2]|[H1 H2]]].
        -- exfalso. apply E. rewrite H2. reflexivity.
        -- left. split; assumption.
        -- right. left. split; [exact H1|]. intro H. apply H2. right. exact H.
        -- right. right. split; [exact H1|]. intro H. apply H2. right. exact H.
  - intros x Hx. destruct (Pos.eq_dec (wm_id x) (wm_id m)) as [E|E].
    + rewrite (Hid x ltac:(inapp) E). rewrite fl_set_same. right. split; [reflexivity|left; left; reflexivity].
    + rewrite (fl_set_other _ _ _ _ E). destruct (A8 x Hx) as [H|[H1 [H2|H2]]].
      * left. exact H.
      * right. split; [exact H1|left; right; exact H2].
      * right. split; [exact H1|right; exact H2].
Qed.

(* a message cancelled while pending is dropped *)
Lemma Loc_extract1 g f m pd pr mk nx : Loc g f (m :: pd) pr mk nx -> fl f m = 1%N ->
  Loc g (flag_set f (wm_id m) 3) pd pr mk nx.
Proof.
  intros [A1 A2 A3 A4 A5 A6 A7 A8] Hf.
  destruct (nodup_cons_id m pd A1) as [Hnpd A1'].
  assert (Hnpr : ~ In m pr).
  { destruct (A6 m (or_introl eq_refl)) as [[H _]|[_ H]]; [rewrite Hf in H; discriminate|exact H]. }
  assert (Hnmk : ~ In m mk).
  { intro H. destruct (A8 m H) as [H1|[H1 _]]; rewrite Hf in H1; discriminate. }
  assert (Hid : forall x, In x (pd ++ pr ++ mk) -> wm_id x = wm_id m -> x = m).
  { intros x Hx E. apply A4; [revert Hx; inapp|left; reflexivity|exact E]. }
  assert (Hne : forall x, In x (pd ++ pr ++ mk) -> wm_id x <> wm_id m).
  { intros x Hx E. rewrite (Hid x Hx E) in Hx. revert Hx. rewrite !in_app_iff. tauto. }
  constructor; try assumption.
  - intros a b Ha Hb. apply A4; [revert Ha|revert Hb]; inapp.
  - intros a Ha. apply A5. revert Ha. inapp.
  - intros x Hx. rewrite (fl_set_other _ _ _ _ (Hne x ltac:(inapp))). destruct (A6 x (or_intror Hx)) as [H|H]; [left|right]; exact H.
  - intros x Hx. rewrite (fl_set_other _ _ _ _ (Hne x ltac:(inapp))). destruct (A7 x Hx) as [[H1 [H2|H2]]|[[H1 H2]|[H1 H2]]].
    + exfalso. apply Hnpr. rewrite H2. exact Hx.
    + left. split; assumption.
    + right. left. split; [exact H1|]. intro H. apply H2. right. exact H.
    + right. right. split; [exact H1|]. intro H. apply H2. right. exact H.
  - intros x Hx. rewrite (fl_set_other _ _ _ _ (Hne x ltac:(inapp))). exact (A8 x Hx).
Qed.

(* the cancellation notice of a processed message is taken in hand *)
Lemma Loc_extract3 g f m pd pr mk nx : Loc g f (m :: pd) pr mk nx -> fl f m = 3%N ->
  In m pr /\ Loc g (flag_set f (wm_id m) 5) pd pr mk nx.
Proof.
  intros [A1 A2 A3 A4 A5 A6 A7 A8] Hf.
  destruct (nodup_cons_id m pd A1) as [Hnpd A1'].
  assert (Hpr : In m pr).
  { destruct (A6 m (or_introl eq_refl)) as [[_ H]|[[H|H] _]]; [exact H|rewrite Hf in H; discriminate|rewrite Hf in H; discriminate]. }
  assert (Hnmk : ~ In m mk).
  { intro H. destruct (A8 m H) as [H1|[H1 _]]; rewrite Hf in H1; discriminate. }
  assert (Hid : forall x, In x (pd ++ pr ++ mk) -> wm_id x = wm_id m -> x = m).
  { intros x Hx E. apply A4; [revert Hx; inapp|left; reflexivity|exact E]. }
  split; [exact Hpr|]. constructor; try assumption.
  - intros a b Ha Hb. apply A4; [revert Ha|revert Hb]; inapp.
  - intros a Ha. apply A5. revert Ha. inapp.
  - intros x Hx. destruct (Pos.eq_dec (wm_id x) (wm_id m)) as [E|E].
    + exfalso. apply Hnpd. rewrite <- (Hid x ltac:(inapp) E). exact Hx.
    + rewrite (fl_set_other _ _ _ _ E). destruct (A6 x (or_intror Hx)) as [H|H]; [left|right]; exact H.
  - intros x Hx. destruct (Pos.eq_dec (wm_id x) (wm_id m)) as [E|E].
    + rewrite (Hid x ltac:(inapp) E). rewrite fl_set_same. right. right. split; [reflexivity|exact Hnpd].
    + rewrite (fl_set_other _ _ _ _ E). destruct (A7 x Hx) as [[H1 [H2|H2]]|[[H1 H2]|[H1 H2]]].
      * exfalso. apply E. rewrite H2. reflexivity.
      * left. split; assumption.
      * right. left. split; [exact H1|]. intro H. apply H2. right. exact H.
      * right. right. split; [exact H1|]. intro H. apply H2. right. exact H.
  - intros x Hx. destruct (Pos.eq_dec (wm_id x) (wm_id m)) as [E|E].
    + exfalso. apply Hnmk. rewrite <- (Hid x ltac:(inapp) E). exact Hx.
    + rewrite (fl_set_other _ _ _ _ E). exact (A8 x Hx).
Qed.

(* send_anti_messages, one marker: fetch-add of ANTI; the notice is queued iff the message had been processed *)
Lemma Loc_unmark g f m pd pr mk nx : Loc g f pd pr (m :: mk) nx -> (g <= Z.of_N (tm m))%Z ->
  (fl f m = 0%N /\ Loc g (flag_set f (wm_id m) 1) pd pr mk nx) \/
  (fl f m = 2%N /\ Loc g (flag_set f (wm_id m) 3) (m :: pd) pr mk nx).
Proof.
  intros [A1 A2 A3 A4 A5 A6 A7 A8] Hg.
  destruct (nodup_cons_id m mk A3) as [Hnmk A3'].
  assert (Hid : forall x, In x (pd ++ pr ++ mk) -> wm_id x = wm_id m -> x = m).
  { intros x Hx E. apply A4; [revert Hx; inapp|inapp|exact E]. }
  assert (Hsub : forall x, In x (pd ++ pr ++ mk) -> In x (pd ++ pr ++ m :: mk)) by (intros x; inapp).
  destruct (A8 m (or_introl eq_refl)) as [Hf|[Hf Hlive]].
  - left. split; [exact Hf|].
    assert (Hnpr : ~ In m pr).
    { intro H. destruct (A7 m H) as [[H1 _]|[[H1 _]|[H1 _]]]; rewrite Hf in H1; discriminate. }
    constructor; try assumption.
    + intros a b Ha Hb. apply A4; apply Hsub; assumption.
    + intros a Ha. apply A5. apply Hsub. exact Ha.
    + intros x Hx. destruct (Pos.eq_dec (wm_id x) (wm_id m)) as [E|E].
      * rewrite (Hid x ltac:(inapp) E). rewrite fl_set_same. right. split; [right; reflexivity|exact Hnpr].
      * rewrite (fl_set_other _ _ _ _ E). exact (A6 x Hx).
    + intros x Hx. destruct (Pos.eq_dec (wm_id x) (wm_id m)) as [E|E].
      * exfalso. apply Hnpr. rewrite <- (Hid x ltac:(inapp) E). exact Hx.
      * rewrite (fl_set_other _ _ _ _ E). exact (A7 x Hx).
    + intros x Hx. destruct (Pos.eq_dec (wm_id x) (wm_id m)) as [E|E].
      * exfalso. apply Hnmk. rewrite <- (Hid x ltac:(inapp) E). exact Hx.
      * rewrite (fl_set_other _ _ _ _ E). exact (A8 x (or_intror Hx)).
  - right. split; [exact Hf|].
    assert (Hpr : In m pr) by (destruct Hlive as [H|H]; [exact H|lia]).
    assert (Hnpd : ~ In m pd).
    { intro H. destruct (A6 m H) as [[H1 _]|[[H1|H1] _]]; rewrite Hf in H1; discriminate. }
    constructor; try assumption.
    + cbn. constructor; [|exact A1]. intro H. apply in_map_iff in H. destruct H as [x [E Hx]].
      apply Hnpd. rewrite <- (Hid x ltac:(inapp) E). exact Hx.
    + intros a b Ha Hb. apply A4; [revert Ha|revert Hb]; inapp.
    + intros a Ha. apply A5. revert Ha. inapp.
    + intros x [<-|Hx].
      * rewrite fl_set_same. left. split; [reflexivity|exact Hpr].
      * destruct (Pos.eq_dec (wm_id x) (wm_id m)) as [E|E].
        -- exfalso. apply Hnpd. rewrite <- (Hid x ltac:(inapp) E). exact Hx.
        -- rewrite (fl_set_other _ _ _ _ E). exact (A6 x Hx).
    + intros x Hx. destruct (Pos.eq_dec (wm_id x) (wm_id m)) as [E|E].
      * rewrite (Hid x ltac:(inapp) E). rewrite fl_set_same. left. split; [reflexivity|left; reflexivity].
      * rewrite (fl_set_other _ _ _ _ E). destruct (A7 x Hx) as [[H1 H2]|[[H1 H2]|[H1 H2]]].
        -- left. split; [exact H1|right; exact H2].
        -- right. left. split; [exact H1|]. intros [H|H]; [apply E; rewrite H; reflexivity|apply H2; exact H].
        -- right. right. split; [exact H1|]. intros [H|H]; [apply E; rewrite H; reflexivity|apply H2; exact H].
    + intros x Hx. destruct (Pos.eq_dec (wm_id x) (wm_id m)) as [E|E].
      * exfalso. apply Hnmk. rewrite <- (Hid x ltac:(inapp) E). exact Hx.
      * rewrite (fl_set_other _ _ _ _ E). exact (A8 x (or_intror Hx)).
Qed.

(* send_anti_messages, one processed message: fetch-sub of PROCESSED; re-queued unless it is cancelled *)
Lemma Loc_unproc g f m pd pr mk nx : Loc g f pd (m :: pr) mk nx ->
  (fl f m = 2%N /\ Loc g (flag_set f (wm_id m) 0) (m :: pd) pr mk nx) \/
  (fl f m = 3%N /\ Loc g (flag_set f (wm_id m) 1) pd pr mk nx) \/
  (fl f m = 5%N /\ Loc g (flag_set f (wm_id m) 3) pd pr mk nx).
Proof.
  intros [A1 A2 A3 A4 A5 A6 A7 A8].
  destruct (nodup_cons_id m pr A2) as [Hnpr A2'].
  assert (Hid : forall x, In x (pd ++ pr ++ mk) -> wm_id x = wm_id m -> x = m).
  { intros x Hx E. apply A4; [revert Hx; inapp|inapp|exact E]. }
  assert (Hsub : forall x, In x (pd ++ pr ++ mk) -> In x (pd ++ (m :: pr) ++ mk)) by (intros x; inapp).
  assert (Hpr' : forall x, In x pr -> wm_id x <> wm_id m).
  { intros x Hx E. apply Hnpr. rewrite <- (Hid x ltac:(inapp) E). exact Hx. }
  assert (Keep_pr : forall f', (forall x, wm_id x <> wm_id m -> fl f' x = fl f x) ->
                    forall x, In x pr -> (fl f' x = 3%N /\ In x pd) \/ (fl f' x = 2%N /\ ~ In x pd) \/ (fl f' x = 5%N /\ ~ In x pd)).
  { intros f' Hf' x Hx. rewrite (Hf' x (Hpr' x Hx)). exact (A7 x (or_intror Hx)). }
  destruct (A7 m (or_introl eq_refl)) as [[Hf Hpd]|[[Hf Hnpd]|[Hf Hnpd]]].
  - (* flag 3: already queued as a notice; now cancelled-pending *)
    right. left. split; [exact Hf|].
    assert (Hnmk : ~ In m mk) by (intro H; destruct (A8 m H) as [H1|[H1 _]]; rewrite Hf in H1; discriminate).
    constructor; try assumption.
    + intros a b Ha Hb. apply A4; apply Hsub; assumption.
    + intros a Ha. apply A5. apply Hsub. exact Ha.
    + intros x Hx. destruct (Pos.eq_dec (wm_id x) (wm_id m)) as [E|E].
      * rewrite (Hid x ltac:(inapp) E). rewrite fl_set_same. right. split; [right; reflexivity|exact Hnpr].
      * rewrite (fl_set_other _ _ _ _ E). destruct (A6 x Hx) as [[H1 [H2|H2]]|[H1 H2]].
        -- exfalso. apply E. rewrite H2. reflexivity.
        -- left. split; assumption.
        -- right. split; [exact H1|]. intro H. apply H2. right. exact H.
    + apply Keep_pr. intros x E. apply fl_set_other. exact E.
    + intros x Hx. destruct (Pos.eq_dec (wm_id x) (wm_id m)) as [E|E].
      * exfalso. apply Hnmk. rewrite <- (Hid x ltac:(inapp) E). exact Hx.
      * rewrite (fl_set_other _ _ _ _ E). destruct (A8 x Hx) as [H|[H1 [[H2|H2]|H2]]].
        -- left. exact H.
        -- exfalso. apply E. rewrite H2. reflexivity.
        -- right. split; [exact H1|left; exact H2].
        -- right. split; [exact H1|right; exact H2].
  - (* flag 2: back to pending *)
    left. split; [exact Hf|].
    constructor; try assumption.
    + cbn. constructor; [|exact A1]. intro H. apply in_map_iff in H. destruct H as [x [E Hx]].
      apply Hnpd. rewrite <- (Hid x ltac:(inapp) E). exact Hx.
    + intros a b Ha Hb. apply A4; [revert Ha|revert Hb]; inapp.
    + intros a Ha. apply A5. revert Ha. inapp.
    + intros x [<-|Hx].
      * rewrite fl_set_same. right. split; [left; reflexivity|exact Hnpr].
      * destruct (Pos.eq_dec (wm_id x) (wm_id m)) as [E|E].
        -- exfalso. apply Hnpd. rewrite <- (Hid x ltac:(inapp) E). exact Hx.
        -- rewrite (fl_set_other _ _ _ _ E). destruct (A6 x Hx) as [[H1 [H2|H2]]|[H1 H2]].
           ++ exfalso. apply E. rewrite H2. reflexivity.
           ++ left. split; assumption.
           ++ right. split; [exact H1|]. intro H. apply H2. right. exact H.
    + intros x Hx. rewrite (fl_set_other _ _ _ _ (Hpr' x Hx)). destruct (A7 x (or_intror Hx)) as [[H1 H2]|[[H1 H2]|[H1 H2]]].
      * left. split; [exact H1|right; exact H2].
      * right. left. split; [exact H1|]. intros [H|H]; [apply (Hpr' x Hx); rewrite H; reflexivity|apply H2; exact H].
      * right. right. split; [exact H1|]. intros [H|H]; [apply (Hpr' x Hx); rewrite H; reflexivity|apply H2; exact H].
    + intros x Hx. destruct (Pos.eq_dec (wm_id x) (wm_id m)) as [E|E].
      * rewrite (Hid x ltac:(inapp) E). rewrite fl_set_same. left. reflexivity.
      * rewrite (fl_set_other _ _ _ _ E). destruct (A8 x Hx) as [H|[H1 [[H2|H2]|H2]]].
        -- left. exact H.
        -- exfalso. apply E. rewrite H2. reflexivity.
        -- right. split; [exact H1|left; exact H2].
        -- right. split; [exact H1|right; exact H2].
  - (* flag 5: the annihilation itself *)
    right. right. split; [exact Hf|].
    assert (Hnmk : ~ In m mk) by (intro H; destruct (A8 m H) as [H1|[H1 _]]; rewrite Hf in H1; discriminate).
    constructor; try assumption.
    + intros a b Ha Hb. apply A4; apply Hsub; assumption.
    + intros a Ha. apply A5. apply Hsub. exact Ha.
    + intros x Hx. destruct (Pos.eq_dec (wm_id x) (wm_id m)) as [E|E].
      * exfalso. apply Hnpd. rewrite <- (Hid x ltac:(inapp) E). exact Hx.
      * rewrite (fl_set_other _ _ _ _ E). destruct (A6 x Hx) as [[H1 [H2|H2]]|[H1 H2]].
        -- exfalso. apply E. rewrite H2. reflexivity.
        -- left. split; assumption.
        -- right. split; [exact H1|]. intro H. apply H2. right. exact H.
    + apply Keep_pr. intros x E. apply fl_set_other. exact E.
    + intros x Hx. destruct (Pos.eq_dec (wm_id x) (wm_id m)) as [E|E].
      * exfalso. apply Hnmk. rewrite <- (Hid x ltac:(inapp) E). exact Hx.
      * rewrite (fl_set_other _ _ _ _ E). destruct (A8 x Hx) as [H|[H1 [[H2|H2]|H2]]].
        -- left. exact H.
        -- exfalso. apply E. rewrite H2. reflexivity.
        -- right. split; [exact H1|left; exact H2].
        -- right. split; [exact H1|right; exact H2].
Qed.

(* ScheduleNewEvent: a fresh identity, flag word 0, queued, marker recorded *)
Lemma Loc_fresh g f e pd pr mk nx : Loc g f pd pr mk nx ->
  Loc g (flag_set f nx 0) (mkWm nx e :: pd) pr (mkWm nx e :: mk) (Pos.succ nx).
Proof.
  intros [A1 A2 A3 A4 A5 A6 A7 A8]. set (m := mkWm nx e).
  assert (Hne : forall x, In x (pd ++ pr ++ mk) -> wm_id x <> nx).
  { intros x Hx E. specialize (A5 x Hx). rewrite E in A5. exact (Pos.lt_irrefl _ A5). }
  assert (Hnin : forall l, (forall x, In x l -> In x (pd ++ pr ++ mk)) -> ~ In m l).
  { intros l Hl H. apply (Hne m (Hl m H)). reflexivity. }
  assert (Hs : fl (flag_set f nx 0) m = 0%N) by exact (fl_set_same f m 0).
  assert (Hcases : forall x, In x ((m :: pd) ++ pr ++ m :: mk) -> x = m \/ In x (pd ++ pr ++ mk)).
  { intros x. rewrite !in_app_iff. cbn [In]. intros [[H|H]|[H|[H|H]]]; auto; right; rewrite !in_app_iff; tauto. }
  constructor.
  - cbn. constructor; [|exact A1]. intro H. apply in_map_iff in H. destruct H as [x [E Hx]]. apply (Hne x ltac:(inapp)). exact E.
  - exact A2.
  - cbn. constructor; [|exact A3]. intro H. apply in_map_iff in H. destruct H as [x [E Hx]]. apply (Hne x ltac:(inapp)). exact E.
  - intros a b Ha Hb E. destruct (Hcases a Ha) as [->|Ha'], (Hcases b Hb) as [->|Hb'].
    + reflexivity.
    + exfalso. apply (Hne b Hb'). rewrite <- E. reflexivity.
    + exfalso. apply (Hne a Ha'). rewrite E. reflexivity.
    + apply A4; assumption.
  - intros a Ha. destruct (Hcases a Ha) as [->|Ha']; [apply Pos.lt_succ_diag_r|]. apply Pos.lt_lt_succ. apply A5. exact Ha'.
  - intros x [<-|Hx].
    + right. split; [left; exact Hs|]. apply Hnin. intros y Hy. inapp.
    + rewrite (fl_set_other _ _ _ _ (Hne x ltac:(inapp))). exact (A6 x Hx).
  - intros x Hx. rewrite (fl_set_other _ _ _ _ (Hne x ltac:(inapp))). destruct (A7 x Hx) as [[H1 H2]|[[H1 H2]|[H1 H2]]].
    + left. split; [exact H1|right; exact H2].
    + right. left. split; [exact H1|]. intros [H|H]; [apply (Hne x ltac:(inapp)); rewrite <- H; reflexivity|apply H2; exact H].
    + right. right. split; [exact H1|]. intros [H|H]; [apply (Hne x ltac:(inapp)); rewrite <- H; reflexivity|apply H2; exact H].
  - intros x [<-|Hx].
    + left. exact Hs.
    + rewrite (fl_set_other _ _ _ _ (Hne x ltac:(inapp))). exact (A8 x Hx).
Qed.

(* fossil collection releases a processed message that lies below the GVT *)
Lemma Loc_release g f m pd pr mk nx : Loc g f pd (m :: pr) mk nx -> (Z.of_N (tm m) < g)%Z ->
  (forall x, In x pd -> (g <= Z.of_N (tm x))%Z) -> Loc g f pd pr mk nx.
Proof.
  intros [A1 A2 A3 A4 A5 A6 A7 A8] Hlt Hge.
  destruct (nodup_cons_id m pr A2) as [Hnpr A2'].
  assert (Hnpd : ~ In m pd) by (intro H; specialize (Hge m H); lia).
  assert (Hsub : forall x, In x (pd ++ pr ++ mk) -> In x (pd ++ (m :: pr) ++ mk)) by (intros x; inapp).
  constructor; try assumption.
  - intros a b Ha Hb. apply A4; apply Hsub; assumption.
  - intros a Ha. apply A5. apply Hsub. exact Ha.
  - intros x Hx. destruct (A6 x Hx) as [[H1 [H2|H2]]|[H1 H2]].
    + exfalso. apply Hnpd. rewrite H2. exact Hx.
    + left. split; assumption.
    + right. split; [exact H1|]. intro H. apply H2. right. exact H.
  - intros x Hx. exact (A7 x (or_intror Hx)).
  - intros x Hx. destruct (A8 x Hx) as [H|[H1 [[H2|H2]|H2]]].
    + left. exact H.
    + right. split; [exact H1|right]. rewrite <- H2. exact Hlt.
    + right. split; [exact H1|left; exact H2].
    + right. split; [exact H1|right; exact H2].
Qed.

Lemma Loc_drop_mark g f m pd pr mk nx : Loc g f pd pr (m :: mk) nx -> Loc g f pd pr mk nx.
Proof.
  intros [A1 A2 A3 A4 A5 A6 A7 A8].
  destruct (nodup_cons_id m mk A3) as [_ A3'].
  assert (Hsub : forall x, In x (pd ++ pr ++ mk) -> In x (pd ++ pr ++ m :: mk)) by (intros x; inapp).
  constructor; try assumption.
  - intros a b Ha Hb. apply A4; apply Hsub; assumption.
  - intros a Ha. apply A5. apply Hsub. exact Ha.
  - intros x Hx. exact (A8 x (or_intror Hx)).
Qed.

(* LP_INIT: a fresh identity that is processed from the start *)
Lemma Loc_fresh_proc g f e pd pr mk nx : Loc g f pd pr mk nx ->
  Loc g (flag_set f nx 2) pd (mkWm nx e :: pr) mk (Pos.succ nx).
Proof.
  intros [A1 A2 A3 A4 A5 A6 A7 A8]. set (m := mkWm nx e).
  assert (Hne : forall x, In x (pd ++ pr ++ mk) -> wm_id x <> nx).
  { intros x Hx E. specialize (A5 x Hx). rewrite E in A5. exact (Pos.lt_irrefl _ A5). }
  assert (Hs : fl (flag_set f nx 2) m = 2%N) by exact (fl_set_same f m 2).
  assert (Hcases : forall x, In x (pd ++ (m :: pr) ++ mk) -> x = m \/ In x (pd ++ pr ++ mk)).
  { intros x. rewrite !in_app_iff. cbn [In]. intros [H|[[H|H]|H]]; auto. }
  assert (Hnpd : ~ In m pd) by (intro H; apply (Hne m ltac:(inapp)); reflexivity).
  constructor.
  - exact A1.
  - cbn. constructor; [|exact A2]. intro H. apply in_map_iff in H. destruct H as [x [E Hx]]. apply (Hne x ltac:(inapp)). exact E.
  - exact A3.
  - intros a b Ha Hb E. destruct (Hcases a Ha) as [->|Ha'], (Hcases b Hb) as [->|Hb'].
    + reflexivity.
    + exfalso. apply (Hne b Hb'). rewrite <- E. reflexivity.
    + exfalso. apply (Hne a Ha'). rewrite E. reflexivity.
    + apply A4; assumption.
  - intros a Ha. destruct (Hcases a Ha) as [->|Ha']; [apply Pos.lt_succ_diag_r|]. apply Pos.lt_lt_succ. apply A5. exact Ha'.
  - intros x Hx. rewrite (fl_set_other _ _ _ _ (Hne x ltac:(inapp))). destruct (A6 x Hx) as [[H1 H2]|[H1 H2]].
    + left. split; [exact H1|right; exact H2].
    + right. split; [exact H1|]. intros [H|H]; [apply (Hne x ltac:(inapp)); rewrite <- H; reflexivity|apply H2; exact H].
  - intros x [<-|Hx].
    + right. left. split; [exact Hs|exact Hnpd].
    + rewrite (fl_set_other _ _ _ _ (Hne x ltac:(inapp))). exact (A7 x Hx).
  - intros x Hx. rewrite (fl_set_other _ _ _ _ (Hne x ltac:(inapp))). destruct (A8 x Hx) as [H|[H1 [H2|H2]]].
    + left. exact H.
    + right. split; [exact H1|left; right; exact H2].
    + right. split; [exact H1|right; exact H2].
Qed.

Lemma Loc_empty g f nx : Loc g f [] [] [] nx.
Proof. constructor; cbn; try constructor; intros; contradiction. Qed.
