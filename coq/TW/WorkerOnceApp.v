(* The exactly-once / no-error theorems of TW/WorkerOnceProofs.v instantiated for the interpreter application:
   their hypotheses on the handler follow from a syntactic check of the program table. *)
From Coq Require Import List ZArith NArith PArith Bool Arith Lia Sorted Permutation FMapPositive.
From RS Require Import Order.MsgOrderDefs Heap.HeapList TW.App TW.Seq TW.Worker TW.WorkerProofs TW.WorkerSafety TW.WorkerOnce TW.WorkerOnceProofs.
Import ListNotations.

(* every event type the program can schedule is below the two reserved ones (LP_INIT = 65534, LP_FINI = 65535) *)
Definition types_okb (p : prog) : bool :=
  forallb (fun x => forallb (fun o => (o_type o <? LP_INIT_TYPE)%N) (r_outs (snd x))) (p_rows p) &&
  forallb (fun x => (snd (fst x) <? LP_INIT_TYPE)%N) (p_inits p).

Lemma lookup_row_in rows ty cls : lookup_row rows ty cls = empty_row \/ exists t c, In (t, c, lookup_row rows ty cls) rows.
Proof.
  induction rows as [|[[t c] r] rest IH]; cbn [lookup_row]; [left; reflexivity|].
  destruct ((t =? ty)%N && (c =? cls)%N); [right; exists t, c; left; reflexivity|].
  destruct IH as [IH|(t' & c' & IH)]; [left; exact IH|right; exists t', c'; right; exact IH].
Qed.

Lemma make_outs_spec p me now a os : forall j e, In e (make_outs p me now a j os) ->
  exists o, In o os /\ e_type e = o_type o /\ e_dest e = dest_of p me a o.
Proof.
  induction os as [|o r IH]; intros j e H; cbn [make_outs] in H; [destruct H|].
  destruct H as [<-|H]; [exists o; cbn; auto|]. destruct (IH _ _ H) as (o' & Ho & E). exists o'. split; [right; exact Ho|exact E].
Qed.

Lemma app_handle_type p ev st e : types_okb p = true -> In e (snd (handle p ev st)) -> (e_type e < LP_INIT_TYPE)%N.
Proof.
  intros Hok. unfold handle. destruct (can_end p (e_dest ev) st); [intros []|].
  destruct (fold_left _ (r_draws _) _) as [a3 g]. destruct (fold_left _ (r_mem _) _) as [a4 sl]. cbn [snd].
  intros H. destruct (make_outs_spec _ _ _ _ _ _ _ H) as (o & Ho & Et & _). rewrite Et.
  unfold types_okb in Hok. apply andb_true_iff in Hok. destruct Hok as [Hrows _].
  destruct (lookup_row_in (p_rows p) (e_type ev) (l_cnt st mod p_ncls p)) as [E|(t & c & Hin)]; [rewrite E in Ho; destruct Ho|].
  rewrite forallb_forall in Hrows. specialize (Hrows _ Hin). cbn [snd] in Hrows.
  rewrite forallb_forall in Hrows. apply N.ltb_lt. apply Hrows. exact Ho.
Qed.

Lemma app_handle_dest p ev st e : In e (snd (handle p ev st)) -> (e_dest ev < p_lps p)%N -> (e_dest e < p_lps p)%N.
Proof.
  unfold handle. destruct (can_end p (e_dest ev) st); [intros []|].
  destruct (fold_left _ (r_draws _) _) as [a3 g]. destruct (fold_left _ (r_mem _) _) as [a4 sl]. cbn [snd].
  intros H Hlt. destruct (make_outs_spec _ _ _ _ _ _ _ H) as (o & _ & _ & Ed). rewrite Ed. unfold dest_of.
  assert (Hpos : p_lps p <> 0%N) by lia.
  destruct (o_rule o =? 0)%N; [exact Hlt|]. destruct (o_rule o =? 1)%N; [apply N.mod_lt; exact Hpos|].
  destruct (o_rule o =? 2)%N; apply N.mod_lt; exact Hpos.
Qed.

Lemma app_init p me e : types_okb p = true -> In e (snd (lp_init p me)) -> e_dest e = me /\ (e_type e < LP_INIT_TYPE)%N.
Proof.
  intros Hok. unfold lp_init. cbn [snd].
  unfold types_okb in Hok. apply andb_true_iff in Hok. destruct Hok as [_ Hin]. rewrite forallb_forall in Hin.
  set (inits := filter _ (p_inits p)).
  assert (Hsub : forall x, In x inits -> In x (p_inits p)) by (intros x Hx; apply filter_In in Hx; tauto).
  clearbody inits. generalize 0%N. induction inits as [|[[[l t] ty] sz] r IH]; intros j H; [destruct H|].
  destruct H as [<-|H].
  - cbn. split; [reflexivity|]. apply N.ltb_lt. apply (Hin (l, t, ty, sz)). apply Hsub. left. reflexivity.
  - apply (IH ltac:(intros x Hx; apply Hsub; right; exact Hx) _ H).
Qed.

Section App.
Variable p : prog.
Variable ck : nat.
Hypothesis Hp : types_okb p = true.
Variable ops : list wop.
Let w := fold_left (wstep p ck) ops (w_init p).

Lemma app_full : full p w /\ length (k_lps w) = N.to_nat (p_lps p).
Proof.
  apply worker_full.
  - intros ev st e. apply app_handle_time.
  - intros ev st e. apply app_handle_type. exact Hp.
  - intros ev st e. apply app_handle_dest.
  - intros me e. apply app_init. exact Hp.
Qed.

(* 1. The model never reaches a point where the C code would index out of bounds: every rollback finds a checkpoint at or
      below its target, every fossil collection keeps one, every cancellation notice finds its processed message. *)
Theorem worker_never_errs : k_err w = false.
Proof. exact (f_err p w (proj1 app_full)). Qed.

(* 2. so the safety invariants of WorkerSafety hold unconditionally *)
Theorem worker_good : good w.
Proof. exact (f_good p w (proj1 app_full)). Qed.

(* 3. Exactly-once cancellation: the location predicate, spelled out *)
Theorem worker_exactly_once :
  let f := k_flags w in let pd := pend w in let pr := allprocs (k_lps w) in let mk := allmarks (k_lps w) in
  NoDup (map wm_id pd) /\ NoDup (map wm_id pr) /\ NoDup (map wm_id mk) /\
  (forall a b, In a (pd ++ pr ++ mk) -> In b (pd ++ pr ++ mk) -> wm_id a = wm_id b -> a = b) /\
  (forall m, In m pd -> (fl f m = 3%N /\ In m pr) \/ ((fl f m = 0%N \/ fl f m = 1%N) /\ ~ In m pr)) /\
  (forall m, In m pr -> (fl f m = 3%N /\ In m pd) \/ (fl f m = 2%N /\ ~ In m pd) \/ (fl f m = 5%N /\ ~ In m pd)) /\
  (forall m, In m mk -> fl f m = 0%N \/ (fl f m = 2%N /\ (In m pr \/ (Z.of_N (tm m) < k_gvt w)%Z))).
Proof.
  cbn zeta. destruct (f_once p w (proj1 app_full)) as [A1 A2 A3 A4 A5 A6 A7 A8]. cbn [app] in *. repeat split; assumption.
Qed.

(* 4. every processed message sits in the history of its own destination, and every pending one is addressed to a hosted LP *)
Theorem worker_destinations :
  (forall m, In m (pend w) -> N.to_nat (e_dest (wm_ev m)) < length (k_lps w)) /\
  (forall l m, l < length (k_lps w) -> In (EProc m) (x_hist (get_lp w l)) -> N.to_nat (e_dest (wm_ev m)) = l).
Proof.
  destruct (f_extra p w (proj1 app_full)) as [H1 H2]. split.
  - intros m Hm. apply (H1 m Hm).
  - intros l m Hl Hm. destruct (H2 l Hl) as (_ & _ & Hd & _). apply Hd. exact Hm.
Qed.
End App.
