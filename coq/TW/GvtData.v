(* scratch prototype: the data argument of the thread-level GVT reduction, for n threads and all schedules.
   Lock-step discipline assumed here (to be implemented by the c_a/c_b counters):
   - a thread clears its accumulator only when no thread has published its value for the current pass,
   - a thread publishes only when every thread has joined the pass. *)
From Coq Require Import List Arith Lia Bool.
Import ListNotations.

Inductive stage := Idle | Joined | Done.

(* timestamps are naturals; None is SIMTIME_MAX *)
Definition omin (a b : option nat) : option nat :=
  match a, b with None, x => x | x, None => x | Some x, Some y => Some (Nat.min x y) end.
Definition ole (a : option nat) (t : nat) : Prop := match a with None => False | Some x => x <= t end.
Definition oleo (a b : option nat) : Prop := match b with None => True | Some y => ole a y end.
Definition lmin (l : list nat) : option nat := fold_right (fun t acc => omin (Some t) acc) None l.

Record th := { st : stage; acc : option nat; cur : option nat; q : list nat; red : option nat }.
Definition sys := list th.

Definition beta (t : th) : option nat := match st t with Done => red t | _ => acc t end.
Definition minbeta (s : sys) : option nat := fold_right (fun t a => omin (beta t) a) None s.

Fixpoint upd {A} (l : list A) (i : nat) (x : A) : list A :=
  match l, i with [] , _ => [] | _ :: t, 0 => x :: t | h :: t, S j => h :: upd t j x end.

Fixpoint remove1 (t : nat) (l : list nat) : list nat :=
  match l with [] => [] | x :: r => if Nat.eqb x t then r else x :: remove1 t r end.

Inductive step : sys -> sys -> Prop :=
| s_extract : forall s i x t, nth_error s i = Some x -> cur x = None -> In t (q x) ->
    step s (upd s i {| st := st x; acc := omin (acc x) (Some t); cur := Some t; q := remove1 t (q x); red := red x |})
| s_insert : forall s i j x y c t, nth_error s i = Some x -> cur x = Some c -> c <= t ->
    nth_error s j = Some y -> i <> j ->
    step s (upd s j {| st := st y; acc := acc y; cur := cur y; q := t :: q y; red := red y |})
| s_insert_self : forall s i x c t, nth_error s i = Some x -> cur x = Some c -> c <= t ->
    step s (upd s i {| st := st x; acc := acc x; cur := cur x; q := t :: q x; red := red x |})
| s_finish : forall s i x, nth_error s i = Some x ->
    step s (upd s i {| st := st x; acc := acc x; cur := None; q := q x; red := red x |})
| s_reset : forall s i x, nth_error s i = Some x -> st x = Idle -> cur x = None ->
    (forall y, In y s -> st y <> Done) ->
    step s (upd s i {| st := Joined; acc := None; cur := None; q := q x; red := red x |})
| s_rejoin : forall s i x, nth_error s i = Some x -> st x = Idle -> cur x = None ->
    (forall y, In y s -> st y <> Done) ->
    step s (upd s i {| st := Joined; acc := acc x; cur := None; q := q x; red := red x |})
| s_publish : forall s i x, nth_error s i = Some x -> st x = Joined -> cur x = None ->
    (forall y, In y s -> st y <> Idle) ->
    step s (upd s i {| st := Done; acc := acc x; cur := None; q := q x; red := omin (acc x) (lmin (q x)) |})
| s_end : forall s, (forall y, In y s -> st y = Done) ->
    step s (map (fun y => {| st := Idle; acc := acc y; cur := cur y; q := q y; red := red y |}) s).

Record Phi (s : sys) : Prop := {
  p_acc : forall x c, In x s -> cur x = Some c -> ole (acc x) c;
  p_cur : forall x c, In x s -> st x = Done -> cur x = Some c -> ole (minbeta s) c;
  p_q : forall y t, In y s -> st y = Done -> In t (q y) -> ole (minbeta s) t
}.

(* ---------- order facts ---------- *)
Lemma ole_omin a b t : ole (omin a b) t <-> ole a t \/ ole b t.
Proof. destruct a as [x|], b as [y|]; simpl; try tauto. destruct (Nat.min_spec x y) as [[H ->]|[H ->]]; lia. Qed.
Lemma ole_trans a x t : ole a x -> x <= t -> ole a t.
Proof. destruct a; simpl; [lia|tauto]. Qed.
Lemma minbeta_spec s t : ole (minbeta s) t <-> exists x, In x s /\ ole (beta x) t.
Proof.
  induction s as [|y r IH]; simpl.
  - split; [tauto|intros [x [[] _]]].
  - rewrite ole_omin, IH. split.
    + intros [H|[x [Hx H]]]; [exists y; auto|exists x; auto].
    + intros [x [[<-|Hx] H]]; [left; auto|right; exists x; auto].
Qed.
Lemma lmin_spec l t : In t l -> ole (lmin l) t.
Proof. induction l as [|x r IH]; [simpl; tauto|]. intros H. change (lmin (x :: r)) with (omin (Some x) (lmin r)).
  apply ole_omin. destruct H as [->|H]; [left; simpl; lia|right; auto]. Qed.

(* ---------- point updates ---------- *)
Lemma in_upd_inv {A} (l : list A) i x y : In y (upd l i x) -> y = x \/ In y l.
Proof. revert i; induction l as [|h t IH]; intros [|i]; simpl; auto.
  - intros [H|H]; auto.
  - intros [H|H]; auto. destruct (IH _ H); auto. Qed.
Lemma in_upd_new {A} (l : list A) i x x' : nth_error l i = Some x -> In x' (upd l i x').
Proof. revert i; induction l as [|h t IH]; intros [|i]; simpl; try discriminate; eauto. Qed.
Lemma in_upd_keep {A} (l : list A) i x x' y : nth_error l i = Some x -> In y l -> y = x \/ In y (upd l i x').
Proof. revert i; induction l as [|h t IH]; intros [|i]; simpl; try discriminate.
  - intros [= ->] [->|H]; auto.
  - intros Hi [->|H]; auto. destruct (IH _ Hi H); auto. Qed.
Lemma nth_error_in' {A} (l : list A) i x : nth_error l i = Some x -> In x l.
Proof. apply nth_error_In. Qed.

Lemma minbeta_upd_mono s i x x' t :
  nth_error s i = Some x -> (forall u, ole (beta x) u -> ole (beta x') u) ->
  ole (minbeta s) t -> ole (minbeta (upd s i x')) t.
Proof.
  intros Hi Hb H. apply minbeta_spec in H. destruct H as [z [Hz Ht]]. apply minbeta_spec.
  destruct (in_upd_keep s i x x' z Hi Hz) as [->|Hz'].
  - exists x'. split; [eapply in_upd_new; eauto|auto].
  - exists z. auto.
Qed.

Ltac inv_upd H := apply in_upd_inv in H; destruct H as [H|H]; [subst; simpl in *|].

Theorem step_Phi s s' : Phi s -> step s s' -> Phi s'.
Proof.
  intros P S. destruct S as
    [s i x t Hi Hc Ht | s i j x y c t Hi Hc Hle Hj Hne | s i x c t Hi Hc Hle | s i x Hi
    | s i x Hi Hst Hc Hnd | s i x Hi Hst Hc Hnd | s i x Hi Hst Hc Hall | s Hall].
  - (* extract: the accumulator absorbs the timestamp *)
    assert (Hx : In x s) by (eapply nth_error_In; eauto).
    set (x' := {| st := st x; acc := omin (acc x) (Some t); cur := Some t; q := remove1 t (q x); red := red x |}).
    assert (Hmono : forall u, ole (minbeta s) u -> ole (minbeta (upd s i x')) u).
    { intros u. apply (minbeta_upd_mono s i x x' u Hi). intros v. unfold beta. simpl.
      destruct (st x); auto; intros H; apply ole_omin; auto. }
    constructor.
    + intros y c Hy Hcy. inv_upd Hy.
      * injection Hcy as <-. apply ole_omin. right. simpl. lia.
      * apply (p_acc s P y c); auto.
    + intros y c Hy Hd Hcy. apply Hmono. inv_upd Hy.
      * injection Hcy as <-. apply (p_q s P x t); auto.
      * apply (p_cur s P y c); auto.
    + intros y u Hy Hd Hu. apply Hmono. inv_upd Hy.
      * apply (p_q s P x u); auto. clear -Hu. induction (q x) as [|a r IH]; simpl in *; [tauto|].
        destruct (Nat.eqb a t); [right; auto|]. destruct Hu as [->|Hu]; [left; auto|right; auto].
      * apply (p_q s P y u); auto.
  - (* insert into another thread's queue: the timestamp is bounded by the sender's current event *)
    assert (Hx : In x s) by (eapply nth_error_In; eauto).
    assert (Hy0 : In y s) by (eapply nth_error_In; eauto).
    set (y' := {| st := st y; acc := acc y; cur := cur y; q := t :: q y; red := red y |}).
    assert (Hsame : forall u, ole (minbeta s) u <-> ole (minbeta (upd s j y')) u).
    { intros u. split.
      - apply (minbeta_upd_mono s j y y' u Hj). intros v. unfold beta. simpl. auto.
      - intros H. apply minbeta_spec in H. destruct H as [z [Hz Hu]]. apply minbeta_spec.
        inv_upd Hz; [exists y; split; auto|exists z; auto]. }
    assert (Hbound : ole (minbeta s) t).
    { destruct (st x) eqn:Ex.
      - apply minbeta_spec. exists x. split; auto. unfold beta. rewrite Ex. eapply ole_trans; [apply (p_acc s P x c)|]; auto.
      - apply minbeta_spec. exists x. split; auto. unfold beta. rewrite Ex. eapply ole_trans; [apply (p_acc s P x c)|]; auto.
      - eapply ole_trans; [apply (p_cur s P x c)|]; auto. }
    constructor.
    + intros z c' Hz Hcz. inv_upd Hz; [apply (p_acc s P y c'); auto|apply (p_acc s P z c'); auto].
    + intros z c' Hz Hd Hcz. apply Hsame. inv_upd Hz; [apply (p_cur s P y c'); auto|apply (p_cur s P z c'); auto].
    + intros z u Hz Hd Hu. apply Hsame. inv_upd Hz.
      * destruct Hu as [<-|Hu]; [exact Hbound|apply (p_q s P y u); auto].
      * apply (p_q s P z u); auto.
  - (* insert into own queue *)
    assert (Hx : In x s) by (eapply nth_error_In; eauto).
    set (x' := {| st := st x; acc := acc x; cur := cur x; q := t :: q x; red := red x |}).
    assert (Hsame : forall u, ole (minbeta s) u <-> ole (minbeta (upd s i x')) u).
    { intros u. split.
      - apply (minbeta_upd_mono s i x x' u Hi). intros v. unfold beta. simpl. auto.
      - intros H. apply minbeta_spec in H. destruct H as [z [Hz Hu]]. apply minbeta_spec.
        inv_upd Hz; [exists x; split; auto|exists z; auto]. }
    assert (Hbound : ole (minbeta s) t).
    { destruct (st x) eqn:Ex.
      - apply minbeta_spec. exists x. split; auto. unfold beta. rewrite Ex. eapply ole_trans; [apply (p_acc s P x c)|]; auto.
      - apply minbeta_spec. exists x. split; auto. unfold beta. rewrite Ex. eapply ole_trans; [apply (p_acc s P x c)|]; auto.
      - eapply ole_trans; [apply (p_cur s P x c)|]; auto. }
    constructor.
    + intros z c' Hz Hcz. inv_upd Hz; [apply (p_acc s P x c'); auto|apply (p_acc s P z c'); auto].
    + intros z c' Hz Hd Hcz. apply Hsame. inv_upd Hz; [apply (p_cur s P x c'); auto|apply (p_cur s P z c'); auto].
    + intros z u Hz Hd Hu. apply Hsame. inv_upd Hz.
      * destruct Hu as [<-|Hu]; [exact Hbound|apply (p_q s P x u); auto].
      * apply (p_q s P z u); auto.
  - (* finish the current event *)
    assert (Hx : In x s) by (eapply nth_error_In; eauto).
    set (x' := {| st := st x; acc := acc x; cur := None; q := q x; red := red x |}).
    assert (Hsame : forall u, ole (minbeta s) u <-> ole (minbeta (upd s i x')) u).
    { intros u. split.
      - apply (minbeta_upd_mono s i x x' u Hi). intros v. unfold beta. simpl. auto.
      - intros H. apply minbeta_spec in H. destruct H as [z [Hz Hu]]. apply minbeta_spec.
        inv_upd Hz; [exists x; split; auto|exists z; auto]. }
    constructor.
    + intros z c' Hz Hcz. inv_upd Hz; [discriminate|apply (p_acc s P z c'); auto].
    + intros z c' Hz Hd Hcz. apply Hsame. inv_upd Hz; [discriminate|apply (p_cur s P z c'); auto].
    + intros z u Hz Hd Hu. apply Hsame. inv_upd Hz; [apply (p_q s P x u); auto|apply (p_q s P z u); auto].
  - (* reset: nobody has published, so only the accumulator clause matters *)
    constructor.
    + intros z c' Hz Hcz. inv_upd Hz; [discriminate|apply (p_acc s P z c'); auto].
    + intros z c' Hz Hd Hcz. inv_upd Hz; [discriminate|exfalso; apply (Hnd z); auto].
    + intros z u Hz Hd Hu. inv_upd Hz; [discriminate|exfalso; apply (Hnd z); auto].
  - (* rejoin without clearing *)
    constructor.
    + intros z c' Hz Hcz. inv_upd Hz; [discriminate|apply (p_acc s P z c'); auto].
    + intros z c' Hz Hd Hcz. inv_upd Hz; [discriminate|exfalso; apply (Hnd z); auto].
    + intros z u Hz Hd Hu. inv_upd Hz; [discriminate|exfalso; apply (Hnd z); auto].
  - (* publish: the published value is below the accumulator and below everything queued here *)
    assert (Hx : In x s) by (eapply nth_error_In; eauto).
    set (x' := {| st := Done; acc := acc x; cur := None; q := q x; red := omin (acc x) (lmin (q x)) |}).
    assert (Hmono : forall u, ole (minbeta s) u -> ole (minbeta (upd s i x')) u).
    { intros u. apply (minbeta_upd_mono s i x x' u Hi). intros v. unfold beta. simpl. rewrite Hst.
      intros H. apply ole_omin. auto. }
    constructor.
    + intros z c' Hz Hcz. inv_upd Hz; [discriminate|apply (p_acc s P z c'); auto].
    + intros z c' Hz Hd Hcz. inv_upd Hz; [discriminate|apply Hmono; apply (p_cur s P z c'); auto].
    + intros z u Hz Hd Hu. inv_upd Hz.
      * apply minbeta_spec. exists x'. split; [eapply in_upd_new; eauto|]. unfold beta. simpl.
        apply ole_omin. right. apply lmin_spec. auto.
      * apply Hmono. apply (p_q s P z u); auto.
  - (* end of the pass: everybody returns to Idle; only the accumulator clause survives *)
    constructor.
    + intros z c' Hz Hcz. apply in_map_iff in Hz. destruct Hz as [y [<- Hy]]. simpl in *. apply (p_acc s P y c'); auto.
    + intros z c' Hz Hd. apply in_map_iff in Hz. destruct Hz as [y [<- Hy]]. simpl in Hd. discriminate.
    + intros z u Hz Hd. apply in_map_iff in Hz. destruct Hz as [y [<- Hy]]. simpl in Hd. discriminate.
Qed.

(* when every thread has published, the minimum of the published values is a lower bound of every queued
   message and of every event in progress *)
Definition gmin (s : sys) : option nat := fold_right (fun t a => omin (red t) a) None s.
Lemma all_done_minbeta s : (forall y, In y s -> st y = Done) -> minbeta s = gmin s.
Proof. induction s as [|y r IH]; simpl; auto. intros H. unfold beta at 1. rewrite (H y) by (left; auto).
  rewrite IH; [reflexivity|]. intros z Hz. apply H. right; auto. Qed.

Theorem gvt_safe s : Phi s -> (forall y, In y s -> st y = Done) ->
  (forall y t, In y s -> In t (q y) -> ole (gmin s) t) /\ (forall y c, In y s -> cur y = Some c -> ole (gmin s) c).
Proof.
  intros P Hall. rewrite <- (all_done_minbeta s Hall). split.
  - intros y t Hy Ht. apply (p_q s P y t); auto.
  - intros y c Hy Hc. apply (p_cur s P y c); auto.
Qed.
