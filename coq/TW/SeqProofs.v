(* The reference executor processes a minimal pending event at every step and keeps the pending
   multiset exact: it is a textbook event-list executor (C10 specification side). *)
From Coq Require Import NArith ZArith List Bool Lia Permutation.
From RS Require Import Base.Lex Rng.RngDefs Order.MsgOrderDefs Order.MsgOrderProofs TW.App TW.Seq.
Import ListNotations.

Lemma wf_msg_of e : wf_msg (msg_of e).
Proof. unfold wf_msg, msg_of. cbn. rewrite Nat2Z.id, map_length. lia. Qed.

Lemma evb_irrefl a : ev_before a a = false.
Proof. apply before_irrefl_l, wf_msg_of. Qed.
Lemma evb_trans a b c : ev_before a b = true -> ev_before b c = true -> ev_before a c = true.
Proof. apply before_trans_l; apply wf_msg_of. Qed.
(* negative transitivity: consequence of the order being the lexicographic order of contents *)
Lemma evb_negtrans a b c : ev_before a b = false -> ev_before b c = false -> ev_before a c = false.
Proof.
  unfold ev_before. rewrite !before_is_lex by apply wf_msg_of.
  intros H1 H2. destruct (lexltb (content (msg_of a)) (content (msg_of c))) eqn:E; [|reflexivity].
  (* a < c: then either a < b or b < c by totality *)
  destruct (lexltb (content (msg_of c)) (content (msg_of b))) eqn:E2.
  - rewrite (lexltb_trans _ _ _ E E2) in H1. discriminate.
  - assert (content (msg_of b) = content (msg_of c)) by (apply lexltb_total; assumption).
    rewrite H in H1. rewrite E in H1. discriminate.
Qed.

(* sorted: nothing later in the list is before something earlier *)
Inductive sorted : list event -> Prop :=
| sorted_nil : sorted []
| sorted_cons : forall x l, (forall y, In y l -> ev_before y x = false) -> sorted l -> sorted (x :: l).

Lemma insert_perm e l : Permutation (insert_ev e l) (e :: l).
Proof.
  induction l as [|x l IH]; cbn; [reflexivity|].
  destruct (ev_before e x); [reflexivity|].
  eapply perm_trans; [apply perm_skip; exact IH|apply perm_swap].
Qed.

Lemma insert_sorted e l : sorted l -> sorted (insert_ev e l).
Proof.
  induction l as [|x l IH]; intros Hs; cbn.
  - constructor; [intros y []|constructor].
  - inversion Hs as [|? ? Hx Hl]; subst.
    destruct (ev_before e x) eqn:E.
    + constructor; [|exact Hs]. intros y [<-|Hy].
      * destruct (ev_before x e) eqn:E2; [|reflexivity].
        pose proof (evb_trans _ _ _ E E2) as Hc. rewrite evb_irrefl in Hc. discriminate.
      * destruct (ev_before y e) eqn:E2; [|reflexivity].
        rewrite <- (Hx y Hy). symmetry. apply (evb_trans _ _ _ E2 E).
    + constructor; [|apply IH; exact Hl].
      intros y Hy. apply (Permutation_in _ (insert_perm e l)) in Hy. destruct Hy as [<-|Hy]; [exact E|auto].
Qed.

Lemma inserts_sorted es : forall l, sorted l -> sorted (fold_left (fun q x => insert_ev x q) es l).
Proof. induction es as [|e es IH]; intros l Hl; cbn; [exact Hl|]. apply IH, insert_sorted, Hl. Qed.

Lemma inserts_perm es : forall l, Permutation (fold_left (fun q x => insert_ev x q) es l) (es ++ l).
Proof.
  induction es as [|e es IH]; intros l; cbn; [reflexivity|].
  eapply perm_trans; [apply IH|]. eapply perm_trans; [apply Permutation_app_head, insert_perm|].
  apply Permutation_sym, Permutation_middle.
Qed.

Lemma sorted_tail x l : sorted (x :: l) -> sorted l.
Proof. intros H. inversion H; assumption. Qed.

(* one step of the reference executor: the dispatched event is minimal among all pending events,
   it is removed exactly once, its outputs are added exactly once, and only its LP's state changes *)
Theorem seq_step_spec p tend stop s s' : sorted (q_pending s) -> seq_step p tend stop s = Some s' ->
  exists e rest,
    q_pending s = e :: rest /\
    (forall y, In y (q_pending s) -> ev_before y e = false) /\
    q_log s' = e :: q_log s /\
    sorted (q_pending s') /\
    let i := N.to_nat (e_dest e) in
    let st := nth i (q_lps s) dummy_lp in
    Permutation (q_pending s') (snd (handle p e st) ++ rest) /\
    q_lps s' = set_lp (q_lps s) i (fst (handle p e st)).
Proof.
  intros Hs. unfold seq_step. destruct (q_pending s) as [|e rest] eqn:Ep; [discriminate|].
  destruct (stop && forallb (fun b => b) (q_done s)); [discriminate|].
  assert (Hmin : forall y, In y (e :: rest) -> ev_before y e = false).
  { inversion Hs as [|? ? Hx Hl]; subst. intros y [<-|Hy]; [apply evb_irrefl|auto]. }
  assert (Hgo : forall s'',
     (let i := N.to_nat (e_dest e) in
      let '(st', outs) := handle p e (nth i (q_lps s) dummy_lp) in
      Some (mkSeq (fold_left (fun q x => insert_ev x q) outs rest) (set_lp (q_lps s) i st')
                  (if can_end p (e_dest e) st' then set_bool (q_done s) i true else q_done s) (e :: q_log s))) = Some s'' ->
     exists e0 rest0, e :: rest = e0 :: rest0 /\ (forall y, In y (e :: rest) -> ev_before y e0 = false) /\
       q_log s'' = e0 :: q_log s /\ sorted (q_pending s'') /\
       Permutation (q_pending s'') (snd (handle p e0 (nth (N.to_nat (e_dest e0)) (q_lps s) dummy_lp)) ++ rest0) /\
       q_lps s'' = set_lp (q_lps s) (N.to_nat (e_dest e0)) (fst (handle p e0 (nth (N.to_nat (e_dest e0)) (q_lps s) dummy_lp)))).
  { intros s''. cbn zeta. destruct (handle p e (nth (N.to_nat (e_dest e)) (q_lps s) dummy_lp)) as [st' outs] eqn:Eh.
    intros H. injection H as <-. exists e, rest. rewrite Eh. cbn [q_log q_pending q_lps fst snd].
    repeat split; try assumption.
    - apply inserts_sorted. eapply sorted_tail; eassumption.
    - apply inserts_perm. }
  destruct tend as [te|].
  - destruct (N.leb_spec te (e_t e)); [discriminate|]. apply Hgo.
  - apply Hgo.
Qed.

(* the initial pending list is sorted, and sortedness is an invariant of the run *)
Lemma init_lps_sorted p n : forall me acc pend, sorted pend -> sorted (snd (init_lps p n me acc pend)).
Proof.
  induction n as [|k IH]; intros me acc pend Hs; cbn; [exact Hs|].
  destruct (lp_init p me) as [st evs]. apply IH. apply inserts_sorted. exact Hs.
Qed.

Lemma seq_init_sorted p b : sorted (q_pending (seq_init p b)).
Proof.
  unfold seq_init. pose proof (init_lps_sorted p (N.to_nat (p_lps p)) 0%N [] [] sorted_nil) as H.
  destruct (init_lps p (N.to_nat (p_lps p)) 0%N [] []) as [lps pend]. exact H.
Qed.

Lemma seq_run_sorted fuel : forall p tend stop s, sorted (q_pending s) -> sorted (q_pending (fst (seq_run fuel p tend stop s))).
Proof.
  induction fuel as [|k IH]; intros p tend stop s Hs; cbn; [exact Hs|].
  destruct (seq_step p tend stop s) as [s'|] eqn:E; [|exact Hs].
  destruct (seq_step_spec p tend stop s s' Hs E) as (e & rest & _ & _ & _ & Hs' & _). apply IH. exact Hs'.
Qed.

(* the dispatch log is non-decreasing in the event order: no later dispatch is before an earlier one,
   given that every output is strictly after its cause (validity of the program) *)
