(* Instantiation of the abstract Time Warp theory (RS.Abs) with the interpreter application:
   for every valid program table, in every reachable state of the micro-step abstract machine and for
   every valid bound, each LP's history below the bound is its sequential dispatch sequence. *)
From Coq Require Import NArith ZArith List Bool Lia.
From RS Require Import Base.Lex Rng.RngDefs Order.MsgOrderDefs Order.MsgOrderProofs TW.App.
From RS.Abs Require Import Peel Abs Bridge AbsM AbsM2 BridgeM ReachM.
Import ListNotations.

(* event content: timestamp (ticks), type, payload *)
Definition cont := (N * N * list N)%type.
Definition c_t (c : cont) : N := fst (fst c).
Definition c_type (c : cont) : N := snd (fst c).
Definition c_pl (c : cont) : list N := snd c.

Definition key (c : cont) : list Z :=
  [Z.of_N (c_t c); 0%Z; (- Z.of_N (c_type c))%Z; Z.of_nat (length (c_pl c))] ++ map (fun b => (- Z.of_N b)%Z) (c_pl c).

Definition cltb (a b : cont) : bool := lexltb (key a) (key b).
Definition tltb (a b : cont) : bool := (c_t a <? c_t b)%N.

Lemma map_opp_inj l1 : forall l2, map (fun b => (- Z.of_N b)%Z) l1 = map (fun b => (- Z.of_N b)%Z) l2 -> l1 = l2.
Proof.
  induction l1 as [|x l1 IH]; intros [|y l2] H; cbn in H; try discriminate; [reflexivity|].
  injection H as Hx Hl. f_equal; [lia|auto].
Qed.

Lemma key_inj a b : key a = key b -> a = b.
Proof.
  destruct a as [[ta ya] pa], b as [[tb yb] pb]. unfold key, c_t, c_type, c_pl. cbn [fst snd app].
  intros H. injection H as Ht Hy _ Hp. apply map_opp_inj in Hp.
  assert (ta = tb) by lia. assert (ya = yb) by lia. subst. reflexivity.
Qed.

Notation clt := (Abs.clt cont cltb).
Notation tlt := (Abs.tlt cont tltb).

Lemma clt_irrefl a : ~ clt a a.
Proof. unfold Abs.clt, cltb. rewrite lexltb_irrefl. discriminate. Qed.
Lemma clt_trans a b c : clt a b -> clt b c -> clt a c.
Proof. unfold Abs.clt, cltb. apply lexltb_trans. Qed.
Lemma clt_total a b : clt a b \/ a = b \/ clt b a.
Proof.
  unfold Abs.clt, cltb. destruct (lexltb (key a) (key b)) eqn:E1; [left; reflexivity|].
  destruct (lexltb (key b) (key a)) eqn:E2; [right; right; reflexivity|].
  right; left. apply key_inj. apply lexltb_total; assumption.
Qed.
Lemma tlt_clt a b : tlt a b -> clt a b.
Proof.
  unfold Abs.tlt, Abs.clt, tltb, cltb, key. intros H. apply N.ltb_lt in H. cbn [app lexltb].
  destruct (Z.ltb_spec (Z.of_N (c_t a)) (Z.of_N (c_t b))); [reflexivity|lia].
Qed.
Lemma clt_not_tlt a b : clt a b -> ~ tlt b a.
Proof.
  unfold Abs.tlt, Abs.clt, tltb, cltb, key. cbn [app lexltb]. intros H Hc. apply N.ltb_lt in Hc.
  destruct (Z.ltb_spec (Z.of_N (c_t a)) (Z.of_N (c_t b))); [lia|].
  destruct (Z.eqb_spec (Z.of_N (c_t a)) (Z.of_N (c_t b))); [lia|discriminate].
Qed.
Lemma tlt_negtrans a b c : ~ tlt b a -> ~ tlt c b -> ~ tlt c a.
Proof.
  unfold Abs.tlt, tltb. intros H1 H2 H3. apply N.ltb_lt in H3.
  destruct (N.ltb_spec (c_t b) (c_t a)); [apply H1; reflexivity|].
  destruct (N.ltb_spec (c_t c) (c_t b)); [apply H2; reflexivity|]. lia.
Qed.

(* the order of the abstract theory is the runtime's event order (C16 model) on these contents *)
Lemma cltb_is_event_order (l1 l2 : N) (a b : cont) :
  cltb a b = ev_before (mkEv l1 (c_t a) (c_type a) (c_pl a)) (mkEv l2 (c_t b) (c_type b) (c_pl b)).
Proof.
  unfold ev_before. rewrite before_is_lex.
  - unfold cltb, key, content, msg_of, payload, anti_bit. cbn [m_t m_flags m_type m_plsize m_pl e_t e_type e_pl e_dest].
    rewrite !Nat2Z.id. rewrite !firstn_all2 by (rewrite map_length; lia).
    rewrite !map_map. reflexivity.
  - unfold wf_msg, msg_of. cbn. rewrite Nat2Z.id, map_length. lia.
  - unfold wf_msg, msg_of. cbn. rewrite Nat2Z.id, map_length. lia.
Qed.

Section Prog.
Variable p : prog.
Definition nlps : nat := N.to_nat (p_lps p).

Definition out_ok (ty : N) (o : outspec) : bool := ((0 <? o_dt o) || (o_type o <? ty))%N.
Definition prog_valid : bool :=
  (0 <? p_lps p)%N && forallb (fun x => let '(ty, _, r) := x in forallb (out_ok ty) (r_outs r)) (p_rows p).
Hypothesis Hvalid : prog_valid = true.

Definition ev_of (l : nat) (c : cont) : event := mkEv (N.of_nat l) (c_t c) (c_type c) (c_pl c).
Definition cont_of (e : event) : cont := (e_t e, e_type e, e_pl e).
Definition pay_of (e : event) : nat * cont := (N.to_nat (e_dest e), cont_of e).

Definition ahandle (l : nat) (s : lpstate) (c : cont) : lpstate * list (nat * cont) :=
  if (l <? nlps)%nat then
    let '(s', outs) := handle p (ev_of l c) s in (s', map pay_of outs)
  else (s, []).

Definition s0 (l : nat) : lpstate := fst (lp_init p (N.of_nat l)).

Lemma lps_pos : (0 < p_lps p)%N.
Proof. unfold prog_valid in Hvalid. apply andb_true_iff in Hvalid. destruct Hvalid as [H _]. apply N.ltb_lt. exact H. Qed.

Lemma lookup_row_ok rows ty cls :
  forallb (fun x => let '(t, _, r) := x in forallb (out_ok t) (r_outs r)) rows = true ->
  forallb (out_ok ty) (r_outs (lookup_row rows ty cls)) = true.
Proof.
  induction rows as [|[[t c] r] rows IH]; cbn; [reflexivity|].
  intros H. apply andb_true_iff in H. destruct H as [H1 H2].
  destruct (N.eqb_spec t ty) as [->|]; cbn [andb]; [|apply IH; exact H2].
  destruct (N.eqb_spec c cls); [exact H1|apply IH; exact H2].
Qed.

Lemma dest_lt me a o : (me < p_lps p)%N -> (dest_of p me a o < p_lps p)%N.
Proof.
  intros Hme. pose proof lps_pos. unfold dest_of.
  repeat match goal with |- context [if ?c then _ else _] => destruct c end; try assumption; apply N.mod_lt; lia.
Qed.

Lemma make_outs_spec me now a ty : forall os j o,
  (me < p_lps p)%N -> forallb (out_ok ty) os = true -> In o (make_outs p me now a j os) ->
  (e_dest o < p_lps p)%N /\ ((now < e_t o)%N \/ (e_t o = now /\ (e_type o < ty)%N)).
Proof.
  induction os as [|o1 os IH]; intros j o Hme Hok Hin; cbn in *; [contradiction|].
  apply andb_true_iff in Hok. destruct Hok as [H1 H2]. destruct Hin as [<-|Hin].
  - cbn [e_dest e_t e_type]. split; [apply dest_lt; exact Hme|].
    unfold out_ok in H1. apply orb_true_iff in H1. destruct H1 as [H1|H1].
    + apply N.ltb_lt in H1. left. lia.
    + apply N.ltb_lt in H1. destruct (N.eq_dec (o_dt o1) 0) as [E|E]; [right; split; [lia|exact H1]|left; lia].
  - eapply IH; eassumption.
Qed.

Lemma avalid l s c o : In o (snd (ahandle l s c)) -> clt c (snd o) /\ (fst o < nlps)%nat.
Proof.
  unfold ahandle. destruct (Nat.ltb_spec l nlps) as [Hl|Hl]; [|cbn; contradiction].
  unfold handle. destruct (can_end p (e_dest (ev_of l c)) s); [cbn; contradiction|].
  match goal with |- context [lookup_row ?r ?t ?k] => set (rw := lookup_row r t k) end.
  destruct (fold_left _ (r_draws rw) _) as [a3 g]. destruct (fold_left _ (r_mem rw) _) as [a4 sl].
  cbn [snd]. intros Hin. apply in_map_iff in Hin. destruct Hin as (e & <- & He).
  assert (Hme : (e_dest (ev_of l c) < p_lps p)%N) by (cbn; unfold nlps in Hl; lia).
  assert (Hrows : forallb (out_ok (e_type (ev_of l c))) (r_outs rw) = true).
  { unfold rw. apply lookup_row_ok. unfold prog_valid in Hvalid. apply andb_true_iff in Hvalid. apply Hvalid. }
  destruct (make_outs_spec _ _ _ _ _ _ _ Hme Hrows He) as [Hd Ht].
  split; [|cbn; unfold nlps; lia].
  unfold Abs.clt, cltb, key, pay_of, cont_of, c_t, c_type, c_pl. cbn [fst snd app lexltb e_t e_type ev_of].
  cbn [e_t e_type ev_of] in Ht. unfold c_t, c_type in Ht.
  destruct Ht as [Ht|[Ht Hy]].
  - destruct (Z.ltb_spec (Z.of_N (fst (fst c))) (Z.of_N (e_t e))); [reflexivity|lia].
  - rewrite Ht, Z.ltb_irrefl, Z.eqb_refl. cbn.
    destruct (Z.ltb_spec (- Z.of_N (snd (fst c))) (- Z.of_N (e_type e))); [reflexivity|lia].
Qed.

(* the initial messages: the events scheduled by every LP_INIT, numbered from 0 *)
Fixpoint init_events (k : nat) (me : N) : list event :=
  match k with O => [] | S k' => snd (lp_init p me) ++ init_events k' (me + 1) end.
Fixpoint number_init (id : nat) (es : list event) : list (Abs.msg cont) :=
  match es with
  | [] => []
  | e :: r => {| mid := id; mdest := N.to_nat (e_dest e); mc := cont_of e |} :: number_init (S id) r
  end.
Definition ainit : list (Abs.msg cont) := number_init 0 (init_events nlps 0).

Lemma number_init_ids es : forall id, map (mid cont) (number_init id es) = seq id (length es).
Proof. induction es as [|e es IH]; intros id; cbn; [reflexivity|]. rewrite IH. reflexivity. Qed.

Lemma ainit_nodup : NoDup (map (mid cont) ainit).
Proof. unfold ainit. rewrite number_init_ids. apply seq_NoDup. Qed.

Lemma ainit_bound m : In m ainit -> (mid cont m < length (init_events nlps 0))%nat.
Proof.
  intros H. apply (in_map (mid cont)) in H. unfold ainit in H. rewrite number_init_ids in H.
  apply in_seq in H. lia.
Qed.

Lemma lp_init_dest me e : In e (snd (lp_init p me)) -> e_dest e = me.
Proof.
  unfold lp_init. cbn [snd].
  generalize (filter (fun x : N * N * N * N => let '(l, _, _, _) := x in (l =? me)%N) (p_inits p)).
  generalize 0%N. intros j l. revert j. induction l as [|[[[a b] c] d] l IH]; intros j; cbn; [tauto|].
  intros [<-|H]; [reflexivity|eauto].
Qed.

Lemma init_events_dest k : forall me e, In e (init_events k me) -> (me <= e_dest e < me + N.of_nat k)%N.
Proof.
  induction k as [|k IH]; intros me e H; cbn in H; [contradiction|].
  apply in_app_or in H. destruct H as [H|H].
  - apply lp_init_dest in H. lia.
  - apply IH in H. lia.
Qed.

Lemma number_init_dest es : forall id m, In m (number_init id es) -> exists e, In e es /\ mdest cont m = N.to_nat (e_dest e).
Proof.
  induction es as [|e es IH]; intros id m H; cbn in H; [contradiction|].
  destruct H as [<-|H]; [exists e; cbn; auto|]. destruct (IH _ _ H) as (e' & He' & Hd). exists e'. cbn. auto.
Qed.

Lemma ainit_dest m : In m ainit -> (mdest cont m < nlps)%nat.
Proof.
  intros H. destruct (number_init_dest _ _ _ H) as (e & He & ->).
  apply init_events_dest in He. unfold nlps in *. lia.
Qed.

(* ---- C01/C03 capstone, instantiated ---- *)
Theorem app_time_warp_is_sequential (below : cont -> bool) :
  (forall a b, ~ tlt b a -> below b = true -> below a = true) ->
  forall a, ReachM.reach cont cltb tltb lpstate nlps s0 ahandle ainit (length (init_events nlps 0)) a ->
  BridgeM.gvt_ok cont below a ->
  forall tr, Peel.seqrun cont clt lpstate (Bridge.handle_g cont lpstate ahandle below) s0
               (Bridge.Pg cont ainit below) tr ->
  forall l, (l < nlps)%nat -> Peel.proj cont l tr = BridgeM.Hg cont below a l.
Proof.
  intros Hb a R G tr Hrun l Hl.
  eapply (ReachM.time_warp_m_below_gvt_is_sequential cont cltb clt_irrefl clt_trans clt_total tltb tlt_clt
            clt_not_tlt tlt_negtrans lpstate nlps s0 ahandle avalid ainit ainit_dest ainit_nodup below Hb
            (length (init_events nlps 0)) a ainit_bound R G tr Hrun l Hl).
Qed.
End Prog.
