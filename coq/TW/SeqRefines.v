(* The executable reference executor (TW/Seq.v), run to exhaustion, IS a sequential execution in the sense of the abstract
   theory (Abs/Peel.seqrun over the application's handler): the dispatch log it produces is a trace in which every step
   processes a content-minimal pending event.  This connects the object the checks compare the C runtime with to the object
   the capstone theorem of C01 talks about. *)
From Coq Require Import NArith ZArith List Bool Lia Permutation.
From RS Require Import Base.Lex Order.MsgOrderDefs Order.MsgOrderProofs TW.App TW.Seq TW.SeqProofs TW.AppAbs.
From RS.Abs Require Import Peel Abs.
Import ListNotations.

Section Refines.
Variable p : prog.
Hypothesis Hvalid : prog_valid p = true.

Notation seqrunp := (Peel.seqrun cont (Abs.clt cont cltb) lpstate (ahandle p)).
Definition sg_of (lps : list lpstate) : nat -> lpstate := fun l => nth l lps dummy_lp.
Definition pay (e : event) : nat * cont := pay_of e.

Lemma seqrun_ext sg sg' P tr : (forall l, sg l = sg' l) -> seqrunp sg P tr -> seqrunp sg' P tr.
Proof.
  intros E R. revert sg' E. induction R as [sg|sg P e P1 s' o tr Hmin Hperm Hh R IH]; intros sg' E.
  - constructor.
  - eapply Peel.seq_cons; [exact Hmin|exact Hperm|rewrite <- E; exact Hh|].
    apply IH. intros l. unfold Peel.upd. destruct (Nat.eqb l (fst e)); [reflexivity|apply E].
Qed.

Lemma sg_set_lp lps i st : (i < length lps)%nat -> forall l, Peel.upd (sg_of lps) i st l = sg_of (set_lp lps i st) l.
Proof.
  intros Hi l. unfold Peel.upd, sg_of. revert i Hi l. induction lps as [|x r IH]; intros i Hi l; cbn in Hi; [lia|].
  destruct i as [|i]; destruct l as [|l]; cbn; try reflexivity.
  - destruct (Nat.eqb_spec l i) as [->|Hne].
    + specialize (IH i ltac:(lia) i). rewrite Nat.eqb_refl in IH. exact IH.
    + specialize (IH i ltac:(lia) l). destruct (Nat.eqb_spec l i); [contradiction|]. exact IH.
Qed.

Definition dests_ok (evs : list event) : Prop := forall e, In e evs -> (e_dest e < p_lps p)%N.

Lemma ev_roundtrip e : ev_of (N.to_nat (e_dest e)) (cont_of e) = e.
Proof. destruct e as [d t ty pl]. unfold ev_of, cont_of, c_t, c_type, c_pl. cbn. rewrite N2Nat.id. reflexivity. Qed.

Lemma clt_pay y e : Abs.clt cont cltb (snd (pay y)) (snd (pay e)) <-> ev_before y e = true.
Proof.
  unfold Abs.clt, pay, pay_of. cbn [snd]. rewrite (cltb_is_event_order (e_dest y) (e_dest e) (cont_of y) (cont_of e)).
  unfold cont_of, c_t, c_type, c_pl. cbn [fst snd]. destruct y, e. reflexivity.
Qed.

Lemma handle_dests e st : (e_dest e < p_lps p)%N -> dests_ok (snd (handle p e st)).
Proof.
  intros Hd x Hx.
  assert (Hl : (N.to_nat (e_dest e) < nlps p)%nat) by (unfold nlps; lia).
  pose proof (avalid p Hvalid (N.to_nat (e_dest e)) st (cont_of e) (pay_of x)) as Hv.
  unfold ahandle in Hv. destruct (Nat.ltb_spec (N.to_nat (e_dest e)) (nlps p)); [|lia].
  rewrite ev_roundtrip in Hv. destruct (handle p e st) as [st' outs]. cbn [snd] in *.
  destruct (Hv (in_map pay_of outs x Hx)) as [_ Hlt]. unfold pay_of in Hlt. cbn in Hlt. unfold nlps in Hlt. lia.
Qed.

Lemma seqrun_perm sg P P' tr : Permutation P P' -> seqrunp sg P tr -> seqrunp sg P' tr.
Proof.
  intros HP R. destruct R as [sg|sg P e P1 s' o tr [Hin Hmin] Hperm Hh R].
  - apply Permutation_nil in HP. subst. constructor.
  - eapply Peel.seq_cons; [|eapply perm_trans; [apply Permutation_sym; exact HP|exact Hperm]|exact Hh|exact R].
    split; [eapply Permutation_in; eassumption|]. intros y Hy. apply Hmin. eapply Permutation_in; [apply Permutation_sym; exact HP|exact Hy].
Qed.

Lemma set_lp_length lps : forall i st, length (set_lp lps i st) = length lps.
Proof. induction lps as [|x r IH]; intros [|i] st; cbn; auto. Qed.

(* main lemma: from any sorted state whose pending destinations are inside the model, a run to exhaustion is a seqrun *)
Lemma run_is_seqrun fuel : forall s s',
  sorted (q_pending s) -> dests_ok (q_pending s) -> length (q_lps s) = nlps p ->
  seq_run fuel p None false s = (s', true) ->
  exists tr, rev (q_log s') = rev (q_log s) ++ tr /\ seqrunp (sg_of (q_lps s)) (map pay (q_pending s)) (map pay tr).
Proof.
  induction fuel as [|k IH]; intros s s' Hs Hd Hlen R; cbn in R; [discriminate|].
  destruct (seq_step p None false s) as [s1|] eqn:E.
  - destruct (seq_step_spec p None false s s1 Hs E) as (e & rest & Ep & Hmin & Hlog & Hs1 & Hperm & Hlps).
    assert (He : (e_dest e < p_lps p)%N) by (apply Hd; rewrite Ep; left; reflexivity).
    assert (Hi : (N.to_nat (e_dest e) < length (q_lps s))%nat) by (rewrite Hlen; unfold nlps; lia).
    set (st := nth (N.to_nat (e_dest e)) (q_lps s) dummy_lp) in *.
    destruct (IH s1 s' Hs1) as (tr & Etr & Rtr).
    { intros x Hx. apply (Permutation_in _ Hperm) in Hx. apply in_app_or in Hx. destruct Hx as [Hx|Hx].
      - eapply handle_dests; eassumption.
      - apply Hd. rewrite Ep. right. exact Hx. }
    { rewrite Hlps, set_lp_length. exact Hlen. }
    { exact R. }
    exists (e :: tr). split.
    + rewrite Etr, Hlog. cbn. rewrite <- app_assoc. reflexivity.
    + rewrite Ep. cbn [map].
      eapply (Peel.seq_cons cont (Abs.clt cont cltb) lpstate (ahandle p) (sg_of (q_lps s)) (pay e :: map pay rest) (pay e) (map pay rest)
                (fst (handle p e st)) (map pay (snd (handle p e st)))).
      * split; [left; reflexivity|]. intros y Hy Hc. change (pay e :: map pay rest) with (map pay (e :: rest)) in Hy.
        apply in_map_iff in Hy. destruct Hy as (y0 & <- & Hy0). apply clt_pay in Hc.
        rewrite (Hmin y0) in Hc; [discriminate|rewrite Ep; exact Hy0].
      * reflexivity.
      * unfold ahandle, pay, pay_of. cbn [fst snd].
        destruct (Nat.ltb_spec (N.to_nat (e_dest e)) (nlps p)) as [_|Hge]; [|unfold nlps in Hge; lia].
        rewrite ev_roundtrip. unfold sg_of. fold st. destruct (handle p e st) as [st' outs]. reflexivity.
      * eapply seqrun_ext; [intros l; symmetry; apply (sg_set_lp (q_lps s) (N.to_nat (e_dest e)) (fst (handle p e st)) Hi l)|].
        rewrite <- Hlps. eapply seqrun_perm; [|exact Rtr].
        rewrite <- map_app. apply Permutation_map. exact Hperm.
  - injection R as <-. exists []. split; [rewrite app_nil_r; reflexivity|].
    unfold seq_step in E. destruct (q_pending s) as [|e rest]; [constructor|].
    cbn in E. destruct (handle p e (nth (N.to_nat (e_dest e)) (q_lps s) dummy_lp)). discriminate.
Qed.

(* agreement of the state functions on the LPs of the model is enough *)
Lemma seqrun_ext_range sg sg' P tr :
  (forall l, (l < nlps p)%nat -> sg l = sg' l) -> (forall e, In e P -> (fst e < nlps p)%nat) ->
  seqrunp sg P tr -> seqrunp sg' P tr.
Proof.
  intros E HP R. revert sg' E HP. induction R as [sg|sg P e P1 s' o tr Hmin Hperm Hh R IH]; intros sg' E HP.
  - constructor.
  - assert (He : (fst e < nlps p)%nat) by (apply HP; apply Hmin).
    eapply Peel.seq_cons; [exact Hmin|exact Hperm|rewrite <- (E _ He); exact Hh|].
    apply IH.
    + intros l Hl. unfold Peel.upd. destruct (Nat.eqb l (fst e)); [reflexivity|apply E; exact Hl].
    + intros x Hx. apply in_app_or in Hx. destruct Hx as [Hx|Hx].
      * pose proof (avalid p Hvalid (fst e) (sg (fst e)) (snd e) x) as Hv. rewrite Hh in Hv. apply Hv. exact Hx.
      * apply HP. eapply Permutation_in; [apply Permutation_sym; exact Hperm|right; exact Hx].
Qed.

Lemma init_lps_spec n : forall me acc pend,
  fst (init_lps p n me acc pend) = rev acc ++ map (fun k => fst (lp_init p (me + N.of_nat k))) (seq 0 n) /\
  Permutation (snd (init_lps p n me acc pend)) (init_events p n me ++ pend).
Proof.
  induction n as [|k IH]; intros me acc pend; cbn [init_lps init_events].
  - cbn. rewrite app_nil_r. split; reflexivity.
  - destruct (lp_init p me) as [st evs] eqn:El. destruct (IH (me + 1)%N (st :: acc) (fold_left (fun q e => insert_ev e q) evs pend)) as [H1 H2].
    split.
    + rewrite H1. cbn [rev]. rewrite <- app_assoc. cbn [app seq map]. f_equal. f_equal.
      * rewrite N.add_0_r, El. reflexivity.
      * rewrite <- seq_shift, map_map. apply map_ext. intros a. f_equal. f_equal. lia.
    + eapply perm_trans; [exact H2|]. cbn [snd].
      eapply perm_trans; [apply Permutation_app_head; apply inserts_perm|].
      rewrite !app_assoc. apply Permutation_app_tail. apply Permutation_app_comm.
Qed.

(* The reference executor, started as the runtime starts (LP_INIT for every LP) and run to exhaustion, produces a dispatch log
   that is a sequential execution of the application from the initial states, over exactly the initial events. *)
Theorem reference_run_is_sequential fuel b s' :
  seq_run fuel p None false (seq_init p b) = (s', true) ->
  seqrunp (s0 p) (map pay (init_events p (nlps p) 0)) (map pay (rev (q_log s'))).
Proof.
  intros R. unfold seq_init in R.
  pose proof (init_lps_spec (N.to_nat (p_lps p)) 0%N [] []) as [H1 H2].
  pose proof (init_lps_sorted p (N.to_nat (p_lps p)) 0%N [] [] sorted_nil) as Hsorted.
  destruct (init_lps p (N.to_nat (p_lps p)) 0%N [] []) as [lps pend]. cbn [fst snd] in *.
  rewrite app_nil_r in H2. cbn [rev app] in H1.
  set (st0 := mkSeq pend lps (map (fun x => b && can_end p (N.of_nat (fst x)) (snd x)) (combine (seq 0 (length lps)) lps)) []) in *.
  assert (Hlen : length lps = nlps p) by (rewrite H1, map_length, seq_length; reflexivity).
  assert (Hd : dests_ok (q_pending st0)).
  { intros e He. cbn in He. apply (Permutation_in _ H2) in He. fold (nlps p) in He.
    apply init_events_dest in He. unfold nlps in He. lia. }
  destruct (run_is_seqrun fuel st0 s' Hsorted Hd Hlen R) as (tr & Etr & Rtr). cbn in Etr. subst tr.
  eapply seqrun_perm; [apply Permutation_map; exact H2|].
  eapply seqrun_ext_range; [| |exact Rtr].
  - intros l Hl. unfold sg_of, s0. cbn [q_lps st0]. rewrite H1.
    rewrite (nth_indep _ dummy_lp (fst (lp_init p 0%N))) by (rewrite map_length, seq_length; exact Hl).
    change (fst (lp_init p 0%N)) with ((fun k => fst (lp_init p (0 + N.of_nat k))) 0%nat).
    rewrite map_nth. rewrite seq_nth by exact Hl. reflexivity.
  - intros e He. apply in_map_iff in He. destruct He as (x & <- & Hx). cbn. apply Hd in Hx. unfold nlps. lia.
Qed.
End Refines.

(* ---- the loop closed: at quiescence the histories of any Time Warp execution are the reference executor's log ---- *)
Lemma seqrun_handler_ext (C St : Type) (clt : C -> C -> Prop) (h1 h2 : nat -> St -> C -> St * list (nat * C)) :
  (forall l s c, h1 l s c = h2 l s c) -> forall sg P tr, Peel.seqrun C clt St h1 sg P tr -> Peel.seqrun C clt St h2 sg P tr.
Proof.
  intros E sg P tr R. induction R as [sg|sg P e P1 s' o tr Hmin Hperm Hh R IH]; [constructor|].
  eapply Peel.seq_cons; [exact Hmin|exact Hperm|rewrite <- E; exact Hh|exact IH].
Qed.

Lemma filter_true (A : Type) (l : list A) : filter (fun _ => true) l = l.
Proof. induction l as [|x l IH]; cbn; [reflexivity|rewrite IH; reflexivity]. Qed.

Lemma pay_number_init es : forall id, map (Bridge.pay cont) (number_init id es) = map pay es.
Proof. induction es as [|e es IH]; intros id; cbn; [reflexivity|]. rewrite IH. reflexivity. Qed.

Theorem time_warp_at_quiescence_is_reference_log (p : prog) : prog_valid p = true ->
  forall a, ReachM.reach cont cltb tltb lpstate (nlps p) (s0 p) (ahandle p) (ainit p) (length (init_events p (nlps p) 0)) a ->
  BridgeM.gvt_ok cont (fun _ => true) a ->
  forall fuel b s', seq_run fuel p None false (seq_init p b) = (s', true) ->
  forall l, (l < nlps p)%nat ->
  Peel.proj cont l (map pay (rev (q_log s'))) = map (Abs.con cont) (AbsM.hist cont a l).
Proof.
  intros Hv a Hreach Hok fuel b s' Hrun l Hl.
  pose proof (reference_run_is_sequential p Hv fuel b s' Hrun) as R.
  rewrite (app_time_warp_is_sequential p Hv (fun _ => true) (fun _ _ _ _ => eq_refl) a Hreach Hok _ 
             ltac:(unfold Bridge.Pg; rewrite filter_true; unfold ainit; rewrite pay_number_init;
                   eapply seqrun_handler_ext; [|exact R]; intros l0 s c; unfold Bridge.handle_g;
                   destruct (ahandle p l0 s c) as [s1 o]; rewrite filter_true; reflexivity) l Hl).
  unfold BridgeM.Hg. rewrite filter_true. reflexivity.
Qed.
