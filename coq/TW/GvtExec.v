(* Executable step function of the c_a / c_b phase protocol (one transition of one thread), sound with respect to
   the relational model of TW/GvtCounters.v; used to replay the phase transitions traced from gvt.c. *)
From Coq Require Import List Arith Bool Lia.
From RS Require Import TW.GvtCounters.
Import ListNotations.

Definition n_of (s : st) : nat := length (ths s).

Definition gstep (s : st) (i : nat) (to : ph) : option st :=
  match nth_error (ths s) i, to with
  | Some I, A => if Nat.eqb (cnt I (ths s)) (n_of s) || negb (Nat.eqb (cb s) 0)
                 then Some {| ths := upd (ths s) i A; ca := ca s; cb := cb s |} else None
  | Some A, B => if Nat.eqb (ca s) 0 then Some {| ths := upd (ths s) i B; ca := ca s; cb := S (cb s) |} else None
  | Some B, C => if Nat.eqb (cb s) (n_of s) then Some {| ths := upd (ths s) i C; ca := S (ca s); cb := cb s |} else None
  | Some C, D => if Nat.eqb (ca s) (n_of s) then Some {| ths := upd (ths s) i D; ca := ca s; cb := cb s - 1 |} else None
  | Some D, A => if Nat.eqb (cb s) 0 then Some {| ths := upd (ths s) i A; ca := ca s - 1; cb := cb s |} else None
  | Some D, I => if Nat.eqb (cb s) 0 then Some {| ths := upd (ths s) i I; ca := ca s - 1; cb := cb s |} else None
  | _, _ => None
  end.

Theorem gstep_sound s i to s' : gstep s i to = Some s' -> step s s'.
Proof.
  unfold gstep. destruct (nth_error (ths s) i) as [p|] eqn:Hi; [|discriminate].
  destruct p, to; try discriminate.
  - destruct (Nat.eqb (cnt I (ths s)) (n_of s) || negb (Nat.eqb (cb s) 0)) eqn:G; [|discriminate].
    intros E. injection E as <-. apply (start s i Hi).
    apply orb_true_iff in G. destruct G as [G|G].
    + left. apply Nat.eqb_eq in G. exact G.
    + right. apply negb_true_iff, Nat.eqb_neq in G. exact G.
  - destruct (Nat.eqb_spec (ca s) 0); [|discriminate]. intros E. injection E as <-. apply (stepA s i Hi). assumption.
  - destruct (Nat.eqb_spec (cb s) (n_of s)); [|discriminate]. intros E. injection E as <-. apply (stepB s i Hi). assumption.
  - destruct (Nat.eqb_spec (ca s) (n_of s)); [|discriminate]. intros E. injection E as <-. apply (stepC s i Hi). assumption.
  - destruct (Nat.eqb_spec (cb s) 0); [|discriminate]. intros E. injection E as <-. apply (stepD s i I Hi); [assumption|right; reflexivity].
  - destruct (Nat.eqb_spec (cb s) 0); [|discriminate]. intros E. injection E as <-. apply (stepD s i A Hi); [assumption|left; reflexivity].
Qed.

(* replay of a whole trace: None as soon as a traced transition is not enabled in the model *)
Fixpoint greplay (s : st) (tr : list (nat * ph)) : option st :=
  match tr with
  | [] => Some s
  | (i, to) :: r => match gstep s i to with Some s' => greplay s' r | None => None end
  end.

(* every state a successfully replayed trace goes through satisfies the protocol invariant *)
Theorem greplay_inv tr : forall s s', Inv s -> greplay s tr = Some s' -> Inv s'.
Proof.
  induction tr as [|[i to] r IH]; intros s s' HI E; cbn in E.
  - injection E as <-. exact HI.
  - destruct (gstep s i to) as [s1|] eqn:G; [|discriminate].
    apply (IH s1 s'); [|exact E]. eapply step_inv; [exact HI|]. eapply gstep_sound; exact G.
Qed.

Definition gvt_init (n : nat) : st := GvtCounters.init n.
