(* Proofs about the worker model (TW/Worker.v).
   Main result (C05 at the level of process.c): in every state the worker can reach by any script, the memory of every LP is
   exactly what executing the processed messages of its retained history, in order, from its oldest retained checkpoint gives,
   and every retained checkpoint is what executing the history up to its reference gives.  Rollback (checkpoint restore +
   silent re-execution), forward execution with periodic checkpoints, and fossil collection with re-basing all keep it. *)
From Coq Require Import List ZArith NArith Bool Arith Lia Sorted FMapPositive.
From RS Require Import Order.MsgOrderDefs Heap.HeapList TW.App TW.Seq TW.Worker.
Import ListNotations.

Section Proofs.
Variable p : prog.
Variable ck : nat.

Notation replay := (replay p).

(* ---------- lists ---------- *)
Lemma replay_app st a b : replay st (a ++ b) = replay (replay st a) b.
Proof. unfold Worker.replay. apply fold_left_app. Qed.

Lemma skipn_skipn {A} (l : list A) : forall a b, skipn a (skipn b l) = skipn (a + b) l.
Proof.
  induction l as [|x l IH]; intros a b; [rewrite !skipn_nil; reflexivity|].
  destruct b as [|b]; [rewrite Nat.add_0_r; reflexivity|].
  rewrite Nat.add_succ_r. cbn [skipn]. apply IH.
Qed.

Lemma sub_full {A} (h : list A) a : sub h a (length h) = skipn a h.
Proof. unfold sub. apply firstn_all2. rewrite skipn_length. lia. Qed.

Lemma sub_over {A} (h : list A) a t : length h <= t -> sub h a t = skipn a h.
Proof. intros H. unfold sub. apply firstn_all2. rewrite skipn_length. lia. Qed.

Lemma sub_split {A} (h : list A) a b c : a <= b -> b <= c -> sub h a c = sub h a b ++ sub h b c.
Proof.
  intros H1 H2. unfold sub.
  replace (c - a) with ((b - a) + (c - b)) by lia.
  rewrite <- (firstn_skipn (b - a) (skipn a h)) at 1.
  rewrite firstn_app. rewrite firstn_firstn.
  replace (Nat.min (b - a + (c - b)) (b - a)) with (b - a) by lia.
  f_equal.
  rewrite firstn_length. rewrite skipn_length.
  destruct (Nat.le_gt_cases (b - a) (length h - a)) as [Hle|Hgt].
  - replace (b - a + (c - b) - Nat.min (b - a) (length h - a)) with (c - b) by lia.
    rewrite skipn_skipn. replace (b - a + a) with b by lia. reflexivity.
  - (* b beyond the end: both sides empty *)
    rewrite (skipn_all2 (n := b - a)) by (rewrite skipn_length; lia).
    rewrite firstn_nil. rewrite (skipn_all2 (n := b)) by lia. rewrite firstn_nil. reflexivity.
Qed.

Lemma sub_firstn {A} (h : list A) k a t : t <= k -> sub (firstn k h) a t = sub h a t.
Proof.
  intros H. unfold sub. revert k a t H. induction h as [|x h IH]; intros k a t H.
  - rewrite firstn_nil. reflexivity.
  - destruct k as [|k].
    + assert (t = 0) by lia. subst. cbn. reflexivity.
    + destruct a as [|a].
      * cbn [skipn firstn]. replace (t - 0) with t by lia. destruct t as [|t]; [reflexivity|].
        cbn [firstn]. f_equal. specialize (IH k 0 t ltac:(lia)). cbn [skipn] in IH. replace (t - 0) with t in IH by lia. exact IH.
      * cbn [firstn skipn]. destruct t as [|t]; [cbn; reflexivity|].
        replace (S t - S a) with (t - a) by lia. apply IH. lia.
Qed.

Lemma sub_app_l {A} (h e : list A) a t : t <= length h -> sub (h ++ e) a t = sub h a t.
Proof.
  intros H. rewrite <- (sub_firstn (h ++ e) (length h) a t H).
  rewrite firstn_app, firstn_all, Nat.sub_diag, firstn_O, app_nil_r. reflexivity.
Qed.

Lemma skipn_app_l {A} (h e : list A) a : a <= length h -> skipn a (h ++ e) = skipn a h ++ e.
Proof. intros H. rewrite skipn_app. replace (a - length h) with 0 by lia. reflexivity. Qed.

Lemma sub_skipn {A} (h : list A) k a t : sub (skipn k h) a t = sub h (a + k) (t + k).
Proof. unfold sub. rewrite skipn_skipn. f_equal. lia. Qed.

(* ---------- the checkpoint log ---------- *)
Definition decr (a b : nat * lpstate) : Prop := fst b < fst a.

Lemma drop_newer_spec logs ref : StronglySorted decr logs ->
  match drop_newer logs ref with
  | [] => forall g, In g logs -> ref < fst g
  | g :: older => exists pre, logs = pre ++ g :: older /\ fst g <= ref /\ forall x, In x pre -> ref < fst x
  end.
Proof.
  induction logs as [|g r IH]; intros Hs; cbn [drop_newer].
  - intros g [].
  - destruct (Nat.leb_spec (fst g) ref) as [Hle|Hgt].
    + exists []. split; [reflexivity|]. split; [exact Hle|intros x []].
    + inversion Hs as [|? ? Hs' Hall]; subst. specialize (IH Hs').
      destruct (drop_newer r ref) as [|g' older].
      * intros x [<-|Hx]; [exact Hgt|apply IH; exact Hx].
      * destruct IH as (pre & E & Hle & Hpre). exists (g :: pre). split; [rewrite E; reflexivity|].
        split; [exact Hle|]. intros x [<-|Hx]; [exact Hgt|apply Hpre; exact Hx].
Qed.

Lemma sorted_app_r {A} (R : A -> A -> Prop) a b : StronglySorted R (a ++ b) -> StronglySorted R b.
Proof. induction a as [|x a IH]; cbn; intros H; [exact H|]. inversion H; subst. apply IH. assumption. Qed.
Lemma sorted_app_l {A} (R : A -> A -> Prop) a b : StronglySorted R (a ++ b) -> StronglySorted R a.
Proof.
  induction a as [|x a IH]; cbn; intros H; [constructor|]. inversion H as [|? ? Hs Hall]; subst.
  constructor; [apply IH; exact Hs|]. rewrite Forall_forall in *. intros y Hy. apply Hall. apply in_or_app. left. exact Hy.
Qed.
Lemma sorted_app_cross {A} (R : A -> A -> Prop) a b x y : StronglySorted R (a ++ b) -> In x a -> In y b -> R x y.
Proof.
  induction a as [|z a IH]; cbn; intros H Hx Hy; [contradiction|]. inversion H as [|? ? Hs Hall]; subst.
  destruct Hx as [<-|Hx].
  - rewrite Forall_forall in Hall. apply Hall. apply in_or_app. right. exact Hy.
  - apply IH; assumption.
Qed.

(* the invariant of one LP: [logs] newest first, the oldest one is the base *)
Definition lp_ok (x : lpx) : Prop :=
  exists newer r0 s0,
    x_logs x = newer ++ [(r0, s0)] /\
    StronglySorted decr (x_logs x) /\
    (forall r s, In (r, s) (x_logs x) -> r <= length (x_hist x) /\ s = replay s0 (sub (x_hist x) r0 r)) /\
    x_st x = replay s0 (skipn r0 (x_hist x)).

Lemma base_least newer r0 (s0 : lpstate) r s : StronglySorted decr (newer ++ [(r0, s0)]) -> In (r, s) (newer ++ [(r0, s0)]) -> r0 <= r.
Proof.
  intros Hs Hin. apply in_app_or in Hin. destruct Hin as [Hin|[E|[]]].
  - pose proof (sorted_app_cross decr newer [(r0, s0)] (r, s) (r0, s0) Hs Hin (or_introl eq_refl)) as H. unfold decr in H. cbn in H. lia.
  - injection E as <- <-. lia.
Qed.

(* a non-empty suffix of the log keeps its base *)
Lemma suffix_base (pre : list (nat * lpstate)) g older newer r0 s0 :
  pre ++ g :: older = newer ++ [(r0, s0)] -> exists newer', g :: older = newer' ++ [(r0, s0)].
Proof.
  revert newer. induction pre as [|x pre IH]; intros newer E.
  - exists newer. exact E.
  - destruct newer as [|y newer].
    + cbn in E. injection E as _ E. destruct pre; discriminate.
    + cbn in E. injection E as _ E. apply (IH newer). exact E.
Qed.

(* ---------- rollback ---------- *)
Lemma rollback_lp_ok x past ref snap older :
  lp_ok x -> drop_newer (x_logs x) past = (ref, snap) :: older ->
  let hist' := firstn past (x_hist x) in
  lp_ok (mkLpx hist' (x_bound x) (replay snap (sub hist' ref past)) ((ref, snap) :: older) (x_rem x) (x_epoch x)).
Proof.
  intros (newer & r0 & s0 & El & Hs & Hsn & Hst) Hd hist'.
  pose proof (drop_newer_spec (x_logs x) past Hs) as Hspec. rewrite Hd in Hspec.
  destruct Hspec as (pre & E & Hle & Hpre). cbn [fst] in Hle.
  destruct (suffix_base pre (ref, snap) older newer r0 s0 ltac:(rewrite <- E; exact El)) as (newer' & E').
  assert (Hsuf : StronglySorted decr ((ref, snap) :: older)) by (rewrite E in Hs; apply (sorted_app_r _ _ _ Hs)).
  assert (Hin : forall g, In g ((ref, snap) :: older) -> In g (x_logs x)) by (intros g Hg; rewrite E; apply in_or_app; right; exact Hg).
  assert (Hrefs : forall r s, In (r, s) ((ref, snap) :: older) -> r <= ref).
  { intros r s [Eq|Hr]; [injection Eq as <- _; lia|]. inversion Hsuf as [|? ? _ Hall]; subst.
    rewrite Forall_forall in Hall. specialize (Hall _ Hr). unfold decr in Hall. cbn in Hall. lia. }
  assert (Hr0 : r0 <= ref).
  { apply (base_least newer' r0 s0 ref snap); [rewrite <- E'; exact Hsuf|rewrite <- E'; left; reflexivity]. }
  destruct (Hsn ref snap (Hin _ (or_introl eq_refl))) as [Hreflen Hsnap].
  exists newer', r0, s0. cbn [x_logs x_hist x_st]. split; [exact E'|]. split; [exact Hsuf|]. split.
  - intros r s Hr. destruct (Hsn r s (Hin _ Hr)) as [Hlen Es]. specialize (Hrefs r s Hr). split.
    + unfold hist'. rewrite firstn_length. lia.
    + unfold hist'. rewrite sub_firstn by lia. exact Es.
  - rewrite Hsnap. rewrite <- replay_app. f_equal.
    assert (Esub : sub hist' ref past = skipn ref hist').
    { unfold hist'. apply sub_over. rewrite firstn_length. lia. }
    rewrite Esub. unfold hist'.
    rewrite <- (sub_firstn (x_hist x) past r0 ref Hle).
    fold hist'. symmetry. rewrite <- (firstn_skipn (ref - r0) (skipn r0 hist')) at 1.
    unfold sub. f_equal. rewrite skipn_skipn. f_equal. lia.
Qed.

(* ---------- forward execution ---------- *)
Lemma send_all_lps outs : forall w acc, k_lps (fst (send_all w outs acc)) = k_lps w.
Proof. induction outs as [|e r IH]; intros w acc; cbn [send_all]; [reflexivity|]. rewrite IH. reflexivity. Qed.

Definition all_sent (es : list entry) : Prop := Forall (fun e => is_proc e = false) es.
Lemma send_all_marks outs : forall w acc, all_sent acc -> all_sent (snd (send_all w outs acc)).
Proof.
  induction outs as [|e r IH]; intros w acc Ha; cbn [send_all snd].
  - unfold all_sent in *. apply Forall_rev. exact Ha.
  - apply IH. constructor; [reflexivity|exact Ha].
Qed.
Lemma replay_sent st es : all_sent es -> replay st es = st.
Proof.
  induction es as [|e es IH]; intros H; [reflexivity|]. inversion H as [|? ? He Hes]; subst.
  destruct e as [m|m]; [|discriminate]. cbn. apply IH. exact Hes.
Qed.

Lemma forward_lp_ok x (m : wmsg) marks : lp_ok x -> all_sent marks ->
  let st' := fst (handle p (wm_ev m) (x_st x)) in
  let hist' := x_hist x ++ marks ++ [EProc m] in
  forall take b rem,
  lp_ok (mkLpx hist' b st' (if take : bool then (length hist', st') :: x_logs x else x_logs x) rem (x_epoch x)).
Proof.
  intros (newer & r0 & s0 & El & Hs & Hsn & Hst) Hm st' hist' take b rem.
  assert (Hr0 : r0 <= length (x_hist x)).
  { destruct (Hsn r0 s0) as [H _]; [rewrite El; apply in_or_app; right; left; reflexivity|exact H]. }
  assert (Est : st' = replay s0 (skipn r0 hist')).
  { unfold hist'. rewrite skipn_app_l by exact Hr0. rewrite replay_app, <- Hst, replay_app, (replay_sent _ _ Hm). reflexivity. }
  assert (Hlen : length (x_hist x) < length hist') by (unfold hist'; rewrite !app_length; cbn; lia).
  assert (Hold : forall r s, In (r, s) (x_logs x) -> r <= length hist' /\ s = replay s0 (sub hist' r0 r)).
  { intros r s Hr. destruct (Hsn r s Hr) as [Hl Es]. split; [lia|]. unfold hist'. rewrite sub_app_l by exact Hl. exact Es. }
  destruct take.
  - exists ((length hist', st') :: newer), r0, s0. cbn [x_logs x_hist x_st]. split; [rewrite El; reflexivity|]. split.
    + constructor; [exact Hs|]. rewrite Forall_forall. intros [r s] Hr. unfold decr. cbn. destruct (Hsn r s Hr). lia.
    + split; [|exact Est]. intros r s [E|Hr]; [|apply Hold; exact Hr].
      injection E as <- <-. split; [lia|]. rewrite sub_full. exact Est.
  - exists newer, r0, s0. cbn [x_logs x_hist x_st]. split; [exact El|]. split; [exact Hs|]. split; [exact Hold|exact Est].
Qed.

(* ---------- fossil collection ---------- *)
Lemma sorted_map_rebase (logs : list (nat * lpstate)) ref : StronglySorted decr logs -> (forall g, In g logs -> ref <= fst g) ->
  StronglySorted decr (map (fun g => (fst g - ref, snd g)) logs).
Proof.
  induction logs as [|g r IH]; intros Hs Hge; cbn; [constructor|]. inversion Hs as [|? ? Hs' Hall]; subst.
  constructor; [apply IH; [exact Hs'|intros x Hx; apply Hge; right; exact Hx]|].
  rewrite Forall_forall in *. intros y Hy. apply in_map_iff in Hy. destruct Hy as (z & <- & Hz).
  specialize (Hall z Hz). unfold decr in *. cbn. pose proof (Hge z (or_intror Hz)). pose proof (Hge g (or_introl eq_refl)). lia.
Qed.

Lemma fossil_lp_ok x tgt ref snap older epoch :
  lp_ok x -> drop_newer (x_logs x) tgt = (ref, snap) :: older ->
  let kept := firstn (length (x_logs x) - length (drop_newer (x_logs x) tgt) + 1) (x_logs x) in
  lp_ok (mkLpx (skipn ref (x_hist x)) (x_bound x) (x_st x) (map (fun g => (fst g - ref, snd g)) kept) (x_rem x) epoch).
Proof.
  intros (newer & r0 & s0 & El & Hs & Hsn & Hst) Hd kept.
  pose proof (drop_newer_spec (x_logs x) tgt Hs) as Hspec. rewrite Hd in Hspec.
  destruct Hspec as (pre & E & Hle & Hpre). cbn [fst] in Hle.
  assert (Ek : kept = pre ++ [(ref, snap)]).
  { unfold kept. rewrite Hd. rewrite E at 1 2. rewrite app_length. cbn [length].
    replace (length pre + S (length older) - S (length older) + 1) with (length (pre ++ [(ref, snap)])) by (rewrite app_length; cbn; lia).
    replace (pre ++ (ref, snap) :: older) with ((pre ++ [(ref, snap)]) ++ older) by (rewrite <- app_assoc; reflexivity).
    rewrite firstn_app, firstn_all, Nat.sub_diag, firstn_O, app_nil_r. reflexivity. }
  assert (Hks : StronglySorted decr kept).
  { rewrite Ek. apply (sorted_app_l decr _ older). rewrite <- app_assoc. cbn. rewrite <- E. exact Hs. }
  assert (Hkin : forall g, In g kept -> In g (x_logs x)).
  { intros g Hg. rewrite Ek in Hg. rewrite E. apply in_app_or in Hg. apply in_or_app. destruct Hg as [Hg|[<-|[]]]; [left; exact Hg|right; left; reflexivity]. }
  assert (Hkge : forall g, In g kept -> ref <= fst g).
  { intros [r s] Hg. rewrite Ek in Hg.
    apply (base_least pre ref snap r s); [rewrite <- Ek; exact Hks|exact Hg]. }
  destruct (Hsn ref snap (Hkin _ ltac:(rewrite Ek; apply in_or_app; right; left; reflexivity))) as [Hreflen Hsnap].
  assert (Hr0 : r0 <= ref).
  { apply (base_least newer r0 s0 ref snap); [rewrite <- El; exact Hs|rewrite <- El; apply Hkin; rewrite Ek; apply in_or_app; right; left; reflexivity]. }
  exists (map (fun g => (fst g - ref, snd g)) pre), 0, snap. cbn [x_logs x_hist x_st]. split.
  - rewrite Ek, map_app. cbn. rewrite Nat.sub_diag. reflexivity.
  - split; [apply sorted_map_rebase; assumption|]. split.
    + intros r s Hr. apply in_map_iff in Hr. destruct Hr as ([r1 s1] & Eq & Hg). cbn in Eq. injection Eq as <- <-.
      destruct (Hsn r1 s1 (Hkin _ Hg)) as [Hl Es]. pose proof (Hkge _ Hg) as Hge. cbn in Hge. split.
      * rewrite skipn_length. lia.
      * rewrite sub_skipn. cbn [Nat.add]. replace (r1 - ref + ref) with r1 by lia.
        rewrite Es. rewrite (sub_split (x_hist x) r0 ref r1 Hr0 Hge). rewrite replay_app, <- Hsnap. reflexivity.
    + cbn [skipn]. rewrite Hst.
      rewrite <- (firstn_skipn (ref - r0) (skipn r0 (x_hist x))). rewrite replay_app.
      rewrite skipn_skipn. replace (ref - r0 + r0) with ref by lia.
      f_equal. rewrite Hsnap. reflexivity.
Qed.


(* ---------- the whole worker ---------- *)
Notation do_rollback := (Worker.do_rollback p).
Notation forward := (Worker.forward p ck).
Notation process_msg := (Worker.process_msg p ck).
Notation run_out := (Worker.run_out p ck).
Notation wstep := (Worker.wstep p ck).
Notation init_lp := (Worker.init_lp p).
Definition all_ok (w : worker) : Prop := Forall lp_ok (k_lps w).

Lemma set_nth_forall {A} (P : A -> Prop) (l : list A) i x : Forall P l -> (i < length l -> P x) -> Forall P (set_nth l i x).
Proof.
  revert i. induction l as [|h t IH]; intros i Hl Hx; cbn; [constructor|]. inversion Hl; subst.
  destruct i as [|j]; constructor; auto.
  - apply Hx. cbn. lia.
  - apply IH; [assumption|]. intros Hj. apply Hx. cbn. lia.
Qed.

Lemma put_ok w l x : all_ok w -> (l < length (k_lps w) -> lp_ok x) -> all_ok (put_lp w l x).
Proof. intros H Hx. unfold all_ok, put_lp, set_lps. cbn. apply set_nth_forall; assumption. Qed.

Lemma get_ok w l : all_ok w -> l < length (k_lps w) -> lp_ok (get_lp w l).
Proof. intros H Hl. unfold all_ok in H. rewrite Forall_forall in H. apply H. unfold get_lp. apply nth_In. exact Hl. Qed.

Lemma undo_entry_lps w e : k_lps (undo_entry w e) = k_lps w.
Proof.
  unfold undo_entry. destruct e as [m|m].
  - destruct (flag_add (k_flags w) (wm_id m) FLAG_ANTI) as [o f]. destruct (has o FLAG_PROC); reflexivity.
  - destruct (flag_sub (k_flags w) (wm_id m) FLAG_PROC) as [o f]. destruct (has o FLAG_ANTI); reflexivity.
Qed.
Lemma undo_all_lps es : forall w, k_lps (fold_left undo_entry es w) = k_lps w.
Proof. induction es as [|e es IH]; intros w; cbn; [reflexivity|]. rewrite IH. apply undo_entry_lps. Qed.

Lemma do_rollback_ok w l past : all_ok w -> all_ok (do_rollback w l past).
Proof.
  intros H. unfold do_rollback.
  set (w1 := fold_left undo_entry (skipn past (x_hist (get_lp w l))) w).
  assert (E1 : k_lps w1 = k_lps w) by apply undo_all_lps.
  assert (H1 : all_ok w1) by (unfold all_ok; rewrite E1; exact H).
  destruct (drop_newer (x_logs (get_lp w l)) past) as [|[ref snap] older] eqn:Hd.
  - unfold all_ok, set_err. cbn. exact H1.
  - apply put_ok; [exact H1|]. intros Hl. rewrite E1 in Hl.
    apply (rollback_lp_ok (get_lp w l) past ref snap older); [apply get_ok; assumption|exact Hd].
Qed.

Lemma fix_bound_ok x : lp_ok x -> lp_ok (fix_bound x).
Proof.
  intros H. unfold fix_bound. destruct (x_hist x) eqn:E; [|exact H].
  destruct H as (newer & r0 & s0 & El & Hs & Hsn & Hst). exists newer, r0, s0. cbn [x_logs x_hist x_st].
  rewrite E in Hsn, Hst. split; [exact El|]. split; [exact Hs|]. split; [exact Hsn|exact Hst].
Qed.

Lemma fossil_ok w l : all_ok w -> all_ok (fossil_lp w l).
Proof.
  intros H. unfold fossil_lp.
  destruct (newest_below (k_gvt w) (rev (x_hist (get_lp w l))) (length (x_hist (get_lp w l)))) as [past|]; [|exact H].
  destruct (drop_newer (x_logs (get_lp w l)) (past + 1)) as [|[ref snap] older] eqn:Hd.
  - exact H.
  - apply put_ok; [exact H|]. intros Hl.
    pose proof (fossil_lp_ok (get_lp w l) (past + 1) ref snap older (k_epoch w) (get_ok w l H Hl) Hd) as Hf.
    rewrite Hd in Hf. exact Hf.
Qed.

Lemma forward_ok w l m : all_ok w -> all_ok (forward w l m).
Proof.
  intros H. unfold forward.
  destruct (handle p (wm_ev m) (x_st (get_lp w l))) as [st' outs] eqn:Eh.
  destruct (send_all w outs []) as [w1 marks] eqn:Es.
  assert (E1 : k_lps w1 = k_lps w) by (pose proof (send_all_lps outs w []) as X; rewrite Es in X; exact X).
  assert (Hm : all_sent marks) by (pose proof (send_all_marks outs w [] (Forall_nil _)) as X; rewrite Es in X; exact X).
  apply put_ok; [unfold all_ok; rewrite E1; exact H|]. intros Hl. rewrite E1 in Hl.
  pose proof (forward_lp_ok (get_lp w l) m marks (get_ok w l H Hl) Hm) as Hf. cbn zeta in Hf. rewrite Eh in Hf. cbn [fst] in Hf.
  apply Hf.
Qed.

Lemma queue_lps w : k_lps (wq_transfer w) = k_lps w. Proof. reflexivity. Qed.
Lemma extract_lps w : k_lps (snd (wq_extract w)) = k_lps w.
Proof. unfold wq_extract. destruct (heap_extract _ _ _ _) as [[m h]|]; reflexivity. Qed.

Lemma process_msg_ok w : all_ok w -> all_ok (process_msg w).
Proof.
  intros H. unfold process_msg.
  pose proof (extract_lps w) as Ex. destruct (wq_extract w) as [[m|] w1]; cbn [snd] in Ex; [|unfold all_ok; rewrite Ex; exact H].
  assert (H1 : all_ok w1) by (unfold all_ok; rewrite Ex; exact H).
  set (l := N.to_nat (e_dest (wm_ev m))).
  set (w2 := if Nat.eqb (x_epoch (get_lp w1 l)) (k_epoch w1) then w1 else let w' := fossil_lp w1 l in put_lp w' l (fix_bound (get_lp w' l))).
  assert (H2 : all_ok w2).
  { unfold w2. destruct (Nat.eqb _ _); [exact H1|]. cbn zeta. apply put_ok; [apply fossil_ok; exact H1|].
    intros Hl. apply fix_bound_ok. apply get_ok; [apply fossil_ok; exact H1|exact Hl]. }
  destruct (flag_add (k_flags w2) (wm_id m) FLAG_PROC) as [o f].
  assert (H3 : all_ok (set_flags w2 f)) by exact H2.
  destruct (has o FLAG_ANTI).
  - set (w4 := if N.eqb o (FLAG_ANTI + FLAG_PROC) then _ else _).
    assert (H4 : all_ok w4).
    { unfold w4. destruct (N.eqb _ _); [|exact H3].
      destruct (anti_index _ _); [apply do_rollback_ok; exact H3|exact H3]. }
    apply put_ok; [exact H4|]. intros Hl. apply fix_bound_ok. apply get_ok; assumption.
  - apply forward_ok. destruct (match last_proc _ with Some _ => _ | None => false end); [apply do_rollback_ok|]; exact H3.
Qed.

Lemma iter_ok {A} (P : A -> Prop) (f : A -> A) : (forall x, P x -> P (f x)) -> forall n x, P x -> P (iter n f x).
Proof. intros Hf n. induction n as [|n IH]; intros x Hx; cbn; [exact Hx|]. apply IH. apply Hf. exact Hx. Qed.

Lemma hold_ok k : forall w, all_ok w -> all_ok (hold k w).
Proof.
  induction k as [|k IH]; intros w H; cbn [hold]; [exact H|].
  pose proof (extract_lps w) as Ex. destruct (wq_extract w) as [[m|] w1]; cbn [snd] in Ex.
  - apply IH. unfold all_ok. cbn. rewrite Ex. exact H.
  - unfold all_ok. rewrite Ex. exact H.
Qed.

Lemma unhold_all_lps w : k_lps (unhold_all w) = k_lps w.
Proof.
  unfold unhold_all. cbn. generalize (k_held w). intros hs. revert w.
  induction hs as [|h hs IH]; intros w; cbn; [reflexivity|]. rewrite IH. destruct h; reflexivity.
Qed.

Lemma run_out_ok fuel : forall w, all_ok w -> all_ok (fst (run_out fuel w)).
Proof.
  induction fuel as [|f IH]; intros w H; cbn [run_out]; [exact H|].
  destruct (wq_peek w) as [pk w1] eqn:Ep.
  assert (H1 : all_ok w1) by (unfold wq_peek in Ep; injection Ep as _ <-; exact H).
  destruct pk; [apply IH; apply process_msg_ok; exact H1|exact H1].
Qed.

Lemma wstep_ok w o : all_ok w -> all_ok (wstep w o).
Proof.
  intros H. destruct o as [n|k|i| |d|fuel]; cbn [wstep].
  - apply iter_ok; [apply process_msg_ok|exact H].
  - apply hold_ok. exact H.
  - unfold unhold. destruct (k_held w) as [|h hs] eqn:E; [exact H|].
    destruct (nth _ _ None); exact H.
  - unfold all_ok. rewrite unhold_all_lps. exact H.
  - unfold announce. destruct (wq_peek w) as [pk w1] eqn:Ep.
    assert (H1 : all_ok w1) by (unfold wq_peek in Ep; injection Ep as _ <-; exact H).
    destruct (min_held _ _); [|exact H1]. destruct (_ || _); exact H1.
  - apply run_out_ok. unfold all_ok. rewrite unhold_all_lps. exact H.
Qed.

Lemma init_lp_ok w l : all_ok w -> all_ok (init_lp w l).
Proof.
  intros H. unfold init_lp. destruct (lp_init p (N.of_nat l)) as [st evs].
  match goal with |- context [send_all ?w0 evs []] => set (w0' := w0) end.
  destruct (send_all w0' evs []) as [w1 marks] eqn:Es.
  assert (E1 : k_lps w1 = k_lps w) by (pose proof (send_all_lps evs w0' []) as X; rewrite Es in X; exact X).
  unfold all_ok, set_lps. cbn [k_lps]. rewrite E1. apply Forall_app. split; [exact H|]. constructor; [|constructor].
  exists [], (length (marks ++ [EProc (mkWm (k_next w) (mkEv (N.of_nat l) 0 LP_INIT_TYPE []))])), st. cbn [x_logs x_hist x_st].
  split; [reflexivity|]. split; [constructor; [constructor|constructor]|]. split.
  - intros r s [E|[]]. injection E as <- <-. split; [lia|]. unfold sub. rewrite Nat.sub_diag. reflexivity.
  - rewrite skipn_all. reflexivity.
Qed.

Lemma w_init_ok : all_ok (w_init p).
Proof.
  unfold w_init. generalize (seq 0 (N.to_nat (p_lps p))). intros ls.
  assert (H0 : all_ok (mkWk (PositiveMap.empty N) [] [] [] [] 1%positive 0 0 0 false)) by constructor.
  revert H0. generalize (mkWk (PositiveMap.empty N) [] [] [] [] 1%positive 0 0 0 false).
  induction ls as [|l ls IH]; intros w H; cbn; [exact H|]. apply IH. apply init_lp_ok. exact H.
Qed.

(* Every state the worker reaches, whatever the script *)
Theorem worker_states_exact (ops : list wop) : all_ok (fold_left wstep ops (w_init p)).
Proof.
  generalize w_init_ok. generalize (w_init p). induction ops as [|o ops IH]; intros w H; cbn; [exact H|].
  apply IH. apply wstep_ok. exact H.
Qed.


(* ================= structure of the history: the markers before a processed message are exactly what it sent ================= *)
Fixpoint hist_ok (st : lpstate) (pend : list event) (es : list entry) : Prop :=
  match es with
  | [] => pend = []
  | ESent m :: r => hist_ok st (pend ++ [wm_ev m]) r
  | EProc m :: r => pend = snd (handle p (wm_ev m) st) /\ hist_ok (fst (handle p (wm_ev m) st)) [] r
  end.

(* index k is a group boundary of the history: the start, or just after a processed message *)
Definition bnd (hist : list entry) (k : nat) : Prop := k = 0 \/ exists m, nth_error hist (pred k) = Some (EProc m).

Lemma hist_ok_split es : forall st pend k, hist_ok st pend es -> 0 < k -> k <= length es ->
  (exists m, nth_error es (pred k) = Some (EProc m)) ->
  hist_ok st pend (firstn k es) /\ hist_ok (replay st (firstn k es)) [] (skipn k es).
Proof.
  induction es as [|e es IH]; intros st pend k H Hk Hle Hb; [cbn in Hle; lia|].
  destruct k as [|k]; [lia|]. cbn [pred] in Hb. cbn [firstn skipn].
  destruct k as [|k].
  - (* the boundary is right after e *)
    destruct Hb as (m & Hm). cbn in Hm. injection Hm as ->. cbn in H. destruct H as [Hp Hr].
    cbn [firstn hist_ok]. split; [split; [exact Hp|reflexivity]|]. cbn. exact Hr.
  - destruct e as [m|m]; cbn [hist_ok] in H |- *.
    + destruct (IH st (pend ++ [wm_ev m]) (S k) H ltac:(lia) ltac:(cbn in Hle; lia) Hb) as [H1 H2].
      split; [exact H1|]. cbn [Worker.replay fold_left] in *. exact H2.
    + destruct H as [Hp Hr].
      destruct (IH _ [] (S k) Hr ltac:(lia) ltac:(cbn in Hle; lia) Hb) as [H1 H2].
      split; [split; [exact Hp|exact H1]|]. exact H2.
Qed.

Lemma hist_ok_bnd es st k : hist_ok st [] es -> bnd es k -> k <= length es ->
  hist_ok st [] (firstn k es) /\ hist_ok (replay st (firstn k es)) [] (skipn k es).
Proof.
  intros H [->|Hb] Hle.
  - cbn. split; [reflexivity|exact H].
  - destruct k as [|k]; [cbn; split; [reflexivity|exact H]|]. apply hist_ok_split; [exact H|lia|exact Hle|exact Hb].
Qed.

(* appending one group *)
Lemma hist_ok_append es : forall st pend outs (m : wmsg) marks,
  hist_ok st pend es -> (es = [] -> pend = []) ->
  all_sent marks -> map (fun e => wm_ev (entry_msg e)) marks = outs ->
  outs = snd (handle p (wm_ev m) (replay st es)) ->
  hist_ok st pend (es ++ marks ++ [EProc m]).
Proof.
  induction es as [|e es IH]; intros st pend outs m marks H Hnil Hm Emap Eouts.
  - specialize (Hnil eq_refl). subst pend. cbn [app]. cbn [Worker.replay fold_left] in Eouts.
    assert (G : forall ms acc, all_sent ms -> hist_ok st acc (ms ++ [EProc m]) <->
                 acc ++ map (fun e => wm_ev (entry_msg e)) ms = snd (handle p (wm_ev m) st)).
    { induction ms as [|x ms IHm]; intros acc Hs.
      - cbn. rewrite app_nil_r. split; [intros [H0 _]; exact H0|intros H0; split; [exact H0|reflexivity]].
      - inversion Hs as [|? ? Hx Hms]; subst. destruct x as [mx|mx]; [|discriminate]. cbn [app hist_ok map entry_msg].
        rewrite (IHm _ Hms). rewrite <- app_assoc. reflexivity. }
    apply G; [exact Hm|]. cbn [app]. rewrite Emap. exact Eouts.
  - destruct e as [me|me]; cbn [app hist_ok] in *.
    + apply (IH st (pend ++ [wm_ev me]) outs m marks H); [intros ->; cbn in H; destruct pend; discriminate| | |]; try assumption.
    + destruct H as [Hp Hr]. split; [exact Hp|].
      apply (IH _ [] outs m marks Hr); [reflexivity| | |]; try assumption.
Qed.


Lemma nth_error_firstn_lt {A} (l : list A) : forall n i, i < n -> nth_error (firstn n l) i = nth_error l i.
Proof.
  induction l as [|x l IH]; intros n i H; [rewrite firstn_nil; reflexivity|].
  destruct n as [|n]; [lia|]. destruct i as [|i]; [reflexivity|]. cbn. apply IH. lia.
Qed.
Lemma nth_error_skipn_add {A} (l : list A) : forall k i, nth_error (skipn k l) i = nth_error l (k + i).
Proof.
  induction l as [|x l IH]; intros k i; [rewrite skipn_nil; destruct i, k; reflexivity|].
  destruct k as [|k]; [reflexivity|]. cbn. apply IH.
Qed.

Definition base (x : lpx) : nat * lpstate := last (x_logs x) (0, dummy_lp).
Definition lp_wf (x : lpx) : Prop :=
  hist_ok (snd (base x)) [] (skipn (fst (base x)) (x_hist x)) /\ forall g, In g (x_logs x) -> bnd (x_hist x) (fst g).

Lemma bnd_firstn hist k n : bnd hist k -> k <= n -> bnd (firstn n hist) k.
Proof.
  intros [->|(m & Hm)] Hle; [left; reflexivity|]. destruct k as [|k]; [left; reflexivity|]. right. exists m.
  cbn [pred] in *. rewrite nth_error_firstn_lt by lia. exact Hm.
Qed.
Lemma bnd_skipn hist k r : bnd hist k -> r <= k -> bnd (skipn r hist) (k - r).
Proof.
  intros [->|(m & Hm)] Hle; [left; lia|]. destruct (Nat.eq_dec k r) as [->|Hne]; [left; lia|]. right. exists m.
  rewrite nth_error_skipn_add. replace (r + pred (k - r)) with (pred k) by lia. exact Hm.
Qed.
Lemma bnd_app hist tl k : bnd hist k -> k <= length hist -> bnd (hist ++ tl) k.
Proof.
  intros [->|(m & Hm)] Hle; [left; reflexivity|]. destruct k as [|k]; [left; reflexivity|]. right. exists m.
  cbn [pred] in *. rewrite nth_error_app1 by lia. exact Hm.
Qed.

(* ---- rollback ---- *)
Lemma rollback_lp_wf x past ref snap older :
  lp_ok x -> lp_wf x -> drop_newer (x_logs x) past = (ref, snap) :: older -> bnd (x_hist x) past ->
  let hist' := firstn past (x_hist x) in
  lp_wf (mkLpx hist' (x_bound x) (replay snap (sub hist' ref past)) ((ref, snap) :: older) (x_rem x) (x_epoch x)).
Proof.
  intros (newer & r0 & s0 & El & Hs & Hsn & Hst) [Hh Hb] Hd Hbp hist'.
  pose proof (drop_newer_spec (x_logs x) past Hs) as Hspec. rewrite Hd in Hspec.
  destruct Hspec as (pre & E & Hle & Hpre). cbn [fst] in Hle.
  destruct (suffix_base pre (ref, snap) older newer r0 s0 ltac:(rewrite <- E; exact El)) as (newer' & E').
  assert (Hsuf : StronglySorted decr ((ref, snap) :: older)) by (rewrite E in Hs; apply (sorted_app_r _ _ _ Hs)).
  assert (Hr0 : r0 <= ref).
  { apply (base_least newer' r0 s0 ref snap); [rewrite <- E'; exact Hsuf|rewrite <- E'; left; reflexivity]. }
  assert (Eb : base x = (r0, s0)) by (unfold base; rewrite El; apply last_last).
  rewrite Eb in Hh. cbn [fst snd] in Hh.
  unfold lp_wf, base. cbn [x_logs x_hist]. rewrite E'. rewrite last_last. cbn [fst snd]. split.
  - unfold hist'. rewrite skipn_firstn_comm.
    apply (hist_ok_bnd (skipn r0 (x_hist x)) s0 (past - r0) Hh).
    + apply bnd_skipn; [exact Hbp|lia].
    + destruct (Nat.le_gt_cases past (length (x_hist x))) as [Hp|Hp]; [rewrite skipn_length; lia|].
      (* a boundary beyond the end does not exist *)
      destruct Hbp as [->|(m & Hm)]; [lia|]. apply nth_error_Some_lt in Hm || (assert (Hlt : pred past < length (x_hist x)) by (apply nth_error_Some; rewrite Hm; discriminate); lia).
  - intros g Hg. rewrite <- E' in Hg. apply bnd_firstn.
    + apply Hb. rewrite E. apply in_or_app. right. exact Hg.
    + destruct Hg as [<-|Hg]; [exact Hle|]. inversion Hsuf as [|? ? _ Hall]; subst. rewrite Forall_forall in Hall.
      specialize (Hall _ Hg). unfold decr in Hall. cbn in Hall. lia.
Qed.


(* ---- forward ---- *)
Lemma send_all_events outs : forall w acc,
  map (fun e => wm_ev (entry_msg e)) (snd (send_all w outs acc)) = map (fun e => wm_ev (entry_msg e)) (rev acc) ++ outs.
Proof.
  induction outs as [|e r IH]; intros w acc; cbn [send_all snd]; [rewrite app_nil_r; reflexivity|].
  rewrite IH. cbn [rev]. rewrite map_app. cbn. rewrite <- app_assoc. reflexivity.
Qed.

Lemma forward_lp_wf x (m : wmsg) marks outs : lp_ok x -> lp_wf x -> all_sent marks ->
  map (fun e => wm_ev (entry_msg e)) marks = outs -> outs = snd (handle p (wm_ev m) (x_st x)) ->
  let st' := fst (handle p (wm_ev m) (x_st x)) in
  let hist' := x_hist x ++ marks ++ [EProc m] in
  forall take b rem,
  lp_wf (mkLpx hist' b st' (if take : bool then (length hist', st') :: x_logs x else x_logs x) rem (x_epoch x)).
Proof.
  intros (newer & r0 & s0 & El & Hs & Hsn & Hst) [Hh Hb] Hm Emap Eouts st' hist' take b rem.
  assert (Eb : base x = (r0, s0)) by (unfold base; rewrite El; apply last_last).
  rewrite Eb in Hh. cbn [fst snd] in Hh.
  assert (Hr0 : r0 <= length (x_hist x)).
  { destruct (Hsn r0 s0) as [H _]; [rewrite El; apply in_or_app; right; left; reflexivity|exact H]. }
  assert (Ebase : last (if take then (length hist', st') :: x_logs x else x_logs x) (0, dummy_lp) = (r0, s0)).
  { destruct take; rewrite El; [change ((length hist', st') :: newer ++ [(r0, s0)]) with (((length hist', st') :: newer) ++ [(r0, s0)])|]; apply last_last. }
  unfold lp_wf, base. cbn [x_logs x_hist]. rewrite Ebase. cbn [fst snd]. split.
  - unfold hist'. rewrite skipn_app_l by exact Hr0.
    apply (hist_ok_append (skipn r0 (x_hist x)) s0 [] outs m marks Hh (fun _ => eq_refl) Hm Emap). rewrite <- Hst. exact Eouts.
  - assert (Hold : forall g, In g (x_logs x) -> bnd hist' (fst g)).
    { intros [r s] Hg. apply bnd_app; [apply Hb; exact Hg|]. destruct (Hsn r s Hg) as [Hl _]. exact Hl. }
    destruct take; [|exact Hold]. intros g [<-|Hg]; [|apply Hold; exact Hg]. cbn [fst]. right. exists m.
    unfold hist'. rewrite !app_length. cbn [length]. replace (pred (length (x_hist x) + (length marks + 1))) with (length (x_hist x ++ marks) + 0) by (rewrite app_length; lia).
    rewrite app_assoc. rewrite nth_error_app2 by lia. replace (length (x_hist x ++ marks) + 0 - length (x_hist x ++ marks)) with 0 by lia. reflexivity.
Qed.

(* ---- fossil collection ---- *)
Lemma fossil_lp_wf x tgt ref snap older epoch :
  lp_ok x -> lp_wf x -> drop_newer (x_logs x) tgt = (ref, snap) :: older ->
  let kept := firstn (length (x_logs x) - length (drop_newer (x_logs x) tgt) + 1) (x_logs x) in
  lp_wf (mkLpx (skipn ref (x_hist x)) (x_bound x) (x_st x) (map (fun g => (fst g - ref, snd g)) kept) (x_rem x) epoch).
Proof.
  intros (newer & r0 & s0 & El & Hs & Hsn & Hst) [Hh Hb] Hd kept.
  pose proof (drop_newer_spec (x_logs x) tgt Hs) as Hspec. rewrite Hd in Hspec.
  destruct Hspec as (pre & E & Hle & Hpre). cbn [fst] in Hle.
  assert (Ek : kept = pre ++ [(ref, snap)]).
  { unfold kept. rewrite Hd. rewrite E at 1 2. rewrite app_length. cbn [length].
    replace (length pre + S (length older) - S (length older) + 1) with (length (pre ++ [(ref, snap)])) by (rewrite app_length; cbn; lia).
    replace (pre ++ (ref, snap) :: older) with ((pre ++ [(ref, snap)]) ++ older) by (rewrite <- app_assoc; reflexivity).
    rewrite firstn_app, firstn_all, Nat.sub_diag, firstn_O, app_nil_r. reflexivity. }
  assert (Hks : StronglySorted decr kept).
  { rewrite Ek. apply (sorted_app_l decr _ older). rewrite <- app_assoc. cbn. rewrite <- E. exact Hs. }
  assert (Hkin : forall g, In g kept -> In g (x_logs x)).
  { intros g Hg. rewrite Ek in Hg. rewrite E. apply in_app_or in Hg. apply in_or_app. destruct Hg as [Hg|[<-|[]]]; [left; exact Hg|right; left; reflexivity]. }
  assert (Hkge : forall g, In g kept -> ref <= fst g).
  { intros [r s] Hg. rewrite Ek in Hg. apply (base_least pre ref snap r s); [rewrite <- Ek; exact Hks|exact Hg]. }
  assert (Hrin : In (ref, snap) (x_logs x)) by (apply Hkin; rewrite Ek; apply in_or_app; right; left; reflexivity).
  destruct (Hsn ref snap Hrin) as [Hreflen Hsnap].
  assert (Hr0 : r0 <= ref) by (apply (base_least newer r0 s0 ref snap); [rewrite <- El; exact Hs|rewrite <- El; exact Hrin]).
  assert (Eb : base x = (r0, s0)) by (unfold base; rewrite El; apply last_last).
  rewrite Eb in Hh. cbn [fst snd] in Hh.
  unfold lp_wf, base. cbn [x_logs x_hist]. rewrite Ek, map_app. cbn [map]. rewrite last_last. cbn [fst snd]. rewrite Nat.sub_diag. split.
  - cbn [skipn].
    destruct (hist_ok_bnd (skipn r0 (x_hist x)) s0 (ref - r0) Hh) as [_ H2].
    + apply bnd_skipn; [apply (Hb _ Hrin)|exact Hr0].
    + rewrite skipn_length. lia.
    + rewrite skipn_skipn in H2. replace (ref - r0 + r0) with ref in H2 by lia.
      rewrite Hsnap. exact H2.
  - intros g Hg. apply in_app_or in Hg. destruct Hg as [Hg|[<-|[]]]; [|left; reflexivity].
    apply in_map_iff in Hg. destruct Hg as ([r1 s1] & <- & Hg1). cbn [fst].
    assert (Hin1 : In (r1, s1) kept) by (rewrite Ek; apply in_or_app; left; exact Hg1).
    apply bnd_skipn; [apply (Hb _ (Hkin _ Hin1))|apply (Hkge _ Hin1)].
Qed.

(* ---- the rollback targets are group boundaries ---- *)
Lemma match_straggler_bnd f s rh : forall i, length rh = i ->
  let k := match_straggler f s rh i in k <= i /\ bnd (rev rh) k.
Proof.
  induction rh as [|e r IH]; intros i Hl; cbn in Hl; subst i; cbn [match_straggler length].
  - split; [lia|left; reflexivity].
  - cbn zeta. destruct (IH (length r) eq_refl) as [Hk Hb]. cbn zeta in Hk, Hb.
    assert (Hrec : match_straggler f s r (length r) <= S (length r) /\ bnd (rev (e :: r)) (match_straggler f s r (length r))).
    { split; [lia|]. cbn [rev]. apply bnd_app; [exact Hb|rewrite rev_length; exact Hk]. }
    destruct e as [m|m]; [exact Hrec|]. destruct (wbefore f s m); [exact Hrec|].
    split; [lia|]. right. exists m. cbn [pred rev]. rewrite nth_error_app2 by (rewrite rev_length; lia).
    rewrite rev_length, Nat.sub_diag. reflexivity.
Qed.

Lemma straggler_index_bnd f s hist : bnd hist (straggler_index f s hist) /\ straggler_index f s hist <= length hist.
Proof.
  unfold straggler_index. destruct (rev hist) as [|lst below] eqn:E; [split; [left; reflexivity|lia]|].
  assert (Eh : hist = rev below ++ [lst]) by (rewrite <- (rev_involutive hist), E; reflexivity).
  assert (Hl : length below = length hist - 1) by (rewrite Eh, app_length, rev_length; cbn; lia).
  destruct (match_straggler_bnd f s below (length hist - 1) Hl) as [Hk Hb]. cbn zeta in Hk, Hb. split; [|lia].
  set (k := match_straggler f s below (length hist - 1)) in *. clearbody k.
  rewrite Eh. apply bnd_app; [exact Hb|rewrite rev_length; lia].
Qed.

Lemma group_start_bnd rh : forall i, length rh = i -> group_start rh i <= i /\ bnd (rev rh) (group_start rh i).
Proof.
  induction rh as [|e r IH]; intros i Hl; cbn in Hl; subst i; cbn [group_start length]; [split; [lia|left; reflexivity]|].
  destruct (IH (length r) eq_refl) as [Hk Hb].
  destruct e as [m|m]; cbn [is_proc].
  - split; [lia|]. cbn [rev]. apply bnd_app; [exact Hb|rewrite rev_length; exact Hk].
  - split; [lia|]. right. exists m. cbn [pred rev]. rewrite nth_error_app2 by (rewrite rev_length; lia).
    rewrite rev_length, Nat.sub_diag. reflexivity.
Qed.

Lemma find_proc_spec a rh : forall i j below, length rh = i -> find_proc a rh i = Some (j, below) ->
  j < i /\ length below = j /\ exists pre, rh = pre ++ below /\ length pre = i - j.
Proof.
  induction rh as [|e r IH]; intros i j below Hl H; cbn in Hl; subst i; cbn [find_proc length] in H; [discriminate|].
  assert (Hrec : find_proc a r (length r) = Some (j, below) -> j < S (length r) /\ length below = j /\ exists pre, e :: r = pre ++ below /\ length pre = S (length r) - j).
  { intros H'. destruct (IH (length r) j below eq_refl H') as (H1 & H2 & pre & E & Hp). split; [lia|]. split; [exact H2|].
    exists (e :: pre). split; [rewrite E; reflexivity|cbn [length]; lia]. }
  destruct e as [m|m]; [apply Hrec; exact H|]. destruct (wmsg_eqb m a); [|apply Hrec; exact H].
  injection H as <- <-. split; [lia|]. split; [reflexivity|]. exists [EProc m]. split; [reflexivity|cbn [length]; lia].
Qed.

Lemma anti_index_bnd a hist k : anti_index a hist = Some k -> bnd hist k /\ k <= length hist.
Proof.
  unfold anti_index. destruct (find_proc a (rev hist) (length hist)) as [[j below]|] eqn:Ef; [|discriminate].
  intros H. injection H as <-.
  destruct (find_proc_spec a (rev hist) (length hist) j below (rev_length hist) Ef) as (Hj & Hlb & pre & E & Hp).
  destruct (group_start_bnd below j Hlb) as [Hk Hb].
  assert (Eh : hist = rev below ++ rev pre) by (rewrite <- (rev_involutive hist), E, rev_app_distr; reflexivity).
  split; [|lia]. rewrite Eh. apply bnd_app; [exact Hb|rewrite rev_length; lia].
Qed.


(* ---------- the whole worker, both invariants ---------- *)
Definition lp_ok2 (x : lpx) : Prop := lp_ok x /\ lp_wf x.
Definition all_ok2 (w : worker) : Prop := Forall lp_ok2 (k_lps w).

Lemma put_ok2 w l x : all_ok2 w -> (l < length (k_lps w) -> lp_ok2 x) -> all_ok2 (put_lp w l x).
Proof. intros H Hx. unfold all_ok2, put_lp, set_lps. cbn. apply set_nth_forall; assumption. Qed.
Lemma get_ok2 w l : all_ok2 w -> l < length (k_lps w) -> lp_ok2 (get_lp w l).
Proof. intros H Hl. unfold all_ok2 in H. rewrite Forall_forall in H. apply H. unfold get_lp. apply nth_In. exact Hl. Qed.

Lemma do_rollback_ok2 w l past : all_ok2 w -> (l < length (k_lps w) -> bnd (x_hist (get_lp w l)) past) -> all_ok2 (do_rollback w l past).
Proof.
  intros H Hb. unfold Worker.do_rollback.
  set (w1 := fold_left undo_entry (skipn past (x_hist (get_lp w l))) w).
  assert (E1 : k_lps w1 = k_lps w) by apply undo_all_lps.
  assert (H1 : all_ok2 w1) by (unfold all_ok2; rewrite E1; exact H).
  destruct (drop_newer (x_logs (get_lp w l)) past) as [|[ref snap] older] eqn:Hd.
  - unfold all_ok2, set_err. cbn. exact H1.
  - apply put_ok2; [exact H1|]. intros Hl. rewrite E1 in Hl. destruct (get_ok2 w l H Hl) as [Ho Hw]. split.
    + apply (rollback_lp_ok (get_lp w l) past ref snap older Ho Hd).
    + apply (rollback_lp_wf (get_lp w l) past ref snap older Ho Hw Hd (Hb Hl)).
Qed.

Lemma fix_bound_ok2 x : lp_ok2 x -> lp_ok2 (fix_bound x).
Proof.
  intros [Ho Hw]. split; [apply fix_bound_ok; exact Ho|].
  unfold fix_bound. destruct (x_hist x) eqn:E; [|exact Hw].
  destruct Hw as [Hh Hb]. unfold lp_wf, base in *. cbn [x_logs x_hist]. rewrite E in Hh, Hb. split; assumption.
Qed.

Lemma fossil_ok2 w l : all_ok2 w -> all_ok2 (fossil_lp w l).
Proof.
  intros H. unfold fossil_lp.
  destruct (newest_below (k_gvt w) (rev (x_hist (get_lp w l))) (length (x_hist (get_lp w l)))) as [past|]; [|exact H].
  destruct (drop_newer (x_logs (get_lp w l)) (past + 1)) as [|[ref snap] older] eqn:Hd.
  - exact H.
  - apply put_ok2; [exact H|]. intros Hl. destruct (get_ok2 w l H Hl) as [Ho Hw]. split.
    + pose proof (fossil_lp_ok (get_lp w l) (past + 1) ref snap older (k_epoch w) Ho Hd) as Hf. rewrite Hd in Hf. exact Hf.
    + pose proof (fossil_lp_wf (get_lp w l) (past + 1) ref snap older (k_epoch w) Ho Hw Hd) as Hf. rewrite Hd in Hf. exact Hf.
Qed.

Lemma forward_ok2 w l m : all_ok2 w -> all_ok2 (forward w l m).
Proof.
  intros H. unfold Worker.forward.
  destruct (handle p (wm_ev m) (x_st (get_lp w l))) as [st' outs] eqn:Eh.
  destruct (send_all w outs []) as [w1 marks] eqn:Es.
  assert (E1 : k_lps w1 = k_lps w) by (pose proof (send_all_lps outs w []) as X; rewrite Es in X; exact X).
  assert (Hm : all_sent marks) by (pose proof (send_all_marks outs w [] (Forall_nil _)) as X; rewrite Es in X; exact X).
  assert (Em : map (fun e => wm_ev (entry_msg e)) marks = outs) by (pose proof (send_all_events outs w []) as X; rewrite Es in X; exact X).
  apply put_ok2; [unfold all_ok2; rewrite E1; exact H|]. intros Hl. rewrite E1 in Hl. destruct (get_ok2 w l H Hl) as [Ho Hw]. split.
  - pose proof (forward_lp_ok (get_lp w l) m marks Ho Hm) as Hf. cbn zeta in Hf. rewrite Eh in Hf. cbn [fst] in Hf. apply Hf.
  - pose proof (forward_lp_wf (get_lp w l) m marks outs Ho Hw Hm Em) as Hf. cbn zeta in Hf. rewrite Eh in Hf. cbn [fst snd] in Hf.
    apply Hf. reflexivity.
Qed.

Lemma process_msg_ok2 w : all_ok2 w -> all_ok2 (process_msg w).
Proof.
  intros H. unfold Worker.process_msg.
  pose proof (extract_lps w) as Ex. destruct (wq_extract w) as [[m|] w1]; cbn [snd] in Ex; [|unfold all_ok2; rewrite Ex; exact H].
  assert (H1 : all_ok2 w1) by (unfold all_ok2; rewrite Ex; exact H).
  set (l := N.to_nat (e_dest (wm_ev m))).
  set (w2 := if Nat.eqb (x_epoch (get_lp w1 l)) (k_epoch w1) then w1 else let w' := fossil_lp w1 l in put_lp w' l (fix_bound (get_lp w' l))).
  assert (H2 : all_ok2 w2).
  { unfold w2. destruct (Nat.eqb _ _); [exact H1|]. cbn zeta. apply put_ok2; [apply fossil_ok2; exact H1|].
    intros Hl. apply fix_bound_ok2. apply get_ok2; [apply fossil_ok2; exact H1|exact Hl]. }
  destruct (flag_add (k_flags w2) (wm_id m) FLAG_PROC) as [o f].
  assert (H3 : all_ok2 (set_flags w2 f)) by exact H2.
  destruct (has o FLAG_ANTI).
  - set (w4 := if N.eqb o (FLAG_ANTI + FLAG_PROC) then _ else _).
    assert (H4 : all_ok2 w4).
    { unfold w4. destruct (N.eqb _ _); [|exact H3].
      destruct (anti_index _ _) as [k|] eqn:Ea; [|exact H3]. apply do_rollback_ok2; [exact H3|].
      intros _. apply (anti_index_bnd _ _ _ Ea). }
    apply put_ok2; [exact H4|]. intros Hl. apply fix_bound_ok2. apply get_ok2; assumption.
  - apply forward_ok2. destruct (match last_proc _ with Some _ => _ | None => false end); [|exact H3].
    apply do_rollback_ok2; [exact H3|]. intros _. apply straggler_index_bnd.
Qed.

Lemma hold_ok2 k : forall w, all_ok2 w -> all_ok2 (hold k w).
Proof.
  induction k as [|k IH]; intros w H; cbn [hold]; [exact H|].
  pose proof (extract_lps w) as Ex. destruct (wq_extract w) as [[m|] w1]; cbn [snd] in Ex.
  - apply IH. unfold all_ok2. cbn. rewrite Ex. exact H.
  - unfold all_ok2. rewrite Ex. exact H.
Qed.

Lemma run_out_ok2 fuel : forall w, all_ok2 w -> all_ok2 (fst (run_out fuel w)).
Proof.
  induction fuel as [|f IH]; intros w H; cbn [Worker.run_out]; [exact H|].
  destruct (wq_peek w) as [pk w1] eqn:Ep.
  assert (H1 : all_ok2 w1) by (unfold wq_peek in Ep; injection Ep as _ <-; exact H).
  destruct pk; [apply IH; apply process_msg_ok2; exact H1|exact H1].
Qed.

Lemma wstep_ok2 w o : all_ok2 w -> all_ok2 (wstep w o).
Proof.
  intros H. destruct o as [n|k|i| |d|fuel]; cbn [Worker.wstep].
  - apply iter_ok; [apply process_msg_ok2|exact H].
  - apply hold_ok2. exact H.
  - unfold unhold. destruct (k_held w) as [|h hs] eqn:E; [exact H|].
    destruct (nth _ _ None); exact H.
  - unfold all_ok2. rewrite unhold_all_lps. exact H.
  - unfold announce. destruct (wq_peek w) as [pk w1] eqn:Ep.
    assert (H1 : all_ok2 w1) by (unfold wq_peek in Ep; injection Ep as _ <-; exact H).
    destruct (min_held _ _); [|exact H1]. destruct (_ || _); exact H1.
  - apply run_out_ok2. unfold all_ok2. rewrite unhold_all_lps. exact H.
Qed.

Lemma init_lp_ok2 w l : all_ok2 w -> all_ok2 (init_lp w l).
Proof.
  intros H. unfold Worker.init_lp. destruct (lp_init p (N.of_nat l)) as [st evs].
  match goal with |- context [send_all ?w0 evs []] => set (w0' := w0) end.
  destruct (send_all w0' evs []) as [w1 marks] eqn:Es.
  assert (E1 : k_lps w1 = k_lps w) by (pose proof (send_all_lps evs w0' []) as X; rewrite Es in X; exact X).
  unfold all_ok2, set_lps. cbn [k_lps]. rewrite E1. apply Forall_app. split; [exact H|]. constructor; [|constructor].
  set (im := mkWm (k_next w) (mkEv (N.of_nat l) 0 LP_INIT_TYPE [])).
  split.
  - exists [], (length (marks ++ [EProc im])), st. cbn [x_logs x_hist x_st].
    split; [reflexivity|]. split; [constructor; [constructor|constructor]|]. split.
    + intros r s [E|[]]. injection E as <- <-. split; [lia|]. unfold sub. rewrite Nat.sub_diag. reflexivity.
    + rewrite skipn_all. reflexivity.
  - unfold lp_wf, base. cbn [x_logs x_hist last fst snd]. split.
    + rewrite skipn_all. reflexivity.
    + intros g [<-|[]]. cbn [fst]. right. exists im. rewrite app_length. cbn [length].
      replace (pred (length marks + 1)) with (length marks + 0) by lia. rewrite nth_error_app2 by lia.
      replace (length marks + 0 - length marks) with 0 by lia. reflexivity.
Qed.

Lemma w_init_ok2 : all_ok2 (w_init p).
Proof.
  unfold w_init. generalize (seq 0 (N.to_nat (p_lps p))). intros ls.
  assert (H0 : all_ok2 (mkWk (PositiveMap.empty N) [] [] [] [] 1%positive 0 0 0 false)) by constructor.
  revert H0. generalize (mkWk (PositiveMap.empty N) [] [] [] [] 1%positive 0 0 0 false).
  induction ls as [|l ls IH]; intros w H; cbn; [exact H|]. apply IH. apply init_lp_ok2. exact H.
Qed.

(* Every state the worker reaches, whatever the script: state exactness AND history structure *)
Theorem worker_states_wellformed (ops : list wop) : all_ok2 (fold_left wstep ops (w_init p)).
Proof.
  generalize w_init_ok2. generalize (w_init p). induction ops as [|o ops IH]; intros w H; cbn; [exact H|].
  apply IH. apply wstep_ok2. exact H.
Qed.

End Proofs.
