(* Proofs about the worker model (TW/Worker.v).
   Main result (C05 at the level of process.c): in every state the worker can reach by any script, the memory of every LP is
   exactly what executing the processed messages of its retained history, in order, from its oldest retained checkpoint gives,
   and every retained checkpoint is what executing the history up to its reference gives.  Rollback (checkpoint restore +
   silent re-execution), forward execution with periodic checkpoints, and fossil collection with re-basing all keep it. *)
From Coq Require Import List ZArith NArith Bool Arith Lia Sorted FMapPositive.
From RS Require Import Order.MsgOrderDefs Heap.HeapList TW.App TW.Seq TW.Worker.
Import ListNotations.

Section Proofs.
Variable p : prog.
Variable ck : nat.

Notation replay := (replay p).

(* ---------- lists ---------- *)
Lemma replay_app st a b : replay st (a ++ b) = replay (replay st a) b.
Proof. unfold Worker.replay. apply fold_left_app. Qed.

Lemma skipn_skipn {A} (l : list A) : forall a b, skipn a (skipn b l) = skipn (a + b) l.
Proof.
  induction l as [|x l IH]; intros a b; [rewrite !skipn_nil; reflexivity|].
  destruct b as [|b]; [rewrite Nat.add_0_r; reflexivity|].
  rewrite Nat.add_succ_r. cbn [skipn]. apply IH.
Qed.

Lemma sub_full {A} (h : list A) a : sub h a (length h) = skipn a h.
Proof. unfold sub. apply firstn_all2. rewrite skipn_length. lia. Qed.

Lemma sub_over {A} (h : list A) a t : length h <= t -> sub h a t = skipn a h.
Proof. intros H. unfold sub. apply firstn_all2. rewrite skipn_length. lia. Qed.

Lemma sub_split {A} (h : list A) a b c : a <= b -> b <= c -> sub h a c = sub h a b ++ sub h b c.
Proof.
  intros H1 H2. unfold sub.
  replace (c - a) with ((b - a) + (c - b)) by lia.
  rewrite <- (firstn_skipn (b - a) (skipn a h)) at 1.
  rewrite firstn_app. rewrite firstn_firstn.
  replace (Nat.min (b - a + (c - b)) (b - a)) with (b - a) by lia.
  f_equal.
  rewrite firstn_length. rewrite skipn_length.
  destruct (Nat.le_gt_cases (b - a) (length h - a)) as [Hle|Hgt].
  - replace (b - a + (c - b) - Nat.min (b - a) (length h - a)) with (c - b) by lia.
    rewrite skipn_skipn. replace (b - a + a) with b by lia. reflexivity.
  - (* b beyond the end: both sides empty *)
    rewrite (skipn_all2 (n := b - a)) by (rewrite skipn_length; lia).
    rewrite firstn_nil. rewrite (skipn_all2 (n := b)) by lia. rewrite firstn_nil. reflexivity.
Qed.

Lemma sub_firstn {A} (h : list A) k a t : t <= k -> sub (firstn k h) a t = sub h a t.
Proof.
  intros H. unfold sub. revert k a t H. induction h as [|x h IH]; intros k a t H.
  - rewrite firstn_nil. reflexivity.
  - destruct k as [|k].
    + assert (t = 0) by lia. subst. cbn. reflexivity.
    + destruct a as [|a].
      * cbn [skipn firstn]. replace (t - 0) with t by lia. destruct t as [|t]; [reflexivity|].
        cbn [firstn]. f_equal. specialize (IH k 0 t ltac:(lia)). cbn [skipn] in IH. replace (t - 0) with t in IH by lia. exact IH.
      * cbn [firstn skipn]. destruct t as [|t]; [cbn; reflexivity|].
        replace (S t - S a) with (t - a) by lia. apply IH. lia.
Qed.

Lemma sub_app_l {A} (h e : list A) a t : t <= length h -> sub (h ++ e) a t = sub h a t.
Proof.
  intros H. rewrite <- (sub_firstn (h ++ e) (length h) a t H).
  rewrite firstn_app, firstn_all, Nat.sub_diag, firstn_O, app_nil_r. reflexivity.
Qed.

Lemma skipn_app_l {A} (h e : list A) a : a <= length h -> skipn a (h ++ e) = skipn a h ++ e.
Proof. intros H. rewrite skipn_app. replace (a - length h) with 0 by lia. reflexivity. Qed.

Lemma sub_skipn {A} (h : list A) k a t : sub (skipn k h) a t = sub h (a + k) (t + k).
Proof. unfold sub. rewrite skipn_skipn. f_equal. lia. Qed.

(* ---------- the checkpoint log ---------- *)
Definition decr (a b : nat * lpstate) : Prop := fst b < fst a.

Lemma drop_newer_spec logs ref : StronglySorted decr logs ->
  match drop_newer logs ref with
  | [] => forall g, In g logs -> ref < fst g
  | g :: older => exists pre, logs = pre ++ g :: older /\ fst g <= ref /\ forall x, In x pre -> ref < fst x
  end.
Proof.
  induction logs as [|g r IH]; intros Hs; cbn [drop_newer].
  - intros g [].
  - destruct (Nat.leb_spec (fst g) ref) as [Hle|Hgt].
    + exists []. split; [reflexivity|]. split; [exact Hle|intros x []].
    + inversion Hs as [|? ? Hs' Hall]; subst. specialize (IH Hs').
      destruct (drop_newer r ref) as [|g' older].
      * intros x [<-|Hx]; [exact Hgt|apply IH; exact Hx].
      * destruct IH as (pre & E & Hle & Hpre). exists (g :: pre). split; [rewrite E; reflexivity|].
        split; [exact Hle|]. intros x [<-|Hx]; [exact Hgt|apply Hpre; exact Hx].
Qed.

Lemma sorted_app_r {A} (R : A -> A -> Prop) a b : StronglySorted R (a ++ b) -> StronglySorted R b.
Proof. induction a as [|x a IH]; cbn; intros H; [exact H|]. inversion H; subst. apply IH. assumption. Qed.
Lemma sorted_app_l {A} (R : A -> A -> Prop) a b : StronglySorted R (a ++ b) -> StronglySorted R a.
Proof.
  induction a as [|x a IH]; cbn; intros H; [constructor|]. inversion H as [|? ? Hs Hall]; subst.
  constructor; [apply IH; exact Hs|]. rewrite Forall_forall in *. intros y Hy. apply Hall. apply in_or_app. left. exact Hy.
Qed.
Lemma sorted_app_cross {A} (R : A -> A -> Prop) a b x y : StronglySorted R (a ++ b) -> In x a -> In y b -> R x y.
Proof.
  induction a as [|z a IH]; cbn; intros H Hx Hy; [contradiction|]. inversion H as [|? ? Hs Hall]; subst.
  destruct Hx as [<-|Hx].
  - rewrite Forall_forall in Hall. apply Hall. apply in_or_app. right. exact Hy.
  - apply IH; assumption.
Qed.

(* the invariant of one LP: [logs] newest first, the oldest one is the base *)
Definition lp_ok (x : lpx) : Prop :=
  exists newer r0 s0,
    x_logs x = newer ++ [(r0, s0)] /\
    StronglySorted decr (x_logs x) /\
    (forall r s, In (r, s) (x_logs x) -> r <= length (x_hist x) /\ s = replay s0 (sub (x_hist x) r0 r)) /\
    x_st x = replay s0 (skipn r0 (x_hist x)).

Lemma base_least newer r0 (s0 : lpstate) r s : StronglySorted decr (newer ++ [(r0, s0)]) -> In (r, s) (newer ++ [(r0, s0)]) -> r0 <= r.
Proof.
  intros Hs Hin. apply in_app_or in Hin. destruct Hin as [Hin|[E|[]]].
  - pose proof (sorted_app_cross decr newer [(r0, s0)] (r, s) (r0, s0) Hs Hin (or_introl eq_refl)) as H. unfold decr in H. cbn in H. lia.
  - injection E as <- <-. lia.
Qed.

(* a non-empty suffix of the log keeps its base *)
Lemma suffix_base (pre : list (nat * lpstate)) g older newer r0 s0 :
  pre ++ g :: older = newer ++ [(r0, s0)] -> exists newer', g :: older = newer' ++ [(r0, s0)].
Proof.
  revert newer. induction pre as [|x pre IH]; intros newer E.
  - exists newer. exact E.
  - destruct newer as [|y newer].
    + cbn in E. injection E as _ E. destruct pre; discriminate.
    + cbn in E. injection E as _ E. apply (IH newer). exact E.
Qed.

(* ---------- rollback ---------- *)
Lemma rollback_lp_ok x past ref snap older :
  lp_ok x -> drop_newer (x_logs x) past = (ref, snap) :: older ->
  let hist' := firstn past (x_hist x) in
  lp_ok (mkLpx hist' (x_bound x) (replay snap (sub hist' ref past)) ((ref, snap) :: older) (x_rem x) (x_epoch x)).
Proof.
  intros (newer & r0 & s0 & El & Hs & Hsn & Hst) Hd hist'.
  pose proof (drop_newer_spec (x_logs x) past Hs) as Hspec. rewrite Hd in Hspec.
  destruct Hspec as (pre & E & Hle & Hpre). cbn [fst] in Hle.
  destruct (suffix_base pre (ref, snap) older newer r0 s0 ltac:(rewrite <- E; exact El)) as (newer' & E').
  assert (Hsuf : StronglySorted decr ((ref, snap) :: older)) by (rewrite E in Hs; apply (sorted_app_r _ _ _ Hs)).
  assert (Hin : forall g, In g ((ref, snap) :: older) -> In g (x_logs x)) by (intros g Hg; rewrite E; apply in_or_app; right; exact Hg).
  assert (Hrefs : forall r s, In (r, s) ((ref, snap) :: older) -> r <= ref).
  { intros r s [Eq|Hr]; [injection Eq as <- _; lia|]. inversion Hsuf as [|? ? _ Hall]; subst.
    rewrite Forall_forall in Hall. specialize (Hall _ Hr). unfold decr in Hall. cbn in Hall. lia. }
  assert (Hr0 : r0 <= ref).
  { apply (base_least newer' r0 s0 ref snap); [rewrite <- E'; exact Hsuf|rewrite <- E'; left; reflexivity]. }
  destruct (Hsn ref snap (Hin _ (or_introl eq_refl))) as [Hreflen Hsnap].
  exists newer', r0, s0. cbn [x_logs x_hist x_st]. split; [exact E'|]. split; [exact Hsuf|]. split.
  - intros r s Hr. destruct (Hsn r s (Hin _ Hr)) as [Hlen Es]. specialize (Hrefs r s Hr). split.
    + unfold hist'. rewrite firstn_length. lia.
    + unfold hist'. rewrite sub_firstn by lia. exact Es.
  - rewrite Hsnap. rewrite <- replay_app. f_equal.
    assert (Esub : sub hist' ref past = skipn ref hist').
    { unfold hist'. apply sub_over. rewrite firstn_length. lia. }
    rewrite Esub. unfold hist'.
    rewrite <- (sub_firstn (x_hist x) past r0 ref Hle).
    fold hist'. symmetry. rewrite <- (firstn_skipn (ref - r0) (skipn r0 hist')) at 1.
    unfold sub. f_equal. rewrite skipn_skipn. f_equal. lia.
Qed.

(* ---------- forward execution ---------- *)
Lemma send_all_lps outs : forall w acc, k_lps (fst (send_all w outs acc)) = k_lps w.
Proof. induction outs as [|e r IH]; intros w acc; cbn [send_all]; [reflexivity|]. rewrite IH. reflexivity. Qed.

Definition all_sent (es : list entry) : Prop := Forall (fun e => is_proc e = false) es.
Lemma send_all_marks outs : forall w acc, all_sent acc -> all_sent (snd (send_all w outs acc)).
Proof.
  induction outs as [|e r IH]; intros w acc Ha; cbn [send_all snd].
  - unfold all_sent in *. apply Forall_rev. exact Ha.
  - apply IH. constructor; [reflexivity|exact Ha].
Qed.
Lemma replay_sent st es : all_sent es -> replay st es = st.
Proof.
  induction es as [|e es IH]; intros H; [reflexivity|]. inversion H as [|? ? He Hes]; subst.
  destruct e as [m|m]; [|discriminate]. cbn. apply IH. exact Hes.
Qed.

Lemma forward_lp_ok x (m : wmsg) marks : lp_ok x -> all_sent marks ->
  let st' := fst (handle p (wm_ev m) (x_st x)) in
  let hist' := x_hist x ++ marks ++ [EProc m] in
  forall take b rem,
  lp_ok (mkLpx hist' b st' (if take : bool then (length hist', st') :: x_logs x else x_logs x) rem (x_epoch x)).
Proof.
  intros (newer & r0 & s0 & El & Hs & Hsn & Hst) Hm st' hist' take b rem.
  assert (Hr0 : r0 <= length (x_hist x)).
  { destruct (Hsn r0 s0) as [H _]; [rewrite El; apply in_or_app; right; left; reflexivity|exact H]. }
  assert (Est : st' = replay s0 (skipn r0 hist')).
  { unfold hist'. rewrite skipn_app_l by exact Hr0. rewrite replay_app, <- Hst, replay_app, (replay_sent _ _ Hm). reflexivity. }
  assert (Hlen : length (x_hist x) < length hist') by (unfold hist'; rewrite !app_length; cbn; lia).
  assert (Hold : forall r s, In (r, s) (x_logs x) -> r <= length hist' /\ s = replay s0 (sub hist' r0 r)).
  { intros r s Hr. destruct (Hsn r s Hr) as [Hl Es]. split; [lia|]. unfold hist'. rewrite sub_app_l by exact Hl. exact Es. }
  destruct take.
  - exists ((length hist', st') :: newer), r0, s0. cbn [x_logs x_hist x_st]. split; [rewrite El; reflexivity|]. split.
    + constructor; [exact Hs|]. rewrite Forall_forall. intros [r s] Hr. unfold decr. cbn. destruct (Hsn r s Hr). lia.
    + split; [|exact Est]. intros r s [E|Hr]; [|apply Hold; exact Hr].
      injection E as <- <-. split; [lia|]. rewrite sub_full. exact Est.
  - exists newer, r0, s0. cbn [x_logs x_hist x_st]. split; [exact El|]. split; [exact Hs|]. split; [exact Hold|exact Est].
Qed.

(* ---------- fossil collection ---------- *)
Lemma sorted_map_rebase (logs : list (nat * lpstate)) ref : StronglySorted decr logs -> (forall g, In g logs -> ref <= fst g) ->
  StronglySorted decr (map (fun g => (fst g - ref, snd g)) logs).
Proof.
  induction logs as [|g r IH]; intros Hs Hge; cbn; [constructor|]. inversion Hs as [|? ? Hs' Hall]; subst.
  constructor; [apply IH; [exact Hs'|intros x Hx; apply Hge; right; exact Hx]|].
  rewrite Forall_forall in *. intros y Hy. apply in_map_iff in Hy. destruct Hy as (z & <- & Hz).
  specialize (Hall z Hz). unfold decr in *. cbn. pose proof (Hge z (or_intror Hz)). pose proof (Hge g (or_introl eq_refl)). lia.
Qed.

Lemma fossil_lp_ok x tgt ref snap older epoch :
  lp_ok x -> drop_newer (x_logs x) tgt = (ref, snap) :: older ->
  let kept := firstn (length (x_logs x) - length (drop_newer (x_logs x) tgt) + 1) (x_logs x) in
  lp_ok (mkLpx (skipn ref (x_hist x)) (x_bound x) (x_st x) (map (fun g => (fst g - ref, snd g)) kept) (x_rem x) epoch).
Proof.
  intros (newer & r0 & s0 & El & Hs & Hsn & Hst) Hd kept.
  pose proof (drop_newer_spec (x_logs x) tgt Hs) as Hspec. rewrite Hd in Hspec.
  destruct Hspec as (pre & E & Hle & Hpre). cbn [fst] in Hle.
  assert (Ek : kept = pre ++ [(ref, snap)]).
  { unfold kept. rewrite Hd. rewrite E at 1 2. rewrite app_length. cbn [length].
    replace (length pre + S (length older) - S (length older) + 1) with (length (pre ++ [(ref, snap)])) by (rewrite app_length; cbn; lia).
    replace (pre ++ (ref, snap) :: older) with ((pre ++ [(ref, snap)]) ++ older) by (rewrite <- app_assoc; reflexivity).
    rewrite firstn_app, firstn_all, Nat.sub_diag, firstn_O, app_nil_r. reflexivity. }
  assert (Hks : StronglySorted decr kept).
  { rewrite Ek. apply (sorted_app_l decr _ older). rewrite <- app_assoc. cbn. rewrite <- E. exact Hs. }
  assert (Hkin : forall g, In g kept -> In g (x_logs x)).
  { intros g Hg. rewrite Ek in Hg. rewrite E. apply in_app_or in Hg. apply in_or_app. destruct Hg as [Hg|[<-|[]]]; [left; exact Hg|right; left; reflexivity]. }
  assert (Hkge : forall g, In g kept -> ref <= fst g).
  { intros [r s] Hg. rewrite Ek in Hg.
    apply (base_least pre ref snap r s); [rewrite <- Ek; exact Hks|exact Hg]. }
  destruct (Hsn ref snap (Hkin _ ltac:(rewrite Ek; apply in_or_app; right; left; reflexivity))) as [Hreflen Hsnap].
  assert (Hr0 : r0 <= ref).
  { apply (base_least newer r0 s0 ref snap); [rewrite <- El; exact Hs|rewrite <- El; apply Hkin; rewrite Ek; apply in_or_app; right; left; reflexivity]. }
  exists (map (fun g => (fst g - ref, snd g)) pre), 0, snap. cbn [x_logs x_hist x_st]. split.
  - rewrite Ek, map_app. cbn. rewrite Nat.sub_diag. reflexivity.
  - split; [apply sorted_map_rebase; assumption|]. split.
    + intros r s Hr. apply in_map_iff in Hr. destruct Hr as ([r1 s1] & Eq & Hg). cbn in Eq. injection Eq as <- <-.
      destruct (Hsn r1 s1 (Hkin _ Hg)) as [Hl Es]. pose proof (Hkge _ Hg) as Hge. cbn in Hge. split.
      * rewrite skipn_length. lia.
      * rewrite sub_skipn. cbn [Nat.add]. replace (r1 - ref + ref) with r1 by lia.
        rewrite Es. rewrite (sub_split (x_hist x) r0 ref r1 Hr0 Hge). rewrite replay_app, <- Hsnap. reflexivity.
    + cbn [skipn]. rewrite Hst.
      rewrite <- (firstn_skipn (ref - r0) (skipn r0 (x_hist x))). rewrite replay_app.
      rewrite skipn_skipn. replace (ref - r0 + r0) with ref by lia.
      f_equal. rewrite Hsnap. reflexivity.
Qed.


(* ---------- the whole worker ---------- *)
Notation do_rollback := (Worker.do_rollback p).
Notation forward := (Worker.forward p ck).
Notation process_msg := (Worker.process_msg p ck).
Notation run_out := (Worker.run_out p ck).
Notation wstep := (Worker.wstep p ck).
Notation init_lp := (Worker.init_lp p).
Definition all_ok (w : worker) : Prop := Forall lp_ok (k_lps w).

Lemma set_nth_forall {A} (P : A -> Prop) (l : list A) i x : Forall P l -> (i < length l -> P x) -> Forall P (set_nth l i x).
Proof.
  revert i. induction l as [|h t IH]; intros i Hl Hx; cbn; [constructor|]. inversion Hl; subst.
  destruct i as [|j]; constructor; auto.
  - apply Hx. cbn. lia.
  - apply IH; [assumption|]. intros Hj. apply Hx. cbn. lia.
Qed.

Lemma put_ok w l x : all_ok w -> (l < length (k_lps w) -> lp_ok x) -> all_ok (put_lp w l x).
Proof. intros H Hx. unfold all_ok, put_lp, set_lps. cbn. apply set_nth_forall; assumption. Qed.

Lemma get_ok w l : all_ok w -> l < length (k_lps w) -> lp_ok (get_lp w l).
Proof. intros H Hl. unfold all_ok in H. rewrite Forall_forall in H. apply H. unfold get_lp. apply nth_In. exact Hl. Qed.

Lemma undo_entry_lps w e : k_lps (undo_entry w e) = k_lps w.
Proof.
  unfold undo_entry. destruct e as [m|m].
  - destruct (flag_add (k_flags w) (wm_id m) FLAG_ANTI) as [o f]. destruct (has o FLAG_PROC); reflexivity.
  - destruct (flag_sub (k_flags w) (wm_id m) FLAG_PROC) as [o f]. destruct (has o FLAG_ANTI); reflexivity.
Qed.
Lemma undo_all_lps es : forall w, k_lps (fold_left undo_entry es w) = k_lps w.
Proof. induction es as [|e es IH]; intros w; cbn; [reflexivity|]. rewrite IH. apply undo_entry_lps. Qed.

Lemma do_rollback_ok w l past : all_ok w -> all_ok (do_rollback w l past).
Proof.
  intros H. unfold do_rollback.
  set (w1 := fold_left undo_entry (skipn past (x_hist (get_lp w l))) w).
  assert (E1 : k_lps w1 = k_lps w) by apply undo_all_lps.
  assert (H1 : all_ok w1) by (unfold all_ok; rewrite E1; exact H).
  destruct (drop_newer (x_logs (get_lp w l)) past) as [|[ref snap] older] eqn:Hd.
  - unfold all_ok, set_err. cbn. exact H1.
  - apply put_ok; [exact H1|]. intros Hl. rewrite E1 in Hl.
    apply (rollback_lp_ok (get_lp w l) past ref snap older); [apply get_ok; assumption|exact Hd].
Qed.

Lemma fix_bound_ok x : lp_ok x -> lp_ok (fix_bound x).
Proof.
  intros H. unfold fix_bound. destruct (x_hist x) eqn:E; [|exact H].
  destruct H as (newer & r0 & s0 & El & Hs & Hsn & Hst). exists newer, r0, s0. cbn [x_logs x_hist x_st].
  rewrite E in Hsn, Hst. split; [exact El|]. split; [exact Hs|]. split; [exact Hsn|exact Hst].
Qed.

Lemma fossil_ok w l : all_ok w -> all_ok (fossil_lp w l).
Proof.
  intros H. unfold fossil_lp.
  destruct (newest_below (k_gvt w) (rev (x_hist (get_lp w l))) (length (x_hist (get_lp w l)))) as [past|]; [|exact H].
  destruct (drop_newer (x_logs (get_lp w l)) (past + 1)) as [|[ref snap] older] eqn:Hd.
  - exact H.
  - apply put_ok; [exact H|]. intros Hl.
    pose proof (fossil_lp_ok (get_lp w l) (past + 1) ref snap older (k_epoch w) (get_ok w l H Hl) Hd) as Hf.
    rewrite Hd in Hf. exact Hf.
Qed.

Lemma forward_ok w l m : all_ok w -> all_ok (forward w l m).
Proof.
  intros H. unfold forward.
  destruct (handle p (wm_ev m) (x_st (get_lp w l))) as [st' outs] eqn:Eh.
  destruct (send_all w outs []) as [w1 marks] eqn:Es.
  assert (E1 : k_lps w1 = k_lps w) by (pose proof (send_all_lps outs w []) as X; rewrite Es in X; exact X).
  assert (Hm : all_sent marks) by (pose proof (send_all_marks outs w [] (Forall_nil _)) as X; rewrite Es in X; exact X).
  apply put_ok; [unfold all_ok; rewrite E1; exact H|]. intros Hl. rewrite E1 in Hl.
  pose proof (forward_lp_ok (get_lp w l) m marks (get_ok w l H Hl) Hm) as Hf. cbn zeta in Hf. rewrite Eh in Hf. cbn [fst] in Hf.
  apply Hf.
Qed.

Lemma queue_lps w : k_lps (wq_transfer w) = k_lps w. Proof. reflexivity. Qed.
Lemma extract_lps w : k_lps (snd (wq_extract w)) = k_lps w.
Proof. unfold wq_extract. destruct (heap_extract _ _ _ _) as [[m h]|]; reflexivity. Qed.

Lemma process_msg_ok w : all_ok w -> all_ok (process_msg w).
Proof.
  intros H. unfold process_msg.
  pose proof (extract_lps w) as Ex. destruct (wq_extract w) as [[m|] w1]; cbn [snd] in Ex; [|unfold all_ok; rewrite Ex; exact H].
  assert (H1 : all_ok w1) by (unfold all_ok; rewrite Ex; exact H).
  set (l := N.to_nat (e_dest (wm_ev m))).
  set (w2 := if Nat.eqb (x_epoch (get_lp w1 l)) (k_epoch w1) then w1 else let w' := fossil_lp w1 l in put_lp w' l (fix_bound (get_lp w' l))).
  assert (H2 : all_ok w2).
  { unfold w2. destruct (Nat.eqb _ _); [exact H1|]. cbn zeta. apply put_ok; [apply fossil_ok; exact H1|].
    intros Hl. apply fix_bound_ok. apply get_ok; [apply fossil_ok; exact H1|exact Hl]. }
  destruct (flag_add (k_flags w2) (wm_id m) FLAG_PROC) as [o f].
  assert (H3 : all_ok (set_flags w2 f)) by exact H2.
  destruct (has o FLAG_ANTI).
  - set (w4 := if N.eqb o (FLAG_ANTI + FLAG_PROC) then _ else _).
    assert (H4 : all_ok w4).
    { unfold w4. destruct (N.eqb _ _); [|exact H3].
      destruct (anti_index _ _); [apply do_rollback_ok; exact H3|exact H3]. }
    apply put_ok; [exact H4|]. intros Hl. apply fix_bound_ok. apply get_ok; assumption.
  - apply forward_ok. destruct (match last_proc _ with Some _ => _ | None => false end); [apply do_rollback_ok|]; exact H3.
Qed.

Lemma iter_ok {A} (P : A -> Prop) (f : A -> A) : (forall x, P x -> P (f x)) -> forall n x, P x -> P (iter n f x).
Proof. intros Hf n. induction n as [|n IH]; intros x Hx; cbn; [exact Hx|]. apply IH. apply Hf. exact Hx. Qed.

Lemma hold_ok k : forall w, all_ok w -> all_ok (hold k w).
Proof.
  induction k as [|k IH]; intros w H; cbn [hold]; [exact H|].
  pose proof (extract_lps w) as Ex. destruct (wq_extract w) as [[m|] w1]; cbn [snd] in Ex.
  - apply IH. unfold all_ok. cbn. rewrite Ex. exact H.
  - unfold all_ok. rewrite Ex. exact H.
Qed.

Lemma unhold_all_lps w : k_lps (unhold_all w) = k_lps w.
Proof.
  unfold unhold_all. cbn. generalize (k_held w). intros hs. revert w.
  induction hs as [|h hs IH]; intros w; cbn; [reflexivity|]. rewrite IH. destruct h; reflexivity.
Qed.

Lemma run_out_ok fuel : forall w, all_ok w -> all_ok (fst (run_out fuel w)).
Proof.
  induction fuel as [|f IH]; intros w H; cbn [run_out]; [exact H|].
  destruct (wq_peek w) as [pk w1] eqn:Ep.
  assert (H1 : all_ok w1) by (unfold wq_peek in Ep; injection Ep as _ <-; exact H).
  destruct pk; [apply IH; apply process_msg_ok; exact H1|exact H1].
Qed.

Lemma wstep_ok w o : all_ok w -> all_ok (wstep w o).
Proof.
  intros H. destruct o as [n|k|i| |d|fuel]; cbn [wstep].
  - apply iter_ok; [apply process_msg_ok|exact H].
  - apply hold_ok. exact H.
  - unfold unhold. destruct (k_held w) as [|h hs] eqn:E; [exact H|].
    destruct (nth _ _ None); exact H.
  - unfold all_ok. rewrite unhold_all_lps. exact H.
  - unfold announce. destruct (wq_peek w) as [pk w1] eqn:Ep.
    assert (H1 : all_ok w1) by (unfold wq_peek in Ep; injection Ep as _ <-; exact H).
    destruct (min_held _ _); [|exact H1]. destruct (_ || _); exact H1.
  - apply run_out_ok. unfold all_ok. rewrite unhold_all_lps. exact H.
Qed.

Lemma init_lp_ok w l : all_ok w -> all_ok (init_lp w l).
Proof.
  intros H. unfold init_lp. destruct (lp_init p (N.of_nat l)) as [st evs].
  match goal with |- context [send_all ?w0 evs []] => set (w0' := w0) end.
  destruct (send_all w0' evs []) as [w1 marks] eqn:Es.
  assert (E1 : k_lps w1 = k_lps w) by (pose proof (send_all_lps evs w0' []) as X; rewrite Es in X; exact X).
  unfold all_ok, set_lps. cbn [k_lps]. rewrite E1. apply Forall_app. split; [exact H|]. constructor; [|constructor].
  exists [], (length (marks ++ [EProc (mkWm (k_next w) (mkEv (N.of_nat l) 0 LP_INIT_TYPE []))])), st. cbn [x_logs x_hist x_st].
  split; [reflexivity|]. split; [constructor; [constructor|constructor]|]. split.
  - intros r s [E|[]]. injection E as <- <-. split; [lia|]. unfold sub. rewrite Nat.sub_diag. reflexivity.
  - rewrite skipn_all. reflexivity.
Qed.

Lemma w_init_ok : all_ok (w_init p).
Proof.
  unfold w_init. generalize (seq 0 (N.to_nat (p_lps p))). intros ls.
  assert (H0 : all_ok (mkWk (PositiveMap.empty N) [] [] [] [] 1%positive 0 0 0 false)) by constructor.
  revert H0. generalize (mkWk (PositiveMap.empty N) [] [] [] [] 1%positive 0 0 0 false).
  induction ls as [|l ls IH]; intros w H; cbn; [exact H|]. apply IH. apply init_lp_ok. exact H.
Qed.

(* Every state the worker reaches, whatever the script *)
Theorem worker_states_exact (ops : list wop) : all_ok (fold_left wstep ops (w_init p)).
Proof.
  generalize w_init_ok. generalize (w_init p). induction ops as [|o ops IH]; intros w H; cbn; [exact H|].
  apply IH. apply wstep_ok. exact H.
Qed.

End Proofs.
