(* Model of src/gvt/termination.c (after the fix of finding F6: negative "not terminated" sentinel) for the
   LPs of one worker thread, with a ghost history per LP, and the soundness of a termination vote (C07). *)
From Coq Require Import ZArith List Bool Lia.
Import ListNotations.
Local Open Scope Z_scope.

Section Term.
Variable TMAX : Z.                       (* SIMTIME_MAX *)
Hypothesis TMAX_pos : 0 < TMAX.

Record tstate := mkT {
  term : list Z;                         (* termination_t per LP: -1 = predicate not (validly) true yet *)
  to_end : Z;                            (* lps_to_end *)
  max_t : Z;
  hist : list (list (Z * bool))          (* ghost: per LP, the (timestamp, predicate value) of the events in its history *)
}.

Fixpoint upd {A} (l : list A) (i : nat) (v : A) : list A :=
  match l, i with [], _ => [] | _ :: r, O => v :: r | x :: r, S k => x :: upd r k v end.

(* termination_lp_init for all LPs of the thread *)
Definition t_init (preds : list bool) : tstate :=
  mkT (map (fun b : bool => if b then TMAX else -1) preds)
      (Z.of_nat (length (filter negb preds))) 0 (map (fun _ => []) preds).

Inductive op :=
| Proc (lp : nat) (t : Z) (pred : bool)    (* termination_on_msg_process after a forward execution at time t *)
| Rb (lp : nat) (t : Z) (k : nat)          (* rollback caused by a message at time t: the last k history entries are undone *)
| Gvt (g tend : Z).                        (* termination_on_gvt *)

Definition proc (s : tstate) (lp : nat) (t : Z) (pred : bool) : tstate :=
  let h' := upd (hist s) lp (nth lp (hist s) [] ++ [(t, pred)]) in
  if 0 <=? nth lp (term s) (-1) then mkT (term s) (to_end s) (max_t s) h'
  else mkT (upd (term s) lp (if pred then t else -1)) (to_end s - (if pred then 1 else 0))
           (if pred then Z.max t (max_t s) else max_t s) h'.

Definition rollback (s : tstate) (lp : nat) (t : Z) (k : nat) : tstate :=
  let old := nth lp (term s) (-1) in
  let keep := (old <? t) || (old =? TMAX) in
  let h := nth lp (hist s) [] in
  mkT (upd (term s) lp (if keep then old else -1)) (to_end s + (if keep then 0 else 1)) (max_t s)
      (upd (hist s) lp (firstn (length h - k) h)).

Definition votes (s : tstate) (g tend : Z) : bool :=
  negb ((negb (to_end s =? 0) || (g <=? max_t s)) && (g <? tend)).

Definition gvt (s : tstate) (g tend : Z) : tstate :=
  if votes s g tend then mkT (term s) (to_end s) TMAX (hist s) else s.

Definition step (s : tstate) (o : op) : tstate :=
  match o with
  | Proc lp t pred => proc s lp t pred
  | Rb lp t k => rollback s lp t k
  | Gvt g tend => gvt s g tend
  end.

(* an operation is legal when it respects what the runtime guarantees: the LP exists, event times lie in [0, TMAX),
   a rollback at time t undoes only entries with time >= t *)
Definition legal (s : tstate) (o : op) : Prop :=
  match o with
  | Proc lp t _ => (lp < length (term s))%nat /\ 0 <= t < TMAX
  | Rb lp t k => (lp < length (term s))%nat /\ 0 <= t < TMAX /\
                 let h := nth lp (hist s) [] in
                 (k <= length h)%nat /\ forall e, In e (skipn (length h - k) h) -> t <= fst e
  | Gvt g tend => 0 <= g
  end.

Record Inv (s : tstate) : Prop := {
  i_len : length (hist s) = length (term s);
  i_count : to_end s = Z.of_nat (length (filter (fun x => x <? 0) (term s)));
  i_range : forall lp, (lp < length (term s))%nat -> nth lp (term s) (-1) = -1 \/ (0 <= nth lp (term s) (-1) <= TMAX);
  i_maxt : forall lp, (lp < length (term s))%nat -> 0 <= nth lp (term s) (-1) < TMAX -> nth lp (term s) (-1) <= max_t s;
  i_wit : forall lp, (lp < length (term s))%nat -> 0 <= nth lp (term s) (-1) < TMAX ->
            In (nth lp (term s) (-1), true) (nth lp (hist s) [])
}.

Lemma upd_length {A} (l : list A) : forall i v, length (upd l i v) = length l.
Proof. induction l as [|x l IH]; intros [|i] v; cbn; auto. Qed.
Lemma nth_upd_eq {A} (l : list A) d : forall i v, (i < length l)%nat -> nth i (upd l i v) d = v.
Proof. induction l as [|x l IH]; intros [|i] v H; cbn in *; try lia; auto. apply IH. lia. Qed.
Lemma nth_upd_neq {A} (l : list A) d : forall i j v, i <> j -> nth i (upd l j v) d = nth i l d.
Proof. induction l as [|x l IH]; intros [|i] [|j] v H; cbn; try reflexivity; try lia. apply IH. lia. Qed.

Lemma count_upd (l : list Z) : forall i v, (i < length l)%nat ->
  Z.of_nat (length (filter (fun x => x <? 0) (upd l i v))) =
  Z.of_nat (length (filter (fun x => x <? 0) l)) - (if nth i l (-1) <? 0 then 1 else 0) + (if v <? 0 then 1 else 0).
Proof.
  induction l as [|x l IH]; intros [|i] v H; cbn in *; try lia.
  - destruct (x <? 0); destruct (v <? 0); cbn [length]; lia.
  - specialize (IH i v ltac:(lia)). destruct (x <? 0); cbn [length]; lia.
Qed.

Lemma init_inv preds : Inv (t_init preds).
Proof.
  constructor; cbn.
  - rewrite !map_length. reflexivity.
  - induction preds as [|b preds IH]; cbn; [reflexivity|].
    destruct b; cbn.
    + destruct (Z.ltb_spec TMAX 0); [lia|]. exact IH.
    + cbn [length]. lia.
  - intros lp Hl. rewrite map_length in Hl.
    change (-1) with ((fun b : bool => if b then TMAX else -1) false). rewrite map_nth.
    destruct (nth lp preds false); lia.
  - intros lp Hl. rewrite map_length in Hl.
    change (-1) with ((fun b : bool => if b then TMAX else -1) false). rewrite map_nth.
    destruct (nth lp preds false); lia.
  - intros lp Hl. rewrite map_length in Hl.
    change (-1) with ((fun b : bool => if b then TMAX else -1) false). rewrite map_nth.
    destruct (nth lp preds false); lia.
Qed.

Theorem step_inv s o : Inv s -> legal s o -> Inv (step s o).
Proof.
  intros [Hlen Hcnt Hrng Hmax Hwit] Hleg. destruct o as [lp t pred|lp t k|g tend]; cbn [step].
  - (* forward execution *)
    destruct Hleg as [Hlp Ht]. unfold proc.
    assert (Hlph : (lp < length (hist s))%nat) by lia.
    destruct (Z.leb_spec 0 (nth lp (term s) (-1))) as [Hx|Hx].
    + constructor; cbn [term to_end max_t hist]; auto.
      * rewrite upd_length. exact Hlen.
      * intros lp' Hl' Hx'. destruct (Nat.eq_dec lp' lp) as [->|Hne].
        -- rewrite nth_upd_eq by exact Hlph. apply in_or_app. left. apply Hwit; assumption.
        -- rewrite nth_upd_neq by exact Hne. apply Hwit; assumption.
    + destruct (Hrng lp Hlp) as [Hm1|Hr]; [|lia].
      constructor; cbn [term to_end max_t hist].
      * rewrite !upd_length. exact Hlen.
      * rewrite count_upd by exact Hlp. rewrite Hm1. change (-1 <? 0) with true. cbn iota.
        destruct pred; [destruct (Z.ltb_spec t 0); lia|change (-1 <? 0) with true; cbn iota; lia].
      * intros lp' Hl'. rewrite upd_length in Hl'. destruct (Nat.eq_dec lp' lp) as [->|Hne].
        -- rewrite nth_upd_eq by exact Hlp. destruct pred; lia.
        -- rewrite nth_upd_neq by exact Hne. apply Hrng. exact Hl'.
      * intros lp' Hl'. rewrite upd_length in Hl'. destruct (Nat.eq_dec lp' lp) as [->|Hne].
        -- rewrite nth_upd_eq by exact Hlp. destruct pred; lia.
        -- rewrite nth_upd_neq by exact Hne. intros Hx'. specialize (Hmax lp' Hl' Hx'). destruct pred; lia.
      * intros lp' Hl'. rewrite upd_length in Hl'. destruct (Nat.eq_dec lp' lp) as [->|Hne].
        -- rewrite nth_upd_eq by exact Hlp. rewrite nth_upd_eq by exact Hlph. destruct pred; [|lia].
           intros _. apply in_or_app. right. left. reflexivity.
        -- rewrite !nth_upd_neq by exact Hne. apply Hwit. exact Hl'.
  - (* rollback *)
    destruct Hleg as (Hlp & Ht & Hk & Hund). unfold rollback.
    assert (Hlph : (lp < length (hist s))%nat) by lia.
    pose proof (Hrng lp Hlp) as Hr. pose proof (Hmax lp Hlp) as Hm. pose proof (Hwit lp Hlp) as Hw.
    set (old := nth lp (term s) (-1)) in *. set (h := nth lp (hist s) []) in *.
    constructor; cbn [term to_end max_t hist].
    + rewrite !upd_length. exact Hlen.
    + rewrite count_upd by exact Hlp. fold old. rewrite Hcnt.
      destruct (Z.ltb_spec old t); cbn [orb].
      * destruct (Z.ltb_spec old 0); lia.
      * destruct (Z.eqb_spec old TMAX); destruct (Z.ltb_spec old 0); change (-1 <? 0) with true; cbn iota; lia.
    + intros lp' Hl'. rewrite upd_length in Hl'. destruct (Nat.eq_dec lp' lp) as [->|Hne].
      * rewrite nth_upd_eq by exact Hlp. destruct ((old <? t) || (old =? TMAX)); [exact Hr|left; reflexivity].
      * rewrite nth_upd_neq by exact Hne. apply Hrng. exact Hl'.
    + intros lp' Hl'. rewrite upd_length in Hl'. destruct (Nat.eq_dec lp' lp) as [->|Hne].
      * rewrite nth_upd_eq by exact Hlp. destruct ((old <? t) || (old =? TMAX)); [exact Hm|lia].
      * rewrite nth_upd_neq by exact Hne. apply Hmax. exact Hl'.
    + intros lp' Hl'. rewrite upd_length in Hl'. destruct (Nat.eq_dec lp' lp) as [->|Hne].
      * rewrite nth_upd_eq by exact Hlp. rewrite nth_upd_eq by exact Hlph.
        destruct (Z.ltb_spec old t) as [Hlt|Hge]; cbn [orb].
        -- intros Hx. specialize (Hw Hx).
           rewrite <- (firstn_skipn (length h - k) h) in Hw. apply in_app_or in Hw.
           destruct Hw as [Hw|Hw]; [exact Hw|]. specialize (Hund _ Hw). cbn in Hund. lia.
        -- destruct (Z.eqb_spec old TMAX) as [E|E]; [rewrite E; lia|lia].
      * rewrite !nth_upd_neq by exact Hne. apply Hwit. exact Hl'.
  - (* GVT *)
    unfold gvt. destruct (votes s g tend) eqn:V; [|constructor; assumption].
    constructor; cbn [term to_end max_t hist]; auto.
    intros lp Hl Hx. lia.
Qed.

(* the vote is sound: a thread votes at GVT g only if g has reached the termination time, or every LP it owns has its
   predicate recorded true either on the initial state or by an event that is still in its history with a timestamp below g *)
Theorem vote_sound s g tend : Inv s -> votes s g tend = true ->
  tend <= g \/
  forall lp, (lp < length (term s))%nat ->
    nth lp (term s) (-1) = TMAX \/
    exists t, 0 <= t < g /\ In (t, true) (nth lp (hist s) []).
Proof.
  intros [Hlen Hcnt Hrng Hmax Hwit] V. unfold votes in V. apply negb_true_iff in V.
  apply andb_false_iff in V. destruct V as [V|V].
  - right. apply orb_false_iff in V. destruct V as [V1 V2]. apply negb_false_iff in V1. apply Z.eqb_eq in V1.
    apply Z.leb_gt in V2. intros lp Hl.
    assert (Hnn : 0 <= nth lp (term s) (-1)).
    { rewrite V1 in Hcnt.
      assert (Hf : filter (fun x => x <? 0) (term s) = []) by (destruct (filter _ _); cbn in Hcnt; [reflexivity|lia]).
      destruct (Z.ltb_spec (nth lp (term s) (-1)) 0) as [Hneg|]; [|assumption]. exfalso.
      assert (Hin : In (nth lp (term s) (-1)) (filter (fun x => x <? 0) (term s))).
      { apply filter_In. split; [apply nth_In; exact Hl|apply Z.ltb_lt; exact Hneg]. }
      rewrite Hf in Hin. contradiction. }
    destruct (Hrng lp Hl) as [Hm|Hr]; [lia|].
    destruct (Z.eq_dec (nth lp (term s) (-1)) TMAX) as [E|E]; [left; exact E|right].
    exists (nth lp (term s) (-1)). split.
    + specialize (Hmax lp Hl ltac:(lia)). lia.
    + apply Hwit; [exact Hl|lia].
  - left. apply Z.ltb_ge in V. exact V.
Qed.

(* every reachable state satisfies the invariant *)
Fixpoint run (s : tstate) (os : list op) : tstate := match os with [] => s | o :: r => run (step s o) r end.
Fixpoint all_legal (s : tstate) (os : list op) : Prop :=
  match os with [] => True | o :: r => legal s o /\ all_legal (step s o) r end.

Theorem run_inv os : forall s, Inv s -> all_legal s os -> Inv (run s os).
Proof. induction os as [|o os IH]; intros s I L; cbn in *; [exact I|]. destruct L as [L1 L2]. apply IH; [apply step_inv; assumption|exact L2]. Qed.
End Term.
