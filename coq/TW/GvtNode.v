(* Node-level (multi-rank) GVT reduction of gvt.c / gvt.h: two message colours, per-colour send and receive counters, a
   sum-scatter reduction of the old colour's send counts, waiting for the old-colour messages, then the min reduction.
   Ranks, any number of them; every interleaving of event processing, sends, deliveries (arbitrary delay and reordering)
   and protocol steps.  One rank = one node seen from outside (its threads are the subject of TW/GvtData.v, TW/GvtCounters.v).

   Stages of a rank in one round (gvt_node_phase_run):
     Idle -> Started      gvt_start_processing: the accumulator is cleared
          -> Flipped      end of the first thread pass: gvt_phase ^= 1, new messages carry the new colour
          -> Contributed  node_sent_reduce: the old colour's send counts go into the reduce-scatter, counters re-based
          -> Waiting      node_sent_reduce_wait: the collective has completed, [need] = number of old-colour messages addressed here
          -> Ready        node_sent_wait: [need] old-colour messages have been received
          -> Published    second thread pass: value = min(accumulator, queue minimum)
     all Published -> Idle  min reduction: GVT = minimum of the values; colours swap roles for the next round.

   Theorem gvt_node_safe: when the min reduction completes, its result is a lower bound of every queued message, of every
   event in progress and of EVERY message in flight, on every rank. *)
From Coq Require Import List Arith Lia Bool.
From RS Require Import TW.GvtData.
Import ListNotations.

Inductive stage := Idle | Started | Flipped | Contributed | Waiting | Ready | Published.
Definition sn (s : stage) : nat :=
  match s with Idle => 0 | Started => 1 | Flipped => 2 | Contributed => 3 | Waiting => 4 | Ready => 5 | Published => 6 end.

Record rk := mkRk {
  stg : stage; col : bool; acc : option nat; cur : option nat; q : list nat;
  sent : bool -> nat -> nat;         (* remote_msg_seq[colour][dest] - last_seq[colour][dest] *)
  ctr : nat -> nat;                  (* what this rank put into the reduce-scatter *)
  recv : bool -> nat;                (* remote_msg_received[colour] *)
  need : nat;                        (* remote_msg_to_receive *)
  val : option nat                   (* reducing_p of the node *)
}.
Record msg := mkM { mcol : bool; mdst : nat; mts : nat }.
Record st := mkSt { rks : list rk; net : list msg; white : bool }.

Definition upf (f : nat -> nat) (d v : nat) : nat -> nat := fun x => if Nat.eqb x d then v else f x.
Definition upb (f : bool -> nat) (c : bool) (v : nat) : bool -> nat := fun x => if Bool.eqb x c then v else f x.
Definition upbf (f : bool -> nat -> nat) (c : bool) (g : nat -> nat) : bool -> nat -> nat := fun x => if Bool.eqb x c then g else f x.

Definition sum (f : rk -> nat) (l : list rk) : nat := fold_right (fun x a => f x + a) 0 l.
Definition cnt (c : bool) (d : nat) (n : list msg) : nat :=
  length (filter (fun m => Bool.eqb (mcol m) c && Nat.eqb (mdst m) d) n).

Definition set_stage x s := mkRk s (col x) (acc x) (cur x) (q x) (sent x) (ctr x) (recv x) (need x) (val x).

Inductive step : st -> st -> Prop :=
| s_extract : forall s i x t, nth_error (rks s) i = Some x -> cur x = None -> In t (q x) ->
    step s (mkSt (upd (rks s) i (mkRk (stg x) (col x) (omin (acc x) (Some t)) (Some t) (remove1 t (q x)) (sent x) (ctr x) (recv x) (need x) (val x)))
                 (net s) (white s))
| s_local : forall s i x c t, nth_error (rks s) i = Some x -> cur x = Some c -> c <= t ->
    step s (mkSt (upd (rks s) i (mkRk (stg x) (col x) (acc x) (cur x) (t :: q x) (sent x) (ctr x) (recv x) (need x) (val x))) (net s) (white s))
| s_remote : forall s i x c d t, nth_error (rks s) i = Some x -> cur x = Some c -> c <= t -> d < length (rks s) ->
    step s (mkSt (upd (rks s) i (mkRk (stg x) (col x) (acc x) (cur x) (q x) (upbf (sent x) (col x) (upf (sent x (col x)) d (S (sent x (col x) d))))
                                      (ctr x) (recv x) (need x) (val x)))
                 (mkM (col x) d t :: net s) (white s))
| s_finish : forall s i x, nth_error (rks s) i = Some x ->
    step s (mkSt (upd (rks s) i (mkRk (stg x) (col x) (acc x) None (q x) (sent x) (ctr x) (recv x) (need x) (val x))) (net s) (white s))
| s_deliver : forall s n1 m n2 y, net s = n1 ++ m :: n2 -> nth_error (rks s) (mdst m) = Some y ->
    step s (mkSt (upd (rks s) (mdst m) (mkRk (stg y) (col y) (acc y) (cur y) (mts m :: q y) (sent y) (ctr y)
                                             (upb (recv y) (mcol m) (S (recv y (mcol m)))) (need y) (val y)))
                 (n1 ++ n2) (white s))
| s_start : forall s i x, nth_error (rks s) i = Some x -> stg x = Idle -> cur x = None ->
    step s (mkSt (upd (rks s) i (mkRk Started (col x) None None (q x) (sent x) (ctr x) (recv x) (need x) (val x))) (net s) (white s))
| s_flip : forall s i x, nth_error (rks s) i = Some x -> stg x = Started ->
    step s (mkSt (upd (rks s) i (mkRk Flipped (negb (col x)) (acc x) (cur x) (q x) (sent x) (ctr x) (recv x) (need x) (val x))) (net s) (white s))
| s_contrib : forall s i x, nth_error (rks s) i = Some x -> stg x = Flipped ->
    step s (mkSt (upd (rks s) i (mkRk Contributed (col x) (acc x) (cur x) (q x) (upbf (sent x) (white s) (fun _ => 0)) (sent x (white s))
                                      (recv x) (need x) (val x))) (net s) (white s))
| s_reduced : forall s i x, nth_error (rks s) i = Some x -> stg x = Contributed -> (forall y, In y (rks s) -> 3 <= sn (stg y)) ->
    step s (mkSt (upd (rks s) i (mkRk Waiting (col x) (acc x) (cur x) (q x) (sent x) (ctr x) (recv x) (sum (fun y => ctr y i) (rks s)) (val x)))
                 (net s) (white s))
| s_whitedone : forall s i x, nth_error (rks s) i = Some x -> stg x = Waiting -> recv x (white s) = need x ->
    step s (mkSt (upd (rks s) i (mkRk Ready (col x) (acc x) (cur x) (q x) (sent x) (ctr x) (upb (recv x) (white s) 0) (need x) (val x)))
                 (net s) (white s))
| s_publish : forall s i x, nth_error (rks s) i = Some x -> stg x = Ready -> cur x = None ->
    step s (mkSt (upd (rks s) i (mkRk Published (col x) (acc x) None (q x) (sent x) (ctr x) (recv x) (need x) (omin (acc x) (lmin (q x)))))
                 (net s) (white s))
| s_gvt : forall s, (forall y, In y (rks s) -> stg y = Published) ->
    step s (mkSt (map (fun y => mkRk Idle (col y) (acc y) (cur y) (q y) (sent y) (fun _ => 0) (recv y) (need y) (val y)) (rks s))
                 (net s) (negb (white s))).

(* ---------------- sums and counts under point updates ---------------- *)
Lemma sum_upd f l : forall i x x', nth_error l i = Some x -> sum f (upd l i x') + f x = sum f l + f x'.
Proof. induction l as [|h t IH]; intros [|i] x x'; simpl; try discriminate.
  - intros [= ->]. lia.
  - intros Hi. specialize (IH _ _ x' Hi). lia. Qed.
Lemma sum_ext f g l : (forall x, In x l -> f x = g x) -> sum f l = sum g l.
Proof. induction l as [|h t IH]; intros H; simpl; [reflexivity|]. rewrite (H h (or_introl eq_refl)), IH; [reflexivity|]. intros x Hx. apply H. right. exact Hx. Qed.
Lemma sum_zero f l : (forall x, In x l -> f x = 0) -> sum f l = 0.
Proof. induction l as [|h t IH]; intros H; simpl; [reflexivity|]. rewrite (H h (or_introl eq_refl)), IH; [reflexivity|]. intros x Hx. apply H. right. exact Hx. Qed.
Lemma sum_map f g l : sum f (map g l) = sum (fun x => f (g x)) l.
Proof. induction l as [|h t IH]; simpl; auto. Qed.
Lemma upd_length {A} (l : list A) i x : length (upd l i x) = length l.
Proof. revert i; induction l as [|h t IH]; intros [|i]; simpl; auto. Qed.
Lemma nth_upd_same {A} (l : list A) : forall i x x', nth_error l i = Some x -> nth_error (upd l i x') i = Some x'.
Proof. induction l as [|h t IH]; intros [|i] x x'; simpl; try discriminate; [reflexivity|apply IH]. Qed.
Lemma nth_upd_other {A} (l : list A) : forall i j x', i <> j -> nth_error (upd l i x') j = nth_error l j.
Proof. induction l as [|h t IH]; intros [|i] [|j] x' H; simpl; try reflexivity; try congruence. apply IH. lia. Qed.
Lemma cnt_app c d a b : cnt c d (a ++ b) = cnt c d a + cnt c d b.
Proof. unfold cnt. rewrite filter_app, app_length. reflexivity. Qed.
Lemma cnt_cons c d m n : cnt c d (m :: n) = (if Bool.eqb (mcol m) c && Nat.eqb (mdst m) d then 1 else 0) + cnt c d n.
Proof. unfold cnt. simpl. destruct (_ && _); reflexivity. Qed.
Lemma cnt_zero_in c d n m : cnt c d n = 0 -> In m n -> mdst m = d -> mcol m <> c.
Proof.
  unfold cnt. intros H Hin Hd Hc. assert (Hf : In m (filter (fun m => Bool.eqb (mcol m) c && Nat.eqb (mdst m) d) n)).
  { apply filter_In. split; auto. rewrite Hc, Hd, Bool.eqb_reflx, Nat.eqb_refl. reflexivity. }
  destruct (filter _ n); [destruct Hf|discriminate].
Qed.

(* ---------------- the invariant ---------------- *)
Definition tot (s : st) (c : bool) (d : nat) : nat :=
  sum (fun x => sent x c d) (rks s) + (if Bool.eqb c (white s) then sum (fun x => ctr x d) (rks s) else 0).
Definition beta (x : rk) : option nat := match stg x with Idle => None | Published => val x | _ => acc x end.
Definition minbeta (l : list rk) : option nat := fold_right (fun x a => omin (beta x) a) None l.

Record InvP (s : st) : Prop := {
  (* colours *)
  i_col : forall x, In x (rks s) -> col x = if sn (stg x) <? 2 then white s else negb (white s);
  (* the collective separates the stages *)
  i_sep : forall x y, In x (rks s) -> In y (rks s) -> 4 <= sn (stg x) -> 3 <= sn (stg y);
  i_ctr : forall x, In x (rks s) -> if sn (stg x) <? 3 then (forall d, ctr x d = 0) else (forall d, sent x (white s) d = 0);
  i_need : forall i x, nth_error (rks s) i = Some x -> 4 <= sn (stg x) -> need x = sum (fun y => ctr y i) (rks s);
  (* message counting, per colour and destination *)
  i_dst : forall m, In m (net s) -> mdst m < length (rks s);
  i_cnt : forall c d y, nth_error (rks s) d = Some y ->
            if Bool.eqb c (white s) && (5 <=? sn (stg y)) then cnt c d (net s) = 0 /\ recv y c = 0
            else cnt c d (net s) + recv y c = tot s c d
}.
Record InvD (s : st) : Prop := {
  i_acc : forall x c, In x (rks s) -> cur x = Some c -> ole (acc x) c;
  i_cur : forall x c, In x (rks s) -> stg x = Published -> cur x = Some c -> ole (minbeta (rks s)) c;
  i_q : forall x t, In x (rks s) -> stg x = Published -> In t (q x) -> ole (minbeta (rks s)) t;
  i_fl : forall m, In m (net s) -> mcol m = negb (white s) -> ole (minbeta (rks s)) (mts m)
}.
Definition Inv (s : st) : Prop := InvP s /\ InvD s.

Lemma minbeta_spec l t : ole (minbeta l) t <-> exists x, In x l /\ ole (beta x) t.
Proof.
  induction l as [|y r IH]; simpl.
  - split; [tauto|intros [x [[] _]]].
  - rewrite ole_omin, IH. split.
    + intros [H|[x [Hx H]]]; [exists y; auto|exists x; auto].
    + intros [x [[<-|Hx] H]]; [left; auto|right; exists x; auto].
Qed.
Lemma minbeta_mono l i x x' t : nth_error l i = Some x -> (forall u, ole (beta x) u -> ole (beta x') u) ->
  ole (minbeta l) t -> ole (minbeta (upd l i x')) t.
Proof.
  intros Hi Hb H. apply minbeta_spec in H. destruct H as [z [Hz Ht]]. apply minbeta_spec.
  destruct (in_upd_keep l i x x' z Hi Hz) as [->|Hz'].
  - exists x'. split; [eapply in_upd_new; eauto|auto].
  - exists z. auto.
Qed.
Lemma minbeta_same l i x x' t : nth_error l i = Some x -> beta x' = beta x ->
  (ole (minbeta l) t <-> ole (minbeta (upd l i x')) t).
Proof.
  intros Hi Hb. split.
  - apply (minbeta_mono l i x x' t Hi). intros u. rewrite Hb. auto.
  - intros H. apply minbeta_spec in H. destruct H as [z [Hz Hu]]. apply minbeta_spec.
    apply in_upd_inv in Hz. destruct Hz as [->|Hz]; [exists x; split; [eapply nth_error_In; eauto|rewrite <- Hb; auto]|exists z; auto].
Qed.

Lemma sum_upd_same f l i x x' : nth_error l i = Some x -> f x' = f x -> sum f (upd l i x') = sum f l.
Proof. intros Hi E. pose proof (sum_upd f l i x x' Hi). lia. Qed.

Definition same_proto (x x' : rk) : Prop :=
  stg x' = stg x /\ col x' = col x /\ sent x' = sent x /\ ctr x' = ctr x /\ recv x' = recv x /\ need x' = need x.

Ltac inu H := apply in_upd_inv in H; destruct H as [H|H]; [subst|].

(* a step that touches only the data fields of one rank keeps the protocol part *)
Lemma proto_frame s i x x' : InvP s -> nth_error (rks s) i = Some x -> same_proto x x' ->
  InvP (mkSt (upd (rks s) i x') (net s) (white s)).
Proof.
  intros [P1 P2 P3 P4 P5 P6] Hi (E1 & E2 & E3 & E4 & E5 & E6).
  assert (Hx : In x (rks s)) by (eapply nth_error_In; eauto).
  assert (Hsum : forall f, f x' = f x -> sum f (upd (rks s) i x') = sum f (rks s)) by (intros f Hf; apply (sum_upd_same f _ i x x' Hi Hf)).
  constructor; cbn [rks net white].
  - intros y Hy. inu Hy; [rewrite E1, E2; apply P1; exact Hx|apply P1; exact Hy].
  - intros y z Hy Hz. inu Hy; inu Hz; rewrite ?E1; try (apply (P2 x x); assumption); try (apply (P2 x z); assumption);
      try (apply (P2 y x); assumption); apply (P2 y z); assumption.
  - intros y Hy. inu Hy; [rewrite E1, E3, E4; apply (P3 x Hx)|apply P3; exact Hy].
  - intros j y Hj Hge. rewrite Hsum by (rewrite E4; reflexivity).
    destruct (Nat.eq_dec i j) as [<-|Hne].
    + rewrite (nth_upd_same _ i x x' Hi) in Hj. injection Hj as <-. rewrite E6. apply (P4 i x Hi). rewrite <- E1. exact Hge.
    + rewrite nth_upd_other in Hj by exact Hne. apply (P4 j y Hj Hge).
  - intros m Hm. rewrite upd_length. apply P5. exact Hm.
  - intros c d y Hd.
    assert (Et : tot (mkSt (upd (rks s) i x') (net s) (white s)) c d = tot s c d).
    { unfold tot. cbn [rks white]. rewrite (Hsum (fun z => sent z c d)) by (rewrite E3; reflexivity).
      rewrite (Hsum (fun z => ctr z d)) by (rewrite E4; reflexivity). reflexivity. }
    rewrite Et. destruct (Nat.eq_dec i d) as [<-|Hne].
    + rewrite (nth_upd_same _ i x x' Hi) in Hd. injection Hd as <-. rewrite E1, E5. apply (P6 c i x Hi).
    + rewrite nth_upd_other in Hd by exact Hne. apply (P6 c d y Hd).
Qed.

Lemma remove1_in t l u : In u (remove1 t l) -> In u l.
Proof. induction l as [|a r IH]; simpl; [tauto|]. destruct (Nat.eqb a t); [right; auto|]. intros [->|H]; [left; auto|right; auto]. Qed.

Ltac hx Hi := match type of Hi with nth_error (rks ?s) ?i = Some ?x => assert (Hx : In x (rks s)) by (eapply nth_error_In; eauto) end.

(* ---------- data steps ---------- *)
Lemma step_extract s i x t : Inv s -> nth_error (rks s) i = Some x -> cur x = None -> In t (q x) ->
  Inv (mkSt (upd (rks s) i (mkRk (stg x) (col x) (omin (acc x) (Some t)) (Some t) (remove1 t (q x)) (sent x) (ctr x) (recv x) (need x) (val x))) (net s) (white s)).
Proof.
  intros [P D] Hi Hc Ht. hx Hi. split; [apply (proto_frame s i x); [exact P|exact Hi|repeat split]|].
  set (x' := mkRk (stg x) (col x) (omin (acc x) (Some t)) (Some t) (remove1 t (q x)) (sent x) (ctr x) (recv x) (need x) (val x)).
  assert (Hmono : forall u, ole (minbeta (rks s)) u -> ole (minbeta (upd (rks s) i x')) u).
  { intros u. apply (minbeta_mono _ i x x' u Hi). intros v. unfold beta. cbn [stg acc val x'].
    destruct (stg x); auto; intros H; apply ole_omin; auto. }
  destruct D as [D1 D2 D3 D4]. constructor; cbn [rks net white].
  - intros y c Hy Hcy. inu Hy; [cbn in *; injection Hcy as <-; apply ole_omin; right; simpl; lia|apply (D1 y c); auto].
  - intros y c Hy Hp Hcy. apply Hmono. inu Hy; [cbn in *; injection Hcy as <-; apply (D3 x t); auto|apply (D2 y c); auto].
  - intros y u Hy Hp Hu. apply Hmono. inu Hy; [cbn in *; apply (D3 x u); auto; apply (remove1_in t); exact Hu|apply (D3 y u); auto].
  - intros m Hm Hcol. apply Hmono. apply D4; auto.
Qed.

Lemma step_local s i x c t : Inv s -> nth_error (rks s) i = Some x -> cur x = Some c -> c <= t ->
  Inv (mkSt (upd (rks s) i (mkRk (stg x) (col x) (acc x) (cur x) (t :: q x) (sent x) (ctr x) (recv x) (need x) (val x))) (net s) (white s)).
Proof.
  intros [P D] Hi Hc Hle. hx Hi. split; [apply (proto_frame s i x); [exact P|exact Hi|repeat split]|].
  set (x' := mkRk (stg x) (col x) (acc x) (cur x) (t :: q x) (sent x) (ctr x) (recv x) (need x) (val x)).
  pose proof (fun u => minbeta_same (rks s) i x x' u Hi eq_refl) as Hsame.
  destruct D as [D1 D2 D3 D4]. constructor; cbn [rks net white].
  - intros y c' Hy Hcy. inu Hy; [apply (D1 x c'); auto|apply (D1 y c'); auto].
  - intros y c' Hy Hp Hcy. apply Hsame. inu Hy; [apply (D2 x c'); auto|apply (D2 y c'); auto].
  - intros y u Hy Hp Hu. apply Hsame. inu Hy; [|apply (D3 y u); auto].
    cbn in Hu, Hp. destruct Hu as [<-|Hu]; [|apply (D3 x u); auto]. eapply ole_trans; [apply (D2 x c); auto|exact Hle].
  - intros m Hm Hcol. apply Hsame. apply D4; auto.
Qed.

Lemma step_finish s i x : Inv s -> nth_error (rks s) i = Some x ->
  Inv (mkSt (upd (rks s) i (mkRk (stg x) (col x) (acc x) None (q x) (sent x) (ctr x) (recv x) (need x) (val x))) (net s) (white s)).
Proof.
  intros [P D] Hi. hx Hi. split; [apply (proto_frame s i x); [exact P|exact Hi|repeat split]|].
  set (x' := mkRk (stg x) (col x) (acc x) None (q x) (sent x) (ctr x) (recv x) (need x) (val x)).
  pose proof (fun u => minbeta_same (rks s) i x x' u Hi eq_refl) as Hsame.
  destruct D as [D1 D2 D3 D4]. constructor; cbn [rks net white].
  - intros y c' Hy Hcy. inu Hy; [discriminate|apply (D1 y c'); auto].
  - intros y c' Hy Hp Hcy. apply Hsame. inu Hy; [discriminate|apply (D2 y c'); auto].
  - intros y u Hy Hp Hu. apply Hsame. inu Hy; [apply (D3 x u); auto|apply (D3 y u); auto].
  - intros m Hm Hcol. apply Hsame. apply D4; auto.
Qed.

Lemma beqb_sym a b : Bool.eqb a b = Bool.eqb b a.
Proof. destruct a, b; reflexivity. Qed.

Lemma step_remote s i x c d t : Inv s -> nth_error (rks s) i = Some x -> cur x = Some c -> c <= t -> d < length (rks s) ->
  Inv (mkSt (upd (rks s) i (mkRk (stg x) (col x) (acc x) (cur x) (q x) (upbf (sent x) (col x) (upf (sent x (col x)) d (S (sent x (col x) d))))
                                 (ctr x) (recv x) (need x) (val x)))
            (mkM (col x) d t :: net s) (white s)).
Proof.
  intros [P D] Hi Hc Hle Hd. hx Hi.
  set (x' := mkRk (stg x) (col x) (acc x) (cur x) (q x) (upbf (sent x) (col x) (upf (sent x (col x)) d (S (sent x (col x) d)))) (ctr x) (recv x) (need x) (val x)).
  destruct P as [P1 P2 P3 P4 P5 P6].
  assert (Hsum : forall f, f x' = f x -> sum f (upd (rks s) i x') = sum f (rks s)) by (intros f Hf; apply (sum_upd_same f _ i x x' Hi Hf)).
  assert (Hsent : forall c0 d0, sent x' c0 d0 = sent x c0 d0 + (if Bool.eqb c0 (col x) && Nat.eqb d0 d then 1 else 0)).
  { intros c0 d0. cbn [sent x']. unfold upbf, upf. destruct (Bool.eqb c0 (col x)) eqn:Ec; cbn [andb]; [|lia].
    apply Bool.eqb_prop in Ec. subst c0. destruct (Nat.eqb_spec d0 d); [subst; lia|lia]. }
  split.
  - constructor; cbn [rks net white].
    + intros y Hy. inu Hy; [apply (P1 x Hx)|apply P1; exact Hy].
    + intros y z Hy Hz. inu Hy; inu Hz; cbn [stg]; try (apply (P2 x x); assumption); try (apply (P2 x z); assumption);
        try (apply (P2 y x); assumption); apply (P2 y z); assumption.
    + intros y Hy. inu Hy; [|apply P3; exact Hy]. change (sn (stg x')) with (sn (stg x)). change (ctr x') with (ctr x). pose proof (P3 x Hx) as H3. pose proof (P1 x Hx) as H1.
      destruct (Nat.ltb_spec (sn (stg x)) 3); [exact H3|]. intros d0. rewrite Hsent, H3.
      destruct (Nat.ltb_spec (sn (stg x)) 2); [lia|]. rewrite H1. destruct (white s); reflexivity.
    + intros j y Hj Hge. rewrite Hsum by reflexivity.
      destruct (Nat.eq_dec i j) as [<-|Hne].
      * rewrite (nth_upd_same _ i x x' Hi) in Hj. injection Hj as <-. apply (P4 i x Hi Hge).
      * rewrite nth_upd_other in Hj by exact Hne. apply (P4 j y Hj Hge).
    + intros m [<-|Hm]; rewrite upd_length; [exact Hd|apply P5; exact Hm].
    + intros c0 d0 y Hy0.
      assert (Et : tot (mkSt (upd (rks s) i x') (mkM (col x) d t :: net s) (white s)) c0 d0 =
                   tot s c0 d0 + (if Bool.eqb c0 (col x) && Nat.eqb d0 d then 1 else 0)).
      { unfold tot. cbn [rks white]. rewrite (Hsum (fun z => ctr z d0)) by reflexivity.
        pose proof (sum_upd (fun z => sent z c0 d0) (rks s) i x x' Hi) as Hs. cbn beta in Hs. rewrite Hsent in Hs. lia. }
      rewrite Et, cnt_cons. cbn [mcol mdst]. rewrite (beqb_sym (col x) c0), (Nat.eqb_sym d d0).
      assert (Hy1 : exists y1, nth_error (rks s) d0 = Some y1 /\ stg y = stg y1 /\ recv y = recv y1).
      { destruct (Nat.eq_dec i d0) as [<-|Hne].
        - rewrite (nth_upd_same _ i x x' Hi) in Hy0. injection Hy0 as <-. exists x. auto.
        - rewrite nth_upd_other in Hy0 by exact Hne. exists y. auto. }
      destruct Hy1 as (y1 & Hy1 & Es & Er). rewrite Es, Er. pose proof (P6 c0 d0 y1 Hy1) as H6.
      destruct (Bool.eqb c0 (white s) && (5 <=? sn (stg y1))) eqn:Eg; [|lia].
      apply andb_true_iff in Eg. destruct Eg as [Ew E5]. apply Bool.eqb_prop in Ew. apply Nat.leb_le in E5. subst c0.
      (* a rank is Ready: everybody has contributed, so the sender has flipped and its colour is not white *)
      assert (Hy1in : In y1 (rks s)) by (eapply nth_error_In; eauto).
      pose proof (P2 y1 x Hy1in Hx ltac:(lia)) as H3. pose proof (P1 x Hx) as H1.
      destruct (Nat.ltb_spec (sn (stg x)) 2); [lia|]. rewrite H1. destruct (white s); cbn; exact H6.
  - pose proof (fun u => minbeta_same (rks s) i x x' u Hi eq_refl) as Hsame.
    destruct D as [D1 D2 D3 D4]. constructor; cbn [rks net white].
    + intros y c' Hy Hcy. inu Hy; [apply (D1 x c'); auto|apply (D1 y c'); auto].
    + intros y c' Hy Hp Hcy. apply Hsame. inu Hy; [apply (D2 x c'); auto|apply (D2 y c'); auto].
    + intros y u Hy Hp Hu. apply Hsame. inu Hy; [apply (D3 x u); auto|apply (D3 y u); auto].
    + intros m [<-|Hm] Hcol; apply Hsame; [|apply D4; auto]. cbn [mcol mts] in *.
      pose proof (P1 x Hx) as H1. destruct (Nat.ltb_spec (sn (stg x)) 2) as [Hlt|Hge]; [rewrite H1 in Hcol; destruct (white s); discriminate|].
      destruct (stg x) eqn:Es; cbn in Hge; try lia;
        try (apply minbeta_spec; exists x; split; [exact Hx|]; unfold beta; rewrite Es; eapply ole_trans; [apply (D1 x c); auto|exact Hle]).
      eapply ole_trans; [apply (D2 x c); auto|exact Hle].
Qed.

Lemma step_deliver s n1 m n2 y : Inv s -> net s = n1 ++ m :: n2 -> nth_error (rks s) (mdst m) = Some y ->
  Inv (mkSt (upd (rks s) (mdst m) (mkRk (stg y) (col y) (acc y) (cur y) (mts m :: q y) (sent y) (ctr y)
                                        (upb (recv y) (mcol m) (S (recv y (mcol m)))) (need y) (val y)))
            (n1 ++ n2) (white s)).
Proof.
  intros [P D] En Hi. assert (Hy : In y (rks s)) by (eapply nth_error_In; eauto).
  set (y' := mkRk (stg y) (col y) (acc y) (cur y) (mts m :: q y) (sent y) (ctr y) (upb (recv y) (mcol m) (S (recv y (mcol m)))) (need y) (val y)).
  destruct P as [P1 P2 P3 P4 P5 P6].
  assert (Hsum : forall f, f y' = f y -> sum f (upd (rks s) (mdst m) y') = sum f (rks s)) by (intros f Hf; apply (sum_upd_same f _ _ y y' Hi Hf)).
  assert (Hin : forall z, In z (n1 ++ n2) -> In z (net s)).
  { intros z Hz. rewrite En. apply in_app_or in Hz. apply in_or_app. destruct Hz; [left|right; right]; assumption. }
  assert (Hmin : In m (net s)) by (rewrite En; apply in_or_app; right; left; reflexivity).
  assert (Hcnt : forall c d, cnt c d (net s) = cnt c d (n1 ++ n2) + (if Bool.eqb (mcol m) c && Nat.eqb (mdst m) d then 1 else 0)).
  { intros c d. rewrite En, !cnt_app, cnt_cons. lia. }
  split.
  - constructor; cbn [rks net white].
    + intros z Hz. inu Hz; [apply (P1 y Hy)|apply P1; exact Hz].
    + intros z w Hz Hw. inu Hz; inu Hw; cbn [stg]; try (apply (P2 y y); assumption); try (apply (P2 y w); assumption);
        try (apply (P2 z y); assumption); apply (P2 z w); assumption.
    + intros z Hz. inu Hz; [apply (P3 y Hy)|apply P3; exact Hz].
    + intros j z Hj Hge. rewrite Hsum by reflexivity.
      destruct (Nat.eq_dec (mdst m) j) as [<-|Hne].
      * rewrite (nth_upd_same _ _ y y' Hi) in Hj. injection Hj as <-. apply (P4 _ y Hi Hge).
      * rewrite nth_upd_other in Hj by exact Hne. apply (P4 j z Hj Hge).
    + intros z Hz. rewrite upd_length. apply P5. apply Hin. exact Hz.
    + intros c d z Hz.
      assert (Et : tot (mkSt (upd (rks s) (mdst m) y') (n1 ++ n2) (white s)) c d = tot s c d).
      { unfold tot. cbn [rks white]. rewrite (Hsum (fun w => sent w c d)), (Hsum (fun w => ctr w d)) by reflexivity. reflexivity. }
      rewrite Et. specialize (Hcnt c d).
      destruct (Nat.eq_dec (mdst m) d) as [<-|Hne].
      * rewrite (nth_upd_same _ _ y y' Hi) in Hz. injection Hz as <-. cbn [stg recv y']. pose proof (P6 c _ y Hi) as H6.
        rewrite Nat.eqb_refl, andb_true_r in Hcnt. unfold upb.
        destruct (Bool.eqb c (white s) && (5 <=? sn (stg y))) eqn:Eg.
        -- destruct H6 as [H6 H7]. apply andb_true_iff in Eg. destruct Eg as [Ew _]. apply Bool.eqb_prop in Ew. subst c.
           destruct (Bool.eqb (mcol m) (white s)) eqn:Em; [lia|]. rewrite beqb_sym, Em. split; [lia|exact H7].
        -- rewrite (beqb_sym c (mcol m)). destruct (Bool.eqb (mcol m) c) eqn:Em; [apply Bool.eqb_prop in Em; subst c; lia|lia].
      * rewrite nth_upd_other in Hz by exact Hne. pose proof (P6 c d z Hz) as H6.
        destruct (Nat.eqb_spec (mdst m) d) as [E|_]; [contradiction|]. rewrite andb_false_r in Hcnt. rewrite Hcnt, Nat.add_0_r in H6. exact H6.
  - pose proof (fun u => minbeta_same (rks s) (mdst m) y y' u Hi eq_refl) as Hsame.
    destruct D as [D1 D2 D3 D4]. constructor; cbn [rks net white].
    + intros z c' Hz Hcz. inu Hz; [apply (D1 y c'); auto|apply (D1 z c'); auto].
    + intros z c' Hz Hp Hcz. apply Hsame. inu Hz; [apply (D2 y c'); auto|apply (D2 z c'); auto].
    + intros z u Hz Hp Hu. apply Hsame. inu Hz; [|apply (D3 z u); auto].
      cbn in Hu, Hp. destruct Hu as [<-|Hu]; [|apply (D3 y u); auto].
      (* the destination has published: it has received every white message, so this one carries the new colour *)
      apply D4; [exact Hmin|]. pose proof (P6 (white s) _ y Hi) as H6. rewrite Hp, Bool.eqb_reflx in H6. cbn in H6. destruct H6 as [H6 _].
      pose proof (cnt_zero_in _ _ _ m H6 Hmin eq_refl) as Hne. destruct (mcol m), (white s); try reflexivity; congruence.
    + intros z Hz Hcol. apply Hsame. apply D4; [apply Hin; exact Hz|exact Hcol].
Qed.

(* ---------- protocol steps ---------- *)
(* nobody has reached the collective's result while some rank has not contributed *)
Lemma nobody_waiting s x : InvP s -> In x (rks s) -> sn (stg x) < 3 -> forall z, In z (rks s) -> sn (stg z) < 4.
Proof. intros P Hx Hlt z Hz. destruct (Nat.lt_ge_cases (sn (stg z)) 4) as [H|H]; [exact H|]. pose proof (i_sep s P z x Hz Hx H). lia. Qed.

Lemma step_start s i x : Inv s -> nth_error (rks s) i = Some x -> stg x = Idle -> cur x = None ->
  Inv (mkSt (upd (rks s) i (mkRk Started (col x) None None (q x) (sent x) (ctr x) (recv x) (need x) (val x))) (net s) (white s)).
Proof.
  intros [P D] Hi Hs Hc. hx Hi.
  set (x' := mkRk Started (col x) None None (q x) (sent x) (ctr x) (recv x) (need x) (val x)).
  pose proof (nobody_waiting s x P Hx ltac:(rewrite Hs; cbn; lia)) as Hnw.
  destruct P as [P1 P2 P3 P4 P5 P6].
  assert (Hsum : forall f, f x' = f x -> sum f (upd (rks s) i x') = sum f (rks s)) by (intros f Hf; apply (sum_upd_same f _ i x x' Hi Hf)).
  split.
  - constructor; cbn [rks net white].
    + intros y Hy. inu Hy; [cbn; pose proof (P1 x Hx) as H; rewrite Hs in H; exact H|apply P1; exact Hy].
    + intros y z Hy Hz Hge. inu Hy; [cbn in Hge; lia|]. inu Hz; [specialize (Hnw y Hy); lia|apply (P2 y z); assumption].
    + intros y Hy. inu Hy; [cbn; pose proof (P3 x Hx) as H; rewrite Hs in H; exact H|apply P3; exact Hy].
    + intros j y Hj Hge. rewrite Hsum by reflexivity. destruct (Nat.eq_dec i j) as [<-|Hne].
      * rewrite (nth_upd_same _ i x x' Hi) in Hj. injection Hj as <-. cbn in Hge. lia.
      * rewrite nth_upd_other in Hj by exact Hne. apply (P4 j y Hj Hge).
    + intros m Hm. rewrite upd_length. apply P5. exact Hm.
    + intros c d y Hd.
      assert (Et : tot (mkSt (upd (rks s) i x') (net s) (white s)) c d = tot s c d).
      { unfold tot. cbn [rks white]. rewrite (Hsum (fun w => sent w c d)), (Hsum (fun w => ctr w d)) by reflexivity. reflexivity. }
      rewrite Et. destruct (Nat.eq_dec i d) as [<-|Hne].
      * rewrite (nth_upd_same _ i x x' Hi) in Hd. injection Hd as <-. pose proof (P6 c i x Hi) as H6. rewrite Hs in H6. cbn in *. rewrite andb_false_r in *. exact H6.
      * rewrite nth_upd_other in Hd by exact Hne. apply (P6 c d y Hd).
  - assert (Hb : beta x' = beta x) by (unfold beta; rewrite Hs; reflexivity).
    pose proof (fun u => minbeta_same (rks s) i x x' u Hi Hb) as Hsame.
    destruct D as [D1 D2 D3 D4]. constructor; cbn [rks net white].
    + intros y c' Hy Hcy. inu Hy; [discriminate|apply (D1 y c'); auto].
    + intros y c' Hy Hp Hcy. apply Hsame. inu Hy; [discriminate|apply (D2 y c'); auto].
    + intros y u Hy Hp Hu. apply Hsame. inu Hy; [discriminate|apply (D3 y u); auto].
    + intros m Hm Hcol. apply Hsame. apply D4; auto.
Qed.

Lemma step_flip s i x : Inv s -> nth_error (rks s) i = Some x -> stg x = Started ->
  Inv (mkSt (upd (rks s) i (mkRk Flipped (negb (col x)) (acc x) (cur x) (q x) (sent x) (ctr x) (recv x) (need x) (val x))) (net s) (white s)).
Proof.
  intros [P D] Hi Hs. hx Hi.
  set (x' := mkRk Flipped (negb (col x)) (acc x) (cur x) (q x) (sent x) (ctr x) (recv x) (need x) (val x)).
  pose proof (nobody_waiting s x P Hx ltac:(rewrite Hs; cbn; lia)) as Hnw.
  destruct P as [P1 P2 P3 P4 P5 P6].
  assert (Hsum : forall f, f x' = f x -> sum f (upd (rks s) i x') = sum f (rks s)) by (intros f Hf; apply (sum_upd_same f _ i x x' Hi Hf)).
  split.
  - constructor; cbn [rks net white].
    + intros y Hy. inu Hy; [cbn; pose proof (P1 x Hx) as H; rewrite Hs in H; cbn in H; rewrite H; reflexivity|apply P1; exact Hy].
    + intros y z Hy Hz Hge. inu Hy; [cbn in Hge; lia|]. inu Hz; [specialize (Hnw y Hy); lia|apply (P2 y z); assumption].
    + intros y Hy. inu Hy; [cbn; pose proof (P3 x Hx) as H; rewrite Hs in H; exact H|apply P3; exact Hy].
    + intros j y Hj Hge. rewrite Hsum by reflexivity. destruct (Nat.eq_dec i j) as [<-|Hne].
      * rewrite (nth_upd_same _ i x x' Hi) in Hj. injection Hj as <-. cbn in Hge. lia.
      * rewrite nth_upd_other in Hj by exact Hne. apply (P4 j y Hj Hge).
    + intros m Hm. rewrite upd_length. apply P5. exact Hm.
    + intros c d y Hd.
      assert (Et : tot (mkSt (upd (rks s) i x') (net s) (white s)) c d = tot s c d).
      { unfold tot. cbn [rks white]. rewrite (Hsum (fun w => sent w c d)), (Hsum (fun w => ctr w d)) by reflexivity. reflexivity. }
      rewrite Et. destruct (Nat.eq_dec i d) as [<-|Hne].
      * rewrite (nth_upd_same _ i x x' Hi) in Hd. injection Hd as <-. pose proof (P6 c i x Hi) as H6. rewrite Hs in H6. cbn in *. rewrite andb_false_r in *. exact H6.
      * rewrite nth_upd_other in Hd by exact Hne. apply (P6 c d y Hd).
  - assert (Hb : beta x' = beta x) by (unfold beta; rewrite Hs; reflexivity).
    pose proof (fun u => minbeta_same (rks s) i x x' u Hi Hb) as Hsame.
    destruct D as [D1 D2 D3 D4]. constructor; cbn [rks net white].
    + intros y c' Hy Hcy. inu Hy; [apply (D1 x c'); auto|apply (D1 y c'); auto].
    + intros y c' Hy Hp Hcy. apply Hsame. inu Hy; [discriminate|apply (D2 y c'); auto].
    + intros y u Hy Hp Hu. apply Hsame. inu Hy; [discriminate|apply (D3 y u); auto].
    + intros m Hm Hcol. apply Hsame. apply D4; auto.
Qed.

Lemma step_contrib s i x : Inv s -> nth_error (rks s) i = Some x -> stg x = Flipped ->
  Inv (mkSt (upd (rks s) i (mkRk Contributed (col x) (acc x) (cur x) (q x) (upbf (sent x) (white s) (fun _ => 0)) (sent x (white s))
                                 (recv x) (need x) (val x))) (net s) (white s)).
Proof.
  intros [P D] Hi Hs. hx Hi.
  set (x' := mkRk Contributed (col x) (acc x) (cur x) (q x) (upbf (sent x) (white s) (fun _ => 0)) (sent x (white s)) (recv x) (need x) (val x)).
  pose proof (nobody_waiting s x P Hx ltac:(rewrite Hs; cbn; lia)) as Hnw.
  destruct P as [P1 P2 P3 P4 P5 P6].
  assert (Hc0 : forall d, ctr x d = 0) by (pose proof (P3 x Hx) as H; rewrite Hs in H; exact H).
  split.
  - constructor; cbn [rks net white].
    + intros y Hy. inu Hy; [cbn; pose proof (P1 x Hx) as H; rewrite Hs in H; exact H|apply P1; exact Hy].
    + intros y z Hy Hz Hge. inu Hy; [cbn in Hge; lia|]. inu Hz; [cbn; lia|apply (P2 y z); assumption].
    + intros y Hy. inu Hy; [cbn; intros d; unfold upbf; rewrite Bool.eqb_reflx; reflexivity|apply P3; exact Hy].
    + intros j y Hj Hge. exfalso. destruct (Nat.eq_dec i j) as [<-|Hne].
      * rewrite (nth_upd_same _ i x x' Hi) in Hj. injection Hj as <-. cbn in Hge. lia.
      * rewrite nth_upd_other in Hj by exact Hne. apply nth_error_In in Hj. specialize (Hnw y Hj). lia.
    + intros m Hm. rewrite upd_length. apply P5. exact Hm.
    + intros c d y Hd.
      assert (Et : tot (mkSt (upd (rks s) i x') (net s) (white s)) c d = tot s c d).
      { unfold tot. cbn [rks white].
        pose proof (sum_upd (fun w => sent w c d) (rks s) i x x' Hi) as S1. pose proof (sum_upd (fun w => ctr w d) (rks s) i x x' Hi) as S2.
        cbn beta in S1, S2. cbn [sent ctr x'] in S1, S2. unfold upbf in S1. rewrite Hc0 in S2.
        destruct (Bool.eqb c (white s)) eqn:Ec; [apply Bool.eqb_prop in Ec; subst c; lia|lia]. }
      rewrite Et. destruct (Nat.eq_dec i d) as [<-|Hne].
      * rewrite (nth_upd_same _ i x x' Hi) in Hd. injection Hd as <-. pose proof (P6 c i x Hi) as H6. rewrite Hs in H6. cbn in *. rewrite andb_false_r in *. exact H6.
      * rewrite nth_upd_other in Hd by exact Hne. apply (P6 c d y Hd).
  - assert (Hb : beta x' = beta x) by (unfold beta; rewrite Hs; reflexivity).
    pose proof (fun u => minbeta_same (rks s) i x x' u Hi Hb) as Hsame.
    destruct D as [D1 D2 D3 D4]. constructor; cbn [rks net white].
    + intros y c' Hy Hcy. inu Hy; [apply (D1 x c'); auto|apply (D1 y c'); auto].
    + intros y c' Hy Hp Hcy. apply Hsame. inu Hy; [discriminate|apply (D2 y c'); auto].
    + intros y u Hy Hp Hu. apply Hsame. inu Hy; [discriminate|apply (D3 y u); auto].
    + intros m Hm Hcol. apply Hsame. apply D4; auto.
Qed.

Lemma step_reduced s i x : Inv s -> nth_error (rks s) i = Some x -> stg x = Contributed -> (forall y, In y (rks s) -> 3 <= sn (stg y)) ->
  Inv (mkSt (upd (rks s) i (mkRk Waiting (col x) (acc x) (cur x) (q x) (sent x) (ctr x) (recv x) (sum (fun y => ctr y i) (rks s)) (val x))) (net s) (white s)).
Proof.
  intros [P D] Hi Hs Hall. hx Hi.
  set (x' := mkRk Waiting (col x) (acc x) (cur x) (q x) (sent x) (ctr x) (recv x) (sum (fun y => ctr y i) (rks s)) (val x)).
  destruct P as [P1 P2 P3 P4 P5 P6].
  assert (Hsum : forall f, f x' = f x -> sum f (upd (rks s) i x') = sum f (rks s)) by (intros f Hf; apply (sum_upd_same f _ i x x' Hi Hf)).
  split.
  - constructor; cbn [rks net white].
    + intros y Hy. inu Hy; [cbn; pose proof (P1 x Hx) as H; rewrite Hs in H; exact H|apply P1; exact Hy].
    + intros y z Hy Hz Hge. inu Hz; [cbn; lia|]. apply Hall. exact Hz.
    + intros y Hy. inu Hy; [cbn; pose proof (P3 x Hx) as H; rewrite Hs in H; exact H|apply P3; exact Hy].
    + intros j y Hj Hge. rewrite Hsum by reflexivity. destruct (Nat.eq_dec i j) as [<-|Hne].
      * rewrite (nth_upd_same _ i x x' Hi) in Hj. injection Hj as <-. reflexivity.
      * rewrite nth_upd_other in Hj by exact Hne. apply (P4 j y Hj Hge).
    + intros m Hm. rewrite upd_length. apply P5. exact Hm.
    + intros c d y Hd.
      assert (Et : tot (mkSt (upd (rks s) i x') (net s) (white s)) c d = tot s c d).
      { unfold tot. cbn [rks white]. rewrite (Hsum (fun w => sent w c d)), (Hsum (fun w => ctr w d)) by reflexivity. reflexivity. }
      rewrite Et. destruct (Nat.eq_dec i d) as [<-|Hne].
      * rewrite (nth_upd_same _ i x x' Hi) in Hd. injection Hd as <-. pose proof (P6 c i x Hi) as H6. rewrite Hs in H6. cbn in *. rewrite andb_false_r in *. exact H6.
      * rewrite nth_upd_other in Hd by exact Hne. apply (P6 c d y Hd).
  - assert (Hb : beta x' = beta x) by (unfold beta; rewrite Hs; reflexivity).
    pose proof (fun u => minbeta_same (rks s) i x x' u Hi Hb) as Hsame.
    destruct D as [D1 D2 D3 D4]. constructor; cbn [rks net white].
    + intros y c' Hy Hcy. inu Hy; [apply (D1 x c'); auto|apply (D1 y c'); auto].
    + intros y c' Hy Hp Hcy. apply Hsame. inu Hy; [discriminate|apply (D2 y c'); auto].
    + intros y u Hy Hp Hu. apply Hsame. inu Hy; [discriminate|apply (D3 y u); auto].
    + intros m Hm Hcol. apply Hsame. apply D4; auto.
Qed.

Lemma step_whitedone s i x : Inv s -> nth_error (rks s) i = Some x -> stg x = Waiting -> recv x (white s) = need x ->
  Inv (mkSt (upd (rks s) i (mkRk Ready (col x) (acc x) (cur x) (q x) (sent x) (ctr x) (upb (recv x) (white s) 0) (need x) (val x))) (net s) (white s)).
Proof.
  intros [P D] Hi Hs Hrn. hx Hi.
  set (x' := mkRk Ready (col x) (acc x) (cur x) (q x) (sent x) (ctr x) (upb (recv x) (white s) 0) (need x) (val x)).
  destruct P as [P1 P2 P3 P4 P5 P6].
  assert (Hsum : forall f, f x' = f x -> sum f (upd (rks s) i x') = sum f (rks s)) by (intros f Hf; apply (sum_upd_same f _ i x x' Hi Hf)).
  assert (Hall : forall y, In y (rks s) -> 3 <= sn (stg y)) by (intros y Hy; apply (P2 x y Hx Hy); rewrite Hs; cbn; lia).
  split.
  - constructor; cbn [rks net white].
    + intros y Hy. inu Hy; [cbn; pose proof (P1 x Hx) as H; rewrite Hs in H; exact H|apply P1; exact Hy].
    + intros y z Hy Hz Hge. inu Hz; [cbn; lia|]. apply Hall. exact Hz.
    + intros y Hy. inu Hy; [cbn; pose proof (P3 x Hx) as H; rewrite Hs in H; exact H|apply P3; exact Hy].
    + intros j y Hj Hge. rewrite Hsum by reflexivity. destruct (Nat.eq_dec i j) as [<-|Hne].
      * rewrite (nth_upd_same _ i x x' Hi) in Hj. injection Hj as <-. apply (P4 i x Hi). rewrite Hs. cbn. lia.
      * rewrite nth_upd_other in Hj by exact Hne. apply (P4 j y Hj Hge).
    + intros m Hm. rewrite upd_length. apply P5. exact Hm.
    + intros c d y Hd.
      assert (Et : tot (mkSt (upd (rks s) i x') (net s) (white s)) c d = tot s c d).
      { unfold tot. cbn [rks white]. rewrite (Hsum (fun w => sent w c d)), (Hsum (fun w => ctr w d)) by reflexivity. reflexivity. }
      rewrite Et. destruct (Nat.eq_dec i d) as [<-|Hne].
      * rewrite (nth_upd_same _ i x x' Hi) in Hd. injection Hd as <-. pose proof (P6 c i x Hi) as H6. rewrite Hs in H6. cbn [stg recv x' sn]. cbn in H6.
        rewrite andb_false_r in H6. unfold upb. change (5 <=? 5) with true. rewrite andb_true_r.
        destruct (Bool.eqb c (white s)) eqn:Ec; [|exact H6]. apply Bool.eqb_prop in Ec. subst c. split; [|reflexivity].
        (* everybody has contributed: the total of white messages addressed here is exactly [need] *)
        unfold tot in H6. rewrite Bool.eqb_reflx in H6.
        rewrite (sum_zero (fun w => sent w (white s) i)) in H6.
        2:{ intros w Hw. pose proof (P3 w Hw) as H3. destruct (Nat.ltb_spec (sn (stg w)) 3); [specialize (Hall w Hw); lia|apply H3]. }
        rewrite <- (P4 i x Hi ltac:(rewrite Hs; cbn; lia)) in H6. lia.
      * rewrite nth_upd_other in Hd by exact Hne. apply (P6 c d y Hd).
  - assert (Hb : beta x' = beta x) by (unfold beta; rewrite Hs; reflexivity).
    pose proof (fun u => minbeta_same (rks s) i x x' u Hi Hb) as Hsame.
    destruct D as [D1 D2 D3 D4]. constructor; cbn [rks net white].
    + intros y c' Hy Hcy. inu Hy; [apply (D1 x c'); auto|apply (D1 y c'); auto].
    + intros y c' Hy Hp Hcy. apply Hsame. inu Hy; [discriminate|apply (D2 y c'); auto].
    + intros y u Hy Hp Hu. apply Hsame. inu Hy; [discriminate|apply (D3 y u); auto].
    + intros m Hm Hcol. apply Hsame. apply D4; auto.
Qed.

Lemma step_publish s i x : Inv s -> nth_error (rks s) i = Some x -> stg x = Ready -> cur x = None ->
  Inv (mkSt (upd (rks s) i (mkRk Published (col x) (acc x) None (q x) (sent x) (ctr x) (recv x) (need x) (omin (acc x) (lmin (q x))))) (net s) (white s)).
Proof.
  intros [P D] Hi Hs Hc. hx Hi.
  set (x' := mkRk Published (col x) (acc x) None (q x) (sent x) (ctr x) (recv x) (need x) (omin (acc x) (lmin (q x)))).
  destruct P as [P1 P2 P3 P4 P5 P6].
  assert (Hsum : forall f, f x' = f x -> sum f (upd (rks s) i x') = sum f (rks s)) by (intros f Hf; apply (sum_upd_same f _ i x x' Hi Hf)).
  assert (Hall : forall y, In y (rks s) -> 3 <= sn (stg y)) by (intros y Hy; apply (P2 x y Hx Hy); rewrite Hs; cbn; lia).
  split.
  - constructor; cbn [rks net white].
    + intros y Hy. inu Hy; [cbn; pose proof (P1 x Hx) as H; rewrite Hs in H; exact H|apply P1; exact Hy].
    + intros y z Hy Hz Hge. inu Hz; [cbn; lia|]. apply Hall. exact Hz.
    + intros y Hy. inu Hy; [cbn; pose proof (P3 x Hx) as H; rewrite Hs in H; exact H|apply P3; exact Hy].
    + intros j y Hj Hge. rewrite Hsum by reflexivity. destruct (Nat.eq_dec i j) as [<-|Hne].
      * rewrite (nth_upd_same _ i x x' Hi) in Hj. injection Hj as <-. apply (P4 i x Hi). rewrite Hs. cbn. lia.
      * rewrite nth_upd_other in Hj by exact Hne. apply (P4 j y Hj Hge).
    + intros m Hm. rewrite upd_length. apply P5. exact Hm.
    + intros c d y Hd.
      assert (Et : tot (mkSt (upd (rks s) i x') (net s) (white s)) c d = tot s c d).
      { unfold tot. cbn [rks white]. rewrite (Hsum (fun w => sent w c d)), (Hsum (fun w => ctr w d)) by reflexivity. reflexivity. }
      rewrite Et. destruct (Nat.eq_dec i d) as [<-|Hne].
      * rewrite (nth_upd_same _ i x x' Hi) in Hd. injection Hd as <-. pose proof (P6 c i x Hi) as H6. rewrite Hs in H6. exact H6.
      * rewrite nth_upd_other in Hd by exact Hne. apply (P6 c d y Hd).
  - assert (Hmono : forall u, ole (minbeta (rks s)) u -> ole (minbeta (upd (rks s) i x')) u).
    { intros u. apply (minbeta_mono _ i x x' u Hi). intros v. unfold beta. rewrite Hs. cbn [stg val x']. intros H. apply ole_omin. left. exact H. }
    destruct D as [D1 D2 D3 D4]. constructor; cbn [rks net white].
    + intros y c' Hy Hcy. inu Hy; [discriminate|apply (D1 y c'); auto].
    + intros y c' Hy Hp Hcy. inu Hy; [discriminate|apply Hmono; apply (D2 y c'); auto].
    + intros y u Hy Hp Hu. inu Hy; [|apply Hmono; apply (D3 y u); auto].
      apply minbeta_spec. exists x'. split; [eapply in_upd_new; eauto|]. unfold beta. cbn [stg val x' q] in *.
      apply ole_omin. right. apply lmin_spec. exact Hu.
    + intros m Hm Hcol. apply Hmono. apply D4; auto.
Qed.

Lemma nth_error_map_inv {A B} (g : A -> B) l : forall d y', nth_error (map g l) d = Some y' -> exists y, nth_error l d = Some y /\ y' = g y.
Proof. induction l as [|h t IH]; intros [|d] y' H; cbn in H; try discriminate; [injection H as <-; exists h; auto|apply IH; exact H]. Qed.

Lemma step_gvt s : Inv s -> (forall y, In y (rks s) -> stg y = Published) ->
  Inv (mkSt (map (fun y => mkRk Idle (col y) (acc y) (cur y) (q y) (sent y) (fun _ => 0) (recv y) (need y) (val y)) (rks s)) (net s) (negb (white s))).
Proof.
  intros [P D] Hall. set (g := fun y => mkRk Idle (col y) (acc y) (cur y) (q y) (sent y) (fun _ => 0) (recv y) (need y) (val y)).
  destruct P as [P1 P2 P3 P4 P5 P6]. split.
  - constructor; cbn [rks net white].
    + intros y' Hy. apply in_map_iff in Hy. destruct Hy as (y & <- & Hy). cbn. pose proof (P1 y Hy) as H. rewrite (Hall y Hy) in H. exact H.
    + intros y' z' Hy _ Hge. apply in_map_iff in Hy. destruct Hy as (y & <- & Hy). cbn in Hge. lia.
    + intros y' Hy. apply in_map_iff in Hy. destruct Hy as (y & <- & Hy). cbn. reflexivity.
    + intros j y' Hj Hge. apply nth_error_map_inv in Hj. destruct Hj as (y & _ & ->). cbn in Hge. lia.
    + intros m Hm. rewrite map_length. apply P5. exact Hm.
    + intros c d y' Hd. apply nth_error_map_inv in Hd. destruct Hd as (y & Hd & ->). cbn [stg recv g sn]. change (5 <=? 0) with false. rewrite andb_false_r.
      assert (Hy : In y (rks s)) by (eapply nth_error_In; eauto).
      unfold tot. cbn [rks white]. rewrite (sum_map (fun x => sent x c d) g (rks s)), (sum_map (fun x => ctr x d) g (rks s)). cbn [sent ctr g]. rewrite (sum_zero (fun _ => 0)) by reflexivity.
      assert (Ez : (if Bool.eqb c (negb (white s)) then 0 else 0) = 0) by (destruct (Bool.eqb c (negb (white s))); reflexivity). rewrite Ez, Nat.add_0_r.
      pose proof (P6 c d y Hd) as H6. rewrite (Hall y Hy) in H6. cbn [sn] in H6. change (5 <=? 6) with true in H6. rewrite andb_true_r in H6.
      destruct (Bool.eqb c (white s)) eqn:Ec.
      * apply Bool.eqb_prop in Ec. subst c. destruct H6 as [H6 H7]. rewrite H6, H7.
        rewrite (sum_zero (fun w => sent w (white s) d)); [reflexivity|].
        intros w Hw. pose proof (P3 w Hw) as H3. rewrite (Hall w Hw) in H3. apply H3.
      * unfold tot in H6. rewrite Ec, Nat.add_0_r in H6. exact H6.
  - destruct D as [D1 D2 D3 D4]. constructor; cbn [rks net white].
    + intros y' c Hy Hc. apply in_map_iff in Hy. destruct Hy as (y & <- & Hy). cbn in *. apply (D1 y c); auto.
    + intros y' c Hy Hp. apply in_map_iff in Hy. destruct Hy as (y & <- & Hy). cbn in Hp. discriminate.
    + intros y' u Hy Hp. apply in_map_iff in Hy. destruct Hy as (y & <- & Hy). cbn in Hp. discriminate.
    + intros m Hm Hcol. exfalso. rewrite Bool.negb_involutive in Hcol.
      pose proof (P5 m Hm) as Hlt. destruct (nth_error (rks s) (mdst m)) as [y|] eqn:Hd; [|apply nth_error_None in Hd; lia].
      assert (Hy : In y (rks s)) by (eapply nth_error_In; eauto).
      pose proof (P6 (white s) (mdst m) y Hd) as H6. rewrite (Hall y Hy), Bool.eqb_reflx in H6. cbn in H6. destruct H6 as [H6 _].
      exact (cnt_zero_in _ _ _ m H6 Hm eq_refl Hcol).
Qed.

Theorem step_inv s s' : Inv s -> step s s' -> Inv s'.
Proof.
  intros I S. destruct S.
  - apply step_extract; assumption.
  - apply (step_local s i x c t); assumption.
  - apply (step_remote s i x c d t); assumption.
  - apply step_finish; assumption.
  - apply (step_deliver s n1 m n2 y); assumption.
  - apply step_start; assumption.
  - apply step_flip; assumption.
  - apply step_contrib; assumption.
  - apply step_reduced; assumption.
  - apply step_whitedone; assumption.
  - apply step_publish; assumption.
  - apply step_gvt; assumption.
Qed.

(* ---------- initial states and the safety theorem ---------- *)
Definition rk0 (w : bool) (qs : list nat) : rk := mkRk Idle w None None qs (fun _ _ => 0) (fun _ => 0) (fun _ => 0) 0 None.
Definition init (w : bool) (queues : list (list nat)) : st := mkSt (map (rk0 w) queues) [] w.

Lemma init_inv w queues : Inv (init w queues).
Proof.
  split; constructor; cbn [init rks net white].
  - intros x Hx. apply in_map_iff in Hx. destruct Hx as (qs & <- & _). reflexivity.
  - intros x y Hx _ Hge. apply in_map_iff in Hx. destruct Hx as (qs & <- & _). cbn in Hge. lia.
  - intros x Hx. apply in_map_iff in Hx. destruct Hx as (qs & <- & _). cbn. reflexivity.
  - intros i x Hi Hge. apply nth_error_map_inv in Hi. destruct Hi as (qs & _ & ->). cbn in Hge. lia.
  - intros m [].
  - intros c d y Hd. apply nth_error_map_inv in Hd. destruct Hd as (qs & _ & ->). cbn [stg recv rk0 sn]. change (5 <=? 0) with false. rewrite andb_false_r.
    unfold tot. cbn [rks white].
    rewrite (sum_zero (fun x => sent x c d)) by (intros x Hx; apply in_map_iff in Hx; destruct Hx as (q0 & <- & _); reflexivity).
    rewrite (sum_zero (fun x => ctr x d)) by (intros x Hx; apply in_map_iff in Hx; destruct Hx as (q0 & <- & _); reflexivity).
    cbn. destruct (Bool.eqb c w); reflexivity.
  - intros x c Hx Hc. apply in_map_iff in Hx. destruct Hx as (qs & <- & _). discriminate.
  - intros x c Hx Hp. apply in_map_iff in Hx. destruct Hx as (qs & <- & _). discriminate.
  - intros x t Hx Hp. apply in_map_iff in Hx. destruct Hx as (qs & <- & _). discriminate.
  - intros m [].
Qed.

Inductive reach (s0 : st) : st -> Prop :=
| r_refl : reach s0 s0
| r_step : forall s s', reach s0 s -> step s s' -> reach s0 s'.

Lemma reach_inv s0 s : Inv s0 -> reach s0 s -> Inv s.
Proof. intros I R. induction R as [|s s' R IH S]; [exact I|]. apply (step_inv s s'); [exact IH|exact S]. Qed.

(* the result of the min reduction *)
Definition gvt_of (s : st) : option nat := fold_right (fun x a => omin (val x) a) None (rks s).
Lemma all_published_minbeta l : (forall y, In y l -> stg y = Published) -> minbeta l = fold_right (fun x a => omin (val x) a) None l.
Proof. induction l as [|y r IH]; simpl; auto. intros H. unfold beta at 1. rewrite (H y) by (left; auto).
  rewrite IH; [reflexivity|]. intros z Hz. apply H. right; auto. Qed.

Theorem gvt_node_safe w queues s : reach (init w queues) s -> (forall y, In y (rks s) -> stg y = Published) ->
  (forall y t, In y (rks s) -> In t (q y) -> ole (gvt_of s) t) /\
  (forall y c, In y (rks s) -> cur y = Some c -> ole (gvt_of s) c) /\
  (forall m, In m (net s) -> ole (gvt_of s) (mts m)).
Proof.
  intros R Hall. destruct (reach_inv _ s (init_inv w queues) R) as [P [D1 D2 D3 D4]].
  unfold gvt_of. rewrite <- (all_published_minbeta (rks s) Hall). split; [|split].
  - intros y t Hy Ht. apply (D3 y t); auto.
  - intros y c Hy Hc. apply (D2 y c); auto.
  - intros m Hm. apply D4; [exact Hm|].
    (* every rank is past Ready: no white message is in flight any more *)
    pose proof (i_dst s P m Hm) as Hlt. destruct (nth_error (rks s) (mdst m)) as [y|] eqn:Hd; [|apply nth_error_None in Hd; lia].
    assert (Hy : In y (rks s)) by (eapply nth_error_In; eauto).
    pose proof (i_cnt s P (white s) (mdst m) y Hd) as H6. rewrite (Hall y Hy), Bool.eqb_reflx in H6. cbn in H6. destruct H6 as [H6 _].
    pose proof (cnt_zero_in _ _ _ m H6 Hm eq_refl) as Hne. destruct (mcol m), (white s); try reflexivity; congruence.
Qed.

(* and what the counting is for: a rank leaves the wait only when no old-colour message addressed to it is in flight *)
Theorem white_received_before_publishing s d y : Inv s -> nth_error (rks s) d = Some y -> 5 <= sn (stg y) ->
  forall m, In m (net s) -> mdst m = d -> mcol m = negb (white s).
Proof.
  intros [P _] Hd Hge m Hm Hdst. pose proof (i_cnt s P (white s) d y Hd) as H6. rewrite Bool.eqb_reflx in H6.
  destruct (Nat.leb_spec 5 (sn (stg y))); [|lia]. cbn in H6. destruct H6 as [H6 _].
  pose proof (cnt_zero_in _ _ _ m H6 Hm Hdst) as Hne. destruct (mcol m), (white s); try reflexivity; congruence.
Qed.

(* ---------------- executable step function (replay of traced runs, examples) ---------------- *)
Inductive op :=
| OExtract (i t : nat) | OLocal (i t : nat) | ORemote (i d t : nat) | OFinish (i : nat) | ODeliver (k : nat)
| OStart (i : nat) | OFlip (i : nat) | OContrib (i : nat) | OReduced (i : nat) | OWhite (i : nat) | OPublish (i : nat) | OGvt.

Definition stage_eqb (a b : stage) : bool := Nat.eqb (sn a) (sn b).
Lemma stage_eqb_eq a b : stage_eqb a b = true -> a = b.
Proof. unfold stage_eqb. intros H. apply Nat.eqb_eq in H. destruct a, b; cbn in H; try reflexivity; discriminate. Qed.
Definition is_none {A} (o : option A) : bool := match o with None => true | Some _ => false end.

Definition nexec (s : st) (o : op) : option st :=
  match o with
  | OExtract i t =>
      match nth_error (rks s) i with
      | Some x => if is_none (cur x) && existsb (Nat.eqb t) (q x)
                  then Some (mkSt (upd (rks s) i (mkRk (stg x) (col x) (omin (acc x) (Some t)) (Some t) (remove1 t (q x)) (sent x) (ctr x) (recv x) (need x) (val x))) (net s) (white s))
                  else None
      | None => None end
  | OLocal i t =>
      match nth_error (rks s) i with
      | Some x => match cur x with
                  | Some c => if c <=? t then Some (mkSt (upd (rks s) i (mkRk (stg x) (col x) (acc x) (cur x) (t :: q x) (sent x) (ctr x) (recv x) (need x) (val x))) (net s) (white s)) else None
                  | None => None end
      | None => None end
  | ORemote i d t =>
      match nth_error (rks s) i with
      | Some x => match cur x with
                  | Some c => if (c <=? t) && (d <? length (rks s))
                              then Some (mkSt (upd (rks s) i (mkRk (stg x) (col x) (acc x) (cur x) (q x) (upbf (sent x) (col x) (upf (sent x (col x)) d (S (sent x (col x) d))))
                                                                   (ctr x) (recv x) (need x) (val x)))
                                              (mkM (col x) d t :: net s) (white s))
                              else None
                  | None => None end
      | None => None end
  | OFinish i =>
      match nth_error (rks s) i with
      | Some x => Some (mkSt (upd (rks s) i (mkRk (stg x) (col x) (acc x) None (q x) (sent x) (ctr x) (recv x) (need x) (val x))) (net s) (white s))
      | None => None end
  | ODeliver k =>
      match nth_error (net s) k with
      | Some m => match nth_error (rks s) (mdst m) with
                  | Some y => Some (mkSt (upd (rks s) (mdst m) (mkRk (stg y) (col y) (acc y) (cur y) (mts m :: q y) (sent y) (ctr y)
                                                                     (upb (recv y) (mcol m) (S (recv y (mcol m)))) (need y) (val y)))
                                         (firstn k (net s) ++ skipn (S k) (net s)) (white s))
                  | None => None end
      | None => None end
  | OStart i =>
      match nth_error (rks s) i with
      | Some x => if stage_eqb (stg x) Idle && is_none (cur x)
                  then Some (mkSt (upd (rks s) i (mkRk Started (col x) None None (q x) (sent x) (ctr x) (recv x) (need x) (val x))) (net s) (white s)) else None
      | None => None end
  | OFlip i =>
      match nth_error (rks s) i with
      | Some x => if stage_eqb (stg x) Started
                  then Some (mkSt (upd (rks s) i (mkRk Flipped (negb (col x)) (acc x) (cur x) (q x) (sent x) (ctr x) (recv x) (need x) (val x))) (net s) (white s)) else None
      | None => None end
  | OContrib i =>
      match nth_error (rks s) i with
      | Some x => if stage_eqb (stg x) Flipped
                  then Some (mkSt (upd (rks s) i (mkRk Contributed (col x) (acc x) (cur x) (q x) (upbf (sent x) (white s) (fun _ => 0)) (sent x (white s))
                                                       (recv x) (need x) (val x))) (net s) (white s)) else None
      | None => None end
  | OReduced i =>
      match nth_error (rks s) i with
      | Some x => if stage_eqb (stg x) Contributed && forallb (fun y => 3 <=? sn (stg y)) (rks s)
                  then Some (mkSt (upd (rks s) i (mkRk Waiting (col x) (acc x) (cur x) (q x) (sent x) (ctr x) (recv x) (sum (fun y => ctr y i) (rks s)) (val x))) (net s) (white s))
                  else None
      | None => None end
  | OWhite i =>
      match nth_error (rks s) i with
      | Some x => if stage_eqb (stg x) Waiting && Nat.eqb (recv x (white s)) (need x)
                  then Some (mkSt (upd (rks s) i (mkRk Ready (col x) (acc x) (cur x) (q x) (sent x) (ctr x) (upb (recv x) (white s) 0) (need x) (val x))) (net s) (white s))
                  else None
      | None => None end
  | OPublish i =>
      match nth_error (rks s) i with
      | Some x => if stage_eqb (stg x) Ready && is_none (cur x)
                  then Some (mkSt (upd (rks s) i (mkRk Published (col x) (acc x) None (q x) (sent x) (ctr x) (recv x) (need x) (omin (acc x) (lmin (q x))))) (net s) (white s))
                  else None
      | None => None end
  | OGvt =>
      if forallb (fun y => stage_eqb (stg y) Published) (rks s)
      then Some (mkSt (map (fun y => mkRk Idle (col y) (acc y) (cur y) (q y) (sent y) (fun _ => 0) (recv y) (need y) (val y)) (rks s)) (net s) (negb (white s)))
      else None
  end.

Lemma is_none_eq {A} (o : option A) : is_none o = true -> o = None.
Proof. destruct o; [discriminate|reflexivity]. Qed.

Theorem nexec_sound s o s' : nexec s o = Some s' -> step s s'.
Proof.
  destruct o as [i t|i t|i d t|i|k|i|i|i|i|i|i|]; cbn [nexec];
    try (destruct (nth_error (rks s) i) as [x|] eqn:Hi; [|discriminate]).
  - destruct (is_none (cur x) && existsb (Nat.eqb t) (q x)) eqn:G; [|discriminate]. intros [= <-].
    apply andb_true_iff in G. destruct G as [G1 G2]. apply existsb_exists in G2. destruct G2 as (u & Hu & E). apply Nat.eqb_eq in E. subst u.
    apply s_extract; [exact Hi|apply is_none_eq; exact G1|exact Hu].
  - destruct (cur x) as [c|] eqn:Hc; [|discriminate]. destruct (Nat.leb_spec c t); [|discriminate]. intros [= <-]. rewrite <- Hc.
    apply (s_local s i x c t); assumption.
  - destruct (cur x) as [c|] eqn:Hc; [|discriminate]. destruct ((c <=? t) && (d <? length (rks s))) eqn:G; [|discriminate]. intros [= <-].
    apply andb_true_iff in G. destruct G as [G1 G2]. apply Nat.leb_le in G1. apply Nat.ltb_lt in G2. rewrite <- Hc.
    apply (s_remote s i x c d t); assumption.
  - intros [= <-]. apply s_finish. exact Hi.
  - destruct (nth_error (net s) k) as [m|] eqn:Hk; [|discriminate]. destruct (nth_error (rks s) (mdst m)) as [y|] eqn:Hy; [|discriminate].
    intros [= <-]. apply (s_deliver s (firstn k (net s)) m (skipn (S k) (net s)) y); [|exact Hy].
    clear Hy. revert k Hk. generalize (net s). intros l. induction l as [|a r IH]; intros [|k] Hk; cbn in Hk; try discriminate.
    + injection Hk as ->. reflexivity.
    + cbn [firstn skipn app]. f_equal. apply IH. exact Hk.
  - destruct (stage_eqb (stg x) Idle && is_none (cur x)) eqn:G; [|discriminate]. intros [= <-]. apply andb_true_iff in G. destruct G as [G1 G2].
    apply s_start; [exact Hi|apply stage_eqb_eq; exact G1|apply is_none_eq; exact G2].
  - destruct (stage_eqb (stg x) Started) eqn:G; [|discriminate]. intros [= <-]. apply s_flip; [exact Hi|apply stage_eqb_eq; exact G].
  - destruct (stage_eqb (stg x) Flipped) eqn:G; [|discriminate]. intros [= <-]. apply s_contrib; [exact Hi|apply stage_eqb_eq; exact G].
  - destruct (stage_eqb (stg x) Contributed && forallb (fun y => 3 <=? sn (stg y)) (rks s)) eqn:G; [|discriminate]. intros [= <-].
    apply andb_true_iff in G. destruct G as [G1 G2]. rewrite forallb_forall in G2.
    apply s_reduced; [exact Hi|apply stage_eqb_eq; exact G1|intros y Hy; apply Nat.leb_le; apply G2; exact Hy].
  - destruct (stage_eqb (stg x) Waiting && Nat.eqb (recv x (white s)) (need x)) eqn:G; [|discriminate]. intros [= <-].
    apply andb_true_iff in G. destruct G as [G1 G2]. apply s_whitedone; [exact Hi|apply stage_eqb_eq; exact G1|apply Nat.eqb_eq; exact G2].
  - destruct (stage_eqb (stg x) Ready && is_none (cur x)) eqn:G; [|discriminate]. intros [= <-]. apply andb_true_iff in G. destruct G as [G1 G2].
    apply s_publish; [exact Hi|apply stage_eqb_eq; exact G1|apply is_none_eq; exact G2].
  - destruct (forallb (fun y => stage_eqb (stg y) Published) (rks s)) eqn:G; [|discriminate]. intros [= <-]. rewrite forallb_forall in G.
    apply s_gvt. intros y Hy. apply stage_eqb_eq. apply G. exact Hy.
Qed.

Fixpoint nrun (s : st) (ops : list op) : option st :=
  match ops with [] => Some s | o :: r => match nexec s o with Some s' => nrun s' r | None => None end end.
Lemma nrun_reach s0 ops : forall s s', reach s0 s -> nrun s ops = Some s' -> reach s0 s'.
Proof.
  induction ops as [|o r IH]; intros s s' R E; cbn in E; [injection E as <-; exact R|].
  destruct (nexec s o) as [s1|] eqn:E1; [|discriminate]. apply (IH s1 s'); [|exact E]. eapply r_step; [exact R|]. apply (nexec_sound s o s1). exact E1.
Qed.

(* every state a replayed trace goes through satisfies the invariant; at the end of a round the safety statement applies *)
Theorem nrun_inv w queues ops s : nrun (init w queues) ops = Some s -> Inv s.
Proof.
  intros E. assert (R : reach (init w queues) s) by exact (nrun_reach (init w queues) ops (init w queues) s (r_refl _) E).
  exact (reach_inv _ _ (init_inv w queues) R).
Qed.

(* non-vacuity: two ranks; a white message crosses the flip, a red one is still in flight when both ranks have published *)
Definition ex_ops : list op :=
  [OStart 0; OStart 1; OExtract 0 5; ORemote 0 1 6; OFinish 0; OFlip 0; OFlip 1; OContrib 0; OContrib 1; OReduced 0; OReduced 1;
   OWhite 0; ODeliver 0; OWhite 1; OExtract 1 6; ORemote 1 0 9; OFinish 1; OPublish 0; OPublish 1].
Example ex_round : match nrun (init false [[5]; [7]]) ex_ops with
                   | Some s => forallb (fun y => stage_eqb (stg y) Published) (rks s) = true /\ gvt_of s = Some 5 /\ map mts (net s) = [9]
                   | None => False end.
Proof. vm_compute. repeat split. Qed.
Example ex_premature_wait_refused :   (* rank 1 cannot leave the wait while the white message is in flight *)
  nrun (init false [[5]; [7]]) [OStart 0; OStart 1; OExtract 0 5; ORemote 0 1 6; OFinish 0; OFlip 0; OFlip 1; OContrib 0; OContrib 1; OReduced 0; OReduced 1; OWhite 1] = None.
Proof. vm_compute. reflexivity. Qed.

(* names used by the extracted replay driver *)
Definition gn_init (w : bool) (queues : list (list nat)) : st := init w queues.
Definition gn_exec (s : st) (o : op) : option st := nexec s o.
Definition gn_gvt (s : st) : option nat := gvt_of s.
Definition gn_col (s : st) (i : nat) : bool := match nth_error (rks s) i with Some x => col x | None => false end.
Definition gn_ctr (s : st) (i d : nat) : nat := match nth_error (rks s) i with Some x => ctr x d | None => 0 end.
Definition gn_need (s : st) (i : nat) : nat := match nth_error (rks s) i with Some x => need x | None => 0 end.
Definition gn_recv (s : st) (i : nat) (c : bool) : nat := match nth_error (rks s) i with Some x => recv x c | None => 0 end.
Definition gn_stage (s : st) (i : nat) : nat := match nth_error (rks s) i with Some x => sn (stg x) | None => 0 end.
Fixpoint find_msg (n : list msg) (i : nat) (c : bool) (k : nat) : option nat :=
  match n with
  | [] => None
  | m :: r => if Nat.eqb (mdst m) i && Bool.eqb (mcol m) c then Some k else find_msg r i c (S k)
  end.
Definition gn_find (s : st) (i : nat) (c : bool) : option nat := find_msg (net s) i c 0.
Definition gn_inflight (s : st) : nat := length (net s).
