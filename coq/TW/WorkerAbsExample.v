(* Non-vacuity of the refinement theorems of TW/WorkerAbs.v: the premises hold for a concrete program and a script that makes
   LP 0 roll back (a late time-0 event), cancel what it sent to LP 1 (already processed there: the notice rolls LP 1 back and
   annihilates the message) and send it again; at the end nothing is pending and the processed sequences are the sequential ones. *)
From Coq Require Import List ZArith NArith PArith Bool.
From RS Require Import TW.App TW.Worker TW.WorkerSafety TW.WorkerOnceApp TW.WorkerOnceExample TW.AppAbs TW.WorkerAbs.
Import ListNotations.
Local Open Scope N_scope.

Definition ex_ops : list wop := ex_script ++ [OpE 100].
Example ex_premises : prog_valid ex_prog = true /\ types_okb ex_prog = true /\ forallb no_gvt_op ex_ops = true /\
  pend (fold_left (wstep ex_prog 1) ex_ops (w_init ex_prog)) = [].
Proof. vm_compute. repeat split. Qed.
(* what each LP has processed at the end: contents (time, type, payload) in order *)
Example ex_processed :
  map evc (processed (fold_left (wstep ex_prog 1) ex_ops (w_init ex_prog)) 0) = [(0, 3, []); (1, 1, [])] /\
  map evc (processed (fold_left (wstep ex_prog 1) ex_ops (w_init ex_prog)) 1) = [(2, 2, [])].
Proof. vm_compute. split; reflexivity. Qed.
