(* Non-vacuity of the refinement theorems of TW/WorkerAbs.v: the premises hold for a concrete program and a script that makes
   LP 0 roll back (a late time-0 event), cancel what it sent to LP 1 (already processed there: the notice rolls LP 1 back and
   annihilates the message) and send it again; at the end nothing is pending and the processed sequences are the sequential ones; and (the pp_ examples) a script with GVT
   announcements after which fossil collection has released a prefix of every history. *)
From Coq Require Import List ZArith NArith PArith Bool.
From RS Require Import TW.App TW.Worker TW.WorkerSafety TW.WorkerOnceApp TW.WorkerOnceExample TW.AppAbs TW.WorkerAbs.
Import ListNotations.
Local Open Scope N_scope.

Definition ex_ops : list wop := ex_script ++ [OpE 100].
Example ex_premises : prog_valid ex_prog = true /\ types_okb ex_prog = true /\
  pend (fold_left (wstep ex_prog 1) ex_ops (w_init ex_prog)) = [].
Proof. vm_compute. repeat split. Qed.
(* what each LP has processed at the end: contents (time, type, payload) in order *)
Example ex_processed :
  map evc (retained (fold_left (wstep ex_prog 1) ex_ops (w_init ex_prog)) 0) = [(0, 3, []); (1, 1, [])] /\
  map evc (retained (fold_left (wstep ex_prog 1) ex_ops (w_init ex_prog)) 1) = [(2, 2, [])].
Proof. vm_compute. split; reflexivity. Qed.

(* with GVT announcements and fossil collections: two LPs exchange one event back and forth; after two announcements the
   events at times 1..6 have been released, the retained histories are the tails at and above the GVT (7), one event is pending *)
Definition pp_prog : prog := mkProg 2 1 100 7 0 [] [(0, 1, 1, 0)] [(1, 0, mkRow [] [] [mkOut 3 1 1 1 0])].
Definition pp_ops : list wop := [OpP 4; OpG 0; OpP 3; OpG 1; OpP 2].
Definition pp_w : worker := fold_left (wstep pp_prog 1) pp_ops (w_init pp_prog).
Example pp_premises : prog_valid pp_prog = true /\ types_okb pp_prog = true /\ k_err pp_w = false /\ k_gvt pp_w = 7%Z.
Proof. vm_compute. repeat split. Qed.
Example pp_retained :
  map evc (retained pp_w 0) = [(7, 1, []); (9, 1, [])] /\ map evc (retained pp_w 1) = [(8, 1, [])] /\ map evc (pend pp_w) = [(10, 1, [])] /\
  map (fun x => length (x_hist x)) (k_lps pp_w) = [4%nat; 2%nat].
Proof. vm_compute. repeat split. Qed.
