(* The reference semantics: a textbook event-list executor.  Pending events are kept in a list sorted by
   the runtime's event order; the head is taken, handled, and its outputs inserted.  LP_INIT for every LP
   first; the run stops when every LP's predicate holds, when the queue empties, or when the head's
   timestamp reaches the termination time (an input).  Executable definitions only. *)
From Coq Require Import NArith ZArith List Bool.
From RS Require Import Rng.RngDefs Order.MsgOrderDefs TW.App.
Import ListNotations.
Local Open Scope N_scope.

Fixpoint insert_ev (e : event) (l : list event) : list event :=
  match l with
  | [] => [e]
  | x :: r => if ev_before e x then e :: l else x :: insert_ev e r
  end.

Fixpoint set_lp (l : list lpstate) (i : nat) (v : lpstate) : list lpstate :=
  match l, i with
  | [], _ => []
  | _ :: r, O => v :: r
  | x :: r, S k => x :: set_lp r k v
  end.

Definition dummy_lp := mkLp 0 0 [] (mkRng 0 0 0 0).

Record seqstate := mkSeq {
  q_pending : list event;
  q_lps : list lpstate;
  q_done : list bool;           (* termination recorded per LP (serial: only after an event of that LP) *)
  q_log : list event            (* dispatch sequence, newest first *)
}.

Fixpoint init_lps (p : prog) (n : nat) (me : N) (acc : list lpstate) (pend : list event) : list lpstate * list event :=
  match n with
  | O => (rev acc, pend)
  | S k => let '(st, evs) := lp_init p me in
           init_lps p k (me + 1) (st :: acc) (fold_left (fun q e => insert_ev e q) evs pend)
  end.

(* eval_at_init: whether the predicate is evaluated on the state produced by LP_INIT (the parallel runtime
   does; serial.c only looks at an LP after one of its events) *)
Definition seq_init (p : prog) (eval_at_init : bool) : seqstate :=
  let '(lps, pend) := init_lps p (N.to_nat (p_lps p)) 0 [] [] in
  mkSeq pend lps (map (fun x => eval_at_init && can_end p (N.of_nat (fst x)) (snd x)) (combine (seq 0 (length lps)) lps)) [].

Fixpoint set_bool (l : list bool) (i : nat) (v : bool) : list bool :=
  match l, i with
  | [], _ => []
  | _ :: r, O => v :: r
  | x :: r, S k => x :: set_bool r k v
  end.

(* one step: None when the run is over *)
Definition seq_step (p : prog) (tend : option N) (stop_on_done : bool) (s : seqstate) : option seqstate :=
  match q_pending s with
  | [] => None
  | e :: rest =>
      if stop_on_done && forallb (fun b => b) (q_done s) then None else
      match tend with Some te => if te <=? e_t e then None else
        let i := N.to_nat (e_dest e) in
        let '(st', outs) := handle p e (nth i (q_lps s) dummy_lp) in
        Some (mkSeq (fold_left (fun q x => insert_ev x q) outs rest) (set_lp (q_lps s) i st')
                    (if can_end p (e_dest e) st' then set_bool (q_done s) i true else q_done s) (e :: q_log s))
      | None =>
        let i := N.to_nat (e_dest e) in
        let '(st', outs) := handle p e (nth i (q_lps s) dummy_lp) in
        Some (mkSeq (fold_left (fun q x => insert_ev x q) outs rest) (set_lp (q_lps s) i st')
                    (if can_end p (e_dest e) st' then set_bool (q_done s) i true else q_done s) (e :: q_log s))
      end
  end.

Fixpoint seq_run (fuel : nat) (p : prog) (tend : option N) (stop_on_done : bool) (s : seqstate) : seqstate * bool :=
  match fuel with
  | O => (s, false)                        (* out of fuel: the boolean says the run did not finish *)
  | S k => match seq_step p tend stop_on_done s with
           | None => (s, true)
           | Some s' => seq_run k p tend stop_on_done s'
           end
  end.
