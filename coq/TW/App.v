(* The synthetic interpreter application (Gallina twin of harness/app.c): one ProcessEvent / CanEnd pair
   interpreting a generated program table.  The LP state carries a 64-bit hash chain, so the final value
   of [acc] determines the whole sequence of events the LP processed, the payloads it saw, the library RNG
   draws it made and the buffer words it read back.  Executable definitions only. *)
From Coq Require Import NArith ZArith List Bool.
From RS Require Import Rng.RngDefs Order.MsgOrderDefs.
Import ListNotations.
Local Open Scope N_scope.

Definition GOLD : N := 11400714819323198485.   (* 0x9E3779B97F4A7C15 *)
Definition GOLD2 : N := 13787848793156543929.  (* 0xBF58476D1CE4E5B9 *)
Definition SEEDC : N := 1311768467463790320.   (* 0x123456789ABCDEF0 *)

(* 64-bit mixing step, built from shifts, xors and one addition only (cheap to evaluate on binary numbers):
   xorshift64 of (x xor v), plus the golden-ratio constant, modulo 2^64 *)
Definition MASK64 : N := 18446744073709551615.
Definition m64 (x : N) : N := N.land x MASK64.
Definition mix (x v : N) : N :=
  let a := N.lxor x v in
  let b := N.lxor a (m64 (N.shiftl a 13)) in
  let c := N.lxor b (N.shiftr b 7) in
  let d := N.lxor c (m64 (N.shiftl c 17)) in
  m64 (d + GOLD).

Record outspec := mkOut { o_rule : N; o_arg : N; o_dt : N; o_type : N; o_size : N }.
Record row := mkRow { r_draws : list N; r_mem : list (N * N * N); r_outs : list outspec }.
Record prog := mkProg {
  p_lps : N; p_ncls : N; p_target : N; p_seed : N;
  p_plmode : N;                            (* 1: the first 32 payload bytes depend on the event type only (payload ties beyond byte 32) *)
  p_targets : list (N * N);                (* per-LP override of the target: (lp, target) *)
  p_inits : list (N * N * N * N);          (* lp, ticks, type, size *)
  p_rows : list (N * N * row)              (* (type, class) -> row *)
}.

Definition empty_row := mkRow [] [] [].
Fixpoint lookup_row (rows : list (N * N * row)) (ty cls : N) : row :=
  match rows with
  | [] => empty_row
  | (t, c, r) :: rest => if (t =? ty) && (c =? cls) then r else lookup_row rest ty cls
  end.

Record lpstate := mkLp { l_acc : N; l_cnt : N; l_slots : list (option (N * N)); l_rng : rng }.

Record event := mkEv { e_dest : N; e_t : N; e_type : N; e_pl : list N }.

(* ---- payload bytes produced for output j from accumulator a ---- *)
Fixpoint bytes_le (n : nat) (x : N) : list N :=
  match n with O => [] | S k => N.land x 255 :: bytes_le k (N.shiftr x 8) end.

Fixpoint payload_words (k : nat) (idx : N) (f : N -> N) : list N :=
  match k with O => [] | S k' => bytes_le 8 (f idx) ++ payload_words k' (idx + 1) f end.

Definition make_payload (mode a j sz ty : N) : list N :=
  firstn (N.to_nat sz)
    (payload_words (N.to_nat ((sz + 7) / 8)) 0
       (fun k => if (mode =? 1) && (k <? 4) then mix (ty + 1000) (k + 1) else mix a (j * 16 + 1 + k))).

(* ---- payload digest on receipt: 8-byte little-endian words, the last one zero padded ---- *)
Fixpoint word_of (bs : list N) (n : nat) : N :=
  match n with
  | O => 0
  | S k => match bs with [] => 0 | b :: r => N.lor b (N.shiftl (word_of r k) 8) end
  end.

Fixpoint digest_words (fuel : nat) (a : N) (bs : list N) : N :=
  match fuel with
  | O => a
  | S k => match bs with
           | [] => a
           | _ => digest_words k (mix a (word_of bs 8)) (skipn 8 bs)
           end
  end.

Definition digest_payload (a : N) (pl : list N) : N := digest_words (S (length pl / 8)) a pl.

(* ---- library RNG draws ---- *)
Definition do_draw (kind : N) (st : N * rng) : N * rng :=
  let '(a, g) := st in
  let '(u, g') := random_u64 g in
  if kind =? 0 then (mix a u, g')
  else match random_bits u with
       | None => (a, g')
       | Some b => if kind =? 1 then (mix a b, g')
                   else (mix a (Z.to_N (random_range b 0 9) + 1), g')
       end.

(* ---- buffer slots: Some (seed, nwords): word i holds (seed + i * GOLD2) mod 2^64 ---- *)
Definition slot_word (seed i : N) : N := u64 (seed + i * GOLD2).

Fixpoint set_slot (l : list (option (N * N))) (i : nat) (v : option (N * N)) :=
  match l, i with
  | [], _ => []
  | _ :: r, O => v :: r
  | x :: r, S k => x :: set_slot r k v
  end.

Definition do_mem (op : N * N * N) (st : N * list (option (N * N))) : N * list (option (N * N)) :=
  let '(a, sl) := st in
  let '(o, s, n) := op in
  let i := N.to_nat s in
  let cur := nth i sl None in
  if o =? 1 then (mix a n, set_slot sl i (Some (a, n)))
  else if o =? 2 then (mix a 2, set_slot sl i None)
  else if o =? 3 then
    match cur with
    | None => (mix a n, set_slot sl i (Some (a, n)))
    | Some (seed, _) => (mix a (n + 3), set_slot sl i (Some (seed, n)))
    end
  else if o =? 4 then
    match cur with
    | None => (mix a 4, sl)
    | Some (seed, n0) =>
        let a1 := mix a (slot_word seed 0) in
        let a2 := mix a1 (slot_word seed (n0 - 1)) in
        (mix a2 (slot_word seed (a mod n0)), sl)
    end
  else (a, sl).

Definition dest_of (p : prog) (me a : N) (o : outspec) : N :=
  if o_rule o =? 0 then me
  else if o_rule o =? 1 then o_arg o mod p_lps p
  else if o_rule o =? 2 then a mod p_lps p
  else (me + o_arg o) mod p_lps p.

Fixpoint make_outs (p : prog) (me now a : N) (j : N) (os : list outspec) : list event :=
  match os with
  | [] => []
  | o :: r => mkEv (dest_of p me a o) (now + o_dt o) (o_type o) (make_payload (p_plmode p) a j (o_size o) (o_type o))
              :: make_outs p me now a (j + 1) r
  end.

(* LP_INIT *)
Definition lp_init (p : prog) (me : N) : lpstate * list event :=
  let a0 := mix SEEDC me in
  let inits := filter (fun x => let '(l, _, _, _) := x in l =? me) (p_inits p) in
  let fix go (j : N) (l : list (N * N * N * N)) :=
    match l with
    | [] => []
    | (_, t, ty, sz) :: r => mkEv me t ty (make_payload (p_plmode p) a0 j sz ty) :: go (j + 1) r
    end in
  (mkLp a0 0 [None; None; None; None] (rng_init me (p_seed p)), go 0 inits).

Fixpoint target_of (l : list (N * N)) (dflt me : N) : N :=
  match l with [] => dflt | (lp, t) :: r => if lp =? me then t else target_of r dflt me end.
Definition can_end (p : prog) (me : N) (st : lpstate) : bool := target_of (p_targets p) (p_target p) me <=? l_cnt st.

(* ProcessEvent for an ordinary event *)
Definition handle (p : prog) (ev : event) (st : lpstate) : lpstate * list event :=
  if can_end p (e_dest ev) st then (st, []) else
  let a1 := mix (mix (mix (l_acc st) (e_t ev)) (e_type ev)) (N.of_nat (length (e_pl ev))) in
  let a2 := digest_payload a1 (e_pl ev) in
  let r := lookup_row (p_rows p) (e_type ev) (l_cnt st mod p_ncls p) in
  let '(a3, g) := fold_left (fun s k => do_draw k s) (r_draws r) (a2, l_rng st) in
  let '(a4, sl) := fold_left (fun s o => do_mem o s) (r_mem r) (a3, l_slots st) in
  (mkLp a4 (l_cnt st + 1) sl g, make_outs p (e_dest ev) (e_t ev) a4 0 (r_outs r)).

(* the runtime's view of an event *)
Definition msg_of (e : event) : msg :=
  mkMsg 0 (Z.of_N (e_dest e)) (Z.of_N (e_t e)) 0 0 0 0 (Z.of_N (e_type e))
        (Z.of_nat (length (e_pl e))) (map Z.of_N (e_pl e)).
Definition ev_before (a b : event) : bool := before (msg_of a) (msg_of b).
