(* Non-vacuity of the process.c-level termination theorems (TW/WorkerTermProofs.v): LP 0's predicate (one event processed) first
   holds on a speculative event at time 1; a time-0 event that the network held back then lands as a straggler: the rollback clears
   the recorded termination time (old_t = 1 is not below the straggler's time) and the forward execution of the straggler records
   time 0.  LP 1 (target 5) never terminates, so the thread does not vote. *)
From Coq Require Import List ZArith NArith PArith Bool.
From RS Require Import TW.App TW.Worker TW.WorkerSafety TW.WorkerOnceApp TW.Term TW.WorkerTerm.
Import ListNotations.
Local Open Scope N_scope.

Definition tx_prog : prog :=
  mkProg 2 1 1 7 0 [(1, 5)] [(0, 0, 3, 0); (0, 1, 1, 0)]
         [(1, 0, mkRow [] [] [mkOut 1 1 1 2 0]); (2, 0, mkRow [] [] []); (3, 0, mkRow [] [] [])].
Definition tx_run (ops : list wop) : tw := fold_left (twstep tx_prog 1 1000%Z) ops (tw_init tx_prog 1000%Z).

Example tx_premises : types_okb tx_prog = true.
Proof. vm_compute. reflexivity. Qed.
Example tx_speculative : tdigest (tw_t (tx_run [OpH 1; OpP 2])) = (1%Z, 1%Z, [1%Z; (-1)%Z]).
Proof. vm_compute. reflexivity. Qed.
Example tx_after_straggler :
  msg_term_ops tx_prog 1 (tw_w (tx_run [OpH 1; OpP 2; OpU 0])) = [Rb 0 0%Z 1; Proc 0 0%Z true] /\
  tdigest (tw_t (tx_run [OpH 1; OpP 2; OpU 0; OpP 1])) = (1%Z, 1%Z, [0%Z; (-1)%Z]) /\
  tw_ovf (tx_run [OpH 1; OpP 2; OpU 0; OpP 1; OpE 10]) = false /\
  votes (tw_t (tx_run [OpH 1; OpP 2; OpU 0; OpP 1; OpE 10])) 500%Z 1000%Z = false.
Proof. vm_compute. repeat split. Qed.
